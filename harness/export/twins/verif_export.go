//go:build verif

package twins

import "github.com/relab/hotstuff"

// Thin wrappers for the /verif harness (C18). Injected with `go build -overlay`; never part of /repo.

// VerifAssignNodeIDs exposes assignNodeIDs.
func VerifAssignNodeIDs(numNodes, numTwins uint8) (nodes, twins []NodeID) {
	return assignNodeIDs(numNodes, numTwins)
}

// VerifGenPartitionSizes exposes genPartitionSizes.
func VerifGenPartitionSizes(n, k, minSize uint8) [][]uint8 { return genPartitionSizes(n, k, minSize) }

// VerifTwinPairs exposes generateTwinPartitionPairs.
func VerifTwinPairs(n uint8) [][2]uint8 {
	var out [][2]uint8
	for _, p := range generateTwinPartitionPairs(n) {
		out = append(out, [2]uint8(p))
	}
	return out
}

// VerifIsValidTwinAssignment exposes isValidTwinAssignment.
func VerifIsValidTwinAssignment(as [][2]uint8, sizes []uint8) bool {
	ta := make([]twinAssignment, len(as))
	for i := range as {
		ta[i] = twinAssignment(as[i])
	}
	return isValidTwinAssignment(ta, sizes)
}

// VerifGenPartitionScenarios exposes genPartitionScenarios.
func VerifGenPartitionScenarios(twins, nodes []NodeID, k, min uint8) [][]NodeSet {
	return genPartitionScenarios(twins, nodes, k, min)
}

// VerifLeadersPartitions returns the generator's current per-view alphabet (in its current order).
func VerifLeadersPartitions(g *Generator) []View {
	g.mut.Lock()
	defer g.mut.Unlock()
	return append([]View(nil), g.leadersPartitions...)
}

// VerifOffsets returns the generator's per-view offsets.
func VerifOffsets(g *Generator) []int {
	g.mut.Lock()
	defer g.mut.Unlock()
	return append([]int(nil), g.offsets...)
}

// VerifAllNodes returns the generator's node list.
func VerifAllNodes(g *Generator) []NodeID { return append([]NodeID(nil), g.allNodes...) }

// VerifCheckCommits runs the real checkCommits on a network that holds only the given commit logs:
// logs[i] are the executed blocks of node ids[i]; nodes with equal ReplicaID form a twin group.
func VerifCheckCommits(ids []NodeID, logs [][]*hotstuff.Block) (safe bool, commits int) {
	n := &Network{
		nodes:    make(map[NodeID]*node),
		replicas: make(map[hotstuff.ID][]*node),
	}
	for i, id := range ids {
		nd := &node{id: id, executedBlocks: logs[i]}
		n.nodes[id] = nd
		n.replicas[id.ReplicaID] = append(n.replicas[id.ReplicaID], nd)
	}
	return checkCommits(n)
}

// VerifGetBlocks runs the real getBlocks on the same kind of synthetic network.
func VerifGetBlocks(ids []NodeID, logs [][]*hotstuff.Block) map[NodeID][]*hotstuff.Block {
	n := &Network{
		nodes:    make(map[NodeID]*node),
		replicas: make(map[hotstuff.ID][]*node),
	}
	for i, id := range ids {
		nd := &node{id: id, executedBlocks: logs[i]}
		n.nodes[id] = nd
		n.replicas[id.ReplicaID] = append(n.replicas[id.ReplicaID], nd)
	}
	return getBlocks(n)
}

// VerifJump puts the generator's odometer in the state it has after c successful NextScenario
// calls (indices = the base-len(alphabet) digits of c, one per view, most significant first;
// remaining = total - c). The caller guarantees c < total = len(alphabet)^views, so this is a
// state the real call sequence reaches; it lets the harness exercise the end of large enumerations.
func VerifJump(g *Generator, c, total uint64) {
	g.mut.Lock()
	defer g.mut.Unlock()
	l := uint64(len(g.leadersPartitions))
	x := c
	for i := len(g.indices) - 1; i >= 0; i-- {
		g.indices[i] = int(x % l)
		x /= l
	}
	g.remaining = int64(total - c)
}
