//go:build verif

package blockchain

import "github.com/relab/hotstuff"

// VerifSnapshot copies the unexported maps for the verification harness (read only).
func (chain *Blockchain) VerifSnapshot() (blocks map[hotstuff.Hash]*hotstuff.Block, atHeight map[hotstuff.View]*hotstuff.Block, pruneHeight hotstuff.View) {
	chain.mut.Lock()
	defer chain.mut.Unlock()
	blocks = make(map[hotstuff.Hash]*hotstuff.Block, len(chain.blocks))
	for k, v := range chain.blocks {
		blocks[k] = v
	}
	atHeight = make(map[hotstuff.View]*hotstuff.Block, len(chain.blockAtHeight))
	for k, v := range chain.blockAtHeight {
		atHeight[k] = v
	}
	return blocks, atHeight, chain.pruneHeight
}
