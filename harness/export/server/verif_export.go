//go:build verif

package server

import "github.com/relab/hotstuff/internal/proto/hotstuffpb"

// VerifService exposes the unexported Consensus service implementation (the gorums handlers
// Propose, Vote, NewView, Timeout, RequestBlock) of srv to the verification harness.
func VerifService(srv *Server) hotstuffpb.ConsensusServer { return &serviceImpl{srv} }
