//go:build verif

package server

import (
	"github.com/relab/hotstuff/internal/proto/clientpb"
	"github.com/relab/hotstuff/internal/proto/hotstuffpb"
)

// VerifService exposes the unexported Consensus service implementation (the gorums handlers
// Propose, Vote, NewView, Timeout, RequestBlock) of srv to the verification harness.
func VerifService(srv *Server) hotstuffpb.ConsensusServer { return &serviceImpl{srv} }

// VerifAwaiting reports whether a client is waiting for the outcome of the command id, and how
// many clients are waiting in total.
func (srv *ClientIO) VerifAwaiting(id clientpb.MessageID) (bool, int) {
	srv.mut.Lock()
	defer srv.mut.Unlock()
	_, ok := srv.awaitingCmds[id]
	return ok, len(srv.awaitingCmds)
}
