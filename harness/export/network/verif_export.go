//go:build verif

package network

import "github.com/relab/hotstuff/internal/proto/hotstuffpb"

// VerifRequestBlockQF exposes the gorums quorum function of the RequestBlock quorum call
// (qspec.RequestBlockQF) to the verification harness.
func VerifRequestBlockQF(in *hotstuffpb.BlockHash, replies map[uint32]*hotstuffpb.Block) (*hotstuffpb.Block, bool) {
	return qspec{}.RequestBlockQF(in, replies)
}
