//go:build verif

package clientpb

// Read-only views for the /verif harness (injected with `go build -overlay`, never part of /repo).

// VerifReadyLen reports whether the ready token is in the channel (0 or 1).
func (c *CommandCache) VerifReadyLen() int { return len(c.ready) }

// VerifSnapshot returns copies of the cached commands (in cache order) and of the per-client marks.
func (c *CommandCache) VerifSnapshot() ([]*Command, map[uint32]uint64) {
	c.mut.Lock()
	defer c.mut.Unlock()
	cache := make([]*Command, len(c.cache))
	copy(cache, c.cache)
	seq := make(map[uint32]uint64, len(c.clientSeqNumbers))
	for k, v := range c.clientSeqNumbers {
		seq[k] = v
	}
	return cache, seq
}
