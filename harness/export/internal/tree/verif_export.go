//go:build verif

package tree

import "github.com/relab/hotstuff"

// Thin wrappers injected by the /verif overlay (never written into the repository).

// VerifTreeHeight exposes the unexported treeHeight.
func VerifTreeHeight(numNodes, bf int) int { return treeHeight(numNodes, bf) }

// VerifHeightOf exposes the unexported heightOf.
func (t Tree) VerifHeightOf(id hotstuff.ID) int { return t.heightOf(id) }
