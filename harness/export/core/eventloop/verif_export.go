//go:build verif

package eventloop

// Thin wrappers injected by the /verif overlay (never written into the repository): they expose
// the unexported bounded queue and the length of an event loop's queue to the harness.

// VerifQueue wraps the unexported queue.
type VerifQueue struct{ q queue }

// VerifNewQueue calls newQueue.
func VerifNewQueue(capacity uint) *VerifQueue {
	v := &VerifQueue{}
	v.q = newQueue(capacity)
	return v
}

// Push calls push.
func (v *VerifQueue) Push(x any) any { return v.q.push(x) }

// Pop calls pop.
func (v *VerifQueue) Pop() (any, bool) { return v.q.pop() }

// Len calls len.
func (v *VerifQueue) Len() int { return v.q.len() }

// VerifQueueLen returns el.eventQ.len().
func VerifQueueLen(el *EventLoop) int { return el.eventQ.len() }

// VerifTickerID reports the ticker id of a ticker's start event (the internal event AddTicker queues).
func VerifTickerID(ev any) (int, bool) {
	e, ok := ev.(startTickerEvent)
	return e.tickerID, ok
}
