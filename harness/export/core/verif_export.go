//go:build verif

package core

// VerifSetSyncVerification switches between synchronous vote verification (what WithSyncVerification
// configures) and the default asynchronous one, for a configuration that exists already (the
// verification harness builds one environment per script and decides per replica).
func (g *RuntimeConfig) VerifSetSyncVerification(sync bool) { g.syncVoteVerification = sync }
