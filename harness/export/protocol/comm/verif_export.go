//go:build verif

package comm

import "github.com/relab/hotstuff"

// Thin wrappers injected by the /verif overlay (never written into the repository): they expose
// the unexported aggregation state of Kauri and let the harness deliver the wait-timer event
// (whose field is unexported) instead of sleeping on it.

// VerifKauriState is a copy of the unexported aggregation state.
type VerifKauriState struct {
	AggContrib  hotstuff.QuorumSignature
	AggSent     bool
	BlockHash   hotstuff.Hash
	CurrentView hotstuff.View
	InitDone    bool
	Senders     []hotstuff.ID
}

// VerifState returns the aggregation state.
func (k *Kauri) VerifState() VerifKauriState {
	return VerifKauriState{
		AggContrib:  k.aggContrib,
		AggSent:     k.aggSent,
		BlockHash:   k.blockHash,
		CurrentView: k.currentView,
		InitDone:    k.initDone,
		Senders:     append([]hotstuff.ID(nil), k.senders...),
	}
}

// VerifWaitTimerExpired builds the event that waitToAggregate adds after sleeping.
func VerifWaitTimerExpired(view hotstuff.View) WaitTimerExpiredEvent {
	return WaitTimerExpiredEvent{currentView: view}
}
