//go:build verif

package consensus

import "github.com/relab/hotstuff"

// VerifLastVotedView exposes the voter's lastVotedView to the verification harness.
func (v *Voter) VerifLastVotedView() hotstuff.View { return v.lastVotedView }

// VerifLastProposed exposes the proposer's lastProposed view.
func (p *Proposer) VerifLastProposed() hotstuff.View { return p.lastProposed }
