//go:build verif

package rules

import "github.com/relab/hotstuff"

// VerifLock exposes the locked block to the verification harness.
func (hs *ChainedHotStuff) VerifLock() *hotstuff.Block { return hs.bLock }

// VerifLock exposes the locked block to the verification harness.
func (hs *SimpleHotStuff) VerifLock() *hotstuff.Block { return hs.locked }
