//go:build verif

package synchronizer

import (
	"github.com/relab/hotstuff"
	"github.com/relab/hotstuff/core"
)

// VerifCollector exposes the unexported timeoutCollector to the verification harness.
type VerifCollector struct{ c *timeoutCollector }

// VerifNewCollector returns a collector for the given configuration.
func VerifNewCollector(config *core.RuntimeConfig) *VerifCollector {
	return &VerifCollector{newTimeoutCollector(config)}
}

// Add forwards to timeoutCollector.add.
func (v *VerifCollector) Add(t hotstuff.TimeoutMsg) ([]hotstuff.TimeoutMsg, bool) { return v.c.add(t) }

// DeleteOldViews forwards to timeoutCollector.deleteOldViews.
func (v *VerifCollector) DeleteOldViews(view hotstuff.View) { v.c.deleteOldViews(view) }

// Held returns the messages currently held.
func (v *VerifCollector) Held() []hotstuff.TimeoutMsg { return v.c.timeouts }
