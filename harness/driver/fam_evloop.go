//go:build verif

package main

import (
	"context"
	"fmt"
	"sort"
	"strings"
	"sync"
	"time"

	"github.com/relab/hotstuff"
	"github.com/relab/hotstuff/core/eventloop"
)

// Families for C14 (core/eventloop).
//
// queue: the unexported bounded queue through the overlay export.
//
//	q.new <cap>        -> ok | panic
//	q.push <n>         -> - | dropped=<n>
//	q.pop              -> <n> | empty
//	q.len              -> <n>
//
// evloop: a real EventLoop with recording handlers.
//
//	el.new <cap>                 -> ok | panic
//	prog <act>...                -> p<k>            handler program k (used by nested registrations)
//	reg <T> <flags> <act>...     -> r<k>            Register[T]; flags: - | p (Prioritize) | a (UnsafeRunInAddEvent) | pa
//	unreg <k>                    -> ok | none       call the closure returned by registration k
//	add <ev>                     -> <obs>... | -    AddEvent
//	delay <T> <ev>               -> ok              DelayUntil[T]
//	ticker                       -> <obs>... | -    AddTicker with an interval of a day: its start event (shown as T<id>) goes
//	                                                through the queue like any other event; a Tick that pops it starts
//	                                                the ticker and calls no handler; tickers are removed at el.new / exit
//	tick                         -> idle | ran <obs>...
//	len                          -> <n>
//	vctx <view|nil>              -> c<k>            ViewContext      (one registration)
//	tctx                         -> c<k>            TimeoutContext   (two registrations)
//	cancel <c>                   -> ok              the returned CancelFunc
//	err <c>                      -> active | canceled
//	conc <cap> <producers> <per> -> lost=[..] dup=[..] order=ok|bad   concurrent producers against Run
//	race.report <word>           -> race <word>     (echo; carries the result of the -race support run)
//
// event <ev> = type letter A|B|C|V|O followed by a number (V = hotstuff.ViewChangeEvent{View},
// O = hotstuff.TimeoutEvent{View}).  acts: u:<k> (call closure k) | a:<ev> (AddEvent; skipped by
// handlers running inside AddEvent) | d:<T>:<ev> (DelayUntil[T]) | r:<T>:<flags>:<p> (Register with program p).
// obs: r<k>:<ev> handler k called from the loop, r<k>@<ev> handler k called inside AddEvent,
// drop:<ev> "event queue is full, dropped event" warning.

type evA struct{ ID int }
type evB struct{ ID int }
type evC struct{ ID int }

const evTypes = "ABCVO"

// maxObs bounds the observations recorded for one operation (a correct event loop stays far below it; a broken
// one that calls handlers over and over must not produce gigabyte answer lines).  The answer then ends in obs-truncated.
const maxObs = 100000

// maxRegs: a handler's r: action is skipped once this many registrations exist (same rule in the model).
const maxRegs = 48

type event struct{ ty, id int }

func (e event) String() string { return fmt.Sprintf("%c%d", evTypes[e.ty], e.id) }

func mkEvent(e event) any {
	switch e.ty {
	case 0:
		return evA{e.id}
	case 1:
		return evB{e.id}
	case 2:
		return evC{e.id}
	case 3:
		return hotstuff.ViewChangeEvent{View: hotstuff.View(e.id)}
	default:
		return hotstuff.TimeoutEvent{View: hotstuff.View(e.id)}
	}
}

func eventOf(x any) (event, bool) {
	switch v := x.(type) {
	case evA:
		return event{0, v.ID}, true
	case evB:
		return event{1, v.ID}, true
	case evC:
		return event{2, v.ID}, true
	case hotstuff.ViewChangeEvent:
		return event{3, int(v.View)}, true
	case hotstuff.TimeoutEvent:
		return event{4, int(v.View)}, true
	}
	return event{}, false
}

func parseNat(s string) (int, bool) {
	if len(s) == 0 || len(s) > 9 {
		return 0, false
	}
	n := 0
	for _, c := range s {
		if c < '0' || c > '9' {
			return 0, false
		}
		n = n*10 + int(c-'0')
	}
	return n, true
}

func parseType(s string) (int, bool) {
	if len(s) != 1 {
		return 0, false
	}
	i := strings.IndexByte(evTypes, s[0])
	return i, i >= 0
}

func parseEvent(s string) (event, bool) {
	if len(s) < 2 {
		return event{}, false
	}
	ty, ok := parseType(s[:1])
	id, ok2 := parseNat(s[1:])
	return event{ty, id}, ok && ok2
}

func parseFlags(s string) (inAdd, prio, ok bool) {
	switch s {
	case "-":
		return false, false, true
	case "p":
		return false, true, true
	case "a":
		return true, false, true
	case "pa":
		return true, true, true
	}
	return false, false, false
}

type act struct {
	kind        byte
	r           int
	ty          int
	ev          event
	inAdd, prio bool
	prog        int
}

func parseAct(s string) (act, bool) {
	p := strings.Split(s, ":")
	switch {
	case len(p) == 2 && p[0] == "u":
		r, ok := parseNat(p[1])
		return act{kind: 'u', r: r}, ok
	case len(p) == 2 && p[0] == "a":
		e, ok := parseEvent(p[1])
		return act{kind: 'a', ev: e}, ok
	case len(p) == 3 && p[0] == "d":
		t, ok := parseType(p[1])
		e, ok2 := parseEvent(p[2])
		return act{kind: 'd', ty: t, ev: e}, ok && ok2
	case len(p) == 4 && p[0] == "r":
		t, ok := parseType(p[1])
		ia, pr, ok2 := parseFlags(p[2])
		pg, ok3 := parseNat(p[3])
		return act{kind: 'r', ty: t, inAdd: ia, prio: pr, prog: pg}, ok && ok2 && ok3
	}
	return act{}, false
}

func parseActs(ss []string) ([]act, bool) {
	out := make([]act, 0, len(ss))
	for _, s := range ss {
		a, ok := parseAct(s)
		if !ok {
			return nil, false
		}
		out = append(out, a)
	}
	return out, true
}

// recLogger records the dropped-event warnings of AddEvent; everything else is discarded.
type recLogger struct{ drop func(any) }

func (l *recLogger) DPanic(...any)          {}
func (l *recLogger) DPanicf(string, ...any) {}
func (l *recLogger) Debug(...any)           {}
func (l *recLogger) Debugf(string, ...any)  {}
func (l *recLogger) Error(...any)           {}
func (l *recLogger) Errorf(string, ...any)  {}
func (l *recLogger) Fatal(...any)           {}
func (l *recLogger) Fatalf(string, ...any)  {}
func (l *recLogger) Info(...any)            {}
func (l *recLogger) Infof(string, ...any)   {}
func (l *recLogger) Panic(...any)           {}
func (l *recLogger) Panicf(string, ...any)  {}
func (l *recLogger) Warn(...any)            {}
func (l *recLogger) Warnf(t string, a ...any) {
	if strings.HasPrefix(t, "event queue is full") && len(a) == 1 {
		l.drop(a[0])
	}
}

// registerTyped instantiates eventloop.Register for the event type numbered ty.
func registerTyped(el *eventloop.EventLoop, ty int, cb func(event), opts ...eventloop.HandlerOption) func() {
	switch ty {
	case 0:
		return eventloop.Register(el, func(e evA) { cb(event{0, e.ID}) }, opts...)
	case 1:
		return eventloop.Register(el, func(e evB) { cb(event{1, e.ID}) }, opts...)
	case 2:
		return eventloop.Register(el, func(e evC) { cb(event{2, e.ID}) }, opts...)
	case 3:
		return eventloop.Register(el, func(e hotstuff.ViewChangeEvent) { cb(event{3, int(e.View)}) }, opts...)
	default:
		return eventloop.Register(el, func(e hotstuff.TimeoutEvent) { cb(event{4, int(e.View)}) }, opts...)
	}
}

func delayTyped(el *eventloop.EventLoop, ty int, ev any) {
	switch ty {
	case 0:
		eventloop.DelayUntil[evA](el, ev)
	case 1:
		eventloop.DelayUntil[evB](el, ev)
	case 2:
		eventloop.DelayUntil[evC](el, ev)
	case 3:
		eventloop.DelayUntil[hotstuff.ViewChangeEvent](el, ev)
	default:
		eventloop.DelayUntil[hotstuff.TimeoutEvent](el, ev)
	}
}

type elCtx struct {
	ctx    context.Context
	cancel context.CancelFunc
}

type elFam struct {
	el    *eventloop.EventLoop
	progs [][]act
	unreg []func() // closure of registration k; nil when the closure is held by context.go
	ctxs  []elCtx
	obs   []string
	trunc bool

	tickers []int // ids handed out by AddTicker
}

func (f *elFam) record(s string) {
	if len(f.obs) >= maxObs {
		f.trunc = true
		return
	}
	f.obs = append(f.obs, s)
}

type queueFam struct{ q *eventloop.VerifQueue }

func init() {
	register("queue", func() family { return &queueFam{} })
	register("evloop", func() family { return &elFam{} })
}

func (f *queueFam) op(a []string) string {
	switch {
	case a[0] == "q.new" && len(a) == 2:
		c, ok := parseNat(a[1])
		if !ok {
			return "bad-op"
		}
		f.q = nil
		f.q = eventloop.VerifNewQueue(uint(c))
		return "ok"
	case f.q == nil:
		return "bad-op"
	case a[0] == "q.push" && len(a) == 2:
		n, ok := parseNat(a[1])
		if !ok {
			return "bad-op"
		}
		if d := f.q.Push(n); d != nil {
			return fmt.Sprintf("dropped=%v", d)
		}
		return "-"
	case a[0] == "q.pop" && len(a) == 1:
		x, ok := f.q.Pop()
		if !ok {
			return "empty"
		}
		return fmt.Sprint(x)
	case a[0] == "q.len" && len(a) == 1:
		return fmt.Sprint(f.q.Len())
	}
	return "bad-op"
}

func (f *elFam) flush() string {
	if len(f.obs) == 0 {
		return "-"
	}
	s := strings.Join(f.obs, " ")
	if f.trunc {
		s += " obs-truncated"
	}
	f.obs = f.obs[:0]
	f.trunc = false
	return s
}

func (f *elFam) doRegister(ty int, inAdd, prio bool, acts []act) int {
	k := len(f.unreg)
	var opts []eventloop.HandlerOption
	if prio {
		opts = append(opts, eventloop.Prioritize())
	}
	if inAdd {
		opts = append(opts, eventloop.UnsafeRunInAddEvent())
	}
	sep := ":"
	if inAdd {
		sep = "@"
	}
	un := registerTyped(f.el, ty, func(e event) {
		f.record(fmt.Sprintf("r%d%s%s", k, sep, e))
		f.exec(acts, inAdd)
	}, opts...)
	f.unreg = append(f.unreg, un)
	return k
}

func (f *elFam) exec(acts []act, inAdd bool) {
	for _, a := range acts {
		switch a.kind {
		case 'u':
			if a.r < len(f.unreg) && f.unreg[a.r] != nil {
				f.unreg[a.r]()
			}
		case 'a':
			if !inAdd {
				f.el.AddEvent(mkEvent(a.ev))
			}
		case 'd':
			delayTyped(f.el, a.ty, mkEvent(a.ev))
		case 'r':
			if len(f.unreg) >= maxRegs {
				continue // harness rule: handlers stop registering handlers (no doubling of the table per event)
			}
			var prog []act
			if a.prog < len(f.progs) {
				prog = f.progs[a.prog]
			}
			f.doRegister(a.ty, a.inAdd, a.prio, prog)
		}
	}
}

func (f *elFam) op(a []string) string {
	switch {
	case a[0] == "el.new" && len(a) == 2:
		c, ok := parseNat(a[1])
		if !ok {
			return "bad-op"
		}
		for _, id := range f.tickers {
			f.el.RemoveTicker(id)
		}
		*f = elFam{}
		lg := &recLogger{drop: func(x any) {
			if e, ok := eventOf(x); ok {
				f.record("drop:" + e.String())
			} else if id, ok := eventloop.VerifTickerID(x); ok {
				f.record(fmt.Sprintf("drop:T%d", id))
			} else {
				f.record("drop:?")
			}
		}}
		f.el = eventloop.New(lg, uint(c))
		return "ok"
	case a[0] == "conc" && len(a) == 4:
		c, ok := parseNat(a[1])
		p, ok2 := parseNat(a[2])
		k, ok3 := parseNat(a[3])
		if !ok || !ok2 || !ok3 || c == 0 || p == 0 || p > 64 || k > 100000 {
			return "bad-op"
		}
		return concRun(c, p, k)
	case a[0] == "race.report" && len(a) == 2:
		return "race " + a[1]
	case a[0] == "prog":
		acts, ok := parseActs(a[1:])
		if !ok {
			return "bad-op"
		}
		f.progs = append(f.progs, acts)
		return fmt.Sprintf("p%d", len(f.progs)-1)
	case f.el == nil:
		return "bad-op"
	case a[0] == "reg" && len(a) >= 3:
		ty, ok := parseType(a[1])
		ia, pr, ok2 := parseFlags(a[2])
		acts, ok3 := parseActs(a[3:])
		if !ok || !ok2 || !ok3 {
			return "bad-op"
		}
		return fmt.Sprintf("r%d", f.doRegister(ty, ia, pr, acts))
	case a[0] == "unreg" && len(a) == 2:
		r, ok := parseNat(a[1])
		if !ok {
			return "bad-op"
		}
		if r >= len(f.unreg) || f.unreg[r] == nil {
			return "none"
		}
		f.unreg[r]()
		return "ok"
	case a[0] == "add" && len(a) == 2:
		e, ok := parseEvent(a[1])
		if !ok {
			return "bad-op"
		}
		f.obs, f.trunc = f.obs[:0], false
		f.el.AddEvent(mkEvent(e))
		return f.flush()
	case a[0] == "delay" && len(a) == 3:
		ty, ok := parseType(a[1])
		e, ok2 := parseEvent(a[2])
		if !ok || !ok2 {
			return "bad-op"
		}
		delayTyped(f.el, ty, mkEvent(e))
		return "ok"
	case a[0] == "ticker" && len(a) == 1:
		f.obs, f.trunc = f.obs[:0], false
		id := f.el.AddTicker(24*time.Hour, func(time.Time) any { return nil })
		f.tickers = append(f.tickers, id)
		return f.flush()
	case a[0] == "tick" && len(a) == 1:
		f.obs, f.trunc = f.obs[:0], false
		if !f.el.Tick(context.Background()) {
			return "idle"
		}
		if len(f.obs) == 0 {
			return "ran"
		}
		return "ran " + f.flush()
	case a[0] == "len" && len(a) == 1:
		return fmt.Sprint(eventloop.VerifQueueLen(f.el))
	case a[0] == "vctx" && len(a) == 2:
		var vp *hotstuff.View
		if a[1] != "nil" {
			v, ok := parseNat(a[1])
			if !ok {
				return "bad-op"
			}
			hv := hotstuff.View(v)
			vp = &hv
		}
		ctx, cancel := f.el.ViewContext(vp)
		f.unreg = append(f.unreg, nil)
		f.ctxs = append(f.ctxs, elCtx{ctx, cancel})
		return fmt.Sprintf("c%d", len(f.ctxs)-1)
	case a[0] == "tctx" && len(a) == 1:
		ctx, cancel := f.el.TimeoutContext()
		f.unreg = append(f.unreg, nil, nil)
		f.ctxs = append(f.ctxs, elCtx{ctx, cancel})
		return fmt.Sprintf("c%d", len(f.ctxs)-1)
	case a[0] == "cancel" && len(a) == 2:
		c, ok := parseNat(a[1])
		if !ok {
			return "bad-op"
		}
		if c >= len(f.ctxs) {
			return "none"
		}
		f.ctxs[c].cancel()
		return "ok"
	case a[0] == "err" && len(a) == 2:
		c, ok := parseNat(a[1])
		if !ok {
			return "bad-op"
		}
		if c >= len(f.ctxs) {
			return "none"
		}
		if f.ctxs[c].ctx.Err() != nil {
			return "canceled"
		}
		return "active"
	}
	return "bad-op"
}

// concRun: `producers` goroutines each AddEvent `per` events (type A, id = producer*1000000 + k)
// while Run consumes.  Afterwards the context is cancelled and Run drains the queue.  Every event
// must be accounted for exactly once as handled or reported dropped, and the handled events of one
// producer must appear in the order that producer added them.
func concRun(capacity, producers, per int) string {
	var mu sync.Mutex
	var handled, dropped []int
	lg := &recLogger{drop: func(x any) {
		mu.Lock()
		defer mu.Unlock()
		if e, ok := x.(evA); ok {
			dropped = append(dropped, e.ID)
		} else {
			dropped = append(dropped, -1)
		}
	}}
	el := eventloop.New(lg, uint(capacity))
	eventloop.Register(el, func(e evA) {
		mu.Lock()
		handled = append(handled, e.ID)
		mu.Unlock()
	})
	ctx, cancel := context.WithCancel(context.Background())
	done := make(chan struct{})
	go func() { el.Run(ctx); close(done) }()
	var wg sync.WaitGroup
	for p := 0; p < producers; p++ {
		wg.Add(1)
		go func(p int) {
			defer wg.Done()
			for k := 0; k < per; k++ {
				el.AddEvent(evA{p*1000000 + k})
			}
		}(p)
	}
	wg.Wait()
	cancel()
	select {
	case <-done:
	case <-time.After(60 * time.Second):
		return "stuck"
	}
	mu.Lock()
	defer mu.Unlock()
	count := map[int]int{}
	for _, x := range handled {
		count[x]++
	}
	for _, x := range dropped {
		count[x]++
	}
	var lost, dup []int
	for p := 0; p < producers; p++ {
		for k := 0; k < per; k++ {
			id := p*1000000 + k
			switch c := count[id]; {
			case c == 0:
				lost = append(lost, id)
			case c > 1:
				dup = append(dup, id)
			}
			delete(count, id)
		}
	}
	for x := range count { // reported but never added
		dup = append(dup, x)
	}
	sort.Ints(lost)
	sort.Ints(dup)
	order := "ok"
	last := map[int]int{}
	for _, x := range handled {
		p := x / 1000000
		if l, ok := last[p]; ok && l >= x {
			order = "bad"
		}
		last[p] = x
	}
	if len(lost) > 20 {
		lost = lost[:20]
	}
	if len(dup) > 20 {
		dup = dup[:20]
	}
	return fmt.Sprintf("lost=%s dup=%s order=%s", intList(lost), intList(dup), order)
}

