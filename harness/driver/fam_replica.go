//go:build verif

package main

import (
	"bytes"
	"context"
	"encoding/binary"
	"fmt"
	"strconv"
	"strings"
	"time"

	"github.com/relab/gorums"
	"github.com/relab/hotstuff"
	"github.com/relab/hotstuff/core"
	"github.com/relab/hotstuff/core/eventloop"
	"github.com/relab/hotstuff/core/logging"
	"github.com/relab/hotstuff/internal/proto/clientpb"
	"github.com/relab/hotstuff/internal/proto/hotstuffpb"
	"github.com/relab/hotstuff/protocol"
	"github.com/relab/hotstuff/protocol/comm"
	"github.com/relab/hotstuff/protocol/consensus"
	"github.com/relab/hotstuff/protocol/leaderrotation"
	"github.com/relab/hotstuff/protocol/rules"
	"github.com/relab/hotstuff/protocol/synchronizer"
	"github.com/relab/hotstuff/protocol/votingmachine"
	"github.com/relab/hotstuff/security/blockchain"
	"github.com/relab/hotstuff/security/cert"
	"github.com/relab/hotstuff/security/crypto"
	"github.com/relab/hotstuff/server"
	"google.golang.org/grpc/metadata"
	"google.golang.org/grpc/peer"
	"google.golang.org/protobuf/proto"
)

// replica family (C03, C07, C08, C09, C10, C06, C01): ONE real replica, wired as twins/node.go
// wires a node (synchronizer, voter, proposer, committer, rules, voting machine, clique, block
// chain, authority with optional cache), behind a recording core.Sender.  The other replicas are
// puppets: the script crafts their messages with their real keys (ops of the cert/wire families).
//
//	replica <r> rules=<chainedhotstuff|simplehotstuff|fasthotstuff> [leader=rr|fixed:<id>] [verify=async]
//	verify-hold on|off        (verify=async) close / open the gate in front of vote verification; opening
//	                          releases the held verifications oldest first, the event loop runs after each
//	verify-release <k>        (verify=async) the k-th oldest held verification finishes (its verifyCert
//	                          goroutine has ended when the op answers), then the event loop runs
//	start
//	deliver propose <block> from=<id> [agg=<agg>]
//	deliver vote <sig> <block|unk:x> from=<id>
//	deliver timeout <timeout> [from=<id>]
//	deliver newview <si> from=<id>
//	local-timeout [view=<v>]
//	fetchable <block> on|off
//	dump
//
// answer: effects in order, separated by " ; ", then " | " and the state dump.
type replicaFam struct {
	*wireFam
	pfx        string // prefix of the names of this replica's own objects ("own"; "r<i>" in a cluster)
	cmdClient  uint32 // client id of the pre-loaded commands
	cluster    *clusterFam
	fetchPeers bool
	sent       []any // messages handed to the sender during the current step (cluster routing)
	id         hotstuff.ID
	el         *eventloop.EventLoop
	chain      *blockchain.Blockchain
	states     *protocol.ViewStates
	voter      *consensus.Voter
	proposer   *consensus.Proposer
	ruleset    consensus.Ruleset
	lr         leaderrotation.LeaderRotation
	fetchable  map[hotstuff.Hash]*hotstuff.Block
	log        []func() string
	svc        hotstuffpb.ConsensusServer
	nwire      int
	sendFail   bool // the sender knows no replica: Vote / NewView answer an error
	// verify=async: the replica runs WITHOUT core.WithSyncVerification; its votes are verified by
	// `go vm.verifyCert(...)`, which the gate can hold back (verifygate.go)
	async bool
	gate  *verifyGate
}

// close ends what an abandoned instance left behind: held verification goroutines run to their end.
func (f *replicaFam) close() {
	if f.gate == nil {
		return
	}
	f.gate.setClosed(false)
	for f.gate.release(1) {
	}
	settleVerifiers()
}

func init() {
	register("replica", func() family {
		f := &replicaFam{fetchable: map[hotstuff.Hash]*hotstuff.Block{}, pfx: "own", cmdClient: 9}
		f.wireFam = &wireFam{sis: map[string]hotstuff.SyncInfo{}, sigNum: map[string]int{}}
		return f
	})
}

// ---- recording sender ----

type recSender struct{ f *replicaFam }

func (s recSender) NewView(id hotstuff.ID, si hotstuff.SyncInfo) error {
	if s.f.sendFail {
		return fmt.Errorf("replica does not exist (id=%d)", id)
	}
	s.f.sent = append(s.f.sent, sentNewView{id, si})
	s.f.log = append(s.f.log, func() string { return fmt.Sprintf("newview(to=%d,%s)", id, s.f.dSI(si)) })
	return nil
}

func (s recSender) Vote(id hotstuff.ID, pc hotstuff.PartialCert) error {
	if s.f.sendFail {
		// what GorumsSender.Vote answers for an id it has no connection to
		return fmt.Errorf("replica does not exist (id=%d)", id)
	}
	s.f.sigs[s.f.pfx+".vote."+s.f.hashName(pc.BlockHash())] = pc.Signature()
	s.f.sent = append(s.f.sent, sentVote{id, pc})
	s.f.log = append(s.f.log, func() string {
		return fmt.Sprintf("vote(to=%d,blk=%s,sig=%s)", id, s.f.hashName(pc.BlockHash()), s.f.dSig(pc.Signature()))
	})
	return nil
}

func (s recSender) Timeout(t hotstuff.TimeoutMsg) {
	s.f.sigs[fmt.Sprintf("%s.vs.%d", s.f.pfx, t.View)] = t.ViewSignature
	if t.MsgSignature != nil {
		s.f.sigs[fmt.Sprintf("%s.ms.%d", s.f.pfx, t.View)] = t.MsgSignature
	}
	s.f.tmos[fmt.Sprintf("%s.tmo.%d", s.f.pfx, t.View)] = t
	s.f.sent = append(s.f.sent, t)
	s.f.log = append(s.f.log, func() string {
		return fmt.Sprintf("timeout(id=%d,v=%d,vs=%s,ms=%s,%s)", t.ID, t.View, s.f.dSig(t.ViewSignature), s.f.dSig(t.MsgSignature), s.f.dSI(t.SyncInfo))
	})
}

func (s recSender) Propose(p *hotstuff.ProposeMsg) {
	s.f.nameOwn(p.Block)
	s.f.sent = append(s.f.sent, *p)
	s.f.log = append(s.f.log, func() string {
		b := p.Block
		qc := s.f.dQC(b.QuorumCert()) // numbered before the aggregate QC, as the model renders it
		ag := "-"
		if p.AggregateQC != nil {
			ag = s.f.dAgg(*p.AggregateQC)
		}
		return fmt.Sprintf("propose(%s,v=%d,parent=%s,qc=%s,agg=%s)", s.f.hashName(b.Hash()), b.View(), s.f.hashName(b.Parent()), qc, ag)
	})
}

func (s recSender) RequestBlock(_ context.Context, h hotstuff.Hash) (*hotstuff.Block, bool) {
	if b, ok := s.f.fetchable[h]; ok {
		return b, true
	}
	if s.f.cluster != nil {
		return s.f.cluster.peerFetch(s.f, h)
	}
	return nil, false
}

type sentVote struct {
	to hotstuff.ID
	pc hotstuff.PartialCert
}

type sentNewView struct {
	to hotstuff.ID
	si hotstuff.SyncInfo
}

func (s recSender) Sub([]hotstuff.ID) (core.Sender, error) { return s, nil }

// nameOwn registers a block created by the replica under test as P<view>.
func (f *replicaFam) nameOwn(b *hotstuff.Block) {
	for _, x := range f.blocks {
		if x.Hash() == b.Hash() {
			return
		}
	}
	f.blocks[fmt.Sprintf("P%d", b.View())] = b
}

// ---- signing log ----

type signLogger struct {
	crypto.Base
	f *replicaFam
}

func (s signLogger) Sign(m []byte) (hotstuff.QuorumSignature, error) {
	msg := append([]byte{}, m...)
	// timeout bytes name the high QC of the moment of signing; it may have moved on by the time the
	// step's effects are rendered
	var now []hotstuff.QuorumCert
	if s.f.states != nil {
		now = append(now, s.f.states.HighQC())
	}
	s.f.log = append(s.f.log, func() string { return "sign(" + s.f.msgName(msg, now...) + ")" })
	return s.Base.Sign(m)
}

func (f *replicaFam) msgName(m []byte, now ...hotstuff.QuorumCert) string {
	if len(m) == 8 {
		return fmt.Sprintf("view:%d", binary.LittleEndian.Uint64(m))
	}
	for n, b := range f.blocks {
		if bytes.Equal(b.ToBytes(), m) {
			_ = n
			return "blk:" + f.hashName(b.Hash())
		}
	}
	if len(m) >= 44+8 {
		// block bytes of an own block that was never sent: parent(32) proposer(4) view(8) ...
		if hotstuff.ID(binary.LittleEndian.Uint32(m[32:36])) == f.id && len(m) > 100 {
			return fmt.Sprintf("blk:P%d", binary.LittleEndian.Uint64(m[36:44]))
		}
	}
	if len(m) >= 12 {
		id := binary.LittleEndian.Uint32(m[0:4])
		v := binary.LittleEndian.Uint64(m[4:12])
		rest := m[12:]
		if len(rest) == 0 {
			return fmt.Sprintf("tmo:%d:%d:-", id, v)
		}
		for _, qc := range append(now, f.candidateQCs()...) {
			if bytes.Equal(qc.ToBytes(), rest) {
				return fmt.Sprintf("tmo:%d:%d:%s", id, v, f.dQC(qc))
			}
		}
		return fmt.Sprintf("tmo:%d:%d:?", id, v)
	}
	return "?"
}

func (f *replicaFam) candidateQCs() []hotstuff.QuorumCert {
	out := []hotstuff.QuorumCert{f.states.HighQC()}
	for _, q := range f.qcs {
		out = append(out, q)
	}
	return out
}

// ---- set-up ----

func (f *replicaFam) build(r int, rulesName, leader string, async bool) string {
	f.close()
	f.id = hotstuff.ID(r)
	cfg := f.env.cfgs[r-1]
	cfg.VerifSetSyncVerification(!async)
	f.async, f.gate = async, nil
	logger := logging.New("r")
	f.el = eventloop.New(logger, 1000)
	f.sendFail = false
	snd := recSender{f}
	f.chain = blockchain.New(f.el, logger, snd)
	auth := cert.NewAuthority(cfg, f.chain, signLogger{f.env.bases[r-1], f})
	if async {
		// in front of the cache, if there is one: a cached result would skip a gate below it
		f.gate = &verifyGate{Base: auth.Base, own: f.id}
		auth.Base = f.gate
	}
	var err error
	f.states, err = protocol.NewViewStates(f.chain, auth)
	if err != nil {
		return "reject"
	}
	switch rulesName {
	case rules.NameChainedHotStuff:
		f.ruleset = rules.NewChainedHotStuff(logger, cfg, f.chain)
	case rules.NameSimpleHotStuff:
		f.ruleset = rules.NewSimpleHotStuff(logger, cfg, f.chain)
	case rules.NameFastHotStuff:
		f.ruleset = rules.NewFastHotStuff(logger, cfg, f.chain)
	default:
		return "bad-op"
	}
	var lr leaderrotation.LeaderRotation
	if strings.HasPrefix(leader, "fixed:") {
		id, _ := strconv.Atoi(leader[6:])
		lr = leaderrotation.NewFixed(hotstuff.ID(id))
	} else {
		lr = leaderrotation.NewRoundRobin(cfg)
	}
	f.lr = lr
	committer := consensus.NewCommitter(f.el, logger, f.chain, f.states, f.ruleset)
	vm := votingmachine.New(logger, f.el, cfg, f.chain, auth, f.states)
	cl := comm.NewClique(cfg, vm, lr, snd)
	f.voter = consensus.NewVoter(cfg, lr, f.ruleset, cl, auth, committer)
	cmds := clientpb.NewCommandCache(1)
	for i := 1; i <= 3000; i++ {
		cmds.Add(&clientpb.Command{ClientID: f.cmdClient, SequenceNumber: uint64(i), Data: []byte(fmt.Sprintf("c%d", i))})
	}
	f.proposer = consensus.NewProposer(f.el, cfg, f.chain, f.states, f.ruleset, cl, f.voter, cmds, committer)
	synchronizer.New(f.el, logger, cfg, auth, lr, synchronizer.NewFixedDuration(24*time.Hour),
		synchronizer.NewTimeoutRuler(cfg, auth), f.proposer, f.voter, f.states, snd)
	f.svc = server.VerifService(server.NewServer(f.el, logger, cfg, f.chain))
	eventloop.Register(f.el, func(e hotstuff.ViewChangeEvent) {
		f.log = append(f.log, func() string {
			k := "normal"
			if e.Timeout {
				k = "timeout"
			}
			return fmt.Sprintf("vc(%d,%s)", e.View, k)
		})
	})
	eventloop.Register(f.el, func(e hotstuff.CommitEvent) {
		f.log = append(f.log, func() string { return "commit(" + f.hashName(e.Block.Hash()) + ")" })
	})
	eventloop.Register(f.el, func(e clientpb.ExecuteEvent) {
		f.log = append(f.log, func() string { return "exec(" + batchDesc(e.Batch) + ")" })
	})
	eventloop.Register(f.el, func(e clientpb.AbortEvent) {
		f.log = append(f.log, func() string { return "abort(" + batchDesc(e.Batch) + ")" })
	})
	return "ok"
}

func batchDesc(b *clientpb.Batch) string {
	var c []string
	for _, x := range b.GetCommands() {
		c = append(c, fmt.Sprintf("%d/%d/%s", x.GetClientID(), x.GetSequenceNumber(), string(x.GetData())))
	}
	return strings.Join(c, ";")
}

func (f *replicaFam) run() {
	ctx := context.Background()
	if f.async {
		// one event at a time; what the event started (a verification goroutine) has ended or is held
		// at the gate before the next event is handled, and before the loop is declared quiescent
		for i := 0; i < 100000; i++ {
			settleVerifiers()
			if !f.el.Tick(ctx) {
				break
			}
		}
		return
	}
	for i := 0; i < 100000 && f.el.Tick(ctx); i++ {
	}
}

func (f *replicaFam) flush() string {
	var parts []string
	for _, l := range f.log {
		parts = append(parts, l())
	}
	f.log = nil
	return strings.Join(parts, " ; ") + " | " + f.dump()
}

func (f *replicaFam) lockName() string {
	switch r := f.ruleset.(type) {
	case *rules.ChainedHotStuff:
		return f.hashName(r.VerifLock().Hash())
	case *rules.SimpleHotStuff:
		return f.hashName(r.VerifLock().Hash())
	}
	return "-"
}

func (f *replicaFam) dump() string {
	hq := f.states.HighQC()
	return fmt.Sprintf("view=%d hqc=%d:%s committed=%s lastVoted=%d lock=%s", f.states.View(), hq.View(), f.hashName(hq.BlockHash()),
		f.hashName(f.states.CommittedBlock().Hash()), f.voter.VerifLastVotedView(), f.lockName())
}

func (f *replicaFam) op(a []string) (out string) {
	switch a[0] {
	case "cfg":
		// same as the cert family, but votes are always verified synchronously
		res := f.wireFam.op(a)
		return res
	case "replica":
		if f.env == nil || len(a) < 2 {
			return "bad-op"
		}
		r, ok := f.replica(a[1])
		if !ok {
			return "bad-op"
		}
		kv := kvArgs(a)
		if v, ok := kv["verify"]; ok && v != "async" && v != "sync" {
			return "bad-op"
		}
		return f.build(r, kv["rules"], kv["leader"], kv["verify"] == "async")
	}
	if f.el == nil {
		return f.wireFam.op(a)
	}
	defer func() {
		if r := recover(); r != nil {
			f.log = nil
			panic(r)
		}
	}()
	kv := kvArgs(a)
	switch a[0] {
	case "start":
		// Synchronizer.Start: the leader of view 1 proposes (timers are not modelled)
		f.startLeader()
		f.run()
		return f.flush()
	case "verify-hold":
		if f.gate == nil || len(a) != 2 || (a[1] != "on" && a[1] != "off") {
			return "bad-op"
		}
		if a[1] == "on" {
			f.gate.setClosed(true)
			return "ok"
		}
		f.gate.setClosed(false)
		for f.gate.release(1) {
			f.run()
		}
		f.run()
		return f.flush()
	case "verify-release":
		if f.gate == nil || len(a) != 2 {
			return "bad-op"
		}
		k, err := strconv.Atoi(a[1])
		if err != nil || !f.gate.release(k) {
			return "bad-op"
		}
		f.run()
		return f.flush()
	case "sender-fails":
		if len(a) != 2 || (a[1] != "on" && a[1] != "off") {
			return "bad-op"
		}
		f.sendFail = a[1] == "on"
		return "ok"
	case "fetchable":
		if len(a) != 3 {
			return "bad-op"
		}
		b, ok := f.blocks[a[1]]
		if !ok {
			return "bad-op"
		}
		if a[2] == "on" {
			f.fetchable[b.Hash()] = b
		} else {
			delete(f.fetchable, b.Hash())
		}
		return "ok"
	case "dump":
		return f.dump()
	case "local-timeout":
		v := f.states.View()
		if s, ok := kv["view"]; ok {
			x, err := strconv.ParseUint(s, 10, 64)
			if err != nil {
				return "bad-op"
			}
			v = hotstuff.View(x)
		}
		f.el.AddEvent(hotstuff.TimeoutEvent{View: v})
		f.run()
		return f.flush()
	case "wire":
		if len(a) == 3 && a[1] == "requestblock" {
			return f.requestBlock(a[2], kv)
		}
		// wire <propose|vote|timeout|newview> <object> [<block>] from=<id> [drop=<f1,f2,...>] :
		// ToProto, field removal on the proto message, real Marshal/Unmarshal, the real gorums handler
		if len(a) < 3 {
			return "bad-op"
		}
		res := f.wireDeliver(a, kv)
		if res != "" {
			return res
		}
		f.run()
		return f.flush()
	case "deliver":
		if len(a) < 3 {
			return "bad-op"
		}
		from, _ := strconv.ParseUint(kv["from"], 10, 32)
		switch a[1] {
		case "propose":
			b, ok := f.blocks[a[2]]
			if !ok {
				return "bad-op"
			}
			// what serviceImpl.Propose does with the decoded message: proposer := sending peer
			p := hotstuff.ProposeMsg{ID: hotstuff.ID(from), Block: b}
			if uint64(b.Proposer()) != from {
				return "bad-op" // the handler would rewrite the block (another hash); scripts name that block explicitly
			}
			if kv["agg"] != "" && kv["agg"] != "-" {
				g, ok := f.aggs[kv["agg"]]
				if !ok {
					return "bad-op"
				}
				p.AggregateQC = &g
			}
			f.el.AddEvent(p)
		case "vote":
			if len(a) < 4 {
				return "bad-op"
			}
			s, ok := f.sigOrNil(a[2])
			h, ok2 := f.hashOf(a[3])
			if !ok || !ok2 {
				return "bad-op"
			}
			f.el.AddEvent(hotstuff.VoteMsg{ID: hotstuff.ID(from), PartialCert: hotstuff.NewPartialCert(s, h)})
		case "timeout":
			t, ok := f.tmos[a[2]]
			if !ok {
				return "bad-op"
			}
			if _, ok := kv["from"]; ok {
				t.ID = hotstuff.ID(from)
			}
			f.el.AddEvent(t)
		case "newview":
			si, ok := f.sis[a[2]]
			if !ok {
				return "bad-op"
			}
			f.el.AddEvent(hotstuff.NewViewMsg{ID: hotstuff.ID(from), SyncInfo: si, FromNetwork: true})
		default:
			return "bad-op"
		}
		f.run()
		return f.flush()
	}
	return f.wireFam.op(a)
}

// requestBlock sends a BlockHash request of any length through the real gorums handler.
//
//	wire requestblock blk:<name>[/<len>] | nil | empty
func (f *replicaFam) requestBlock(spec string, kv map[string]string) string {
	var req *hotstuffpb.BlockHash
	switch {
	case spec == "nil":
	case spec == "empty":
		req = &hotstuffpb.BlockHash{}
	case strings.HasPrefix(spec, "blk:"):
		p := strings.Split(spec[4:], "/")
		b, ok := f.blocks[p[0]]
		if !ok || len(p) > 2 {
			return "bad-op"
		}
		h := b.Hash()
		hb := h[:]
		if len(p) == 2 {
			l, err := strconv.Atoi(p[1])
			if err != nil || l < 0 || l > 64 {
				return "bad-op"
			}
			for len(hb) < l {
				hb = append(hb, 0xAB)
			}
			hb = hb[:l]
			if l > 0 && l < len(h) {
				// the handler pads a short hash with zero bytes: one time in 256 (l = 31) the padded value IS
				// the block's hash; a script means "not the block's hash" by a short one, so make it so
				zero := true
				for _, x := range h[l:] {
					zero = zero && x == 0
				}
				if zero {
					hb = append([]byte(nil), hb...)
					hb[0] ^= 0xff
				}
			}
		}
		req = wire(&hotstuffpb.BlockHash{Hash: hb}, &hotstuffpb.BlockHash{})
	default:
		return "bad-op"
	}
	got, err := f.svc.RequestBlock(f.peerCtx(kv), req)
	ans := "notfound"
	if err == nil && got != nil {
		ans = "block(" + f.hashName(hotstuffpb.BlockFromProto(got).Hash()) + ")"
	}
	return fmt.Sprintf("reqblock(%s) | %s", ans, f.dump())
}

// startLeader mirrors Synchronizer.Start without starting wall-clock timers.
func (f *replicaFam) startLeader() {
	if f.states.View() == 1 && f.lr.GetLeader(1) == f.id {
		p, err := f.proposer.CreateProposal(f.states.SyncInfo())
		if err != nil {
			return
		}
		_ = f.proposer.Propose(&p)
	}
}

func (f *replicaFam) peerCtx(kv map[string]string) gorums.ServerCtx {
	ctx := peer.NewContext(context.Background(), &peer.Peer{})
	if id, ok := kv["from"]; ok {
		ctx = metadata.NewIncomingContext(ctx, metadata.Pairs("id", id))
	}
	return gorums.ServerCtx{Context: ctx}
}

func dropSet(kv map[string]string) map[string]bool {
	m := map[string]bool{}
	if d, ok := kv["drop"]; ok && d != "-" {
		for _, x := range strings.Split(d, ",") {
			m[x] = true
		}
	}
	return m
}

// truncSet: signature fields whose BLS bytes are cut short on the wire (trunc=<f1,...>); decoding
// such a signature fails, which the conversion layer reports as "no signature"
func truncSet(kv map[string]string) map[string]bool {
	m := map[string]bool{}
	if d, ok := kv["trunc"]; ok && d != "-" {
		for _, x := range strings.Split(d, ",") {
			m["~"+x] = true
		}
	}
	return m
}

func cutSig(q *hotstuffpb.QuorumSignature, cut bool) {
	if !cut || q == nil {
		return
	}
	if b := q.GetBLS12Sig(); b != nil && len(b.Sig) > 10 {
		b.Sig = b.Sig[:10]
	}
}

func dropQC(q *hotstuffpb.QuorumCert, pre string, d map[string]bool) *hotstuffpb.QuorumCert {
	if q == nil || d[pre] {
		return nil
	}
	if d[pre+".sig"] {
		q.Sig = nil
	}
	cutSig(q.Sig, d["~"+pre+".sig"])
	if d[pre+".hash"] {
		q.Hash = nil
	}
	return q
}

func dropSI(si *hotstuffpb.SyncInfo, d map[string]bool) *hotstuffpb.SyncInfo {
	if si == nil || d["si"] {
		return nil
	}
	si.QC = dropQC(si.QC, "qc", d)
	if d["tc"] {
		si.TC = nil
	} else if si.TC != nil && d["tc.sig"] {
		si.TC.Sig = nil
	} else if si.TC != nil {
		cutSig(si.TC.Sig, d["~tc.sig"])
	}
	if d["agg"] {
		si.AggQC = nil
	} else if si.AggQC != nil && d["agg.sig"] {
		si.AggQC.Sig = nil
	} else if si.AggQC != nil {
		cutSig(si.AggQC.Sig, d["~agg.sig"])
	}
	return si
}

// wireDeliver returns a non-empty string when the op cannot be carried out.
func (f *replicaFam) wireDeliver(a []string, kv map[string]string) string {
	d := dropSet(kv)
	if _, ok := kv["trunc"]; ok {
		if f.env.scheme != "bls12" {
			return "bad-op"
		}
		for k := range truncSet(kv) {
			d[k] = true
		}
	}
	ctx := f.peerCtx(kv)
	switch a[1] {
	case "propose":
		b, ok := f.blocks[a[2]]
		if !ok {
			return "bad-op"
		}
		p := hotstuff.ProposeMsg{ID: b.Proposer(), Block: b}
		if kv["agg"] != "" && kv["agg"] != "-" {
			g, ok := f.aggs[kv["agg"]]
			if !ok {
				return "bad-op"
			}
			p.AggregateQC = &g
		}
		pb := hotstuffpb.ProposalToProto(p)
		if d["block"] {
			pb.Block = nil
		} else {
			pb.Block.QC = dropQC(pb.Block.QC, "block.qc", d)
			if d["block.parent"] {
				pb.Block.Parent = nil
			}
			if d["block.commands"] {
				pb.Block.Commands = nil
			}
			if d["block.timestamp"] {
				pb.Block.Timestamp = nil
			}
		}
		if d["agg"] {
			pb.AggQC = nil
		} else if pb.AggQC != nil && d["agg.sig"] {
			pb.AggQC.Sig = nil
		} else if pb.AggQC != nil {
			cutSig(pb.AggQC.Sig, d["~agg.sig"])
		}
		f.nwire++
		if pb.Block != nil {
			// name the block the handler will decode (the proposer is overwritten with the peer id)
			cp := wire(pb, &hotstuffpb.Proposal{})
			from, _ := strconv.ParseUint(kv["from"], 10, 32)
			cp.Block.Proposer = uint32(from)
			got := hotstuffpb.BlockFromProto(cp.Block)
			known := false
			for _, x := range f.blocks {
				if x.Hash() == got.Hash() {
					known = true
				}
			}
			if !known {
				f.blocks[fmt.Sprintf("W%d", f.nwire)] = got
			}
		}
		f.svc.Propose(ctx, wire(pb, &hotstuffpb.Proposal{}))
	case "vote":
		if len(a) < 4 {
			return "bad-op"
		}
		s, ok := f.sigs[a[2]]
		h, ok2 := f.hashOf(a[3])
		if !ok || !ok2 {
			return "bad-op"
		}
		pb := hotstuffpb.PartialCertToProto(hotstuff.NewPartialCert(s, h))
		if d["sig"] {
			pb.Sig = nil
		}
		cutSig(pb.Sig, d["~sig"])
		if d["hash"] {
			pb.Hash = nil
		}
		f.svc.Vote(ctx, wire(pb, &hotstuffpb.PartialCert{}))
	case "timeout":
		t, ok := f.tmos[a[2]]
		if !ok {
			return "bad-op"
		}
		pb := hotstuffpb.TimeoutMsgToProto(t)
		if d["viewsig"] {
			pb.ViewSig = nil
		}
		if d["msgsig"] {
			pb.MsgSig = nil
		}
		cutSig(pb.ViewSig, d["~viewsig"])
		cutSig(pb.MsgSig, d["~msgsig"])
		pb.SyncInfo = dropSI(pb.SyncInfo, d)
		f.svc.Timeout(ctx, wire(pb, &hotstuffpb.TimeoutMsg{}))
	case "newview":
		si, ok := f.sis[a[2]]
		if !ok {
			return "bad-op"
		}
		pb := dropSI(hotstuffpb.SyncInfoToProto(si), d)
		if pb == nil {
			pb = &hotstuffpb.SyncInfo{}
		}
		f.svc.NewView(ctx, wire(pb, &hotstuffpb.SyncInfo{}))
	default:
		return "bad-op"
	}
	return ""
}

var _ = proto.Marshal
