//go:build verif

package main

import (
	"encoding/hex"
	"strconv"
	"strings"
	"time"

	"github.com/relab/hotstuff"
	"github.com/relab/hotstuff/internal/proto/clientpb"
	"github.com/relab/hotstuff/security/crypto"
)

// bytes family (C12, C02, C13): the byte forms that are hashed and signed — Multi.ToBytes,
// QuorumCert.ToBytes, PartialCert.ToBytes, TimeoutMsg.ToBytes, Block.ToBytes — computed by the real
// code for objects given field by field; the model (Model/Bytes.lean) computes the same bytes, and
// its theorems say that they determine the object.
//
//	multi <parts>                                              -> <hex>
//	qc <view> <hash> <sig>                                     -> <hex>
//	pc <hash> <sig>                                            -> <hex>     (sig not nil)
//	tmo <id> <view> -|<view>/<hash>/<sig>                      -> <hex>
//	block <parent> <proposer> <view> <ts> <cmds> <qcview> <qchash> <sig>  -> <hex> <hash>
//
//	parts: - | <id>:<hex>,<id>:<hex>,...       (hex may be empty)
//	sig:   nil | m=<parts> (ECDSA multi-signature) | e=<parts> (EdDSA) | a=<ids>/<hex> (an aggregate
//	       with a participant set, as BLS: ids in iteration order, `-` for none)
//	hash, parent: 64 hex digits;  cmds: - | <client>.<seq>.<hex>;...   (hex may be empty)
//	an empty byte string is printed as `-`
type bytesFam struct{}

func init() { register("bytes", func() family { return &bytesFam{} }) }

// aggSig is a quorum signature with an explicit participant set, as a BLS aggregate has.
type aggSig struct {
	ids []hotstuff.ID
	b   []byte
}

func (s *aggSig) ToBytes() []byte                { return s.b }
func (s *aggSig) Participants() hotstuff.IDSet   { return s }
func (s *aggSig) Add(id hotstuff.ID)             { s.ids = append(s.ids, id) }
func (s *aggSig) Len() int                       { return len(s.ids) }
func (s *aggSig) ForEach(f func(hotstuff.ID))    { s.RangeWhile(func(i hotstuff.ID) bool { f(i); return true }) }
func (s *aggSig) Contains(id hotstuff.ID) bool {
	for _, x := range s.ids {
		if x == id {
			return true
		}
	}
	return false
}
func (s *aggSig) RangeWhile(f func(hotstuff.ID) bool) {
	for _, x := range s.ids {
		if !f(x) {
			return
		}
	}
}

func unhex(s string) ([]byte, bool) {
	if s == "-" || s == "" {
		return []byte{}, true
	}
	b, err := hex.DecodeString(s)
	return b, err == nil
}

func bytesHash(s string) (h hotstuff.Hash, ok bool) {
	b, ok := unhex(s)
	if !ok || len(b) != len(h) {
		return h, false
	}
	copy(h[:], b)
	return h, true
}

type idBytes struct {
	id uint32
	b  []byte
}

func bytesParts(s string) ([]idBytes, bool) {
	if s == "-" {
		return nil, true
	}
	var out []idBytes
	for _, p := range strings.Split(s, ",") {
		i := strings.IndexByte(p, ':')
		if i < 0 {
			return nil, false
		}
		id, err := strconv.ParseUint(p[:i], 10, 32)
		b, ok := unhex(p[i+1:])
		if err != nil || !ok {
			return nil, false
		}
		out = append(out, idBytes{uint32(id), b})
	}
	return out, true
}

// bytesSig parses <sig>; the second result says whether the signature is nil.
func bytesSig(s string) (hotstuff.QuorumSignature, bool, bool) {
	switch {
	case s == "nil":
		return nil, true, true
	case strings.HasPrefix(s, "m="):
		ps, ok := bytesParts(s[2:])
		if !ok {
			return nil, false, false
		}
		sigs := make([]*crypto.ECDSASignature, len(ps))
		for i, p := range ps {
			sigs[i] = crypto.RestoreECDSASignature(p.b, hotstuff.ID(p.id))
		}
		return crypto.NewMulti(sigs...), false, true
	case strings.HasPrefix(s, "e="):
		ps, ok := bytesParts(s[2:])
		if !ok {
			return nil, false, false
		}
		sigs := make([]*crypto.EDDSASignature, len(ps))
		for i, p := range ps {
			sigs[i] = crypto.RestoreEDDSASignature(p.b, hotstuff.ID(p.id))
		}
		return crypto.NewMulti(sigs...), false, true
	case strings.HasPrefix(s, "a="):
		i := strings.IndexByte(s, '/')
		if i < 0 {
			return nil, false, false
		}
		a := &aggSig{}
		if ids := s[2:i]; ids != "-" {
			for _, t := range strings.Split(ids, ",") {
				id, err := strconv.ParseUint(t, 10, 32)
				if err != nil {
					return nil, false, false
				}
				a.ids = append(a.ids, hotstuff.ID(id))
			}
		}
		b, ok := unhex(s[i+1:])
		if !ok {
			return nil, false, false
		}
		a.b = b
		return a, false, true
	}
	return nil, false, false
}

func bytesQC(view, hash, sig string) (qc hotstuff.QuorumCert, ok bool) {
	v, err := strconv.ParseUint(view, 10, 64)
	h, ok1 := bytesHash(hash)
	s, _, ok2 := bytesSig(sig)
	if err != nil || !ok1 || !ok2 {
		return qc, false
	}
	return hotstuff.NewQuorumCert(s, hotstuff.View(v), h), true
}

func (f *bytesFam) op(a []string) string {
	switch a[0] {
	case "multi":
		if len(a) != 2 {
			return "bad-op"
		}
		s, _, ok := bytesSig("m=" + a[1])
		if !ok {
			return "bad-op"
		}
		return hexOrDash(s.ToBytes())
	case "qc":
		if len(a) != 4 {
			return "bad-op"
		}
		qc, ok := bytesQC(a[1], a[2], a[3])
		if !ok {
			return "bad-op"
		}
		return hexOrDash(qc.ToBytes())
	case "pc":
		if len(a) != 3 {
			return "bad-op"
		}
		h, ok1 := bytesHash(a[1])
		s, isNil, ok2 := bytesSig(a[2])
		if !ok1 || !ok2 || isNil {
			return "bad-op"
		}
		return hexOrDash(hotstuff.NewPartialCert(s, h).ToBytes())
	case "tmo":
		if len(a) != 4 {
			return "bad-op"
		}
		id, e1 := strconv.ParseUint(a[1], 10, 32)
		v, e2 := strconv.ParseUint(a[2], 10, 64)
		if e1 != nil || e2 != nil {
			return "bad-op"
		}
		si := hotstuff.NewSyncInfo()
		if a[3] != "-" {
			q := strings.SplitN(a[3], "/", 3)
			if len(q) != 3 {
				return "bad-op"
			}
			qc, ok := bytesQC(q[0], q[1], q[2])
			if !ok {
				return "bad-op"
			}
			si.SetQC(qc)
		}
		return hexOrDash(hotstuff.TimeoutMsg{ID: hotstuff.ID(id), View: hotstuff.View(v), SyncInfo: si}.ToBytes())
	case "block":
		if len(a) != 9 {
			return "bad-op"
		}
		parent, ok1 := bytesHash(a[1])
		prop, e1 := strconv.ParseUint(a[2], 10, 32)
		v, e2 := strconv.ParseUint(a[3], 10, 64)
		ts, e3 := strconv.ParseUint(a[4], 10, 63)
		qc, ok2 := bytesQC(a[6], a[7], a[8])
		if !ok1 || !ok2 || e1 != nil || e2 != nil || e3 != nil {
			return "bad-op"
		}
		batch := &clientpb.Batch{}
		if a[5] != "-" {
			for _, c := range strings.Split(a[5], ";") {
				t := strings.Split(c, ".")
				if len(t) != 3 {
					return "bad-op"
				}
				cl, e1 := strconv.ParseUint(t[0], 10, 32)
				sq, e2 := strconv.ParseUint(t[1], 10, 64)
				d, ok := unhex(t[2])
				if e1 != nil || e2 != nil || !ok {
					return "bad-op"
				}
				cmd := &clientpb.Command{ClientID: uint32(cl), SequenceNumber: sq}
				if len(d) > 0 {
					cmd.Data = d
				}
				batch.Commands = append(batch.Commands, cmd)
			}
		}
		b := hotstuff.NewBlock(parent, qc, batch, hotstuff.View(v), hotstuff.ID(prop))
		b.SetTimestamp(time.Unix(0, int64(ts)))
		h := b.Hash()
		return hexOrDash(b.ToBytes()) + " " + hex.EncodeToString(h[:])
	}
	return "bad-op"
}
