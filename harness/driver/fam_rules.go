//go:build verif

package main

import (
	"context"
	"fmt"
	"io"
	"strconv"
	"time"

	"github.com/relab/hotstuff"
	"github.com/relab/hotstuff/core"
	"github.com/relab/hotstuff/core/eventloop"
	"github.com/relab/hotstuff/core/logging"
	"github.com/relab/hotstuff/internal/proto/clientpb"
	"github.com/relab/hotstuff/protocol/consensus"
	"github.com/relab/hotstuff/protocol/rules"
	"github.com/relab/hotstuff/security/blockchain"
)

// rules family (C04): the real rulesets from protocol/rules over a real security/blockchain store.
//
//	ruleset <chainedhotstuff|fasthotstuff|simplehotstuff>   -> ok chain=<ChainLength>
//	block <name> <view> <parent> <qcblock> <qcview>          -> ok       (created, NOT stored)
//	      <parent>,<qcblock> ::= zero | genesis | <earlier block name>
//	store <name>                                            -> ok | dup  (Blockchain.Store)
//	vote <curview> <name> [agg]                             -> true | false   (Ruleset.VoteRule; agg = proposal carries an AggregateQC)
//	commit <name>                                           -> commit=<name|none> lock=<name|->   (Ruleset.CommitRule, then the lock variable)
//	lock                                                    -> <name|->
//	defer | done                                            -> ok   (markers for the oracle only)
//
// The store's sender never answers a block request, so blockchain.Get's fetch path is a miss.
type rulesFam struct {
	rs     consensus.Ruleset
	chain  *blockchain.Blockchain
	blocks map[string]*hotstuff.Block
	names  map[hotstuff.Hash]string
	stored map[string]bool
	seq    int64
}

// silentSender is a core.Sender whose peers never answer.
type silentSender struct{}

func (silentSender) NewView(hotstuff.ID, hotstuff.SyncInfo) error { return nil }
func (silentSender) Vote(hotstuff.ID, hotstuff.PartialCert) error { return nil }
func (silentSender) Timeout(hotstuff.TimeoutMsg)                  {}
func (silentSender) Propose(*hotstuff.ProposeMsg)                 {}
func (silentSender) RequestBlock(context.Context, hotstuff.Hash) (*hotstuff.Block, bool) {
	return nil, false
}
func (s silentSender) Sub([]hotstuff.ID) (core.Sender, error) { return s, nil }

var rulesLogger logging.Logger

func init() {
	register("rules", func() family { return &rulesFam{} })
}

func (f *rulesFam) hashOf(tok string) (hotstuff.Hash, bool) {
	switch tok {
	case "zero":
		return hotstuff.Hash{}, true
	case "genesis":
		return hotstuff.GetGenesis().Hash(), true
	}
	b, ok := f.blocks[tok]
	if !ok {
		return hotstuff.Hash{}, false
	}
	return b.Hash(), true
}

func (f *rulesFam) nameOf(b *hotstuff.Block) string {
	if b == nil {
		return "none"
	}
	if n, ok := f.names[b.Hash()]; ok {
		return n
	}
	return "?"
}

func (f *rulesFam) lock() string {
	switch r := f.rs.(type) {
	case *rules.ChainedHotStuff:
		return f.nameOf(r.VerifLock())
	case *rules.SimpleHotStuff:
		return f.nameOf(r.VerifLock())
	}
	return "-"
}

func (f *rulesFam) op(a []string) string {
	if a[0] == "ruleset" {
		if len(a) != 2 || f.rs != nil {
			return "bad-op"
		}
		if rulesLogger == nil {
			logging.SetLogLevel("error")
			rulesLogger = logging.NewWithDest(io.Discard, "verif")
		}
		var opts []core.RuntimeOption
		switch a[1] {
		case rules.NameChainedHotStuff, rules.NameSimpleHotStuff:
		case rules.NameFastHotStuff:
			opts = append(opts, core.WithAggregateQC())
		default:
			return "bad-op"
		}
		cfg := core.NewRuntimeConfig(1, nil, opts...)
		el := eventloop.New(rulesLogger, 16)
		f.chain = blockchain.New(el, rulesLogger, silentSender{})
		rs, err := rules.New(rulesLogger, cfg, f.chain, a[1])
		if err != nil {
			return "bad-op"
		}
		f.rs = rs
		f.blocks = map[string]*hotstuff.Block{}
		f.names = map[hotstuff.Hash]string{hotstuff.GetGenesis().Hash(): "genesis"}
		f.stored = map[string]bool{}
		return fmt.Sprintf("ok chain=%d", rs.ChainLength())
	}
	if f.rs == nil {
		return "bad-op"
	}
	switch a[0] {
	case "block":
		if len(a) != 6 {
			return "bad-op"
		}
		name := a[1]
		if _, dup := f.blocks[name]; dup || name == "zero" || name == "genesis" || name == "none" {
			return "bad-op"
		}
		view, err1 := strconv.ParseUint(a[2], 10, 32)
		parent, ok1 := f.hashOf(a[3])
		qcb, ok2 := f.hashOf(a[4])
		qcv, err2 := strconv.ParseUint(a[5], 10, 32)
		if err1 != nil || err2 != nil || !ok1 || !ok2 {
			return "bad-op"
		}
		qc := hotstuff.NewQuorumCert(nil, hotstuff.View(qcv), qcb)
		b := hotstuff.NewBlock(parent, qc, &clientpb.Batch{}, hotstuff.View(view), 1)
		// deterministic, pairwise distinct timestamps: blocks with equal fields are still distinct blocks
		f.seq++
		b.SetTimestamp(time.Unix(1_700_000_000, f.seq))
		f.blocks[name] = b
		f.names[b.Hash()] = name
		return "ok"
	case "store":
		if len(a) != 2 {
			return "bad-op"
		}
		b, ok := f.blocks[a[1]]
		if !ok {
			return "bad-op"
		}
		_, had := f.chain.LocalGet(b.Hash())
		f.chain.Store(b)
		if _, has := f.chain.LocalGet(b.Hash()); !has {
			return "lost"
		}
		if had {
			return "dup"
		}
		return "ok"
	case "vote":
		if len(a) != 3 && !(len(a) == 4 && a[3] == "agg") {
			return "bad-op"
		}
		cur, err := strconv.ParseUint(a[1], 10, 32)
		b, ok := f.blocks[a[2]]
		if err != nil || !ok {
			return "bad-op"
		}
		p := hotstuff.ProposeMsg{ID: 1, Block: b}
		if len(a) == 4 {
			agg := hotstuff.NewAggregateQC(map[hotstuff.ID]hotstuff.QuorumCert{1: b.QuorumCert()}, nil, b.View())
			p.AggregateQC = &agg
		}
		return fmt.Sprint(f.rs.VoteRule(hotstuff.View(cur), p))
	case "commit":
		if len(a) != 2 {
			return "bad-op"
		}
		b, ok := f.blocks[a[1]]
		if !ok {
			return "bad-op"
		}
		c := f.rs.CommitRule(b)
		return fmt.Sprintf("commit=%s lock=%s", f.nameOf(c), f.lock())
	case "lock":
		if len(a) != 1 {
			return "bad-op"
		}
		return f.lock()
	case "defer", "done":
		if len(a) != 1 {
			return "bad-op"
		}
		return "ok"
	}
	return "bad-op"
}
