//go:build verif

package main

import (
	"encoding/hex"
	"errors"
	"fmt"
	"strconv"

	"github.com/relab/hotstuff"
	"github.com/relab/hotstuff/security/crypto"
)

// idset family (C19): crypto.Bitfield and the participant sets of real Sign/Combine outputs.
//
//	bf.add <id> | bf.contains <id> | bf.ids | bf.first | bf.len | bf.bytes | bf.frombytes <hex|->
//	scheme <ecdsa|eddsa|bls12> <n>
//	ms.sign <replica> <name>            -> ok len=1 ids=[r]
//	ms.combine <out> <a> <b> ...        -> ok len=k ids=[...] | reject:overlap | reject:multiple
//	ms.contains <name> <id>             -> true|false
type idsetFam struct {
	bf   crypto.Bitfield
	env  *cryptoEnv
	sigs map[string]hotstuff.QuorumSignature
}

func init() {
	register("idset", func() family { return &idsetFam{sigs: map[string]hotstuff.QuorumSignature{}} })
}

func hexOrDash(b []byte) string {
	if len(b) == 0 {
		return "-"
	}
	return hex.EncodeToString(b)
}

func descSig(s hotstuff.QuorumSignature) string {
	return fmt.Sprintf("ok len=%d ids=%s", s.Participants().Len(), idList(s.Participants()))
}

func (f *idsetFam) op(a []string) string {
	switch a[0] {
	case "bf.add", "bf.contains":
		if len(a) != 2 {
			return "bad-op"
		}
		id, err := strconv.ParseUint(a[1], 10, 32)
		if err != nil {
			return "bad-op"
		}
		if a[0] == "bf.add" {
			f.bf.Add(hotstuff.ID(id))
			return fmt.Sprintf("len=%d bytes=%s", f.bf.Len(), hexOrDash(f.bf.Bytes()))
		}
		return fmt.Sprint(f.bf.Contains(hotstuff.ID(id)))
	case "bf.ids":
		return idList(&f.bf)
	case "bf.first":
		first := hotstuff.ID(0)
		calls := 0
		f.bf.RangeWhile(func(i hotstuff.ID) bool { first = i; calls++; return false })
		return fmt.Sprintf("%d calls=%d", first, calls)
	case "bf.len":
		return fmt.Sprint(f.bf.Len())
	case "bf.bytes":
		return hexOrDash(f.bf.Bytes())
	case "bf.frombytes":
		if len(a) != 2 {
			return "bad-op"
		}
		var b []byte
		if a[1] != "-" {
			var err error
			if b, err = hex.DecodeString(a[1]); err != nil {
				return "bad-op"
			}
		}
		// the byte string is handed over as a PREFIX of a larger buffer whose remaining bytes are not zero (a decoder
		// that slices a receive buffer does that): growing the set later must not let them in (C19-r6m1)
		buf := make([]byte, len(b)+9)
		for i := range buf {
			buf[i] = 0xff
		}
		copy(buf, b)
		f.bf = crypto.BitfieldFromBytes(buf[:len(b)])
		return fmt.Sprintf("len=%d ids=%s", f.bf.Len(), idList(&f.bf))
	case "scheme":
		if len(a) != 3 {
			return "bad-op"
		}
		n, err := strconv.Atoi(a[2])
		if err != nil || n < 1 || n > 64 {
			return "bad-op"
		}
		f.env = newCryptoEnv(a[1], n)
		return "ok"
	case "ms.sign":
		if len(a) != 3 || f.env == nil {
			return "bad-op"
		}
		r, err := strconv.Atoi(a[1])
		if err != nil || r < 1 || r > f.env.n {
			return "bad-op"
		}
		s, err := f.env.bases[r-1].Sign([]byte("verif-c19"))
		if err != nil {
			return "reject:sign"
		}
		f.sigs[a[2]] = s
		return descSig(s)
	case "ms.combine":
		if len(a) < 2 || f.env == nil {
			return "bad-op"
		}
		var in []hotstuff.QuorumSignature
		for _, nm := range a[2:] {
			s, ok := f.sigs[nm]
			if !ok {
				return "bad-op"
			}
			in = append(in, s)
		}
		s, err := f.env.bases[0].Combine(in...)
		if err != nil {
			switch {
			case errors.Is(err, crypto.ErrCombineOverlap):
				return "reject:overlap"
			case errors.Is(err, crypto.ErrCombineMultiple):
				return "reject:multiple"
			}
			return "reject:other"
		}
		f.sigs[a[1]] = s
		return descSig(s)
	case "ms.contains":
		if len(a) != 3 {
			return "bad-op"
		}
		s, ok := f.sigs[a[1]]
		id, err := strconv.ParseUint(a[2], 10, 32)
		if !ok || err != nil {
			return "bad-op"
		}
		return fmt.Sprint(s.Participants().Contains(hotstuff.ID(id)))
	}
	return "bad-op"
}
