//go:build verif

package main

import (
	"fmt"
	"slices"
	"strconv"
	"strings"

	"github.com/relab/hotstuff"
	"github.com/relab/hotstuff/core"
	"github.com/relab/hotstuff/internal/tree"
	"github.com/relab/hotstuff/protocol/leaderrotation"
)

// tree family (C17): internal/tree (NewSimple and every accessor, from each replica's own
// instance), Shuffle, DefaultTreePos, and the way kauri.go / kauri/sender.go / treeleader.go walk
// the tree (ReplicaChildren downwards from TreeBased.GetLeader, Parent upwards).
//
//	cfg <bf> <[ids]> | new <r> | view <r> | childrenof <v> <x> | isroot <v> <x> | heightof <v> <x>
//	treeheight <n> <bf> | default <n> | shuffle <n> | disseminate | voteup <r> | check
type treeFam struct {
	bf  int
	pos []hotstuff.ID
	set bool
}

func init() { register("tree", func() family { return &treeFam{} }) }

const treeMaxID = 4294967295

func fmtIDs(ids []hotstuff.ID) string {
	s := make([]string, len(ids))
	for i, id := range ids {
		s[i] = strconv.FormatUint(uint64(id), 10)
	}
	return "[" + strings.Join(s, ",") + "]"
}

func parseIDList(s string) ([]hotstuff.ID, bool) {
	if len(s) < 2 || s[0] != '[' || s[len(s)-1] != ']' {
		return nil, false
	}
	inner := s[1 : len(s)-1]
	if inner == "" {
		return []hotstuff.ID{}, true
	}
	var out []hotstuff.ID
	for _, p := range strings.Split(inner, ",") {
		v, err := strconv.ParseUint(p, 10, 64)
		if err != nil {
			return nil, false
		}
		if v == 0 || v > treeMaxID {
			return nil, false
		}
		out = append(out, hotstuff.ID(v))
	}
	return out, true
}

func parseID(s string) (hotstuff.ID, bool) {
	v, err := strconv.ParseUint(s, 10, 64)
	if err != nil || v > treeMaxID {
		return 0, false
	}
	return hotstuff.ID(v), true
}

func hasDupIDs(ids []hotstuff.ID) bool {
	seen := map[hotstuff.ID]bool{}
	for _, id := range ids {
		if seen[id] {
			return true
		}
		seen[id] = true
	}
	return false
}

// instance builds the Tree of replica r the way every replica process does: NewSimple over its own
// copy of the configured position list.
func (f *treeFam) instance(r hotstuff.ID) *tree.Tree {
	return tree.NewSimple(r, f.bf, slices.Clone(f.pos))
}

// subTreeBounded walks the children lists (real ChildrenOf) the way SubTree does, but gives up after
// n entries. SubTree itself has no bound: if the children lists of the code under test ever contain
// a cycle it appends forever, so it is only called when this walk stays within the n replicas;
// otherwise the view reports sub=overflow (which the oracle rejects).
func (f *treeFam) subTreeBounded(t *tree.Tree, r hotstuff.ID) bool {
	q := slices.Clone(t.ChildrenOf(r))
	for i := 0; i < len(q); i++ {
		if len(q) > len(f.pos) {
			return false
		}
		q = append(q, t.ChildrenOf(q[i])...)
	}
	return len(q) <= len(f.pos)
}

func (f *treeFam) op(a []string) string {
	switch a[0] {
	case "cfg":
		if len(a) != 3 {
			return "bad-op"
		}
		bf, err := strconv.ParseInt(a[1], 10, 32)
		if err != nil {
			return "bad-op"
		}
		pos, ok := parseIDList(a[2])
		if !ok {
			return "bad-op"
		}
		f.bf, f.pos, f.set = int(bf), pos, true
		return fmt.Sprintf("ok n=%d", len(pos))
	case "new":
		if len(a) != 2 || !f.set {
			return "bad-op"
		}
		r, ok := parseID(a[1])
		if !ok {
			return "bad-op"
		}
		t := f.instance(r)
		return fmt.Sprintf("ok th=%d", t.TreeHeight())
	case "view":
		if len(a) != 2 || !f.set {
			return "bad-op"
		}
		r, ok := parseID(a[1])
		if !ok || hasDupIDs(f.pos) {
			return "bad-op"
		}
		t := f.instance(r)
		p, hasParent := t.Parent()
		sub := "overflow"
		if f.subTreeBounded(t, r) {
			sub = fmtIDs(t.SubTree())
		}
		return fmt.Sprintf("root=%d isroot=%t parent=%d,%t children=%s sub=%s peers=%s rh=%d th=%d",
			t.Root(), t.IsRoot(r), p, hasParent, fmtIDs(t.ReplicaChildren()), sub,
			fmtIDs(t.PeersOf()), t.ReplicaHeight(), t.TreeHeight())
	case "treeheight":
		if len(a) != 3 {
			return "bad-op"
		}
		n, err1 := strconv.ParseUint(a[1], 10, 32)
		bf, err2 := strconv.ParseUint(a[2], 10, 32)
		if err1 != nil || err2 != nil || bf < 1 || n > 1000000 {
			return "bad-op"
		}
		return strconv.Itoa(tree.VerifTreeHeight(int(n), int(bf)))
	case "childrenof", "isroot", "heightof":
		if len(a) != 3 || !f.set {
			return "bad-op"
		}
		v, ok1 := parseID(a[1])
		x, ok2 := parseID(a[2])
		if !ok1 || !ok2 {
			return "bad-op"
		}
		t := f.instance(v)
		switch a[0] {
		case "childrenof":
			return fmtIDs(t.ChildrenOf(x))
		case "isroot":
			return fmt.Sprint(t.IsRoot(x))
		default:
			return strconv.Itoa(t.VerifHeightOf(x))
		}
	case "default":
		if len(a) != 2 {
			return "bad-op"
		}
		n, err := strconv.ParseUint(a[1], 10, 32)
		if err != nil || n > 100000 {
			return "bad-op"
		}
		u := tree.DefaultTreePosUint32(int(n))
		us := make([]hotstuff.ID, len(u))
		for i, x := range u {
			us[i] = hotstuff.ID(x)
		}
		return fmt.Sprintf("ids=%s u32=%s", fmtIDs(tree.DefaultTreePos(int(n))), fmtIDs(us))
	case "shuffle":
		if len(a) != 2 {
			return "bad-op"
		}
		n, err := strconv.ParseUint(a[1], 10, 32)
		if err != nil || n > 100000 {
			return "bad-op"
		}
		u := tree.DefaultTreePosUint32(int(n))
		tree.Shuffle(u)
		ln := len(u)
		slices.Sort(u)
		us := make([]hotstuff.ID, len(u))
		for i, x := range u {
			us[i] = hotstuff.ID(x)
		}
		return fmt.Sprintf("len=%d sorted=%s", ln, fmtIDs(us))
	case "disseminate":
		if len(a) != 1 || !f.set || len(f.pos) == 0 || hasDupIDs(f.pos) {
			return "bad-op"
		}
		// every replica determines the leader with the tree leader rotation over its own instance
		leaders := map[hotstuff.ID]bool{}
		var leader hotstuff.ID
		for _, r := range f.pos {
			cfg := core.NewRuntimeConfig(r, nil, core.WithKauriTree(f.instance(r)))
			leader = leaderrotation.NewTreeBased(cfg).GetLeader(1)
			leaders[leader] = true
		}
		if len(leaders) != 1 {
			ls := make([]hotstuff.ID, 0, len(leaders))
			for l := range leaders {
				ls = append(ls, l)
			}
			slices.Sort(ls)
			return "leader=split:" + fmtIDs(ls)
		}
		// the proposal travels down: a replica that has it forwards it to its ReplicaChildren
		// (kauri.go sendProposalToChildren); delivery order, capped for safety
		queue := []hotstuff.ID{leader}
		for i := 0; i < len(queue) && i < len(f.pos)+1; i++ {
			queue = append(queue, f.instance(queue[i]).ReplicaChildren()...)
		}
		return fmt.Sprintf("leader=%d order=%s", leader, fmtIDs(queue))
	case "voteup":
		if len(a) != 2 || !f.set {
			return "bad-op"
		}
		r, ok := parseID(a[1])
		if !ok || hasDupIDs(f.pos) {
			return "bad-op"
		}
		// a contribution travels up: each replica sends to its own Parent() (kauri/sender.go
		// SendContributionToParent) unless it reports to have none; at most n hops
		path := []hotstuff.ID{r}
		t := f.instance(r) // replica r's own tree (panics if r is not part of the configuration)
		for k := 0; k < len(f.pos); k++ {
			p, hasParent := t.Parent()
			if !hasParent {
				break
			}
			path = append(path, p)
			t = f.instance(p)
		}
		return "path=" + fmtIDs(path)
	case "check":
		return "ok"
	}
	return "bad-op"
}
