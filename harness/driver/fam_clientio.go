//go:build verif

package main

import (
	"context"
	"encoding/hex"
	"fmt"
	"sort"
	"strconv"
	"strings"
	"sync"
	"time"
	"unsafe"

	"github.com/relab/gorums"
	"github.com/relab/hotstuff"
	"github.com/relab/hotstuff/core/eventloop"
	"github.com/relab/hotstuff/core/logging"
	"github.com/relab/hotstuff/internal/proto/clientpb"
	"github.com/relab/hotstuff/protocol"
	"github.com/relab/hotstuff/protocol/consensus"
	"github.com/relab/hotstuff/protocol/rules"
	"github.com/relab/hotstuff/security/blockchain"
	"github.com/relab/hotstuff/security/cert"
	"github.com/relab/hotstuff/security/crypto"
	"github.com/relab/hotstuff/server"
	"google.golang.org/grpc/codes"
	"google.golang.org/grpc/status"
)

// clientio family (C06): the real server.ClientIO, fed through its event loop registrations.
//
//	register <client>/<seq>/<hexdata>   -> ok chan=<k>     (an ExecCommand call is now blocked, waiter k)
//	exec <cmd>,<cmd>,...|-              -> out=[k:ok|dup|forked,...] count=<CmdCount> digest=<Hash>
//	abort <cmd>,...|-                   -> same
//
// ExecCommand runs in its own goroutine with a gorums.ServerCtx built from the same fields
// gorums itself fills in (the struct has no exported constructor).
type clientioFam struct {
	el      *eventloop.EventLoop
	srv     *server.ClientIO
	cache   *clientpb.CommandCache
	nreg    int
	results chan cioResult
	// bookkeeping to know how many outcomes must have arrived
	replaced int
	received int
}

type cioResult struct {
	k   int
	err error
}

type serverCtxMirror struct {
	context.Context
	once *sync.Once
	mut  *sync.Mutex
	c    chan<- *gorums.Message
}

func init() { register("clientio", func() family { return &clientioFam{} }) }

func (f *clientioFam) reset() {
	logger := logging.New("verif")
	f.el = eventloop.New(logger, 1000)
	f.cache = clientpb.NewCommandCache(1)
	f.srv = server.NewClientIO(f.el, logger, f.cache)
	f.nreg, f.replaced, f.received = 0, 0, 0
	f.results = make(chan cioResult, 1<<16)
}

func parseCioCmd(t string) (*clientpb.Command, bool) {
	p := strings.Split(t, "/")
	if len(p) != 3 {
		return nil, false
	}
	c, e1 := strconv.ParseUint(p[0], 10, 32)
	q, e2 := strconv.ParseUint(p[1], 10, 64)
	var data []byte
	var e3 error
	if p[2] != "-" {
		data, e3 = hex.DecodeString(p[2])
	}
	if e1 != nil || e2 != nil || e3 != nil {
		return nil, false
	}
	return &clientpb.Command{ClientID: uint32(c), SequenceNumber: q, Data: data}, true
}

func parseCioBatch(t string) (*clientpb.Batch, bool) {
	b := &clientpb.Batch{}
	if t == "-" {
		return b, true
	}
	for _, e := range strings.Split(t, ",") {
		c, ok := parseCioCmd(e)
		if !ok {
			return nil, false
		}
		b.Commands = append(b.Commands, c)
	}
	return b, true
}

func outcomeName(err error) string {
	if err == nil {
		return "ok"
	}
	st, ok := status.FromError(err)
	if ok && st.Code() == codes.Aborted {
		switch st.Message() {
		case "command already executed":
			return "dup"
		case "blockchain was forked":
			return "forked"
		}
	}
	return "error(" + err.Error() + ")"
}

func (f *clientioFam) report() string {
	// every waiter that left awaitingCmds without being replaced must have returned
	_, waiting := f.srv.VerifAwaiting(clientpb.MessageID{})
	want := f.nreg - f.replaced - waiting
	var outs []cioResult
	deadline := time.After(5 * time.Second)
	for f.received+len(outs) < want {
		select {
		case r := <-f.results:
			outs = append(outs, r)
		case <-deadline:
			return "timeout-waiting-for-outcomes"
		}
	}
	// anything beyond that is a second outcome; give it a moment to show
	for drained := false; !drained; {
		select {
		case r := <-f.results:
			outs = append(outs, r)
		default:
			drained = true
		}
	}
	f.received += len(outs)
	sort.SliceStable(outs, func(i, j int) bool { return outs[i].k < outs[j].k })
	var p []string
	for _, r := range outs {
		p = append(p, fmt.Sprintf("%d:%s", r.k, outcomeName(r.err)))
	}
	return fmt.Sprintf("out=[%s] count=%d digest=%x", strings.Join(p, ","), f.srv.CmdCount(), f.srv.Hash().Sum(nil))
}

// longCommit wires a real Committer (chained HotStuff rules, real block store and view states) and a real ClientIO
// to ONE event loop of the given queue capacity, stores a chain of k blocks of one command each (all but the newest)
// and hands the newest to TryCommit — what a replica that catches up does —, then runs the loop until idle.
func longCommit(capacity, k int) string {
	logger := logging.New("verif")
	el := eventloop.New(logger, uint(capacity))
	env := newCryptoEnv(crypto.NameECDSA, 1)
	bc := blockchain.New(el, logger, nullSender{})
	auth := cert.NewAuthority(env.cfgs[0], bc, env.bases[0])
	vs, err := protocol.NewViewStates(bc, auth)
	if err != nil {
		return "error"
	}
	cio := server.NewClientIO(el, logger, clientpb.NewCommandCache(1))
	cm := consensus.NewCommitter(el, logger, bc, vs, rules.NewChainedHotStuff(logger, env.cfgs[0], bc))
	parent := hotstuff.GetGenesis()
	var last *hotstuff.Block
	for v := 1; v <= k; v++ {
		qc := hotstuff.NewQuorumCert(nil, parent.View(), parent.Hash())
		batch := &clientpb.Batch{Commands: []*clientpb.Command{{ClientID: 7, SequenceNumber: uint64(v), Data: []byte{byte(v)}}}}
		b := hotstuff.NewBlock(parent.Hash(), qc, batch, parent.View()+1, 1)
		if v < k {
			bc.Store(b)
		}
		parent, last = b, b
	}
	if last == nil {
		return "bad-op"
	}
	if err := cm.TryCommit(last); err != nil {
		return "error"
	}
	ctx := context.Background()
	for i := 0; i < 100000 && el.Tick(ctx); i++ {
	}
	return fmt.Sprintf("committed=%d count=%d digest=%x", vs.CommittedBlock().View(), cio.CmdCount(), cio.Hash().Sum(nil))
}

func (f *clientioFam) op(a []string) string {
	if f.srv == nil {
		f.reset()
	}
	if len(a) == 3 && a[0] == "longcommit" {
		c, e1 := strconv.Atoi(a[1])
		k, e2 := strconv.Atoi(a[2])
		if e1 != nil || e2 != nil || c < 1 || c > 100000 || k < 1 || k > 250 {
			return "bad-op"
		}
		return longCommit(c, k)
	}
	if len(a) != 2 {
		return "bad-op"
	}
	switch a[0] {
	case "register":
		cmd, ok := parseCioCmd(a[1])
		if !ok {
			return "bad-op"
		}
		if was, _ := f.srv.VerifAwaiting(cmd.ID()); was {
			f.replaced++
		}
		f.nreg++
		k := f.nreg
		mu := new(sync.Mutex)
		mu.Lock()
		m := serverCtxMirror{Context: context.Background(), once: new(sync.Once), mut: mu}
		ctx := *(*gorums.ServerCtx)(unsafe.Pointer(&m))
		go func() {
			_, err := f.srv.ExecCommand(ctx, cmd)
			// a handler that returns WITHOUT releasing the server lock (gorums releases it itself after the handler):
			// release it here, or the line below would wait for ever
			m.once.Do(m.mut.Unlock)
			f.results <- cioResult{k, err}
		}()
		mu.Lock() // ExecCommand releases the server lock once the waiter is in place
		return fmt.Sprintf("ok chan=%d", k)
	case "exec", "abort":
		b, ok := parseCioBatch(a[1])
		if !ok {
			return "bad-op"
		}
		if a[0] == "exec" {
			f.el.AddEvent(clientpb.ExecuteEvent{Batch: b})
		} else {
			f.el.AddEvent(clientpb.AbortEvent{Batch: b})
		}
		ctx := context.Background()
		for i := 0; i < 1000 && f.el.Tick(ctx); i++ {
		}
		return f.report()
	}
	return "bad-op"
}
