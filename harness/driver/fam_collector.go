//go:build verif

package main

import (
	"fmt"
	"strconv"
	"strings"

	"github.com/relab/hotstuff"
	"github.com/relab/hotstuff/core"
	"github.com/relab/hotstuff/protocol/synchronizer"
)

// collector family (C08): the unexported timeoutCollector through an overlay export.
//
//	n <replicas>            -> ok (new collector; quorum from the configuration)
//	add <view> <id>         -> none | quorum [(view,id)...]   ; held=[(view,id)...]
//	delete-old <view>       -> held=[...]
type collectorFam struct {
	c *synchronizer.VerifCollector
}

func init() { register("collector", func() family { return &collectorFam{} }) }

func descTmos(ts []hotstuff.TimeoutMsg) string {
	var p []string
	for _, t := range ts {
		p = append(p, fmt.Sprintf("(%d,%d)", t.View, t.ID))
	}
	return "[" + strings.Join(p, "") + "]"
}

func (f *collectorFam) op(a []string) string {
	switch a[0] {
	case "n":
		n, err := strconv.Atoi(a[1])
		if err != nil || n < 1 || n > 100 {
			return "bad-op"
		}
		cfg := core.NewRuntimeConfig(1, nil)
		for i := 1; i <= n; i++ {
			cfg.AddReplica(&hotstuff.ReplicaInfo{ID: hotstuff.ID(i)})
		}
		f.c = synchronizer.VerifNewCollector(cfg)
		return "ok"
	case "add":
		if f.c == nil || len(a) != 3 {
			return "bad-op"
		}
		v, e1 := strconv.ParseUint(a[1], 10, 64)
		id, e2 := strconv.ParseUint(a[2], 10, 32)
		if e1 != nil || e2 != nil {
			return "bad-op"
		}
		l, q := f.c.Add(hotstuff.TimeoutMsg{View: hotstuff.View(v), ID: hotstuff.ID(id)})
		if !q {
			return "none ; held=" + descTmos(f.c.Held())
		}
		return "quorum " + descTmos(l) + " ; held=" + descTmos(f.c.Held())
	case "delete-old":
		if f.c == nil || len(a) != 2 {
			return "bad-op"
		}
		v, err := strconv.ParseUint(a[1], 10, 64)
		if err != nil {
			return "bad-op"
		}
		f.c.DeleteOldViews(hotstuff.View(v))
		return "held=" + descTmos(f.c.Held())
	}
	return "bad-op"
}
