//go:build verif

package main

import (
	"crypto/sha256"
	"fmt"
	"math/rand"
	"strconv"
	"strings"

	"github.com/relab/hotstuff"
	"github.com/relab/hotstuff/core"
	"github.com/relab/hotstuff/core/eventloop"
	"github.com/relab/hotstuff/internal/proto/clientpb"
	"github.com/relab/hotstuff/internal/proto/hotstuffpb"
	"github.com/relab/hotstuff/protocol"
	"github.com/relab/hotstuff/protocol/leaderrotation"
	"github.com/relab/hotstuff/security/blockchain"
	"github.com/relab/hotstuff/security/cert"
	"github.com/relab/hotstuff/security/crypto"
)

// leadhist family (C16, history-based schemes).  Up to three replica instances are built
// independently (own RuntimeConfig, event loop, Blockchain, Authority, ViewStates, Carousel and
// RepBased objects created through leaderrotation.New).  Blocks are real hotstuff.Blocks carrying
// real quorum certificates signed with the replicas' keys; instance 0 holds the proposer's object,
// the others hold copies decoded from the protobuf wire form.  Every instance's answer is printed.
//
//	cfg n=<n> seed=<int64> k=<chainLength> scheme=<ecdsa|eddsa|bls12> inst=<1..3>
//	rnd <seed> [v0 v1 v2]      -> rnd <seed> <v0> <v1> <v2>   (first three Int63() of the seeded source)
//	blk <name> parent=<g|name|?x> view=<v> proposer=<id> qc=<none|name> [signers=[..]] [store=no]
//	commit <g|name>
//	verify <name>              -> valid | invalid   (real Authority.VerifyQuorumCert on the block's certificate)
//	leader carousel <view>     -> leaders=[..]
//	leader reputation <view> [claim=<id>] -> leaders=[..]      (claim is for the model only)
type histInst struct {
	cfg    *core.RuntimeConfig
	chain  *blockchain.Blockchain
	vs     *protocol.ViewStates
	auth   *cert.Authority
	car    leaderrotation.LeaderRotation
	rep    leaderrotation.LeaderRotation
	blocks map[string]*hotstuff.Block
}

type leadhistFam struct {
	env     *cryptoEnv
	n, k    int
	scheme  string
	insts   []*histInst
	auths   []*cert.Authority
	orig    map[string]*hotstuff.Block
	pcs     map[string]hotstuff.PartialCert
	missing int
}

func init() { register("leadhist", func() family { return &leadhistFam{} }) }

func kv(args []string, key string) (string, bool) {
	for _, a := range args {
		if strings.HasPrefix(a, key+"=") {
			return a[len(key)+1:], true
		}
	}
	return "", false
}

func (f *leadhistFam) opCfg(a []string) string {
	ns, ok1 := kv(a, "n")
	ss, ok2 := kv(a, "seed")
	ks, ok3 := kv(a, "k")
	scheme, ok4 := kv(a, "scheme")
	is, ok5 := kv(a, "inst")
	if !(ok1 && ok2 && ok3 && ok4 && ok5) {
		return "bad-op"
	}
	n, e1 := strconv.Atoi(ns)
	seed, e2 := strconv.ParseInt(ss, 10, 64)
	k, e3 := strconv.Atoi(ks)
	inst, e4 := strconv.Atoi(is)
	if e1 != nil || e2 != nil || e3 != nil || e4 != nil || n < 1 || n > 64 || inst < 1 || inst > 3 || inst > n ||
		k < 0 || k >= 1<<31 || !(scheme == crypto.NameECDSA || scheme == crypto.NameEDDSA || scheme == crypto.NameBLS12) {
		return "bad-op"
	}
	*f = leadhistFam{n: n, k: k, scheme: scheme, orig: map[string]*hotstuff.Block{}, pcs: map[string]hotstuff.PartialCert{}}
	f.env = newCryptoEnv(scheme, n, core.WithSharedRandomSeed(seed))
	ids := []int{1, n, 2}[:inst]
	for _, id := range ids {
		cfg := f.env.cfgs[id-1]
		el := eventloop.New(quietLogger, 10)
		chain := blockchain.New(el, quietLogger, nullSender{})
		auth := cert.NewAuthority(cfg, chain, f.env.bases[id-1])
		vs, err := protocol.NewViewStates(chain, auth)
		if err != nil {
			return "reject:viewstates"
		}
		car, err1 := leaderrotation.New(quietLogger, cfg, chain, vs, leaderrotation.NameCarousel, k)
		rep, err2 := leaderrotation.New(quietLogger, cfg, chain, vs, leaderrotation.NameReputation, k)
		if err1 != nil || err2 != nil {
			return "reject:factory"
		}
		f.insts = append(f.insts, &histInst{cfg: cfg, chain: chain, vs: vs, auth: auth, car: car, rep: rep, blocks: map[string]*hotstuff.Block{}})
	}
	// one signing authority per replica (the chain argument is not used for signing)
	for j := 0; j < n; j++ {
		f.auths = append(f.auths, cert.NewAuthority(f.env.cfgs[j], f.insts[0].chain, f.env.bases[j]))
	}
	return "ok"
}

// concatSigs builds a signer list exactly as given (one entry, or with repetitions), which Combine refuses.
func concatSigs(scheme string, sigs []hotstuff.QuorumSignature) (hotstuff.QuorumSignature, bool) {
	switch scheme {
	case crypto.NameECDSA:
		var m crypto.Multi[*crypto.ECDSASignature]
		for _, s := range sigs {
			x, ok := s.(crypto.Multi[*crypto.ECDSASignature])
			if !ok {
				return nil, false
			}
			m = append(m, x...)
		}
		return m, true
	case crypto.NameEDDSA:
		var m crypto.Multi[*crypto.EDDSASignature]
		for _, s := range sigs {
			x, ok := s.(crypto.Multi[*crypto.EDDSASignature])
			if !ok {
				return nil, false
			}
			m = append(m, x...)
		}
		return m, true
	case crypto.NameBLS12:
		if len(sigs) == 1 {
			return sigs[0], true
		}
	}
	return nil, false
}

func (f *leadhistFam) makeQC(target string, signers []hotstuff.ID) (hotstuff.QuorumCert, bool) {
	blk := f.orig[target]
	distinct := true
	seen := map[hotstuff.ID]bool{}
	var pcs []hotstuff.PartialCert
	for _, s := range signers {
		if seen[s] {
			distinct = false
		}
		seen[s] = true
		key := fmt.Sprintf("%s/%d", target, s)
		pc, ok := f.pcs[key]
		if !ok {
			var err error
			pc, err = f.auths[s-1].CreatePartialCert(blk)
			if err != nil {
				return hotstuff.QuorumCert{}, false
			}
			f.pcs[key] = pc
		}
		pcs = append(pcs, pc)
	}
	if distinct && len(pcs) >= 2 {
		qc, err := f.auths[0].CreateQuorumCert(blk, pcs)
		return qc, err == nil
	}
	var sigs []hotstuff.QuorumSignature
	for _, pc := range pcs {
		sigs = append(sigs, pc.Signature())
	}
	sig, ok := concatSigs(f.scheme, sigs)
	if !ok {
		return hotstuff.QuorumCert{}, false
	}
	return hotstuff.NewQuorumCert(sig, blk.View(), blk.Hash()), true
}

func (f *leadhistFam) opBlk(a []string) string {
	if f.env == nil || len(a) < 2 {
		return "bad-op"
	}
	name := a[1]
	rest := a[2:]
	par, ok1 := kv(rest, "parent")
	vs, ok2 := kv(rest, "view")
	ps, ok3 := kv(rest, "proposer")
	qcs, ok4 := kv(rest, "qc")
	if !(ok1 && ok2 && ok3 && ok4) || name == "g" || strings.HasPrefix(name, "?") || f.orig[name] != nil {
		return "bad-op"
	}
	view, e1 := strconv.ParseUint(vs, 10, 64)
	proposer, e2 := strconv.ParseUint(ps, 10, 32)
	if e1 != nil || e2 != nil {
		return "bad-op"
	}
	var parent hotstuff.Hash
	switch {
	case par == "g":
		parent = hotstuff.GetGenesis().Hash()
	case strings.HasPrefix(par, "?"):
		f.missing++
		parent = sha256.Sum256([]byte(fmt.Sprintf("verif-missing-%d", f.missing)))
	default:
		p, ok := f.orig[par]
		if !ok {
			return "bad-op"
		}
		parent = p.Hash()
	}
	var qc hotstuff.QuorumCert
	sl, hasSigners := kv(rest, "signers")
	if qcs == "none" {
		if hasSigners {
			return "bad-op"
		}
		qc = hotstuff.NewQuorumCert(nil, 0, hotstuff.GetGenesis().Hash())
	} else {
		if f.orig[qcs] == nil || !hasSigners {
			return "bad-op"
		}
		signers, ok := parseIDListL(sl)
		if !ok || len(signers) == 0 || len(signers) > 256 {
			return "bad-op"
		}
		for i, s := range signers {
			if s < 1 || int(s) > f.n {
				return "bad-op"
			}
			if f.scheme == crypto.NameBLS12 && i > 0 && signers[i-1] >= s {
				return "bad-op"
			}
		}
		var ok2 bool
		if qc, ok2 = f.makeQC(qcs, signers); !ok2 {
			return "reject:qc"
		}
	}
	store := true
	if st, ok := kv(rest, "store"); ok {
		switch st {
		case "no":
			store = false
		case "yes":
		default:
			return "bad-op"
		}
	}
	b := hotstuff.NewBlock(parent, qc, &clientpb.Batch{}, hotstuff.View(view), hotstuff.ID(proposer))
	f.orig[name] = b
	for i, in := range f.insts {
		own := b
		if i > 0 {
			own = hotstuffpb.BlockFromProto(hotstuffpb.BlockToProto(b))
			if own.Hash() != b.Hash() {
				return "reject:hash-roundtrip"
			}
		}
		in.blocks[name] = own
		if store {
			in.chain.Store(own)
		}
	}
	return "ok"
}

func rndLine(seed int64) string {
	r := rand.New(rand.NewSource(seed))
	return fmt.Sprintf("rnd %d %d %d %d", seed, r.Int63(), r.Int63(), r.Int63())
}

func (f *leadhistFam) op(a []string) string {
	switch a[0] {
	case "cfg":
		return f.opCfg(a[1:])
	case "rnd":
		if len(a) != 2 && len(a) != 5 {
			return "bad-op"
		}
		seed, err := strconv.ParseInt(a[1], 10, 64)
		if err != nil {
			return "bad-op"
		}
		for _, v := range a[2:] {
			if _, err := strconv.ParseUint(v, 10, 64); err != nil {
				return "bad-op"
			}
		}
		return rndLine(seed)
	case "blk":
		return f.opBlk(a)
	case "commit":
		if f.env == nil || len(a) != 2 {
			return "bad-op"
		}
		if a[1] != "g" && f.orig[a[1]] == nil {
			return "bad-op"
		}
		for _, in := range f.insts {
			if a[1] == "g" {
				in.vs.UpdateCommittedBlock(hotstuff.GetGenesis())
			} else {
				in.vs.UpdateCommittedBlock(in.blocks[a[1]])
			}
		}
		return "ok"
	case "verify":
		if f.env == nil || len(a) != 2 || f.orig[a[1]] == nil {
			return "bad-op"
		}
		if err := f.insts[0].auth.VerifyQuorumCert(f.insts[0].blocks[a[1]].QuorumCert()); err != nil {
			return "invalid"
		}
		return "valid"
	case "leader":
		if f.env == nil || len(a) < 3 {
			return "bad-op"
		}
		v, err := strconv.ParseUint(a[2], 10, 64)
		if err != nil {
			return "bad-op"
		}
		var out []hotstuff.ID
		switch {
		case a[1] == "carousel" && len(a) == 3:
			for _, in := range f.insts {
				out = append(out, in.car.GetLeader(hotstuff.View(v)))
			}
		case a[1] == "reputation" && (len(a) == 3 || (len(a) == 4 && strings.HasPrefix(a[3], "claim="))):
			for _, in := range f.insts {
				out = append(out, in.rep.GetLeader(hotstuff.View(v)))
			}
		default:
			return "bad-op"
		}
		return leadersStr(out)
	}
	return "bad-op"
}
