//go:build verif

package main

import (
	"fmt"
	"io"
	"strconv"
	"strings"

	"github.com/relab/hotstuff"
	"github.com/relab/hotstuff/core"
	"github.com/relab/hotstuff/core/logging"
	"github.com/relab/hotstuff/internal/tree"
	"github.com/relab/hotstuff/protocol/leaderrotation"
)

// leader family (C16, stateless schemes): the real RoundRobin / Fixed / TreeBased objects, built
// independently for different replicas of one configuration; every instance's answer is printed.
//
//	rr <n> <view>                       -> leaders=[a,b]
//	rrgrow <k> <n> <v1> <v2>            -> first=<x> leaders=[a,b]   one instance over a configuration that has k replicas
//	                                       when first asked (view v1) and n when asked again (view v2); a second instance
//	                                       is built over the complete configuration
//	fixed <id> <view>                   -> leaders=[a,b]
//	notree <n> <view>                   -> leaders=[a,b]
//	tree <n> <bf> <[positions]> <view>  -> leaders=[a,b,c]
//	factory <name|-> <n> <view>         -> leader=<a> | reject:name
type leaderFam struct {
	cfgs map[string]*core.RuntimeConfig
}

func init() {
	register("leader", func() family { return &leaderFam{cfgs: map[string]*core.RuntimeConfig{}} })
}

var quietLogger = logging.NewWithDest(io.Discard, "verif")

// plainConfig returns a configuration of replica `id` in a cluster of n replicas (no keys needed).
func plainConfig(id, n int, opts ...core.RuntimeOption) *core.RuntimeConfig {
	cfg := core.NewRuntimeConfig(hotstuff.ID(id), nil, opts...)
	for j := 1; j <= n; j++ {
		cfg.AddReplica(&hotstuff.ReplicaInfo{ID: hotstuff.ID(j)})
	}
	return cfg
}

func (f *leaderFam) cfg(id, n int) *core.RuntimeConfig {
	k := fmt.Sprintf("%d/%d", id, n)
	c, ok := f.cfgs[k]
	if !ok {
		c = plainConfig(id, n)
		f.cfgs[k] = c
	}
	return c
}

func leadersStr(ids []hotstuff.ID) string {
	s := make([]string, len(ids))
	for i, id := range ids {
		s[i] = strconv.FormatUint(uint64(id), 10)
	}
	return "leaders=[" + strings.Join(s, ",") + "]"
}

func parseIDListL(s string) ([]hotstuff.ID, bool) {
	if len(s) < 2 || s[0] != '[' || s[len(s)-1] != ']' {
		return nil, false
	}
	inner := s[1 : len(s)-1]
	if inner == "" {
		return []hotstuff.ID{}, true
	}
	var out []hotstuff.ID
	for _, p := range strings.Split(inner, ",") {
		v, err := strconv.ParseUint(p, 10, 32)
		if err != nil {
			return nil, false
		}
		out = append(out, hotstuff.ID(v))
	}
	return out, true
}

func (f *leaderFam) op(a []string) string {
	switch a[0] {
	case "rr", "notree":
		if len(a) != 3 {
			return "bad-op"
		}
		n, err1 := strconv.Atoi(a[1])
		v, err2 := strconv.ParseUint(a[2], 10, 64)
		if err1 != nil || err2 != nil || n < 0 || n > 64 || (a[0] == "notree" && n < 1) {
			return "bad-op"
		}
		other := n
		if other < 1 {
			other = 1
		}
		var ls [2]leaderrotation.LeaderRotation
		if a[0] == "rr" {
			ls[0] = leaderrotation.NewRoundRobin(f.cfg(1, n))
			ls[1] = leaderrotation.NewRoundRobin(f.cfg(other, n))
		} else {
			ls[0] = leaderrotation.NewTreeBased(f.cfg(1, n))
			ls[1] = leaderrotation.NewTreeBased(f.cfg(other, n))
		}
		return leadersStr([]hotstuff.ID{ls[0].GetLeader(hotstuff.View(v)), ls[1].GetLeader(hotstuff.View(v))})
	case "rrgrow":
		if len(a) != 5 {
			return "bad-op"
		}
		k, err1 := strconv.Atoi(a[1])
		n, err2 := strconv.Atoi(a[2])
		v1, err3 := strconv.ParseUint(a[3], 10, 64)
		v2, err4 := strconv.ParseUint(a[4], 10, 64)
		if err1 != nil || err2 != nil || err3 != nil || err4 != nil || k < 1 || n < k || n > 64 {
			return "bad-op"
		}
		cfg := plainConfig(1, k)
		early := leaderrotation.NewRoundRobin(cfg)
		first := early.GetLeader(hotstuff.View(v1))
		for j := k + 1; j <= n; j++ {
			cfg.AddReplica(&hotstuff.ReplicaInfo{ID: hotstuff.ID(j)})
		}
		late := leaderrotation.NewRoundRobin(plainConfig(n, n))
		return fmt.Sprintf("first=%d ", first) + leadersStr([]hotstuff.ID{early.GetLeader(hotstuff.View(v2)), late.GetLeader(hotstuff.View(v2))})
	case "fixed":
		if len(a) != 3 {
			return "bad-op"
		}
		l, err1 := strconv.ParseUint(a[1], 10, 32)
		v, err2 := strconv.ParseUint(a[2], 10, 64)
		if err1 != nil || err2 != nil {
			return "bad-op"
		}
		x, y := leaderrotation.NewFixed(hotstuff.ID(l)), leaderrotation.NewFixed(hotstuff.ID(l))
		return leadersStr([]hotstuff.ID{x.GetLeader(hotstuff.View(v)), y.GetLeader(hotstuff.View(v))})
	case "tree":
		if len(a) != 5 {
			return "bad-op"
		}
		n, err1 := strconv.Atoi(a[1])
		bf, err2 := strconv.Atoi(a[2])
		pos, ok := parseIDListL(a[3])
		v, err3 := strconv.ParseUint(a[4], 10, 64)
		if err1 != nil || err2 != nil || err3 != nil || !ok || n < 1 || n > 64 || bf < 2 || bf > 64 || len(pos) == 0 {
			return "bad-op"
		}
		for _, p := range pos {
			if p < 1 || int(p) > n {
				return "bad-op"
			}
		}
		// three vantage replicas: first, middle and last tree position; each gets its own copy of the
		// position list, its own Tree and its own configuration.
		var out []hotstuff.ID
		for _, vantage := range []hotstuff.ID{pos[0], pos[len(pos)/2], pos[len(pos)-1]} {
			own := append([]hotstuff.ID(nil), pos...)
			t := tree.NewSimple(vantage, bf, own)
			cfg := plainConfig(int(vantage), n, core.WithKauriTree(t))
			out = append(out, leaderrotation.NewTreeBased(cfg).GetLeader(hotstuff.View(v)))
		}
		return leadersStr(out)
	case "factory":
		if len(a) != 4 {
			return "bad-op"
		}
		n, err1 := strconv.Atoi(a[2])
		v, err2 := strconv.ParseUint(a[3], 10, 64)
		if err1 != nil || err2 != nil || n < 1 || n > 64 {
			return "bad-op"
		}
		name := a[1]
		if name == "-" {
			name = ""
		}
		if name == leaderrotation.NameCarousel || name == leaderrotation.NameReputation {
			return "bad-op" // need a chain: see the leadhist family
		}
		ld, err := leaderrotation.New(quietLogger, f.cfg(1, n), nil, nil, name, 3)
		if err != nil {
			return "reject:name"
		}
		return fmt.Sprintf("leader=%d", ld.GetLeader(hotstuff.View(v)))
	}
	return "bad-op"
}
