//go:build verif

package main

import (
	"fmt"
	"sort"
	"strconv"
	"strings"

	"github.com/relab/hotstuff"
)

// cluster family (C01, C05, C06): several real replicas (each wired as in the replica family)
// sharing one crypto world, connected by per-link FIFO queues that the script pumps, drops or
// bypasses with crafted messages signed with the keys of replicas that have no node (Byzantine).
//
//	cfg ...                         world set-up (cert family)
//	node <i> rules=<r> [leader=..]  a real replica with id i
//	@<i> <replica op>               start | deliver ... | local-timeout | fetchable ... | dump
//	pump <from> <to> [max=<k>]      deliver the next queued messages from -> to
//	drop <from> <to> [max=<k>]
//	fetch <i> on|off                whether i can fetch blocks from its peers' stores
//	queues
//	mark <words...>                 phase marker for the oracles
//	qcof <qcname> <block>           names the certificate a block carries
//	<anything else>                 world op (cert / wire families): crafting
type clusterFam struct {
	world *wireFam
	nodes map[int]*replicaFam
	links map[[2]int][]any
}

func init() {
	register("cluster", func() family {
		return &clusterFam{world: &wireFam{sis: map[string]hotstuff.SyncInfo{}, sigNum: map[string]int{}},
			nodes: map[int]*replicaFam{}, links: map[[2]int][]any{}}
	})
}

func (c *clusterFam) ids() []int {
	var ids []int
	for i := range c.nodes {
		ids = append(ids, i)
	}
	sort.Ints(ids)
	return ids
}

func (c *clusterFam) peerFetch(f *replicaFam, h hotstuff.Hash) (*hotstuff.Block, bool) {
	if !f.fetchPeers {
		return nil, false
	}
	for _, j := range c.ids() {
		if c.nodes[j] == f {
			continue
		}
		if b, ok := c.nodes[j].chain.LocalGet(h); ok {
			return b, true
		}
	}
	return nil, false
}

func (c *clusterFam) enqueue(a, b int, m any) {
	if _, ok := c.nodes[b]; ok && a != b {
		k := [2]int{a, b}
		c.links[k] = append(c.links[k], m)
	}
}

// route queues what node i handed to its sender during the last step.
func (c *clusterFam) route(i int) {
	f := c.nodes[i]
	for _, m := range f.sent {
		switch x := m.(type) {
		case hotstuff.ProposeMsg:
			for _, j := range c.ids() {
				c.enqueue(i, j, x)
			}
		case sentVote:
			c.enqueue(i, int(x.to), hotstuff.VoteMsg{ID: hotstuff.ID(i), PartialCert: x.pc})
		case hotstuff.TimeoutMsg:
			for _, j := range c.ids() {
				c.enqueue(i, j, x)
			}
		case sentNewView:
			c.enqueue(i, int(x.to), hotstuff.NewViewMsg{ID: hotstuff.ID(i), SyncInfo: x.si, FromNetwork: true})
		}
	}
	f.sent = nil
}

func (c *clusterFam) deliver(to int, m any) (out string) {
	f := c.nodes[to]
	defer func() {
		if r := recover(); r != nil {
			f.log, f.sent = nil, nil
			panic(r)
		}
	}()
	f.sent = nil
	f.el.AddEvent(m)
	f.run()
	out = f.flush()
	c.route(to)
	return out
}

func (c *clusterFam) op(a []string) string {
	kv := kvArgs(a)
	switch a[0] {
	case "cfg":
		c.nodes = map[int]*replicaFam{}
		c.links = map[[2]int][]any{}
		return c.world.op(a)
	case "node":
		if len(a) < 2 || c.world.env == nil {
			return "bad-op"
		}
		i, ok := c.world.replica(a[1])
		if _, dup := c.nodes[i]; !ok || dup {
			return "bad-op"
		}
		switch kv["rules"] {
		case "chainedhotstuff", "simplehotstuff":
		case "fasthotstuff":
			if !c.world.agg {
				return "bad-op"
			}
		default:
			return "bad-op"
		}
		f := &replicaFam{wireFam: c.world, fetchable: map[hotstuff.Hash]*hotstuff.Block{}, pfx: fmt.Sprintf("r%d", i),
			cmdClient: uint32(100 + i), cluster: c}
		res := f.build(i, kv["rules"], kv["leader"], false)
		if res != "ok" {
			return res
		}
		c.nodes[i] = f
		return "ok"
	case "fetch":
		if len(a) != 3 || (a[2] != "on" && a[2] != "off") {
			return "bad-op"
		}
		i, err := strconv.Atoi(a[1])
		f, ok := c.nodes[i]
		if err != nil || !ok {
			return "bad-op"
		}
		f.fetchPeers = a[2] == "on"
		return "ok"
	case "pump", "drop":
		if len(a) < 3 {
			return "bad-op"
		}
		from, e1 := strconv.Atoi(a[1])
		to, e2 := strconv.Atoi(a[2])
		if _, ok := c.nodes[to]; e1 != nil || e2 != nil || !ok || from < 0 {
			return "bad-op"
		}
		max := 1000
		if s, ok := kv["max"]; ok {
			m, err := strconv.Atoi(s)
			if err != nil || m < 0 {
				return "bad-op"
			}
			max = m
		}
		k := [2]int{from, to}
		if a[0] == "drop" {
			n := len(c.links[k])
			if n > max {
				n = max
			}
			c.links[k] = c.links[k][n:]
			return fmt.Sprintf("dropped=%d", n)
		}
		var outs []string
		for n := 0; n < max && len(c.links[k]) > 0; n++ {
			m := c.links[k][0]
			c.links[k] = c.links[k][1:]
			outs = append(outs, c.deliver(to, m))
		}
		if len(outs) == 0 {
			return "idle"
		}
		return strings.Join(outs, " || ")
	case "mark":
		return "ok" // phase marker for the oracles (no effect)
	case "qcof":
		if len(a) != 3 || c.world.env == nil || a[2] == "G" {
			return "bad-op"
		}
		b, ok := c.world.blocks[a[2]]
		if !ok {
			return "bad-op"
		}
		c.world.qcs[a[1]] = b.QuorumCert()
		return "ok"
	case "queues":
		var p []string
		for _, x := range c.ids() {
			for _, y := range c.ids() {
				if x != y {
					p = append(p, fmt.Sprintf("%d>%d:%d", x, y, len(c.links[[2]int{x, y}])))
				}
			}
		}
		return strings.Join(p, " ")
	}
	if strings.HasPrefix(a[0], "@") {
		i, err := strconv.Atoi(a[0][1:])
		f, ok := c.nodes[i]
		if err != nil || !ok || len(a) < 2 || a[1] == "cfg" || a[1] == "replica" || a[1] == "wire" {
			return "bad-op"
		}
		f.sent = nil
		out := f.op(a[1:])
		c.route(i)
		return out
	}
	return c.world.op(a)
}
