//go:build verif

package main

import (
	"runtime"
	"strings"
	"sync"
	"sync/atomic"
	"time"

	"github.com/relab/hotstuff"
	"github.com/relab/hotstuff/security/crypto"
)

// verifyGate wraps the crypto base of an Authority (outside the signature cache, so that every vote
// verification passes it).  While the gate is closed, a Verify call made from
// VotingMachine.verifyCert — asynchronous vote verification: `go vm.verifyCert(cert, block)` —
// blocks until the script releases it; results are unchanged.  Calls from anywhere else (certificate
// verification on the event loop) pass.  Votes whose only claimed signer is the replica itself are
// never held: the replica's own vote enters the voting machine in the middle of a handler
// (Clique.Aggregate -> CollectVote), and the model runs that one synchronously.
type verifyGate struct {
	crypto.Base
	own    hotstuff.ID
	mu     sync.Mutex
	closed bool
	held   []chan struct{} // arrival order
}

// number of goroutines blocked in any gate of this process (gates of abandoned family instances
// included)
var gateHeld atomic.Int64

var gateSync sync.Mutex

const verifyCertFn = "votingmachine.(*VotingMachine).verifyCert"

func inVerifyCert() bool {
	var pcs [48]uintptr
	n := runtime.Callers(2, pcs[:])
	fr := runtime.CallersFrames(pcs[:n])
	for {
		f, more := fr.Next()
		if strings.HasSuffix(f.Function, verifyCertFn) {
			return true
		}
		if !more {
			return false
		}
	}
}

func (g *verifyGate) Verify(sig hotstuff.QuorumSignature, msg []byte) error {
	if inVerifyCert() {
		own := false
		if sig != nil {
			p := sig.Participants()
			own = p.Len() == 1 && p.Contains(g.own)
		}
		g.mu.Lock()
		if g.closed && !own {
			ch := make(chan struct{})
			g.held = append(g.held, ch)
			gateHeld.Add(1)
			g.mu.Unlock()
			<-ch
		} else {
			g.mu.Unlock()
		}
	}
	err := g.Base.Verify(sig, msg)
	// a synchronisation edge from the end of the verification to the script's next step (settleVerifiers
	// learns of the goroutine's end by polling, which the race detector does not see as an ordering)
	gateSync.Lock()
	gateSync.Unlock()
	return err
}

func (g *verifyGate) setClosed(c bool) {
	g.mu.Lock()
	g.closed = c
	g.mu.Unlock()
}

func (g *verifyGate) nHeld() int {
	g.mu.Lock()
	defer g.mu.Unlock()
	return len(g.held)
}

// release lets the k-th oldest held verification (1-based) go on.
func (g *verifyGate) release(k int) bool {
	g.mu.Lock()
	if k < 1 || k > len(g.held) {
		g.mu.Unlock()
		return false
	}
	ch := g.held[k-1]
	g.held = append(g.held[:k-1:k-1], g.held[k:]...)
	gateHeld.Add(-1)
	g.mu.Unlock()
	close(ch)
	return true
}

// vmGoroutines counts the goroutines started by the voting machine (`go vm.verifyCert`) that have
// not ended: those whose stack shows verifyCert, and those not yet scheduled (known by their creator).
func vmGoroutines() int {
	buf := make([]byte, 1<<16)
	for {
		n := runtime.Stack(buf, true)
		if n < len(buf) {
			buf = buf[:n]
			break
		}
		buf = make([]byte, 2*len(buf))
	}
	cnt := 0
	for i, g := range strings.Split(string(buf), "\n\n") {
		if i == 0 {
			continue // the calling goroutine
		}
		if strings.Contains(g, verifyCertFn) {
			cnt++
			continue
		}
		if j := strings.LastIndex(g, "created by "); j >= 0 && strings.Contains(g[j:], "/votingmachine.") {
			cnt++
		}
	}
	return cnt
}

// settleVerifiers waits until every verification goroutine has either ended (all its effects —
// stored vote, queued NewViewMsg, clean-up — are done: the goroutine is gone) or is blocked in a gate.
func settleVerifiers() {
	deadline := time.Now().Add(30 * time.Second)
	for i := 0; ; i++ {
		if int64(vmGoroutines()) <= gateHeld.Load() {
			gateSync.Lock()
			gateSync.Unlock()
			return
		}
		if i < 50 {
			runtime.Gosched()
		} else {
			time.Sleep(20 * time.Microsecond)
			if time.Now().After(deadline) {
				panic("vote verification goroutine neither ended nor reached the gate")
			}
		}
	}
}
