//go:build verif

package main

import (
	"context"
	"crypto/sha256"
	"encoding/binary"
	"encoding/hex"
	"errors"
	"fmt"
	"strconv"
	"strings"
	"time"

	bls12 "github.com/kilic/bls12-381"
	"github.com/relab/hotstuff"
	"github.com/relab/hotstuff/core"
	"github.com/relab/hotstuff/core/eventloop"
	"github.com/relab/hotstuff/core/logging"
	"github.com/relab/hotstuff/internal/proto/clientpb"
	"github.com/relab/hotstuff/security/blockchain"
	"github.com/relab/hotstuff/security/cert"
	"github.com/relab/hotstuff/security/crypto"
)

// cert family (C02, C11, C20 thresholds): real cert.Authority instances (one per replica, each with
// its own block store and signature cache) driven with wire-shaped certificate values that are
// materialised from symbolic scripts with real keys.  Vocabulary: see vlib/fam_cert.py.

func init() {
	logging.SetLogLevel("fatal")
	register("cert", func() family { return &certFam{} })
}

// nullSender never delivers anything; RequestBlock finds nothing.
type nullSender struct{}

func (nullSender) NewView(hotstuff.ID, hotstuff.SyncInfo) error { return nil }
func (nullSender) Vote(hotstuff.ID, hotstuff.PartialCert) error { return nil }
func (nullSender) Timeout(hotstuff.TimeoutMsg)                  {}
func (nullSender) Propose(*hotstuff.ProposeMsg)                 {}
func (nullSender) RequestBlock(context.Context, hotstuff.Hash) (*hotstuff.Block, bool) {
	return nil, false
}
func (s nullSender) Sub([]hotstuff.ID) (core.Sender, error) { return s, nil }

type certFam struct {
	env       *cryptoEnv
	agg       bool
	chains    []*blockchain.Blockchain
	auths     []*cert.Authority
	blocks    map[string]*hotstuff.Block
	sigs      map[string]hotstuff.QuorumSignature
	popFaults []popFault
	qcs       map[string]hotstuff.QuorumCert
	tcs       map[string]hotstuff.TimeoutCert
	aggs      map[string]hotstuff.AggregateQC
	tmos      map[string]hotstuff.TimeoutMsg
	nblk      int
}

func kvArgs(a []string) map[string]string {
	m := map[string]string{}
	for _, s := range a {
		if i := strings.IndexByte(s, '='); i > 0 {
			m[s[:i]] = s[i+1:]
		}
	}
	return m
}

func verdict(err error) string {
	if err == nil {
		return "ok"
	}
	return "reject"
}

func (f *certFam) setup(scheme string, n int, cache uint, agg bool) {
	opts := []core.RuntimeOption{core.WithCache(cache), core.WithSyncVerification()}
	if agg {
		opts = append(opts, core.WithAggregateQC())
	}
	f.env = newCryptoEnvPop(scheme, n, f.popFaults, opts...)
	f.agg = agg
	f.chains, f.auths = nil, nil
	for i := 0; i < n; i++ {
		logger := logging.New("v")
		el := eventloop.New(logger, 100)
		ch := blockchain.New(el, logger, nullSender{})
		f.chains = append(f.chains, ch)
		f.auths = append(f.auths, cert.NewAuthority(f.env.cfgs[i], ch, f.env.bases[i]))
	}
	f.blocks = map[string]*hotstuff.Block{"G": hotstuff.GetGenesis()}
	f.sigs = map[string]hotstuff.QuorumSignature{}
	f.qcs = map[string]hotstuff.QuorumCert{"genesis": hotstuff.NewQuorumCert(nil, 0, hotstuff.GetGenesis().Hash())}
	f.tcs = map[string]hotstuff.TimeoutCert{}
	f.aggs = map[string]hotstuff.AggregateQC{}
	f.tmos = map[string]hotstuff.TimeoutMsg{}
}

func (f *certFam) replica(s string) (int, bool) {
	r, err := strconv.Atoi(s)
	if err != nil || f.env == nil || r < 1 || r > f.env.n {
		return 0, false
	}
	return r, true
}

func (f *certFam) hashOf(s string) (hotstuff.Hash, bool) {
	if strings.HasPrefix(s, "unk:") {
		return sha256.Sum256([]byte(s)), true
	}
	b, ok := f.blocks[s]
	if !ok {
		return hotstuff.Hash{}, false
	}
	return b.Hash(), true
}

// msgBytes materialises a symbolic message.
func (f *certFam) msgBytes(s string) ([]byte, bool) {
	switch {
	case strings.HasPrefix(s, "blk:"):
		b, ok := f.blocks[s[4:]]
		if !ok {
			return nil, false
		}
		return b.ToBytes(), true
	case strings.HasPrefix(s, "view:"):
		v, err := strconv.ParseUint(s[5:], 10, 64)
		if err != nil {
			return nil, false
		}
		return hotstuff.View(v).ToBytes(), true
	case strings.HasPrefix(s, "tmo:"):
		p := strings.Split(s, ":")
		if len(p) != 4 {
			return nil, false
		}
		id, e1 := strconv.ParseUint(p[1], 10, 32)
		v, e2 := strconv.ParseUint(p[2], 10, 64)
		if e1 != nil || e2 != nil {
			return nil, false
		}
		t := hotstuff.TimeoutMsg{ID: hotstuff.ID(id), View: hotstuff.View(v)}
		if p[3] != "-" {
			qc, ok := f.qcs[p[3]]
			if !ok {
				return nil, false
			}
			t.SyncInfo = hotstuff.NewSyncInfoWith(qc)
		}
		return t.ToBytes(), true
	case strings.HasPrefix(s, "raw:"):
		return []byte(s), true
	case strings.HasPrefix(s, "hex:"):
		b, err := hex.DecodeString(s[4:])
		return b, err == nil
	case strings.HasPrefix(s, "enc:"):
		// enc:<id>:<msg> — the bytes the signature cache hashes for the one-entry batch {id: msg}:
		// id (4 bytes LE), length of msg (8 bytes LE), msg.  As a MESSAGE of its own it is something else.
		p := strings.SplitN(s, ":", 3)
		if len(p) != 3 {
			return nil, false
		}
		id, err := strconv.ParseUint(p[1], 10, 32)
		inner, ok := f.msgBytes(p[2])
		if err != nil || !ok {
			return nil, false
		}
		var n [8]byte
		binary.LittleEndian.PutUint64(n[:], uint64(len(inner)))
		out := append([]byte{}, hotstuff.ID(id).ToBytes()...)
		out = append(out, n[:]...)
		return append(out, inner...), true
	}
	return nil, false
}

func junkBytes(tag string) []byte {
	h := sha256.Sum256([]byte("junk-sig:" + tag))
	out := append([]byte{}, h[:]...)
	out = append(out, h[:]...)
	return out // 64 bytes: right length for Ed25519, not a valid DER for ECDSA
}

var junkKey *crypto.BLS12PrivateKey

// junkPoint is a valid G2 subgroup point that is not a signature of any configured key.
func junkPoint(tag string) *bls12.PointG2 {
	g2 := bls12.NewG2()
	p, err := g2.HashToCurve([]byte("junk-point:"+tag), []byte("VERIF_JUNK_DOMAIN"))
	if err != nil {
		panic(err)
	}
	return p
}

func (f *certFam) sigOrNil(s string) (hotstuff.QuorumSignature, bool) {
	if s == "nil" {
		return nil, true
	}
	x, ok := f.sigs[s]
	return x, ok
}

func parseIDs(s string) ([]hotstuff.ID, bool) {
	if s == "-" || s == "" {
		return nil, true
	}
	var out []hotstuff.ID
	for _, p := range strings.Split(s, ",") {
		v, err := strconv.ParseUint(p, 10, 32)
		if err != nil {
			return nil, false
		}
		out = append(out, hotstuff.ID(v))
	}
	return out, true
}

func (f *certFam) descQC(qc hotstuff.QuorumCert) string {
	name := "?"
	for n, b := range f.blocks {
		if b.Hash() == qc.BlockHash() && (name == "?" || n < name) {
			name = n
		}
	}
	return fmt.Sprintf("%d:%s", qc.View(), name)
}

func (f *certFam) op(a []string) string {
	if a[0] == "cfg" {
		if len(a) < 3 {
			return "bad-op"
		}
		kv := kvArgs(a)
		n, err := strconv.Atoi(a[2])
		if err != nil || n < 1 || n > 40 {
			return "bad-op"
		}
		cache, _ := strconv.Atoi(kv["cache"])
		if ks, ok := kv["keys"]; ok {
			// keys=<hex>,<hex>,... : fixed BLS private keys for the first replicas (replays of
			// value-dependent failures); the model ignores the field
			if a[1] != crypto.NameBLS12 || !presetBLSKeys(strings.Split(ks, ",")) {
				return "bad-op"
			}
		} else {
			restoreBLSKeys()
		}
		// pop=<id>:bad|none|swap<j>,... : what the other replicas hold as replica id's BLS proof of possession
		f.popFaults = nil
		if ps, ok := kv["pop"]; ok {
			if a[1] != crypto.NameBLS12 {
				return "bad-op"
			}
			for _, e := range strings.Split(ps, ",") {
				t := strings.SplitN(e, ":", 2)
				id, err := strconv.Atoi(t[0])
				if len(t) != 2 || err != nil || id < 1 || id > n {
					return "bad-op"
				}
				f.popFaults = append(f.popFaults, popFault{id, t[1]})
			}
		}
		f.setup(a[1], n, uint(cache), kv["agg"] == "1")
		return "ok"
	}
	if f.env == nil {
		return "bad-op"
	}
	kv := kvArgs(a)
	switch a[0] {
	case "block": // block <name> parent=<b> view=<v> proposer=<p> qc=<qc> [store=none]
		if len(a) < 2 {
			return "bad-op"
		}
		ph, ok := f.hashOf(kv["parent"])
		qc, ok2 := f.qcs[kv["qc"]]
		v, e1 := strconv.ParseUint(kv["view"], 10, 64)
		p, e2 := strconv.ParseUint(kv["proposer"], 10, 32)
		if !ok || !ok2 || e1 != nil || e2 != nil {
			return "bad-op"
		}
		f.nblk++
		b := hotstuff.NewBlock(ph, qc, &clientpb.Batch{Commands: []*clientpb.Command{{ClientID: 1, SequenceNumber: uint64(f.nblk), Data: []byte(a[1])}}}, hotstuff.View(v), hotstuff.ID(p))
		b.SetTimestamp(time.Unix(1700000000+int64(f.nblk), 0))
		f.blocks[a[1]] = b
		if kv["store"] != "none" {
			for _, ch := range f.chains {
				ch.Store(b)
			}
		}
		return "ok"
	case "sign": // sign <r> <msg> <name>
		if len(a) != 4 {
			return "bad-op"
		}
		r, ok := f.replica(a[1])
		m, ok2 := f.msgBytes(a[2])
		if !ok || !ok2 {
			return "bad-op"
		}
		s, err := f.auths[r-1].Sign(m)
		if err != nil {
			return "reject"
		}
		f.sigs[a[3]] = s
		return descSig(s)
	case "multi": // multi <name> <claimed>:<src>[.<idx>] ...   (src = signature name | junk<tag>)
		if len(a) < 2 {
			return "bad-op"
		}
		type ent struct {
			id hotstuff.ID
			b  []byte
		}
		var ents []ent
		for _, e := range a[2:] {
			i := strings.IndexByte(e, ':')
			if i < 0 {
				return "bad-op"
			}
			id, err := strconv.ParseUint(e[:i], 10, 32)
			if err != nil {
				return "bad-op"
			}
			src := e[i+1:]
			if strings.HasPrefix(src, "junk") {
				ents = append(ents, ent{hotstuff.ID(id), junkBytes(src)})
				continue
			}
			if strings.HasPrefix(src, "cutA") || strings.HasPrefix(src, "cutB") {
				// cutA<k>@<sig> / cutB<k>@<sig>: the first k bytes / the rest of the CONCATENATED bytes of a
				// multi-signature: the same bytes split at another place
				at := strings.IndexByte(src, '@')
				if at < 0 {
					return "bad-op"
				}
				k, err := strconv.Atoi(src[4:at])
				whole, ok := f.sigs[src[at+1:]]
				if err != nil || !ok || whole == nil {
					return "bad-op"
				}
				wb := whole.ToBytes()
				if k < 0 || k > len(wb) {
					return "bad-op"
				}
				if src[3] == 'A' {
					ents = append(ents, ent{hotstuff.ID(id), append([]byte{}, wb[:k]...)})
				} else {
					ents = append(ents, ent{hotstuff.ID(id), append([]byte{}, wb[k:]...)})
				}
				continue
			}
			idx := 0
			if j := strings.IndexByte(src, '.'); j >= 0 {
				idx, _ = strconv.Atoi(src[j+1:])
				src = src[:j]
			}
			s, ok := f.sigs[src]
			if !ok {
				return "bad-op"
			}
			switch ms := s.(type) {
			case crypto.Multi[*crypto.ECDSASignature]:
				if idx >= len(ms) {
					return "bad-op"
				}
				ents = append(ents, ent{hotstuff.ID(id), ms[idx].ToBytes()})
			case crypto.Multi[*crypto.EDDSASignature]:
				if idx >= len(ms) {
					return "bad-op"
				}
				ents = append(ents, ent{hotstuff.ID(id), ms[idx].ToBytes()})
			default:
				return "bad-op"
			}
		}
		switch f.env.scheme {
		case crypto.NameECDSA:
			var l []*crypto.ECDSASignature
			for _, e := range ents {
				l = append(l, crypto.RestoreECDSASignature(e.b, e.id))
			}
			f.sigs[a[1]] = crypto.NewMulti(l...)
		case crypto.NameEDDSA:
			var l []*crypto.EDDSASignature
			for _, e := range ents {
				l = append(l, crypto.RestoreEDDSASignature(e.b, e.id))
			}
			f.sigs[a[1]] = crypto.NewMulti(l...)
		default:
			return "bad-op"
		}
		return descSig(f.sigs[a[1]])
	case "bls": // bls <name> pt=<a+b+junk7|0> bits=<ids|->
		if len(a) < 2 || f.env.scheme != crypto.NameBLS12 {
			return "bad-op"
		}
		g2 := bls12.NewG2()
		sum := g2.Zero()
		if kv["pt"] != "0" {
			for _, t := range strings.Split(kv["pt"], "+") {
				var p *bls12.PointG2
				if strings.HasPrefix(t, "junk") {
					p = junkPoint(t)
				} else {
					s, ok := f.sigs[t]
					if !ok {
						return "bad-op"
					}
					var err error
					if p, err = g2.FromCompressed(s.ToBytes()); err != nil {
						return "bad-op"
					}
				}
				g2.Add(sum, sum, p)
			}
		}
		ids, ok := parseIDs(kv["bits"])
		if !ok {
			return "bad-op"
		}
		var bf crypto.Bitfield
		for _, id := range ids {
			bf.Add(id)
		}
		s, err := crypto.RestoreBLS12AggregateSignature(g2.ToCompressed(sum), crypto.BitfieldFromBytes(bf.Bytes()))
		if err != nil {
			return "reject"
		}
		f.sigs[a[1]] = s
		return descSig(s)
	case "combine": // combine <r> <out> <a> <b> ...
		if len(a) < 3 {
			return "bad-op"
		}
		r, ok := f.replica(a[1])
		if !ok {
			return "bad-op"
		}
		var in []hotstuff.QuorumSignature
		for _, nm := range a[3:] {
			s, ok := f.sigs[nm]
			if !ok {
				return "bad-op"
			}
			in = append(in, s)
		}
		s, err := f.auths[r-1].Combine(in...)
		if err != nil {
			if errors.Is(err, crypto.ErrCombineMultiple) {
				return "reject:multiple"
			}
			return "reject"
		}
		f.sigs[a[2]] = s
		return descSig(s)
	case "qc": // qc <name> sig=<s|nil> view=<v> hash=<b|unk:..>
		if len(a) < 2 {
			return "bad-op"
		}
		s, ok := f.sigOrNil(kv["sig"])
		h, ok2 := f.hashOf(kv["hash"])
		v, err := strconv.ParseUint(kv["view"], 10, 64)
		if !ok || !ok2 || err != nil {
			return "bad-op"
		}
		f.qcs[a[1]] = hotstuff.NewQuorumCert(s, hotstuff.View(v), h)
		return "ok"
	case "tc":
		if len(a) < 2 {
			return "bad-op"
		}
		s, ok := f.sigOrNil(kv["sig"])
		v, err := strconv.ParseUint(kv["view"], 10, 64)
		if !ok || err != nil {
			return "bad-op"
		}
		f.tcs[a[1]] = hotstuff.NewTimeoutCert(s, hotstuff.View(v))
		return "ok"
	case "agg": // agg <name> sig=<s|nil> view=<v> qcs=<id>:<qc>,...
		if len(a) < 2 {
			return "bad-op"
		}
		s, ok := f.sigOrNil(kv["sig"])
		v, err := strconv.ParseUint(kv["view"], 10, 64)
		if !ok || err != nil {
			return "bad-op"
		}
		m := map[hotstuff.ID]hotstuff.QuorumCert{}
		if kv["qcs"] != "-" && kv["qcs"] != "" {
			for _, e := range strings.Split(kv["qcs"], ",") {
				i := strings.IndexByte(e, ':')
				if i < 0 {
					return "bad-op"
				}
				id, err := strconv.ParseUint(e[:i], 10, 32)
				qc, ok := f.qcs[e[i+1:]]
				if err != nil || !ok {
					return "bad-op"
				}
				m[hotstuff.ID(id)] = qc
			}
		}
		f.aggs[a[1]] = hotstuff.NewAggregateQC(m, s, hotstuff.View(v))
		return "ok"
	case "timeout": // timeout <name> id=<i> view=<v> viewsig=<s|nil> msgsig=<s|nil> qc=<qc|->
		if len(a) < 2 {
			return "bad-op"
		}
		id, e1 := strconv.ParseUint(kv["id"], 10, 32)
		v, e2 := strconv.ParseUint(kv["view"], 10, 64)
		vs, ok1 := f.sigOrNil(kv["viewsig"])
		ms, ok2 := f.sigOrNil(kv["msgsig"])
		if e1 != nil || e2 != nil || !ok1 || !ok2 {
			return "bad-op"
		}
		t := hotstuff.TimeoutMsg{ID: hotstuff.ID(id), View: hotstuff.View(v), ViewSignature: vs, MsgSignature: ms}
		if kv["qc"] != "-" {
			qc, ok := f.qcs[kv["qc"]]
			if !ok {
				return "bad-op"
			}
			t.SyncInfo = hotstuff.NewSyncInfoWith(qc)
		}
		f.tmos[a[1]] = t
		return "ok"
	case "create-pc": // create-pc <r> <block> <name>
		if len(a) != 4 {
			return "bad-op"
		}
		r, ok := f.replica(a[1])
		b, ok2 := f.blocks[a[2]]
		if !ok || !ok2 {
			return "bad-op"
		}
		pc, err := f.auths[r-1].CreatePartialCert(b)
		if err != nil {
			return "reject"
		}
		f.sigs[a[3]] = pc.Signature()
		return fmt.Sprintf("ok signer=%d", pc.Signer())
	case "create-qc": // create-qc <r> <name> <block> <sig>...
		if len(a) < 4 {
			return "bad-op"
		}
		r, ok := f.replica(a[1])
		b, ok2 := f.blocks[a[3]]
		if !ok || !ok2 {
			return "bad-op"
		}
		var pcs []hotstuff.PartialCert
		for _, nm := range a[4:] {
			s, ok := f.sigs[nm]
			if !ok {
				return "bad-op"
			}
			pcs = append(pcs, hotstuff.NewPartialCert(s, b.Hash()))
		}
		qc, err := f.auths[r-1].CreateQuorumCert(b, pcs)
		if err != nil {
			return "reject"
		}
		f.qcs[a[2]] = qc
		if qc.Signature() != nil {
			f.sigs[a[2]+".sig"] = qc.Signature()
			return fmt.Sprintf("ok view=%d len=%d ids=%s", qc.View(), qc.Signature().Participants().Len(), idList(qc.Signature().Participants()))
		}
		return fmt.Sprintf("ok view=%d nil", qc.View())
	case "create-tc", "create-agg": // create-tc <r> <name> <view> <timeout>...
		if len(a) < 4 {
			return "bad-op"
		}
		r, ok := f.replica(a[1])
		v, err := strconv.ParseUint(a[3], 10, 64)
		if !ok || err != nil {
			return "bad-op"
		}
		var ts []hotstuff.TimeoutMsg
		for _, nm := range a[4:] {
			t, ok := f.tmos[nm]
			if !ok {
				return "bad-op"
			}
			ts = append(ts, t)
		}
		if a[0] == "create-tc" {
			tc, err := f.auths[r-1].CreateTimeoutCert(hotstuff.View(v), ts)
			if err != nil {
				return "reject"
			}
			f.tcs[a[2]] = tc
			if tc.Signature() == nil {
				return "ok nil"
			}
			f.sigs[a[2]+".sig"] = tc.Signature()
			return fmt.Sprintf("ok len=%d ids=%s", tc.Signature().Participants().Len(), idList(tc.Signature().Participants()))
		}
		ag, err := f.auths[r-1].CreateAggregateQC(hotstuff.View(v), ts)
		if err != nil {
			return "reject"
		}
		f.aggs[a[2]] = ag
		f.sigs[a[2]+".sig"] = ag.Sig()
		var ids []string
		for _, id := range sortedIDs(func() map[hotstuff.ID]bool {
			m := map[hotstuff.ID]bool{}
			for k := range ag.QCs() {
				m[k] = true
			}
			return m
		}()) {
			ids = append(ids, fmt.Sprint(id))
		}
		return fmt.Sprintf("ok len=%d ids=%s qcs=[%s]", ag.Sig().Participants().Len(), idList(ag.Sig().Participants()), strings.Join(ids, ","))
	case "verify-qc":
		if len(a) != 3 {
			return "bad-op"
		}
		r, ok := f.replica(a[1])
		qc, ok2 := f.qcs[a[2]]
		if !ok || !ok2 {
			return "bad-op"
		}
		return verdict(f.auths[r-1].VerifyQuorumCert(qc))
	case "verify-tc":
		if len(a) != 3 {
			return "bad-op"
		}
		r, ok := f.replica(a[1])
		tc, ok2 := f.tcs[a[2]]
		if !ok || !ok2 {
			return "bad-op"
		}
		return verdict(f.auths[r-1].VerifyTimeoutCert(tc))
	case "verify-agg":
		if len(a) != 3 {
			return "bad-op"
		}
		r, ok := f.replica(a[1])
		ag, ok2 := f.aggs[a[2]]
		if !ok || !ok2 {
			return "bad-op"
		}
		high, err := f.auths[r-1].VerifyAggregateQC(ag)
		if err != nil {
			return "reject"
		}
		return "ok high=" + f.descQC(high)
	case "verify-any": // verify-any <r> <block> <agg|->
		if len(a) != 4 {
			return "bad-op"
		}
		r, ok := f.replica(a[1])
		b, ok2 := f.blocks[a[2]]
		if !ok || !ok2 {
			return "bad-op"
		}
		p := &hotstuff.ProposeMsg{ID: b.Proposer(), Block: b}
		if a[3] != "-" {
			ag, ok := f.aggs[a[3]]
			if !ok {
				return "bad-op"
			}
			p.AggregateQC = &ag
		}
		return verdict(f.auths[r-1].VerifyAnyQC(p))
	case "verify-pc": // verify-pc <r> <sig|nil> <block|unk:..>
		if len(a) != 4 {
			return "bad-op"
		}
		r, ok := f.replica(a[1])
		s, ok2 := f.sigOrNil(a[2])
		h, ok3 := f.hashOf(a[3])
		if !ok || !ok2 || !ok3 {
			return "bad-op"
		}
		if s == nil {
			// hotstuff.NewPartialCert dereferences the signature; a vote without signature is C10's business
			return "skip"
		}
		return verdict(f.auths[r-1].VerifyPartialCert(hotstuff.NewPartialCert(s, h)))
	case "verify": // verify <r> <sig|nil> <msg>
		if len(a) != 4 {
			return "bad-op"
		}
		r, ok := f.replica(a[1])
		s, ok2 := f.sigOrNil(a[2])
		m, ok3 := f.msgBytes(a[3])
		if !ok || !ok2 || !ok3 {
			return "bad-op"
		}
		return verdict(f.auths[r-1].Verify(s, m))
	case "batch-verify": // batch-verify <r> <sig|nil> <id>=<msg>,...
		if len(a) != 4 {
			return "bad-op"
		}
		r, ok := f.replica(a[1])
		s, ok2 := f.sigOrNil(a[2])
		if !ok || !ok2 {
			return "bad-op"
		}
		batch := map[hotstuff.ID][]byte{}
		if a[3] != "-" {
			for _, e := range strings.Split(a[3], ",") {
				i := strings.IndexByte(e, '=')
				if i < 0 {
					return "bad-op"
				}
				id, err := strconv.ParseUint(e[:i], 10, 32)
				m, ok := f.msgBytes(e[i+1:])
				if err != nil || !ok {
					return "bad-op"
				}
				batch[hotstuff.ID(id)] = m
			}
		}
		return verdict(f.auths[r-1].BatchVerify(s, batch))
	}
	return "bad-op"
}
