//go:build verif

package main

import (
	"bytes"
	"context"
	"fmt"
	"os"
	"os/exec"
	"runtime"
	"sort"
	"strconv"
	"strings"
	"time"

	"github.com/relab/hotstuff/internal/proto/clientpb"
)

// cmdcache family (C15): one real clientpb.CommandCache.  See lean/HsVerif/HsVerif/Drv/CmdCache.lean
// for the vocabulary.  Get calls with a live context run in goroutines and stay pending across
// operations; after every operation the driver waits for quiescence — every pending Get is parked
// in its select (goroutine state taken from the runtime, no timing involved) — and reports the
// batches that came out.
type ccGetter struct {
	id        int
	cancel    context.CancelFunc
	cancelled bool
}

type ccResult struct {
	id    int
	batch *clientpb.Batch
	err   error
}

type cmdcacheFam struct {
	cache   *clientpb.CommandCache
	nadd    int
	nextID  int
	pending []*ccGetter // oldest first
	results chan ccResult
	timer   *time.Timer
	hung    bool // a call into the cache did not return; the cache is unusable until `new`
}

var ccCurrent *cmdcacheFam

// ccLeak counts Get goroutines of abandoned caches that are parked for good (only ever non-zero
// when the code under test ignores a cancelled context or blocks inside Add/Proposed).
var ccLeak int

// ccStuck counts waits that ran into their 20 s deadline.
var ccStuck int

// ccLeakHelpers counts helper goroutines of guarded() that are stuck inside the cache for good.
var ccLeakHelpers int

func init() {
	register("cmdcache", func() family {
		if ccCurrent != nil {
			ccCurrent.shutdown()
		}
		// The serial ops only need the pending Gets to run to their next park; one P makes that a
		// single Gosched (quiescence is still *decided* from the goroutine states, see settle).
		// The stress op raises it for its own duration.
		runtime.GOMAXPROCS(1)
		ccCurrent = &cmdcacheFam{results: make(chan ccResult, 4096)}
		return ccCurrent
	})
}

// shutdown cancels every pending Get of this instance and waits for the goroutines to return, so
// that no goroutine of an earlier script is ever counted by selecting().
func (f *cmdcacheFam) shutdown() {
	for _, g := range f.pending {
		g.cancel()
	}
	deadline := time.Now().Add(20 * time.Second)
	for len(f.pending) > 0 {
		runtime.Gosched()
		select {
		case r := <-f.results:
			f.remove(r.id)
			continue
		default:
		}
		if selecting() == len(f.pending)+ccLeak || time.Now().After(deadline) {
			// cancelled and still parked in the select (or stuck elsewhere): they will never return
			if time.Now().After(deadline) {
				ccStuck++
			}
			ccLeak = selecting()
			f.pending = nil
			f.results = make(chan ccResult, 4096)
			return
		}
	}
}

// guarded runs a call that returns at once on the unchanged code; false = it will never return:
// the helper goroutine and every pending Get are parked inside the cache at the same instant
// (goroutine states from the runtime) and nobody but this driver could wake them.
func (f *cmdcacheFam) guarded(fn func()) bool {
	done := make(chan struct{})
	go func() { fn(); close(done) }()
	wait := 200 * time.Microsecond
	start := time.Now()
	for {
		if f.timer == nil {
			f.timer = time.NewTimer(wait)
		} else {
			f.timer.Reset(wait)
		}
		select {
		case <-done:
			f.timer.Stop()
			return true
		case <-f.timer.C:
			if ccParked(true) == len(f.pending)+ccLeak+ccLeakHelpers+1 || time.Since(start) > 30*time.Second {
				ccLeakHelpers++
				f.hung = true
				return false
			}
			if wait < 50*time.Millisecond {
				wait *= 2
			}
		}
	}
}

func (f *cmdcacheFam) remove(id int) *ccGetter {
	for i, g := range f.pending {
		if g.id == id {
			f.pending = append(f.pending[:i:i], f.pending[i+1:]...)
			return g
		}
	}
	return nil
}

// selecting counts the goroutines that are parked in the select of CommandCache.Get.
func selecting() int { return ccParked(false) }

// ccParked counts goroutines parked inside CommandCache code: in the select of Get, or (any=true)
// also on a channel operation or the mutex anywhere in the cache's methods.
func ccParked(any bool) int {
	buf := make([]byte, 1<<16)
	for {
		n := runtime.Stack(buf, true)
		if n < len(buf) {
			buf = buf[:n]
			break
		}
		buf = make([]byte, 2*len(buf))
	}
	cnt := 0
	for _, blk := range strings.Split(string(buf), "\n\n") {
		if !strings.HasPrefix(blk, "goroutine ") {
			continue
		}
		nl := strings.IndexByte(blk, '\n')
		if nl < 0 {
			continue
		}
		head := blk[:nl]
		lb, rb := strings.IndexByte(head, '['), strings.LastIndexByte(head, ']')
		if lb < 0 || rb < lb {
			continue
		}
		state := head[lb+1 : rb]
		if c := strings.IndexByte(state, ','); c >= 0 {
			state = state[:c]
		}
		// the unchanged Get parks only in its select; a variant that waits on one channel alone
		// shows up as "chan receive" and is parked just the same
		if (state == "select" || state == "chan receive") && strings.Contains(blk, "clientpb.(*CommandCache).Get") {
			cnt++
		} else if any && strings.Contains(blk, "clientpb.(*CommandCache).") &&
			(state == "chan send" || state == "chan receive" || state == "select" || state == "sync.Mutex.Lock" || state == "semacquire") {
			cnt++
		}
	}
	return cnt
}

// settle waits until every pending Get is parked in its select or has delivered its result.
// Returns the batches that came out (extraction order), the number of live Gets that ended with an
// error without having been cancelled, and whether the cancelled ones ended.
func (f *cmdcacheFam) settle() (out []*clientpb.Batch, spurious int, endedCancelled int, ok bool) {
	deadline := time.Now().Add(20 * time.Second)
	for spin := 0; ; spin++ {
		if len(f.pending) > 0 {
			runtime.Gosched()
		}
	drain:
		for {
			select {
			case r := <-f.results:
				g := f.remove(r.id)
				switch {
				case r.err == nil:
					out = append(out, r.batch)
				case g != nil && g.cancelled:
					endedCancelled++
				default:
					spurious++
				}
			default:
				break drain
			}
		}
		if len(f.pending) == 0 || (selecting() == len(f.pending)+ccLeak && len(f.results) == 0) {
			ok = true
			break
		}
		if time.Now().After(deadline) {
			ccStuck++
			break
		}
		if spin < 200 {
			runtime.Gosched()
		} else {
			time.Sleep(20 * time.Microsecond)
		}
	}
	sort.SliceStable(out, func(i, j int) bool { return ccFirstTag(out[i]) < ccFirstTag(out[j]) })
	return
}

func ccTag(c *clientpb.Command) string {
	if _, err := strconv.ParseUint(string(c.GetData()), 10, 64); err != nil {
		return "?"
	}
	return string(c.GetData())
}

func ccFirstTag(b *clientpb.Batch) uint64 {
	if len(b.GetCommands()) == 0 {
		return 0
	}
	t, _ := strconv.ParseUint(string(b.GetCommands()[0].GetData()), 10, 64)
	return t
}

func ccShowCmd(c *clientpb.Command) string {
	return fmt.Sprintf("%d:%d#%s", c.GetClientID(), c.GetSequenceNumber(), ccTag(c))
}

func ccShowBatch(b *clientpb.Batch) string {
	if len(b.GetCommands()) == 0 {
		return "e"
	}
	s := make([]string, 0, len(b.GetCommands()))
	for _, c := range b.GetCommands() {
		s = append(s, ccShowCmd(c))
	}
	return strings.Join(s, ",")
}

func (f *cmdcacheFam) answer(base string, pre []*clientpb.Batch) string {
	out, spurious, _, ok := f.settle()
	if !ok {
		return "settle-timeout"
	}
	parts := []string{}
	for _, b := range append(pre, out...) {
		parts = append(parts, ccShowBatch(b))
	}
	for i := 0; i < spurious; i++ {
		parts = append(parts, "E")
	}
	o := "-"
	if len(parts) > 0 {
		o = strings.Join(parts, ";")
	}
	cache, _ := f.cache.VerifSnapshot()
	return fmt.Sprintf("%s out=%s len=%d ready=%d wait=%d", base, o, len(cache), f.cache.VerifReadyLen(), len(f.pending))
}

func ccParseCS(s string) (*clientpb.Command, bool) {
	p := strings.Split(s, ":")
	if len(p) != 2 {
		return nil, false
	}
	c, err1 := strconv.ParseUint(p[0], 10, 32)
	q, err2 := strconv.ParseUint(p[1], 10, 64)
	if err1 != nil || err2 != nil {
		return nil, false
	}
	return &clientpb.Command{ClientID: uint32(c), SequenceNumber: q}, true
}

// stress <bs> <producers> <per> <consumers> <mark>: concurrent producers (client p adds sequence
// numbers 1..per) and consumers (Get in a loop; with mark=1 each consumer passes its batch to
// Proposed, as the proposer does) on a fresh cache, with real parallelism.  The numbers that come
// out do not depend on the schedule: floor(T/bs) full batches, T mod bs commands left.
func ccStress(bs uint32, producers, per, consumers int, mark bool, otherParked int) string {
	prev := runtime.GOMAXPROCS(runtime.NumCPU())
	defer runtime.GOMAXPROCS(prev)
	cache := clientpb.NewCommandCache(bs)
	total := producers * per
	target := total / int(bs)
	ctx, cancel := context.WithCancel(context.Background())
	defer cancel()
	got := make(chan *clientpb.Batch, target+consumers+16)
	done := make(chan struct{}, consumers+producers)
	pdone := make(chan struct{}, producers)
	for i := 0; i < consumers; i++ {
		go func() {
			defer func() { done <- struct{}{} }()
			for {
				b, err := cache.Get(ctx)
				if err != nil {
					return
				}
				if mark {
					cache.Proposed(b)
				}
				select {
				case got <- b:
				default:
					return // more batches than commands: reported below as extra-batch
				}
			}
		}()
	}
	for p := 1; p <= producers; p++ {
		go func(p int) {
			defer func() { pdone <- struct{}{}; done <- struct{}{} }()
			for s := 1; s <= per; s++ {
				cache.Add(&clientpb.Command{ClientID: uint32(p), SequenceNumber: uint64(s), Data: []byte(strconv.Itoa((p-1)*per + s))})
			}
		}(p)
	}
	var batches []*clientpb.Batch
	timeout := time.After(120 * time.Second)
	tick := time.NewTicker(2 * time.Millisecond)
	defer tick.Stop()
	producing := producers
	for len(batches) < target {
		select {
		case b := <-got:
			batches = append(batches, b)
		case <-pdone:
			producing--
		case <-tick.C:
			// Stuck for good?  All producers have returned, every consumer is parked in the select of
			// Get and the token is not in the channel: nothing can move any more.
			if producing == 0 && len(got) == 0 && cache.VerifReadyLen() == 0 && selecting() == consumers+otherParked+ccLeak &&
				len(got) == 0 && cache.VerifReadyLen() == 0 {
				cancel()
				left, _ := cache.VerifSnapshot()
				return fmt.Sprintf("fail lost-or-blocked got=%d want=%d batches, %d commands cached, all %d consumers blocked", len(batches), target, len(left), consumers)
			}
			// Producers stuck as well (a call into the cache that never returns): every goroutine of
			// this run is parked inside the cache at the same instant and nobody outside wakes them.
			if producing > 0 && len(got) == 0 && len(pdone) == 0 && ccParked(true) == consumers+producing+otherParked+ccLeak+ccLeakHelpers && len(got) == 0 && len(pdone) == 0 {
				return fmt.Sprintf("fail deadlock got=%d want=%d batches, %d producers and %d consumers parked inside the cache", len(batches), target, producing, consumers)
			}
		case <-timeout:
			cancel()
			return fmt.Sprintf("fail lost-or-blocked got=%d want=%d (timeout)", len(batches), target)
		}
	}
	// every producer has finished (all commands were handed out or are left); stop the consumers
	cancel()
	for ended := 0; ended < consumers+producers; {
		select {
		case <-done:
			ended++
		case <-tick.C:
			// the producers have all returned; consumers that are parked in Get although their
			// context is cancelled will never return
			if producing == 0 && len(pdone) == 0 && len(done) == 0 && selecting() == consumers+producers-ended+otherParked+ccLeak && len(done) == 0 {
				return fmt.Sprintf("fail get-ignores-cancel %d consumers stay blocked after their context was cancelled", consumers+producers-ended)
			}
		case <-pdone:
			producing--
		case <-timeout:
			return "fail lost-or-blocked consumers do not end (timeout)"
		}
	}
	if len(got) > 0 {
		return fmt.Sprintf("fail extra-batch %s", ccShowBatch(<-got))
	}
	seen := map[string]bool{}
	maxHanded := map[uint32]uint64{}
	for _, b := range batches {
		if uint32(len(b.GetCommands())) != bs {
			return "fail short-batch " + ccShowBatch(b)
		}
		last := map[uint32]uint64{}
		for _, c := range b.GetCommands() {
			if seen[string(c.GetData())] {
				return "fail dup-handout " + ccShowCmd(c)
			}
			seen[string(c.GetData())] = true
			if c.GetSequenceNumber() <= last[c.GetClientID()] {
				return "fail order " + ccShowBatch(b)
			}
			last[c.GetClientID()] = c.GetSequenceNumber()
			if c.GetSequenceNumber() > maxHanded[c.GetClientID()] {
				maxHanded[c.GetClientID()] = c.GetSequenceNumber()
			}
		}
	}
	left, _ := cache.VerifSnapshot()
	if len(left) != total-target*int(bs) {
		return fmt.Sprintf("fail left-mismatch left=%d want=%d", len(left), total-target*int(bs))
	}
	for _, c := range left {
		if seen[string(c.GetData())] {
			return "fail dup-handout " + ccShowCmd(c)
		}
		if c.GetSequenceNumber() <= maxHanded[c.GetClientID()] {
			return "fail order left-behind " + ccShowCmd(c)
		}
	}
	return fmt.Sprintf("ok batches=%d left=%d", len(batches), len(left))
}

// ccStressChild runs one stress line in a child process (this same binary), so that a Go runtime
// fatal error in the code under test ("concurrent map read and map write", a race-detector halt)
// costs one answer line and not the whole run.
func ccStressChild(a []string) string {
	exe, err := os.Executable()
	if err != nil {
		return "fail crash no-executable"
	}
	ctx, cancel := context.WithTimeout(context.Background(), 200*time.Second)
	defer cancel()
	cmd := exec.CommandContext(ctx, exe, "cmdcache")
	cmd.Env = append(os.Environ(), "VERIF_STRESS_INPROC=1")
	cmd.Stdin = strings.NewReader(strings.Join(a, " ") + "\n")
	var stdout, stderr bytes.Buffer
	cmd.Stdout, cmd.Stderr = &stdout, &stderr
	runErr := cmd.Run()
	line := strings.TrimSpace(stdout.String())
	if runErr == nil && line != "" && !strings.Contains(line, "\n") {
		return line
	}
	e := stderr.String()
	switch {
	case strings.Contains(e, "DATA RACE"):
		return "fail crash data-race"
	case strings.Contains(e, "concurrent map"):
		return "fail crash concurrent-map-access"
	case strings.Contains(e, "fatal error:"):
		return "fail crash fatal-error"
	case strings.Contains(e, "panic:"):
		return "fail crash panic"
	case ctx.Err() != nil:
		return "fail crash timeout"
	}
	return "fail crash no-answer"
}

func (f *cmdcacheFam) op(a []string) string {
	if a[0] == "stress" {
		if len(a) != 6 {
			return "bad-op"
		}
		n := make([]int, 5)
		for i := range n {
			v, err := strconv.ParseUint(a[i+1], 10, 16)
			if err != nil {
				return "bad-op"
			}
			n[i] = int(v)
		}
		if n[0] == 0 || n[3] == 0 || n[4] > 1 {
			return "bad-op"
		}
		if os.Getenv("VERIF_STRESS_INPROC") != "" {
			return ccStress(uint32(n[0]), n[1], n[2], n[3], n[4] == 1, len(f.pending))
		}
		return ccStressChild(a)
	}
	if a[0] == "racereport" {
		// result of the same scripts under `go build -race`, handed in by the orchestrator
		if len(a) >= 2 && a[1] == "clean" {
			return "ok"
		}
		return "race-run-failed"
	}
	if ccLeakHelpers+ccLeak >= 20 || ccStuck >= 2 {
		// Calls into the cache keep getting stuck (each one leaks a goroutine): the code under test
		// is broken beyond this family's means; answer the rest of the input at once.
		return "hung"
	}
	if a[0] == "new" {
		if len(a) != 2 {
			return "bad-op"
		}
		bs, err := strconv.ParseUint(a[1], 10, 32)
		if err != nil {
			return "bad-op"
		}
		f.shutdown()
		f.cache = clientpb.NewCommandCache(uint32(bs))
		f.nadd = 0
		f.hung = false
		return f.answer("ok", nil)
	}
	if f.cache == nil {
		return "bad-op"
	}
	if f.hung {
		return "hung"
	}
	switch a[0] {
	case "add":
		if len(a) != 3 {
			return "bad-op"
		}
		cmd, ok := ccParseCS(a[1] + ":" + a[2])
		if !ok {
			return "bad-op"
		}
		cmd.Data = []byte(strconv.Itoa(f.nadd))
		f.nadd++
		if !f.guarded(func() { f.cache.Add(cmd) }) {
			return "hung"
		}
		return f.answer("ok", nil)
	case "proposed":
		if len(a) != 2 {
			return "bad-op"
		}
		b := &clientpb.Batch{}
		if a[1] != "-" {
			for _, t := range strings.Split(a[1], ",") {
				cmd, ok := ccParseCS(t)
				if !ok {
					return "bad-op"
				}
				b.Commands = append(b.Commands, cmd)
			}
		}
		if !f.guarded(func() { f.cache.Proposed(b) }) {
			return "hung"
		}
		return f.answer("ok", nil)
	case "get":
		if len(a) != 1 {
			return "bad-op"
		}
		ctx, cancel := context.WithCancel(context.Background())
		g := &ccGetter{id: f.nextID, cancel: cancel}
		f.nextID++
		f.pending = append(f.pending, g)
		cache, res, id := f.cache, f.results, g.id
		go func() {
			b, err := cache.Get(ctx)
			res <- ccResult{id, b, err}
		}()
		return f.answer("ok", nil)
	case "getc":
		if len(a) != 1 {
			return "bad-op"
		}
		ctx, cancel := context.WithCancel(context.Background())
		cancel()
		for {
			var b *clientpb.Batch
			var err error
			if !f.guarded(func() { b, err = f.cache.Get(ctx) }) {
				return "hung"
			}
			if err == nil {
				return f.answer("got", []*clientpb.Batch{b})
			}
			// Both cases of the select were ready and Go took ctx.Done(): the call changed nothing;
			// ask again until the token has been taken (each try takes it with probability 1/2).
			if f.cache.VerifReadyLen() == 0 || len(f.pending) > 0 {
				return f.answer("cancelled", nil)
			}
		}
	case "cancel":
		if len(a) != 1 {
			return "bad-op"
		}
		if len(f.pending) == 0 {
			return f.answer("none", nil)
		}
		g := f.pending[0]
		g.cancelled = true
		g.cancel()
		// wait for this call to return
		for try := 0; ; try++ {
			if try == 3 {
				return "cancel-ignored"
			}
			out, spurious, ended, ok := f.settle()
			if !ok {
				return "settle-timeout"
			}
			if ended > 0 {
				return f.answer("cancelled", out)
			}
			if len(out) > 0 || spurious > 0 {
				// the cancelled call returned a batch instead (only possible if it was not quiescent)
				return f.answer("raced", out)
			}
		}
	case "dump":
		if len(a) != 1 {
			return "bad-op"
		}
		cache, seq := f.cache.VerifSnapshot()
		cs := make([]string, 0, len(cache))
		for _, c := range cache {
			cs = append(cs, ccShowCmd(c))
		}
		keys := make([]int, 0, len(seq))
		for k := range seq {
			keys = append(keys, int(k))
		}
		sort.Ints(keys)
		ms := []string{}
		for _, k := range keys {
			if seq[uint32(k)] > 0 {
				ms = append(ms, fmt.Sprintf("%d=%d", k, seq[uint32(k)]))
			}
		}
		c, m := "-", "-"
		if len(cs) > 0 {
			c = strings.Join(cs, ",")
		}
		if len(ms) > 0 {
			m = strings.Join(ms, ",")
		}
		return "cache=" + c + " seq=" + m
	}
	return "bad-op"
}
