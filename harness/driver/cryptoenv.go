//go:build verif

package main

import (
	"encoding/hex"
	"fmt"
	"sort"
	"strings"

	"github.com/relab/hotstuff"
	"github.com/relab/hotstuff/core"
	"github.com/relab/hotstuff/security/crypto"
	"github.com/relab/hotstuff/security/crypto/keygen"
)

// cryptoEnv holds n replicas' runtime configurations (real keys, BLS proofs of possession)
// and one crypto.Base per replica for a scheme.
type cryptoEnv struct {
	scheme string
	n      int
	keys   []hotstuff.PrivateKey // index id-1
	cfgs   []*core.RuntimeConfig
	bases  []crypto.Base
	opts   []core.RuntimeOption
}

func genKey(scheme string) hotstuff.PrivateKey {
	switch scheme {
	case crypto.NameECDSA:
		k, err := keygen.GenerateECDSAPrivateKey()
		if err != nil {
			panic(err)
		}
		return k
	case crypto.NameEDDSA:
		_, k, err := keygen.GenerateED25519Key()
		if err != nil {
			panic(err)
		}
		return k
	case crypto.NameBLS12:
		k, err := crypto.GenerateBLS12PrivateKey()
		if err != nil {
			panic(err)
		}
		return k
	}
	panic("unknown scheme " + scheme)
}

var keyCache = map[string][]hotstuff.PrivateKey{}

// presetBLSKeys makes the given private keys (hex, big-endian) the keys of replicas 1.. of later BLS
// environments of this process.
func presetBLSKeys(hexKeys []string) bool {
	var ks []hotstuff.PrivateKey
	for _, h := range hexKeys {
		b, err := hex.DecodeString(h)
		if err != nil || len(b) == 0 {
			return false
		}
		k := &crypto.BLS12PrivateKey{}
		k.FromBytes(b)
		ks = append(ks, k)
	}
	if savedBLSKeys == nil {
		savedBLSKeys = keyCache[crypto.NameBLS12]
		if savedBLSKeys == nil {
			savedBLSKeys = []hotstuff.PrivateKey{}
		}
	}
	if len(savedBLSKeys) > len(ks) {
		ks = append(ks, savedBLSKeys[len(ks):]...)
	}
	keyCache[crypto.NameBLS12] = ks
	return true
}

// savedBLSKeys holds the process's own random BLS keys while preset keys are in force.
var savedBLSKeys []hotstuff.PrivateKey

// restoreBLSKeys ends the effect of presetBLSKeys (called by a cfg line without keys=).
func restoreBLSKeys() {
	if savedBLSKeys != nil {
		keyCache[crypto.NameBLS12] = savedBLSKeys
		savedBLSKeys = nil
	}
}

// newCryptoEnv builds a fresh environment (fresh configs and Base instances) for n replicas;
// private keys are memoised per scheme for the life of the process (key generation is the slow part).
func newCryptoEnv(scheme string, n int, opts ...core.RuntimeOption) *cryptoEnv {
	return newCryptoEnvPop(scheme, n, nil, opts...)
}

// popFault says what the OTHER replicas hold as replica id's BLS proof of possession:
// "bad" (bytes that are no curve point), "none" (no proof), "swap<j>" (replica j's proof).
type popFault struct {
	id   int
	kind string
}

func newCryptoEnvPop(scheme string, n int, faults []popFault, opts ...core.RuntimeOption) *cryptoEnv {
	ks := keyCache[scheme]
	for len(ks) < n {
		ks = append(ks, genKey(scheme))
	}
	keyCache[scheme] = ks
	e := &cryptoEnv{scheme: scheme, n: n, keys: ks[:n], opts: opts}
	for i := 1; i <= n; i++ {
		cfg := core.NewRuntimeConfig(hotstuff.ID(i), ks[i-1], opts...)
		e.cfgs = append(e.cfgs, cfg)
		b, err := crypto.New(cfg, scheme) // BLS: adds the proof of possession to the connection metadata
		if err != nil {
			panic(err)
		}
		e.bases = append(e.bases, b)
	}
	for i, cfg := range e.cfgs {
		for j := 1; j <= n; j++ {
			md := e.cfgs[j-1].ConnectionMetadata()
			for _, pf := range faults {
				if pf.id != j || i+1 == j {
					continue
				}
				cp := map[string]string{}
				for k, v := range md {
					switch {
					case pf.kind == "none":
					case pf.kind == "bad":
						cp[k] = strings.Repeat("\xff", len(v))
					case strings.HasPrefix(pf.kind, "swap"):
						var o int
						if _, err := fmt.Sscanf(pf.kind, "swap%d", &o); err == nil && o >= 1 && o <= n {
							cp[k] = e.cfgs[o-1].ConnectionMetadata()[k]
						}
					}
				}
				md = cp
			}
			cfg.AddReplica(&hotstuff.ReplicaInfo{
				ID:       hotstuff.ID(j),
				PubKey:   ks[j-1].Public(),
				Metadata: md,
			})
		}
	}
	return e
}

func idList(s hotstuff.IDSet) string {
	var ids []string
	s.ForEach(func(i hotstuff.ID) { ids = append(ids, fmt.Sprint(uint32(i))) })
	return "[" + strings.Join(ids, ",") + "]"
}

func sortedIDs(m map[hotstuff.ID]bool) []int {
	var out []int
	for k := range m {
		out = append(out, int(k))
	}
	sort.Ints(out)
	return out
}
