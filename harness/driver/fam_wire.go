//go:build verif

package main

import (
	"bytes"
	"crypto/sha256"
	"fmt"
	"sort"
	"strconv"
	"strings"
	"time"

	"github.com/relab/hotstuff"
	"github.com/relab/hotstuff/internal/proto/clientpb"
	"github.com/relab/hotstuff/internal/proto/hotstuffpb"
	"github.com/relab/hotstuff/security/crypto"
	"google.golang.org/protobuf/proto"
)

// wire family (C12): the objects of the cert family are sent through
// ToProto -> real proto.Marshal -> proto.Unmarshal -> FromProto (and the id assignments the
// server handlers make) and described canonically before / after.
//
//	rt sig|pc|qc|tc|agg|tmo|block|prop|si <name> [at=<r>] [from=<id>]
//	    -> <canonical description of the decoded object> | hash=same bytes=same parts=same verdict=<before>/<after>
//	wblock <name> parent=<b> view=<v> proposer=<p> qc=<qc> cmds=<n> ts=<sec>.<nanos>     (block with chosen batch/timestamp)
//	si <name> qc=<qc|-> tc=<tc|-> agg=<agg|->
//	fetch <r> <block>      -> the block a peer's RequestBlock handler returns for that hash, after the wire, named by hash
type wireFam struct {
	certFam
	sis    map[string]hotstuff.SyncInfo
	sigNum map[string]int
}

func init() {
	register("wire", func() family {
		return &wireFam{sis: map[string]hotstuff.SyncInfo{}, sigNum: map[string]int{}}
	})
}

func (f *wireFam) num(b []byte) string {
	k := string(b)
	if n, ok := f.sigNum[k]; ok {
		return fmt.Sprintf("#%d", n)
	}
	f.sigNum[k] = len(f.sigNum) + 1
	return fmt.Sprintf("#%d", f.sigNum[k])
}

func (f *wireFam) dSig(s hotstuff.QuorumSignature) string {
	switch ms := s.(type) {
	case nil:
		return "nil"
	case crypto.Multi[*crypto.ECDSASignature]:
		var p []string
		for _, e := range ms {
			p = append(p, fmt.Sprintf("(%d,%s)", e.Signer(), f.num(e.ToBytes())))
		}
		return "ecdsa[" + strings.Join(p, "") + "]"
	case crypto.Multi[*crypto.EDDSASignature]:
		var p []string
		for _, e := range ms {
			p = append(p, fmt.Sprintf("(%d,%s)", e.Signer(), f.num(e.ToBytes())))
		}
		return "eddsa[" + strings.Join(p, "") + "]"
	case *crypto.BLS12AggregateSignature:
		if ms == nil {
			return "typed-nil"
		}
		return fmt.Sprintf("bls(%s;len=%d;ids=%s;bytes=%s)", f.num(ms.ToBytes()), ms.Participants().Len(), idList(ms.Participants()), hexOrDash(ms.Bitfield().Bytes()))
	}
	return "?"
}

func (f *wireFam) hashName(h hotstuff.Hash) string {
	var names []string
	for n, b := range f.blocks {
		if b.Hash() == h {
			names = append(names, n)
		}
	}
	if len(names) > 0 {
		sort.Strings(names)
		return names[0]
	}
	if h == (hotstuff.Hash{}) {
		return "zero"
	}
	return "?"
}

func (f *wireFam) dQC(q hotstuff.QuorumCert) string {
	return fmt.Sprintf("qc(v=%d,h=%s,sig=%s)", q.View(), f.hashName(q.BlockHash()), f.dSig(q.Signature()))
}

func (f *wireFam) dTC(t hotstuff.TimeoutCert) string {
	return fmt.Sprintf("tc(v=%d,sig=%s)", t.View(), f.dSig(t.Signature()))
}

func (f *wireFam) dAgg(a hotstuff.AggregateQC) string {
	sigDesc := f.dSig(a.Sig()) // numbered before the attested QCs, as the model renders it
	var ids []int
	for id := range a.QCs() {
		ids = append(ids, int(id))
	}
	sort.Ints(ids)
	var p []string
	for _, id := range ids {
		p = append(p, fmt.Sprintf("%d:%s", id, f.dQC(a.QCs()[hotstuff.ID(id)])))
	}
	return fmt.Sprintf("agg(v=%d,sig=%s,qcs={%s})", a.View(), sigDesc, strings.Join(p, ","))
}

func (f *wireFam) dSI(s hotstuff.SyncInfo) string {
	q, t, a := "-", "-", "-"
	if x, ok := s.QC(); ok {
		q = f.dQC(x)
	}
	if x, ok := s.TC(); ok {
		t = f.dTC(x)
	}
	if x, ok := s.AggQC(); ok {
		a = f.dAgg(x)
	}
	return fmt.Sprintf("si(qc=%s,tc=%s,agg=%s)", q, t, a)
}

func (f *wireFam) dBlock(b *hotstuff.Block) string {
	var cmds []string
	if b.Commands() != nil {
		for _, c := range b.Commands().GetCommands() {
			cmds = append(cmds, fmt.Sprintf("%d/%d/%s", c.GetClientID(), c.GetSequenceNumber(), string(c.GetData())))
		}
	}
	ts := b.Timestamp()
	return fmt.Sprintf("blk(parent=%s,proposer=%d,view=%d,cmds=[%s],qc=%s,ts=%d.%d)", f.hashName(b.Parent()), b.Proposer(), b.View(),
		strings.Join(cmds, ";"), f.dQC(b.QuorumCert()), ts.Unix(), ts.Nanosecond())
}

func same(b bool) string {
	if b {
		return "same"
	}
	return "DIFF"
}

func partsEq(a, b hotstuff.QuorumSignature) bool {
	if a == nil || b == nil {
		return a == nil && b == nil
	}
	return idList(a.Participants()) == idList(b.Participants()) && a.Participants().Len() == b.Participants().Len()
}

func sigBytes(s hotstuff.QuorumSignature) []byte {
	if s == nil {
		return nil
	}
	return s.ToBytes()
}

// wire sends a proto message through the real encoder and decoder.
func wire[T proto.Message](m T, fresh T) T {
	b, err := proto.Marshal(m)
	if err != nil {
		panic(err)
	}
	if err := proto.Unmarshal(b, fresh); err != nil {
		panic(err)
	}
	return fresh
}

func (f *wireFam) op(a []string) string {
	switch a[0] {
	case "wblock":
		if f.env == nil || len(a) < 2 {
			return "bad-op"
		}
		kv := kvArgs(a)
		ph, ok := f.hashOf(kv["parent"])
		qc, ok2 := f.qcs[kv["qc"]]
		v, e1 := strconv.ParseUint(kv["view"], 10, 64)
		p, e2 := strconv.ParseUint(kv["proposer"], 10, 32)
		nc, e3 := strconv.Atoi(kv["cmds"])
		tsp := strings.SplitN(kv["ts"], ".", 2)
		if !ok || !ok2 || e1 != nil || e2 != nil || e3 != nil || len(tsp) != 2 {
			return "bad-op"
		}
		sec, e4 := strconv.ParseInt(tsp[0], 10, 64)
		ns, e5 := strconv.ParseInt(tsp[1], 10, 64)
		if e4 != nil || e5 != nil {
			return "bad-op"
		}
		batch := &clientpb.Batch{}
		for i := 0; i < nc; i++ {
			batch.Commands = append(batch.Commands, &clientpb.Command{ClientID: uint32(i%3 + 1), SequenceNumber: uint64(i), Data: []byte(fmt.Sprintf("%s.%d", a[1], i))})
		}
		b := hotstuff.NewBlock(ph, qc, batch, hotstuff.View(v), hotstuff.ID(p))
		b.SetTimestamp(time.Unix(sec, ns))
		f.blocks[a[1]] = b
		for _, ch := range f.chains {
			ch.Store(b)
		}
		return "ok"
	case "si":
		if f.env == nil || len(a) < 2 {
			return "bad-op"
		}
		kv := kvArgs(a)
		si := hotstuff.NewSyncInfo()
		if kv["qc"] != "-" {
			q, ok := f.qcs[kv["qc"]]
			if !ok {
				return "bad-op"
			}
			si.SetQC(q)
		}
		if kv["tc"] != "-" {
			t, ok := f.tcs[kv["tc"]]
			if !ok {
				return "bad-op"
			}
			si.SetTC(t)
		}
		if kv["agg"] != "-" {
			g, ok := f.aggs[kv["agg"]]
			if !ok {
				return "bad-op"
			}
			si.SetAggQC(g)
		}
		f.sis[a[1]] = si
		return "ok"
	case "fetch":
		if f.env == nil || len(a) != 3 {
			return "bad-op"
		}
		r, ok := f.replica(a[1])
		h, ok2 := f.hashOf(a[2])
		if !ok || !ok2 {
			return "bad-op"
		}
		// what serviceImpl.RequestBlock does: LocalGet + BlockToProto; then the wire; then the
		// quorum function of network/sender.go: BlockFromProto and comparison of the recomputed hash
		blk, found := f.chains[r-1].LocalGet(h)
		if !found {
			return "not-found"
		}
		pb := wire(hotstuffpb.BlockToProto(blk), &hotstuffpb.Block{})
		got := hotstuffpb.BlockFromProto(pb)
		return fmt.Sprintf("%s | hash=%s", f.dBlock(got), same(got.Hash() == h))
	case "rt":
		if f.env == nil || len(a) < 3 {
			return "bad-op"
		}
		kv := kvArgs(a)
		at := 1
		if v, ok := kv["at"]; ok {
			r, ok := f.replica(v)
			if !ok {
				return "bad-op"
			}
			at = r
		}
		from, _ := strconv.ParseUint(kv["from"], 10, 32)
		auth := f.auths[at-1]
		switch a[1] {
		case "sig":
			s, ok := f.sigs[a[2]]
			if !ok {
				return "bad-op"
			}
			got := hotstuffpb.QuorumSignatureFromProto(wire(hotstuffpb.QuorumSignatureToProto(s), &hotstuffpb.QuorumSignature{}))
			m := []byte("x")
			if mm, ok := f.msgBytes(kv["msg"]); ok {
				m = mm
			}
			return fmt.Sprintf("%s | bytes=%s parts=%s verdict=%s/%s", f.dSig(got), same(bytes.Equal(sigBytes(s), sigBytes(got))), same(partsEq(s, got)),
				verdict(auth.Verify(s, m)), verdict(auth.Verify(got, m)))
		case "pc":
			s, ok := f.sigs[a[2]]
			h, ok2 := f.hashOf(kv["hash"])
			if !ok || !ok2 {
				return "bad-op"
			}
			pc := hotstuff.NewPartialCert(s, h)
			got := hotstuffpb.PartialCertFromProto(wire(hotstuffpb.PartialCertToProto(pc), &hotstuffpb.PartialCert{}))
			return fmt.Sprintf("pc(signer=%d,h=%s,sig=%s) | hash=%s bytes=%s parts=%s verdict=%s/%s", got.Signer(), f.hashName(got.BlockHash()), f.dSig(got.Signature()),
				same(pc.BlockHash() == got.BlockHash()), same(bytes.Equal(pc.ToBytes(), got.ToBytes())), same(partsEq(pc.Signature(), got.Signature()) && pc.Signer() == got.Signer()),
				verdict(auth.VerifyPartialCert(pc)), verdict(auth.VerifyPartialCert(got)))
		case "qc":
			q, ok := f.qcs[a[2]]
			if !ok {
				return "bad-op"
			}
			got := hotstuffpb.QuorumCertFromProto(wire(hotstuffpb.QuorumCertToProto(q), &hotstuffpb.QuorumCert{}))
			return fmt.Sprintf("%s | hash=%s bytes=%s parts=%s equals=%v verdict=%s/%s", f.dQC(got), same(q.BlockHash() == got.BlockHash()), same(bytes.Equal(q.ToBytes(), got.ToBytes())),
				same(partsEq(q.Signature(), got.Signature())), q.Equals(got), verdict(auth.VerifyQuorumCert(q)), verdict(auth.VerifyQuorumCert(got)))
		case "tc":
			t, ok := f.tcs[a[2]]
			if !ok {
				return "bad-op"
			}
			if t.Signature() == nil {
				// TimeoutCert.ToBytes dereferences the signature; compare fields only
				got := hotstuffpb.TimeoutCertFromProto(wire(hotstuffpb.TimeoutCertToProto(t), &hotstuffpb.TimeoutCert{}))
				return fmt.Sprintf("%s | verdict=%s/%s", f.dTC(got), verdict(auth.VerifyTimeoutCert(t)), verdict(auth.VerifyTimeoutCert(got)))
			}
			got := hotstuffpb.TimeoutCertFromProto(wire(hotstuffpb.TimeoutCertToProto(t), &hotstuffpb.TimeoutCert{}))
			return fmt.Sprintf("%s | bytes=%s parts=%s verdict=%s/%s", f.dTC(got), same(got.Signature() != nil && bytes.Equal(t.ToBytes(), got.ToBytes())), same(partsEq(t.Signature(), got.Signature())),
				verdict(auth.VerifyTimeoutCert(t)), verdict(auth.VerifyTimeoutCert(got)))
		case "agg":
			g, ok := f.aggs[a[2]]
			if !ok || g.Sig() == nil {
				return "bad-op"
			}
			got := hotstuffpb.AggregateQCFromProto(wire(hotstuffpb.AggregateQCToProto(g), &hotstuffpb.AggQC{}))
			vb, va := "reject", "reject"
			if h, err := auth.VerifyAggregateQC(g); err == nil {
				vb = "ok:" + f.descQC(h)
			}
			if got.Sig() != nil {
				if h, err := auth.VerifyAggregateQC(got); err == nil {
					va = "ok:" + f.descQC(h)
				}
			} else {
				va = "nil-sig"
			}
			return fmt.Sprintf("%s | parts=%s verdict=%s/%s", f.dAgg(got), same(partsEq(g.Sig(), got.Sig())), vb, va)
		case "si":
			s, ok := f.sis[a[2]]
			if !ok {
				return "bad-op"
			}
			got := hotstuffpb.SyncInfoFromProto(wire(hotstuffpb.SyncInfoToProto(s), &hotstuffpb.SyncInfo{}))
			return f.dSI(got)
		case "tmo":
			t, ok := f.tmos[a[2]]
			if !ok {
				return "bad-op"
			}
			got := hotstuffpb.TimeoutMsgFromProto(wire(hotstuffpb.TimeoutMsgToProto(t), &hotstuffpb.TimeoutMsg{}))
			got.ID = hotstuff.ID(from) // serviceImpl.Timeout: id of the sending peer
			return fmt.Sprintf("tmo(id=%d,v=%d,vs=%s,ms=%s,%s) | bytes=%s", got.ID, got.View, f.dSig(got.ViewSignature), f.dSig(got.MsgSignature), f.dSI(got.SyncInfo),
				same(bytes.Equal(t.ToBytes(), got.ToBytes())))
		case "block":
			b, ok := f.blocks[a[2]]
			if !ok {
				return "bad-op"
			}
			got := hotstuffpb.BlockFromProto(wire(hotstuffpb.BlockToProto(b), &hotstuffpb.Block{}))
			return fmt.Sprintf("%s | hash=%s bytes=%s digest=%s", f.dBlock(got), same(b.Hash() == got.Hash()), same(bytes.Equal(b.ToBytes(), got.ToBytes())),
				same(sha256.Sum256(got.ToBytes()) == got.Hash()))
		case "prop":
			b, ok := f.blocks[a[2]]
			if !ok {
				return "bad-op"
			}
			p := hotstuff.ProposeMsg{ID: b.Proposer(), Block: b}
			if kv["agg"] != "" && kv["agg"] != "-" {
				g, ok := f.aggs[kv["agg"]]
				if !ok {
					return "bad-op"
				}
				p.AggregateQC = &g
			}
			pb := wire(hotstuffpb.ProposalToProto(p), &hotstuffpb.Proposal{})
			// serviceImpl.Propose: the proposer recorded in the block is overwritten with the sending peer's id
			pb.Block.Proposer = uint32(from)
			got := hotstuffpb.ProposalFromProto(pb)
			got.ID = hotstuff.ID(from)
			ag := "-"
			if got.AggregateQC != nil {
				ag = f.dAgg(*got.AggregateQC)
			}
			return fmt.Sprintf("prop(id=%d,%s,agg=%s) | hash=%s", got.ID, f.dBlock(got.Block), ag, same(b.Hash() == got.Block.Hash()))
		}
		return "bad-op"
	}
	return f.certFam.op(a)
}
