//go:build verif

package main

import (
	"context"
	"crypto/sha256"
	"fmt"
	"io"
	"sort"
	"strconv"
	"strings"
	"time"

	"github.com/relab/hotstuff"
	"github.com/relab/hotstuff/core"
	"github.com/relab/hotstuff/core/eventloop"
	"github.com/relab/hotstuff/core/logging"
	"github.com/relab/hotstuff/internal/proto/hotstuffpb"
	"github.com/relab/hotstuff/internal/proto/kauripb"
	"github.com/relab/hotstuff/internal/tree"
	"github.com/relab/hotstuff/protocol/comm"
	"github.com/relab/hotstuff/security/blockchain"
	"github.com/relab/hotstuff/security/cert"
	"github.com/relab/hotstuff/security/crypto"
)

// kauri family (C09, tree aggregation): ONE node of the Kauri aggregation tree — the real
// comm.Kauri with a real cert.Authority (signature cache included), a real tree.Tree, a real block
// store and a real event loop; only the network is replaced (a recording core.KauriSender), and the
// wait timer is not slept on: `timer <view>` delivers the WaitTimerExpiredEvent that
// waitToAggregate would add (the tree's own wait time is set to hours so that the goroutine never
// interferes).  Signatures are materialised by the embedded cert family (ops cfg, block, sign,
// create-pc, multi, bls, combine).
//
//	node <id> bf=<b> [pos=<id,id,...>]           -> ok children=[..] subtree=[..] quorum=<q>
//	store <block>                                -> ok        (the node's block store learns the block)
//	begin <block> <sig> [hash=<block|unk:tag>]   -> <answer>  (Aggregate(ProposeMsg{block}, PartialCert{sig, hash}))
//	contribution <view> <id> <sig|nil>           -> <answer>  (kauripb.Contribution event, through the wire conversion)
//	timer <view>                                 -> <answer>  (WaitTimerExpiredEvent)
//
// answer: fx=<effect>+<effect>..|-  view=<v> hash=<name> sent=<0|1> senders=[..] agg=<sig>
// effect: propose~[children] | send~<view>~<sig> | qc~<view>~<hash>~<sig>
// sig:    nil | <len>/[participants in Participants() order]/<1|0|->   (last: verdict of ANOTHER replica's
//
//	authority on the signature over the bytes of the block named by the node's blockHash)
type kauriFam struct {
	c      *certFam
	id     int
	k      *comm.Kauri
	el     *eventloop.EventLoop
	chain  *blockchain.Blockchain
	tr     *tree.Tree
	fx     []string
	hashes map[hotstuff.Hash]string
	// whole-tree family (fam_ktree.go): what the node hands to its parent, largest certificate so far
	onSend func(hotstuff.QuorumSignature)
	qcMax  int
}

func init() {
	register("kauri", func() family {
		return &kauriFam{c: &certFam{}, hashes: map[hotstuff.Hash]string{}}
	})
}

// kauriRecSender records what Kauri sends.
type kauriRecSender struct {
	f   *kauriFam
	ids []hotstuff.ID // nil = the unrestricted sender
}

func (s *kauriRecSender) NewView(hotstuff.ID, hotstuff.SyncInfo) error { return nil }
func (s *kauriRecSender) Vote(hotstuff.ID, hotstuff.PartialCert) error { return nil }
func (s *kauriRecSender) Timeout(hotstuff.TimeoutMsg)                  {}
func (s *kauriRecSender) Propose(*hotstuff.ProposeMsg) {
	s.f.fx = append(s.f.fx, "propose~"+fmtIDs(s.ids))
}
func (s *kauriRecSender) RequestBlock(context.Context, hotstuff.Hash) (*hotstuff.Block, bool) {
	return nil, false
}
func (s *kauriRecSender) Sub(ids []hotstuff.ID) (core.Sender, error) {
	return &kauriRecSender{f: s.f, ids: append([]hotstuff.ID(nil), ids...)}, nil
}
func (s *kauriRecSender) SendContributionToParent(view hotstuff.View, qc hotstuff.QuorumSignature) {
	s.f.fx = append(s.f.fx, fmt.Sprintf("send~%d~%s", view, s.f.kauriSig(qc)))
	if s.f.onSend != nil {
		s.f.onSend(qc)
	}
}

var _ core.KauriSender = (*kauriRecSender)(nil)

func (f *kauriFam) kauriHashName(h hotstuff.Hash) string {
	if n, ok := f.hashes[h]; ok {
		return n
	}
	var names []string
	for n, b := range f.c.blocks {
		if b.Hash() == h {
			names = append(names, n)
		}
	}
	if len(names) == 0 {
		if h == (hotstuff.Hash{}) {
			return "-"
		}
		return "?"
	}
	sort.Strings(names)
	return names[0]
}

// kauriBlockOf finds the block (stored or not) whose hash is the node's blockHash.
func (f *kauriFam) kauriBlockOf(h hotstuff.Hash) *hotstuff.Block {
	for _, b := range f.c.blocks {
		if b.Hash() == h {
			return b
		}
	}
	return nil
}

func kauriIsNilSig(s hotstuff.QuorumSignature) bool {
	if s == nil {
		return true
	}
	switch v := s.(type) {
	case *crypto.BLS12AggregateSignature:
		return v == nil
	}
	return false
}

// kauriSig describes a signature and asks another replica's authority whether it verifies.
func (f *kauriFam) kauriSig(s hotstuff.QuorumSignature) string {
	if kauriIsNilSig(s) {
		return "nil"
	}
	var ids []string
	s.Participants().ForEach(func(i hotstuff.ID) { ids = append(ids, fmt.Sprint(uint32(i))) })
	v := "-"
	if b := f.kauriBlockOf(f.k.VerifState().BlockHash); b != nil {
		other := f.id % f.c.env.n // index of replica id+1 (wrapping)
		if f.c.auths[other].Verify(s, b.ToBytes()) == nil {
			v = "1"
		} else {
			v = "0"
		}
	}
	return fmt.Sprintf("%d/[%s]/%s", s.Participants().Len(), strings.Join(ids, ","), v)
}

func (f *kauriFam) drain() {
	for f.el.Tick(context.Background()) {
	}
}

func (f *kauriFam) answer() string {
	st := f.k.VerifState()
	fx := "-"
	if len(f.fx) > 0 {
		fx = strings.Join(f.fx, "+")
	}
	f.fx = nil
	sent := 0
	if st.AggSent {
		sent = 1
	}
	return fmt.Sprintf("fx=%s view=%d hash=%s sent=%d senders=%s agg=%s", fx, st.CurrentView,
		f.kauriHashName(st.BlockHash), sent, fmtIDs(st.Senders), f.kauriSig(st.AggContrib))
}

func (f *kauriFam) node(a []string) string {
	kv := kvArgs(a)
	id, e1 := strconv.Atoi(a[1])
	bf, e2 := strconv.Atoi(kv["bf"])
	n := f.c.env.n
	if e1 != nil || e2 != nil || id < 1 || id > n || bf < 2 || bf > 64 {
		return "bad-op"
	}
	pos := tree.DefaultTreePos(n)
	if p, ok := kv["pos"]; ok {
		ids, ok := parseIDs(p)
		if !ok || len(ids) == 0 || len(ids) > 64 {
			return "bad-op"
		}
		found := false
		for _, x := range ids {
			if x == 0 {
				return "bad-op"
			}
			if int(x) == id {
				found = true
			}
		}
		if !found {
			return "bad-op"
		}
		pos = ids
	}
	tr := tree.NewSimple(hotstuff.ID(id), bf, pos)
	tr.SetTreeHeightWaitTime(time.Hour) // the harness fires the timer itself (op `timer`)
	env := f.c.env
	opts := append(append([]core.RuntimeOption{}, env.opts...), core.WithKauriTree(tr))
	cfg := core.NewRuntimeConfig(hotstuff.ID(id), env.keys[id-1], opts...)
	base, err := crypto.New(cfg, env.scheme)
	if err != nil {
		return "bad-op"
	}
	for j := 1; j <= n; j++ {
		cfg.AddReplica(&hotstuff.ReplicaInfo{
			ID:       hotstuff.ID(j),
			PubKey:   env.keys[j-1].Public(),
			Metadata: env.cfgs[j-1].ConnectionMetadata(),
		})
	}
	logger := logging.NewWithDest(io.Discard, "kauri")
	f.el = eventloop.New(logger, 1000)
	snd := &kauriRecSender{f: f}
	f.chain = blockchain.New(f.el, logger, snd)
	// the node knows exactly the blocks that the script stored so far
	for _, b := range f.c.blocks {
		if _, ok := f.c.chains[id-1].LocalGet(b.Hash()); ok {
			f.chain.Store(b)
		}
	}
	auth := cert.NewAuthority(cfg, f.chain, base)
	f.id, f.tr, f.fx = id, tr, nil
	f.k = comm.NewKauri(logger, f.el, cfg, f.chain, auth, snd)
	eventloop.Register(f.el, func(m hotstuff.NewViewMsg) {
		if qc, ok := m.SyncInfo.QC(); ok {
			if sig := qc.Signature(); !kauriIsNilSig(sig) && sig.Participants().Len() > f.qcMax {
				f.qcMax = sig.Participants().Len()
			}
			f.fx = append(f.fx, fmt.Sprintf("qc~%d~%s~%s", qc.View(), f.kauriHashName(qc.BlockHash()), f.kauriSig(qc.Signature())))
		} else {
			f.fx = append(f.fx, "newview-without-qc")
		}
	}, eventloop.UnsafeRunInAddEvent())
	f.el.AddEvent(hotstuff.ReplicaConnectedEvent{})
	f.drain()
	return fmt.Sprintf("ok children=%s subtree=%s quorum=%d", fmtIDs(tr.ReplicaChildren()), fmtIDs(tr.SubTree()), cfg.QuorumSize())
}

func (f *kauriFam) op(a []string) string {
	switch a[0] {
	case "cfg":
		f.k, f.el, f.chain, f.tr, f.fx = nil, nil, nil, nil, nil
		f.hashes = map[hotstuff.Hash]string{}
		return f.c.op(a)
	case "block", "sign", "create-pc", "multi", "bls", "combine":
		r := f.c.op(a)
		if a[0] == "block" && r == "ok" && f.k != nil && kvArgs(a)["store"] != "none" {
			// the node's own block store follows the script's stores
			f.chain.Store(f.c.blocks[a[1]])
			f.drain()
		}
		return r
	}
	if f.c.env == nil {
		return "bad-op"
	}
	if a[0] == "node" {
		if len(a) < 3 {
			return "bad-op"
		}
		return f.node(a)
	}
	if f.k == nil {
		return "bad-op"
	}
	switch a[0] {
	case "store":
		if len(a) != 2 {
			return "bad-op"
		}
		b, ok := f.c.blocks[a[1]]
		if !ok {
			return "bad-op"
		}
		f.chain.Store(b)
		f.drain()
		return "ok"
	case "begin":
		if len(a) < 3 {
			return "bad-op"
		}
		b, ok := f.c.blocks[a[1]]
		s, ok2 := f.c.sigs[a[2]]
		if !ok || !ok2 {
			return "bad-op"
		}
		h := b.Hash()
		if hn, ok := kvArgs(a[3:])["hash"]; ok {
			if strings.HasPrefix(hn, "unk:") {
				h = sha256.Sum256([]byte(hn))
				f.hashes[h] = hn
			} else if hb, ok := f.c.blocks[hn]; ok {
				h = hb.Hash()
			} else {
				return "bad-op"
			}
		}
		err := f.k.Aggregate(&hotstuff.ProposeMsg{ID: b.Proposer(), Block: b}, hotstuff.NewPartialCert(s, h))
		f.drain()
		if err != nil {
			return "error " + f.answer()
		}
		return f.answer()
	case "contribution":
		if len(a) != 4 {
			return "bad-op"
		}
		v, e1 := strconv.ParseUint(a[1], 10, 64)
		id, e2 := strconv.ParseUint(a[2], 10, 32)
		s, ok := f.c.sigOrNil(a[3])
		if e1 != nil || e2 != nil || !ok {
			return "bad-op"
		}
		f.el.AddEvent(&kauripb.Contribution{ID: uint32(id), View: v, Signature: hotstuffpb.QuorumSignatureToProto(s)})
		f.drain()
		return f.answer()
	case "timer":
		if len(a) != 2 {
			return "bad-op"
		}
		v, err := strconv.ParseUint(a[1], 10, 64)
		if err != nil {
			return "bad-op"
		}
		f.el.AddEvent(comm.VerifWaitTimerExpired(hotstuff.View(v)))
		f.drain()
		return f.answer()
	}
	return "bad-op"
}
