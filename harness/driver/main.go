//go:build verif

// Command hsdriver is the implementation side of the /verif line protocol.  It is NOT part of
// /repo: the orchestrator injects it as github.com/relab/hotstuff/internal/verifharness with
// `go build -tags verif -overlay`, so it is compiled against /repo's current working tree and may
// import the repository's internal packages.
//
// usage: hsdriver <family>   (reads one op per line on stdin, writes one answer per line)
package main

import (
	"bufio"
	"fmt"
	"os"
	"runtime/debug"
	"strings"
)

// family handles the ops of one property family. A fresh instance is created per process.
type family interface {
	// op executes one operation and returns the canonical one-line answer.
	op(args []string) string
}

var families = map[string]func() family{}

func register(name string, mk func() family) { families[name] = mk }

func safeOp(f family, args []string) (out string) {
	defer func() {
		if r := recover(); r != nil {
			if os.Getenv("VERIF_PANIC_TRACE") != "" {
				fmt.Fprintf(os.Stderr, "panic: %v\n%s\n", r, debug.Stack())
			}
			out = "panic"
		}
	}()
	return f.op(args)
}

func main() {
	if len(os.Args) < 2 {
		fmt.Fprintln(os.Stderr, "usage: hsdriver <family>")
		os.Exit(2)
	}
	mk, ok := families[os.Args[1]]
	if !ok {
		fmt.Fprintf(os.Stderr, "unknown family %q\n", os.Args[1])
		os.Exit(2)
	}
	f := mk()
	in := bufio.NewReaderSize(os.Stdin, 1<<20)
	out := bufio.NewWriterSize(os.Stdout, 1<<20)
	defer out.Flush()
	for {
		line, err := in.ReadString('\n')
		if len(line) > 0 {
			line = strings.TrimRight(line, "\r\n")
			t := strings.TrimSpace(line)
			if t == "" || strings.HasPrefix(t, "#") {
				fmt.Fprintln(out, "#")
			} else if t == "reset" {
				if c, ok := f.(interface{ close() }); ok {
					c.close() // e.g. verification goroutines the script left blocked
				}
				f = mk()
				fmt.Fprintln(out, "ok")
			} else {
				fmt.Fprintln(out, safeOp(f, strings.Fields(t)))
			}
			if os.Getenv("VERIF_FLUSH") != "" {
				out.Flush()
			}
		}
		if err != nil {
			break
		}
	}
}
