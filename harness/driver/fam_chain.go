//go:build verif

package main

import (
	"context"
	"crypto/sha256"
	"fmt"
	"io"
	"reflect"
	"sort"
	"strconv"
	"strings"
	"time"

	"github.com/relab/hotstuff"
	"github.com/relab/hotstuff/core"
	"github.com/relab/hotstuff/core/eventloop"
	"github.com/relab/hotstuff/core/logging"
	"github.com/relab/hotstuff/internal/proto/clientpb"
	"github.com/relab/hotstuff/internal/proto/hotstuffpb"
	"github.com/relab/hotstuff/network"
	"github.com/relab/hotstuff/protocol"
	"github.com/relab/hotstuff/protocol/consensus"
	"github.com/relab/hotstuff/security/blockchain"
	"github.com/relab/hotstuff/security/cert"
	"github.com/relab/hotstuff/security/crypto"
)

// chain family (C13): a real blockchain.Blockchain behind a scripted core.Sender whose replies
// pass through the real gorums quorum function (network.qspec.RequestBlockQF) and the real
// proto conversion, plus a real consensus.Committer with a scripted commit rule.
//
//	new <name> <parent> <view>                      parent: g | z (all-zero hash) | declared name
//	store <name>                                    -> ok
//	localget <name> | get <name>                    -> some <name> | none
//	fetch-answer <name> <reply>... [arrive=<name>]  reply: declared name | none | lying
//	fetch-overlap <name> on|off                     -> ok   while a fetch of <name> is in flight, ANOTHER complete Get of the same
//	                                                   hash runs (its own fetch finds nothing) before anything arrives
//	extends <b> <t>                                 -> true | false
//	prune <committed> <height>                      -> forked=[names, in reported order]
//	trycommit <b> <target|nil>                      -> nothing | error | ok exec=[..] abort=[..] committed=<name>
//	dump                                            -> blocks=[key:block,..] at=[view:block,..] prune=<n> committed=<name>
//
// Names are symbolic; blocks are real (hotstuff.NewBlock), hashes are real SHA-256 and are
// recomputed from the content of whatever the store hands back before being mapped to a name.
type chainFam struct {
	blocks map[string]*hotstuff.Block
	byHash map[hotstuff.Hash]string
	batch  map[string]string // marshalled batch -> block name
	n      int

	el    *eventloop.EventLoop
	bc    *blockchain.Blockchain
	vs    *protocol.ViewStates
	cm    *consensus.Committer
	ruler *scriptRuler
	snd   *scriptSender

	exec, abort []string
	dead        bool // an operation did not return; the instance is abandoned until reset
}

// hangs counts operations of this process that did not return (each leaves a spinning goroutine
// behind); after a few of them the process stops calling the code under test.
var hangs int

type fetchCfg struct {
	replies []string // declared name | none | lying
	arrive  string
}

// scriptSender is the network: RequestBlock answers from the script, through RequestBlockQF.
type scriptSender struct {
	f       *chainFam
	cfg     map[hotstuff.Hash]fetchCfg
	overlap map[hotstuff.Hash]bool
	nested  bool
}

func (s *scriptSender) NewView(hotstuff.ID, hotstuff.SyncInfo) error { return nil }
func (s *scriptSender) Vote(hotstuff.ID, hotstuff.PartialCert) error { return nil }
func (s *scriptSender) Timeout(hotstuff.TimeoutMsg)                  {}
func (s *scriptSender) Propose(*hotstuff.ProposeMsg)                 {}
func (s *scriptSender) Sub([]hotstuff.ID) (core.Sender, error)       { return s, nil }

// RequestBlock mirrors network.GorumsSender.RequestBlock with the transport replaced by the
// script: the quorum function is called after each reply, as gorums does, and the first accepted
// reply is converted with BlockFromProto.  A block stored by "another goroutine" while the call
// is in flight is stored first; if that cancelled the context the call fails like a gorums call.
func (s *scriptSender) RequestBlock(ctx context.Context, hash hotstuff.Hash) (*hotstuff.Block, bool) {
	if s.nested {
		return nil, false // the overlapping Get's own fetch: nobody answers
	}
	if s.overlap[hash] {
		// "another goroutine" gets the same hash while this fetch is in flight (Get holds no lock here)
		s.nested = true
		s.f.bc.Get(hash)
		s.nested = false
	}
	c, ok := s.cfg[hash]
	if !ok {
		return nil, false
	}
	if c.arrive != "" {
		s.f.bc.Store(s.f.blocks[c.arrive])
	}
	if ctx.Err() != nil {
		return nil, false
	}
	in := &hotstuffpb.BlockHash{Hash: hash[:]}
	replies := map[uint32]*hotstuffpb.Block{}
	for i, r := range c.replies {
		var b *hotstuff.Block
		switch r {
		case "none":
			continue
		case "lying":
			// same parent, view, commands as the requested block, another timestamp
			want, known := s.f.byHash[hash]
			if !known {
				continue
			}
			o := s.f.blocks[want]
			b = hotstuff.NewBlock(o.Parent(), o.QuorumCert(), o.Commands(), o.View(), o.Proposer())
			b.SetTimestamp(o.Timestamp().Add(time.Nanosecond))
		default:
			b = s.f.blocks[r]
		}
		replies[uint32(i+1)] = hotstuffpb.BlockToProto(b)
		if pb, ok := network.VerifRequestBlockQF(in, replies); ok {
			return hotstuffpb.BlockFromProto(pb), true
		}
	}
	return nil, false
}

type scriptRuler struct{ target *hotstuff.Block }

func (r *scriptRuler) CommitRule(*hotstuff.Block) *hotstuff.Block { return r.target }

func init() {
	logging.SetLogLevel("error")
	register("chain", func() family { return newChainFam() })
}

func newChainFam() *chainFam {
	f := &chainFam{
		blocks: map[string]*hotstuff.Block{},
		byHash: map[hotstuff.Hash]string{},
		batch:  map[string]string{},
	}
	env := newCryptoEnv(crypto.NameECDSA, 1)
	logger := logging.NewWithDest(io.Discard, "verif")
	f.el = eventloop.New(logger, 1<<14)
	f.snd = &scriptSender{f: f, cfg: map[hotstuff.Hash]fetchCfg{}, overlap: map[hotstuff.Hash]bool{}}
	f.bc = blockchain.New(f.el, logger, f.snd)
	auth := cert.NewAuthority(env.cfgs[0], f.bc, env.bases[0])
	vs, err := protocol.NewViewStates(f.bc, auth)
	if err != nil {
		panic(err)
	}
	f.vs = vs
	f.ruler = &scriptRuler{}
	f.cm = consensus.NewCommitter(f.el, logger, f.bc, vs, f.ruler)
	g := hotstuff.GetGenesis()
	f.blocks["g"] = g
	f.byHash[g.Hash()] = "g"
	eventloop.Register(f.el, func(e hotstuff.CommitEvent) { f.exec = append(f.exec, f.nameOf(e.Block)) })
	eventloop.Register(f.el, func(e clientpb.AbortEvent) {
		nm, ok := f.batch[string(e.Batch.Marshal())]
		if !ok {
			nm = "?"
		}
		f.abort = append(f.abort, nm)
	})
	return f
}

// nameOf maps a block handed out by the code under test to its symbolic name, by the hash
// recomputed from its content (not the cached one).
func (f *chainFam) nameOf(b *hotstuff.Block) string {
	if b == nil {
		return "nil"
	}
	h := hotstuff.Hash(sha256.Sum256(b.ToBytes()))
	if h != b.Hash() {
		return "?cached-hash"
	}
	if nm, ok := f.byHash[h]; ok {
		return nm
	}
	return "?"
}

func (f *chainFam) drain() {
	for f.el.Tick(context.Background()) {
	}
}

func optBlock(f *chainFam, b *hotstuff.Block, ok bool) string {
	if !ok {
		return "none"
	}
	return "some " + f.nameOf(b)
}

// prune calls PruneToHeight with either signature: (committedHeight, height) of the unrepaired
// tree or (committed *Block, height) of fixes/C13-prune-forks.diff.
func (f *chainFam) prune(c *hotstuff.Block, height hotstuff.View) []*hotstuff.Block {
	m := reflect.ValueOf(f.bc).MethodByName("PruneToHeight")
	var first reflect.Value
	if m.Type().In(0) == reflect.TypeOf(hotstuff.View(0)) {
		first = reflect.ValueOf(c.View())
	} else {
		first = reflect.ValueOf(c)
	}
	out := m.Call([]reflect.Value{first, reflect.ValueOf(height)})
	return out[0].Interface().([]*hotstuff.Block)
}

func nameList(l []string) string { return "[" + strings.Join(l, ",") + "]" }

// op runs one operation under a watchdog: the loops of Extends / PruneToHeight / commitInner are
// only finite because hash chains are; a change that breaks this must show up as an answer
// ("hang"), not as a harness that never finishes.
func (f *chainFam) op(a []string) string {
	if f.dead || hangs >= 3 {
		return "hang"
	}
	ch := make(chan string, 1)
	go func() {
		defer func() {
			if r := recover(); r != nil {
				ch <- "panic"
			}
		}()
		ch <- f.op1(a)
	}()
	select {
	case r := <-ch:
		return r
	case <-time.After(2 * time.Second):
		f.dead = true
		hangs++
		return "hang"
	}
}

func (f *chainFam) op1(a []string) string {
	switch a[0] {
	case "new":
		if len(a) != 4 {
			return "bad-op"
		}
		if _, dup := f.blocks[a[1]]; dup || a[1] == "z" || a[1] == "nil" || a[1] == "none" || a[1] == "lying" {
			return "bad-op"
		}
		view, err := strconv.ParseUint(a[3], 10, 32)
		if err != nil {
			return "bad-op"
		}
		var ph hotstuff.Hash
		var pv hotstuff.View
		if a[2] != "z" {
			p, ok := f.blocks[a[2]]
			if !ok {
				return "bad-op"
			}
			ph, pv = p.Hash(), p.View()
		}
		f.n++
		batch := &clientpb.Batch{Commands: []*clientpb.Command{{ClientID: 1, SequenceNumber: uint64(f.n), Data: []byte(a[1])}}}
		b := hotstuff.NewBlock(ph, hotstuff.NewQuorumCert(nil, pv, ph), batch, hotstuff.View(view), 1)
		b.SetTimestamp(time.Unix(1700000000, int64(f.n)))
		// the wire form must reproduce the hash, otherwise scripted replies would be meaningless
		if hotstuffpb.BlockFromProto(hotstuffpb.BlockToProto(b)).Hash() != b.Hash() {
			return "bad-roundtrip"
		}
		f.blocks[a[1]] = b
		f.byHash[b.Hash()] = a[1]
		f.batch[string(batch.Marshal())] = a[1]
		return "ok"
	case "store":
		if len(a) != 2 {
			return "bad-op"
		}
		b, ok := f.blocks[a[1]]
		if !ok {
			return "bad-op"
		}
		f.bc.Store(b)
		return "ok"
	case "localget", "get":
		if len(a) != 2 {
			return "bad-op"
		}
		b, ok := f.blocks[a[1]]
		if !ok {
			return "bad-op"
		}
		if a[0] == "localget" {
			r, ok := f.bc.LocalGet(b.Hash())
			return optBlock(f, r, ok)
		}
		r, ok := f.bc.Get(b.Hash())
		return optBlock(f, r, ok)
	case "fetch-answer":
		if len(a) < 2 {
			return "bad-op"
		}
		b, ok := f.blocks[a[1]]
		if !ok {
			return "bad-op"
		}
		var c fetchCfg
		for _, r := range a[2:] {
			if strings.HasPrefix(r, "arrive=") {
				c.arrive = strings.TrimPrefix(r, "arrive=")
				if _, ok := f.blocks[c.arrive]; !ok {
					return "bad-op"
				}
				continue
			}
			if _, ok := f.blocks[r]; !ok && r != "none" && r != "lying" {
				return "bad-op"
			}
			c.replies = append(c.replies, r)
		}
		f.snd.cfg[b.Hash()] = c
		return "ok"
	case "fetch-overlap":
		if len(a) != 3 || (a[2] != "on" && a[2] != "off") {
			return "bad-op"
		}
		b, ok := f.blocks[a[1]]
		if !ok {
			return "bad-op"
		}
		f.snd.overlap[b.Hash()] = a[2] == "on"
		return "ok"
	case "extends":
		if len(a) != 3 {
			return "bad-op"
		}
		b, ok1 := f.blocks[a[1]]
		t, ok2 := f.blocks[a[2]]
		if !ok1 || !ok2 {
			return "bad-op"
		}
		return fmt.Sprint(f.bc.Extends(b, t))
	case "prune":
		if len(a) != 3 {
			return "bad-op"
		}
		c, ok := f.blocks[a[1]]
		h, err := strconv.ParseUint(a[2], 10, 32)
		if !ok || err != nil {
			return "bad-op"
		}
		var names []string
		for _, b := range f.prune(c, hotstuff.View(h)) {
			names = append(names, f.nameOf(b))
		}
		return "forked=" + nameList(names)
	case "trycommit":
		if len(a) != 3 {
			return "bad-op"
		}
		b, ok := f.blocks[a[1]]
		if !ok {
			return "bad-op"
		}
		f.ruler.target = nil
		if a[2] != "nil" {
			t, ok := f.blocks[a[2]]
			if !ok {
				return "bad-op"
			}
			f.ruler.target = t
		}
		f.exec, f.abort = nil, nil
		err := f.cm.TryCommit(b)
		f.drain()
		if err != nil {
			return "error"
		}
		if f.ruler.target == nil {
			return "nothing"
		}
		return fmt.Sprintf("ok exec=%s abort=%s committed=%s", nameList(f.exec), nameList(f.abort), f.nameOf(f.vs.CommittedBlock()))
	case "dump":
		blocks, at, ph := f.bc.VerifSnapshot()
		var bs, as []string
		for k, v := range blocks {
			kn, ok := f.byHash[k]
			if !ok {
				kn = "?"
			}
			bs = append(bs, kn+":"+f.nameOf(v))
		}
		sort.Strings(bs)
		var views []int
		for k := range at {
			views = append(views, int(k))
		}
		sort.Ints(views)
		for _, v := range views {
			as = append(as, fmt.Sprintf("%d:%s", v, f.nameOf(at[hotstuff.View(v)])))
		}
		return fmt.Sprintf("blocks=%s at=%s prune=%d committed=%s", nameList(bs), nameList(as), ph, f.nameOf(f.vs.CommittedBlock()))
	}
	return "bad-op"
}
