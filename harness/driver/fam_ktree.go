//go:build verif

package main

import (
	"fmt"
	"strconv"
	"strings"

	"github.com/relab/hotstuff"
)

// ktree family (C09, C17): a WHOLE Kauri aggregation tree — one real comm.Kauri per replica (each as
// in the kauri family: real authority, tree, block store, event loop; the network replaced by a
// recording sender), and what a node hands to SendContributionToParent is the very object the script
// delivers to its parent (through the wire conversion), so the aggregate that reaches the root is
// composed by the real code at every level.
//
//	cfg ..., block ..., sign/create-pc/multi/bls/combine ...   as in the cert / kauri families
//	node <id> bf=<b> [pos=<ids>]            a node (all nodes get the same bf / pos from the generator)
//	store <block>                           every node's block store learns the block
//	@<id> begin <block> <sig> [hash=..]     as in the kauri family, at node <id>
//	@<id> contribution <view> <from> <sig|nil|out.<c>.<k>|out.<c>.last>
//	@<id> timer <view>
//	expect-root-qc <id> <k>                 -> qcmax=<largest participant count of a certificate node id emitted>
//
// out.<c>.<k> names the k-th aggregate node c handed to its parent (k = 1, 2, ...; nil aggregates count
// but cannot be named); out.<c>.last the latest one.
type ktreeFam struct {
	c      *certFam
	nodes  map[int]*kauriFam
	outs   map[int]int
	hashes map[hotstuff.Hash]string
}

func init() {
	register("ktree", func() family {
		return &ktreeFam{c: &certFam{}, nodes: map[int]*kauriFam{}, outs: map[int]int{}, hashes: map[hotstuff.Hash]string{}}
	})
}

func (f *ktreeFam) close() {}

func (f *ktreeFam) op(a []string) string {
	switch a[0] {
	case "cfg":
		f.nodes, f.outs = map[int]*kauriFam{}, map[int]int{}
		f.hashes = map[hotstuff.Hash]string{}
		return f.c.op(a)
	case "block", "sign", "create-pc", "multi", "bls", "combine":
		r := f.c.op(a)
		if a[0] == "block" && r == "ok" && kvArgs(a)["store"] != "none" {
			for _, nf := range f.nodes {
				nf.chain.Store(f.c.blocks[a[1]])
				nf.drain()
			}
		}
		return r
	}
	if f.c.env == nil {
		return "bad-op"
	}
	switch a[0] {
	case "node":
		if len(a) < 3 {
			return "bad-op"
		}
		nf := &kauriFam{c: f.c, hashes: f.hashes}
		r := nf.node(a)
		if r == "bad-op" {
			return r
		}
		id := nf.id
		f.nodes[id] = nf
		f.outs[id] = 0
		nf.onSend = func(qc hotstuff.QuorumSignature) {
			f.outs[id]++
			if !kauriIsNilSig(qc) {
				f.c.sigs[fmt.Sprintf("out.%d.%d", id, f.outs[id])] = qc
				f.c.sigs[fmt.Sprintf("out.%d.last", id)] = qc
			} else {
				delete(f.c.sigs, fmt.Sprintf("out.%d.last", id))
			}
		}
		return r
	case "store":
		if len(a) != 2 {
			return "bad-op"
		}
		b, ok := f.c.blocks[a[1]]
		if !ok {
			return "bad-op"
		}
		for _, nf := range f.nodes {
			nf.chain.Store(b)
			nf.drain()
		}
		return "ok"
	case "expect-root-qc":
		if len(a) != 3 {
			return "bad-op"
		}
		id, err := strconv.Atoi(a[1])
		nf, ok := f.nodes[id]
		if err != nil || !ok {
			return "bad-op"
		}
		return fmt.Sprintf("qcmax=%d", nf.qcMax)
	}
	if strings.HasPrefix(a[0], "@") && len(a) >= 2 {
		id, err := strconv.Atoi(a[0][1:])
		nf, ok := f.nodes[id]
		if err != nil || !ok {
			return "bad-op"
		}
		switch a[1] {
		case "begin", "contribution", "timer":
			return nf.op(a[1:])
		}
	}
	return "bad-op"
}
