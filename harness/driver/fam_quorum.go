//go:build verif

package main

import (
	"fmt"
	"strconv"

	"github.com/relab/hotstuff"
	"github.com/relab/hotstuff/core"
)

// quorum family (C20):
//   quorum <n>     -> f=<NumFaulty(n)> q=<QuorumSize(n)>
//   cfgquorum <n>  -> q=<RuntimeConfig.QuorumSize()> for a configuration holding n replicas
type quorumFam struct {
	cfg *core.RuntimeConfig
	n   int
}

func init() { register("quorum", func() family { return &quorumFam{} }) }

func (q *quorumFam) op(a []string) string {
	if len(a) != 2 {
		return "bad-op"
	}
	n, err := strconv.Atoi(a[1])
	if err != nil || n < 0 {
		return "bad-op"
	}
	switch a[0] {
	case "quorum":
		return fmt.Sprintf("f=%d q=%d", hotstuff.NumFaulty(n), hotstuff.QuorumSize(n))
	case "cfgquorum":
		if q.cfg == nil || q.n > n {
			q.cfg = core.NewRuntimeConfig(1, nil)
			q.n = 0
		}
		for q.n < n {
			q.n++
			q.cfg.AddReplica(&hotstuff.ReplicaInfo{ID: hotstuff.ID(q.n)})
		}
		return fmt.Sprintf("q=%d", q.cfg.QuorumSize())
	}
	return "bad-op"
}
