//go:build verif

package main

import (
	"bytes"
	"encoding/json"
	"errors"
	"fmt"
	"io"
	"os"
	"sort"
	"strconv"
	"strings"

	"github.com/relab/hotstuff"
	"github.com/relab/hotstuff/core/logging"
	"github.com/relab/hotstuff/internal/proto/clientpb"
	"github.com/relab/hotstuff/twins"
)

// twins family (C18): the real scenario generator, JSON codec and checkCommits of package twins.
//
// Canonical forms: node r<replica>n<twin>; node set = nodes sorted by (replica, twin) joined by ","
// ("-" when empty or nil); view = <leader>:<set>/<set>/...; scenario = views joined by "|" ("." for
// a scenario without views).
//
//	ids <n> <t>                 -> nodes=<list> twins=<list>               (assignNodeIDs)
//	sizes <n> <k> <min>         -> count=<c> 4,0;3,1;2,2                   (genPartitionSizes)
//	pairs <k>                   -> 0.0,0.1,1.1                             (generateTwinPartitionPairs)
//	valid <pairs> <sizes>       -> true|false                              (isValidTwinAssignment)
//	parts <n> <t> <k> <min>     -> count=<c> <set>/<set>;<set>/<set>;...   (genPartitionScenarios on assignNodeIDs)
//	gen <n> <t> <k> <v>         -> ok L=<len alphabet> remaining=<Remaining()>
//	lp                          -> count=<L> <view>;<view>;...             (alphabet in its current order)
//	shuffle <seed> [perm=[..] offs=[..]] -> ok perm=[..] offs=[..]         (real Shuffle; what it did)
//	next                        -> [i0,i1,..] rem=<Remaining()> | eof rem=<..>   (views named by their
//	                               position in the alphabet as it was when `gen` returned)
//	nextfull                    -> <scenario> rem=<..> | eof rem=<..>
//	jump <c> | jumpend <d>      -> ok at=<c> rem=<..>   (odometer state after c = L^v - d successful calls, c < L^v)
//	drain <max>                 -> count=<c> eof=<bool> distinct=<d> rem=<r> fnv=<hex>
//	json                        -> <scenario>   (last scenario through json.Marshal/json.Unmarshal)
//	jsonfilelit <scen> <scen>   -> <scen> || <scen> || <first again> after=<r>   (two scenarios through one file)
//	jsonfile                    -> settings=n,t,k,v,ticks,shuffle,seed remaining=<r> <scenario> after=<r>
//	                               (last scenario through ToJSON/WriteScenario/Close/FromJSON/NextScenario)
//	jsonlit <scenario>          -> <scenario>   (literal scenario through json.Marshal/json.Unmarshal)
//	exec <ticks>                -> ok | inconsistent safe=.. commits=.. <node>=<b,..> ...   (last scenario through
//	                               ExecuteScenario with chained HotStuff; verdict vs. the NodeCommits of the same result)
//	execlit <n> <t> <ticks> <scenario> <safe|unsafe> -> ok safe | ok unsafe | inconsistent ...   (a literal scenario)
//	commits <node>=<b,b,..> ... -> safe=<bool> commits=<int>               (checkCommits on synthetic logs)
type twinsFam struct {
	g        *twins.Generator
	settings twins.Settings
	names    map[string]int // canonical view -> position in the alphabet at gen time
	last     twins.Scenario
	haveLast bool
	ended    bool // NextScenario has reported io.EOF
	blocks   map[string]*hotstuff.Block
}

func init() {
	register("twins", func() family { return &twinsFam{blocks: map[string]*hotstuff.Block{}} })
}

var twinsLogger = logging.NewWithDest(io.Discard, "verif")

func nodeLess(a, b twins.NodeID) bool {
	if a.ReplicaID != b.ReplicaID {
		return a.ReplicaID < b.ReplicaID
	}
	return a.TwinID < b.TwinID
}

func canonNode(n twins.NodeID) string { return fmt.Sprintf("r%dn%d", n.ReplicaID, n.TwinID) }

func canonNodes(l []twins.NodeID) string {
	if len(l) == 0 {
		return "-"
	}
	s := make([]string, len(l))
	for i, n := range l {
		s[i] = canonNode(n)
	}
	return strings.Join(s, ",")
}

func canonSet(s twins.NodeSet) string {
	l := make([]twins.NodeID, 0, len(s))
	for n := range s {
		l = append(l, n)
	}
	sort.Slice(l, func(i, j int) bool { return nodeLess(l[i], l[j]) })
	return canonNodes(l)
}

func canonParts(p []twins.NodeSet) string {
	if len(p) == 0 {
		return "none"
	}
	s := make([]string, len(p))
	for i := range p {
		s[i] = canonSet(p[i])
	}
	return strings.Join(s, "/")
}

func canonView(v twins.View) string { return fmt.Sprintf("%d:%s", v.Leader, canonParts(v.Partitions)) }

func canonScenario(s twins.Scenario) string {
	if len(s) == 0 {
		return "."
	}
	v := make([]string, len(s))
	for i := range s {
		v[i] = canonView(s[i])
	}
	return strings.Join(v, "|")
}

func parseNode(s string) (twins.NodeID, bool) {
	if !strings.HasPrefix(s, "r") {
		return twins.NodeID{}, false
	}
	p := strings.SplitN(s[1:], "n", 2)
	if len(p) != 2 {
		return twins.NodeID{}, false
	}
	r, e1 := strconv.ParseUint(p[0], 10, 32)
	t, e2 := strconv.ParseUint(p[1], 10, 32)
	if e1 != nil || e2 != nil {
		return twins.NodeID{}, false
	}
	return twins.NodeID{ReplicaID: hotstuff.ID(r), TwinID: uint32(t)}, true
}

// parseScenario reads the canonical form; node lists may be unsorted and may repeat nodes.
// "-" becomes a nil set, "+" an empty non-nil set.
func parseScenario(s string) (twins.Scenario, bool) {
	if s == "." {
		return twins.Scenario{}, true
	}
	var sc twins.Scenario
	for _, vs := range strings.Split(s, "|") {
		p := strings.SplitN(vs, ":", 2)
		if len(p) != 2 {
			return nil, false
		}
		l, err := strconv.ParseUint(p[0], 10, 32)
		if err != nil {
			return nil, false
		}
		v := twins.View{Leader: hotstuff.ID(l)}
		if p[1] != "none" {
			for _, ps := range strings.Split(p[1], "/") {
				var set twins.NodeSet
				switch ps {
				case "-":
				case "+":
					set = twins.NewNodeSet()
				default:
					set = twins.NewNodeSet()
					for _, ns := range strings.Split(ps, ",") {
						n, ok := parseNode(ns)
						if !ok {
							return nil, false
						}
						set.Add(n)
					}
				}
				v.Partitions = append(v.Partitions, set)
			}
		}
		sc = append(sc, v)
	}
	return sc, true
}

func u8(s string) (uint8, bool) {
	v, err := strconv.ParseUint(s, 10, 8)
	return uint8(v), err == nil
}

func intList(l []int) string {
	s := make([]string, len(l))
	for i, x := range l {
		s[i] = strconv.Itoa(x)
	}
	return "[" + strings.Join(s, ",") + "]"
}

func u8List(l []uint8) string {
	s := make([]string, len(l))
	for i, x := range l {
		s[i] = strconv.Itoa(int(x))
	}
	return strings.Join(s, ",")
}

func parseU8List(s string) ([]uint8, bool) {
	if s == "-" {
		return nil, true
	}
	var out []uint8
	for _, p := range strings.Split(s, ",") {
		v, ok := u8(p)
		if !ok {
			return nil, false
		}
		out = append(out, v)
	}
	return out, true
}

func (f *twinsFam) nameScenario(s twins.Scenario) string {
	idx := make([]string, len(s))
	for i := range s {
		c := canonView(s[i])
		if k, ok := f.names[c]; ok {
			idx[i] = strconv.Itoa(k)
		} else {
			idx[i] = "?" + c
		}
	}
	return "[" + strings.Join(idx, ",") + "]"
}

func (f *twinsFam) nextScenario() (twins.Scenario, bool, string) {
	s, err := f.g.NextScenario()
	if err != nil {
		if errors.Is(err, io.EOF) {
			f.ended = true
			return nil, false, "eof"
		}
		return nil, false, "reject:other"
	}
	f.last, f.haveLast = s, true
	return s, true, ""
}

func fnvStep(h uint64, s string) uint64 {
	for i := 0; i < len(s); i++ {
		h ^= uint64(s[i])
		h *= 1099511628211
	}
	return h
}

func (f *twinsFam) block(name string) *hotstuff.Block {
	b, ok := f.blocks[name]
	if !ok {
		g := hotstuff.GetGenesis()
		b = hotstuff.NewBlock(g.Hash(), hotstuff.NewQuorumCert(nil, 0, g.Hash()), &clientpb.Batch{},
			hotstuff.View(len(f.blocks)+1), 1)
		f.blocks[name] = b
	}
	c := *b // a distinct object with the same hash: checkCommits must compare hashes, not pointers
	return &c
}

// execVerdict recomputes the verdict from ScenarioResult.NodeCommits (position-wise comparison of
// the logs of replicas that ran as a single node) and answers "ok" when ScenarioResult.Safe/Commits say
// the same; otherwise the result and the logs (blocks named by first use) are printed for the oracle.
func execVerdict(res twins.ScenarioResult) string {
	ids := make([]twins.NodeID, 0, len(res.NodeCommits))
	perReplica := map[hotstuff.ID]int{}
	for id := range res.NodeCommits {
		ids = append(ids, id)
		perReplica[id.ReplicaID]++
	}
	sort.Slice(ids, func(i, j int) bool { return nodeLess(ids[i], ids[j]) })
	safe, commits := true, 0
	for pos := 0; ; pos++ {
		var first *hotstuff.Hash
		any, conflict := false, false
		for _, id := range ids {
			log := res.NodeCommits[id]
			if perReplica[id.ReplicaID] != 1 || len(log) <= pos {
				continue
			}
			h := log[pos].Hash()
			if !any {
				any, first = true, &h
			} else if *first != h {
				conflict = true
			}
		}
		if !any {
			break
		}
		if conflict {
			safe = false
			break
		}
		commits = pos + 1
	}
	if os.Getenv("VERIF_EXEC_TRACE") != "" {
		fmt.Fprintf(os.Stderr, "exec: safe=%t commits=%d nodes=%d\n", res.Safe, res.Commits, len(ids))
	}
	if safe == res.Safe && commits == res.Commits {
		return "ok"
	}
	names := map[hotstuff.Hash]string{}
	var sb strings.Builder
	for _, id := range ids {
		sb.WriteString(" " + canonNode(id) + "=")
		if len(res.NodeCommits[id]) == 0 {
			sb.WriteString("-")
		}
		for i, b := range res.NodeCommits[id] {
			nm, ok := names[b.Hash()]
			if !ok {
				nm = fmt.Sprintf("b%d", len(names))
				names[b.Hash()] = nm
			}
			if i > 0 {
				sb.WriteString(",")
			}
			sb.WriteString(nm)
		}
	}
	return fmt.Sprintf("inconsistent safe=%t commits=%d%s", res.Safe, res.Commits, sb.String())
}

func (f *twinsFam) op(a []string) string {
	switch a[0] {
	case "ids":
		if len(a) != 3 {
			return "bad-op"
		}
		n, ok1 := u8(a[1])
		t, ok2 := u8(a[2])
		if !ok1 || !ok2 {
			return "bad-op"
		}
		nodes, tw := twins.VerifAssignNodeIDs(n, t)
		return fmt.Sprintf("nodes=%s twins=%s", canonNodes(nodes), canonNodes(tw))
	case "sizes":
		if len(a) != 4 {
			return "bad-op"
		}
		n, ok1 := u8(a[1])
		k, ok2 := u8(a[2])
		m, ok3 := u8(a[3])
		if !ok1 || !ok2 || !ok3 || n < 1 || k < 1 || m < 1 {
			return "bad-op" // n = 0 wraps in uint8, k = 0 indexes an empty slice, min = 0 never terminates
		}
		sz := twins.VerifGenPartitionSizes(n, k, m)
		s := make([]string, len(sz))
		for i := range sz {
			s[i] = u8List(sz[i])
		}
		return fmt.Sprintf("count=%d %s", len(sz), strings.Join(s, ";"))
	case "pairs":
		if len(a) != 2 {
			return "bad-op"
		}
		k, ok := u8(a[1])
		if !ok {
			return "bad-op"
		}
		ps := twins.VerifTwinPairs(k)
		if len(ps) == 0 {
			return "-"
		}
		s := make([]string, len(ps))
		for i, p := range ps {
			s[i] = fmt.Sprintf("%d.%d", p[0], p[1])
		}
		return strings.Join(s, ",")
	case "valid":
		if len(a) != 3 {
			return "bad-op"
		}
		var as [][2]uint8
		if a[1] != "-" {
			for _, p := range strings.Split(a[1], ",") {
				q := strings.Split(p, ".")
				if len(q) != 2 {
					return "bad-op"
				}
				x, ok1 := u8(q[0])
				y, ok2 := u8(q[1])
				if !ok1 || !ok2 {
					return "bad-op"
				}
				as = append(as, [2]uint8{x, y})
			}
		}
		sz, ok := parseU8List(a[2])
		if !ok {
			return "bad-op"
		}
		return fmt.Sprint(twins.VerifIsValidTwinAssignment(as, sz))
	case "parts":
		if len(a) != 5 {
			return "bad-op"
		}
		n, ok1 := u8(a[1])
		t, ok2 := u8(a[2])
		k, ok3 := u8(a[3])
		m, ok4 := u8(a[4])
		if !ok1 || !ok2 || !ok3 || !ok4 || n < 1 || k < 1 || m < 1 || int(n)+int(t) > 255 {
			return "bad-op"
		}
		nodes, tw := twins.VerifAssignNodeIDs(n, t)
		ps := twins.VerifGenPartitionScenarios(tw, nodes, k, m)
		s := make([]string, len(ps))
		for i := range ps {
			s[i] = canonParts(ps[i])
		}
		return fmt.Sprintf("count=%d %s", len(ps), strings.Join(s, ";"))
	case "gen":
		if len(a) != 5 {
			return "bad-op"
		}
		n, ok1 := u8(a[1])
		t, ok2 := u8(a[2])
		k, ok3 := u8(a[3])
		v, ok4 := u8(a[4])
		if !ok1 || !ok2 || !ok3 || !ok4 || n < 1 || k < 1 || int(n)+int(t) > 255 {
			return "bad-op"
		}
		f.g, f.haveLast, f.ended = nil, false, false
		f.settings = twins.Settings{NumNodes: n, NumTwins: t, Partitions: k, Views: v, Ticks: 100}
		g := twins.NewGenerator(twinsLogger, f.settings)
		f.g = g
		lp := twins.VerifLeadersPartitions(g)
		f.names = make(map[string]int, len(lp))
		for i := range lp {
			c := canonView(lp[i])
			if _, dup := f.names[c]; !dup {
				f.names[c] = i
			}
		}
		return fmt.Sprintf("ok L=%d remaining=%d", len(lp), g.Remaining())
	case "lp":
		if f.g == nil {
			return "bad-op"
		}
		lp := twins.VerifLeadersPartitions(f.g)
		s := make([]string, len(lp))
		for i := range lp {
			s[i] = canonView(lp[i])
		}
		return fmt.Sprintf("count=%d %s", len(lp), strings.Join(s, ";"))
	case "shuffle":
		if f.g == nil || len(a) < 2 {
			return "bad-op"
		}
		seed, err := strconv.ParseInt(a[1], 10, 64)
		if err != nil {
			return "bad-op"
		}
		old := twins.VerifLeadersPartitions(f.g)
		before := make([]string, len(old))
		for i := range old {
			before[i] = canonView(old[i])
		}
		f.g.Shuffle(seed)
		lp := twins.VerifLeadersPartitions(f.g)
		// where did each view go: perm[i] = position before this call of the view now at position i
		// (first unused match, so repeated views stay distinguishable)
		used := make([]bool, len(before))
		perm := make([]int, len(lp))
		for i := range lp {
			c := canonView(lp[i])
			perm[i] = -1
			for j := range before {
				if !used[j] && before[j] == c {
					used[j], perm[i] = true, j
					break
				}
			}
			if perm[i] < 0 {
				return "foreign-view " + c
			}
		}
		st := f.g.Settings()
		if !st.Shuffle || st.Seed != seed {
			return "settings-not-updated"
		}
		f.settings = st
		return fmt.Sprintf("ok perm=%s offs=%s", intList(perm), intList(twins.VerifOffsets(f.g)))
	case "next", "nextfull":
		if f.g == nil {
			return "bad-op"
		}
		s, ok, why := f.nextScenario()
		if !ok {
			return fmt.Sprintf("%s rem=%d", why, f.g.Remaining())
		}
		if a[0] == "next" {
			return fmt.Sprintf("%s rem=%d", f.nameScenario(s), f.g.Remaining())
		}
		return fmt.Sprintf("%s rem=%d", canonScenario(s), f.g.Remaining())
	case "jump", "jumpend":
		if f.g == nil || len(a) != 2 || f.ended || f.g.Remaining() <= 0 {
			return "bad-op" // only a generator that has not finished can be moved
		}
		c, err := strconv.ParseUint(a[1], 10, 62)
		if err != nil {
			return "bad-op"
		}
		l := uint64(len(twins.VerifLeadersPartitions(f.g)))
		total := uint64(1)
		for i := 0; i < int(f.settings.Views); i++ {
			if l != 0 && total > (1<<62)/l {
				return "bad-op"
			}
			total *= l
		}
		if a[0] == "jumpend" { // c scenarios before the end
			if c == 0 || total == 0 {
				return "bad-op"
			}
			if c > total {
				c = total
			}
			c = total - c
		}
		if c >= total {
			return "bad-op"
		}
		twins.VerifJump(f.g, c, total)
		return fmt.Sprintf("ok at=%d rem=%d", c, f.g.Remaining())
	case "drain":
		if f.g == nil || len(a) != 2 {
			return "bad-op"
		}
		max, err := strconv.Atoi(a[1])
		if err != nil || max < 0 {
			return "bad-op"
		}
		seen := make(map[string]struct{})
		h := uint64(14695981039346656037)
		count, eof := 0, false
		for count < max {
			s, ok, why := f.nextScenario()
			if !ok {
				if why != "eof" {
					return why
				}
				eof = true
				break
			}
			nm := f.nameScenario(s)
			seen[nm] = struct{}{}
			h = fnvStep(h, nm)
			h = fnvStep(h, "\n")
			count++
		}
		return fmt.Sprintf("count=%d eof=%t distinct=%d rem=%d fnv=%016x", count, eof, len(seen), f.g.Remaining(), h)
	case "json", "jsonlit":
		var s twins.Scenario
		if a[0] == "json" {
			if !f.haveLast {
				return "bad-op"
			}
			s = f.last
		} else {
			if len(a) != 2 {
				return "bad-op"
			}
			var ok bool
			if s, ok = parseScenario(a[1]); !ok {
				return "bad-op"
			}
		}
		buf, err := json.Marshal(s)
		if err != nil {
			return "reject:marshal"
		}
		var back twins.Scenario
		if err := json.Unmarshal(buf, &back); err != nil {
			return "reject:unmarshal"
		}
		return canonScenario(back)
	case "jsonfilelit":
		// a scenario FILE with two literal scenarios, read back through the JSON scenario source
		if len(a) != 3 {
			return "bad-op"
		}
		s1, ok1 := parseScenario(a[1])
		s2, ok2 := parseScenario(a[2])
		if !ok1 || !ok2 {
			return "bad-op"
		}
		var buf bytes.Buffer
		wr, err := twins.ToJSON(f.settings, &buf)
		if err != nil {
			return "reject:tojson"
		}
		if wr.WriteScenario(s1) != nil || wr.WriteScenario(s2) != nil || wr.Close() != nil {
			return "reject:write"
		}
		src, err := twins.FromJSON(&buf)
		if err != nil {
			return "reject:fromjson"
		}
		b1, e1 := src.NextScenario()
		if e1 != nil {
			return "reject:next"
		}
		c1 := canonScenario(b1) // before the source is asked again
		b2, e2 := src.NextScenario()
		if e2 != nil {
			return "reject:next"
		}
		return fmt.Sprintf("%s || %s || %s after=%d", c1, canonScenario(b2), canonScenario(b1), src.Remaining())
	case "jsonfile":
		if !f.haveLast {
			return "bad-op"
		}
		var buf bytes.Buffer
		wr, err := twins.ToJSON(f.settings, &buf)
		if err != nil {
			return "reject:tojson"
		}
		if err := wr.WriteScenario(f.last); err != nil {
			return "reject:write"
		}
		if err := wr.Close(); err != nil {
			return "reject:close"
		}
		src, err := twins.FromJSON(&buf)
		if err != nil {
			return "reject:fromjson"
		}
		st := src.Settings()
		rem := src.Remaining()
		back, err := src.NextScenario()
		if err != nil {
			return "reject:next"
		}
		return fmt.Sprintf("settings=%d,%d,%d,%d,%d,%t,%d remaining=%d %s after=%d", st.NumNodes, st.NumTwins,
			st.Partitions, st.Views, st.Ticks, st.Shuffle, st.Seed, rem, canonScenario(back), src.Remaining())
	case "exec":
		// the CLI path generateAndExecuteScenario: run the last scenario for real (chained HotStuff) and
		// compare the reported verdict with the commit logs reported in the same result
		if !f.haveLast || len(a) != 2 {
			return "bad-op"
		}
		ticks, err := strconv.Atoi(a[1])
		if err != nil || ticks < 0 || ticks > 1000 {
			return "bad-op"
		}
		res, err := twins.ExecuteScenario(f.last, f.settings.NumNodes, f.settings.NumTwins, ticks, "chainedhotstuff")
		if err != nil {
			return "reject:exec"
		}
		return execVerdict(res)
	case "execlit":
		// execlit <n> <t> <ticks> <scenario> <safe|unsafe>: a literal scenario through ExecuteScenario;
		// the answer names the verdict class so that the script can pin a run that must diverge
		if len(a) != 6 {
			return "bad-op"
		}
		n, ok1 := u8(a[1])
		t, ok2 := u8(a[2])
		ticks, err := strconv.Atoi(a[3])
		sc, ok3 := parseScenario(a[4])
		if !ok1 || !ok2 || !ok3 || err != nil || ticks < 0 || ticks > 1000 || n < 1 || (a[5] != "safe" && a[5] != "unsafe") {
			return "bad-op"
		}
		res, err := twins.ExecuteScenario(sc, n, t, ticks, "chainedhotstuff")
		if err != nil {
			return "reject:exec"
		}
		if v := execVerdict(res); v != "ok" {
			return v
		}
		if res.Safe {
			return "ok safe"
		}
		return "ok unsafe"
	case "commits":
		var ids []twins.NodeID
		var logs [][]*hotstuff.Block
		seen := map[twins.NodeID]bool{}
		for _, kv := range a[1:] {
			p := strings.SplitN(kv, "=", 2)
			if len(p) != 2 {
				return "bad-op"
			}
			id, ok := parseNode(p[0])
			if !ok || seen[id] {
				return "bad-op"
			}
			seen[id] = true
			var log []*hotstuff.Block
			if p[1] != "-" {
				for _, b := range strings.Split(p[1], ",") {
					if b == "" {
						return "bad-op"
					}
					log = append(log, f.block(b))
				}
			}
			ids = append(ids, id)
			logs = append(logs, log)
		}
		safe, commits := twins.VerifCheckCommits(ids, logs)
		// getBlocks must report the logs unchanged (ScenarioResult.NodeCommits)
		got := twins.VerifGetBlocks(ids, logs)
		if len(got) != len(ids) {
			return "getblocks-mismatch"
		}
		for i, id := range ids {
			if len(got[id]) != len(logs[i]) {
				return "getblocks-mismatch"
			}
			for j := range logs[i] {
				if got[id][j] != logs[i][j] {
					return "getblocks-mismatch"
				}
			}
		}
		return fmt.Sprintf("safe=%t commits=%d", safe, commits)
	}
	return "bad-op"
}
