#!/bin/sh
# MANIFEST.setup_cmd: build the framework from files on disk only (offline).
set -e
cd "$(dirname "$0")"
export GOFLAGS=-mod=mod GOPROXY=off
mkdir -p bin build evidence replays
(cd tools/gofacts && go build -o ../../bin/gofacts .)
./bin/gofacts -repo "${VERIF_REPO:-/repo}" -out lean/HsVerif/HsVerif/Gen -facts build/facts.json
python3 tools/mkmain.py
(cd lean/HsVerif && lake build HsVerif hsmodel)
python3 - <<'PY'
import sys; sys.path.insert(0, '.')
from vlib import core
ok, out, dt, path = core.build_driver()
print("hsdriver:", "ok" if ok else out)
sys.exit(0 if ok else 1)
PY
