import HsVerif.Model.ClientIO
/-! C06 — replicas execute the same commands exactly once, in chain order.  Property theorems only.
(The cross-replica statement composes `executed_prefix` below with C01's prefix-relatedness of the
committed chains; ExecuteEvents are emitted per committed block, ancestors first — Model/Replica
`commitInner`.) -/
set_option linter.unusedVariables false
set_option linter.unusedSimpArgs false
namespace HsVerif.Props.C06
open HsVerif.Model

/-- what the application has executed depends only on `lastExec`/`executed` -/
def core (s : CIO) : List (Nat × Nat) × List Cmd := (s.lastExec, s.executed)

theorem complete_core (s : CIO) (id : Nat × Nat) (o : Outcome) : core (s.complete id o) = core s := by
  unfold CIO.complete; split <;> rfl

/-- the pure execution filter: which commands of a stream reach the application -/
def execFilter : List (Nat × Nat) → List Cmd → List Cmd
  | _, [] => []
  | last, c :: cs => if dupIn last c then execFilter last cs else c :: execFilter (setLast c.client c.seq last) cs

def lastAfter : List (Nat × Nat) → List Cmd → List (Nat × Nat)
  | last, [] => last
  | last, c :: cs => if dupIn last c then lastAfter last cs else lastAfter (setLast c.client c.seq last) cs

theorem exec1_core (s : CIO) (c : Cmd) :
    core (s.exec1 c) = (lastAfter s.lastExec [c], s.executed ++ execFilter s.lastExec [c]) := by
  unfold CIO.exec1 CIO.isDuplicate
  by_cases h : dupIn s.lastExec c
  · simp only [h, ↓reduceIte, complete_core]
    simp [core, lastAfter, execFilter, h]
  · simp only [h, Bool.false_eq_true, ↓reduceIte, complete_core]
    simp [core, lastAfter, execFilter, h]

theorem lastAfter_append (last : List (Nat × Nat)) (a b : List Cmd) :
    lastAfter last (a ++ b) = lastAfter (lastAfter last a) b := by
  induction a generalizing last with
  | nil => rfl
  | cons c cs ih =>
    by_cases h : dupIn last c
    · simp [lastAfter, h, ih]
    · simp [lastAfter, h, ih]

theorem execFilter_append (last : List (Nat × Nat)) (a b : List Cmd) :
    execFilter last (a ++ b) = execFilter last a ++ execFilter (lastAfter last a) b := by
  induction a generalizing last with
  | nil => rfl
  | cons c cs ih =>
    by_cases h : dupIn last c
    · simp [execFilter, lastAfter, h, ih]
    · simp [execFilter, lastAfter, h, ih]

theorem exec_core (s : CIO) (batch : List Cmd) :
    core (s.exec batch) = (lastAfter s.lastExec batch, s.executed ++ execFilter s.lastExec batch) := by
  unfold CIO.exec
  induction batch generalizing s with
  | nil => simp [core, lastAfter, execFilter]
  | cons c cs ih =>
    simp only [List.foldl_cons]
    rw [ih]
    have h1 := exec1_core s c
    simp only [core, Prod.mk.injEq] at h1
    rw [h1.1, h1.2]
    have e1 : lastAfter s.lastExec (c :: cs) = lastAfter (lastAfter s.lastExec [c]) cs := by
      rw [show c :: cs = [c] ++ cs from rfl, lastAfter_append]
    have e2 : execFilter s.lastExec (c :: cs) = execFilter s.lastExec [c] ++ execFilter (lastAfter s.lastExec [c]) cs := by
      rw [show c :: cs = [c] ++ cs from rfl, execFilter_append]
    simp [e1, e2, List.append_assoc]

theorem register_core (s : CIO) (c : Cmd) (ch : Nat) : core (s.register c ch) = core s := rfl

theorem abort_core (s : CIO) (batch : List Cmd) : core (s.abort batch) = core s := by
  unfold CIO.abort
  induction batch generalizing s with
  | nil => rfl
  | cons c cs ih => simp only [List.foldl_cons]; rw [ih, complete_core]

/-- the batches executed by a sequence of operations, concatenated -/
def execStream : List CIOOp → List Cmd
  | [] => []
  | .exec b :: rest => b ++ execStream rest
  | _ :: rest => execStream rest

/-- **Execution is a function of the executed batches**: whatever registrations and aborts are
interleaved, after any operation sequence the commands handed to the application are
`execFilter` of the concatenated executed batches (the committed chain's commands). -/
theorem executed_is_function_of_chain (ops : List CIOOp) :
    (ops.foldl CIO.step {}).executed = execFilter [] (execStream ops) := by
  have gen : ∀ (ops : List CIOOp) (s : CIO),
      core (ops.foldl CIO.step s) = (lastAfter s.lastExec (execStream ops), s.executed ++ execFilter s.lastExec (execStream ops)) := by
    intro ops
    induction ops with
    | nil => intro s; simp [core, execStream, lastAfter, execFilter]
    | cons op rest ih =>
      intro s
      simp only [List.foldl_cons]
      rw [ih]
      cases op with
      | register c ch =>
        have := register_core s c ch; simp only [core, Prod.mk.injEq] at this
        simp [CIO.step, execStream, this.1, this.2]
      | abort b =>
        have := abort_core s b; simp only [core, Prod.mk.injEq] at this
        simp [CIO.step, execStream, this.1, this.2]
      | exec b =>
        have := exec_core s b; simp only [core, Prod.mk.injEq] at this
        simp only [CIO.step, execStream, this.1, this.2, lastAfter_append, execFilter_append, List.append_assoc]
  have := gen ops {}
  simp only [core, Prod.mk.injEq] at this
  simpa using this.2

/-- **Prefix-related chains give prefix-related executions** (so, with C01, the executed command
sequences of two honest replicas — and the digests after equally many commands — are prefix
related). -/
theorem executed_prefix (a b : List Cmd) (h : a <+: b) : execFilter [] a <+: execFilter [] b := by
  obtain ⟨t, rfl⟩ := h
  rw [execFilter_append]
  exact List.prefix_append _ _

theorem lookup_setLast (k v k' : Nat) (l : List (Nat × Nat)) :
    (setLast k v l).lookup k' = if k' = k then some v else l.lookup k' := by
  induction l with
  | nil =>
    by_cases h : k' = k
    · simp [setLast, List.lookup, h]
    · have : (k' == k) = false := by simp [h]
      simp [setLast, List.lookup, h, this]
  | cons p ps ih =>
    obtain ⟨a, b⟩ := p
    unfold setLast
    by_cases hak : a = k
    · subst hak
      by_cases hk : k' = a
      · simp [List.lookup_cons, hk]
      · have : (k' == a) = false := by simp [hk]
        simp [List.lookup_cons, hk, this]
    · have h1 : (a == k) = false := by simp [hak]
      simp only [h1, Bool.false_eq_true, ↓reduceIte, List.lookup_cons, ih]
      by_cases hk : k' = a
      · subst hk
        have : ¬ k' = k := hak
        simp [this]
      · have : (k' == a) = false := by simp [hk]
        simp [this]

/-- **No command is executed twice, even if it is in several committed blocks**: per client the
sequence numbers of the executed commands strictly increase, and stay above what was executed
before. -/
theorem executed_increasing (last : List (Nat × Nat)) (l : List Cmd) :
    (execFilter last l).Pairwise (fun a b => a.client = b.client → a.seq < b.seq) ∧
    ∀ c ∈ execFilter last l, ∀ n, last.lookup c.client = some n → n < c.seq := by
  induction l generalizing last with
  | nil => simp [execFilter]
  | cons c cs ih =>
    by_cases hd : dupIn last c
    · simp only [execFilter, hd, ↓reduceIte]; exact ih last
    · simp only [execFilter, hd, Bool.false_eq_true, ↓reduceIte]
      obtain ⟨h1, h2⟩ := ih (setLast c.client c.seq last)
      refine ⟨?_, ?_⟩
      · rw [List.pairwise_cons]
        refine ⟨?_, h1⟩
        intro b hb hcb
        exact h2 b hb c.seq (by rw [lookup_setLast]; simp [hcb])
      · intro x hx n hn
        simp only [List.mem_cons] at hx
        rcases hx with rfl | hx
        · simp only [dupIn, hn, decide_eq_true_eq] at hd
          omega
        · by_cases hxc : x.client = c.client
          · have h3 := h2 x hx c.seq (by rw [lookup_setLast]; simp [hxc])
            rw [hxc] at hn
            simp only [dupIn, hn, decide_eq_true_eq] at hd
            omega
          · exact h2 x hx n (by rw [lookup_setLast]; simp [hxc, hn])

theorem executed_nodup_ids (l : List Cmd) : ((execFilter [] l).map (fun c => (c.client, c.seq))).Nodup := by
  have := (executed_increasing [] l).1
  rw [List.nodup_iff_pairwise_ne, List.pairwise_map]
  refine this.imp ?_
  intro a b h e
  simp only [Prod.mk.injEq] at e
  have := h e.1
  omega

/-! Outcomes delivered to waiting clients. -/

/-- waiting channels are pairwise different, no channel received two outcomes, and a channel
still waiting has received none -/
def OneOutcome (s : CIO) : Prop :=
  (s.awaiting.map (·.2)).Nodup ∧ (s.outcomes.map (·.1)).Nodup ∧ ∀ p ∈ s.awaiting, p.2 ∉ s.outcomes.map (·.1)

/-- a success outcome is only ever delivered for a command that is in the executed list -/
def OkExecuted (s : CIO) : Prop :=
  ∀ o ∈ s.outcomes, o.2.2 = Outcome.ok → o.2.1 ∈ s.executed.map (fun c => (c.client, c.seq))

theorem lookup_mem_pair {β} (l : List ((Nat × Nat) × β)) (k : Nat × Nat) (v : β)
    (h : l.lookup k = some v) : (k, v) ∈ l := by
  induction l with
  | nil => simp at h
  | cons p ps ih =>
    obtain ⟨k', v'⟩ := p
    simp only [List.lookup_cons] at h
    split at h
    · rename_i hk; simp at hk h; subst hk; subst h; simp
    · exact List.mem_cons_of_mem _ (ih h)

theorem eq_of_nodup_map {α β} [DecidableEq β] (f : α → β) : ∀ (l : List α), (l.map f).Nodup → ∀ a ∈ l, ∀ b ∈ l, f a = f b → a = b := by
  intro l
  induction l with
  | nil => intro _ a ha; simp at ha
  | cons x xs ih =>
    intro hn a ha b hb hab
    simp only [List.map_cons, List.nodup_cons, List.mem_map, not_exists, not_and] at hn
    simp only [List.mem_cons] at ha hb
    rcases ha with rfl | ha <;> rcases hb with rfl | hb
    · rfl
    · exact absurd hab.symm (hn.1 b hb)
    · exact absurd hab (hn.1 a ha)
    · exact ih hn.2 a ha b hb hab

theorem complete_one (s : CIO) (id : Nat × Nat) (o : Outcome) (h : OneOutcome s) : OneOutcome (s.complete id o) := by
  unfold CIO.complete
  split
  · rename_i ch hl
    obtain ⟨h1, h2, h3⟩ := h
    have hm := lookup_mem_pair _ _ _ hl
    refine ⟨List.Nodup.sublist (List.Sublist.map _ List.filter_sublist) h1, ?_, ?_⟩
    · simp only [List.map_append, List.map_cons, List.map_nil]
      rw [List.nodup_append]
      exact ⟨h2, by simp, by intro a ha b hb; simp at hb; subst hb; intro e; subst e; exact h3 _ hm ha⟩
    · intro p hp
      have hp' := List.mem_filter.mp hp
      simp only [List.map_append, List.map_cons, List.map_nil, List.mem_append, List.mem_singleton]
      rintro (hx | hx)
      · exact h3 p hp'.1 hx
      · have : p = (id, ch) := eq_of_nodup_map (·.2) _ h1 p hp'.1 (id, ch) hm hx
        have hne : p.1 ≠ id := by simpa using hp'.2
        exact hne (by rw [this])
  · exact h

theorem complete_okexec (s : CIO) (id : Nat × Nat) (o : Outcome) (h : OkExecuted s)
    (hid : o = Outcome.ok → id ∈ s.executed.map (fun c => (c.client, c.seq))) : OkExecuted (s.complete id o) := by
  unfold CIO.complete
  split
  · intro x hx
    simp only [List.mem_append, List.mem_singleton] at hx
    rcases hx with hx | rfl
    · exact h x hx
    · exact hid
  · exact h

/-- a registration with a channel name that was not used before -/
def FreshReg (s : CIO) (ch : Nat) : Prop := ch ∉ s.awaiting.map (·.2) ∧ ch ∉ s.outcomes.map (·.1)

theorem register_one (s : CIO) (c : Cmd) (ch : Nat) (h : OneOutcome s) (hf : FreshReg s ch) : OneOutcome (s.register c ch) := by
  obtain ⟨h1, h2, h3⟩ := h
  refine ⟨?_, h2, ?_⟩
  · simp only [CIO.register, List.map_cons, List.nodup_cons]
    refine ⟨?_, List.Nodup.sublist (List.Sublist.map _ List.filter_sublist) h1⟩
    intro hm
    obtain ⟨p, hp, hpe⟩ := List.mem_map.mp hm
    exact hf.1 (List.mem_map.mpr ⟨p, (List.mem_filter.mp hp).1, hpe⟩)
  · intro p hp
    simp only [CIO.register, List.mem_cons] at hp
    rcases hp with rfl | hp
    · exact hf.2
    · exact h3 p (List.mem_filter.mp hp).1

theorem exec1_inv (s : CIO) (c : Cmd) (h : OneOutcome s ∧ OkExecuted s) :
    OneOutcome (s.exec1 c) ∧ OkExecuted (s.exec1 c) := by
  unfold CIO.exec1
  split
  · exact ⟨complete_one _ _ _ h.1, complete_okexec _ _ _ h.2 (by intro e; cases e)⟩
  · refine ⟨complete_one _ _ _ ?_, complete_okexec _ _ _ ?_ ?_⟩
    · exact h.1
    · intro o ho hok
      have := h.2 o ho hok
      simp only [List.map_append, List.mem_append]
      exact Or.inl this
    · intro _; simp

theorem step_inv (s : CIO) (op : CIOOp) (h : OneOutcome s ∧ OkExecuted s)
    (hf : ∀ c ch, op = .register c ch → FreshReg s ch) :
    OneOutcome (s.step op) ∧ OkExecuted (s.step op) := by
  cases op with
  | register c ch => exact ⟨register_one s c ch h.1 (hf c ch rfl), h.2⟩
  | exec b =>
    simp only [CIO.step, CIO.exec]
    induction b generalizing s with
    | nil => exact h
    | cons c cs ih => simp only [List.foldl_cons]; exact ih _ (exec1_inv s c h) (by intro _ _ e; cases e)
  | abort b =>
    simp only [CIO.step, CIO.abort]
    induction b generalizing s with
    | nil => exact h
    | cons c cs ih =>
      simp only [List.foldl_cons]
      exact ih _ ⟨complete_one _ _ _ h.1, complete_okexec _ _ _ h.2 (by intro e; cases e)⟩ (by intro _ _ e; cases e)

/-- operation sequences in which every `ExecCommand` call has its own reply channel -/
def FreshOps : CIO → List CIOOp → Prop
  | _, [] => True
  | s, op :: rest => (∀ c ch, op = .register c ch → FreshReg s ch) ∧ FreshOps (s.step op) rest

/-- **At most one outcome per waiting client, and success only after execution**: after any
operation sequence no reply channel has received two outcomes, and every success outcome is for a
command that this replica has executed. -/
theorem one_outcome (ops : List CIOOp) (hf : FreshOps {} ops) :
    let s := ops.foldl CIO.step {}
    (s.outcomes.map (·.1)).Nodup ∧
    ∀ o ∈ s.outcomes, o.2.2 = Outcome.ok → o.2.1 ∈ s.executed.map (fun c => (c.client, c.seq)) := by
  have gen : ∀ (ops : List CIOOp) (s : CIO), OneOutcome s ∧ OkExecuted s → FreshOps s ops →
      OneOutcome (ops.foldl CIO.step s) ∧ OkExecuted (ops.foldl CIO.step s) := by
    intro ops
    induction ops with
    | nil => intro s h _; exact h
    | cons op rest ih =>
      intro s h hfo
      simp only [List.foldl_cons]
      exact ih _ (step_inv s op h hfo.1) hfo.2
  have h0 : OneOutcome ({} : CIO) ∧ OkExecuted ({} : CIO) := by
    refine ⟨⟨by simp, by simp, by intro p hp; simp at hp⟩, by intro o ho; simp at ho⟩
  obtain ⟨h1, h2⟩ := gen ops {} h0 hf
  exact ⟨h1.2.1, h2⟩

/-- Non-vacuity: a command in two committed blocks is executed once; the second waiter is told so. -/
example :
    let c : Cmd := ⟨1, 1, "a"⟩
    let s := [CIOOp.register c 10, .exec [c], .register c 11, .exec [c, ⟨1, 2, "b"⟩]].foldl CIO.step {}
    s.executed.map (·.data) = ["a", "b"] ∧ s.outcomes.map (fun o => (o.1, o.2.2)) = [(10, Outcome.ok), (11, Outcome.alreadyExecuted)] := by
  decide

end HsVerif.Props.C06
