import HsVerif.Props.C05Pre
import HsVerif.Props.C05Rotate
/-!
C05, rotating leaders with a silent minority: the DERIVED clauses of Props/C05Pre.lean plugged into `commit_after_recovery_rot'`
(task S12f, item 3).  `RecPreLive'` is `RecPreLive` without `lastVoted ≤ v` and with `KnowsAll'` (no `(D.hq i).view = (D.hb i).view`);
`SyncPreRot'` is `SyncPreRot` without `committed` and without the view bound in `par`.  Both are restored from reachability.
-/
namespace HsVerif.Props.C05RotatePre
open HsVerif.Model HsVerif.Proofs HsVerif.Props.C01Sys HsVerif.Props.C01SysWF HsVerif.Props.C03
open HsVerif.SysSafety HsVerif.Props.C05Live HsVerif.Props.C05Cover HsVerif.Props.C05Chain HsVerif.Props.C05Pre
open HsVerif.Props.C05Rotate

/-- `RecPreLive` without `lastVoted ≤ v` and with `KnowsAll'` -/
structure RecPreLive' (k : Keys) (C : SysCfg) (D : RecData) (s0 : Nat → RState) (ℓ : Nat) (T0 : List (Nat × Atom)) : Prop where
  agg : C.agg = false
  scheme : C.scheme ≠ .bls12
  rules : C.rules ≠ .fast
  v0 : D.v ≠ 0
  nodup : C.honest.Nodup
  range : ∀ i ∈ C.honest, 1 ≤ i ∧ i ≤ C.n
  qh : (C.rcfg 0).cfg.quorum ≤ C.honest.length
  few : FewFaulty C
  two : 2 ≤ C.n
  leader : ∀ j ∈ C.honest, (C.rcfg j).leader (D.v + 1) = ℓ
  lmem : ℓ ∈ C.honest
  init : ∀ j ∈ C.honest, RColl C D (s0 j) j [] (s0 j) ∧ (s0 j).waitingVC = [] ∧
    KnowsAll' k C D j { s0 j with truth := T0 }
  mark : ∀ i ∈ C.honest, markWalk ((s0 ℓ).chain.fuel + 1) (s0 ℓ).chain.blocks (s0 ℓ).lastProposed (D.hb i) = true
  parents : ∀ j ∈ C.honest, ∀ i ∈ C.honest, Top C D i →
    ((D.hb i).qc.hash = "" ∨ ∃ gb, (s0 j).chain.blocks.lookup (D.hb i).qc.hash = some gb)

/-- `SyncPreRot` with `SyncPre'` in place of `SyncPre` -/
structure SyncPreRot' (C : SysCfg) (D : RecData) (s0 : Nat → RState) (N : Nat) : Prop where
  pre : SyncPre' C D s0 N
  mark : ∀ j ∈ C.honest, ∀ i ∈ C.honest, Top C D i →
    markWalk ((s0 j).chain.fuel + 1) (s0 j).chain.blocks (s0 j).lastProposed (D.hb i) = true

theorem recPreLive_weaken {k : Keys} {C : SysCfg} {D : RecData} {s0 : Nat → RState} {ℓ : Nat} {T0 : List (Nat × Atom)}
    (h : RecPreLive k C D s0 ℓ T0) : RecPreLive' k C D s0 ℓ T0 :=
  ⟨h.agg, h.scheme, h.rules, h.v0, h.nodup, h.range, h.qh, h.few, h.two, h.leader, h.lmem,
    fun j hj => ⟨(h.init j hj).1, (h.init j hj).2.1, knowsAll_weaken (h.init j hj).2.2.2⟩, h.mark, h.parents⟩

theorem syncPreRot_weaken {C : SysCfg} {D : RecData} {s0 : Nat → RState} {N : Nat} (h : SyncPreRot C D s0 N) :
    SyncPreRot' C D s0 N := ⟨syncPre_weaken h.pre, h.mark⟩

/-- **`RecPreLive` from `RecPreLive'` and reachability** -/
theorem recPreLive_of_reach (k : Keys) (C : SysCfg) (D : RecData) (s0 : Nat → RState) (ℓ : Nat) (σ : SysState)
    (T0 : List (Nat × Atom)) (hr : Reach k C σ) (hreps : ∀ j ∈ C.honest, σ.reps.lookup j = some (s0 j))
    (h : RecPreLive' k C D s0 ℓ T0) : RecPreLive k C D s0 ℓ T0 :=
  ⟨h.agg, h.scheme, h.rules, h.v0, h.nodup, h.range, h.qh, h.few, h.two, h.leader, h.lmem,
    fun j hj => ⟨(h.init j hj).1, (h.init j hj).2.1,
      recPre_lastVoted_of_reach k C D σ hr j (s0 j) (hreps j hj) (h.init j hj).1.view,
      knowsAll_of_reach k C D σ hr j (s0 j) (hreps j hj) T0 (h.init j hj).2.2⟩, h.mark, h.parents⟩

/-- `syncPre_par_view_of_reach` for `RecPreLive` (a quorum of participants instead of all ids) -/
theorem syncPre_par_view_of_reach_live (k : Keys) (C : SysCfg) (D : RecData) (s0 : Nat → RState) (ℓ : Nat) (σ : SysState)
    (blk : Hash → Block) (hk : KeysOK k) (hr : Reach k C σ) (hca : CA' σ blk)
    (hP : RecPreLive k C D s0 ℓ σ.truth) (hreps : ∀ j ∈ C.honest, σ.reps.lookup j = some (s0 j))
    (j : Nat) (hj : j ∈ C.honest) (i : Nat) (hi : i ∈ C.honest) (P : Block)
    (hl : (s0 j).chain.blocks.lookup (D.hb i).qc.hash = some P) : P.view < (D.hb i).view ∧ P.view < D.v := by
  have X := hP.ctx hk hr hca
  obtain ⟨hv, hb, he, hlt⟩ := (hP.init j hj).2.2.2.qc i hi
  have hs := hreps j hj
  have hPs := X.stored hs (show sget (s0 j) (D.hb i).qc.hash = some P from hl)
  have hgc := X.accepted_gc hs hv (show sget (s0 j) (D.hq i).hash = some (D.hb i) from hb)
  rcases hgc with hg | hc
  · exfalso
    apply hPs.2.2
    rw [hg]; rfl
  · have hf := X.cert hc
    have h1 : P.view < (D.hb i).view := by
      have := hf.lt
      rw [hf.par, ← hPs.1] at this
      exact this
    exact ⟨h1, by omega⟩

/-- **`SyncPreRot` from `SyncPreRot'`, `RecPreLive` and reachability** -/
theorem syncPreRot_of_reach (k : Keys) (C : SysCfg) (D : RecData) (s0 : Nat → RState) (ℓ : Nat) (σ : SysState)
    (blk : Hash → Block) (hk : KeysOK k) (hr : Reach k C σ) (hca : CA' σ blk)
    (hP : RecPreLive k C D s0 ℓ σ.truth) (hreps : ∀ j ∈ C.honest, σ.reps.lookup j = some (s0 j))
    (N : Nat) (h : SyncPreRot' C D s0 N) : SyncPreRot C D s0 N :=
  ⟨⟨h.pre.fetch, h.pre.wprop, h.pre.names,
    fun j hj i hi ht => by
      obtain ⟨P, hl⟩ := h.pre.par j hj i hi ht
      exact ⟨P, hl, Nat.le_of_lt (syncPre_par_view_of_reach_live k C D s0 ℓ σ blk hk hr hca hP hreps j hj i hi P hl).2⟩,
    fun j hj => syncPre_committed_of_reach k C D σ hr j (s0 j) (hreps j hj) (hP.init j hj).1.view,
    h.pre.small, h.pre.walk, h.pre.bound⟩, h.mark⟩

/-- **Commit after recovery, rotating leaders, silent minority, derived clauses removed**: `commit_after_recovery_rot'` with
`RecPreLive'` and `SyncPreRot'` — `lastVoted ≤ v`, `(D.hq i).view = (D.hb i).view`, `SyncPre.committed` and the view bound of
`SyncPre.par` are no longer assumed; the leader of view `v + 5` need not be a participant -/
theorem commit_after_recovery_rot'' (k : Keys) (C : SysCfg) (hC : RotCfg C) (D : RecData) (s0 : Nat → RState)
    (σ0 : SysState) (blk : Hash → Block) (hk : KeysOK k) (hr : Reach k C σ0) (hca : CA' σ0 blk)
    (hne12 : ldr C (D.v + 1) ≠ ldr C (D.v + 1 + 1))
    (hl2 : ldr C (D.v + 1 + 1) ∈ C.honest) (hl3 : ldr C (D.v + 1 + 2) ∈ C.honest) (hl4 : ldr C (D.v + 1 + 3) ∈ C.honest)
    (hP : RecPreLive' k C D s0 (ldr C (D.v + 1)) σ0.truth) (h0 : RecStart C s0 σ0.truth σ0)
    (msgs : List (Nat × Nat)) (hm : FullOrder C msgs) (N : Nat) (hY : SyncPreRot' C D s0 N)
    (ordP v1 p1 v2 p2 v3 p3 : List Nat) (hordP : OthersOrder C (ldr C (D.v + 1)) ordP)
    (hv1 : OthersOrder C (ldr C (D.v + 1 + 1)) v1) (hp1 : OthersOrder C (ldr C (D.v + 1 + 1)) p1)
    (hv2 : OthersOrder C (ldr C (D.v + 1 + 2)) v2) (hp2 : OthersOrder C (ldr C (D.v + 1 + 2)) p2)
    (hv3 : OthersOrder C (ldr C (D.v + 1 + 3)) v3) (hp3 : OthersOrder C (ldr C (D.v + 1 + 3)) p3) :
    ∃ (i : Nat) (b' : Block), i ∈ C.honest ∧ Top C D i ∧ b'.view = D.v + 1 ∧ b'.qc = D.hq i ∧
      b'.proposer = ldr C (D.v + 1) ∧
      ∀ j ∈ C.honest, ∃ s,
        (chainViewRot k C v3 p3 (chainViewRot k C v2 p2 (chainViewRot k C v1 p1
          (proposalRoundR k C ordP (recoveryRound k C D σ0 msgs))))).1.reps.lookup j = some s ∧
        s.committed = b' ∧ s.committed.view = D.v + 1 ∧ (s0 j).committed.view < s.committed.view := by
  have hP' := recPreLive_of_reach k C D s0 _ σ0 σ0.truth hr h0.reps hP
  exact commit_after_recovery_rot' k C hC D s0 σ0 blk hk hr hca hne12 hl2 hl3 hl4 hP' h0 msgs hm N
    (syncPreRot_of_reach k C D s0 _ σ0 blk hk hr hca hP' h0.reps N hY)
    ordP v1 p1 v2 p2 v3 p3 hordP hv1 hp1 hv2 hp2 hv3 hp3

/-- the weakened hypotheses hold of the silent-id run `sRun` (n = 5, id 5 silent): `commit_after_recovery_rot''` is not vacuous -/
theorem commit_after_recovery_rot''_nonvacuous :
    RecPreLive' exKeys sCfg sData sS0 (ldr sCfg (sData.v + 1)) sRun.1.truth ∧ SyncPreRot' sCfg sData sS0 1000 := by
  obtain ⟨_, _, _, _, _, _, _, hP, _, _, hY⟩ := commit_after_recovery_rot'_nonvacuous
  exact ⟨by rw [show ldr sCfg (sData.v + 1) = 1 from by decide]; exact recPreLive_weaken hP, syncPreRot_weaken hY⟩

end HsVerif.Props.C05RotatePre
