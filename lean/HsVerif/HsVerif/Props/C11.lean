import HsVerif.Proofs.Cache
/-! C11 — the signature cache never changes a verification verdict.  Property theorems only. -/
set_option linter.unusedVariables false
set_option linter.unusedSimpArgs false
namespace HsVerif.Props.C11
open HsVerif.Model

/-- operations whose signature values are well formed (bit-field sizes consistent, C19) and whose
`sign` entries are genuine outputs of the own `Sign` (they verify under the base) -/
def OpOK (T : Truth) (c : Cfg) : COp → Prop
  | .sign s m => s.WF ∧ verify T c s m = true
  | .verify (some s) _ => s.WF
  | .batchVerify (some s) _ => s.WF
  | _ => True

/-- every remembered key belongs to a (signature, message/batch) pair the base accepts -/
def KeyValid (T : Truth) (c : Cfg) (k : CKey) : Prop :=
  (∃ s m, s.WF ∧ k = keyVerify s m ∧ verify T c s m = true) ∨
  (∃ s b, s.WF ∧ k = keyBatch s b ∧ batchVerify T c s b = true)

def Good (T : Truth) (c : Cfg) (st : Lru) : Prop := ∀ k ∈ st.order, KeyValid T c k

/-- One step: the cached authority answers exactly like the uncached base, and keeps `Good`. -/
theorem step_transparent (T : Truth) (c : Cfg) (st : Lru) (op : COp) (hg : Good T c st) (ho : OpOK T c op) :
    (cachedStep T c st op).2 = baseOut T c op ∧ Good T c (cachedStep T c st op).1 := by
  cases op with
  | sign s m =>
    refine ⟨rfl, ?_⟩
    intro k hk
    rcases Lru.mem_insert _ _ _ hk with rfl | hk
    · exact Or.inl ⟨s, m, ho.1, rfl, ho.2⟩
    · exact hg k hk
  | combine l => exact ⟨rfl, hg⟩
  | verify s m =>
    cases s with
    | none => exact ⟨rfl, hg⟩
    | some s =>
      simp only [cachedStep, baseOut]
      cases hh : (st.check (keyVerify s m)).2
      · -- miss
        simp only [hh, Bool.false_eq_true, ↓reduceIte]
        cases hv : verify T c s m
        · simp only [Bool.false_eq_true, ↓reduceIte]; exact ⟨trivial, hg⟩
        · simp only [↓reduceIte, true_and]
          intro k hk
          rcases Lru.mem_insert _ _ _ hk with rfl | hk
          · exact Or.inl ⟨s, m, ho, rfl, hv⟩
          · exact hg k hk
      · -- hit: the key was validated for some pair with the same key
        simp only [hh, ↓reduceIte]
        have hmem := (Lru.check_hit st _).mp hh
        refine ⟨?_, fun k hk => hg k (Lru.mem_check _ _ _ hk)⟩
        rcases hg _ hmem with ⟨s0, m0, hw0, hk0, hv0⟩ | ⟨s0, b0, _, hk0, _⟩
        · rw [key_inj_verify T c s s0 m m0 ho hw0 hk0, hv0]
        · exact absurd hk0 (key_kinds_differ _ _ _ _)
  | batchVerify s b =>
    cases s with
    | none => exact ⟨rfl, hg⟩
    | some s =>
      simp only [cachedStep, baseOut]
      cases hh : (st.check (keyBatch s b)).2
      · simp only [hh, Bool.false_eq_true, ↓reduceIte]
        cases hv : batchVerify T c s b
        · simp only [Bool.false_eq_true, ↓reduceIte]; exact ⟨trivial, hg⟩
        · simp only [↓reduceIte, true_and]
          intro k hk
          rcases Lru.mem_insert _ _ _ hk with rfl | hk
          · exact Or.inr ⟨s, b, ho, rfl, hv⟩
          · exact hg k hk
      · simp only [hh, ↓reduceIte]
        have hmem := (Lru.check_hit st _).mp hh
        refine ⟨?_, fun k hk => hg k (Lru.mem_check _ _ _ hk)⟩
        rcases hg _ hmem with ⟨s0, m0, _, hk0, _⟩ | ⟨s0, b0, hw0, hk0, hv0⟩
        · exact absurd hk0.symm (key_kinds_differ _ _ _ _)
        · rw [key_inj_batch T c s s0 b b0 ho hw0 hk0, hv0]

/-- **Transparency**: for every capacity, every configuration/scheme, every ground truth and every
sequence of sign / verify / batch-verify / combine operations (including replays with altered
message, batch, view or signer labels — the operations are arbitrary values), the cached
authority returns exactly the verdicts of the uncached one. -/
theorem cache_transparent (T : Truth) (c : Cfg) (cap : Nat) (ops : List COp) (ho : ∀ op ∈ ops, OpOK T c op) :
    cachedRun T c ⟨cap, []⟩ ops = ops.map (baseOut T c) := by
  have gen : ∀ (ops : List COp) (st : Lru), Good T c st → (∀ op ∈ ops, OpOK T c op) →
      cachedRun T c st ops = ops.map (baseOut T c) := by
    intro ops
    induction ops with
    | nil => intro _ _ _; rfl
    | cons op ops ih =>
      intro st hg ho
      obtain ⟨h1, h2⟩ := step_transparent T c st op hg (ho op (by simp))
      simp only [cachedRun, List.map_cons]
      rw [h1, ih _ h2 (fun o h => ho o (by simp [h]))]
  exact gen ops ⟨cap, []⟩ (fun k hk => by simp at hk) ho

/-- A signature remembered as valid for one message is not accepted for another message, batch or
claimed signer set unless the base accepts that too (instances of key injectivity). -/
theorem remembered_only_for_same_verdict (T : Truth) (c : Cfg) (s s' : Sig) (m m' : Msg)
    (hw : s.WF) (hw' : s'.WF) (hk : keyVerify s m = keyVerify s' m') :
    verify T c s m = verify T c s' m' := key_inj_verify T c s s' m m' hw hw' hk

theorem remembered_batch_only_for_same_verdict (T : Truth) (c : Cfg) (s s' : Sig) (b b' : List (Nat × Msg))
    (hw : s.WF) (hw' : s'.WF) (hk : keyBatch s b = keyBatch s' b') :
    batchVerify T c s b = batchVerify T c s' b' := key_inj_batch T c s s' b b' hw hw' hk

/-- LRU bookkeeping: never more than `capacity` keys, no key twice; eviction only forgets. -/
theorem lru_inv (T : Truth) (c : Cfg) (st : Lru) (op : COp) (h : st.Inv) (hc : 1 ≤ st.cap) :
    (cachedStep T c st op).1.Inv ∧ (cachedStep T c st op).1.cap = st.cap := by
  cases op with
  | sign s m => exact ⟨Lru.inv_insert _ _ h hc, Lru.insert_cap _ _⟩
  | combine l => exact ⟨h, rfl⟩
  | verify s m =>
    cases s with
    | none => exact ⟨h, rfl⟩
    | some s =>
      simp only [cachedStep]
      split
      · exact ⟨Lru.inv_check _ _ h, Lru.check_cap _ _⟩
      · split
        · exact ⟨Lru.inv_insert _ _ h hc, Lru.insert_cap _ _⟩
        · exact ⟨h, rfl⟩
  | batchVerify s b =>
    cases s with
    | none => exact ⟨h, rfl⟩
    | some s =>
      simp only [cachedStep]
      split
      · exact ⟨Lru.inv_check _ _ h, Lru.check_cap _ _⟩
      · split
        · exact ⟨Lru.inv_insert _ _ h hc, Lru.insert_cap _ _⟩
        · exact ⟨h, rfl⟩

/-- Non-vacuity, and the attack of the unrepaired key: replica 1's own vote signature, remembered
by the cache, relabelled as participants {1,2,3}: rejected by the cached authority as by the base. -/
example :
    let T : Truth := fun _ => none
    let c : Cfg := ⟨4, .bls12⟩
    let own := blsSign 1 "blk:B1"
    let forged := Sig.bls [⟨1, "blk:B1"⟩] [] (Bitfield.fromBytes [7])
    cachedRun T c ⟨10, []⟩ [.sign own "blk:B1", .verify (some own) "blk:B1", .verify (some forged) "blk:B1"]
      = [true, true, false] := by decide

end HsVerif.Props.C11
