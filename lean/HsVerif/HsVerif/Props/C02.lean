import HsVerif.Proofs.Cert
import HsVerif.Proofs.CertComplete
/-! C02 — accepted certificates carry a quorum of distinct valid signatures.  Property theorems only.
(Soundness for arbitrary wire-shaped certificate values, i.e. including every structural mutation.) -/
set_option linter.unusedVariables false
namespace HsVerif.Props.C02
open HsVerif.Model

/-- All signatures inside wire-decoded / created certificates have a consistent bit-field size
(C19 `len_eq_card`); stated as an explicit, decidable-by-inspection well-formedness predicate. -/
def QC.WF (q : QC) : Prop := ∀ s, q.sig = some s → s.WF

/-- the store is content addressed (C13 `get_has_hash`) -/
def StoreOK (E : CertEnv) : Prop := ∀ h b, E.get h = some b → b.hash = h

/-- "replica `i` really produced a signature over `m`, and it is part of `s` attributed to `i`" -/
abbrev Signed (T : Truth) (s : Sig) (i : Nat) (m : Msg) : Prop := SigHas T s ⟨i, m⟩

/-- a quorum of distinct configured replicas each signed `m` inside `s` -/
def QuorumSigned (E : CertEnv) (s : Sig) (m : Msg) : Prop :=
  ∃ S : List Nat, S.Nodup ∧ E.cfg.quorum ≤ S.length ∧ ∀ i ∈ S, E.cfg.has i = true ∧ Signed E.T s i m

/-- QC soundness: an accepted QC is the genesis QC (genesis block, view 0), or names a stored block *of the claimed view*
whose bytes a quorum of distinct configured replicas signed. -/
theorem verifyQC_sound (E : CertEnv) (qc : QC) (hs : StoreOK E) (hw : QC.WF qc)
    (h : verifyQC E qc = true) :
    (qc.hash = genesisHash ∧ qc.view = 0) ∨
    ∃ b s, E.get qc.hash = some b ∧ b.hash = qc.hash ∧ b.view = qc.view ∧ qc.sig = some s ∧
      QuorumSigned E s (blkMsg qc.hash) := by
  unfold verifyQC at h
  split at h
  · rename_i hg; left; exact ⟨by simpa using hg, by simpa using h⟩
  · right
    split at h
    · simp at h
    · rename_i s hsig
      split at h
      · simp at h
      · rename_i hq
        split at h
        · simp at h
        · rename_i b hb
          split at h
          · simp at h
          · rename_i hview
            have hbh := hs _ _ hb
            obtain ⟨h1, h2, _, h4⟩ := verify_sound _ _ _ _ h (hw s hsig)
            refine ⟨b, s, hb, hbh, ?_, hsig, s.participants, h1, ?_, ?_⟩
            · simp at hview; exact hview.symm
            · rw [h2]; omega
            · intro i hi; rw [← hbh]; exact h4 i hi

/-- TC soundness: view 0, or a quorum of distinct configured replicas signed the timed-out view. -/
theorem verifyTC_sound (E : CertEnv) (tc : TC) (hw : ∀ s, tc.sig = some s → s.WF)
    (h : verifyTC E tc = true) :
    tc.view = 0 ∨ ∃ s, tc.sig = some s ∧ QuorumSigned E s (viewMsg tc.view) := by
  unfold verifyTC at h
  split at h
  · rename_i h0; left; simpa using h0
  · right
    split at h
    · simp at h
    · rename_i s hsig
      split at h
      · simp at h
      · rename_i hq
        obtain ⟨h1, h2, _, h4⟩ := verify_sound _ _ _ _ h (hw s hsig)
        exact ⟨s, hsig, s.participants, h1, by rw [h2]; omega, h4⟩

/-- AggQC soundness: a quorum of distinct configured replicas each signed *its own* timeout
message for the claimed view and the QC attested under its id; the reported high QC verifies, is
one of the attested QCs and has the highest view among the attested QCs that verify. -/
theorem verifyAggQC_sound (E : CertEnv) (a : AggQC) (high : QC)
    (hk : (a.qcs.map (·.1)).Nodup) (hw : ∀ s, a.sig = some s → s.WF)
    (h : verifyAggQC E a = .ok high) :
    (∃ (s : Sig) (S : List Nat), a.sig = some s ∧ S.Nodup ∧ E.cfg.quorum ≤ S.length ∧
      ∀ i ∈ S, E.cfg.has i = true ∧ ∃ q, (i, q) ∈ a.qcs ∧ Signed E.T s i (E.tmoMsg i a.view q)) ∧
    verifyQC E high = true ∧ high ∈ a.qcs.map (·.2) ∧
    ∀ q ∈ a.qcs.map (·.2), verifyQC E q = true → q.view ≤ high.view := by
  unfold verifyAggQC at h
  split at h
  · simp at h
  · rename_i s hsig
    split at h
    · simp at h
    · rename_i hq
      simp only at h
      split at h
      · simp at h
      · rename_i hb
        split at h
        · rename_i q hf
          simp only [VRes.ok.injEq] at h; subst h
          have hk' : ((a.qcs.map (fun p => (p.1, E.tmoMsg p.1 a.view p.2))).map (·.1)).Nodup := by
            simpa [List.map_map, Function.comp_def] using hk
          obtain ⟨S, hn, hl, hall⟩ := batchVerify_sound _ _ _ _ hk' (by simpa using hb) (hw s hsig)
          obtain ⟨f1, f2, f3⟩ := find_sorted_max _ _ (sortDesc_sorted _) _ hf
          refine ⟨⟨s, S, hsig, hn, by rw [hl]; omega, ?_⟩, f1, (mem_sortDesc _ _).mp f2, ?_⟩
          · intro i hi
            obtain ⟨hc, m, hm, hsg⟩ := hall i hi
            refine ⟨hc, ?_⟩
            simp only [List.mem_map] at hm
            obtain ⟨p, hp, hpe⟩ := hm
            simp only [Prod.mk.injEq] at hpe
            obtain ⟨rfl, rfl⟩ := hpe
            exact ⟨p.2, hp, hsg⟩
          · intro x hx hv
            exact f3 x ((mem_sortDesc _ _).mpr hx) hv
        · simp at h

/-- A proposal's certificates are accepted only if its block QC is sound (both paths of
`VerifyAnyQC`). -/
theorem verifyAnyQC_sound (E : CertEnv) (agg : Bool) (qc : QC) (a : Option AggQC)
    (h : verifyAnyQC E agg qc a = .ok ()) : verifyQC E qc = true := by
  unfold verifyAnyQC at h
  split at h
  · split at h
    · simp at h
    · split at h
      · simp at h
      · simp at h
      · split at h
        · simp at h
        · split at h
          · assumption
          · simp at h
  · split at h
    · assumption
    · simp at h

/-! Completeness (n ≥ 2): what `CreateQuorumCert` / `CreateTimeoutCert` assemble from the `Sign`
outputs of a quorum of distinct configured replicas verifies at every replica with the same
configuration and store.  (`f i` is the signature contributed by signer `i`.)

The corresponding statement for `CreateAggregateQC` (BatchVerify completeness) is not proved in
Lean; it is exercised by the correspondence (`create-agg` followed by `verify-agg`, judged by
the oracle) only. -/

theorem create_verify_QC (E : CertEnv) (b : Block) (signers : List Nat) (f : Nat → Sig)
    (hb : E.get b.hash = some b) (hg : b.hash ≠ genesisHash)
    (hn : signers.Nodup) (hh : ∀ i ∈ signers, E.cfg.has i = true) (h2 : 2 ≤ signers.length)
    (hq : E.cfg.quorum ≤ signers.length)
    (hs : ∀ i ∈ signers, HonestSig E.T E.cfg i (blkMsg b.hash) (f i)) :
    ∃ s, combine E.cfg (signers.map f) = .ok s ∧ verifyQC E ⟨some s, b.view, b.hash⟩ = true := by
  obtain ⟨s, h1, h2', h3, _⟩ := combine_honest_verifies E.T E.cfg (blkMsg b.hash) signers f hn hh h2 hs
  refine ⟨s, h1, ?_⟩
  unfold verifyQC
  have hlt : ¬ s.len < E.cfg.quorum := by omega
  simp [hg, hlt, hb, h2']

theorem create_verify_TC (E : CertEnv) (view : Nat) (signers : List Nat) (f : Nat → Sig)
    (hn : signers.Nodup) (hh : ∀ i ∈ signers, E.cfg.has i = true) (h2 : 2 ≤ signers.length)
    (hq : E.cfg.quorum ≤ signers.length)
    (hs : ∀ i ∈ signers, HonestSig E.T E.cfg i (viewMsg view) (f i)) :
    ∃ s, combine E.cfg (signers.map f) = .ok s ∧ verifyTC E ⟨some s, view⟩ = true := by
  obtain ⟨s, h1, h2', h3, _⟩ := combine_honest_verifies E.T E.cfg (viewMsg view) signers f hn hh h2 hs
  refine ⟨s, h1, ?_⟩
  unfold verifyTC
  have hlt : ¬ s.len < E.cfg.quorum := by omega
  simp [hlt, h2']

/-! Mutations listed in the property, as corollaries / concrete instances. -/

/-- Sub-quorum certificates are rejected, whatever they contain. -/
theorem subquorum_rejected (E : CertEnv) (s : Sig) (v : Nat) (h : Hash) (hh : h ≠ genesisHash)
    (hl : s.len < E.cfg.quorum) : verifyQC E ⟨some s, v, h⟩ = false := by
  unfold verifyQC; simp [hh, hl]

/-- A certificate whose claimed view differs from the view of the block it names is rejected. -/
theorem relabelled_view_rejected (E : CertEnv) (s : Option Sig) (v : Nat) (h : Hash) (b : Block)
    (hh : h ≠ genesisHash) (hb : E.get h = some b) (hv : b.view ≠ v) :
    verifyQC E ⟨s, v, h⟩ = false := by
  unfold verifyQC
  simp only [hh, beq_iff_eq, ↓reduceIte]
  cases s with
  | none => rfl
  | some s =>
    simp only [hb]
    split
    · rfl
    · have : (v != b.view) = true := by simp; exact fun e => hv e.symm
      simp [this]

/-- Non-vacuity and the repeated-signer mutation: with n = 4 (quorum 3), a genuine three-signer
ECDSA certificate verifies, while one signature repeated three times does not. -/
def exT : Truth := fun b => if b = 1 then some ⟨1, blkMsg "B1"⟩ else if b = 2 then some ⟨2, blkMsg "B1"⟩
  else if b = 3 then some ⟨3, blkMsg "B1"⟩ else none
def exE : CertEnv :=
  { T := exT, cfg := ⟨4, .ecdsa⟩, tmoMsg := fun _ _ _ => "",
    store := [("B1", { hash := "B1", parent := genesisHash, view := 1, proposer := 1, qc := genesisQC })] }

example : verifyQC exE ⟨some (.multi .ecdsa [⟨1, 1⟩, ⟨2, 2⟩, ⟨3, 3⟩]), 1, "B1"⟩ = true := by decide
example : verifyQC exE ⟨some (.multi .ecdsa [⟨1, 1⟩, ⟨1, 1⟩, ⟨1, 1⟩]), 1, "B1"⟩ = false := by decide
example : verifyQC exE ⟨some (.multi .ecdsa [⟨1, 1⟩, ⟨2, 2⟩, ⟨3, 3⟩]), 2, "B1"⟩ = false := by decide
example : verifyQC exE ⟨some (.multi .ecdsa [⟨1, 1⟩, ⟨2, 2⟩, ⟨4, 3⟩]), 1, "B1"⟩ = false := by decide

end HsVerif.Props.C02
