import HsVerif.Proofs.IDSet
import HsVerif.Gen.Bitfield
/-! C19 — participant sets behave as mathematical sets of replica IDs.  Property theorems only. -/
set_option linter.unusedVariables false
namespace HsVerif.Props.C19
open HsVerif.Model HsVerif.Model.Bitfield

/-- A bit-field state reachable through the public API: empty, rebuilt from any byte string, or
extended by `Add` with an id ≥ 1 (id 0 makes the Go code panic and is outside the property). -/
inductive Reach : Bitfield → Prop
  | empty : Reach Bitfield.empty
  | fromBytes (b : List Nat) : Reach (Bitfield.fromBytes b)
  | add (bf : Bitfield) (id : Nat) : Reach bf → 1 ≤ id → Reach (bf.add id)

/-- Size counts members, in every reachable state. -/
theorem len_eq_card (bf : Bitfield) (h : Reach bf) : bf.len = bf.ids.length := by
  induction h with
  | empty => exact inv_empty
  | fromBytes b => exact inv_fromBytes b
  | add bf id _ hid ih => exact inv_add bf id hid ih

/-- Iteration reports each member once, in ascending order (any state, reachable or not). -/
theorem iteration_ascending (bf : Bitfield) : bf.ids.Pairwise (· < ·) := idsOf_pairwise bf.data

theorem iteration_nodup (bf : Bitfield) : bf.ids.Nodup := idsOf_nodup bf.data

/-- `Add` is set insertion. -/
theorem add_is_insert (bf : Bitfield) (id j : Nat) (hid : 1 ≤ id) :
    j ∈ (bf.add id).ids ↔ j = id ∨ j ∈ bf.ids := mem_ids_add bf id j hid

/-- Membership query agrees with iteration. -/
theorem contains_iff_mem (bf : Bitfield) (id : Nat) (hid : 1 ≤ id) :
    bf.contains id = true ↔ id ∈ bf.ids := by
  rw [contains_eq bf id hid]; simp

/-- Full statement for insertion sequences: after inserting `xs` (all ≥ 1) into the empty set,
membership, size and iteration are exactly those of the ideal set of `xs`. -/
theorem insert_sequence (xs : List Nat) (hx : ∀ x ∈ xs, 1 ≤ x) :
    let bf := xs.foldl Bitfield.add Bitfield.empty
    (∀ j, j ∈ bf.ids ↔ j ∈ xs) ∧ bf.ids.Pairwise (· < ·) ∧ bf.len = bf.ids.length ∧
    (∀ j, 1 ≤ j → (bf.contains j = true ↔ j ∈ xs)) := by
  have gen : ∀ (xs : List Nat) (s : Bitfield), Reach s → (∀ x ∈ xs, 1 ≤ x) →
      Reach (xs.foldl Bitfield.add s) ∧ ∀ j, j ∈ (xs.foldl Bitfield.add s).ids ↔ j ∈ s.ids ∨ j ∈ xs := by
    intro xs
    induction xs with
    | nil => intro s hs _; simp [hs]
    | cons x xs ih =>
      intro s hs hx
      have hx1 : 1 ≤ x := hx x (by simp)
      obtain ⟨h1, h2⟩ := ih (s.add x) (Reach.add s x hs hx1) (fun y hy => hx y (by simp [hy]))
      refine ⟨h1, fun j => ?_⟩
      simp only [List.foldl_cons, List.mem_cons]
      rw [h2, mem_ids_add _ _ _ hx1]
      constructor
      · rintro ((h | h) | h)
        · exact Or.inr (Or.inl h)
        · exact Or.inl h
        · exact Or.inr (Or.inr h)
      · rintro (h | h | h)
        · exact Or.inl (Or.inr h)
        · exact Or.inl (Or.inl h)
        · exact Or.inr h
  obtain ⟨hr, hm⟩ := gen xs Bitfield.empty Reach.empty hx
  have hm' : ∀ j, j ∈ (xs.foldl Bitfield.add Bitfield.empty).ids ↔ j ∈ xs := by
    intro j; rw [hm]; simp [Bitfield.empty, ids, idsOf]
  refine ⟨hm', iteration_ascending _, len_eq_card _ hr, fun j hj => ?_⟩
  rw [contains_iff_mem _ _ hj, hm']

/-- Reconstruction from bytes: the byte form is kept, members are exactly the set bits
(bit k of the string ↔ id k+1), size is their number. -/
theorem fromBytes_bytes (b : List Nat) : (Bitfield.fromBytes b).bytes = b := rfl

theorem fromBytes_members (b : List Nat) (j : Nat) :
    j ∈ (Bitfield.fromBytes b).ids ↔ 1 ≤ j ∧ bitAt b (j - 1) = true := mem_idsOf b j

theorem fromBytes_len (b : List Nat) :
    (Bitfield.fromBytes b).len = ((List.range (8 * b.length)).filter (bitAt b)).length := by
  simp [Bitfield.fromBytes, idsOf]

/-- A reachable set rebuilt from its byte form equals the original. -/
theorem fromBytes_roundtrip (bf : Bitfield) (h : Reach bf) : Bitfield.fromBytes bf.bytes = bf := by
  have := len_eq_card bf h
  cases bf with
  | mk d l => simp [Bitfield.fromBytes, bytes, ids] at *; exact this.symm

/-- ECDSA/EdDSA signer lists: whatever is combined, a successful `Combine` yields a list without
repeated signers, namely the concatenation of its inputs — so `Len` = number of distinct signers. -/
theorem multi_combine_distinct (sigs : List (List Nat)) (r : List Nat)
    (h : multiCombine sigs = .ok r) : r.Nodup ∧ r = sigs.flatten := by
  unfold multiCombine at h
  split at h
  · simp at h
  · split at h
    · rename_i l hl
      have := multiCombineAux_spec sigs [] l hl (by simp)
      simp at h; subst h; simpa using this
    · simp at h

/-- ... and `Combine` succeeds exactly on ≥ 2 signatures whose signers are all distinct. -/
theorem multi_combine_ok_iff (sigs : List (List Nat)) (h2 : 2 ≤ sigs.length) :
    (∃ r, multiCombine sigs = .ok r) ↔ sigs.flatten.Nodup := by
  constructor
  · rintro ⟨r, h⟩
    obtain ⟨h1, h2⟩ := multi_combine_distinct sigs r h
    rw [← h2]; exact h1
  · intro hn
    refine ⟨sigs.flatten, ?_⟩
    unfold multiCombine
    have : ¬ sigs.length < 2 := by omega
    simp only [this, ↓reduceIte]
    have := multiCombineAux_complete sigs [] (by simpa using hn)
    simp at this
    simp [this]

/-- A signature produced by `Sign` has exactly one signer. -/
theorem sign_single (i : Nat) : [i].Nodup ∧ [i].length = 1 := by simp

/-- BLS aggregates: a successful `Combine` yields a bit-field whose size is the number of distinct
participants and whose members are exactly the union of the inputs' members. -/
theorem bls_combine_distinct (sigs : List Bitfield) (r : Bitfield) (h : blsCombine sigs = .ok r) :
    r.len = r.ids.length ∧ r.ids.Nodup ∧ ∀ j, j ∈ r.ids ↔ ∃ s ∈ sigs, j ∈ s.ids := by
  unfold blsCombine at h
  split at h
  · simp at h
  · split at h
    · rename_i b hb
      obtain ⟨h1, h2⟩ := blsCombineAux_spec sigs Bitfield.empty b hb inv_empty
      simp at h; subst h
      refine ⟨h1, iteration_nodup _, fun j => ?_⟩
      rw [h2]; simp [Bitfield.empty, ids, idsOf]
    · simp at h

/-- Bridging lemmas to the definitions regenerated from security/crypto/bitfield.go. -/
theorem gen_index (id : Nat) (hid : 1 ≤ id) :
    HsVerif.Gen.index (id : Int) = (((Bitfield.index id).1 : Int), ((Bitfield.index id).2 : Int)) := by
  unfold HsVerif.Gen.index Bitfield.index
  simp only
  have h : (id : Int) - 1 = ((id - 1 : Nat) : Int) := by omega
  rw [h, Int.tdiv_eq_ediv_of_nonneg (by omega), Int.tmod_eq_emod_of_nonneg (by omega)]
  simp

theorem gen_id (b i : Nat) : HsVerif.Gen.id (b : Int) (i : Int) = (Bitfield.idOf b i : Int) := by
  unfold HsVerif.Gen.id Bitfield.idOf; omega

/-- `id` inverts `index` (what ties `Add`/`Contains` to iteration). -/
theorem id_index (id : Nat) (hid : 1 ≤ id) :
    Bitfield.idOf (Bitfield.index id).1 (Bitfield.index id).2 = id := by
  unfold Bitfield.idOf Bitfield.index; simp only; omega

/-- Non-vacuity: ids across a byte boundary, inserted out of order and twice. -/
example : let bf := [9, 1, 8, 300, 9].foldl Bitfield.add Bitfield.empty
    bf.ids = [1, 8, 9, 300] ∧ bf.len = 4 ∧ bf.contains 8 = true ∧ bf.contains 7 = false := by decide

example : multiCombine [[3], [1, 2]] = .ok [3, 1, 2] ∧ multiCombine [[3], [1, 3]] = .error .overlap := by
  constructor <;> rfl

end HsVerif.Props.C19
