import HsVerif.Props.C01SysWF
import HsVerif.Proofs.SysSafety
/-! C01, system layer, final assembly — THE SYSTEM OF REPLICA MODELS IS SAFE (chained and simplified
HotStuff).  Property theorems only; helpers in Proofs/SysSafety.lean.

Setting, as in Props/C01SysWF.lean: any reachable state `σ` of the system of replica models
(Model/Sys.lean: the honest ids run `Model/Replica.lean` against ONE global signature table; the
adversary schedules, delivers arbitrary events, decides what block fetches return and signs with the
Byzantine keys), `KeysOK k`, `1 ≤ C.n`, at most `numFaulty n` of the ids `1..n` Byzantine
(`FewFaulty C`), ECDSA / EdDSA (`C.scheme ≠ .bls12`), chained or simplified HotStuff
(`C.rules ≠ .fast`), `blk : Hash → Block` naming the block of each hash, and content addressing

  `CA' σ blk := CA σ blk ∧ ∀ i s h b, σ.reps.lookup i = some s → s.chain.blocks.lookup h = some b → h ≠ ""`

(defined in Proofs/SysSafety.lean): `CA` of Proofs/SysDiscipline.lean plus ONE added conjunct — no
honest replica stores a block under the empty hash.  The genesis block of the model carries the
certificate hash `""`, chained HotStuff's commit rule follows no certificate with hash `""`, and the
replica-level lock invariants (`LInv`, `PairInv`) are exact about that: their clauses are vacuous
for votes whose certificate chain meets the hash `""`.  Hashes being a field of the modelled block, a
Byzantine proposal with hash `""` is stored like any other, and then the lock provably fails to
cover a grandparent (Props/C01LockInv.lean, `votes_lock_grandparent_counterexample`).  Real hashes
are 32 bytes and the genesis hash is `"G"`, so the conjunct is part of "the hash field is a hash",
like `CA`.

  1. `sys_linv_pair`, `sys_committed_by` — the replica invariants `LInv`, `PairInv` and the commit
     invariant `CommittedBy` hold of every replica of every reachable system state;
  2. `sys_lock` — the field `lock` of `Discipline (SysAbs C σ blk)`: exactly the hypothesis `lock` of
     `C01SysWF.sys_discipline_of_lock`;
  3. `sys_discipline`, `sys_safety` — `SysAbs C σ blk` keeps the voting discipline; two three-chains
     (commit conditions) are on one branch;
  4. `sys_committed_three_chain`, `sys_commits_agree` — the block an honest replica has committed is
     genesis or the tail of a three-chain of `SysAbs C σ blk`; the committed blocks of any two honest
     replicas are on one branch.
Everything is proved as stated in the task; nothing is partial. -/
namespace HsVerif.Props.C01Safety
open HsVerif.Model HsVerif.Props.C01Sys HsVerif.Props.C01SysWF HsVerif.SysSafety

/-! ### 1. the replica invariants, in every reachable system state -/

/-- **The lock invariant and the history invariant hold of every replica of every reachable system
state** (chained / simplified HotStuff). -/
theorem sys_linv_pair (k : Keys) (C : SysCfg) (hrl : C.rules ≠ .fast) (σ : SysState) (hr : Reach k C σ)
    (i : Nat) (s : RState) (hl : σ.reps.lookup i = some s) : LInv (C.rcfg i) s ∧ PairInv (C.rcfg i) s :=
  ⟨(reach_safe k C hrl σ hr i s hl).linv, (reach_safe k C hrl σ hr i s hl).pair⟩

/-- **The commit invariant**: in every reachable system state, the block a replica has committed is
the genesis block, or the block the commit rule returned for a block the replica voted for
(`CommitChain`: three certificate links down from it, consecutive views). -/
theorem sys_committed_by (k : Keys) (C : SysCfg) (hrl : C.rules ≠ .fast) (σ : SysState) (hr : Reach k C σ)
    (i : Nat) (s : RState) (hl : σ.reps.lookup i = some s) :
    s.committed = genesisBlock ∨ ∃ x id, GRec.vote x id ∈ s.ghost ∧ CommitChain (C.rcfg i) s x s.committed :=
  (reach_safe k C hrl σ hr i s hl).comm

/-- `CommittedBy` is that statement -/
example (c : RCfg) (s : RState) : CommittedBy c s ↔
    (s.committed = genesisBlock ∨ ∃ x id, GRec.vote x id ∈ s.ghost ∧ CommitChain c s x s.committed) := Iff.rfl

/-! ### 2. the lock rule -/

/-- **The lock rule of the abstract discipline**: an honest replica that voted for `x` and, in a
higher view, for `w` held a lock `l` — genesis or a certified block, of view at least that of `x`'s
grandparent and below `w`'s — such that `w`'s parent is above `l` or `w` extends `l`. -/
theorem sys_lock (k : Keys) (C : SysCfg) (hk : KeysOK k) (σ : SysState) (hr : Reach k C σ)
    (hn : 1 ≤ C.n) (hf : FewFaulty C) (hsch : C.scheme ≠ .bls12) (hrl : C.rules ≠ .fast)
    (blk : Hash → Block) (hca : CA' σ blk) :
    ∀ r x w, (SysAbs C σ blk).honest r → (SysAbs C σ blk).voted r x → (SysAbs C σ blk).voted r w →
      (SysAbs C σ blk).view x < (SysAbs C σ blk).view w →
      ∃ l, HsVerif.Safety.GC (SysAbs C σ blk) l ∧
        (SysAbs C σ blk).view ((SysAbs C σ blk).par ((SysAbs C σ blk).par x)) ≤ (SysAbs C σ blk).view l ∧
        (SysAbs C σ blk).view l < (SysAbs C σ blk).view w ∧
        ((SysAbs C σ blk).view l < (SysAbs C σ blk).view ((SysAbs C σ blk).par w) ∨
          HsVerif.Safety.Ext (SysAbs C σ blk) w l) :=
  Ctx.lock ⟨hk, hr, hn, hf, hsch, hrl, hca⟩

/-! ### 3. discipline and safety -/

/-- **The system of replica models keeps the voting discipline of the abstract safety argument.** -/
theorem sys_discipline (k : Keys) (C : SysCfg) (hk : KeysOK k) (σ : SysState) (hr : Reach k C σ)
    (hn : 1 ≤ C.n) (hf : FewFaulty C) (hsch : C.scheme ≠ .bls12) (hrl : C.rules ≠ .fast)
    (blk : Hash → Block) (hca : CA' σ blk) : HsVerif.Safety.Discipline (SysAbs C σ blk) :=
  sys_discipline_of_lock k C hk σ hr hn hf hsch blk hca.1 (sys_lock k C hk σ hr hn hf hsch hrl blk hca)

/-- **Safety of the system**: any two three-chains (commit conditions) of `SysAbs C σ blk` are on one
branch. -/
theorem sys_safety (k : Keys) (C : SysCfg) (hk : KeysOK k) (σ : SysState) (hr : Reach k C σ)
    (hn : 1 ≤ C.n) (hf : FewFaulty C) (hsch : C.scheme ≠ .bls12) (hrl : C.rules ≠ .fast)
    (blk : Hash → Block) (hca : CA' σ blk)
    {b b' b'' c c' c'' : (SysAbs C σ blk).Blk}
    (Tb : HsVerif.Safety.ThreeChain (S := SysAbs C σ blk) b b' b'')
    (Tc : HsVerif.Safety.ThreeChain (S := SysAbs C σ blk) c c' c'') :
    HsVerif.Safety.Ext (SysAbs C σ blk) b c ∨ HsVerif.Safety.Ext (SysAbs C σ blk) c b :=
  HsVerif.Safety.committed_on_one_branch (sys_discipline k C hk σ hr hn hf hsch hrl blk hca) Tb Tc

/-! ### 4. committed blocks -/

/-- **What a replica has committed satisfies the commit condition of the abstract argument**: the
committed block of an honest replica is genesis or the tail of a three-chain of `SysAbs C σ blk`
(directly linked by abstract parent links, consecutive views, head certified) — for chained HotStuff
(whose commit rule checks parent links) and for simplified HotStuff (which checks certificate links
only: for certified, hence honestly voted, blocks parent and certificate link coincide). -/
theorem sys_committed_three_chain (k : Keys) (C : SysCfg) (hk : KeysOK k) (σ : SysState) (hr : Reach k C σ)
    (hn : 1 ≤ C.n) (hf : FewFaulty C) (hsch : C.scheme ≠ .bls12) (hrl : C.rules ≠ .fast)
    (blk : Hash → Block) (hca : CA' σ blk) (i : Nat) (s : RState) (hl : σ.reps.lookup i = some s) :
    s.committed = genesisBlock ∨
      ∃ b' b'', HsVerif.Safety.ThreeChain (S := SysAbs C σ blk) s.committed b' b'' :=
  Ctx.committed ⟨hk, hr, hn, hf, hsch, hrl, hca⟩ hl

/-- **Committed blocks of any two honest replicas are on one branch.** -/
theorem sys_commits_agree (k : Keys) (C : SysCfg) (hk : KeysOK k) (σ : SysState) (hr : Reach k C σ)
    (hn : 1 ≤ C.n) (hf : FewFaulty C) (hsch : C.scheme ≠ .bls12) (hrl : C.rules ≠ .fast)
    (blk : Hash → Block) (hca : CA' σ blk) (i j : Nat) (si sj : RState)
    (hi : σ.reps.lookup i = some si) (hj : σ.reps.lookup j = some sj) :
    HsVerif.Safety.Ext (SysAbs C σ blk) si.committed sj.committed ∨
      HsVerif.Safety.Ext (SysAbs C σ blk) sj.committed si.committed :=
  Ctx.commits_agree ⟨hk, hr, hn, hf, hsch, hrl, hca⟩ hi hj

/-! ### non-vacuity

The run `wfState` of Props/C01SysWF.lean (ids 1, 2, 3 honest, id 4 Byzantine, round-robin leaders,
chained HotStuff, ECDSA; `P1` proposed by replica 2 and voted for by all, the votes delivered to
replica 3, which proposes and votes for `P2`) continued through views 2, 3 and 4:
  * `P2` is delivered to replicas 1 and 2, which vote;
  * the leader of view 3 is the BYZANTINE id 4: the adversary assembles the certificate for `P2` from
    the three honest signatures in the table and proposes `P3`, which all three replicas vote for
    (their lock moves to `P1`);
  * the three votes for `P3` are delivered to replica 1, the leader of view 4, which assembles the
    certificate, proposes `P4` and votes for it — checked against its lock `P1` — then locks on `P2`
    and COMMITS `P1`;
  * `P4` is delivered to replica 2, which votes, locks on `P2` and commits `P1`; replica 3 has
    committed nothing but genesis.
All hypotheses of `sys_lock` … `sys_commits_agree` hold together of the final state `sfState`
(`sys_safety_nonvacuous`).  The lock rule applied to replica 1's votes for `P3` and `P4` yields a
lock witness of view ≥ 1, i.e. NOT genesis; replica 1's committed block is `P1`, not genesis, so
`sys_committed_three_chain` yields a three-chain, and `sys_commits_agree` relates the commits of
replicas 1 and 3.  Runs evaluated by the kernel (`decide +kernel`). -/
section NonVacuity

def sfBlock3 : Block :=
  { hash := "P3", parent := "P2", view := 3, proposer := 4,
    qc := ⟨some (.multi .ecdsa [⟨3, 5⟩, ⟨1, 6⟩, ⟨2, 7⟩]), 2, "P2"⟩, cmds := [] }
def sfBlock4 : Block :=
  { hash := "P4", parent := "P3", view := 4, proposer := 1,
    qc := ⟨some (.multi .ecdsa [⟨1, 8⟩, ⟨2, 9⟩, ⟨3, 10⟩]), 3, "P3"⟩, cmds := ["101/1/c1"] }

/-- "the block with that hash" in the run -/
def sfBlk (h : Hash) : Block :=
  if h = "P1" then exBlock else if h = "P2" then wfBlock2 else if h = "P3" then sfBlock3
  else if h = "P4" then sfBlock4 else genesisBlock

def sfActs : List SysAct :=
  wfActs ++
  [.deliver 1 (.propose 3 wfBlock2 none), .deliver 2 (.propose 3 wfBlock2 none),
   .deliver 1 (.propose 4 sfBlock3 none), .deliver 2 (.propose 4 sfBlock3 none), .deliver 3 (.propose 4 sfBlock3 none),
   .deliver 1 (.vote 1 (some (.multi .ecdsa [⟨1, 8⟩])) "P3" false),
   .deliver 1 (.vote 2 (some (.multi .ecdsa [⟨2, 9⟩])) "P3" false),
   .deliver 1 (.vote 3 (some (.multi .ecdsa [⟨3, 10⟩])) "P3" false),
   .deliver 2 (.propose 1 sfBlock4 none)]
def sfState : SysState := sysRun exKeys exCfg sfActs

set_option maxRecDepth 100000 in
/-- the hypotheses of `sys_lock`, `sys_discipline`, `sys_safety`, `sys_committed_three_chain` and
`sys_commits_agree` hold together of `sfState`, in which honest replica 1 has voted for `P3` and `P4` -/
theorem sys_safety_nonvacuous : KeysOK exKeys ∧ Reach exKeys exCfg sfState ∧ 1 ≤ exCfg.n ∧ FewFaulty exCfg ∧
    exCfg.scheme ≠ .bls12 ∧ exCfg.rules ≠ .fast ∧ CA' sfState sfBlk ∧ (SysAbs exCfg sfState sfBlk).honest 1 ∧
    (SysAbs exCfg sfState sfBlk).voted 1 sfBlock3 ∧ (SysAbs exCfg sfState sfBlk).voted 1 sfBlock4 :=
  ⟨tmoMsgKey_ne_blkMsg, reach_run _ _ _, by decide, by unfold FewFaulty; decide, by decide, by decide,
    ca'_of_ca'Check _ _ (by decide +kernel), by decide,
    voted_of_votedCheck _ _ _ 1 sfBlock3 4 (by decide +kernel),
    voted_of_votedCheck _ _ _ 1 sfBlock4 1 (by decide +kernel)⟩

/-- what `sys_lock` yields for replica 1's votes for `P3` and `P4`: a lock witness that is NOT genesis
(its view is at least that of `P1`, the grandparent of `P3`) -/
example : ∃ l, HsVerif.Safety.GC (SysAbs exCfg sfState sfBlk) l ∧ 1 ≤ l.view ∧ l.view < 4 ∧
    (l.view < 3 ∨ HsVerif.Safety.Ext (SysAbs exCfg sfState sfBlk) sfBlock4 l) := by
  obtain ⟨hk, hr, hn, hf, hs, hrl, hca, hh, hv3, hv4⟩ := sys_safety_nonvacuous
  obtain ⟨l, h1, h2, h3, h4⟩ := sys_lock exKeys exCfg hk sfState hr hn hf hs hrl sfBlk hca 1 sfBlock3 sfBlock4 hh hv3 hv4
    (by decide)
  have hp : (SysAbs exCfg sfState sfBlk).par ((SysAbs exCfg sfState sfBlk).par sfBlock3) = exBlock := by decide
  have hp4 : (SysAbs exCfg sfState sfBlk).par sfBlock4 = sfBlock3 := by decide
  rw [hp] at h2
  rw [hp4] at h4
  exact ⟨l, h1, h2, h3, h4⟩

set_option maxRecDepth 100000 in
/-- replicas 1 and 2 have committed `P1`, replica 3 nothing but genesis -/
theorem sf_committed : (sfState.reps.lookup 1).map (·.committed) = some exBlock ∧
    (sfState.reps.lookup 2).map (·.committed) = some exBlock ∧
    (sfState.reps.lookup 3).map (·.committed) = some genesisBlock := by
  refine ⟨?_, ?_, ?_⟩ <;> decide +kernel

/-- what `sys_committed_three_chain` and `sys_commits_agree` yield in the run: `P1`, committed by
replica 1, is the tail of a three-chain of the abstract system, and it extends what replica 3 has
committed -/
example : (∃ b' b'', HsVerif.Safety.ThreeChain (S := SysAbs exCfg sfState sfBlk) exBlock b' b'') ∧
    HsVerif.Safety.Ext (SysAbs exCfg sfState sfBlk) exBlock genesisBlock := by
  obtain ⟨hk, hr, hn, hf, hs, hrl, hca, _⟩ := sys_safety_nonvacuous
  obtain ⟨c1, _, c3⟩ := sf_committed
  cases h1 : sfState.reps.lookup 1 with
  | none => rw [h1] at c1; cases c1
  | some s1 =>
    cases h3 : sfState.reps.lookup 3 with
    | none => rw [h3] at c3; cases c3
    | some s3 =>
      rw [h1] at c1; rw [h3] at c3
      have e1 : s1.committed = exBlock := by simpa using c1
      have e3 : s3.committed = genesisBlock := by simpa using c3
      constructor
      · rcases sys_committed_three_chain exKeys exCfg hk sfState hr hn hf hs hrl sfBlk hca 1 s1 h1 with h | h
        · rw [e1] at h; exact absurd h (by decide)
        · rw [e1] at h; exact h
      · rcases sys_commits_agree exKeys exCfg hk sfState hr hn hf hs hrl sfBlk hca 1 3 s1 s3 h1 h3 with h | h
        · rw [e1, e3] at h; exact h
        · rw [e1, e3] at h
          obtain ⟨n, hn'⟩ := h
          have : HsVerif.Safety.up (SysAbs exCfg sfState sfBlk) n genesisBlock = genesisBlock :=
            HsVerif.Safety.up_gen (sys_gen exCfg sfState sfBlk).2 n
          rw [this] at hn'
          exact absurd hn' (by decide)

/-! the same run under SIMPLIFIED HotStuff (`rules := .simple`): the same votes, locks and commits -/
def sfCfgS : SysCfg := { exCfg with rules := .simple }
def sfStateS : SysState := sysRun exKeys sfCfgS sfActs

set_option maxRecDepth 100000 in
theorem sys_safety_nonvacuous_simple : KeysOK exKeys ∧ Reach exKeys sfCfgS sfStateS ∧ 1 ≤ sfCfgS.n ∧ FewFaulty sfCfgS ∧
    sfCfgS.scheme ≠ .bls12 ∧ sfCfgS.rules = .simple ∧ CA' sfStateS sfBlk ∧ (SysAbs sfCfgS sfStateS sfBlk).honest 1 ∧
    (SysAbs sfCfgS sfStateS sfBlk).voted 1 sfBlock3 ∧ (SysAbs sfCfgS sfStateS sfBlk).voted 1 sfBlock4 ∧
    (sfStateS.reps.lookup 1).map (·.committed) = some exBlock :=
  ⟨tmoMsgKey_ne_blkMsg, reach_run _ _ _, by decide, by unfold FewFaulty; decide, by decide, rfl,
    ca'_of_ca'Check _ _ (by decide +kernel), by decide,
    voted_of_votedCheck _ _ _ 1 sfBlock3 4 (by decide +kernel),
    voted_of_votedCheck _ _ _ 1 sfBlock4 1 (by decide +kernel), by decide +kernel⟩

/-- simplified HotStuff: `P1`, committed by replica 1, is the tail of a three-chain of the abstract system -/
example : ∃ b' b'', HsVerif.Safety.ThreeChain (S := SysAbs sfCfgS sfStateS sfBlk) exBlock b' b'' := by
  obtain ⟨hk, hr, hn, hf, hs, hrl, hca, _, _, _, c1⟩ := sys_safety_nonvacuous_simple
  cases h1 : sfStateS.reps.lookup 1 with
  | none => rw [h1] at c1; cases c1
  | some s1 =>
    rw [h1] at c1
    have e1 : s1.committed = exBlock := by simpa using c1
    rcases sys_committed_three_chain exKeys sfCfgS hk sfStateS hr hn hf hs (by rw [hrl]; decide) sfBlk hca 1 s1 h1 with h | h
    · rw [e1] at h; exact absurd h (by decide)
    · rw [e1] at h; exact h

end NonVacuity

end HsVerif.Props.C01Safety
