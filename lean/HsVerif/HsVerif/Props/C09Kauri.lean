import HsVerif.Proofs.Kauri
/-! C09, tree aggregation — a node of the Kauri aggregation tree forms a quorum certificate only
from a quorum of distinct valid votes for the block, and everything it emits verifies.
Property theorems only (helper lemmas: Proofs/Kauri.lean; model: Model/Kauri.lean).

The theorems hold for EVERY sequence of operations of one node (`begin` = own vote for the block
of a view, `contribution` = a `kauripb.Contribution` from anybody, carrying anything, with any
answer of the block store, `timerExpired` = the wait timer of any view, fired at any moment and any
number of times), for all n, all trees, all three signature schemes.  The only hypothesis is the
one of the property itself: the node's own votes verify (`OwnOK`: what `CreatePartialCert` returns).

The model contains two repairs (the code before them is `kStepOrig`, see the counterexamples):
* `fix: Kauri sends nothing to the parent when it holds no aggregate` — `onWaitTimerExpired` handed
  `k.aggContrib` to `SendContributionToParent` also when it was nil (a second timer event of the
  same view, or a timer after a flush): `orig_nil_aggregate_counterexample`;
* `fix: Kauri checks the quorum also for the first contribution after a reset` —
  `mergeContribution` returned before the quorum test when nothing was held, so a contribution that
  carries a quorum by itself produced no certificate: `orig_missed_qc_counterexample`.

Completeness has limits that are part of Kauri's design and are stated, not hidden:
a contribution for a view the node has not begun yet is dropped (`early_contribution_dropped_counterexample`);
the wait timer flushes the aggregate, own vote included, and later contributions start a new one
(`timer_flush_restarts`); `IsSubSet(tree.SubTree(), senders)` compares ALL replicas below the node
with the ids of the DIRECT senders, so a node with grandchildren never sends early and always
waits for its timer (`subtree_complete_sent_once` needs every sub-tree replica among the senders). -/
set_option linter.unusedVariables false
namespace HsVerif.Props.C09Kauri
open HsVerif.Model

/-- **Combining two verifying signatures with disjoint signers verifies** (ECDSA, EdDSA, BLS): the
combination exists, verifies for the same message, and its participants are exactly those of the
two parts.  (`WF`: the cached bit-field length equals its cardinality — true of every decoded or
created signature.) -/
theorem combine_disjoint_verifies (T : Truth) (c : Cfg) (m : Msg) (a b : Sig)
    (ha : verify T c a m = true) (hb : verify T c b m = true) (hwa : a.WF) (hwb : b.WF)
    (hd : ∀ i ∈ a.participants, i ∉ b.participants) :
    ∃ s, combine c [a, b] = .ok s ∧ verify T c s m = true ∧ s.WF ∧
      s.participants.Perm (a.participants ++ b.participants) ∧ s.len = a.len + b.len :=
  combine_two_verifies T c m a b ha hb hwa hwb hd

/-- **(a) Invariant.**  After any sequence of operations in which the own votes verify, the held
aggregate verifies for the bytes of the node's block, and its participants are pairwise distinct
(and as many as `Participants().Len()` says). -/
theorem held_aggregate_verifies (T : Truth) (c : KCfg) (ops : List KOp)
    (hown : ∀ op ∈ ops, OwnOK T c op) :
    ∀ sg, (kRun T c {} ops).1.aggContrib = some sg →
      verify T c.cfg sg (blkMsg (kRun T c {} ops).1.blockHash) = true ∧
      sg.participants.Nodup ∧ sg.participants.length = sg.len := by
  intro sg h
  have hk := run_inv T c ops {} (kinv_init T c) hown sg h
  exact ⟨hk.1, sigOK_nodup T c _ sg hk⟩

/-- **(b) Everything emitted verifies.**  Take any sequence of operations and one more operation
(own votes verify).  Whatever that operation sends to the parent is a signature (never nil) that
verifies for the bytes of the node's block, under the node's view, with pairwise distinct
participants. -/
theorem sent_aggregate_verifies (T : Truth) (c : KCfg) (ops : List KOp) (op : KOp)
    (hown : ∀ o ∈ ops ++ [op], OwnOK T c o) :
    let s := (kRun T c {} ops).1
    ∀ v sg, KEffect.sendToParent v sg ∈ (kStep T c s op).2 →
      v = (kStep T c s op).1.currentView ∧
      ∃ a, sg = some a ∧ verify T c.cfg a (blkMsg (kStep T c s op).1.blockHash) = true ∧ a.participants.Nodup := by
  intro s v sg he
  have hinv := run_inv T c ops {} (kinv_init T c) (fun o ho => hown o (by simp [ho]))
  obtain ⟨h1, a, h2, h3⟩ := (step_ok T c s op hinv (hown op (by simp))).2 _ he
  exact ⟨h1, a, h2, h3.1, (sigOK_nodup T c _ a h3).1⟩

/-- **(b) A certificate only from a quorum.**  Every QC the operation emits is for the node's view
and block, verifies for the block's bytes, and has at least `QuorumSize()` participants, pairwise
distinct. -/
theorem qc_verifies_and_has_quorum (T : Truth) (c : KCfg) (ops : List KOp) (op : KOp)
    (hown : ∀ o ∈ ops ++ [op], OwnOK T c o) :
    let s := (kRun T c {} ops).1
    ∀ a v h, KEffect.newViewQC a v h ∈ (kStep T c s op).2 →
      v = (kStep T c s op).1.currentView ∧ h = (kStep T c s op).1.blockHash ∧
      verify T c.cfg a (blkMsg h) = true ∧ a.participants.Nodup ∧ c.cfg.quorum ≤ a.participants.length := by
  intro s a v h he
  have hinv := run_inv T c ops {} (kinv_init T c) (fun o ho => hown o (by simp [ho]))
  obtain ⟨h1, h2, h3, h4⟩ := (step_ok T c s op hinv (hown op (by simp))).2 _ he
  have := sigOK_nodup T c _ a h3
  exact ⟨h1, h2, h3.1, this.1, by rw [this.2]; exact h4⟩

/-- **(c) Hostile contributions change nothing.**  In any state: a contribution for another view,
one arriving while the block is not in the store, one without signature, one that does not verify
for the block's bytes (forged, wrong block, unknown or repeated signer, wrong scheme), or one that
shares a participant with the held aggregate (duplicate, overlapping multi-signer) leaves the
state exactly as it was and emits nothing. -/
theorem rejected_contribution_changes_nothing (T : Truth) (c : KCfg) (s : KState) (v id : Nat)
    (sg : Option Sig) (known : Bool)
    (h : v ≠ s.currentView ∨ known = false ∨ sg = none ∨
      (∃ g, sg = some g ∧ verify T c.cfg g.fromWire (blkMsg s.blockHash) = false) ∨
      (∃ g agg i, sg = some g ∧ s.aggContrib = some agg ∧ i ∈ g.participants ∧ i ∈ agg.participants)) :
    kStep T c s (.contribution v id sg known) = (s, []) :=
  rejected_no_change T c s v id sg known h

/-- **(d) Completeness for a covered sub-tree.**  A node with children begins a view with a
verifying own vote (from any state); then contributions arrive whose sender ids are the sub-tree
replicas in ANY order, each verifying for the block, pairwise disjoint and disjoint from the own
vote, the block being in the store.  Then all of them are merged (the held aggregate verifies and
its participants are exactly the own ones and all the contributed ones), and the aggregate is sent
to the parent exactly once — the complete one, at the last contribution. -/
theorem subtree_complete_sent_once (T : Truth) (c : KCfg) (s0 : KState) (v : Nat) (h : Hash) (own : Sig)
    (cs : List (Nat × Sig)) (hch : c.children ≠ []) (hcs : cs ≠ [])
    (hown : verify T c.cfg own (blkMsg h) = true ∧ own.WF)
    (hids : (cs.map (·.1)).Perm c.subtree) (hnd : c.subtree.Nodup)
    (hvalid : ∀ p ∈ cs, verify T c.cfg p.2.fromWire (blkMsg h) = true)
    (hdisj : (own.participants :: cs.map (·.2.participants)).Pairwise (fun a b => ∀ i ∈ a, i ∉ b)) :
    ∃ agg,
      (kRun T c s0 (.begin v h own :: cs.map (contribOp v))).1.aggContrib = some agg ∧
      verify T c.cfg agg (blkMsg h) = true ∧
      agg.participants.Perm (own.participants ++ cs.flatMap (·.2.participants)) ∧
      (kRun T c s0 (.begin v h own :: cs.map (contribOp v))).1.aggSent = true ∧
      (kRun T c s0 (.begin v h own :: cs.map (contribOp v))).1.senders = cs.map (·.1) ∧
      (kRun T c s0 (.begin v h own :: cs.map (contribOp v))).2.filter KEffect.isSend =
        [.sendToParent v (some agg)] := by
  have hne : (!c.children.isEmpty) = true := by
    cases hc : c.children with
    | nil => exact absurd hc hch
    | cons _ _ => rfl
  have hb : kStep T c s0 (.begin v h own) =
      ({ s0.reset with blockHash := h, currentView := v, aggContrib := some own }, [.sendProposalToChildren]) := by
    simp only [kStep, kBegin, hne, ↓reduceIte]
  obtain ⟨agg, hok, hperm, hst, hfx⟩ := run_contribs T c v h cs (hids.nodup_iff.mpr hnd)
    (fun x => (hids.mem_iff).symm) hvalid cs [] { s0.reset with blockHash := h, currentView := v, aggContrib := some own } own
    rfl hcs rfl rfl rfl rfl rfl hown hdisj
  refine ⟨agg, ?_, hok.1, hperm, ?_, ?_, ?_⟩
  · rw [kRun_cons, hb]; simp only; rw [hst]
  · rw [kRun_cons, hb]; simp only; rw [hst]
  · rw [kRun_cons, hb]; simp only; rw [hst]
  · rw [kRun_cons, hb]; simp only [List.filter_append]; rw [hfx]; rfl

/-! ### The code before the fixes, and the limits of completeness -/

/-- BLS example: n = 4 (quorum 3), node 1 with children 2, 3 and sub-tree 2, 3, 4 -/
def exCfg : KCfg := { cfg := ⟨4, .bls12⟩, id := 1, children := [2, 3], subtree := [2, 3, 4] }
def exT : Truth := fun _ => none
def exVote (i : Nat) : Sig := blsSign i (blkMsg "B")
def exAgg (l : List Nat) : Sig :=
  .bls (l.map fun i => ⟨i, blkMsg "B"⟩) [] (l.foldl Bitfield.add Bitfield.empty)

/- Full statement (false of the code before the fix, true of the repaired model by
`sent_aggregate_verifies`): whatever is sent to the parent is a signature that verifies.
Before the fix the second timer event of a view sent a nil aggregate: -/
theorem orig_nil_aggregate_counterexample :
    (kStepOrig exT exCfg
        (kStepOrig exT exCfg (kBegin exCfg {} 1 "B" (exVote 1)).1 (.timerExpired 1)).1 (.timerExpired 1)).2
      = [.sendToParent 1 none] := by decide

/- Full statement (false of the code before the fix): a verifying contribution that is merged and
brings the held aggregate to the quorum produces a QC.  Before the fix the first contribution after
a timer flush was stored without the quorum test; the repaired step emits the certificate: -/
theorem orig_missed_qc_counterexample :
    let s1 := (kBegin exCfg {} 1 "B" (exVote 1)).1
    let s2 := (kStepOrig exT exCfg s1 (.timerExpired 1)).1
    verify exT exCfg.cfg (exAgg [2, 3, 4]) (blkMsg "B") = true ∧ exCfg.cfg.quorum ≤ (exAgg [2, 3, 4]).len ∧
    (kStepOrig exT exCfg s2 (.contribution 1 2 (some (exAgg [2, 3, 4])) true)).2 = [] ∧
    (kStep exT exCfg s2 (.contribution 1 2 (some (exAgg [2, 3, 4])) true)).2 =
      [.newViewQC (exAgg [2, 3, 4]).fromWire 1 "B"] := by decide

/- Full completeness ("valid votes of a quorum of distinct replicas have arrived ⇒ certificate")
is false of Kauri by design: a contribution that arrives before the node has begun its view is
dropped, not kept.  Here the votes of 2, 3 and 4 arrive first; after `begin` only the own vote is
held and no certificate was formed (unconditional statement kept as this comment; the conditional
one is `subtree_complete_sent_once`). -/
theorem early_contribution_dropped_counterexample :
    (kRun exT exCfg {} [.contribution 1 2 (some (exAgg [2, 4])) true, .contribution 1 3 (some (exVote 3)) true,
        .begin 1 "B" (exVote 1)]) =
      ({ aggContrib := some (exVote 1), aggSent := false, blockHash := "B", currentView := 1, senders := [] },
       [.sendProposalToChildren]) := by decide

/-- The wait timer flushes: what is held (own vote included) goes to the parent once, and the node
restarts with nothing held, in the same view. -/
theorem timer_flush_restarts (s : KState) (a : Sig) (h1 : s.aggSent = false) (h2 : s.aggContrib = some a) :
    onTimer s s.currentView =
      ({ s with aggContrib := none, senders := [], aggSent := false }, [.sendToParent s.currentView (some a)]) := by
  simp [onTimer, h1, h2, KState.reset]

/-! ### Non-vacuity: the hypotheses are satisfiable and the interesting branches are reached -/

/-- all three children's contributions arrive (in the order 3, 2): certificate at the quorum, one
aggregate to the parent at the end -/
example : (kRun exT exCfg {} [.begin 1 "B" (exVote 1), .contribution 1 3 (some (exVote 3)) true,
      .contribution 1 4 (some (exVote 4)) true, .contribution 1 2 (some (exVote 2)) true]).2 =
    [.sendProposalToChildren,
     .newViewQC (exAgg [4, 3, 1]) 1 "B",
     .newViewQC (exAgg [2, 4, 3, 1]) 1 "B",
     .sendToParent 1 (some (exAgg [2, 4, 3, 1]))] := by decide

example : OwnOK exT exCfg (.begin 1 "B" (exVote 1)) := by
  show verify exT exCfg.cfg (exVote 1) (blkMsg "B") = true ∧ (exVote 1).WF
  exact ⟨by decide, by show (Bitfield.empty.add 1).len = (Bitfield.empty.add 1).ids.length; decide⟩

/-- a duplicate, a vote for another block and a stale-view vote change nothing -/
example : (kRun exT exCfg {} [.begin 1 "B" (exVote 1), .contribution 1 3 (some (exVote 3)) true,
      .contribution 1 3 (some (exVote 3)) true, .contribution 1 2 (some (blsSign 2 (blkMsg "X"))) true,
      .contribution 0 2 (some (exVote 2)) true, .contribution 1 2 (some (exVote 2)) false]).1 =
    (kRun exT exCfg {} [.begin 1 "B" (exVote 1), .contribution 1 3 (some (exVote 3)) true]).1 := by decide

end HsVerif.Props.C09Kauri
