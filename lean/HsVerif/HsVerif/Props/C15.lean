import HsVerif.Proofs.CmdCache
import HsVerif.Proofs.CmdCacheIdeal
/-!
C15 — command batching is FIFO, full-sized and duplicate-free.  Property theorems only.

Vocabulary (see `Model/CmdCache.lean`): `run (Cache.new bs) {} ops` executes an arbitrary list of
operations — `add`, `proposed`, `get` (live context), `getc` (cancelled context, either choice of
the `select`), `body` (the locked part of `Get` alone, as a concurrent getter executes it) — on a
fresh cache with batch size `bs` and returns the final cache, the observable history
(`added`, `marked`, `handed`: the arguments of all `Add` calls, of all `Proposed` calls and the
contents of all returned batches, in call order) and the list of results.

`pending h` is computed from the history only: everything added, minus what is at or below a
sequence number marked for its client (or 0), minus what was handed out, in arrival order.

The hypothesis `h.added.Nodup` says that every `Add` call carries its own identity (the drivers
number the calls in the payload); it is what "handed out at most once" is about.  The same
`(client, sequence number)` submitted twice before it is marked is two accepted commands.
-/
set_option linter.unusedVariables false
namespace HsVerif.Props.C15
open HsVerif.Model.CmdCache HsVerif.Spec.BatchQueue

/-! ## One caller at a time, every operation list, every batch size -/

/-- Full batches only (any batch size, also 0; no hypothesis). -/
theorem batches_full (bs : Nat) (ops : List Op) (b : List Cmd)
    (hb : Ret.batch b ∈ (run (Cache.new bs) {} ops).2.2) : b.length = bs := by
  obtain ⟨pre, op, post, _, hs⟩ := run_mem_ret ops _ _ _ hb
  have := (seqStep_batch _ op b hs).1
  rw [this, run_bs]; rfl

/-- THE property for a request: after any operations `pre`, a `Get` returns exactly the `bs`
oldest pending commands if there are that many, and otherwise blocks (live context) / ends with
the context's error (cancelled context); the locked body alone behaves the same.  In particular a
request returns a batch **iff** enough fresh commands are present. -/
theorem get_spec (bs : Nat) (h1 : 1 ≤ bs) (pre : List Op)
    (hn : (run (Cache.new bs) {} pre).2.1.added.Nodup) :
    let s := (run (Cache.new bs) {} pre).1
    let P := pending (run (Cache.new bs) {} pre).2.1
    (seqStep s .get).2 = (if bs ≤ P.length then .batch (P.take bs) else .blocked) ∧
    (seqStep s (.getc true)).2 = (if bs ≤ P.length then .batch (P.take bs) else .cancelled) ∧
    (seqStep s (.getc false)).2 = .cancelled ∧
    (seqStep s .body).2 = (if bs ≤ P.length then .batch (P.take bs) else .again) := by
  have i := run_inv bs pre (Cache.new bs) {} ⟨InvS.init bs, ReadyInv.init bs h1⟩ hn
  exact getter_ret i hn

/-- Whatever operation returns a batch, at whatever position of a run (also with batch size 0,
also the bare locked body in any state of the token): the batch is the `bs` oldest pending
commands. -/
theorem batch_is_oldest_pending (bs : Nat) (pre : List Op) (op : Op) (b : List Cmd)
    (hn : (run (Cache.new bs) {} pre).2.1.added.Nodup)
    (hb : (seqStep (run (Cache.new bs) {} pre).1 op).2 = .batch b) :
    bs ≤ (pending (run (Cache.new bs) {} pre).2.1).length ∧
    b = (pending (run (Cache.new bs) {} pre).2.1).take bs := by
  -- the wake-up half of the invariant is not needed; run the safety half alone
  have key : ∀ (ops : List Op) (s : Cache) (h : Hist), InvS bs s h → (run s h ops).2.1.added.Nodup →
      InvS bs (run s h ops).1 (run s h ops).2.1 := by
    intro ops
    induction ops with
    | nil => intro s h i _; simpa [run] using i
    | cons o os ih =>
      intro s h i hn
      simp only [run] at hn ⊢
      apply ih _ _ _ hn
      obtain ⟨X, hX⟩ := run_added os (seqStep s o).1 (h.push o (seqStep s o).2)
      rw [hX] at hn
      have hn1 : (h.push o (seqStep s o).2).added.Nodup := List.Nodup.sublist (List.sublist_append_left _ _) hn
      have hn0 := nodup_of_push hn1
      -- one step of the safety invariant, ignoring `ready`
      cases o with
      | add c => exact i.add c hn1
      | proposed l => exact i.proposed l
      | get =>
        by_cases hr : s.ready = true
        · rcases getLocked_cases (i.setReady false) hn0 with ⟨_, s', hg, hi, _⟩ | ⟨_, hg⟩
          · simp only [seqStep, hr, ↓reduceIte, hg]; exact hi
          · simp only [seqStep, hr, ↓reduceIte, hg]; exact i.setReady false
        · simp only [seqStep, hr]; exact i
      | getc t =>
        by_cases hr : (s.ready && t) = true
        · rcases getLocked_cases (i.setReady false) hn0 with ⟨_, s', hg, hi, _⟩ | ⟨_, hg⟩
          · simp only [seqStep, hr, ↓reduceIte, hg]; exact hi
          · simp only [seqStep, hr, ↓reduceIte, hg]; exact i.setReady false
        · simp only [seqStep, hr]; exact i
      | body =>
        rcases getLocked_cases i hn0 with ⟨_, s', hg, hi, _⟩ | ⟨_, hg⟩
        · simp only [seqStep, hg]; exact hi
        · simp only [seqStep, hg]; exact i
  exact batch_ret (key pre _ _ (InvS.init bs) hn) hn op b hb

/-- Hand-outs follow arrival order across the whole run and nothing is handed out twice: the
concatenation of all returned batches is a subsequence of the sequence of `Add` calls. -/
theorem handed_in_arrival_order_once (bs : Nat) (h1 : 1 ≤ bs) (ops : List Op)
    (hn : (run (Cache.new bs) {} ops).2.1.added.Nodup) :
    batchesOf (run (Cache.new bs) {} ops).2.2 = (run (Cache.new bs) {} ops).2.1.handed ∧
    (run (Cache.new bs) {} ops).2.1.handed.Sublist (run (Cache.new bs) {} ops).2.1.added ∧
    (run (Cache.new bs) {} ops).2.1.handed.Nodup := by
  have i := run_inv bs ops (Cache.new bs) {} ⟨InvS.init bs, ReadyInv.init bs h1⟩ hn
  have hs := i.1.handed_sublist
  refine ⟨?_, hs, List.Nodup.sublist hs hn⟩
  rw [run_handed]; simp

/-- Nothing at or below a marked sequence number is ever handed out (no hypothesis on identities,
any batch size): every command of a batch returned after `pre` is above every sequence number
that any earlier `Proposed` call carried for its client, and above 0. -/
theorem never_stale (bs : Nat) (pre : List Op) (op : Op) (b : List Cmd)
    (hb : (seqStep (run (Cache.new bs) {} pre).1 op).2 = .batch b) :
    ∀ c ∈ b, 0 < c.seq ∧ ∀ p ∈ (run (Cache.new bs) {} pre).2.1.marked, p.client = c.client → p.seq < c.seq := by
  intro c hc
  have hf := (seqStep_batch _ op b hb).2 c hc
  rw [run_marksInv pre _ _ (MarksInv.init bs) c] at hf
  simp only [freshH, Bool.and_eq_true, decide_eq_true_eq, List.all_eq_true] at hf
  refine ⟨hf.1, fun p hp hpc => ?_⟩
  have := hf.2 p hp
  simpa [hpc] using this

/-- No fresh command is lost while it waits: a command that was added, is above all marks for
its client and has not been handed out is still in the cache. -/
theorem fresh_not_lost (bs : Nat) (h1 : 1 ≤ bs) (ops : List Op)
    (hn : (run (Cache.new bs) {} ops).2.1.added.Nodup) (c : Cmd)
    (hadd : c ∈ (run (Cache.new bs) {} ops).2.1.added)
    (hfresh : freshH (run (Cache.new bs) {} ops).2.1.marked c = true)
    (hnot : c ∉ (run (Cache.new bs) {} ops).2.1.handed) :
    c ∈ (run (Cache.new bs) {} ops).1.cache := by
  have i := run_inv bs ops (Cache.new bs) {} ⟨InvS.init bs, ReadyInv.init bs h1⟩ hn
  have : c ∈ pending (run (Cache.new bs) {} ops).2.1 := by
    simp [pending, hadd, hfresh, hnot]
  rw [← i.1.hpend] at this
  exact (List.filter_sublist).subset this

/-- A command leaves the set of pending commands only inside a returned batch or by being marked:
the cache's fresh content always equals the history's pending list. -/
theorem cache_fresh_eq_pending (bs : Nat) (h1 : 1 ≤ bs) (ops : List Op)
    (hn : (run (Cache.new bs) {} ops).2.1.added.Nodup) :
    freshOf (run (Cache.new bs) {} ops).1.marks (run (Cache.new bs) {} ops).1.cache =
      pending (run (Cache.new bs) {} ops).2.1 :=
  (run_inv bs ops (Cache.new bs) {} ⟨InvS.init bs, ReadyInv.init bs h1⟩ hn).1.hpend

/-- Refinement: on every operation list the cache answers exactly like the ideal batching queue
of `Spec/BatchQueue.lean` (which has no token, no stale entries, no prefix cut). -/
theorem seq_refines_ideal (bs : Nat) (h1 : 1 ≤ bs) (ops : List Op) :
    (run (Cache.new bs) {} ops).2.2 = runIdeal bs {} ops :=
  run_refines bs ops _ _ _ (ref_init bs h1)

/-! ## Several concurrent getters, adversarial scheduler -/

/-- `no_lost_wakeup`: in every reachable state of the concurrent system (any interleaving of
`Add`, `Proposed`, new `Get` calls, cancellations, and the three atomic steps of each `Get`):
if at least `bs` fresh commands are cached then the token is in the `ready` channel or some getter
has taken it and has not yet run its locked body. -/
theorem no_lost_wakeup (bs : Nat) (h1 : 1 ≤ bs) (st : Sys) (r : Reach bs st)
    (hf : bs ≤ freshCount st.c) :
    st.c.ready = true ∨ ∃ (j : Nat) (g : Getter), st.gs[j]? = some g ∧ g.pc = PC.woken :=
  (r.inv h1).hwake hf

/-- … hence a getter blocked in the `select` while a full fresh batch exists is never stuck: it
can receive the token right now, or a getter that holds the token is enabled and its locked body
returns a full batch (which re-signals if yet another full batch remains, by the same invariant). -/
theorem blocked_getter_enabled (bs : Nat) (h1 : 1 ≤ bs) (st : Sys) (r : Reach bs st)
    (hf : bs ≤ freshCount st.c) (i : Nat) (g : Getter) (hg : st.gs[i]? = some g) (hp : g.pc = .sel) :
    (∃ st', st.step (.recv i) = some st') ∨
    (∃ (j : Nat) (gj : Getter) (st' : Sys) (b : List Cmd), st.gs[j]? = some gj ∧ gj.pc = PC.woken ∧
        st.step (.body j) = some st' ∧ st'.gs[j]? = some { gj with pc := .retBatch b } ∧ b.length = bs) := by
  have inv := r.inv h1
  rcases inv.hwake hf with hr | ⟨j, gj, hj, hpj⟩
  · left
    exact ⟨{ c := { st.c with ready := false }, gs := setPC st.gs i g .woken }, by simp [Sys.step, hg, hp, hr]⟩
  · right
    have hle : st.c.bs ≤ (freshOf st.c.marks st.c.cache).length := by rw [inv.hbs]; exact hf
    obtain ⟨s', hgl, _⟩ := getLocked_batch st.c hle
    have hlt : j < st.gs.length := by
      obtain ⟨hlt, _⟩ := List.getElem?_eq_some_iff.mp hj; exact hlt
    refine ⟨j, gj, { c := s', gs := setPC st.gs j gj (.retBatch ((freshOf st.c.marks st.c.cache).take st.c.bs)) },
      (freshOf st.c.marks st.c.cache).take st.c.bs, hj, hpj, by simp [Sys.step, hj, hpj, hgl], ?_, ?_⟩
    · simp only [setPC]; exact List.getElem?_set_self hlt
    · rw [List.length_take, inv.hbs]; simp only [freshCount] at hf; omega

/-- `get_ends_only_by_batch_or_cancel`: a call of `Get` that has not returned yet returns only
(a) the context error, through the `ctx.Done()` case, and then its context has been cancelled, or
(b) a batch produced by its own locked body; a call that has returned never moves again. -/
theorem get_ends_only_by_batch_or_cancel (st st' : Sys) (l : Label) (hs : st.step l = some st')
    (i : Nat) (g g' : Getter) (hg : st.gs[i]? = some g) (hg' : st'.gs[i]? = some g') :
    (g.pc.terminal = true → g'.pc = g.pc) ∧
    (g.pc.terminal = false → g'.pc = .retCancelled → l = .ctxDone i ∧ g.cancelled = true) ∧
    (g.pc.terminal = false → ∀ b, g'.pc = .retBatch b → l = .body i ∧ (getLocked st.c).1 = .batch b) :=
  step_getter st st' l hs i g g' hg hg'

/-- … and in every reachable state every returned call holds either the context error with a
cancelled context, or a batch of exactly `bs` commands. -/
theorem returned_calls (bs : Nat) (h1 : 1 ≤ bs) (st : Sys) (r : Reach bs st) (g : Getter) (hg : g ∈ st.gs) :
    (g.pc = .retCancelled → g.cancelled = true) ∧ (∀ b, g.pc = .retBatch b → b.length = bs) :=
  (r.inv h1).hret g hg

/-- Every concurrent execution is a run of the atomic operations `add`, `proposed`, `body` in
some order: the cache content of every reachable state and every batch any getter has returned
come from such a run — so all the theorems above about runs (full batches, oldest pending first,
arrival order, at most once, never stale, nothing lost) hold under every interleaving. -/
theorem concurrent_is_atomic_run (bs : Nat) (st : Sys) (r : Reach bs st) :
    ∃ ops : List Op, (∀ op ∈ ops, op.atomic = true) ∧
      Same (run (Cache.new bs) {} ops).1 st.c ∧
      ∀ g ∈ st.gs, ∀ b, g.pc = .retBatch b → Ret.batch b ∈ (run (Cache.new bs) {} ops).2.2 := by
  obtain ⟨ops, p⟩ := r.proj
  exact ⟨ops, p.hat, p.hsame, p.hret⟩

/-! ## Non-vacuity -/

def c (cl sq tg : Nat) : Cmd := ⟨cl, sq, tg⟩

/-- a stale command in front is skipped, the batch is the two oldest fresh ones, the third waits -/
example : (run (Cache.new 2) {} [.add (c 1 1 0), .add (c 2 1 1), .proposed [c 1 1 9], .get,
      .add (c 2 2 2), .get, .add (c 1 2 3), .get, .get]).2.2 =
    [.none, .none, .none, .blocked, .none, .batch [c 2 1 1, c 2 2 2], .none, .blocked, .blocked] := by decide

/-- the hypotheses of `get_spec` are satisfiable with a batch returned -/
example : (run (Cache.new 2) {} [.add (c 1 1 0), .add (c 1 2 1)]).2.1.added.Nodup ∧
    pending (run (Cache.new 2) {} [.add (c 1 1 0), .add (c 1 2 1)]).2.1 = [c 1 1 0, c 1 2 1] := by decide

/-- a reachable concurrent state in which a full fresh batch is cached, the token is NOT in the
channel and one getter is between its receive and its locked body — the second disjunct of
`no_lost_wakeup` is needed, and the state of `blocked_getter_enabled` exists. -/
def wokenState : Option Sys :=
  (some ({ c := Cache.new 1 } : Sys)) >>= (·.step .spawn) >>= (·.step .spawn) >>=
    (·.step (.add (c 1 1 0))) >>= (·.step (.recv 0))

example : (wokenState.map fun st => (st.c.ready, freshCount st.c, st.gs.map (·.pc))) =
    some (false, 1, [.woken, .sel]) := by decide

example : ∃ st, wokenState = some st ∧ Reach 1 st := by
  refine ⟨_, rfl, ?_⟩
  exact .step (.recv 0) (.step (.add (c 1 1 0)) (.step .spawn (.step .spawn .init rfl) rfl) rfl) rfl

/-- a getter with a cancelled context may still take the token (Go's `select` picks any ready case) -/
example : ((some ({ c := Cache.new 1 } : Sys)) >>= (·.step .spawn) >>= (·.step (.cancel 0)) >>=
      (·.step (.add (c 1 1 0))) >>= (·.step (.recv 0)) >>= (·.step (.body 0))).map (fun st => st.gs.map (·.pc)) =
    some [.retBatch [c 1 1 0]] := by decide

end HsVerif.Props.C15
