import HsVerif.Proofs.SysLiveQuorumChain
import HsVerif.Props.C05Chain
/-! C05, task S12c — LIVENESS WITH A SILENT MINORITY.  Only the ids in `C.honest` take part in the synchronous suffix: at least a
quorum of them (`qh : quorum ≤ C.honest.length`), at most `numFaulty n` ids of `1..n` outside (`FewFaulty C`); the ids
outside `C.honest` are silent from the timed-out view on — in the system model nothing is delivered to them and none of their
keys is used — and may have done ANYTHING before (the start state is any reachable state of the system with Byzantine ids).
Property theorems; proofs in Proofs/SysLiveQuorum.lean (structures `HappyLive`, `RecSetupLive`, `RecPreLive`; `cover` from
`FewFaulty`; the recovery round) and Proofs/SysLiveQuorumChain.lean (the rounds, the link, every-message variants).

Where "all `n` ids run the model" (`RecPre.all`, `HappyCfg.all`) was used, and what replaces it:
* counting — everybody's timeout messages / votes make a quorum (end of the recovery round, `OthersOrder.quorum`): needs only
  `quorum ≤ C.honest.length`;
* quorum intersection in `cover_of_reach` / `top_block_covers_lock` (`Ctx.lock_cover`, `top_covers`): the voters of the lock's
  certified child are a quorum of IDS; with `FewFaulty` they share an HONEST replica with the (honest) quorum of a `Top`
  certificate (`quorums_share_honest_id`, the lemma of the safety proof) — `Ctx.lock_cover_live`, `Ctx.top_ge_lock_live`;
* convenience — `RecPre.fewFaulty` (now the hypothesis `few`).
Nothing turned out false with a silent minority: a `Top` certificate is by definition the highest of a quorum of REPORTING
(honest) replicas, and the leader never waits for more than `quorum` messages.
The old theorems are instances (`HappyCfg.toLive`, `RecPre.toLive`).
Non-vacuity (`commit_after_recovery_live_nonvacuous`, `quorum_run_commits`): `n = 4`, `C.honest = [1, 2, 3]` (quorum 3); id 4 takes
part in the prefix — it VOTES for `P3` (the leader's `QC(P3)` is signed by 1, 2 and 4; the vote of replica 3 comes late), and it
signs view 3 (its timeout message lets replicas 2 and 3 form the timeout certificate that takes them to view 4) — and is silent from
view 4 on; high QCs (`QC(P3)` / `QC(P2)`), locks (`P2` / `P1`) and committed blocks (`P1` / genesis) differ; the three live
replicas commit `P5` in view 8. -/
set_option linter.unusedVariables false
namespace HsVerif.Props.C05Quorum
open HsVerif.Model HsVerif.Proofs HsVerif.Props.C01Sys HsVerif.Props.C01SysWF HsVerif.Props.C03
open HsVerif.SysSafety HsVerif.Props.C05Live HsVerif.Props.C05Cover HsVerif.Props.C05Chain

/-- **The block the leader will propose on covers every lock, with a silent / Byzantine minority** (`RecPreLive`: `FewFaulty C`
and `quorum ≤ C.honest.length` in place of "all `n` ids run the model").  The quorum of a `Top` certificate (honest replicas) and the
voters of the lock's certified child (a quorum of ids `1..n`, at most `numFaulty n` of them not honest) share an HONEST replica
(`quorums_share_honest_id`, as in the safety proof); a voter outside `C.honest` says nothing and is not needed. -/
theorem top_block_covers_lock_live (k : Keys) (C : SysCfg) (D : RecData) (s0 : Nat → RState) (ℓ : Nat) (σ : SysState)
    (blk : Hash → Block) (hk : KeysOK k) (hr : Reach k C σ) (hca : CA' σ blk)
    (hP : RecPreLive k C D s0 ℓ σ.truth) (hreps : ∀ j ∈ C.honest, σ.reps.lookup j = some (s0 j))
    (j i : Nat) (hj : j ∈ C.honest) (hi : i ∈ C.honest) (ht : Top C D i) :
    (s0 j).lock.view ≤ (D.hb i).view ∧ ((s0 j).lock.view = (D.hb i).view → D.hb i = (s0 j).lock) :=
  HsVerif.Model.top_block_covers_lock_lv k C D s0 ℓ σ blk hk hr hca hP hreps j i hj hi ht

/-- **`cover` holds of every reachable state, with a silent / Byzantine minority** (`RecPreLive`). -/
theorem cover_of_reach_live (k : Keys) (C : SysCfg) (D : RecData) (s0 : Nat → RState) (ℓ : Nat) (σ : SysState)
    (blk : Hash → Block) (hk : KeysOK k) (hr : Reach k C σ) (hca : CA' σ blk)
    (hP : RecPreLive k C D s0 ℓ σ.truth) (hreps : ∀ j ∈ C.honest, σ.reps.lookup j = some (s0 j)) :
    ∀ j ∈ C.honest, ∀ i ∈ C.honest, Top C D i → RuleReady (C.rcfg j) (s0 j) (D.v + 1) (D.hb i) :=
  HsVerif.Model.cover_of_reach_lv k C D s0 ℓ σ blk hk hr hca hP hreps

/-- **Recovery from any reachable state when only the replicas of `C.honest` take part** (at least a quorum of them, at most
`numFaulty n` ids outside; the others are silent in the suffix and may have done anything before).  Statement and conclusion as
`recovery_from_reachable`, with `RecPreLive` for `RecPre`. -/
theorem recovery_from_reachable_live (k : Keys) (C : SysCfg) (D : RecData) (s0 : Nat → RState) (ℓ : Nat)
    (σ0 : SysState) (blk : Hash → Block) (hk : KeysOK k) (hr : Reach k C σ0) (hca : CA' σ0 blk)
    (hP : RecPreLive k C D s0 ℓ σ0.truth) (h0 : RecStart C s0 σ0.truth σ0)
    (msgs : List (Nat × Nat)) (hm : FullOrder C msgs) :
    ∃ (i : Nat) (b' : Block),
      i ∈ C.honest ∧ Top C D i ∧
      b'.view = D.v + 1 ∧ b'.qc = D.hq i ∧ b'.parent = (D.hq i).hash ∧ b'.proposer = ℓ ∧
      (∀ j ∈ C.honest, j ≠ ℓ →
        (j, Ev.propose ℓ b' none) ∈ (deliverAll k C (σ0, []) (msgs.map fun p => (p.1, Ev.timeout (D.tmsg C p.2)))).2) ∧
      (∀ j ∈ C.honest, ∃ s,
        (deliverAll k C (σ0, []) (msgs.map fun p => (p.1, Ev.timeout (D.tmsg C p.2)))).1.reps.lookup j = some s ∧
        D.v + 1 ≤ s.view) ∧
      (∀ j ∈ C.honest, j ≠ ℓ → ∃ s bytes,
        (deliverAll k C (σ0, []) (msgs.map fun p => (p.1, Ev.timeout (D.tmsg C p.2)))).1.reps.lookup j = some s ∧
        s.view = D.v + 1 ∧
        (let σ1 := (deliverAll k C (σ0, []) (msgs.map fun p => (p.1, Ev.timeout (D.tmsg C p.2)))).1
         let r := step k (C.rcfg j) { s with truth := σ1.truth, nextBytes := σ1.nextBytes } (.propose ℓ b' none)
         Has b'.hash r.1 ∧ Out.sign (blkMsg b'.hash) ∈ r.2 ∧
         r.1.truth.lookup bytes = some ⟨j, blkMsg b'.hash⟩ ∧
         ((C.rcfg j).leader (D.v + 1 + 1) ≠ j →
           Out.sendVote ((C.rcfg j).leader (D.v + 1 + 1)) (.multi C.scheme [⟨j, bytes⟩]) b'.hash ∈ r.2))) :=
  HsVerif.Model.recovery_from_reachable_lv k C D s0 ℓ σ0 blk hk hr hca hP h0 msgs hm

/-- `round_votes` with a silent minority (`HappyLive`): the leader needs the votes of a quorum of `C.honest`. -/
theorem round_votes_live (k : Keys) (C : SysCfg) (L w N : Nat) (hC : HappyLive C L) (B P : Block) (bt : Nat → Nat)
    (σ : SysState) (hN : N + 12 ≤ 99999) (hA : PhaseA C L w N B P bt σ)
    (ord : List Nat) (hnd : ord.Nodup) (hord : ∀ j ∈ ord, j ∈ C.honest ∧ j ≠ L)
    (hlen : (C.rcfg L).cfg.quorum ≤ ord.length + 1) :
    ∃ B' : Block,
      PhaseB C L w N B' B P (deliverAll k C (σ, []) (ord.map (voteMsg C L B.hash bt))).1 ∧
      (deliverAll k C (σ, []) (ord.map (voteMsg C L B.hash bt))).2 = (othersOf C L).map (propMsg L B') ∧
      (∀ j, j ≠ L → (deliverAll k C (σ, []) (ord.map (voteMsg C L B.hash bt))).1.reps.lookup j = σ.reps.lookup j) ∧
      (∀ b a, σ.truth.lookup b = some a →
        (deliverAll k C (σ, []) (ord.map (voteMsg C L B.hash bt))).1.truth.lookup b = some a) ∧
      ∃ sL0 sL, σ.reps.lookup L = some sL0 ∧
        (deliverAll k C (σ, []) (ord.map (voteMsg C L B.hash bt))).1.reps.lookup L = some sL ∧
        CommitStep w B P sL0 sL :=
  HsVerif.Model.chain_round_AB_lv k C L w N hC B P bt σ hN hA ord hnd hord hlen

/-- `round_proposals` with a silent minority (`HappyLive`). -/
theorem round_proposals_live (k : Keys) (C : SysCfg) (L w N : Nat) (hC : HappyLive C L) (B' B P : Block) (σ : SysState)
    (hN : N + 12 ≤ 99999) (hB : PhaseB C L w N B' B P σ)
    (ord : List Nat) (hnd : ord.Nodup) (hord : ∀ j ∈ ord, j ∈ C.honest ∧ j ≠ L)
    (hfull : ∀ j ∈ C.honest, j ≠ L → j ∈ ord) :
    ∃ bt' : Nat → Nat,
      PhaseA C L (w + 1) (N + 3) B' B bt' (deliverAll k C (σ, []) (ord.map (propMsg L B'))).1 ∧
      (deliverAll k C (σ, []) (ord.map (propMsg L B'))).2 = ord.flatMap (ackMsgs C L B' bt') ∧
      (deliverAll k C (σ, []) (ord.map (propMsg L B'))).1.reps.lookup L = σ.reps.lookup L ∧
      (∀ b a, σ.truth.lookup b = some a →
        (deliverAll k C (σ, []) (ord.map (propMsg L B'))).1.truth.lookup b = some a) ∧
      ∀ j ∈ C.honest, j ≠ L → ∃ s0 s, σ.reps.lookup j = some s0 ∧
        (deliverAll k C (σ, []) (ord.map (propMsg L B'))).1.reps.lookup j = some s ∧ CommitStep w B P s0 s :=
  HsVerif.Model.chain_round_BA_lv k C L w N hC B' B P σ hN hB ord hnd hord hfull

/-- `one_view` with a silent minority (`HappyLive`): the votes of ALL replicas of `C.honest` other than the leader are delivered, in any order. -/
theorem one_view_live (k : Keys) (C : SysCfg) (L w N : Nat) (hC : HappyLive C L) (B P : Block) (bt : Nat → Nat)
    (x : SysState × Msgs) (hN : N + 12 ≤ 99999) (hA : PhaseA C L w N B P bt x.1) (hfly : VotesFly C L B.hash bt x.2)
    (ordV ordP : List Nat) (hV : OthersOrder C L ordV) (hP : OthersOrder C L ordP) :
    ∃ (B' : Block) (bt' : Nat → Nat),
      PhaseA C L (w + 1) (N + 3) B' B bt' (chainView k C ordV ordP x).1 ∧
      VotesFly C L B'.hash bt' (chainView k C ordV ordP x).2 ∧ Link B' B ∧
      ∀ j ∈ C.honest, ∃ s0 s, x.1.reps.lookup j = some s0 ∧ (chainView k C ordV ordP x).1.reps.lookup j = some s ∧
        CommitStep w B P s0 s :=
  HsVerif.Model.chain_view_lv k C L w N hC B P bt x hN hA hfly ordV ordP hV hP

/-- **From a synchronised view to a commit with a silent minority** (`HappyLive C L`: the replicas of `C.honest` — at least a quorum —
run the model, the fixed leader is one of them; the ids outside `C.honest` send nothing).  Statement as `synced_commits`:
three views after phase A at `(w, B)` every replica of `C.honest` has `committed = B`. -/
theorem synced_commits_live (k : Keys) (C : SysCfg) (L w N : Nat) (hC : HappyLive C L) (B P : Block) (bt : Nat → Nat)
    (x : SysState × Msgs) (hN : N + 18 ≤ 99999) (hA : PhaseA C L w N B P bt x.1) (hfly : VotesFly C L B.hash bt x.2)
    (hwalk : ∀ j ∈ C.honest, ∃ s, x.1.reps.lookup j = some s ∧ WalkZ B s)
    (v1 p1 v2 p2 v3 p3 : List Nat) (hv1 : OthersOrder C L v1) (hp1 : OthersOrder C L p1) (hv2 : OthersOrder C L v2)
    (hp2 : OthersOrder C L p2) (hv3 : OthersOrder C L v3) (hp3 : OthersOrder C L p3) :
    ∃ (B1 B2 B3 : Block) (bt3 : Nat → Nat),
      Link B1 B ∧ Link B2 B1 ∧ Link B3 B2 ∧
      PhaseA C L (w + 3) (N + 9) B3 B2 bt3 (chainView k C v3 p3 (chainView k C v2 p2 (chainView k C v1 p1 x))).1 ∧
      VotesFly C L B3.hash bt3 (chainView k C v3 p3 (chainView k C v2 p2 (chainView k C v1 p1 x))).2 ∧
      ∀ j ∈ C.honest, ∃ s0 s, x.1.reps.lookup j = some s0 ∧
        (chainView k C v3 p3 (chainView k C v2 p2 (chainView k C v1 p1 x))).1.reps.lookup j = some s ∧
        s.committed = B ∧ s0.committed.view < s.committed.view :=
  HsVerif.Model.synced_commits_fixed_lv k C L w N hC B P bt x hN hA hfly hwalk v1 p1 v2 p2 v3 p3 hv1 hp1 hv2 hp2 hv3 hp3

/-- **Recovery reaches phase A with a silent minority** (`HappyLive`, `RecPreLive`, `SyncPre`): statement as `recovery_reaches_synced`. -/
theorem recovery_reaches_synced_live (k : Keys) (C : SysCfg) (L : Nat) (hC : HappyLive C L) (D : RecData) (s0 : Nat → RState)
    (σ0 : SysState) (blk : Hash → Block) (hk : KeysOK k) (hr : Reach k C σ0) (hca : CA' σ0 blk)
    (hP : RecPreLive k C D s0 L σ0.truth) (h0 : RecStart C s0 σ0.truth σ0)
    (msgs : List (Nat × Nat)) (hm : FullOrder C msgs) (N : Nat) (hY : SyncPre C D s0 N)
    (ordP : List Nat) (hordP : OthersOrder C L ordP) :
    ∃ (i : Nat) (b' : Block) (bt : Nat → Nat),
      i ∈ C.honest ∧ Top C D i ∧ b'.view = D.v + 1 ∧ b'.qc = D.hq i ∧ b'.proposer = L ∧
      PhaseA C L (D.v + 1) (N + 2) b' (D.hb i) bt (proposalRound k C ordP (recoveryRound k C D σ0 msgs)).1 ∧
      VotesFly C L b'.hash bt (proposalRound k C ordP (recoveryRound k C D σ0 msgs)).2 ∧
      ∀ j ∈ C.honest, ∃ s, (proposalRound k C ordP (recoveryRound k C D σ0 msgs)).1.reps.lookup j = some s ∧ WalkZ b' s :=
  HsVerif.Model.recovery_reaches_phaseA_lv k C L hC D s0 σ0 blk hk hr hca hP h0 msgs hm N hY ordP hordP

/-- `synced_commits_all` (every message of the three views delivered, new-view messages included) with a silent minority. -/
theorem synced_commits_all_live (k : Keys) (C : SysCfg) (L w N : Nat) (hC : HappyLive C L) (B P : Block) (bt : Nat → Nat)
    (x : SysState × Msgs) (hN : N + 18 ≤ 99999) (hA : PhaseA C L w N B P bt x.1)
    (nv : Bool) (ordPrev : List Nat) (hprev : OthersOrder C L ordPrev)
    (hpool : x.2 = (roundItems nv ordPrev).map (abMsg C L B bt)) (hnvok : nv = true → NVok k C L w B x.1)
    (hwalk : ∀ j ∈ C.honest, ∃ s, x.1.reps.lookup j = some s ∧ WalkZ B s)
    (i1 : List (Bool × Nat)) (p1 : List Nat) (h1 : i1.Perm (roundItems nv ordPrev)) (hp1 : OthersOrder C L p1) :
    ∃ (B1 : Block) (bt1 : Nat → Nat), Link B1 B ∧
      ∀ (i2 : List (Bool × Nat)) (p2 : List Nat), i2.Perm (roundItems true p1) → OthersOrder C L p2 →
      ∃ (B2 : Block) (bt2 : Nat → Nat), Link B2 B1 ∧
        ∀ (i3 : List (Bool × Nat)) (p3 : List Nat), i3.Perm (roundItems true p2) → OthersOrder C L p3 →
        ∃ (B3 : Block) (bt3 : Nat → Nat), Link B3 B2 ∧
          PhaseA C L (w + 3) (N + 9) B3 B2 bt3
            (chainViewAll k C (i3.map (abMsg C L B2 bt2)) p3 (chainViewAll k C (i2.map (abMsg C L B1 bt1)) p2
              (chainViewAll k C (i1.map (abMsg C L B bt)) p1 x))).1 ∧
          ∀ j ∈ C.honest, ∃ s0 s, x.1.reps.lookup j = some s0 ∧
            (chainViewAll k C (i3.map (abMsg C L B2 bt2)) p3 (chainViewAll k C (i2.map (abMsg C L B1 bt1)) p2
              (chainViewAll k C (i1.map (abMsg C L B bt)) p1 x))).1.reps.lookup j = some s ∧
            s.committed = B ∧ s0.committed.view < s.committed.view :=
  HsVerif.Model.synced_commits_all_lv k C L w N hC B P bt x hN hA nv ordPrev hprev hpool hnvok hwalk i1 p1 h1 hp1

/-- `commit_after_recovery_all` with a silent minority. -/
theorem commit_after_recovery_all_live (k : Keys) (C : SysCfg) (L : Nat) (hC : HappyLive C L) (D : RecData) (s0 : Nat → RState)
    (σ0 : SysState) (blk : Hash → Block) (hk : KeysOK k) (hr : Reach k C σ0) (hca : CA' σ0 blk)
    (hP : RecPreLive k C D s0 L σ0.truth) (h0 : RecStart C s0 σ0.truth σ0)
    (msgs : List (Nat × Nat)) (hm : FullOrder C msgs) (N : Nat) (hY : SyncPre C D s0 N)
    (ordP : List Nat) (hordP : OthersOrder C L ordP)
    (i1 : List (Bool × Nat)) (p1 : List Nat) (h1 : i1.Perm (roundItems false ordP)) (hp1 : OthersOrder C L p1) :
    ∃ (i : Nat) (b' : Block) (bt : Nat → Nat), i ∈ C.honest ∧ Top C D i ∧ b'.view = D.v + 1 ∧ b'.qc = D.hq i ∧ b'.proposer = L ∧
      (i1.map (abMsg C L b' bt)).Perm (proposalRound k C ordP (recoveryRound k C D σ0 msgs)).2 ∧
      ∃ (B1 : Block) (bt1 : Nat → Nat),
      ∀ (i2 : List (Bool × Nat)) (p2 : List Nat), i2.Perm (roundItems true p1) → OthersOrder C L p2 →
      ∃ (B2 : Block) (bt2 : Nat → Nat),
        ∀ (i3 : List (Bool × Nat)) (p3 : List Nat), i3.Perm (roundItems true p2) → OthersOrder C L p3 →
        ∀ j ∈ C.honest, ∃ s,
          (chainViewAll k C (i3.map (abMsg C L B2 bt2)) p3 (chainViewAll k C (i2.map (abMsg C L B1 bt1)) p2
            (chainViewAll k C (i1.map (abMsg C L b' bt)) p1
              (proposalRound k C ordP (recoveryRound k C D σ0 msgs))))).1.reps.lookup j = some s ∧
          s.committed = b' ∧ s.committed.view = D.v + 1 ∧ (s0 j).committed.view < s.committed.view :=
  HsVerif.Model.commit_after_recovery_all_core_lv k C L hC D s0 σ0 blk hk hr hca hP h0 msgs hm N hY ordP hordP i1 p1 h1 hp1

/-- **Commit after recovery with a silent minority.**  `C.honest` lists the replicas that take part: pairwise different ids in
`1..n`, at least a quorum, at most `numFaulty n` ids missing (`HappyLive C L`, `RecPreLive.few`), the fixed leader `L` among
them.  From ANY reachable state `σ0` (whatever the missing ids did before) that satisfies the synchrony hypotheses
(`RecPreLive`, `RecStart`, `CA'`, `KeysOK`, `SyncPre`): the timeout messages of the participants are delivered in any order, then
the proposals, then three views of the chain — nothing is ever sent by or delivered to an id outside `C.honest`.  Then EVERY
participant has committed `b'`, the block of view `v + 1` proposed after the recovery, above everything it had committed. -/
theorem commit_after_recovery_live (k : Keys) (C : SysCfg) (L : Nat) (hC : HappyLive C L) (D : RecData) (s0 : Nat → RState)
    (σ0 : SysState) (blk : Hash → Block) (hk : KeysOK k) (hr : Reach k C σ0) (hca : CA' σ0 blk)
    (hP : RecPreLive k C D s0 L σ0.truth) (h0 : RecStart C s0 σ0.truth σ0)
    (msgs : List (Nat × Nat)) (hm : FullOrder C msgs) (N : Nat) (hY : SyncPre C D s0 N)
    (ordP v1 p1 v2 p2 v3 p3 : List Nat) (hordP : OthersOrder C L ordP)
    (hv1 : OthersOrder C L v1) (hp1 : OthersOrder C L p1) (hv2 : OthersOrder C L v2)
    (hp2 : OthersOrder C L p2) (hv3 : OthersOrder C L v3) (hp3 : OthersOrder C L p3) :
    ∃ (i : Nat) (b' : Block), i ∈ C.honest ∧ Top C D i ∧ b'.view = D.v + 1 ∧ b'.qc = D.hq i ∧ b'.proposer = L ∧
      ∀ j ∈ C.honest, ∃ s,
        (chainView k C v3 p3 (chainView k C v2 p2 (chainView k C v1 p1
          (proposalRound k C ordP (recoveryRound k C D σ0 msgs))))).1.reps.lookup j = some s ∧
        s.committed = b' ∧ s.committed.view = D.v + 1 ∧ (s0 j).committed.view < s.committed.view := by
  obtain ⟨i, b', bt, r1, r2, r3, r4, r5, a1, a2, a3⟩ :=
    recovery_reaches_synced_live k C L hC D s0 σ0 blk hk hr hca hP h0 msgs hm N hY ordP hordP
  obtain ⟨B1, B2, B3, bt3, _, _, _, _, _, c6⟩ := synced_commits_live k C L (D.v + 1) (N + 2) hC b' (D.hb i) bt _
    (by have := hY.bound; omega) a1 a2 a3 v1 p1 v2 p2 v3 p3 hv1 hp1 hv2 hp2 hv3 hp3
  refine ⟨i, b', r1, r2, r3, r4, r5, ?_⟩
  intro j hj
  obtain ⟨_, s, _, d2, d3, _⟩ := c6 j hj
  have hv : s.committed.view = D.v + 1 := by rw [d3]; exact r3
  exact ⟨s, d2, d3, hv, by rw [hv]; have := hY.committed j hj; omega⟩


/-- the theorem for "all `n` ids take part" (`C05Chain.commit_after_recovery`) is the instance `HappyCfg.toLive`, `RecPre.toLive` -/
theorem commit_after_recovery_of_live (k : Keys) (C : SysCfg) (L : Nat) (hC : HappyCfg C L) (D : RecData) (s0 : Nat → RState)
    (σ0 : SysState) (blk : Hash → Block) (hk : KeysOK k) (hr : Reach k C σ0) (hca : CA' σ0 blk)
    (hP : RecPre k C D s0 L σ0.truth) (h0 : RecStart C s0 σ0.truth σ0)
    (msgs : List (Nat × Nat)) (hm : FullOrder C msgs) (N : Nat) (hY : SyncPre C D s0 N)
    (ordP v1 p1 v2 p2 v3 p3 : List Nat) (hordP : OthersOrder C L ordP)
    (hv1 : OthersOrder C L v1) (hp1 : OthersOrder C L p1) (hv2 : OthersOrder C L v2)
    (hp2 : OthersOrder C L p2) (hv3 : OthersOrder C L v3) (hp3 : OthersOrder C L p3) :
    ∃ (i : Nat) (b' : Block), i ∈ C.honest ∧ Top C D i ∧ b'.view = D.v + 1 ∧ b'.qc = D.hq i ∧ b'.proposer = L ∧
      ∀ j ∈ C.honest, ∃ s,
        (chainView k C v3 p3 (chainView k C v2 p2 (chainView k C v1 p1
          (proposalRound k C ordP (recoveryRound k C D σ0 msgs))))).1.reps.lookup j = some s ∧
        s.committed = b' ∧ s.committed.view = D.v + 1 ∧ (s0 j).committed.view < s.committed.view :=
  commit_after_recovery_live k C L hC.toLive D s0 σ0 blk hk hr hca (HsVerif.Model.RecPre.toLive hP) h0 msgs hm N hY ordP v1 p1 v2 p2 v3 p3
    hordP hv1 hp1 hv2 hp2 hv3 hp3

/-! ## non-vacuity: n = 4, replica 4 is outside `C.honest` — it took part in the prefix and is silent afterwards -/
section NonVacuity

/-- four ids, replicas 1, 2, 3 run the model (quorum 3), id 4 does not; fixed leader 1, chained HotStuff -/
def qCfg : SysCfg := { n := 4, rules := .chained, scheme := .ecdsa, agg := false, leaders := .fixed 1, honest := [1, 2, 3] }

/-- five rounds of the fault-free run of replicas 1, 2, 3 (`P3` proposed, replicas 2 and 3 have voted for it); id 4 VOTES for
`P3` (a `forge` action of the system model: the adversary owns its key) -/
def qRun0f : SysState := sysStep exKeys qCfg (syncRun exKeys qCfg 5).1 (.forge ⟨4, blkMsg "P3"⟩)
def qVote4 : Nat × Ev := (1, Ev.vote 4 (some (.multi .ecdsa [⟨4, 10⟩])) "P3" false)
/-- the leader receives the new-view messages, the vote of replica 2 and the vote of id 4 — with its own that is a quorum:
`QC(P3)` is signed by 1, 2 and 4 —, proposes `P4` (view 4, lock `P2`, committed `P1`), and then the late vote of replica 3; `P4`
is lost -/
def qRun0 : SysState × Msgs :=
  deliverAll exKeys qCfg (qRun0f, [])
    (((syncRun exKeys qCfg 5).2.filter (fun m => match m.2 with | .vote i _ _ _ => i != 3 | _ => true)) ++ [qVote4] ++
     ((syncRun exKeys qCfg 5).2.filter (fun m => match m.2 with | .vote i _ _ _ => i == 3 | _ => false)))
/-- replicas 2, 3 (view 3, lock `P1`, high QC `QC(P2)`) time out in view 3 -/
def qRun1 : SysState × Msgs :=
  deliverAll exKeys qCfg (qRun0.1, []) [(2, .localTimeout 3), (3, .localTimeout 3)]
/-- id 4 also signs view 3 … -/
def qRun1f : SysState := sysStep exKeys qCfg qRun1.1 (.forge ⟨4, viewMsg 3⟩)
/-- … and its timeout message reaches replicas 2 and 3 -/
def qTmo4 : TimeoutMsg := ⟨4, 3, some (.multi .ecdsa [⟨4, 14⟩]), none, { qc := some genesisQC, tc := some ⟨none, 0⟩ }⟩
/-- replicas 2 and 3 exchange their timeout messages (nothing reaches the leader) and receive that of id 4: with it they
assemble a timeout certificate — signed by 2, 3 and 4 — and enter view 4 -/
def qRun2 : SysState × Msgs :=
  deliverAll exKeys qCfg (qRun1f, []) ((qRun1.2.filter (fun m => m.1 != 1)) ++ [(2, .timeout qTmo4), (3, .timeout qTmo4)])
/-- from now on id 4 is SILENT; replicas 1, 2, 3 time out in view 4 -/
def qRun : SysState × Msgs :=
  deliverAll exKeys qCfg (qRun2.1, []) [(1, .localTimeout 4), (2, .localTimeout 4), (3, .localTimeout 4)]

def qS0 (j : Nat) : RState := (qRun.1.reps.lookup j).getD {}
def qBlk (h : Hash) : Block := ((qS0 1).chain.blocks.lookup h).getD genesisBlock
def qQC3 : QC := ⟨some (.multi .ecdsa [⟨1, 7⟩, ⟨2, 8⟩, ⟨4, 10⟩]), 3, "P3"⟩
def qQC2 : QC := ⟨some (.multi .ecdsa [⟨1, 4⟩, ⟨2, 5⟩, ⟨3, 6⟩]), 2, "P2"⟩

def qData : RecData :=
  { v := 4
    hq := fun i => if i = 1 then qQC3 else qQC2
    hb := fun i => if i = 1 then qBlk "P3" else qBlk "P2"
    htc := fun i =>
      if i = 2 then ⟨some (.multi .ecdsa [⟨2, 12⟩, ⟨3, 13⟩, ⟨4, 14⟩]), 3⟩
      else if i = 3 then ⟨some (.multi .ecdsa [⟨3, 13⟩, ⟨2, 12⟩, ⟨4, 14⟩]), 3⟩
      else ⟨none, 0⟩
    bt := fun i => i + 14 }

/-- `RecPreLive.init`, `.parents` and `SyncPre` for replica `j` in state `s` against the table `T`, as one boolean -/
def qOK (D : RecData) (s : RState) (T : List (Nat × Atom)) (j : Nat) : Bool :=
  decide (s.view = D.v) && decide (s.queue.length = 0) && decide (s.timeouts = [D.tmsg qCfg j]) &&
  decide (s.highQC = D.hq j) && decide (s.waitingVC.length = 0) && decide (s.lastVoted ≤ D.v) &&
  qCfg.honest.all (fun i =>
    verifyQC (env exKeys (qCfg.rcfg j) { s with truth := T }) (D.hq i) &&
    decide (s.chain.blocks.lookup (D.hq i).hash = some (D.hb i)) &&
    decide ((D.hq i).view = (D.hb i).view) && decide ((D.hq i).view < D.v) &&
    verifyTC (env exKeys (qCfg.rcfg j) { s with truth := T }) (D.htc i) && decide ((D.htc i).view < D.v) &&
    acceptedB (fun b => T.lookup b) (qCfg.rcfg j).cfg (D.tmsg qCfg i) &&
    (match s.chain.blocks.lookup (D.hb i).qc.hash with | some P => decide (P.view ≤ D.v) | none => false) &&
    cmWalk (s.chain.blocks.length + 2) s.chain.blocks s.committed.view (D.hb i)) &&
  decide (s.chain.fetchable.length = 0) && decide (s.waitingProp.length = 0) && namesOK D.v s &&
  decide (s.committed.view ≤ D.v) && decide (2 * s.chain.blocks.length + (D.v + 1) ≤ 1000)

def qAllOK : Bool :=
  qCfg.honest.all fun j =>
    match qRun.1.reps.lookup j with
    | some s => qOK qData s qRun.1.truth j
    | none => false

set_option maxRecDepth 100000 in
theorem qAllOK_true : qAllOK = true := by decide +kernel

theorem q_rep (j : Nat) (hj : j ∈ qCfg.honest) :
    qRun.1.reps.lookup j = some (qS0 j) ∧ qOK qData (qS0 j) qRun.1.truth j = true := by
  have h := List.all_eq_true.mp qAllOK_true j hj
  unfold qS0
  cases hl : qRun.1.reps.lookup j with
  | none => rw [hl] at h; cases h
  | some s => rw [hl] at h; exact ⟨rfl, h⟩

/-- what the boolean says of one replica -/
theorem q_of_ok (D : RecData) (s : RState) (T : List (Nat × Atom)) (j : Nat) (h : qOK D s T j = true) :
    (RColl qCfg D s j [] s ∧ s.waitingVC = [] ∧ s.lastVoted ≤ D.v ∧ KnowsAll exKeys qCfg D j { s with truth := T }) ∧
    (∀ i ∈ qCfg.honest, (∃ P, s.chain.blocks.lookup (D.hb i).qc.hash = some P ∧ P.view ≤ D.v) ∧
      cmWalk (s.chain.blocks.length + 2) s.chain.blocks s.committed.view (D.hb i) = true) ∧
    s.chain.fetchable = [] ∧ s.waitingProp = [] ∧
    (∀ u, D.v < u → s.chain.blocks.lookup (pname u) = none ∧ s.votes.lookup (pname u) = none) ∧
    s.committed.view ≤ D.v ∧ 2 * s.chain.blocks.length + (D.v + 1) ≤ 1000 := by
  simp only [qOK, Bool.and_eq_true, decide_eq_true_eq, List.all_eq_true] at h
  obtain ⟨⟨⟨⟨⟨⟨⟨⟨⟨⟨⟨h1, h2⟩, h3⟩, h4⟩, h5⟩, h6⟩, h7⟩, g1⟩, g2⟩, g3⟩, g4⟩, g5⟩ := h
  refine ⟨⟨⟨Frame.refl _, h1, List.eq_nil_of_length_eq_zero h2, h3, h4⟩, List.eq_nil_of_length_eq_zero h5, h6, ?_, ?_, ?_⟩,
    ?_, List.eq_nil_of_length_eq_zero g1, List.eq_nil_of_length_eq_zero g2, names_of_ok D.v s g3, g4, g5⟩
  · intro i hi
    obtain ⟨⟨⟨⟨⟨⟨⟨⟨a1, a2⟩, a3⟩, a4⟩, _⟩, _⟩, _⟩, _⟩, _⟩ := h7 i hi
    exact ⟨a1, a2, a3, a4⟩
  · intro i hi
    obtain ⟨⟨⟨⟨⟨⟨⟨⟨_, _⟩, _⟩, _⟩, a5⟩, a6⟩, _⟩, _⟩, _⟩ := h7 i hi
    exact ⟨a5, a6⟩
  · intro i hi
    obtain ⟨⟨⟨⟨⟨⟨⟨⟨_, _⟩, _⟩, _⟩, _⟩, _⟩, a7⟩, _⟩, _⟩ := h7 i hi
    exact accepted_of_acceptedB _ _ _ a7
  · intro i hi
    obtain ⟨⟨_, a8⟩, a9⟩ := h7 i hi
    refine ⟨?_, a9⟩
    cases hl : s.chain.blocks.lookup (D.hb i).qc.hash with
    | none => rw [hl] at a8; cases a8
    | some P => rw [hl] at a8; exact ⟨P, rfl, by simpa using a8⟩

theorem qRun_reach : Reach exKeys qCfg qRun.1 :=
  deliverAll_reach' exKeys qCfg _ _ (deliverAll_reach' exKeys qCfg _ _
    (Reach.step _ _ (deliverAll_reach' exKeys qCfg _ _ (deliverAll_reach' exKeys qCfg _ _
      (Reach.step _ _ (syncRun_reach exKeys qCfg 5))))))

theorem qHappy : HappyLive qCfg 1 :=
  ⟨(by show Scheme.ecdsa ≠ Scheme.bls12; decide), rfl, Or.inl rfl, rfl, (by show [1, 2, 3].Nodup; decide),
   (by show ∀ i ∈ [1, 2, 3], 1 ≤ i ∧ i ≤ 4; decide), (by decide), (by show 1 ∈ [1, 2, 3]; decide), (by show 2 ≤ 4; decide)⟩

set_option maxRecDepth 100000 in
/-- **all hypotheses of `commit_after_recovery_live` hold of that run**: id 4 is not in `C.honest` (`FewFaulty`: one id of four
is missing), it took part before — the leader's high QC `QC(P3)` carries its vote, the high TC of replica 2 its view signature —, the high QCs differ (`QC(P3)` at the
leader, `QC(P2)` at replicas 2 and 3), the locks are `P2` / `P1` -/
theorem commit_after_recovery_live_nonvacuous :
    HappyLive qCfg 1 ∧ 4 ∉ qCfg.honest ∧ FewFaulty qCfg ∧
    KeysOK exKeys ∧ Reach exKeys qCfg qRun.1 ∧ CA' qRun.1 qBlk ∧
    RecPreLive exKeys qCfg qData qS0 1 qRun.1.truth ∧ RecStart qCfg qS0 qRun.1.truth qRun.1 ∧
    qRun.2 = (senderMajor qCfg).map (fun p => (p.1, Ev.timeout (qData.tmsg qCfg p.2))) ∧
    SyncPre qCfg qData qS0 1000 ∧ (qS0 1).highQC = qQC3 ∧
    (qS0 2).highTC = ⟨some (.multi .ecdsa [⟨2, 12⟩, ⟨3, 13⟩, ⟨4, 14⟩]), 3⟩ ∧
    (qS0 1).highQC.view = 3 ∧ (qS0 2).highQC.view = 2 ∧ (qS0 1).lock.view = 2 ∧ (qS0 3).lock.view = 1 := by
  have hreach := qRun_reach
  have hrep := fun j hj => q_of_ok qData _ _ j (q_rep j hj).2
  refine ⟨qHappy, by decide, by unfold FewFaulty; decide, tmoMsgKey_ne_blkMsg, hreach, ca'_of_ca'Check _ _ (by decide +kernel),
    ⟨rfl, by decide, by decide, by decide, by decide, by decide, by decide, by unfold FewFaulty; decide, by decide, ?_, by decide,
      ?_, ?_, ?_⟩,
    recStart_of_reach exKeys qCfg qS0 qRun.1 hreach (by decide +kernel) (fun j hj => (q_rep j hj).1),
    by decide +kernel,
    ⟨fun j hj => (hrep j hj).2.2.1, fun j hj => (hrep j hj).2.2.2.1, fun j hj => (hrep j hj).2.2.2.2.1,
      fun j hj i hi _ => ((hrep j hj).2.1 i hi).1, fun j hj => (hrep j hj).2.2.2.2.2.1, fun j hj => (hrep j hj).2.2.2.2.2.2,
      fun j hj i hi _ => ((hrep j hj).2.1 i hi).2, by decide⟩,
    by decide +kernel, by decide +kernel, by decide +kernel, by decide +kernel, by decide +kernel, by decide +kernel⟩
  · intro j _; rfl
  · intro j hj; exact (hrep j hj).1
  · intro i hi
    simp only [qCfg, List.mem_cons, List.not_mem_nil, or_false] at hi
    rcases hi with rfl | rfl | rfl <;> decide +kernel
  · intro j hj i hi _
    obtain ⟨P, hP, _⟩ := ((hrep j hj).2.1 i hi).1
    exact Or.inr ⟨P, hP⟩


/-- the run after the recovery: the timeout messages (order of `syncRound`), the proposals to replicas 3, 2, then three views
of the chain with different delivery orders — only replicas 1, 2, 3 send and receive -/
def qFinal : SysState × Msgs :=
  chainView exKeys qCfg [2, 3] [3, 2] (chainView exKeys qCfg [3, 2] [2, 3] (chainView exKeys qCfg [2, 3] [2, 3]
    (proposalRound exKeys qCfg [3, 2] (recoveryRound exKeys qCfg qData qRun.1 (senderMajor qCfg)))))

set_option maxRecDepth 100000 in
/-- **`commit_after_recovery_live` applies to the run, and the kernel evaluation agrees**: the three live replicas commit the
block proposed after the recovery — `P5`, view 5 — (they had committed `P1` / genesis), in view 8, without id 4 -/
theorem quorum_run_commits :
    (∃ b' : Block, b'.view = 5 ∧ ∀ j ∈ qCfg.honest, ∃ s, qFinal.1.reps.lookup j = some s ∧ s.committed = b' ∧
      (qS0 j).committed.view < s.committed.view) ∧
    qFinal.1.reps.map (fun p => (p.1, p.2.view, p.2.committed.hash, p.2.committed.view)) =
      [(1, 8, "P5", 5), (2, 8, "P5", 5), (3, 8, "P5", 5)] ∧
    (qS0 1).committed.hash = "P1" ∧ (qS0 2).committed.hash = "G" := by
  refine ⟨?_, by decide +kernel, by decide +kernel, by decide +kernel⟩
  unfold qFinal
  obtain ⟨hC, _, _, hk, hr, hca, hP, h0, _, hY, _⟩ := commit_after_recovery_live_nonvacuous
  have ho : ∀ l : List Nat, l.Nodup → (∀ j ∈ l, j ∈ [2, 3]) → (∀ j ∈ [2, 3], j ∈ l) → OthersOrder qCfg 1 l := by
    intro l h1 h2 h3
    refine ⟨h1, ?_, ?_⟩
    · intro j hj
      have := h2 j hj
      simp only [List.mem_cons, List.not_mem_nil, or_false] at this
      rcases this with rfl | rfl <;> exact ⟨by decide, by decide⟩
    · intro j hj hne
      apply h3
      simp only [qCfg, List.mem_cons, List.not_mem_nil, or_false] at hj
      rcases hj with rfl | rfl | rfl
      · exact absurd rfl hne
      all_goals decide
  obtain ⟨i, b', _, _, r3, _, _, r6⟩ := commit_after_recovery_live exKeys qCfg 1 hC qData qS0 qRun.1 qBlk hk hr hca hP h0
    (senderMajor qCfg) (senderMajor_full qCfg (by decide)) 1000 hY
    [3, 2] [2, 3] [2, 3] [3, 2] [2, 3] [2, 3] [3, 2]
    (ho _ (by decide) (by decide) (by decide))
    (ho _ (by decide) (by decide) (by decide)) (ho _ (by decide) (by decide) (by decide))
    (ho _ (by decide) (by decide) (by decide)) (ho _ (by decide) (by decide) (by decide))
    (ho _ (by decide) (by decide) (by decide)) (ho _ (by decide) (by decide) (by decide))
  refine ⟨b', r3, ?_⟩
  intro j hj
  obtain ⟨s, e1, e2, _, e4⟩ := r6 j hj
  exact ⟨s, e1, e2, e4⟩

/-- TEST (`qh` is needed): with only two of four ids taking part — fewer than a quorum — the fault-free run makes no progress at all:
after ten rounds both replicas are still in view 1 with the genesis certificate -/
theorem below_quorum_no_progress :
    (syncRun exKeys { qCfg with honest := [1, 2] } 10).1.reps.map (fun p => (p.1, p.2.view, p.2.highQC.view)) = [(1, 1, 0), (2, 1, 0)] := by
  decide +kernel

end NonVacuity
end HsVerif.Props.C05Quorum
