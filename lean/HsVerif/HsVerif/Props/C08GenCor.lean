import HsVerif.Props.C08
import HsVerif.Props.C08Gen
/-! C08 — the "exactly when" statement carried over to the regenerated collector (`Gen/TimeoutCollector.lean`,
translated from `timeout_collector.go` on every run): `Props/C08.collector_exact` through the bridge
`Props/C08Gen.gen_collectorAdd_eq_model`. -/
set_option linter.unusedVariables false
namespace HsVerif.Props.C08GenCor
open HsVerif.Model HsVerif.Props.C08 HsVerif.Props.C08Gen
open HsVerif.Gen.Methods (timeoutCollector_add)

/-- ON THE REGENERATED CODE ("exactly when a quorum timed out in that view"): for a message from a sender not yet
recorded for its view, `timeoutCollector.add` as translated from the Go source of this run reports a quorum
(`true`, with the list) iff, with the new message, at least `q` messages of THAT view are held; the list is exactly
those messages, and they leave the collector while the messages of other views stay. -/
theorem gen_collector_exact (q : Nat) (ts : List TimeoutMsg) (t : TimeoutMsg) (hk : Keyed ts)
    (hnew : ¬ ∃ x ∈ ts, x.view = t.view ∧ x.id = t.id) :
    let same := ofView (ts ++ [t]) t.view
    let r := timeoutCollector_add tView tID (q : Int) ts t
    (q ≤ same.length → r.1 = (ts ++ [t]).filter (fun x => x.view != t.view) ∧ resultOpt r.2.1 = some same) ∧
    (same.length < q → r.1 = ts ++ [t] ∧ resultOpt r.2.1 = none) := by
  intro same r
  obtain ⟨h1, h2, _, _⟩ := gen_collectorAdd_eq_model q ts t
  obtain ⟨e1, e2, _⟩ := collector_exact q ts t hk hnew
  refine ⟨fun hq => ?_, fun hq => ?_⟩
  · have := e1 hq
    exact ⟨by rw [h1, this], by rw [h2, this]⟩
  · have := e2 hq
    exact ⟨by rw [h1, this], by rw [h2, this]⟩

end HsVerif.Props.C08GenCor
