import HsVerif.Proofs.Queue
import HsVerif.Proofs.EventLoop
/-! C14 — event loop: events are handled once each, in order, prioritised observers first.
Property theorems only.  Model: `Model/Queue.lean` (ring buffer as coded, with the repaired `push`),
`Model/EventLoop.lean` (handler table with free-slot reuse, AddEvent / Tick / DelayUntil as coded, with
the repaired idempotent unregister closure).  All statements are for every capacity `c ≥ 1`, every
word / script, every handler behaviour expressible by `Act`. -/
set_option linter.unusedVariables false
namespace HsVerif.Props.C14
open HsVerif.Model HsVerif.Model.Queue HsVerif.Model.EL HsVerif.Model.Obs

/-! ## The queue -/

/-- The ring buffer refines the bounded deque: for every capacity ≥ 1 and every word over
push / pop / len the outputs (reported drops, popped values, lengths) are those of the ideal deque. -/
theorem queue_refines_deque {α : Type} (c : Nat) (hc : 1 ≤ c) (w : List (QOp α)) :
    ((Queue.new c : Queue α).run w).2 = (Deque.run c [] w).2 :=
  (run_refines hc w (rel_new c)).1

/-- … and the content of the ring (read from head to tail) is the deque's content. -/
theorem queue_abs_refines {α : Type} (c : Nat) (hc : 1 ≤ c) (w : List (QOp α)) :
    ((Queue.new c : Queue α).run w).1.abs = (Deque.run c [] w).1 :=
  rel_abs (run_refines hc w (rel_new c)).2

/-- Never more than `c` entries. -/
theorem queue_bounded {α : Type} (c : Nat) (hc : 1 ≤ c) (w : List (QOp α)) :
    ((Queue.new c : Queue α).run w).1.abs.length ≤ c := by
  rw [queue_abs_refines c hc w]; exact (run_refines hc w (rel_new c)).2.hle

/-- Below capacity nothing is lost: after any history, a push onto a queue with room appends and
reports no drop. -/
theorem no_loss_below_capacity {α : Type} (c : Nat) (hc : 1 ≤ c) (w : List (QOp α)) (x : α) :
    let q := ((Queue.new c : Queue α).run w).1
    q.abs.length < c → (q.push x).2 = none ∧ (q.push x).1.abs = q.abs ++ [x] := by
  intro q hlt
  have r := (run_refines hc w (rel_new c)).2
  obtain ⟨h1, h2⟩ := rel_push hc r x
  have ha : q.abs = (Deque.run c [] w).1 := rel_abs r
  rw [ha] at hlt ⊢
  have hn : ¬ c < ((Deque.run c [] w).1 ++ [x]).length := by simp; omega
  have hp : Deque.push c (Deque.run c [] w).1 x = ((Deque.run c [] w).1 ++ [x], none) := by
    simp only [Deque.push, hn, if_false]
  rw [hp] at h1 h2
  exact ⟨h2, rel_abs h1⟩

/-- On overflow exactly the oldest entry is dropped, and exactly that entry is reported. -/
theorem overflow_drops_oldest_and_reports_it {α : Type} (c : Nat) (hc : 1 ≤ c) (w : List (QOp α)) (x : α) :
    let q := ((Queue.new c : Queue α).run w).1
    q.abs.length = c → (q.push x).2 = q.abs.head? ∧ (q.push x).1.abs = q.abs.tail ++ [x] := by
  intro q heq
  have r := (run_refines hc w (rel_new c)).2
  obtain ⟨h1, h2⟩ := rel_push hc r x
  have ha : q.abs = (Deque.run c [] w).1 := rel_abs r
  rw [ha] at heq ⊢
  have hn : c < ((Deque.run c [] w).1 ++ [x]).length := by simp; omega
  have hp : Deque.push c (Deque.run c [] w).1 x =
      (((Deque.run c [] w).1 ++ [x]).tail, ((Deque.run c [] w).1 ++ [x]).head?) := by
    simp only [Deque.push, hn, if_true]
  rw [hp] at h1 h2
  have hne : (Deque.run c [] w).1 ≠ [] := by intro h; rw [h] at heq; simp at heq; omega
  cases hl : (Deque.run c [] w).1 with
  | nil => exact absurd hl hne
  | cons a t =>
    rw [hl] at h1 h2
    exact ⟨by simpa using h2, by simpa using rel_abs h1⟩

/-- pop returns the oldest entry (or nothing when empty); len is the number of entries. -/
theorem pop_is_oldest_len_is_length {α : Type} (c : Nat) (hc : 1 ≤ c) (w : List (QOp α)) :
    let q := ((Queue.new c : Queue α).run w).1
    q.pop.2 = q.abs.head? ∧ q.pop.1.abs = q.abs.tail ∧ q.len = q.abs.length := by
  intro q
  have r := (run_refines hc w (rel_new c)).2
  obtain ⟨h1, h2⟩ := rel_pop r
  have ha : q.abs = (Deque.run c [] w).1 := rel_abs r
  rw [ha]
  exact ⟨h2, rel_abs h1, rel_len r⟩

/-- The unchanged tree's `push` does not refine the deque: capacity 2, push 1, 2, 3 reports 2 as
dropped (the ideal queue reports 1, and 2 is in fact still queued and is popped next). -/
theorem push_as_found_counterexample :
    ((Queue.new 2 : Queue Nat).runAsFound [.push 1, .push 2, .push 3, .pop]).2
      = [.pushed none, .pushed none, .pushed (some 2), .popped (some 2)] ∧
    (Deque.run 2 ([] : List Nat) [.push 1, .push 2, .push 3, .pop]).2
      = [.pushed none, .pushed none, .pushed (some 1), .popped (some 2)] := by
  constructor <;> decide

/-! ## The event loop -/

/-- In every state reachable by a script the handler table is consistent with the closures handed out. -/
theorem table_consistent (c : Nat) (hc : 1 ≤ c) (progs : List (List Act)) (ops : List Op) :
    WF c (run (EL.new c progs) ops).1 :=
  (good_run hc ops (wf_new c progs)).wf

/-- FIFO accounting for every script: the events pushed (by AddEvent from outside, from handlers, or
by re-adding deferred events), in push order, are exactly the events that left the queue at its head
— handled or reported dropped —, in that order, followed by the events still pending.  Hence no event
is lost or duplicated, events are handled in the order in which they were added, and what is dropped
is always the oldest pending event and is reported. -/
theorem fifo_accounting (c : Nat) (hc : 1 ≤ c) (progs : List (List Act)) (ops : List Op) :
    pushedOf (run (EL.new c progs) ops).2 =
      leftOf (run (EL.new c progs) ops).2 ++ (run (EL.new c progs) ops).1.q.abs := by
  have h := (good_run hc ops (wf_new c progs)).qf
  have h0 : (EL.new c progs).q.abs = [] := rel_abs (rel_new c)
  rw [h0, List.nil_append] at h
  exact h

/-- Events are handled in the order they were added, each at most once. -/
theorem handled_in_add_order (c : Nat) (hc : 1 ≤ c) (progs : List (List Act)) (ops : List Op) :
    (poppedOf (run (EL.new c progs) ops).2).Sublist (pushedOf (run (EL.new c progs) ops).2) := by
  rw [fifo_accounting c hc progs ops]
  exact (popped_sublist_left _).trans (List.sublist_append_left _ _)

/-- While nothing is reported dropped nothing is lost and nothing is duplicated: the events added are
exactly the events handled, in order, followed by the events still pending. -/
theorem no_loss_no_duplication (c : Nat) (hc : 1 ≤ c) (progs : List (List Act)) (ops : List Op)
    (h : droppedOf (run (EL.new c progs) ops).2 = []) :
    pushedOf (run (EL.new c progs) ops).2 =
      poppedOf (run (EL.new c progs) ops).2 ++ (run (EL.new c progs) ops).1.q.abs := by
  rw [fifo_accounting c hc progs ops, left_eq_popped_of_no_drop _ h]

/-- The push inside AddEvent, in any reachable state: with room left nothing is dropped or reported;
on a full queue the oldest pending event is dropped and exactly it is reported. -/
theorem drop_only_when_full_and_reported (c : Nat) (hc : 1 ≤ c) (progs : List (List Act)) (ops : List Op) (e : LEv) :
    let s := (run (EL.new c progs) ops).1
    s.q.abs.length ≤ c ∧
    (s.q.abs.length < c → (s.pushEv e).2 = [.pushed e] ∧ (s.pushEv e).1.q.abs = s.q.abs ++ [e]) ∧
    (s.q.abs.length = c → ∃ d, s.q.abs.head? = some d ∧ (s.pushEv e).2 = [.pushed e, .dropped d] ∧
        (s.pushEv e).1.q.abs = s.q.abs.tail ++ [e]) := by
  intro s
  obtain ⟨l, hl⟩ := (table_consistent c hc progs ops).q
  obtain ⟨h1, h2⟩ := rel_push hc hl e
  have ha : s.q.abs = l := rel_abs hl
  rw [ha]
  refine ⟨hl.hle, fun hlt => ?_, fun heq => ?_⟩
  · have hn : ¬ c < (l ++ [e]).length := by simp; omega
    have hp : Deque.push c l e = (l ++ [e], none) := by simp only [Deque.push, hn, if_false]
    rw [hp] at h1 h2
    exact ⟨by simp only [pushEv]; rw [h2], rel_abs h1⟩
  · have hn : c < (l ++ [e]).length := by simp; omega
    have hp : Deque.push c l e = ((l ++ [e]).tail, (l ++ [e]).head?) := by simp only [Deque.push, hn, if_true]
    rw [hp] at h1 h2
    cases l with
    | nil => simp at heq; omega
    | cons a t =>
      refine ⟨a, rfl, ?_, by simp only [pushEv]; simpa using rel_abs h1⟩
      simp only [pushEv]; rw [h2]; rfl

/-- Tick on an empty queue handles nothing; otherwise it handles the oldest pending event. -/
theorem tick_idle_iff_empty (c : Nat) (s : EL) (hwf : WF c s) : (tick s).2 = none ↔ s.q.abs = [] := by
  rcases tick_cases hwf with ⟨h1, h2⟩ | ⟨e, rest, h1, _, _, h2⟩
  · simp [h1, h2]
  · simp [h1, h2]

/-- Dispatch: when Tick handles an event `e` — necessarily the oldest pending one — the handlers called
from the loop are called with `e`, and they are exactly the registrations for `e`'s type whose closure
has not been called at dispatch time (loop mode), each exactly once, all prioritised ones before all
ordinary ones.  (For every state with a consistent table, in particular every reachable state.) -/
theorem dispatch_once_in_order (c : Nat) (s s' : EL) (hwf : WF c s) (log : List Obs)
    (h : tick s = (s', some log)) :
    ∃ (e : LEv) (ps os : List Nat), s.q.abs.head? = some e ∧
      invsOf false log = (ps ++ os).map (fun r => (r, e)) ∧
      (ps ++ os).Nodup ∧
      (∀ r, r ∈ ps ++ os ↔ Registered s r e.ty false) ∧
      (∀ r ∈ ps, IsPrio s r) ∧ (∀ r ∈ os, ¬ IsPrio s r) := by
  rcases tick_cases hwf with ⟨_, h2⟩ | ⟨e, rest, h1, _, hwf1, h2⟩
  · rw [h2] at h; simp at h
  · rw [h2] at h
    simp only [Prod.mk.injEq, Option.some.injEq] at h
    obtain ⟨_, hlog⟩ := h
    obtain ⟨n1, n2, n3, n4⟩ := snapshot_spec hwf1 e.ty false
    refine ⟨e, _, _, by simp [h1], ?_, n1, ?_, ?_, ?_⟩
    · rw [← hlog, invsOf_append]
      have hcons : ∀ X, invsOf false (Obs.popped e :: X) = invsOf false X := fun _ => rfl
      rw [hcons, processLoop_invs]
      unfold dispatchDelayed
      rw [readdAll_invsFalse]
      simp [List.map_append, Function.comp_def]
    · intro r; rw [n2 r]; exact Iff.rfl
    · intro r hr; exact n3 r hr
    · intro r hr; exact n4 r hr

/-- The literal "for every sequence of add / defer / register / unregister / tick": after any script, the
next Tick dispatches as stated above. -/
theorem dispatch_once_in_order_after_any_script (c : Nat) (hc : 1 ≤ c) (progs : List (List Act)) (ops : List Op)
    (s' : EL) (log : List Obs) (h : tick (run (EL.new c progs) ops).1 = (s', some log)) :
    ∃ (e : LEv) (ps os : List Nat), (run (EL.new c progs) ops).1.q.abs.head? = some e ∧
      invsOf false log = (ps ++ os).map (fun r => (r, e)) ∧
      (ps ++ os).Nodup ∧
      (∀ r, r ∈ ps ++ os ↔ Registered (run (EL.new c progs) ops).1 r e.ty false) ∧
      (∀ r ∈ ps, IsPrio (run (EL.new c progs) ops).1 r) ∧ (∀ r ∈ os, ¬ IsPrio (run (EL.new c progs) ops).1 r) :=
  dispatch_once_in_order c _ s' (table_consistent c hc progs ops) log h

/-- The same for the handlers that run inside AddEvent (UnsafeRunInAddEvent): every AddEvent(e) calls
exactly the in-add registrations for `e`'s type, once each, prioritised first, before the push. -/
theorem add_dispatch_once_in_order (c : Nat) (s : EL) (hwf : WF c s) (e : LEv) :
    ∃ ps os : List Nat,
      invsOf true (addEvent s e).2 = (ps ++ os).map (fun r => (r, e)) ∧
      (ps ++ os).Nodup ∧
      (∀ r, r ∈ ps ++ os ↔ Registered s r e.ty true) ∧
      (∀ r ∈ ps, IsPrio s r) ∧ (∀ r ∈ os, ¬ IsPrio s r) ∧
      invsOf false (addEvent s e).2 = [] := by
  obtain ⟨n1, n2, n3, n4⟩ := snapshot_spec hwf e.ty true
  refine ⟨_, _, ?_, n1, n2, n3, n4, addEvent_invsFalse s e⟩
  rw [addEvent_invs]
  simp [List.map_append, Function.comp_def]

/-- Registration and unregistration do what they say, in every consistent state: after `Register` the
new registration is registered; after its closure is called it is not; nobody else is affected. -/
theorem register_registers (c : Nat) (s : EL) (hwf : WF c s) (t : Nat) (o : HOpts) (acts : List Act) (q : Bool) :
    Registered (s.register t o acts q) s.regs.length t o.inAdd ∧
    ∀ r t' m, r ≠ s.regs.length → (Registered (s.register t o acts q) r t' m ↔ Registered s r t' m) := by
  have hregs : (s.register t o acts q).unregd = s.unregd ∧
      ∃ i, (s.register t o acts q).regs = s.regs ++ [⟨t, i, ⟨s.regs.length, o, acts, q⟩⟩] := by
    unfold register; dsimp only; split <;> exact ⟨rfl, _, rfl⟩
  obtain ⟨hu, i, hr⟩ := hregs
  constructor
  · refine ⟨⟨t, i, ⟨s.regs.length, o, acts, q⟩⟩, by rw [hr]; simp, rfl, ?_, rfl⟩
    rw [hu]; intro hm; have := hwf.unregdLt _ hm; omega
  · intro r t' m hne
    unfold Registered
    rw [hu, hr]
    constructor
    · rintro ⟨rec, a1, a2⟩
      refine ⟨rec, ?_, a2⟩
      rw [List.getElem?_append] at a1
      split at a1
      · exact a1
      · rename_i hge
        have : r - s.regs.length ≠ 0 := by omega
        have hnone : ([⟨t, i, ⟨s.regs.length, o, acts, q⟩⟩] : List RegRec)[r - s.regs.length]? = none := by
          apply List.getElem?_eq_none; simp; omega
        rw [hnone] at a1; cases a1
    · rintro ⟨rec, a1, a2⟩
      exact ⟨rec, by rw [List.getElem?_append_left (List.getElem?_eq_some_iff.mp a1).1]; exact a1, a2⟩

theorem unregister_unregisters (s : EL) (r : Nat) :
    (∀ t m, ¬ Registered (s.unregister r) r t m) ∧
    ∀ r' t m, r' ≠ r → (Registered (s.unregister r) r' t m ↔ Registered s r' t m) := by
  have h : (s.unregister r).regs = s.regs ∧
      ((s.unregister r).unregd = s.unregd ∧ (s.regs[r]? = none ∨ r ∈ s.unregd) ∨ (s.unregister r).unregd = r :: s.unregd) := by
    unfold unregister
    split
    · rename_i hn; exact ⟨rfl, Or.inl ⟨rfl, Or.inl hn⟩⟩
    · split
      · rename_i hc; exact ⟨rfl, Or.inl ⟨rfl, Or.inr (by simpa using hc)⟩⟩
      · exact ⟨rfl, Or.inr rfl⟩
  obtain ⟨hr, hu⟩ := h
  constructor
  · rintro t m ⟨rec, a1, _, a3, _⟩
    rw [hr] at a1
    rcases hu with ⟨hu, hn | hm⟩ | hu
    · rw [hn] at a1; cases a1
    · rw [hu] at a3; exact a3 hm
    · rw [hu] at a3; exact a3 (by simp)
  · intro r' t m hne
    unfold Registered
    rw [hr]
    rcases hu with ⟨hu, _⟩ | hu
    · rw [hu]
    · rw [hu]; simp [hne]

/-- Calling an unregister closure again changes nothing (repaired code). -/
theorem unregister_idempotent (s : EL) (r : Nat) : (s.unregister r).unregister r = s.unregister r := by
  have h : s.regs[r]? = none ∨ r ∈ (s.unregister r).unregd := by
    unfold unregister
    split
    · rename_i hn; exact Or.inl hn
    · split
      · rename_i hc; exact Or.inr (by simpa using hc)
      · exact Or.inr (by simp)
  have hr : (s.unregister r).regs = s.regs := by
    unfold unregister; split
    · rfl
    · split <;> rfl
  generalize hs' : s.unregister r = s' at h hr
  unfold unregister
  rw [hr]
  rcases h with hn | hm
  · simp [hn]
  · split
    · rfl
    · simp [hm]

/-- The closure of the unchanged tree is not idempotent: Register h0, call its closure, Register h1 (which
reuses the slot), call h0's closure again — h1 is still registered (nobody called its closure) but its
slot is empty, so an event of its type is handled by nobody; with the repaired closure h1 is called. -/
theorem unregister_as_found_counterexample :
    let s0 := EL.new 2 []
    let reg := fun (s : EL) => s.register 0 ⟨false, false⟩ [] false
    let bad := ((reg (reg s0 |>.unregisterAsFound 0)).unregisterAsFound 0)
    let good := ((reg (reg s0 |>.unregister 0)).unregister 0)
    (1 ∉ bad.unregd ∧ invsOf false (run bad [.add ⟨0, 7⟩, .tick]).2 = []) ∧
    (invsOf false (run good [.add ⟨0, 7⟩, .tick]).2 = [(1, ⟨0, 7⟩)]) := by
  decide

/-- Deferred events, accounting for every script and every awaited type `t`: the events deferred until
`t` (by DelayUntil from outside or from handlers), in deferral order, are exactly the events re-added
for `t`, in that order, followed by the events still waiting for `t`: each deferred event is re-added at
most once, none is lost, order is kept. -/
theorem deferred_accounting (c : Nat) (hc : 1 ≤ c) (progs : List (List Act)) (ops : List Op) (t : Nat) :
    deferredOf t (run (EL.new c progs) ops).2 =
      readdOf t (run (EL.new c progs) ops).2 ++ (run (EL.new c progs) ops).1.waiting t := by
  have h := (good_run hc ops (wf_new c progs)).wl t
  simpa [EL.new] using h

/-- Deferred events are delivered after an event of the awaited type has been handled, and only then:
the log of a Tick that handles `e` is `popped e`, then the handler phase (all loop handlers of `e`; nothing
is re-added here), then the re-add phase (no loop handler runs here) which re-adds, once each and in
deferral order, exactly the events waiting for `e`'s type — those deferred before this Tick and those
deferred by `e`'s own handlers — and re-adds nothing for any other type. -/
theorem deferred_once_after_trigger_in_order (c : Nat) (hc : 1 ≤ c) (s s' : EL) (hwf : WF c s) (log : List Obs)
    (h : tick s = (s', some log)) :
    ∃ e l1 l2, s.q.abs.head? = some e ∧ log = .popped e :: l1 ++ l2 ∧
      (∀ t, readdOf t l1 = []) ∧ invsOf false l2 = [] ∧
      readdOf e.ty l2 = s.waiting e.ty ++ deferredOf e.ty l1 ∧
      (∀ t, t ≠ e.ty → readdOf t l2 = []) := by
  rcases tick_cases hwf with ⟨_, h2⟩ | ⟨e, rest, h1, _, hwf1, h2⟩
  · rw [h2] at h; simp at h
  · rw [h2] at h
    simp only [Prod.mk.injEq, Option.some.injEq] at h
    obtain ⟨_, hlog⟩ := h
    have g := good_processEvent (good_addEvent hc) false hwf1 e
    refine ⟨e, _, _, by simp [h1], hlog.symm, fun t => processLoop_readd t _ e, ?_, ?_, ?_⟩
    · unfold dispatchDelayed; exact readdAll_invsFalse _ _ _
    · unfold dispatchDelayed
      rw [readdAll_readd]
      have := g.wl e.ty
      rw [processLoop_readd, List.nil_append] at this
      simp only [if_true]
      exact this.symm
    · intro t ht
      unfold dispatchDelayed
      rw [readdAll_readd]
      simp [ht]

/-- Nothing but a Tick re-adds deferred events. -/
theorem readd_only_in_tick (s : EL) (o : Op) (ho : o ≠ .tick) (t : Nat) : readdOf t (step s o).2 = [] := by
  cases o with
  | add e => exact addEvent_readd t s e
  | delay t' e => rfl
  | reg t' o a q => rfl
  | unreg r => rfl
  | cancel x => rfl
  | tick => exact absurd rfl ho

/-! ## Non-vacuity -/

/-- capacity 2, wrap-around and overflow: a b c pushed, a dropped and reported, b c popped in order -/
example : ((Queue.new 2 : Queue Nat).run [.push 1, .push 2, .pop, .push 3, .push 4, .len, .pop, .pop, .pop]).2 =
    [.pushed none, .pushed none, .popped (some 1), .pushed none, .pushed (some 2), .len 2, .popped (some 3),
     .popped (some 4), .popped none] := by decide

/-- ordinary handler r0, prioritised r1 that unregisters r0 during dispatch, in-add r2; deferred B7
until an A event; capacity 2. -/
example :
    let s := EL.new 2 []
    let ops : List Op := [.reg 0 ⟨false, false⟩ [] false, .reg 0 ⟨false, true⟩ [.unreg 0] false,
      .reg 1 ⟨true, false⟩ [] false, .delay 0 ⟨1, 7⟩, .add ⟨0, 1⟩, .add ⟨0, 2⟩, .tick, .tick, .tick]
    (run s ops).2.filter (fun o => match o with | .inv .. => true | .dropped _ => true | _ => false) =
      [.inv 1 ⟨0, 1⟩ false false, .inv 0 ⟨0, 1⟩ false false, .inv 2 ⟨1, 7⟩ true false,
       .inv 1 ⟨0, 2⟩ false false] := by decide

end HsVerif.Props.C14
