import HsVerif.Proofs.Tree
import HsVerif.Gen.Tree
/-! C17 — the Kauri tree is one consistent tree over all replicas.  Property theorems only.

Setting of every theorem: an arbitrary position assignment `pos : List Nat` without repeated ids
(`pos.Nodup`; length, ids and order arbitrary), an arbitrary branch factor `b ≥ 2`.  The replica `r`
holds its own instance `view b pos r = NewSimple(r, b, pos)`; statements relate what *different*
replicas' instances report. -/
set_option linter.unusedVariables false
namespace HsVerif.Props.C17
open HsVerif.Model HsVerif.Model.Tree

/-- the `Tree` instance held by replica `r` -/
abbrev view (b : Nat) (pos : List Nat) (r : Nat) : Tree := Tree.mk' r b pos

/-- `NewSimple` succeeds exactly for `bf ≥ 2` and a member id, and then yields `view`. -/
theorem newSimple_iff (id b : Nat) (pos : List Nat) (t : Tree) :
    newSimple id b pos = some t ↔ 2 ≤ b ∧ id ∈ pos ∧ t = view b pos id := by
  unfold newSimple
  by_cases h1 : b < 2
  · simp [h1]; omega
  · by_cases h2 : pos.idxOf id < pos.length
    · have hm : id ∈ pos := List.idxOf_lt_length_iff.mp h2
      simp [h1, h2, hm, eq_comm]; omega
    · have hm : id ∉ pos := fun h => h2 (List.idxOf_lt_length_iff.mpr h)
      simp [h1, h2, hm]

/-- guard of `Parent`: a tree built by `NewSimple` always finds its own id (the model's
unreachable branch is unreachable). -/
theorem own_position (id b : Nat) (pos : List Nat) (t : Tree) (h : newSimple id b pos = some t) :
    ∃ p, t.replicaPosition t.id = some p ∧ p < pos.length := by
  obtain ⟨_, hm, rfl⟩ := (newSimple_iff _ _ _ _).mp h
  have : pos.idxOf id < pos.length := List.idxOf_lt_length_iff.mpr hm
  refine ⟨pos.idxOf id, ?_, this⟩
  show (if pos.idxOf id < pos.length then some (pos.idxOf id) else none) = _
  simp [this]

/-- Exactly one root: all replicas name the same root, it is a member, it is the only replica whose
`Parent()` reports "no parent" (and then returns the replica itself), and `IsRoot` — asked of any
replica's instance about any id — holds for it alone. -/
theorem one_root (b : Nat) (pos : List Nat) (hnd : pos.Nodup) (hb : 2 ≤ b) (hn : 1 ≤ pos.length) :
    ∃ root, root ∈ pos ∧ (∀ v, (view b pos v).root = root) ∧
      (∀ r ∈ pos, ((view b pos r).parent.2 = false ↔ r = root)) ∧
      (view b pos root).parent = (root, false) ∧
      (∀ v x, (view b pos v).isRoot x = true ↔ x = root) := by
  have h0 : 0 < pos.length := by omega
  have hroot : ∀ v, (view b pos v).root = pos[0] := by
    intro v; simp [Tree.root, Tree.mk', List.getD_eq_getElem?_getD, List.getElem?_eq_getElem h0]
  refine ⟨pos[0], List.getElem_mem h0, hroot, ?_, ?_, ?_⟩
  · intro r hr
    obtain ⟨q, hq, rfl⟩ := exists_pos_of_mem hr
    rw [parent_getElem hnd hb q hq]
    by_cases hz : q = 0
    · subst hz; simp
    · simp only [hz, if_false]
      constructor
      · intro h; exact absurd h (by simp)
      · intro h; exact absurd ((List.getElem_inj hnd).mp h) hz
  · have := parent_getElem hnd hb 0 h0
    simpa using this
  · intro v x
    unfold Tree.isRoot
    rw [replicaPosition_mk']
    constructor
    · intro h
      split at h
      · rename_i hlt
        have e : pos.idxOf x = 0 := by simpa using h
        have := List.getElem_idxOf hlt
        simp only [e] at this
        exact this.symm
      · simp at h
    · intro h
      subst h
      rw [hnd.idxOf_getElem 0 h0]
      simp [h0]

/-- Parent and children agree across replicas: `c` is listed among `p`'s children (whoever
evaluates `ChildrenOf(p)`) exactly when `c`'s own instance reports `p` as its parent. -/
theorem parent_child_iff (b : Nat) (pos : List Nat) (hnd : pos.Nodup) (hb : 2 ≤ b) (v p c : Nat) (hc : c ∈ pos) :
    c ∈ (view b pos v).childrenOf p ↔ (view b pos c).parent = (p, true) := by
  obtain ⟨q, hq, rfl⟩ := exists_pos_of_mem hc
  rw [parent_getElem hnd hb q hq, mem_childrenOf_iff hnd hb]
  constructor
  · rintro ⟨p', q', hp', hq', h0, h1, h2, h3⟩
    have : q' = q := (List.getElem_inj hnd).mp h1
    subst this
    have hz : q' ≠ 0 := by omega
    simp only [hz, if_false]
    subst h3
    rw [h0]
  · intro h
    by_cases hz : q = 0
    · simp [hz] at h
    · simp only [hz, if_false, Prod.mk.injEq, and_true] at h
      have hlt : (q - 1) / b < pos.length := by have := Nat.div_le_self (q - 1) b; omega
      exact ⟨(q - 1) / b, q, hlt, hq, h, rfl, by omega, rfl⟩

/-- the reported parent of a non-root replica is a replica of the tree, closer to the root -/
theorem parent_mem (b : Nat) (pos : List Nat) (hnd : pos.Nodup) (hb : 2 ≤ b) (c p : Nat) (hc : c ∈ pos)
    (h : (view b pos c).parent = (p, true)) : p ∈ pos ∧ pos.idxOf p < pos.idxOf c := by
  obtain ⟨q, hq, rfl⟩ := exists_pos_of_mem hc
  rw [parent_getElem hnd hb q hq] at h
  by_cases hz : q = 0
  · simp [hz] at h
  · simp only [hz, if_false, Prod.mk.injEq, and_true] at h
    have hlt := parentPos_lt hb (show 1 ≤ q by omega)
    subst h
    refine ⟨List.getElem_mem _, ?_⟩
    rw [hnd.idxOf_getElem _ _, hnd.idxOf_getElem _ _]
    exact hlt

/-- Children lists: members only, no repetition, at most `b` entries, and the lists of two different
replicas never share an entry (each replica is listed under one parent and nowhere else). -/
theorem children_disjoint (b : Nat) (pos : List Nat) (hnd : pos.Nodup) (hb : 2 ≤ b) (v : Nat) :
    (∀ p, ((view b pos v).childrenOf p).Nodup ∧ ((view b pos v).childrenOf p).length ≤ b ∧
        ∀ c ∈ (view b pos v).childrenOf p, c ∈ pos ∧ c ≠ p) ∧
    (∀ p p' c, c ∈ (view b pos v).childrenOf p → c ∈ (view b pos v).childrenOf p' → p = p') := by
  have g := goodCh_mk' (id := v) hnd hb
  refine ⟨fun p => ⟨g.nodup p, ?_, fun c hc => ⟨g.sub p c hc, fun e => by subst e; exact g.acyc _ (Desc.child hc)⟩⟩, g.uniq⟩
  unfold Tree.childrenOf
  split
  · simp
  · simp only
    split
    · simp
    · simp only [List.length_drop, List.length_take, Tree.mk']
      split <;> omega

/-- The children lists partition the non-root replicas: concatenating every replica's children gives
each replica other than the root exactly once. -/
theorem every_node_reached_once (b : Nat) (pos : List Nat) (hnd : pos.Nodup) (hb : 2 ≤ b) (v : Nat) :
    (pos.flatMap (view b pos v).childrenOf).Perm (pos.drop 1) := by
  have g := goodCh_mk' (id := v) hnd hb
  rw [List.perm_ext_iff_of_nodup (nodup_flatMap_of hnd g.nodup g.uniq) ((List.drop_sublist _ _).nodup hnd)]
  intro c
  rw [List.mem_flatMap, List.mem_drop_iff_getElem]
  constructor
  · rintro ⟨x, _, hc⟩
    obtain ⟨p, q, hp, hq, h0, h1, h2, h3⟩ := (mem_childrenOf_iff hnd hb _ _).mp hc
    refine ⟨q - 1, by omega, ?_⟩
    have : 1 + (q - 1) = q := by omega
    simp only [this]; exact h1
  · rintro ⟨j, hj, e⟩
    have hj' : 1 + j < pos.length := by omega
    have hlt : (1 + j - 1) / b < pos.length := by have := Nat.div_le_self (1 + j - 1) b; omega
    exact ⟨pos[(1 + j - 1) / b], List.getElem_mem _,
      (mem_childrenOf_getElem hnd hb _ hlt _).mpr ⟨1 + j, hj', by omega, rfl, e⟩⟩

/-- `r` is a proper ancestor of `c` according to the `Parent()` reports of the replicas on the way up -/
inductive Anc (b : Nat) (pos : List Nat) (r : Nat) : Nat → Prop
  | parent {c : Nat} : c ∈ pos → (view b pos c).parent = (r, true) → Anc b pos r c
  | up {c x : Nat} : c ∈ pos → (view b pos c).parent = (x, true) → Anc b pos r x → Anc b pos r c

/-- A replica's `SubTree()` lists exactly its proper descendants (the replicas whose chain of
`Parent()` reports passes through it), each once. -/
theorem subtree_eq_descendants (b : Nat) (pos : List Nat) (hnd : pos.Nodup) (hb : 2 ≤ b) (r : Nat) :
    (view b pos r).subTree.Nodup ∧ ∀ c, c ∈ (view b pos r).subTree ↔ Anc b pos r c := by
  have g := goodCh_mk' (id := r) hnd hb
  obtain ⟨h1, h2⟩ := subTree_spec (view b pos r) g
  refine ⟨h1, fun c => ?_⟩
  rw [h2]
  show Desc (view b pos r).childrenOf r c ↔ _
  constructor
  · intro h
    induction h with
    | child hc => exact Anc.parent (g.sub _ _ hc) ((parent_child_iff b pos hnd hb r _ _ (g.sub _ _ hc)).mp hc)
    | step _ hc ih => exact Anc.up (g.sub _ _ hc) ((parent_child_iff b pos hnd hb r _ _ (g.sub _ _ hc)).mp hc) ih
  · intro h
    induction h with
    | parent hm hp => exact Desc.child ((parent_child_iff b pos hnd hb r _ _ hm).mpr hp)
    | up hm hp _ ih => exact Desc.step ih ((parent_child_iff b pos hnd hb r _ _ hm).mpr hp)

/-- The tree has no cycle: an ancestor sits at a strictly smaller position; nobody is its own ancestor. -/
theorem acyclic (b : Nat) (pos : List Nat) (hnd : pos.Nodup) (hb : 2 ≤ b) (r c : Nat) (h : Anc b pos r c) :
    pos.idxOf r < pos.idxOf c ∧ r ≠ c := by
  have key : pos.idxOf r < pos.idxOf c := by
    induction h with
    | parent hm hp => exact (parent_mem b pos hnd hb _ _ hm hp).2
    | up hm hp _ ih => exact Nat.lt_trans ih (parent_mem b pos hnd hb _ _ hm hp).2
  exact ⟨key, fun e => by subst e; omega⟩

/-- Sibling lists: `PeersOf()` of the root is empty; for any other replica it is the children list
of its reported parent, contains the replica itself, and consists exactly of the replicas reporting
the same parent. -/
theorem peers_eq_children_of_parent (b : Nat) (pos : List Nat) (hnd : pos.Nodup) (hb : 2 ≤ b) (c : Nat) (hc : c ∈ pos) :
    ((view b pos c).parent.2 = false → (view b pos c).peersOf = []) ∧
    (∀ p, (view b pos c).parent = (p, true) →
      (view b pos c).peersOf = (view b pos p).childrenOf p ∧ c ∈ (view b pos c).peersOf ∧
      ∀ x ∈ pos, (x ∈ (view b pos c).peersOf ↔ (view b pos x).parent = (p, true))) := by
  constructor
  · intro h
    unfold Tree.peersOf
    cases hp : (view b pos c).parent with
    | mk a ok => rw [hp] at h; simp at h; simp [h]
  · intro p hp
    have e : (view b pos c).peersOf = (view b pos p).childrenOf p := by
      unfold Tree.peersOf; rw [hp]; rfl
    refine ⟨e, ?_, fun x hx => ?_⟩
    · rw [e]; exact (parent_child_iff b pos hnd hb p p c hc).mpr hp
    · rw [e]; exact parent_child_iff b pos hnd hb p p x hx

/-- depth = number of `Parent()` hops up to the replica that reports "no parent" -/
inductive Depth (b : Nat) (pos : List Nat) : Nat → Nat → Prop
  | root {r : Nat} : r ∈ pos → (view b pos r).parent = (r, false) → Depth b pos r 0
  | child {c p d : Nat} : c ∈ pos → (view b pos c).parent = (p, true) → Depth b pos p d → Depth b pos c (d + 1)

/-- every replica has a depth: its parent chain ends at the root -/
theorem depth_exists (b : Nat) (pos : List Nat) (hnd : pos.Nodup) (hb : 2 ≤ b) (r : Nat) (hr : r ∈ pos) :
    ∃ d, Depth b pos r d := by
  obtain ⟨q, hq, rfl⟩ := exists_pos_of_mem hr
  induction q using Nat.strongRecOn with
  | _ q ih =>
    by_cases hz : q = 0
    · refine ⟨0, Depth.root hr ?_⟩
      rw [parent_getElem hnd hb q hq]; simp [hz]
    · have hlt := parentPos_lt hb (show 1 ≤ q by omega)
      have hpl : (q - 1) / b < pos.length := by omega
      obtain ⟨d, hd⟩ := ih _ hlt hpl (List.getElem_mem _)
      refine ⟨d + 1, Depth.child hr ?_ hd⟩
      rw [parent_getElem hnd hb q hq]; simp [hz]

theorem depth_onLevel (b : Nat) (pos : List Nat) (hnd : pos.Nodup) (hb : 2 ≤ b) (r d : Nat) (h : Depth b pos r d) :
    ∃ q, ∃ hq : q < pos.length, pos[q] = r ∧ OnLevel b q d := by
  induction h with
  | root hm hp =>
    obtain ⟨q, hq, rfl⟩ := exists_pos_of_mem hm
    rw [parent_getElem hnd hb q hq] at hp
    by_cases hz : q = 0
    · exact ⟨q, hq, rfl, onLevel_zero.mpr hz⟩
    · simp [hz] at hp
  | child hm hp _ ih =>
    obtain ⟨q, hq, rfl⟩ := exists_pos_of_mem hm
    obtain ⟨q', hq', e, hl⟩ := ih
    rw [parent_getElem hnd hb q hq] at hp
    by_cases hz : q = 0
    · simp [hz] at hp
    · simp only [hz, if_false, Prod.mk.injEq, and_true] at hp
      have : (q - 1) / b = q' := (List.getElem_inj hnd).mp (hp.trans e.symm)
      subst this
      exact ⟨q, hq, rfl, (onLevel_child (by omega) (by omega)).mpr hl⟩

/-- Heights are consistent with the shape: `ReplicaHeight() + depth = TreeHeight()` for every
replica (so the root's height is the tree height, every child is exactly one lower than its parent,
every height is at least 1), all replicas agree on `TreeHeight()`, and some replica sits on the last
level (depth `TreeHeight()-1`): the tree height is 1 + the largest depth. -/
theorem height_consistent (b : Nat) (pos : List Nat) (hnd : pos.Nodup) (hb : 2 ≤ b) :
    (∀ r d, Depth b pos r d →
        (view b pos r).replicaHeight + d = treeHeight pos.length b ∧ 1 ≤ (view b pos r).replicaHeight) ∧
    (∀ v, (view b pos v).treeHeightOf = treeHeight pos.length b) ∧
    (∀ v p c, c ∈ pos → c ∈ (view b pos v).childrenOf p →
        (view b pos c).replicaHeight + 1 = (view b pos p).replicaHeight) ∧
    (1 ≤ pos.length → ∃ r, Depth b pos r (treeHeight pos.length b - 1)) := by
  have hdepth : ∀ r d, Depth b pos r d →
      (view b pos r).replicaHeight + d = treeHeight pos.length b ∧ 1 ≤ (view b pos r).replicaHeight := by
    intro r d h
    obtain ⟨q, hq, e, hl⟩ := depth_onLevel b pos hnd hb r d h
    subst e
    obtain ⟨h1, h2⟩ := heightOf_getElem (id := pos[q]) hnd hb q hq hl
    have : (view b pos pos[q]).replicaHeight = treeHeight pos.length b - d := h1
    omega
  refine ⟨hdepth, fun v => rfl, ?_, ?_⟩
  · intro v p c hc hch
    have hp := (parent_child_iff b pos hnd hb v p c hc).mp hch
    obtain ⟨hpm, _⟩ := parent_mem b pos hnd hb c p hc hp
    obtain ⟨d, hd⟩ := depth_exists b pos hnd hb p hpm
    have h1 := hdepth p d hd
    have h2 := hdepth c (d + 1) (Depth.child hc hp hd)
    omega
  · intro hn
    obtain ⟨hpos, hlo, hhi⟩ := treeHeight_spec (b := b) (n := pos.length) (by omega) hn
    have hq : pos.length - 1 < pos.length := by omega
    obtain ⟨d, hd⟩ := depth_exists b pos hnd hb pos[pos.length - 1] (List.getElem_mem hq)
    obtain ⟨q, hq', e, hl⟩ := depth_onLevel b pos hnd hb _ d hd
    have : q = pos.length - 1 := (List.getElem_inj hnd).mp e
    subst this
    have hlast : OnLevel b (pos.length - 1) (treeHeight pos.length b - 1) := by
      unfold OnLevel
      have : treeHeight pos.length b - 1 + 1 = treeHeight pos.length b := by omega
      rw [this]; omega
    have : d = treeHeight pos.length b - 1 := onLevel_unique hl hlast
    exact ⟨_, this ▸ hd⟩

/-- the depth of a replica is unique: a vote has exactly one path up -/
theorem depth_unique (b : Nat) (pos : List Nat) (hnd : pos.Nodup) (hb : 2 ≤ b) (r d d' : Nat)
    (h : Depth b pos r d) (h' : Depth b pos r d') : d = d' := by
  have h1 := ((height_consistent b pos hnd hb).1 r d h).1
  have h2 := ((height_consistent b pos hnd hb).1 r d' h').1
  omega

/-- Pushing a proposal down (kauri.go `sendProposalToChildren`, every replica forwarding to its own
`ReplicaChildren()`, starting at the tree leader `Root()`): the delivery list is the root followed
by the root's `SubTree()`, and it contains every replica exactly once. -/
theorem proposal_reaches_all_once (b : Nat) (pos : List Nat) (hnd : pos.Nodup) (hb : 2 ≤ b) (hn : 1 ≤ pos.length) :
    disseminate b pos = (view b pos (pos.getD 0 0)).root :: (view b pos (pos.getD 0 0)).subTree ∧
    (disseminate b pos).Perm pos := by
  have h0 : 0 < pos.length := by omega
  have e0 : pos.getD 0 0 = pos[0] := by simp [List.getD_eq_getElem?_getD, List.getElem?_eq_getElem h0]
  rw [e0]
  have hroot : (view b pos pos[0]).root = pos[0] := e0
  have g := goodCh_mk' (id := pos[0]) hnd hb
  have hns : ∀ x ∈ pos, newSimple x b pos = some (view b pos x) := fun x hx => (newSimple_iff _ _ _ _).mpr ⟨hb, hx, rfl⟩
  -- the dissemination loop is the SubTree work-list loop with the root in front
  have hloop : ∀ fuel i sub, (∀ x ∈ sub, x ∈ pos) →
      disseminateLoop b pos fuel (i + 1) (pos[0] :: sub) = pos[0] :: subTreeLoop (view b pos pos[0]) fuel i sub := by
    intro fuel
    induction fuel with
    | zero => intro i sub _; rfl
    | succ fuel ih =>
      intro i sub hsub
      unfold disseminateLoop subTreeLoop
      by_cases hlt : i < sub.length
      · have hlt' : i + 1 < (pos[0] :: sub).length := by simp; omega
        rw [if_pos hlt, if_pos hlt']
        have ex : (pos[0] :: sub).getD (i + 1) 0 = sub.getD i 0 := by simp [List.getD_eq_getElem?_getD]
        have hx : sub.getD i 0 ∈ pos := by
          have : sub.getD i 0 = sub[i] := by simp [List.getD_eq_getElem?_getD, List.getElem?_eq_getElem hlt]
          rw [this]; exact hsub _ (List.getElem_mem hlt)
        rw [ex, hns _ hx]
        simp only
        have : (view b pos (sub.getD i 0)).replicaChildren = (view b pos pos[0]).childrenOf (sub.getD i 0) := rfl
        rw [this, List.cons_append]
        apply ih
        intro y hy
        rcases List.mem_append.mp hy with h | h
        · exact hsub y h
        · exact g.sub _ _ h
      · have hlt' : ¬ i + 1 < (pos[0] :: sub).length := by simp; omega
        rw [if_neg hlt, if_neg hlt']
  have hd : disseminate b pos = pos[0] :: (view b pos pos[0]).subTree := by
    unfold disseminate
    rw [e0]
    unfold disseminateLoop
    rw [if_pos (by simp), show [pos[0]].getD 0 0 = pos[0] from rfl, hns _ (List.getElem_mem h0)]
    simp only
    have : (view b pos pos[0]).replicaChildren = (view b pos pos[0]).childrenOf pos[0] := rfl
    rw [this, List.singleton_append, hloop _ _ _ (fun x hx => g.sub _ _ hx)]
    unfold Tree.subTree
    simp only
    by_cases hz : ((view b pos pos[0]).childrenOf (view b pos pos[0]).id).length = 0
    · have hnil : (view b pos pos[0]).childrenOf pos[0] = [] := List.eq_nil_of_length_eq_zero hz
      have : (((view b pos pos[0]).childrenOf (view b pos pos[0]).id).length == 0) = true := by simp [hz]
      rw [this, hnil]
      cases pos.length <;> simp [subTreeLoop]
    · have : (((view b pos pos[0]).childrenOf (view b pos pos[0]).id).length == 0) = false := by simp [hz]
      rw [this]; rfl
  refine ⟨by rw [hd, hroot], ?_⟩
  rw [hd]
  obtain ⟨hnd', hmem⟩ := subTree_spec (view b pos pos[0]) g
  have hcons : pos = pos[0] :: pos.drop 1 := by
    cases pos with
    | nil => simp at h0
    | cons a l => simp
  have hperm : ((view b pos pos[0]).subTree).Perm (pos.drop 1) := by
    rw [List.perm_ext_iff_of_nodup hnd' ((List.drop_sublist _ _).nodup hnd)]
    intro c
    rw [hmem, List.mem_drop_iff_getElem]
    show Desc (view b pos pos[0]).childrenOf pos[0] c ↔ _
    constructor
    · intro hdesc
      obtain ⟨p, q, hp, hq, e1, e2, hlt⟩ := desc_pos_lt hnd hb hdesc
      refine ⟨q - 1, by omega, ?_⟩
      have : 1 + (q - 1) = q := by omega
      simp only [this]; exact e2
    · rintro ⟨j, hj, e⟩
      have hj' : 1 + j < pos.length := by omega
      rw [← e]; exact desc_root hnd hb (1 + j) hj' (by omega)
  conv => rhs; rw [hcons]
  exact List.Perm.cons _ hperm

/-- Sending a contribution up (kauri/sender.go `SendContributionToParent`, every replica consulting
its own `Parent()`): from a replica of depth `d` the path has exactly `d` hops, ends at the root, and
the hop budget `n` used by the driver is never exhausted. -/
theorem vote_path_up (b : Nat) (pos : List Nat) (hnd : pos.Nodup) (hb : 2 ≤ b) (r d : Nat) (h : Depth b pos r d) :
    d < pos.length ∧ ∀ fuel, d ≤ fuel →
      (voteUp b pos fuel r).length = d + 1 ∧ (voteUp b pos fuel r).head? = some r ∧
      (voteUp b pos fuel r).getLast? = some (pos.getD 0 0) := by
  have hns : ∀ x ∈ pos, newSimple x b pos = some (view b pos x) := fun x hx => (newSimple_iff _ _ _ _).mpr ⟨hb, hx, rfl⟩
  constructor
  · obtain ⟨q, hq, e, hl⟩ := depth_onLevel b pos hnd hb r d h
    have := lvlStart_ge b (by omega) d
    unfold OnLevel at hl; omega
  · induction h with
    | @root r hm hp =>
      intro fuel _
      obtain ⟨q, hq, rfl⟩ := exists_pos_of_mem hm
      have hq0 : q = 0 := by
        rw [parent_getElem hnd hb q hq] at hp
        by_cases hz : q = 0
        · exact hz
        · simp [hz] at hp
      subst hq0
      have e0 : pos.getD 0 0 = pos[0] := by simp [List.getD_eq_getElem?_getD, List.getElem?_eq_getElem hq]
      rw [e0]
      cases fuel with
      | zero => simp [voteUp]
      | succ f => simp [voteUp, hns _ hm, hp]
    | @child c p d hm hp hdp ih =>
      intro fuel hf
      cases fuel with
      | zero => omega
      | succ f =>
        obtain ⟨h1, h2, h3⟩ := ih f (by omega)
        have hne : voteUp b pos f p ≠ [] := by intro e; rw [e] at h1; simp at h1
        simp only [voteUp, hns _ hm, hp, if_true, List.length_cons, h1, List.head?_cons, true_and]
        rw [List.getLast?_cons_of_ne_nil hne]
        exact h3

/-- `Shuffle` (any random stream) only permutes: the shuffled list assigns the same replicas, each
once, so it is again a valid position assignment; `DefaultTreePos(n)` is the valid assignment 1..n. -/
theorem shuffle_valid (js l : List Nat) :
    (shuffle js l).Perm l ∧ (l.Nodup → (shuffle js l).Nodup) ∧ (shuffle js l).length = l.length := by
  have hp : (shuffle js l).Perm l := by
    unfold shuffle
    apply shuffleLoop_perm
    cases l with
    | nil => right; rfl
    | cons a l => left; simp
  exact ⟨hp, fun h => (hp.nodup_iff).mpr h, hp.length_eq⟩

theorem defaultTreePos_valid (n : Nat) :
    (defaultTreePos n).Nodup ∧ (defaultTreePos n).length = n ∧ ∀ x, x ∈ defaultTreePos n ↔ 1 ≤ x ∧ x ≤ n := by
  unfold defaultTreePos
  refine ⟨?_, by simp, fun x => ?_⟩
  · rw [List.nodup_iff_pairwise_ne]
    exact (List.Pairwise.map (R := (· < ·)) _ (fun a b h => by omega) List.pairwise_lt_range).imp
      (fun h => Nat.ne_of_lt h)
  · simp only [List.mem_map, List.mem_range]
    constructor
    · rintro ⟨a, ha, rfl⟩; omega
    · rintro ⟨h1, h2⟩; exact ⟨x - 1, by omega, by omega⟩

/-- `treeHeight n b` is the number of levels of the `b`-ary heap layout with `n` nodes:
with `S h = 1 + b + … + b^(h-1)`, `S (h-1) < n ≤ S h`. -/
theorem treeHeight_levels (n b : Nat) (hb : 2 ≤ b) (hn : 1 ≤ n) :
    1 ≤ treeHeight n b ∧ lvlStart b (treeHeight n b - 1) < n ∧ n ≤ lvlStart b (treeHeight n b) :=
  treeHeight_spec (by omega) hn

/-- Bridging lemma: the definition regenerated from internal/tree/tree.go `treeHeight` on every run
equals the model's, for every fuel that covers the loop. -/
theorem gen_treeHeight (fuel n b : Nat) (hb : 1 ≤ b) (hf : n ≤ fuel) :
    HsVerif.Gen.treeHeight fuel (n : Int) (b : Int) = (treeHeight n b : Int) := by
  have key : ∀ (f1 f2 : Nat) (x m : Int) (ls h : Nat), 1 ≤ ls → m.toNat ≤ f1 → m.toNat ≤ f2 →
      (HsVerif.Gen.treeHeight_loop x (b : Int) f1 (m, (ls : Int), (h : Int))).2.2 =
        (treeHeightAux b f2 m.toNat ls h : Int) := by
    intro f1
    induction f1 with
    | zero =>
      intro f2 x m ls h hls h1 h2
      have : m.toNat = 0 := by omega
      rw [this]
      cases f2 <;> simp [HsVerif.Gen.treeHeight_loop, treeHeightAux]
    | succ f1 ih =>
      intro f2 x m ls h hls h1 h2
      unfold HsVerif.Gen.treeHeight_loop
      by_cases hm : m > 0
      · have hd : decide (m > 0) = true := by simp [hm]
        rw [hd]
        simp only [if_true]
        cases f2 with
        | zero => omega
        | succ f2 =>
          unfold treeHeightAux
          have hpos : m.toNat > 0 := by omega
          rw [if_pos hpos]
          have e1 : ((ls : Int) * (b : Int)) = ((ls * b : Nat) : Int) := by simp
          have e2 : ((h : Int) + 1) = ((h + 1 : Nat) : Int) := by simp
          have e3 : (m - (ls : Int)).toNat = m.toNat - ls := by omega
          rw [e1, e2, ← e3]
          apply ih
          · exact Nat.mul_pos hls (by omega)
          · omega
          · omega
      · have hd : decide (m > 0) = false := by simp [hm]
        rw [hd]
        have : m.toNat = 0 := by omega
        rw [this]
        cases f2 <;> simp [treeHeightAux]
  have := key fuel n (n : Int) (n : Int) 1 0 (by omega) (by simpa using hf) (by simp)
  simp only [Int.toNat_natCast] at this
  show (HsVerif.Gen.treeHeight_loop (n : Int) (b : Int) fuel ((n : Int), 1, 0)).2.2 = _
  exact this

/-! Non-vacuity: a concrete incomplete, permuted tree (n = 10, b = 3, ids not 1..n). -/

example : let pos := [50, 7, 31, 4, 12, 99, 1, 8, 23, 16]
    (view 3 pos 7).parent = (50, true) ∧ (view 3 pos 50).parent = (50, false) ∧
    (view 3 pos 50).childrenOf 50 = [7, 31, 4] ∧ (view 3 pos 31).replicaChildren = [8, 23, 16] ∧
    (view 3 pos 7).subTree = [12, 99, 1] ∧ (view 3 pos 50).subTree = [7, 31, 4, 12, 99, 1, 8, 23, 16] ∧
    (view 3 pos 4).subTree = [] ∧ (view 3 pos 23).peersOf = [8, 23, 16] ∧
    (view 3 pos 50).replicaHeight = 3 ∧ (view 3 pos 4).replicaHeight = 2 ∧ (view 3 pos 16).replicaHeight = 1 ∧
    disseminate 3 pos = pos ∧ voteUp 3 pos 10 16 = [16, 31, 50] := by decide

example : treeHeight 1 2 = 1 ∧ treeHeight 7 2 = 3 ∧ treeHeight 8 2 = 4 ∧ treeHeight 40 6 = 3 ∧ treeHeight 111 10 = 3 := by decide

example : newSimple 1 1 [1, 2, 3] = none ∧ newSimple 9 2 [1, 2, 3] = none ∧ (newSimple 2 2 [1, 2, 3]).isSome = true := by decide

example : shuffle [0, 1, 0, 2] [1, 2, 3, 4, 5] = [4, 3, 5, 2, 1] := by decide

end HsVerif.Props.C17
