import HsVerif.Model.Cert
import HsVerif.Gen.ViewStates
/-! C07 — the tie by translation for `protocol/viewstates.go`.
`Gen/ViewStates.lean` is regenerated from the Go source on every run (tools/gofacts/methods.go): the
methods of `ViewStates` as pure functions of the fields `highTC`, `highQC`, `view`, `committedBlock`;
certificates and blocks are opaque values, `qc.View()`, `qc.BlockHash()`, `block.View()`, `tc.View()`
and `s.blockchain.Get` are parameters.  gofacts also extracts WHICH functions of package `protocol`
assign these (unexported) fields; `vlib/prop_C07.py` expects exactly the constructor and the methods
below.  So every history of a `ViewStates` value is a word over `VOp`, and the theorems here — about the
code as regenerated, not about a hand-written model — cover all of them:
the current view, the view of the high TC and (for certificates whose view is their block's view, which is
what `VerifyQuorumCert` guarantees, C02 `relabelled_view_rejected`) the view of the high QC never decrease.
The last section states that the hand-written replica model performs the same updates. -/
set_option linter.unusedVariables false
namespace HsVerif.Props.C07Gen
open HsVerif.Gen.Methods

section generic
variable {QC TC Blk Hash : Type}

/-- The environment of a `ViewStates`: accessors of the opaque values and the block store's `Get`. -/
structure Env (QC TC Blk Hash : Type) where
  qcView : QC → Int
  qcHash : QC → Hash
  tcView : TC → Int
  blkView : Blk → Int
  get : Hash → Blk × Bool

abbrev VS (QC TC Blk : Type) := TC × QC × Int × Blk

/-- The methods of `ViewStates` (all of them; the readers included). -/
inductive VOp (QC TC Blk : Type) where
  | updateHighQC (qc : QC)
  | updateHighTC (tc : TC)
  | nextView
  | enterViewAfter (certified : Int)
  | view | highQC | highTC
  | updateCommittedBlock (b : Blk)
  | committedBlock

/-- One method call through the regenerated code; only the new field values are kept. -/
def vstep (E : Env QC TC Blk Hash) (s : VS QC TC Blk) : VOp QC TC Blk → VS QC TC Blk
  | .updateHighQC qc => (ViewStates_UpdateHighQC E.get E.qcHash E.blkView E.qcView s.1 s.2.1 s.2.2.1 s.2.2.2 qc).1
  | .updateHighTC tc => (ViewStates_UpdateHighTC E.tcView s.1 s.2.1 s.2.2.1 s.2.2.2 tc).1
  | .nextView => (ViewStates_NextView s.1 s.2.1 s.2.2.1 s.2.2.2).1
  | .enterViewAfter c => (ViewStates_EnterViewAfter s.1 s.2.1 s.2.2.1 s.2.2.2 c).1
  | .view => (ViewStates_View s.1 s.2.1 s.2.2.1 s.2.2.2).1
  | .highQC => (ViewStates_HighQC s.1 s.2.1 s.2.2.1 s.2.2.2).1
  | .highTC => (ViewStates_HighTC s.1 s.2.1 s.2.2.1 s.2.2.2).1
  | .updateCommittedBlock b => (ViewStates_UpdateCommittedBlock s.1 s.2.1 s.2.2.1 s.2.2.2 b).1
  | .committedBlock => (ViewStates_CommittedBlock s.1 s.2.1 s.2.2.1 s.2.2.2).1

def vrun (E : Env QC TC Blk Hash) (s : VS QC TC Blk) (ops : List (VOp QC TC Blk)) : VS QC TC Blk :=
  ops.foldl (vstep E) s

/-! ## What each method does -/

/-- `EnterViewAfter(certified)`: the view after the certificate's if that is not older than the current
view, otherwise no change; the new view is returned. -/
theorem enterViewAfter_spec (tc : TC) (qc : QC) (v : Int) (b : Blk) (certified : Int) :
    ViewStates_EnterViewAfter tc qc v b certified =
      ((tc, qc, (if certified ≥ v then certified + 1 else v), b), (if certified ≥ v then certified + 1 else v), true) := by
  unfold ViewStates_EnterViewAfter; split <;> rfl

/-- After `EnterViewAfter(certified)` the view is above `certified` and not below the old view. -/
theorem enterViewAfter_above (tc : TC) (qc : QC) (v : Int) (b : Blk) (certified : Int) :
    certified < (ViewStates_EnterViewAfter tc qc v b certified).1.2.2.1 ∧
    v ≤ (ViewStates_EnterViewAfter tc qc v b certified).1.2.2.1 := by
  rw [enterViewAfter_spec]; simp only; split <;> omega

theorem nextView_spec (tc : TC) (qc : QC) (v : Int) (b : Blk) :
    ViewStates_NextView tc qc v b = ((tc, qc, v + 1, b), v + 1, true) := rfl

/-- `UpdateHighTC`: the new high TC is the argument exactly when its view is higher. -/
theorem updateHighTC_spec (tv : TC → Int) (h : TC) (qc : QC) (v : Int) (b : Blk) (tc : TC) :
    ViewStates_UpdateHighTC tv h qc v b tc = ((if tv tc > tv h then tc else h, qc, v, b), (), true) := by
  unfold ViewStates_UpdateHighTC; split <;> rfl

/-- `UpdateHighQC`: reports an error and changes nothing when the certified block is unknown; otherwise
the high QC becomes the argument exactly when ITS BLOCK's view is above the high QC's view. -/
theorem updateHighQC_spec (E : Env QC TC Blk Hash) (h : TC) (hq : QC) (v : Int) (b : Blk) (qc : QC) :
    ViewStates_UpdateHighQC E.get E.qcHash E.blkView E.qcView h hq v b qc =
      if (E.get (E.qcHash qc)).2 = false then ((h, hq, v, b), (false, true), true)
      else if E.blkView (E.get (E.qcHash qc)).1 ≤ E.qcView hq then ((h, hq, v, b), (false, false), true)
      else ((h, qc, v, b), (true, false), true) := by
  unfold ViewStates_UpdateHighQC; (repeat' split) <;> simp_all

/-- The readers return the field and change nothing. -/
theorem readers_spec (tc : TC) (qc : QC) (v : Int) (b : Blk) :
    ViewStates_View tc qc v b = ((tc, qc, v, b), v, true) ∧
    ViewStates_HighQC tc qc v b = ((tc, qc, v, b), qc, true) ∧
    ViewStates_HighTC tc qc v b = ((tc, qc, v, b), tc, true) ∧
    ViewStates_CommittedBlock tc qc v b = ((tc, qc, v, b), b, true) := ⟨rfl, rfl, rfl, rfl⟩

/-! ## Over every history of a `ViewStates` value -/

theorem step_view_le (E : Env QC TC Blk Hash) (s : VS QC TC Blk) (o : VOp QC TC Blk) :
    s.2.2.1 ≤ (vstep E s o).2.2.1 := by
  cases o <;> simp only [vstep, updateHighQC_spec, updateHighTC_spec, nextView_spec, enterViewAfter_spec, readers_spec,
    ViewStates_UpdateCommittedBlock] <;> (repeat' split) <;> (try dsimp only) <;> omega

theorem step_tc_le (E : Env QC TC Blk Hash) (s : VS QC TC Blk) (o : VOp QC TC Blk) :
    E.tcView s.1 ≤ E.tcView (vstep E s o).1 := by
  cases o <;> simp only [vstep, updateHighQC_spec, updateHighTC_spec, nextView_spec, enterViewAfter_spec, readers_spec,
    ViewStates_UpdateCommittedBlock] <;> (repeat' split) <;> (try dsimp only) <;> omega

/-- a QC handed to `UpdateHighQC` names its block's view (what verification guarantees) -/
def Honest (E : Env QC TC Blk Hash) : VOp QC TC Blk → Prop
  | .updateHighQC qc => (E.get (E.qcHash qc)).2 = true → E.qcView qc = E.blkView (E.get (E.qcHash qc)).1
  | _ => True

theorem step_qc_le (E : Env QC TC Blk Hash) (s : VS QC TC Blk) (o : VOp QC TC Blk) (ho : Honest E o) :
    E.qcView s.2.1 ≤ E.qcView (vstep E s o).2.1 := by
  cases o with
  | updateHighQC qc =>
    simp only [vstep, updateHighQC_spec]
    simp only [Honest] at ho
    (repeat' split) <;> simp_all <;> omega
  | _ => simp only [vstep, updateHighTC_spec, nextView_spec, enterViewAfter_spec, readers_spec,
            ViewStates_UpdateCommittedBlock] <;> (repeat' split) <;> (try dsimp only) <;> omega

/-- **The current view never decreases**, whatever methods are called in whatever order with whatever
arguments. -/
theorem view_never_decreases (E : Env QC TC Blk Hash) (ops : List (VOp QC TC Blk)) (s : VS QC TC Blk) :
    s.2.2.1 ≤ (vrun E s ops).2.2.1 := by
  induction ops generalizing s with
  | nil => exact Int.le_refl _
  | cons o os ih => exact Int.le_trans (step_view_le E s o) (ih (vstep E s o))

/-- **The view of the high TC never decreases.** -/
theorem hightc_view_never_decreases (E : Env QC TC Blk Hash) (ops : List (VOp QC TC Blk)) (s : VS QC TC Blk) :
    E.tcView s.1 ≤ E.tcView (vrun E s ops).1 := by
  induction ops generalizing s with
  | nil => exact Int.le_refl _
  | cons o os ih => exact Int.le_trans (step_tc_le E s o) (ih (vstep E s o))

/-- **The view of the high QC never decreases**, for certificates that name their block's view. -/
theorem highqc_view_never_decreases (E : Env QC TC Blk Hash) (ops : List (VOp QC TC Blk)) (s : VS QC TC Blk)
    (h : ∀ o ∈ ops, Honest E o) : E.qcView s.2.1 ≤ E.qcView (vrun E s ops).2.1 := by
  induction ops generalizing s with
  | nil => exact Int.le_refl _
  | cons o os ih =>
    exact Int.le_trans (step_qc_le E s o (h o (List.mem_cons_self ..)))
      (ih (vstep E s o) (fun o' ho' => h o' (List.mem_cons_of_mem _ ho')))

/-- Why the side condition: `UpdateHighQC` compares the BLOCK's view with the high QC's view; a
certificate that understates its own view (never accepted by `VerifyQuorumCert`) would lower it. -/
theorem highqc_needs_honest_view :
    let E : Env (Int × Nat) Unit Int Nat := ⟨(·.1), (·.2), fun _ => 0, id, fun h => ((h : Int), true)⟩
    E.qcView (vstep E ((), (5, 5), 1, 0) (.updateHighQC (2, 7))).2.1 = 2 := by decide

/-- The committed block is written by `UpdateCommittedBlock` only. -/
theorem committed_changes_only_by_update (E : Env QC TC Blk Hash) (s : VS QC TC Blk) (o : VOp QC TC Blk)
    (h : ∀ b, o ≠ .updateCommittedBlock b) : (vstep E s o).2.2.2 = s.2.2.2 := by
  cases o <;> simp only [vstep, updateHighQC_spec, updateHighTC_spec, nextView_spec, enterViewAfter_spec, readers_spec] <;>
    first | (exact absurd rfl (h _)) | ((repeat' split) <;> rfl)

/-- Non-vacuity: a history that moves all three. -/
example :
    let E : Env (Int × Nat) Int Int Nat := ⟨(·.1), (·.2), id, id, fun h => ((h : Int), true)⟩
    vrun E (0, (0, 0), 1, 0) [.updateHighQC (3, 3), .enterViewAfter 3, .updateHighTC 4, .enterViewAfter 2, .nextView]
      = (4, (3, 3), 5, 0) := by decide

end generic

/-! ## The replica model performs these updates

`Model/Replica.lean: advanceView` inlines the three updates; the right-hand sides below are its
expressions, the left-hand sides the regenerated Go code on the model's certificate and block types. -/
theorem model_updateHighTC (high tc : HsVerif.Model.TC) (q : HsVerif.Model.QC) (v : Int) (b : HsVerif.Model.Block) :
    (ViewStates_UpdateHighTC (fun t : HsVerif.Model.TC => (t.view : Int)) high q v b tc).1.1 = (if tc.view > high.view then tc else high) := by
  rw [updateHighTC_spec]; simp only [gt_iff_lt, Int.ofNat_lt]

theorem model_updateHighQC (get : HsVerif.Model.Hash → HsVerif.Model.Block × Bool) (high q : HsVerif.Model.QC) (t : HsVerif.Model.TC)
    (v : Int) (b nb : HsVerif.Model.Block) (hget : get q.hash = (nb, true)) :
    (ViewStates_UpdateHighQC get (fun x : HsVerif.Model.QC => x.hash) (fun x : HsVerif.Model.Block => (x.view : Int))
        (fun x : HsVerif.Model.QC => (x.view : Int)) t high v b q).1.2.1
      = (if nb.view ≤ high.view then high else q) := by
  have := updateHighQC_spec (⟨fun x : HsVerif.Model.QC => (x.view : Int), (fun x : HsVerif.Model.QC => x.hash),
    fun _ : HsVerif.Model.TC => 0, fun x : HsVerif.Model.Block => (x.view : Int), get⟩) t high v b q
  simp only at this
  rw [this]
  simp only [hget, Int.ofNat_le]
  (repeat' split) <;> simp_all

/-- the model: `if view < s.view then return; newView := view + 1` -/
theorem model_enterViewAfter (t : HsVerif.Model.TC) (q : HsVerif.Model.QC) (b : HsVerif.Model.Block) (cur certified : Nat)
    (h : ¬ certified < cur) :
    (ViewStates_EnterViewAfter t q (cur : Int) b (certified : Int)).2.1 = ((certified + 1 : Nat) : Int) := by
  rw [enterViewAfter_spec]; simp only; split <;> omega

end HsVerif.Props.C07Gen
