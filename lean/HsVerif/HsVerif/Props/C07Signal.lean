import HsVerif.Props.C07Commit
import HsVerif.Proofs.SysSignal
/-! C07, the remaining clauses (task S7): "the view of the highest known TC never decreases" and "it never
skips signalling a view change to its own components".  Property theorems only; helpers in
Proofs/ReplicaSignal.lean (replica level) and Proofs/SysSignal.lean (system level).

A. THE HIGH TC.  `highTC` is written in one place (`advanceView`, `UpdateHighTC`:
   `if tc.view > s.highTC.view then tc else s.highTC`), so its view never decreases — in one delivered event
   from ANY state (`hightc_view_monotone`), in `Start`, along any list of events, between any two points of
   a run from the initial state, and across ANY action of the system from ANY system state
   (`hightc_view_monotone_sys`; no reachability, no side condition).

B. SIGNALLING.  `vcOuts outs`: the views `v` of the outputs `Out.viewChange v _` (what `tick` hands to the
   components registered for `ViewChangeEvent`); `vcQueued s`: the views of the `Ev.viewChange` events still
   in the queue; `vcWaiting s`: those in the deferred lists `waitingVC ++ waitingProp` (always `[]`: the
   handlers defer `.propose` / `.vote` events only — the hypothesis is needed because `tick` re-queues the
   deferred lists).  One step from ANY state with `vcWaiting s = []` and ANY event `e` (`step_signal`):
       vcOuts outs ++ vcQueued s' = vcQueued s ++ evVCs [e] ++ l,   entered s' = entered s ++ l,
       Climb s.view l s'.view
   (`entered s`: certified view + 1 of every advancement record of the ghost history — the views ENTERED;
   `Climb a l b`: `l` strictly increasing, above `a`, ending in `b`, empty iff `a = b`.  Since
   `EnterViewAfter` a replica that adopts a certificate of view `w ≥ view` enters `w + 1` directly: ONE
   signal per entered view, none for the views jumped over; the old statement listed `s.view + 1, …, s'.view`)
   — an injected `Ev.viewChange v _` is CARRIED IN THE EQUATION (`evVCs [e] = [v]`; `[]` for every other
   event, `step_signal_noVC`).  Run level (`signalled_run`): with `V` the views signalled in all steps so far
   (`runV`, `runV_is_runEvents`), `V ++ vcQueued s = entered s`, climbing from 1 to `s.view`, for every run from the initial state
   that delivers no `Ev.viewChange` event (`Ev.noVC`) — hence no view change is skipped
   (`no_view_change_skipped`), none is signalled twice and the order is increasing
   (`signalled_increasing`, `signalled_nodup`), nothing else is signalled (`signalled_sound`).  The
   restriction is necessary: `signal_counterexample` (the adversary delivers `Ev.viewChange 7 false`, the
   replica signals view 7 while in view 1).  System level: `signalled_sys` (the run with signalled views
   `sysRunV`, `sysRunV_is_sysRun`, for runs whose actions satisfy `SysAct.noVC`) and, per action from ANY
   reachable state with ANY delivered event, `signalled_sys_deliver` / `signalled_sys_start`.

C. Non-vacuity on kernel-evaluated runs: `sf_signalled` (the run `sfActs` of Props/C01Safety.lean: replicas
   1 and 2 signal `[2, 3, 4]`, replica 3 `[2, 3]`, queues empty), `nv_signalled` (the run `nvEvents` of
   Props/C01Pair.lean), `tc_run` (three local timeouts, two delivered to replica 1: its high TC moves from
   view 0 to view 1 and it signals `[2]`).
Nothing is partial. -/
set_option linter.unusedVariables false
namespace HsVerif.Props.C07Signal
open HsVerif.Model HsVerif.Props.C03 HsVerif.Props.C01Sys HsVerif.SysLedger HsVerif.SysSignal

/-! ### A. the high TC -/

/-- **The view of the high TC never decreases**: one delivered event — a message of any content from any
sender, a local timeout, any internal event — from ANY state -/
theorem hightc_view_monotone (k : Keys) (c : RCfg) (s : RState) (e : Ev) :
    s.highTC.view ≤ (step k c s e).1.highTC.view := step_hightc k c s e

/-- … and in `Start`, from any state -/
theorem hightc_view_monotone_start (k : Keys) (c : RCfg) (s : RState) :
    s.highTC.view ≤ (start k c s).1.highTC.view := start_hightc k c s

/-- along any list of events from any state -/
theorem hightc_view_monotone_run (k : Keys) (c : RCfg) (es : List Ev) (s : RState) :
    s.highTC.view ≤ (runEvents k c s es).highTC.view := by
  induction es generalizing s with
  | nil => exact Nat.le_refl _
  | cons e es ih => exact Nat.le_trans (step_hightc k c s e) (ih (step k c s e).1)

/-- **between any two points of any run from the initial state** (any events, in any order) -/
theorem hightc_view_never_decreases (k : Keys) (c : RCfg) (es more : List Ev) :
    (runEvents k c (start k c {}).1 es).highTC.view ≤ (runEvents k c (start k c {}).1 (es ++ more)).highTC.view := by
  have : runEvents k c (start k c {}).1 (es ++ more) = runEvents k c (runEvents k c (start k c {}).1 es) more := by
    simp [runEvents, List.foldl_append]
  rw [this]
  exact hightc_view_monotone_run k c more _

/-- **in the system of replica models**: across ANY action of the adversary from ANY system state -/
theorem hightc_view_monotone_sys (k : Keys) (C : SysCfg) (σ : SysState) (a : SysAct)
    (i : Nat) (s s' : RState) (hs : σ.reps.lookup i = some s) (hs' : (sysStep k C σ a).reps.lookup i = some s') :
    s.highTC.view ≤ s'.highTC.view :=
  sysStep_rep_rel k C σ a (fun _ s s' => s.highTC.view ≤ s'.highTC.view) (fun _ _ => Nat.le_refl _)
    (fun i s t nb => start_hightc k _ { s with truth := t, nextBytes := nb })
    (fun i s t nb e => step_hightc k _ { s with truth := t, nextBytes := nb } e)
    (fun _ _ _ => Nat.le_refl _) i s s' hs hs'

/-! ### B. signalling of view changes -/

/-- the definitions as in the task statement -/
example (outs : List Out) : vcOuts outs = outs.filterMap (fun o => match o with | .viewChange v _ => some v | _ => none) := by
  unfold vcOuts
  congr 1
example (s : RState) : vcQueued s = s.queue.filterMap (fun e => match e with | .viewChange v _ => some v | _ => none) := by
  unfold vcQueued evVCs
  congr 1
example (s : RState) : vcWaiting s =
    (s.waitingVC ++ s.waitingProp).filterMap (fun e => match e with | .viewChange v _ => some v | _ => none) := by
  unfold vcWaiting evVCs
  congr 1
example (v : Nat) (t : Bool) : evVCs [.viewChange v t] = [v] := rfl
example (e : Ev) (h : e.noVC = true) : evVCs [e] = [] := evVCs_noVC e h

/-- the views entered so far: certified view + 1 of every advancement record of the ghost history -/
example (s : RState) : entered s = (s.ghost.filter GRec.isAdv).map GRec.advTo := rfl
example (f cv : Nat) (t : Bool) : (GRec.adv f cv t).advTo = cv + 1 := rfl
/-- `Climb a l b`: `l` is strictly increasing, starts above `a`, ends in `b` (`a = b` iff `l = []`) -/
example (a b : Nat) : Climb a [] b ↔ a = b := Climb.nil_def a b
example (a x b : Nat) (l : List Nat) : Climb a (x :: l) b ↔ a < x ∧ Climb x l b := Climb.cons_def a x b l

/-- **View changes are signalled, each exactly once, in order — one delivered event** (ANY state `s` in
whose deferred lists no view-change event waits, ANY event `e`).  RESTATED for `EnterViewAfter` (a view change
enters the view after the certificate's, possibly jumping over views; the old statement listed
`s.view + 1, …, s'.view`).  With `s'` the state after the step and `outs` its outputs: the views signalled in
the step followed by the views of the view-change events still queued are the views of the view-change
events queued before, then that of `e` if it is a view-change event, then exactly the views `l` ENTERED in
this step (the ghost history's advancement records grew by exactly these), in order; `l` climbs strictly
from `s.view` to `s'.view` (all above `s.view`, strictly increasing, the last one is `s'.view`, `l = []` iff
the view did not change); still no view-change event is deferred; the view has not decreased. -/
theorem step_signal (k : Keys) (c : RCfg) (s : RState) (e : Ev) (hw : vcWaiting s = []) :
    (∃ l, vcOuts (step k c s e).2 ++ vcQueued (step k c s e).1 = (vcQueued s ++ evVCs [e]) ++ l ∧
        entered (step k c s e).1 = entered s ++ l ∧ Climb s.view l (step k c s e).1.view) ∧
      vcWaiting (step k c s e).1 = [] ∧ s.view ≤ (step k c s e).1.view :=
  HsVerif.Model.step_signal k c s e hw

/-- … for an event that is not itself a view-change event -/
theorem step_signal_noVC (k : Keys) (c : RCfg) (s : RState) (e : Ev) (hw : vcWaiting s = []) (he : e.noVC = true) :
    (∃ l, vcOuts (step k c s e).2 ++ vcQueued (step k c s e).1 = vcQueued s ++ l ∧
        entered (step k c s e).1 = entered s ++ l ∧ Climb s.view l (step k c s e).1.view) ∧
      vcWaiting (step k c s e).1 = [] ∧ s.view ≤ (step k c s e).1.view := by
  have := HsVerif.Model.step_signal k c s e hw
  unfold VCStep at this
  rw [evVCs_noVC e he, List.append_nil] at this
  exact this

/-- the same for `Start` -/
theorem start_signal (k : Keys) (c : RCfg) (s : RState) (hw : vcWaiting s = []) :
    (∃ l, vcOuts (start k c s).2 ++ vcQueued (start k c s).1 = vcQueued s ++ l ∧
        entered (start k c s).1 = entered s ++ l ∧ Climb s.view l (start k c s).1.view) ∧
      vcWaiting (start k c s).1 = [] ∧ s.view ≤ (start k c s).1.view :=
  HsVerif.Model.start_signal k c s hw

/-- what the climbing list of a step means: strictly increasing, every element above the old view and at
most the new one, the new view is its last element, and it is empty exactly when the view did not change -/
theorem climb_facts (a b : Nat) (l : List Nat) (h : Climb a l b) :
    l.Pairwise (· < ·) ∧ (∀ x ∈ l, a < x ∧ x ≤ b) ∧ l.getLast?.getD a = b ∧ (l = [] ↔ a = b) ∧ (a < b → b ∈ l) :=
  ⟨h.pairwise, h.mem, h.getLast?, h.nil_iff, h.end_mem⟩

/-- the run with signalled views is the run -/
theorem runV_is_runEvents (k : Keys) (c : RCfg) (es : List Ev) :
    (runV k c (startV k c {}) es).1 = runEvents k c (start k c {}).1 es := runV_fst k c _ es

/-- what `runV` accumulates: `Start`'s signals, then each step's -/
example (k : Keys) (c : RCfg) : (startV k c {}).2 = vcOuts (start k c {}).2 := rfl
example (k : Keys) (c : RCfg) (p : RState × List Nat) (e : Ev) (es : List Ev) :
    runV k c p (e :: es) = runV k c ((step k c p.1 e).1, p.2 ++ vcOuts (step k c p.1 e).2) es := rfl

/-- **Run level: all views signalled so far, followed by those still queued, are exactly the views ENTERED
so far** (RESTATED for `EnterViewAfter`: was `2, 3, …, view`; a lagging replica that adopts a certificate of
view `w` enters `w + 1` directly and signals `w + 1` only), which climb strictly from view 1 to the current
view — for every run from the initial state whose delivered events are not `Ev.viewChange` events -/
theorem signalled_run (k : Keys) (c : RCfg) (es : List Ev) (hes : ∀ e ∈ es, e.noVC = true) :
    (runV k c (startV k c {}) es).2 ++ vcQueued (runV k c (startV k c {}) es).1 =
        entered (runV k c (startV k c {}) es).1 ∧
      Climb 1 (entered (runV k c (startV k c {}) es).1) (runV k c (startV k c {}) es).1.view ∧
      vcWaiting (runV k c (startV k c {}) es).1 = [] ∧ 1 ≤ (runV k c (startV k c {}) es).1.view := by
  have := runV_sig k c es hes _ (startV_sig k c)
  exact ⟨this.all, this.climb, this.wait, this.pos⟩

/-- the signalled views are a prefix of the entered views -/
theorem signalled_prefix (k : Keys) (c : RCfg) (es : List Ev) (hes : ∀ e ∈ es, e.noVC = true) :
    (runV k c (startV k c {}) es).2 <+: entered (runV k c (startV k c {}) es).1 :=
  ⟨_, (signalled_run k c es hes).1⟩

/-- **in increasing order** -/
theorem signalled_increasing (k : Keys) (c : RCfg) (es : List Ev) (hes : ∀ e ∈ es, e.noVC = true) :
    ((runV k c (startV k c {}) es).2).Pairwise (· < ·) :=
  (signalled_run k c es hes).2.1.pairwise.sublist (signalled_prefix k c es hes).sublist

/-- **none signalled twice** -/
theorem signalled_nodup (k : Keys) (c : RCfg) (es : List Ev) (hes : ∀ e ∈ es, e.noVC = true) :
    ((runV k c (startV k c {}) es).2).Nodup :=
  (signalled_increasing k c es hes).imp Nat.ne_of_lt

/-- **no view change is skipped** (RESTATED: "every view `2 ≤ v ≤ view`" became "every view ENTERED"): every
view entered so far — in particular the current one, unless it is still view 1 — has been signalled or its
signal is queued -/
theorem no_view_change_skipped (k : Keys) (c : RCfg) (es : List Ev) (hes : ∀ e ∈ es, e.noVC = true) :
    (∀ v ∈ entered (runV k c (startV k c {}) es).1,
        v ∈ (runV k c (startV k c {}) es).2 ∨ v ∈ vcQueued (runV k c (startV k c {}) es).1) ∧
      (2 ≤ (runV k c (startV k c {}) es).1.view →
        (runV k c (startV k c {}) es).1.view ∈ (runV k c (startV k c {}) es).2 ∨
          (runV k c (startV k c {}) es).1.view ∈ vcQueued (runV k c (startV k c {}) es).1) := by
  have h := signalled_run k c es hes
  have hall : ∀ v ∈ entered (runV k c (startV k c {}) es).1,
      v ∈ (runV k c (startV k c {}) es).2 ∨ v ∈ vcQueued (runV k c (startV k c {}) es).1 := by
    intro v hv
    rw [← h.1] at hv
    exact List.mem_append.mp hv
  exact ⟨hall, fun h2 => hall _ (h.2.1.end_mem (by omega))⟩

/-- nothing else is signalled: a signalled view has been entered (and is between 2 and the current view) -/
theorem signalled_sound (k : Keys) (c : RCfg) (es : List Ev) (hes : ∀ e ∈ es, e.noVC = true) (v : Nat)
    (hv : v ∈ (runV k c (startV k c {}) es).2) :
    2 ≤ v ∧ v ≤ (runV k c (startV k c {}) es).1.view ∧ v ∈ entered (runV k c (startV k c {}) es).1 := by
  have h := signalled_run k c es hes
  have : v ∈ entered (runV k c (startV k c {}) es).1 := by
    rw [← h.1]; exact List.mem_append_left _ hv
  have := h.2.1.mem v this
  exact ⟨by omega, this.2, ‹_›⟩

/-! #### system level -/

/-- the run with signalled views is the run -/
theorem sysStepV_is_sysStep (k : Keys) (C : SysCfg) (σ : SysState) (V : Nat → List Nat) (a : SysAct) :
    (sysStepV k C (σ, V) a).1 = sysStep k C σ a := rfl

theorem sysRunV_is_sysRun (k : Keys) (C : SysCfg) (acts : List SysAct) : (sysRunV k C acts).1 = sysRun k C acts :=
  sysRunV_fst k C acts

/-- **In the system of replica models**: along every run in which the adversary delivers no `Ev.viewChange`
event, for every replica the views signalled so far followed by those still queued are the views it ENTERED
(RESTATED for `EnterViewAfter`: was `2, 3, …, view`), which climb strictly from view 1 to its view. -/
theorem signalled_sys (k : Keys) (C : SysCfg) (acts : List SysAct) (hacts : ∀ a ∈ acts, a.noVC = true)
    (i : Nat) (s : RState) (hs : (sysRunV k C acts).1.reps.lookup i = some s) :
    (sysRunV k C acts).2 i ++ vcQueued s = entered s ∧ Climb 1 (entered s) s.view ∧ vcWaiting s = [] ∧ 1 ≤ s.view := by
  rw [sysRunV_fst] at hs
  have := sysRunV_inv k C acts hacts i s hs
  exact ⟨this.all, this.climb, this.wait, this.pos⟩

/-- … hence in increasing order, none twice -/
theorem signalled_sys_increasing (k : Keys) (C : SysCfg) (acts : List SysAct) (hacts : ∀ a ∈ acts, a.noVC = true)
    (i : Nat) (s : RState) (hs : (sysRunV k C acts).1.reps.lookup i = some s) :
    ((sysRunV k C acts).2 i).Pairwise (· < ·) ∧ ((sysRunV k C acts).2 i).Nodup := by
  have h := signalled_sys k C acts hacts i s hs
  have hp : ((sysRunV k C acts).2 i).Pairwise (· < ·) :=
    h.2.1.pairwise.sublist (List.IsPrefix.sublist ⟨_, h.1⟩)
  exact ⟨hp, hp.imp Nat.ne_of_lt⟩

/-- **Per action, from ANY reachable state, ANY delivered event**: the views signalled by the step that
replica `i` takes continue the sequence (an injected view-change event is carried in the equation). -/
theorem signalled_sys_deliver (k : Keys) (C : SysCfg) (σ : SysState) (hr : Reach k C σ) (i : Nat) (e : Ev)
    (s : RState) (hs : σ.reps.lookup i = some s) :
    ∃ s' outs, (sysStep k C σ (.deliver i e)).reps.lookup i = some s' ∧
      stepOuts k C σ (.deliver i e) = some (i, outs) ∧
      (∃ l, vcOuts outs ++ vcQueued s' = (vcQueued s ++ evVCs [e]) ++ l ∧ entered s' = entered s ++ l ∧
        Climb s.view l s'.view) ∧
      vcWaiting s' = [] ∧ s.view ≤ s'.view := by
  obtain ⟨h1, h2⟩ := sysStep_deliver_lookup k C σ i e s hs
  exact ⟨_, _, h1, h2,
    HsVerif.Model.step_signal k (C.rcfg i) { s with truth := σ.truth, nextBytes := σ.nextBytes } e
      (reach_vcwait k C σ hr i s hs)⟩

theorem signalled_sys_start (k : Keys) (C : SysCfg) (σ : SysState) (hr : Reach k C σ) (i : Nat)
    (s : RState) (hs : σ.reps.lookup i = some s) :
    ∃ s' outs, (sysStep k C σ (.start i)).reps.lookup i = some s' ∧
      stepOuts k C σ (.start i) = some (i, outs) ∧
      (∃ l, vcOuts outs ++ vcQueued s' = vcQueued s ++ l ∧ entered s' = entered s ++ l ∧ Climb s.view l s'.view) ∧
      vcWaiting s' = [] ∧ s.view ≤ s'.view := by
  obtain ⟨h1, h2⟩ := sysStep_start_lookup k C σ i s hs
  exact ⟨_, _, h1, h2,
    HsVerif.Model.start_signal k (C.rcfg i) { s with truth := σ.truth, nextBytes := σ.nextBytes }
      (reach_vcwait k C σ hr i s hs)⟩

/-- the view of a replica never decreases across any action from any reachable state -/
theorem view_monotone_sys (k : Keys) (C : SysCfg) (σ : SysState) (hr : Reach k C σ) (a : SysAct)
    (i : Nat) (s s' : RState) (hs : σ.reps.lookup i = some s) (hs' : (sysStep k C σ a).reps.lookup i = some s') :
    s.view ≤ s'.view :=
  sysStep_rep_rel k C σ a (fun _ s s' => vcWaiting s = [] → s.view ≤ s'.view) (fun _ _ _ => Nat.le_refl _)
    (fun i s t nb h => (HsVerif.Model.start_signal k _ { s with truth := t, nextBytes := nb } h).2.2)
    (fun i s t nb e h => (HsVerif.Model.step_signal k _ { s with truth := t, nextBytes := nb } e h).2.2)
    (fun _ _ _ _ => Nat.le_refl _) i s s' hs hs' (reach_vcwait k C σ hr i s hs)

/-! ### C. non-vacuity, and the counterexample -/
section NonVacuity
open HsVerif.Props.C01Safety HsVerif.Props.C01SysWF HsVerif.Props.C01Rule HsVerif.Props.C01Pair

set_option maxRecDepth 100000 in
/-- the run `sfActs` of Props/C01Safety.lean (no action delivers a view-change event): replicas 1 and 2 are
in view 4 and have signalled `[2, 3, 4]`, replica 3 is in view 3 and has signalled `[2, 3]`; nothing queued -/
theorem sf_signalled : (sysRunV exKeys exCfg sfActs).2 1 = [2, 3, 4] ∧ (sysRunV exKeys exCfg sfActs).2 2 = [2, 3, 4] ∧
    (sysRunV exKeys exCfg sfActs).2 3 = [2, 3] ∧ (∀ a ∈ sfActs, a.noVC = true) ∧
    (sysRunV exKeys exCfg sfActs).1.reps.map (fun p => (p.1, p.2.view, vcQueued p.2)) = [(1, 4, []), (2, 4, []), (3, 3, [])] := by
  refine ⟨?_, ?_, ?_, ?_, ?_⟩ <;> decide +kernel

/-- `signalled_sys` applied to the run: whatever replica 1's state is, its signalled views `[2, 3, 4]`
followed by its queued ones are the views it entered -/
example (s : RState) (hs : (sysRunV exKeys exCfg sfActs).1.reps.lookup 1 = some s) :
    [2, 3, 4] ++ vcQueued s = entered s := by
  have := (signalled_sys exKeys exCfg sfActs sf_signalled.2.2.2.1 1 s hs).1
  rw [sf_signalled.1] at this
  exact this

set_option maxRecDepth 100000 in
/-- the run `nvEvents` of Props/C01Pair.lean (replica 1 of 4, four proposals of views 1..4): it is in view 4
and has signalled `[2, 3, 4]` -/
theorem nv_signalled : (runV nvKeys nvCfg (startV nvKeys nvCfg {}) nvEvents).2 = [2, 3, 4] ∧
    (runV nvKeys nvCfg (startV nvKeys nvCfg {}) nvEvents).1.view = 4 ∧
    vcQueued (runV nvKeys nvCfg (startV nvKeys nvCfg {}) nvEvents).1 = [] ∧ (∀ e ∈ nvEvents, e.noVC = true) := by
  refine ⟨?_, ?_, ?_, ?_⟩ <;> decide +kernel

example : Climb 1 (entered (runV nvKeys nvCfg (startV nvKeys nvCfg {}) nvEvents).1) 4 := by
  have := (signalled_run nvKeys nvCfg nvEvents nv_signalled.2.2.2).2.1
  rw [nv_signalled.2.1] at this
  exact this

/-- the timeout message replica `i` sends on its first local timeout in view 1 (signature bytes `b`) -/
def tcTmo (i b : Nat) : TimeoutMsg :=
  { id := i, view := 1, viewSig := some (.multi .ecdsa [⟨i, b⟩]), msgSig := none,
    si := { qc := some genesisQC, tc := some ⟨none, 0⟩ } }

/-- a run with a timeout certificate: all three honest replicas time out in view 1; the timeout messages
of replicas 2 and 3 reach replica 1, which assembles the TC for view 1 and advances on it -/
def tcActs : List SysAct :=
  [.start 1, .start 2, .start 3, .deliver 1 (.localTimeout 1), .deliver 2 (.localTimeout 1), .deliver 3 (.localTimeout 1),
   .deliver 1 (.timeout (tcTmo 2 3)), .deliver 1 (.timeout (tcTmo 3 4))]

set_option maxRecDepth 100000 in
/-- **the high TC moves**: before the last delivery replica 1's high TC has view 0, after it view 1; replica 1
is then in view 2 and has signalled `[2]` (with `timeout = true`: the last step's outputs end in
`Out.viewChange 2 true`) -/
theorem tc_run :
    (sysRun exKeys exCfg (tcActs.take 7)).reps.map (fun p => (p.1, p.2.highTC.view, p.2.view)) = [(1, 0, 1), (2, 0, 1), (3, 0, 1)] ∧
    (sysRunV exKeys exCfg tcActs).1.reps.map (fun p => (p.1, p.2.highTC.view, p.2.view)) = [(1, 1, 2), (2, 0, 1), (3, 0, 1)] ∧
    (sysRunV exKeys exCfg tcActs).2 1 = [2] ∧ (∀ a ∈ tcActs, a.noVC = true) ∧
    ((stepOuts exKeys exCfg (sysRun exKeys exCfg (tcActs.take 7)) (.deliver 1 (.timeout (tcTmo 3 4)))).map
      (fun p => p.2.filterMap (fun o => match o with | .viewChange v t => some (v, t) | _ => none))) = some [(2, true)] := by
  refine ⟨?_, ?_, ?_, ?_, ?_⟩ <;> decide +kernel

set_option maxRecDepth 100000 in
/-- **Counterexample to the run-level statement without `noVC`**: the adversary delivers `Ev.viewChange 7 false`
to the started replica; it signals view 7 while in view 1, so signalled ++ queued is `[7]`, not `[]` -/
theorem signal_counterexample :
    (runV nvKeys nvCfg (startV nvKeys nvCfg {}) [.viewChange 7 false]).2 = [7] ∧
    (runV nvKeys nvCfg (startV nvKeys nvCfg {}) [.viewChange 7 false]).1.view = 1 ∧
    (runV nvKeys nvCfg (startV nvKeys nvCfg {}) [.viewChange 7 false]).2 ++
        vcQueued (runV nvKeys nvCfg (startV nvKeys nvCfg {}) [.viewChange 7 false]).1 ≠
      entered (runV nvKeys nvCfg (startV nvKeys nvCfg {}) [.viewChange 7 false]).1 := by
  refine ⟨?_, ?_, ?_⟩ <;> decide +kernel

end NonVacuity
end HsVerif.Props.C07Signal
