import HsVerif.Props.C14
/-! C06 — committed commands and the bounded event queue (repair 3b7dc98).

The committer hands every committed block's commands to the application by ADDING an `ExecuteEvent` to the
replica's event loop, whose queue is bounded and drops its oldest entries when full (C14).  Over the event-loop
model of C14, for every consistent state, every capacity and every queue content:

* `in_add_handler_sees_every_added_event` — a handler registered with `UnsafeRunInAddEvent` is called for every
  event of its type that is added, exactly once, at the time it is added — what `ClientIO` relies on since the
  repair; so over a sequence of AddEvent calls it sees the events in the order in which they were added (chain
  order, for the committer's ExecuteEvents);
* `ordinary_handler_misses_dropped_event` — the same handler registered WITHOUT the option misses an event that
  the full queue drops (the registration before the repair): capacity 1, two events added, one handled. -/
set_option linter.unusedVariables false
namespace HsVerif.Props.C06Queue
open HsVerif.Model HsVerif.Model.EL HsVerif.Model.Obs HsVerif.Props.C14

theorem in_add_handler_sees_every_added_event (c : Nat) (s : EL) (hwf : WF c s) (e : LEv) (r : Nat)
    (hr : Registered s r e.ty true) :
    (r, e) ∈ invsOf true (addEvent s e).2 ∧ (invsOf true (addEvent s e).2).count (r, e) = 1 := by
  obtain ⟨ps, os, h1, hnd, h3, _, _, _⟩ := add_dispatch_once_in_order c s hwf e
  have hmem : r ∈ ps ++ os := (h3 r).mpr hr
  have hin : (r, e) ∈ invsOf true (addEvent s e).2 := by rw [h1]; exact List.mem_map.mpr ⟨r, hmem, rfl⟩
  refine ⟨hin, ?_⟩
  have hnd' : (invsOf true (addEvent s e).2).Nodup := by
    rw [h1]
    unfold List.Nodup at *
    exact List.Pairwise.map _ (fun a b hab h => hab (by injection h)) hnd
  rw [hnd'.count]; simp [hin]

/-- Without the option the handler depends on the queued copy: capacity 1, a handler for type 0, two events
added before the loop runs — the first is dropped (and reported), only the second reaches the handler. -/
theorem ordinary_handler_misses_dropped_event :
    let s0 := (EL.new 1 []).register 0 ⟨false, false⟩ [] false
    let r := EL.run s0 [.add ⟨0, 1⟩, .add ⟨0, 2⟩, .tick, .tick]
    invsOf false r.2 = [(0, ⟨0, 2⟩)] ∧ droppedOf r.2 = [⟨0, 1⟩] := by decide

/-- … and with the option both are handled, in the order added, although the queue drops the first. -/
theorem in_add_handler_example :
    let s0 := (EL.new 1 []).register 0 ⟨true, false⟩ [] false
    let r := EL.run s0 [.add ⟨0, 1⟩, .add ⟨0, 2⟩, .tick, .tick]
    invsOf true r.2 = [(0, ⟨0, 1⟩), (0, ⟨0, 2⟩)] ∧ droppedOf r.2 = [⟨0, 1⟩] := by decide

end HsVerif.Props.C06Queue
