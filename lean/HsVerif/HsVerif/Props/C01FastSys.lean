import HsVerif.Proofs.FastSys
import HsVerif.Props.C01Ledger
/-! C01, Fast-HotStuff, system layer (task F3) — THE SYSTEM OF REPLICA MODELS IS SAFE UNDER FAST-HOTSTUFF
(two-chain commit, no lock, aggregate QCs).  Property theorems only; helpers in Proofs/FastSys.lean.

Setting, as in Props/C01Safety.lean: any reachable state `σ` of the system of replica models (Model/Sys.lean),
`KeysOK k`, `1 ≤ C.n`, `FewFaulty C`, ECDSA / EdDSA (`C.scheme ≠ .bls12`), `C.rules = .fast` (any `C.agg`),
`blk : Hash → Block` with content addressing `CA σ blk` (Proofs/SysDiscipline.lean).  The strengthened `CA'`
(no block stored under the empty hash) is NOT needed: it serves the lock invariants of chained / simplified
HotStuff, and Fast-HotStuff has no lock.

  1. abstract, untimed (`Safety.Sys`): `FastDiscipline`, `TwoChain`, `fast_certified_extends`,
     `fast_committed_on_one_branch`;
  2. `sys_committed_by_any` (the commit invariant `CommittedBy`, every ruleset), `sys_qc_is_parent_view`
     (a voted block's QC view is the view of its abstract parent), `sys_lockjust`, `sys_fast_discipline`;
  3. `sys_fast_safety`, `sys_fast_committed_two_chain`, `sys_fast_commits_agree`;
  4. ledgers: `ledger_inv_fast`, `ledger_is_chain_fast`, `ledgers_prefix_related_fast`, `ledger_nodup_fast`
     (hypothesis `noCommit` as in Props/C01Ledger.lean, `CA` of the FINAL state only);
  5. non-vacuity: a kernel-evaluated run (`rules := .fast, agg := true`, ECDSA, ids 1, 2, 3 honest, 4
     Byzantine) in which views end by timeout certificates and replica 1 votes for `P3` — a proposal WITH a
     verified aggregate QC — and COMMITS `P1`; all hypotheses checked, the theorems applied.
Everything is proved as stated in the task; nothing is partial. -/
set_option linter.unusedVariables false
namespace HsVerif.Props.C01FastSys
open HsVerif.Model HsVerif.Props.C01Sys HsVerif.Props.C01SysWF HsVerif.Props.C01Ledger HsVerif.FastSys
  HsVerif.SysLedger HsVerif.Safety

/-! ### 1. the abstract argument (untimed) -/

/-- `FastDiscipline S`, unfolded: the five lock-free fields of `Discipline S` and `lockjust` -/
example (S : Sys) : FastDiscipline S ↔
    (S.view S.gen = 0 ∧ S.par S.gen = S.gen ∧
     (∀ Q1 Q2, S.Quorum Q1 → S.Quorum Q2 → ∃ r, Q1 r ∧ Q2 r ∧ S.honest r) ∧
     (∀ r x y, S.honest r → S.voted r x → S.voted r y → S.view x = S.view y → x = y) ∧
     (∀ r w, S.honest r → S.voted r w → GC S (S.par w) ∧ S.view (S.par w) < S.view w) ∧
     (∀ r x w, S.honest r → S.voted r x → S.voted r w → S.view x < S.view w →
        S.view (S.par x) ≤ S.view (S.par w))) :=
  ⟨fun D => ⟨D.gen_view, D.par_gen, D.inter, D.one_per_view, D.wf, D.lockjust⟩,
   fun ⟨h1, h2, h3, h4, h5, h6⟩ => ⟨h1, h2, h3, h4, h5, h6⟩⟩

/-- `TwoChain b0 b1`, unfolded -/
example (S : Sys) (b0 b1 : S.Blk) : TwoChain (S := S) b0 b1 ↔
    (S.par b1 = b0 ∧ S.view b1 = S.view b0 + 1 ∧ Certified S b1) :=
  ⟨fun T => ⟨T.p1, T.v1, T.cert⟩, fun ⟨h1, h2, h3⟩ => ⟨h1, h2, h3⟩⟩

/-- **Core of the safety argument**: under `FastDiscipline`, every certified block of view at least that of
the tail `b0` of a two-chain extends `b0`. -/
theorem fast_certified_extends {S : Sys} (D : FastDiscipline S) {b0 b1 : S.Blk} (T : TwoChain (S := S) b0 b1)
    (w : S.Blk) (hw : Certified S w) (hge : S.view b0 ≤ S.view w) : Ext S w b0 :=
  HsVerif.Safety.fast_certified_extends D T _ w rfl hw hge

/-- **Safety of Fast-HotStuff, abstract and untimed**: the tails of two two-chains are on one branch. -/
theorem fast_committed_on_one_branch {S : Sys} (D : FastDiscipline S) {b0 b1 c0 c1 : S.Blk}
    (Tb : TwoChain (S := S) b0 b1) (Tc : TwoChain (S := S) c0 c1) : Ext S b0 c0 ∨ Ext S c0 b0 :=
  HsVerif.Safety.fast_committed_on_one_branch D Tb Tc

/-! ### 2. the system of replica models is an instance -/

/-- **The commit invariant, for EVERY ruleset**: in every reachable system state the block a replica has
committed is genesis or the block the commit rule returned for a block the replica voted for. -/
theorem sys_committed_by_any (k : Keys) (C : SysCfg) (σ : SysState) (hr : Reach k C σ)
    (i : Nat) (s : RState) (hl : σ.reps.lookup i = some s) :
    s.committed = genesisBlock ∨ ∃ x id, GRec.vote x id ∈ s.ghost ∧ CommitChain (C.rcfg i) s x s.committed :=
  reach_committedBy k C σ hr i s hl

/-- **The QC view of a voted block is the view of its abstract parent** (any ruleset): the QC verified
against the replica's store, which `CA` identifies with `blk`. -/
theorem sys_qc_is_parent_view (k : Keys) (C : SysCfg) (hk : KeysOK k) (σ : SysState) (hr : Reach k C σ)
    (blk : Hash → Block) (hca : CA σ blk) (r : Nat) (w : Block) (hv : (SysAbs C σ blk).voted r w) :
    (SysAbs C σ blk).par w = blk w.qc.hash ∧ (SysAbs C σ blk).view ((SysAbs C σ blk).par w) = w.qc.view := by
  have hne := voted_ne_genesis k C hk σ hr blk r w hv
  obtain ⟨s, id, hs, hm⟩ := hv
  obtain ⟨_, _, h3⟩ := honest_vote_discipline k C hk σ hr r s hs
  obtain ⟨_, hpar, _, _⟩ := h3 w id hm
  have hp : (SysAbs C σ blk).par w = blk w.qc.hash := by rw [sysAbs_par, if_neg hne, hpar]
  refine ⟨hp, ?_⟩
  obtain ⟨hcur, _, _⟩ := sys_extended_invariant k C σ hr r s hs
  rw [hp]
  rcases verifyQC_blockView k _ s w.qc (hcur.2 w id hm) with ⟨hg, hz⟩ | ⟨b, hb, hbv⟩
  · rw [hg, hca.1, hz]; rfl
  · rw [← ((hca.2 r s hs).1 _ b hb).1]; exact hbv

/-- **`lockjust`** — the field of `FastDiscipline (SysAbs C σ blk)`: an honest Fast-HotStuff replica that
voted for `x` and, in a higher view, for `w` has `view (par x) ≤ view (par w)` (`sys_qcmono`, the order of the
ghost history, and `sys_qc_is_parent_view`). -/
theorem sys_lockjust (k : Keys) (C : SysCfg) (hk : KeysOK k) (σ : SysState) (hr : Reach k C σ)
    (hn : 1 ≤ C.n) (hf : FewFaulty C) (hsch : C.scheme ≠ .bls12) (hrl : C.rules = .fast)
    (blk : Hash → Block) (hca : CA σ blk) :
    ∀ r x w, (SysAbs C σ blk).honest r → (SysAbs C σ blk).voted r x → (SysAbs C σ blk).voted r w →
      (SysAbs C σ blk).view x < (SysAbs C σ blk).view w →
      (SysAbs C σ blk).view ((SysAbs C σ blk).par x) ≤ (SysAbs C σ blk).view ((SysAbs C σ blk).par w) :=
  FCtx.lockjust ⟨hk, hr, hn, hf, hsch, hrl, hca⟩

/-- **The system of Fast-HotStuff replica models keeps the discipline of the abstract argument.** -/
theorem sys_fast_discipline (k : Keys) (C : SysCfg) (hk : KeysOK k) (σ : SysState) (hr : Reach k C σ)
    (hn : 1 ≤ C.n) (hf : FewFaulty C) (hsch : C.scheme ≠ .bls12) (hrl : C.rules = .fast)
    (blk : Hash → Block) (hca : CA σ blk) : FastDiscipline (SysAbs C σ blk) :=
  FCtx.discipline ⟨hk, hr, hn, hf, hsch, hrl, hca⟩

/-! ### 3. safety -/

/-- **Safety of the system (Fast-HotStuff)**: any two two-chains (commit conditions) of `SysAbs C σ blk` are
on one branch. -/
theorem sys_fast_safety (k : Keys) (C : SysCfg) (hk : KeysOK k) (σ : SysState) (hr : Reach k C σ)
    (hn : 1 ≤ C.n) (hf : FewFaulty C) (hsch : C.scheme ≠ .bls12) (hrl : C.rules = .fast)
    (blk : Hash → Block) (hca : CA σ blk) {b0 b1 c0 c1 : (SysAbs C σ blk).Blk}
    (Tb : TwoChain (S := SysAbs C σ blk) b0 b1) (Tc : TwoChain (S := SysAbs C σ blk) c0 c1) :
    Ext (SysAbs C σ blk) b0 c0 ∨ Ext (SysAbs C σ blk) c0 b0 :=
  HsVerif.Safety.fast_committed_on_one_branch (sys_fast_discipline k C hk σ hr hn hf hsch hrl blk hca) Tb Tc

/-- **What a Fast-HotStuff replica has committed satisfies the commit condition of the abstract argument**:
it is genesis or the tail of a two-chain of `SysAbs C σ blk` (its child by an abstract parent link has the next
view and is certified — the block the replica voted for carries that child's QC). -/
theorem sys_fast_committed_two_chain (k : Keys) (C : SysCfg) (hk : KeysOK k) (σ : SysState) (hr : Reach k C σ)
    (hn : 1 ≤ C.n) (hf : FewFaulty C) (hsch : C.scheme ≠ .bls12) (hrl : C.rules = .fast)
    (blk : Hash → Block) (hca : CA σ blk) (i : Nat) (s : RState) (hl : σ.reps.lookup i = some s) :
    s.committed = genesisBlock ∨ ∃ b1, TwoChain (S := SysAbs C σ blk) s.committed b1 :=
  FCtx.committed ⟨hk, hr, hn, hf, hsch, hrl, hca⟩ hl

/-- **Committed blocks of any two honest Fast-HotStuff replicas are on one branch.** -/
theorem sys_fast_commits_agree (k : Keys) (C : SysCfg) (hk : KeysOK k) (σ : SysState) (hr : Reach k C σ)
    (hn : 1 ≤ C.n) (hf : FewFaulty C) (hsch : C.scheme ≠ .bls12) (hrl : C.rules = .fast)
    (blk : Hash → Block) (hca : CA σ blk) (i j : Nat) (si sj : RState)
    (hi : σ.reps.lookup i = some si) (hj : σ.reps.lookup j = some sj) :
    Ext (SysAbs C σ blk) si.committed sj.committed ∨ Ext (SysAbs C σ blk) sj.committed si.committed :=
  FCtx.commits_agree ⟨hk, hr, hn, hf, hsch, hrl, hca⟩ hi hj

/-! ### 4. ledgers -/

/-- `CA` is downward closed along a run (block maps and ghost histories only grow) -/
theorem ca_downward_run (k : Keys) (C : SysCfg) (blk : Hash → Block) (acts more : List SysAct)
    (h : CA (sysRun k C (acts ++ more)) blk) : CA (sysRun k C acts) blk := ca_back_run k C blk acts more h

/-- **The ledger invariant (Fast-HotStuff)**: for an honest replica at the end of a run without injected
commit events, ledger ++ pending log is a hash-linked chain from genesis ending in the committed block. -/
theorem ledger_inv_fast (k : Keys) (C : SysCfg) (hk : KeysOK k) (hn : 1 ≤ C.n) (hf : FewFaulty C)
    (hsch : C.scheme ≠ .bls12) (hrl : C.rules = .fast) (blk : Hash → Block) (acts : List SysAct)
    (hacts : ∀ a ∈ acts, a.noCommit = true) (hca : CA (sysRunL k C acts).1 blk) (i : Nat) (hi : i ∈ C.honest) :
    ∃ s, (sysRunL k C acts).1.reps.lookup i = some s ∧ RepLedger blk ((sysRunL k C acts).2 i) s := by
  rw [sysRunL_fst] at hca ⊢
  obtain ⟨s, hs⟩ := (reach_inv k C hk _ (reach_run k C acts)).dom i hi
  exact ⟨s, hs, sysRunL_inv_fast k C hk hn hf hsch hrl blk acts hacts hca i s hs⟩

/-- **Each honest Fast-HotStuff replica's committed sequence is a single hash-linked chain growing from
genesis**, and a commit log of the abstract system. -/
theorem ledger_is_chain_fast (k : Keys) (C : SysCfg) (hk : KeysOK k) (hn : 1 ≤ C.n) (hf : FewFaulty C)
    (hsch : C.scheme ≠ .bls12) (hrl : C.rules = .fast) (blk : Hash → Block) (acts : List SysAct)
    (hacts : ∀ a ∈ acts, a.noCommit = true) (hca : CA (sysRunL k C acts).1 blk) (i : Nat) (hi : i ∈ C.honest) :
    HashChain genesisHash 0 ((sysRunL k C acts).2 i) ∧
    ChainLog (SysAbs C (sysRunL k C acts).1 blk) genesisBlock ((sysRunL k C acts).2 i) := by
  obtain ⟨s, hs, hl⟩ := ledger_inv_fast k C hk hn hf hsch hrl blk acts hacts hca i hi
  have h1 := ((lchain_append blk _ _ _).mp hl.chain).1
  exact ⟨hashChain_of_lchain blk genesisBlock _ h1,
    chainLog_of_lchain C _ blk genesisBlock _ hca.1.symm h1⟩

/-- **The committed sequences of any two honest Fast-HotStuff replicas are prefix-related.** -/
theorem ledgers_prefix_related_fast (k : Keys) (C : SysCfg) (hk : KeysOK k) (hn : 1 ≤ C.n) (hf : FewFaulty C)
    (hsch : C.scheme ≠ .bls12) (hrl : C.rules = .fast) (blk : Hash → Block) (acts : List SysAct)
    (hacts : ∀ a ∈ acts, a.noCommit = true) (hca : CA (sysRunL k C acts).1 blk)
    (i j : Nat) (hi : i ∈ C.honest) (hj : j ∈ C.honest) :
    (sysRunL k C acts).2 i <+: (sysRunL k C acts).2 j ∨ (sysRunL k C acts).2 j <+: (sysRunL k C acts).2 i := by
  obtain ⟨si, hsi, hli⟩ := ledger_inv_fast k C hk hn hf hsch hrl blk acts hacts hca i hi
  obtain ⟨sj, hsj, hlj⟩ := ledger_inv_fast k C hk hn hf hsch hrl blk acts hacts hca j hj
  have hr : Reach k C (sysRunL k C acts).1 := by rw [sysRunL_fst]; exact reach_run k C acts
  have ci := chainLog_of_lchain C (sysRunL k C acts).1 blk genesisBlock _ hca.1.symm hli.chain
  have cj := chainLog_of_lchain C (sysRunL k C acts).1 blk genesisBlock _ hca.1.symm hlj.chain
  have hg := (sys_gen C (sysRunL k C acts).1 blk).2
  have key : ∀ (l1 l2 F1 F2 : List Block), l1 <+: F1 → l2 <+: F2 → F2 <+: F1 → l1 <+: l2 ∨ l2 <+: l1 :=
    fun l1 l2 F1 F2 h1 h2 h3 => List.prefix_or_prefix_of_prefix h1 (List.IsPrefix.trans h2 h3)
  rcases sys_fast_commits_agree k C hk _ hr hn hf hsch hrl blk hca i j si sj hsi hsj with h | h
  · have := logs_prefix (S := SysAbs C (sysRunL k C acts).1 blk) hg _ _ ci cj
      (by rw [logHead_eq_lastOr, logHead_eq_lastOr, hli.last, hlj.last]; exact h)
    exact key _ _ _ _ (List.prefix_append _ _) (List.prefix_append _ _) this
  · have := logs_prefix (S := SysAbs C (sysRunL k C acts).1 blk) hg _ _ cj ci
      (by rw [logHead_eq_lastOr, logHead_eq_lastOr, hli.last, hlj.last]; exact h)
    exact (key _ _ _ _ (List.prefix_append _ _) (List.prefix_append _ _) this).symm

/-- **No block is committed twice** (Fast-HotStuff): views strictly increase along a ledger. -/
theorem ledger_nodup_fast (k : Keys) (C : SysCfg) (hk : KeysOK k) (hn : 1 ≤ C.n) (hf : FewFaulty C)
    (hsch : C.scheme ≠ .bls12) (hrl : C.rules = .fast) (blk : Hash → Block) (acts : List SysAct)
    (hacts : ∀ a ∈ acts, a.noCommit = true) (hca : CA (sysRunL k C acts).1 blk) (i : Nat) (hi : i ∈ C.honest) :
    ((sysRunL k C acts).2 i).Pairwise (fun x y => x.view < y.view) ∧ ((sysRunL k C acts).2 i).Nodup := by
  have h := (hashChain_views _ _ _ (ledger_is_chain_fast k C hk hn hf hsch hrl blk acts hacts hca i hi).1).2
  refine ⟨h, h.imp ?_⟩
  intro x y hxy e
  rw [e] at hxy; exact Nat.lt_irrefl _ hxy

/-! ### 5. non-vacuity

Four replicas, ids 1, 2, 3 honest, id 4 Byzantine, round-robin leaders (views 1, 2, 3: ids 2, 3, 4), ECDSA,
`rules := .fast, agg := true`; timeout-message keys `fsKeys` of Props/C01FastLock.lean (a plain string
function the kernel evaluates; `fsKeys_ok`: it is never a block key).  With aggregate QCs a plain QC does not end
a view, so views end by timeout certificates:
  * view 1: replica 2 starts, proposes `P1` (genesis QC) and votes; `P1` is delivered to replica 1, which votes;
    the Byzantine id signs a vote for `P1`.  Replicas 1 and 2 time out, the Byzantine id signs the view message:
    the adversary assembles the timeout certificate `fxTC1` and delivers it to replicas 1 and 2 (view 2).
  * view 2: `P2` (QC for `P1`: signers 2, 1, 4; no aggregate QC — the happy path `view = qc.view + 1`) is
    delivered to replicas 1 and 2 in the name of leader 3; both vote; the Byzantine id votes too.  Replicas 1 and
    2 time out reporting the QC for `P1` (they sign the timeout message), the Byzantine id signs the view message
    and a timeout message reporting the QC for `P2`; the adversary assembles `fxTC2` and delivers it to replica 1
    (view 3).
  * view 3: the Byzantine leader 4 proposes `P3` (QC for `P2`) WITH the aggregate QC `fxAgg` of view 2 (reports
    of 1, 2, 4; highest reported QC: the QC for `P2`).  Replica 1 verifies the aggregate QC, checks that `P3`'s QC
    is not below the QC of its earlier votes (`votedQCView = 1 ≤ 2`), votes for `P3` and COMMITS `P1`
    (`P3 —qc→ P2 —qc→ P1`, direct parents, views 3, 2, 1).
Replica 2 has committed nothing but genesis, replica 3 never left the initial state.  All hypotheses of
`sys_lockjust` … `sys_fast_commits_agree` and of the ledger theorems hold together of the final state `fxState`;
even `CA'` holds.  Runs evaluated by the kernel (`decide +kernel`). -/
section NonVacuity
open HsVerif.Props.C01FastLock

theorem fsKeys_ok : KeysOK fsKeys := by
  intro i v q h e
  have := congrArg (fun s => s.toList.head?) e
  simp [fsKeys, blkMsg, toString] at this

def fxCfg : SysCfg :=
  { n := 4, rules := .fast, scheme := .ecdsa, agg := true, leaders := .roundRobin, honest := [1, 2, 3] }
def fxP1 : Block :=
  { hash := "P1", parent := "G", view := 1, proposer := 2, qc := genesisQC, cmds := ["102/1/c1"] }
def fxQC1 : QC := ⟨some (.multi .ecdsa [⟨2, 1⟩, ⟨1, 2⟩, ⟨4, 3⟩]), 1, "P1"⟩
def fxP2 : Block := { hash := "P2", parent := "P1", view := 2, proposer := 3, qc := fxQC1, cmds := [] }
def fxQC2 : QC := ⟨some (.multi .ecdsa [⟨1, 9⟩, ⟨2, 10⟩, ⟨4, 11⟩]), 2, "P2"⟩
def fxP3 : Block := { hash := "P3", parent := "P2", view := 3, proposer := 4, qc := fxQC2, cmds := [] }
def fxTC1 : TC := ⟨some (.multi .ecdsa [⟨1, 4⟩, ⟨2, 6⟩, ⟨4, 8⟩]), 1⟩
def fxTC2 : TC := ⟨some (.multi .ecdsa [⟨1, 12⟩, ⟨2, 14⟩, ⟨4, 16⟩]), 2⟩
/-- the aggregate QC of view 2: replicas 1 and 2 report the QC for `P1`, the Byzantine id the QC for `P2`; the
signatures are those over the three timeout messages -/
def fxAgg : AggQC :=
  ⟨[(1, fxQC1), (2, fxQC1), (4, fxQC2)], some (.multi .ecdsa [⟨1, 13⟩, ⟨2, 15⟩, ⟨4, 17⟩]), 2⟩

/-- "the block with that hash" in the run -/
def fxBlk (h : Hash) : Block :=
  if h = "P1" then fxP1 else if h = "P2" then fxP2 else if h = "P3" then fxP3 else genesisBlock

def fxActs : List SysAct :=
  [.start 2, .deliver 1 (.propose 2 fxP1 none), .forge ⟨4, blkMsg "P1"⟩,
   .deliver 1 (.localTimeout 1), .deliver 2 (.localTimeout 1), .forge ⟨4, viewMsg 1⟩,
   .deliver 1 (.newview 4 { tc := some fxTC1 }), .deliver 2 (.newview 4 { tc := some fxTC1 }),
   .deliver 1 (.propose 3 fxP2 none), .deliver 2 (.propose 3 fxP2 none), .forge ⟨4, blkMsg "P2"⟩,
   .deliver 1 (.localTimeout 2), .deliver 2 (.localTimeout 2), .forge ⟨4, viewMsg 2⟩,
   .forge ⟨4, fsKeys.tmo 4 2 (some fxQC2)⟩,
   .deliver 1 (.newview 4 { tc := some fxTC2 }),
   .deliver 1 (.propose 4 fxP3 (some fxAgg))]
def fxState : SysState := sysRun fsKeys fxCfg fxActs

set_option maxRecDepth 100000 in
/-- the hypotheses of `sys_lockjust`, `sys_fast_discipline`, `sys_fast_safety`, `sys_fast_committed_two_chain`
and `sys_fast_commits_agree` hold together of `fxState` (with `CA'`, of which `CA` is the first component), in
which honest replica 1 has voted for `P1`, `P2` and `P3` -/
theorem sys_fast_nonvacuous : KeysOK fsKeys ∧ Reach fsKeys fxCfg fxState ∧ 1 ≤ fxCfg.n ∧ FewFaulty fxCfg ∧
    fxCfg.scheme ≠ .bls12 ∧ fxCfg.rules = .fast ∧ fxCfg.agg = true ∧ CA' fxState fxBlk ∧
    (SysAbs fxCfg fxState fxBlk).honest 1 ∧ (SysAbs fxCfg fxState fxBlk).voted 1 fxP1 ∧
    (SysAbs fxCfg fxState fxBlk).voted 1 fxP2 ∧ (SysAbs fxCfg fxState fxBlk).voted 1 fxP3 :=
  ⟨fsKeys_ok, reach_run _ _ _, by decide, by unfold FewFaulty; decide, by decide, rfl, rfl,
    ca'_of_ca'Check _ _ (by decide +kernel), by decide,
    voted_of_votedCheck _ _ _ 1 fxP1 2 (by decide +kernel),
    voted_of_votedCheck _ _ _ 1 fxP2 3 (by decide +kernel),
    voted_of_votedCheck _ _ _ 1 fxP3 4 (by decide +kernel)⟩

set_option maxRecDepth 100000 in
/-- replica 1 has committed `P1`, replica 2 and replica 3 nothing but genesis -/
theorem fx_committed : (fxState.reps.lookup 1).map (·.committed) = some fxP1 ∧
    (fxState.reps.lookup 2).map (·.committed) = some genesisBlock ∧
    (fxState.reps.lookup 3).map (·.committed) = some genesisBlock := by
  refine ⟨?_, ?_, ?_⟩ <;> decide +kernel

/-- what `sys_lockjust` says of replica 1's votes for `P2` and `P3`: parent views 1 ≤ 2 -/
example : Block.view ((SysAbs fxCfg fxState fxBlk).par fxP2) ≤ Block.view ((SysAbs fxCfg fxState fxBlk).par fxP3) ∧
    (SysAbs fxCfg fxState fxBlk).par fxP2 = fxP1 ∧ (SysAbs fxCfg fxState fxBlk).par fxP3 = fxP2 := by
  obtain ⟨hk, hr, hn, hf, hs, hrl, _, hca, hh, _, hv2, hv3⟩ := sys_fast_nonvacuous
  exact ⟨sys_lockjust fsKeys fxCfg hk fxState hr hn hf hs hrl fxBlk hca.1 1 fxP2 fxP3 hh hv2 hv3 (by decide),
    by decide, by decide⟩

/-- what `sys_fast_committed_two_chain` and `sys_fast_commits_agree` yield in the run: `P1`, committed by
replica 1, is the tail of a two-chain of the abstract system (NOT the genesis case), and it extends what replica
3 has committed -/
theorem fx_theorems_apply : (∃ b1, TwoChain (S := SysAbs fxCfg fxState fxBlk) fxP1 b1) ∧
    Ext (SysAbs fxCfg fxState fxBlk) fxP1 genesisBlock := by
  obtain ⟨hk, hr, hn, hf, hs, hrl, _, hca, _⟩ := sys_fast_nonvacuous
  obtain ⟨c1, _, c3⟩ := fx_committed
  cases h1 : fxState.reps.lookup 1 with
  | none => rw [h1] at c1; cases c1
  | some s1 =>
    cases h3 : fxState.reps.lookup 3 with
    | none => rw [h3] at c3; cases c3
    | some s3 =>
      rw [h1] at c1; rw [h3] at c3
      have e1 : s1.committed = fxP1 := by simpa using c1
      have e3 : s3.committed = genesisBlock := by simpa using c3
      constructor
      · rcases sys_fast_committed_two_chain fsKeys fxCfg hk fxState hr hn hf hs hrl fxBlk hca.1 1 s1 h1 with h | h
        · rw [e1] at h; exact absurd h (by decide)
        · rw [e1] at h; exact h
      · rcases sys_fast_commits_agree fsKeys fxCfg hk fxState hr hn hf hs hrl fxBlk hca.1 1 3 s1 s3 h1 h3 with h | h
        · rw [e1, e3] at h; exact h
        · rw [e1, e3] at h
          obtain ⟨n, hn'⟩ := h
          have : up (SysAbs fxCfg fxState fxBlk) n genesisBlock = genesisBlock :=
            up_gen (sys_gen fxCfg fxState fxBlk).2 n
          rw [this] at hn'
          exact absurd hn' (by decide)

set_option maxRecDepth 100000 in
/-- the ledgers of the run (`[P1]`, `[]`, `[]`), and no action of it delivers a commit event -/
theorem fx_ledgers : (sysRunL fsKeys fxCfg fxActs).2 1 = [fxP1] ∧ (sysRunL fsKeys fxCfg fxActs).2 2 = [] ∧
    (sysRunL fsKeys fxCfg fxActs).2 3 = [] ∧ (∀ a ∈ fxActs, a.noCommit = true) := by
  refine ⟨?_, ?_, ?_, ?_⟩ <;> decide +kernel

/-- the ledger theorems applied to the run -/
theorem fx_ledger_theorems_apply :
    HashChain genesisHash 0 ((sysRunL fsKeys fxCfg fxActs).2 1) ∧
    ((sysRunL fsKeys fxCfg fxActs).2 3 <+: (sysRunL fsKeys fxCfg fxActs).2 1 ∨
      (sysRunL fsKeys fxCfg fxActs).2 1 <+: (sysRunL fsKeys fxCfg fxActs).2 3) ∧
    ((sysRunL fsKeys fxCfg fxActs).2 1).Nodup := by
  obtain ⟨hk, _, hn, hf, hs, hrl, _, hca, _⟩ := sys_fast_nonvacuous
  have hca' : CA (sysRunL fsKeys fxCfg fxActs).1 fxBlk := by
    have e : (sysRunL fsKeys fxCfg fxActs).1 = fxState := sysRunL_fst fsKeys fxCfg fxActs
    rw [e]; exact hca.1
  have ha := fx_ledgers.2.2.2
  have h1 : 1 ∈ fxCfg.honest := by decide
  have h3 : 3 ∈ fxCfg.honest := by decide
  exact ⟨(ledger_is_chain_fast fsKeys fxCfg hk hn hf hs hrl fxBlk fxActs ha hca' 1 h1).1,
    ledgers_prefix_related_fast fsKeys fxCfg hk hn hf hs hrl fxBlk fxActs ha hca' 3 1 h3 h1,
    (ledger_nodup_fast fsKeys fxCfg hk hn hf hs hrl fxBlk fxActs ha hca' 1 h1).2⟩

end NonVacuity

end HsVerif.Props.C01FastSys
