import HsVerif.Proofs.ReplicaLive
import HsVerif.Model.Replica
import HsVerif.Proofs.CertComplete
import HsVerif.Props.C02
/-! C08 — timeouts form a certificate exactly when a quorum timed out in that view.
Property theorems only.

`collectorAdd` is `timeoutCollector.add` (with `fix: … counts a view's quorum over that view's
timeouts only`); the conditions under which `OnRemoteTimeout` hands a message to the collector
(`fix: a timeout message must be signed by the replica it is attributed to`) are `Accepted`. -/
set_option linter.unusedVariables false
set_option linter.unusedSimpArgs false
namespace HsVerif.Props.C08
open HsVerif.Model

/-- collector invariant: at most one message per (view, sender) -/
def Keyed (ts : List TimeoutMsg) : Prop := ts.Pairwise (fun a b => ¬ (a.view = b.view ∧ a.id = b.id))

/-- the messages of view `v` held by the collector -/
def ofView (ts : List TimeoutMsg) (v : Nat) : List TimeoutMsg := ts.filter (fun x => x.view == v)

theorem keyed_filter (ts : List TimeoutMsg) (p : TimeoutMsg → Bool) (h : Keyed ts) : Keyed (ts.filter p) :=
  List.Pairwise.filter p h

/-- A duplicate (same view, same sender) is ignored: nothing changes, no quorum is reported. -/
theorem add_duplicate (q : Nat) (ts : List TimeoutMsg) (t : TimeoutMsg)
    (h : ∃ x ∈ ts, x.view = t.view ∧ x.id = t.id) : collectorAdd q ts t = (ts, none) := by
  unfold collectorAdd
  have : ts.any (fun x => x.view == t.view && x.id == t.id) = true := by
    obtain ⟨x, hx, h1, h2⟩ := h
    rw [List.any_eq_true]; exact ⟨x, hx, by simp [h1, h2]⟩
  simp [this]

/-- **Exactly when**: a fresh message of view `v` completes a quorum iff, with it, the collector
holds at least `quorum` messages *of view `v`*; then exactly those messages are returned (all of
view `v`, pairwise different senders, the new one among them) and removed, and the messages of
every other view are untouched; otherwise the message is simply kept. -/
theorem collector_exact (q : Nat) (ts : List TimeoutMsg) (t : TimeoutMsg) (hk : Keyed ts)
    (hnew : ¬ ∃ x ∈ ts, x.view = t.view ∧ x.id = t.id) :
    let same := ofView (ts ++ [t]) t.view
    (q ≤ same.length → collectorAdd q ts t = ((ts ++ [t]).filter (fun x => x.view != t.view), some same)) ∧
    (same.length < q → collectorAdd q ts t = (ts ++ [t], none)) ∧
    (∀ x ∈ same, x.view = t.view) ∧ t ∈ same ∧ Keyed same := by
  have hany : ts.any (fun x => x.view == t.view && x.id == t.id) = false := by
    rw [Bool.eq_false_iff]; intro h
    rw [List.any_eq_true] at h
    obtain ⟨x, hx, h2⟩ := h
    simp at h2
    exact hnew ⟨x, hx, h2.1, h2.2⟩
  have hk' : Keyed (ts ++ [t]) := by
    unfold Keyed
    rw [List.pairwise_append]
    refine ⟨hk, by simp, ?_⟩
    intro a ha b hb
    simp at hb; subst hb
    intro h; exact hnew ⟨a, ha, h.1, h.2⟩
  refine ⟨?_, ?_, ?_, ?_, ?_⟩
  · intro hq
    unfold collectorAdd
    simp only [hany, Bool.false_eq_true, ↓reduceIte]
    have : ¬ ((ts ++ [t]).filter (fun x => x.view == t.view)).length < q := by unfold ofView at hq; omega
    rw [if_neg this]; rfl
  · intro hq
    unfold collectorAdd
    simp only [hany, Bool.false_eq_true, ↓reduceIte]
    have : ((ts ++ [t]).filter (fun x => x.view == t.view)).length < q := by unfold ofView at hq; omega
    rw [if_pos this]
  · intro x hx
    simp [ofView] at hx
    rcases hx with ⟨_, h⟩ | ⟨rfl, _⟩
    · exact h
    · rfl
  · simp [ofView]
  · exact keyed_filter _ _ hk'

/-- **Timeouts for one view never count toward, or spoil, another view's quorum**: whatever
`add` does, the messages held for any other view are exactly what they were. -/
theorem other_views_untouched (q : Nat) (ts : List TimeoutMsg) (t : TimeoutMsg) (v : Nat) (hv : v ≠ t.view) :
    ofView (collectorAdd q ts t).1 v = ofView ts v := by
  unfold collectorAdd ofView
  split
  · rfl
  · simp only
    split
    · simp [List.filter_append, hv.symm, beq_iff_eq]
    · simp only [List.filter_filter]
      rw [List.filter_append]
      have : List.filter (fun a => (a.view == v) && (a.view != t.view)) [t] = [] := by simp
      rw [this, List.append_nil]
      apply List.filter_congr
      intro x _
      by_cases h : x.view = v
      · simp [h, hv]
      · simp [h]

/-- the collector keeps its invariant -/
theorem add_keyed (q : Nat) (ts : List TimeoutMsg) (t : TimeoutMsg) (hk : Keyed ts) : Keyed (collectorAdd q ts t).1 := by
  by_cases hnew : ∃ x ∈ ts, x.view = t.view ∧ x.id = t.id
  · rw [add_duplicate q ts t hnew]; exact hk
  · have hk' : Keyed (ts ++ [t]) := by
      unfold Keyed
      rw [List.pairwise_append]
      refine ⟨hk, by simp, ?_⟩
      intro a ha b hb
      simp at hb; subst hb
      intro h; exact hnew ⟨a, ha, h.1, h.2⟩
    obtain ⟨h1, h2, _⟩ := collector_exact q ts t hk hnew
    by_cases hq : q ≤ (ofView (ts ++ [t]) t.view).length
    · rw [h1 hq]; exact keyed_filter _ _ hk'
    · rw [h2 (by omega)]; exact hk'

/-- what `OnRemoteTimeout` requires of a timeout message before it reaches the collector: the view
signature is the sender's own, single, and verifies over the view -/
def Accepted (T : Truth) (c : Cfg) (t : TimeoutMsg) : Prop :=
  ∃ s, t.viewSig = some s ∧ s.WF ∧ s.len = 1 ∧ s.participants = [t.id] ∧ c.has t.id = true ∧
    verify T c s (viewMsg t.view) = true

theorem find_by_id (l : List TimeoutMsg) (hk : (l.map (·.id)).Nodup) :
    ∀ x ∈ l, l.find? (fun y => y.id == x.id) = some x := by
  induction l with
  | nil => intro x hx; simp at hx
  | cons y ys ih =>
    intro x hx
    simp only [List.map_cons, List.nodup_cons, List.mem_map, not_exists, not_and] at hk
    simp only [List.mem_cons] at hx
    rcases hx with rfl | hx
    · simp
    · have hne : (y.id == x.id) = false := by
        rw [beq_eq_false_iff_ne]; exact fun e => hk.1 x hx e.symm
      rw [List.find?_cons, hne]
      exact ih hk.2 x hx

/-- **The certificate built from a reported quorum verifies** at every replica with the same
configuration (n ≥ 2): the view signatures of `quorum` accepted messages of view `v` from pairwise
different senders combine, and the resulting TC passes `VerifyTimeoutCert`. -/
theorem tc_verifies (E : CertEnv) (v : Nat) (l : List TimeoutMsg)
    (hv : ∀ x ∈ l, x.view = v) (hk : (l.map (·.id)).Nodup) (hq : E.cfg.quorum ≤ l.length) (h2 : 2 ≤ l.length)
    (ha : ∀ x ∈ l, Accepted E.T E.cfg x) :
    ∃ sigs sg, l.map (·.viewSig) = sigs.map some ∧ combine E.cfg sigs = .ok sg ∧ verifyTC E ⟨some sg, v⟩ = true := by
  have key : ∀ x ∈ l, ∃ s bits, x.viewSig = some s ∧ SingleSig E.T E.cfg x.id (viewMsg v) s bits ∧ E.cfg.has x.id = true := by
    intro x hx
    obtain ⟨s, h1, hw, hl, hp, hc, hver⟩ := ha x hx
    rw [hv x hx] at hver
    obtain ⟨bits, hb⟩ := single_of_verify E.T E.cfg x.id (viewMsg v) s hw hl hp hver
    exact ⟨s, bits, h1, hb, hc⟩
  -- per-sender signature and bit-field, looked up by id
  let d : Sig := .multi .ecdsa []
  let f : Nat → Sig := fun i => ((l.find? (fun x => x.id == i)).bind (·.viewSig)).getD d
  let g : Nat → Bitfield := fun i =>
    @dite _ (∃ bits, SingleSig E.T E.cfg i (viewMsg v) (f i) bits) (Classical.propDecidable _)
      (fun h => Classical.choose h) (fun _ => Bitfield.empty)
  have hf : ∀ x ∈ l, x.viewSig = some (f x.id) := by
    intro x hx
    obtain ⟨s, _, h1, _⟩ := key x hx
    simp only [f, find_by_id l hk x hx, Option.bind_some, h1, Option.getD_some]
  have hsingle : ∀ i ∈ l.map (·.id), SingleSig E.T E.cfg i (viewMsg v) (f i) (g i) := by
    intro i hi
    obtain ⟨x, hx, rfl⟩ := List.mem_map.mp hi
    obtain ⟨s, bits, h1, hb, _⟩ := key x hx
    have hfs : f x.id = s := by have := hf x hx; rw [h1] at this; exact (Option.some.inj this).symm
    have hex : ∃ bits, SingleSig E.T E.cfg x.id (viewMsg v) (f x.id) bits := ⟨bits, by rw [hfs]; exact hb⟩
    simp only [g, dif_pos hex]
    exact Classical.choose_spec hex
  have hhas : ∀ i ∈ l.map (·.id), E.cfg.has i = true := by
    intro i hi
    obtain ⟨x, hx, rfl⟩ := List.mem_map.mp hi
    exact (key x hx).choose_spec.choose_spec.2.2
  obtain ⟨sg, h1, h2', h3, _⟩ := combine_single_verifies E.T E.cfg (viewMsg v) (l.map (·.id)) f g hk hhas (by simpa using h2) hsingle
  refine ⟨(l.map (·.id)).map f, sg, ?_, h1, ?_⟩
  · simp only [List.map_map]
    apply List.map_congr_left
    intro x hx
    simp [hf x hx]
  · by_cases hv0 : v = 0
    · simp [verifyTC, hv0]
    · unfold verifyTC
      have hlt : ¬ sg.len < E.cfg.quorum := by rw [h3]; simp; omega
      simp [hv0, hlt, h2']

open HsVerif.Proofs in
/-- a sync info that carries just a verifying timeout certificate is accepted with that
certificate's view, under both timeout rules -/
theorem tc_accepted (k : Keys) (c : RCfg) (s : RState) (tc : TC)
    (h : verifyTC (env k c s) tc = true) : Accepts k c { qc := none, tc := some tc, agg := none } s tc.view := by
  refine ⟨none, true, ?_⟩
  by_cases hc : c.agg = true
  · simp [verifySyncInfo, verifyTCM, hc, h, StateT.run, pure, bind, StateT.bind, StateT.pure, get, getThe, MonadStateOf.get, StateT.get]
  · simp [verifySyncInfo, verifyTCM, hc, h, StateT.run, pure, bind, StateT.bind, StateT.pure, get, getThe, MonadStateOf.get, StateT.get]

open HsVerif.Proofs in
/-- **The certificate moves a replica that is still in the timed-out view (or behind it) to the view
after the timed-out one**: a verifying TC for view `v ≥` the replica's view makes `advanceView` end in
view `v + 1` (RESTATED for `EnterViewAfter`: was `s.view + 1`, which left a lagging replica behind). -/
theorem tc_moves (k : Keys) (c : RCfg) (s : RState) (tc : TC)
    (h : verifyTC (env k c s) tc = true) (hv : s.view ≤ tc.view) :
    ((advanceView k c { qc := none, tc := some tc, agg := none }).run s).2.view = tc.view + 1 := by
  have := run_res_of_triple (advanceView k c { qc := none, tc := some tc, agg := none })
    (fun s' => s'.view = s.view ∧ Accepts k c { qc := none, tc := some tc, agg := none } s' tc.view)
    (fun _ s' => s'.view = tc.view + 1) (advanceView_progress k c _ s.view tc.view hv) s ⟨rfl, tc_accepted k c s tc h⟩
  exact this

end HsVerif.Props.C08
