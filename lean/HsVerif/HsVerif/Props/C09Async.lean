import HsVerif.Props.C09
import HsVerif.Proofs.ReplicaVMAsync
/-! C09 under asynchronous vote verification.  Property theorems only.

Without `WithSyncVerification`, `CollectVote` runs on the event loop up to `go vm.verifyCert(cert, block)`
(`collectVotePre`) and `verifyCert` runs later, atomically under `vm.mut`, in whatever state the replica
is in by then and with the block captured at arrival (`verifyCertM`).  The theorems here are about
those two pieces in ARBITRARY states (the state in which a verification ends is unrelated to the one in
which it began), and tie them to the synchronous handler of `Props/C09.lean`. -/
open Std.Do
set_option mvcgen.warning false
set_option linter.unusedVariables false
set_option linter.unusedSimpArgs false
namespace HsVerif.Props.C09Async
open HsVerif.Model

/-- **The synchronous handler is the two pieces run back to back.** -/
theorem sync_is_pre_then_verify (k : Keys) (c : RCfg) (id : Nat) (sig : Option Sig) (hash : Hash) (d : Bool) :
    collectVote k c id sig hash d =
      (do match ← collectVotePre id sig hash d with
          | none => pure ()
          | some b => verifyCertM k c sig hash b) :=
  collectVote_eq_pre_then_verify k c id sig hash d

/-- **The vote store invariant survives every interleaving**: a verification that ends — in whatever
state, however long after it began, for whatever block was captured — keeps the invariant of
`Props/C09.lean` (pairwise different signers per block, each a verified single-signer vote, fewer than
a quorum waiting). -/
theorem late_verification_keeps_invariant (k : Keys) (c : RCfg) (sig : Option Sig) (hash : Hash) (b : Block)
    (hq : 2 ≤ c.cfg.quorum) (hw : ∀ sg, sig = some sg → sg.WF) (hl : ∀ sg, sig = some sg → sg.len = 1)
    (s : RState) (h : VMI k c s) :
    VMI k c ((verifyCertM k c sig hash b).run s).2 :=
  C03.run_of_triple _ (VMI k c) (VMI k c) (verifyCertM_vm k c sig hash b hq hw hl) s h

/-- **Only at a quorum, also when verification ends late**: the end of a verification queues at most one
event, a NewView with a certificate assembled from at least a quorum of stored votes for that block
(distinct signers, each a verified single-signer vote). -/
theorem late_verification_qc_only_from_quorum (k : Keys) (c : RCfg) (sig : Option Sig) (hash : Hash) (b : Block)
    (hq : 2 ≤ c.cfg.quorum) (hw : ∀ sg, sig = some sg → sg.WF) (hl : ∀ sg, sig = some sg → sg.len = 1)
    (s : RState) (h : VMI k c s) :
    let s' := ((verifyCertM k c sig hash b).run s).2
    s'.queue = s.queue ∨ ∃ qc, s'.queue = s.queue ++ [.newview c.id { qc := some qc }] ∧ QCFromVotes k c hash qc :=
  C03.run_of_triple _ (fun s0 => VMI k c s0 ∧ s0.queue = s.queue)
    (fun s' => s'.queue = s.queue ∨ ∃ qc, s'.queue = s.queue ++ [.newview c.id { qc := some qc }] ∧ QCFromVotes k c hash qc)
    (verifyCertM_queue k c sig hash b s.queue hq hw hl) s ⟨h, rfl⟩

/-- **Starting a verification touches neither the vote store nor the event queue**, and one is started
only for a vote signed by exactly one replica (the hypothesis of the two theorems above). -/
theorem arrival_starts_verification_only (id : Nat) (sig : Option Sig) (hash : Hash) (d : Bool) (s : RState) :
    let r := (collectVotePre id sig hash d).run s
    r.2.votes = s.votes ∧ r.2.queue = s.queue ∧ ∀ b, r.1 = some b → ∃ sg, sig = some sg ∧ sg.len = 1 := by
  have h := collectVotePre_frame id sig hash d s.votes s.queue
  have := h s ⟨rfl, rfl⟩
  simpa [wp, StateT.run, Id.run] using this

end HsVerif.Props.C09Async
