import HsVerif.Proofs.ReplicaProgress
import HsVerif.Proofs.SysProgress
import HsVerif.Proofs.SysProgressRR
import HsVerif.Proofs.SysRecovery
import HsVerif.Props.C01Safety
/-! C05 (liveness of the replica model on the synchronous happy path) — property theorems.

Stage 1: one-handler progress theorems about `Model/Replica.lean`, for ANY state that satisfies the
stated preconditions (chained and simplified HotStuff, plain timeout rule `c.agg = false`,
ECDSA / EdDSA):
* `proposal_gets_vote` (+ `proposal_gets_vote_exact`, `lastVoted_counterexample`): a well-formed
  proposal of the current view is stored, signed and voted for;
* `quorum_makes_qc_and_proposal` (+ `late_quorum_no_proposal`): the vote that completes a quorum
  makes the next leader certify the block, enter the next view and propose;
* `local_timeouts_make_tc` (+ `local_timeouts_make_leader_propose`): the timeout message that
  completes a quorum makes the replica enter the next view on a verifying timeout certificate.
Stage 2: the fault-free synchronous run `syncRun` commits, for EVERY number of replicas and EVERY
number of rounds: `happy_path_commits` (fixed leader, `n ≥ 2`), `happy_path_commits_rr`
(round-robin leaders, `n ≥ 4`), with the exact state of every replica after every round
(`happy_path_nonleader_exact`, `happy_path_leader_exact`, `happy_path_rr_exact`) and the phase
invariants (`happy_path_phases`, `happy_path_phases_rr`); kernel-evaluated TESTS for `n = 4`
(14 rounds, both rule sets, both leader rotations) and for round-robin with `n = 2, 3`.
Stage 3: recovery — `recovery_after_timeouts`: all replicas in view `v` with arbitrary locks and
high QCs have timed out; after the timeout messages are delivered (any order) everybody is in view
`≥ v + 1`, the leader has proposed on the highest certificate of a quorum, and everybody else votes
for the proposal — under the explicit hypothesis `RecSetup.cover` (lock coverage);
`top_certificate_covers` is the quorum-intersection half of the classical argument for it.
The proofs are in Proofs/ReplicaProgress.lean (exact symbolic runs of the handlers),
Proofs/SysProgress.lean, Proofs/SysProgressRR.lean and Proofs/SysRecovery.lean.
Every theorem comes with a non-vacuity example on a state of a kernel-evaluated run. -/
set_option linter.unusedVariables false
namespace HsVerif.Props.C05Live
open HsVerif.Model HsVerif.Proofs

/-- **A well-formed proposal of the current view gets the replica's vote.**  Replica `c.id` in view
`v` with an empty event queue, not having voted in view `v` yet, receives from `ld`, the leader of
view `v`, the block `b` of view `v` whose parent is its certified block; the certificate verifies,
is older than `v`, and names the stored block `qb`; the vote rule is ready to say yes
(`RuleReady`: `qb`'s certified block is known, and the lock is below `qb` / the proposal extends the
lock over stored blocks).  Then the step stores `b`, signs `blkMsg b.hash` — the signature is in
the table of the resulting state and verifies as `c.id`'s — and, unless the replica is itself the
leader of view `v + 1` (it then hands the vote to its own voting machine), sends exactly that
signature as its vote to the leader of view `v + 1`. -/
theorem proposal_gets_vote (k : Keys) (c : RCfg) (s : RState) (ld v : Nat) (b qb : Block)
    (hs : c.scheme ≠ .bls12) (ha : c.agg = false) (hid : 1 ≤ c.id ∧ c.id ≤ c.n) (hf : FreshS s)
    (hq : s.queue = []) (hv : s.view = v) (hbv : b.view = v) (hlv : s.lastVoted < v) (hld : ld = c.leader v)
    (hpar : b.parent = b.qc.hash) (hqv : b.qc.view < v)
    (hqc : verifyQC (env k c s) b.qc = true) (hqb : s.chain.blocks.lookup b.qc.hash = some qb)
    (hready : RuleReady c s v qb) :
    ∃ bytes,
      Has b.hash (step k c s (.propose ld b none)).1 ∧
      Out.sign (blkMsg b.hash) ∈ (step k c s (.propose ld b none)).2 ∧
      (step k c s (.propose ld b none)).1.truth.lookup bytes = some ⟨c.id, blkMsg b.hash⟩ ∧
      verify (env k c (step k c s (.propose ld b none)).1).T c.cfg (.multi c.scheme [⟨c.id, bytes⟩]) (blkMsg b.hash) = true ∧
      (c.leader (v + 1) ≠ c.id →
        Out.sendVote (c.leader (v + 1)) (.multi c.scheme [⟨c.id, bytes⟩]) b.hash ∈ (step k c s (.propose ld b none)).2) := by
  subst hbv
  exact step_propose_votes k c s ld b qb hs ha hid hf hv.symm hlv hld hpar hqv hqc hqb
    (fun s' hc hl => voteRule_ready c s' b qb _ (ruleReady_congr c s s' _ qb hc hl hready) (by rw [hc]; exact hqb)
      (Nat.le_refl _) hpar) hq


/-- **… and nothing else happens** when no deferred vote was waiting for the proposal
(`s.waitingProp = []`) and the replica is not the leader of view `v + 1`: afterwards
`lastVoted = v`, the view is still `v`, the high QC is the newer of the old one and the proposal's
certificate, and the effects of the step are exactly: the signature, the vote, and then only
`commit` / `exec` / `abort` effects. -/
theorem proposal_gets_vote_exact (k : Keys) (c : RCfg) (s : RState) (ld v : Nat) (b qb : Block)
    (hs : c.scheme ≠ .bls12) (ha : c.agg = false)
    (hq : s.queue = []) (hwp : s.waitingProp = [])
    (hv : s.view = v) (hbv : b.view = v) (hlv : s.lastVoted < v) (hld : ld = c.leader v)
    (hpar : b.parent = b.qc.hash) (hqv : b.qc.view < v)
    (hqc : verifyQC (env k c s) b.qc = true) (hqb : s.chain.blocks.lookup b.qc.hash = some qb)
    (hready : RuleReady c s v qb) (hl : c.leader (v + 1) ≠ c.id) :
    (step k c s (.propose ld b none)).1.lastVoted = v ∧
    (step k c s (.propose ld b none)).1.view = v ∧
    (step k c s (.propose ld b none)).1.highQC = (if qb.view ≤ s.highQC.view then s.highQC else b.qc) ∧
    (step k c s (.propose ld b none)).1.waitingProp = [] ∧
    ∃ bytes rest,
      (step k c s (.propose ld b none)).2 =
        .sign (blkMsg b.hash) :: .sendVote (c.leader (v + 1)) (.multi c.scheme [⟨c.id, bytes⟩]) b.hash :: rest ∧
      ∀ o ∈ rest, ∃ e : Ev, e.passive = true ∧ o = e.toOut := by
  subst hbv
  obtain ⟨hpass, hstep⟩ := step_propose_exact k c s ld b qb hs ha hv.symm hlv hld hpar hqv hqc hqb
    (fun s' hc hl => voteRule_ready c s' b qb _ (ruleReady_congr c s s' _ qb hc hl hready) (by rw [hc]; exact hqb)
      (Nat.le_refl _) hpar) hl hq hwp
  let s1 : RState := updHighQC { s with out := [], queue := [] } b.qc qb
  let A : RState := votedS c b ld s1
  obtain ⟨h1, h2, _, _, h5, _⟩ := votedS_tcp c b ld s1
  have hout : A.out = [.sign (blkMsg b.hash), .sendVote (c.leader (b.view + 1)) (voteSig c b (tcS c b s1)) b.hash] := by
    have ho := tcS_out c b s1
    have hvo : (voteS c b ld (tcS c b s1)).out = (tcS c b s1).out ++ [.sign (blkMsg b.hash)] := by
      unfold voteS signState; split <;> rfl
    show (voteS c b ld _).out ++ _ = _
    rw [hvo, ho]; rfl
  rw [hstep]
  refine ⟨h5, ?_, ?_, rfl, signBytes c (blkMsg b.hash) (tcS c b s1), (A.queue.take 99999).map Ev.toOut, ?_, ?_⟩
  · show A.view = b.view
    rw [show A.view = s1.view from h1]; exact hv
  · show A.highQC = _
    rw [show A.highQC = s1.highQC from h2]; rfl
  · show A.out ++ _ = _
    rw [hout]; rfl
  · intro o ho
    obtain ⟨e, he, rfl⟩ := List.mem_map.mp ho
    exact ⟨e, hpass e (List.mem_of_mem_take he), rfl⟩

/-! ### Non-vacuity of `proposal_gets_vote` -/
section NonVacuity1
open HsVerif.Props.C01Sys HsVerif.Props.C01SysWF HsVerif.Props.C01Safety

/-- replica `i` of the system state `σ`, as `SysState.run` sees it (with the global signature table) -/
def preOf (σ : SysState) (i : Nat) : RState :=
  match σ.reps.lookup i with
  | some s => { s with truth := σ.truth, nextBytes := σ.nextBytes }
  | none => {}

/-- the state of the run `exState` just before `P1` reaches replica 1 -/
def pvState : RState := preOf (sysRun exKeys exCfg (exActs.take 5)) 1

set_option maxRecDepth 100000 in
/-- all hypotheses of `proposal_gets_vote` hold of replica 1 (view 1, not the leader of view 2)
when `P1` arrives from replica 2 -/
theorem proposal_gets_vote_nonvacuous :
    (exCfg.rcfg 1).scheme ≠ .bls12 ∧ (exCfg.rcfg 1).agg = false ∧ (1 ≤ (exCfg.rcfg 1).id ∧ (exCfg.rcfg 1).id ≤ (exCfg.rcfg 1).n) ∧
    FreshS pvState ∧ pvState.queue = [] ∧ pvState.view = 1 ∧ exBlock.view = 1 ∧ pvState.lastVoted < 1 ∧
    2 = (exCfg.rcfg 1).leader 1 ∧ exBlock.parent = exBlock.qc.hash ∧ exBlock.qc.view < 1 ∧
    verifyQC (env exKeys (exCfg.rcfg 1) pvState) exBlock.qc = true ∧
    pvState.chain.blocks.lookup exBlock.qc.hash = some genesisBlock ∧
    RuleReady (exCfg.rcfg 1) pvState 1 genesisBlock ∧ (exCfg.rcfg 1).leader (1 + 1) ≠ (exCfg.rcfg 1).id := by
  refine ⟨by decide, by decide, by decide, ?_, ?_, by decide +kernel, by decide, by decide +kernel, by decide, by decide,
    by decide, by decide +kernel, by decide +kernel, ⟨Or.inl rfl, ?_⟩, by decide⟩
  · unfold FreshS FreshL; constructor <;> decide +kernel
  · exact List.eq_nil_of_length_eq_zero (by decide +kernel)
  · show _ ∨ _
    exact Or.inr ⟨by decide +kernel, by decide +kernel⟩

/-- what `proposal_gets_vote` yields on that state -/
example : ∃ bytes,
    Out.sendVote 3 (.multi .ecdsa [⟨1, bytes⟩]) "P1" ∈ (step exKeys (exCfg.rcfg 1) pvState (.propose 2 exBlock none)).2 ∧
    (step exKeys (exCfg.rcfg 1) pvState (.propose 2 exBlock none)).1.lastVoted = 1 := by
  obtain ⟨h1, h2, h3, h4, h5, h6, h7, h8, h9, h10, h11, h12, h13, h14, h15⟩ := proposal_gets_vote_nonvacuous
  obtain ⟨bytes, _, _, _, _, hsend⟩ := proposal_gets_vote exKeys (exCfg.rcfg 1) pvState 2 1 exBlock genesisBlock
    h1 h2 h3 h4 h5 h6 h7 h8 h9 h10 h11 h12 h13 h14
  have hwp : pvState.waitingProp = [] := List.eq_nil_of_length_eq_zero (by decide +kernel)
  exact ⟨bytes, hsend h15, (proposal_gets_vote_exact exKeys (exCfg.rcfg 1) pvState 2 1 exBlock genesisBlock
    h1 h2 h5 hwp h6 h7 h8 h9 h10 h11 h12 h13 h14 h15).1⟩

/-- replica 3, the leader of view 2, just before `P1` reaches it, after the votes of replicas 2 and
1 for `P1` have arrived early (they wait in `waitingProp` for the proposal) -/
def pvLeaderState : RState :=
  preOf (sysRun exKeys exCfg (exActs.take 6 ++
    [.deliver 3 (.vote 2 (some (.multi .ecdsa [⟨2, 1⟩])) "P1" false),
     .deliver 3 (.vote 1 (some (.multi .ecdsa [⟨1, 3⟩])) "P1" false)])) 3

set_option maxRecDepth 100000 in
/-- **`lastVoted = v` afterwards is FALSE without the side conditions of
`proposal_gets_vote_exact`** (the task's statement "…, `lastVoted = v` afterwards" needs them): all
hypotheses of `proposal_gets_vote` hold of replica 3 — which is the leader of view 2 and has two
early votes waiting for the proposal — when `P1` arrives; it votes for `P1`, its own vote and the
two waiting ones make a certificate, it enters view 2, proposes `P2` and votes for it: afterwards
`lastVoted = 2` and the view is 2. -/
theorem lastVoted_counterexample :
    (exCfg.rcfg 3).scheme ≠ .bls12 ∧ (exCfg.rcfg 3).agg = false ∧ (1 ≤ (exCfg.rcfg 3).id ∧ (exCfg.rcfg 3).id ≤ (exCfg.rcfg 3).n) ∧
    FreshS pvLeaderState ∧ pvLeaderState.queue = [] ∧ pvLeaderState.view = 1 ∧ exBlock.view = 1 ∧ pvLeaderState.lastVoted < 1 ∧
    2 = (exCfg.rcfg 3).leader 1 ∧ exBlock.parent = exBlock.qc.hash ∧ exBlock.qc.view < 1 ∧
    verifyQC (env exKeys (exCfg.rcfg 3) pvLeaderState) exBlock.qc = true ∧
    pvLeaderState.chain.blocks.lookup exBlock.qc.hash = some genesisBlock ∧
    RuleReady (exCfg.rcfg 3) pvLeaderState 1 genesisBlock ∧
    (step exKeys (exCfg.rcfg 3) pvLeaderState (.propose 2 exBlock none)).1.lastVoted = 2 ∧
    (step exKeys (exCfg.rcfg 3) pvLeaderState (.propose 2 exBlock none)).1.view = 2 ∧
    pvLeaderState.waitingProp.length = 2 ∧ (exCfg.rcfg 3).leader (1 + 1) = (exCfg.rcfg 3).id := by
  refine ⟨by decide, by decide, by decide, ?_, ?_, by decide +kernel, by decide, by decide +kernel, by decide, by decide,
    by decide, by decide +kernel, by decide +kernel, ⟨Or.inl rfl, ?_⟩, by decide +kernel, by decide +kernel,
    by decide +kernel, by decide⟩
  · unfold FreshS FreshL; constructor <;> decide +kernel
  · exact List.eq_nil_of_length_eq_zero (by decide +kernel)
  · show _ ∨ _
    exact Or.inr ⟨by decide +kernel, by decide +kernel⟩

end NonVacuity1


/-- **The vote that completes a quorum makes the next leader certify the block, enter the next
view and propose.**  Replica `c.id`, the leader of view `v + 1`, is in view `v` with an empty event
queue and holds the block `blk` of view `v` (stored under `hash`, not genesis, above its high QC).
Its voting machine holds valid votes of pairwise different replicas for `hash`; the vote of one
more replica `i` arrives — a signature that the table attributes to `i` over `blkMsg hash` — and
with it a quorum is reached (`n ≥ 2`: at least two votes).  The replica has not voted beyond view
`v`, the vote rule is ready for a block on top of `blk` (`RuleReady`), and the walk that marks
ancestors as proposed succeeds on stored blocks (`markWalk`).  Then the step makes a certificate
for `blk` that verifies in the resulting state, the replica is in view `≥ v + 1`, it has proposed
(`Out.sendPropose`) a block `b'` of view `v + 1` with that certificate, parent `hash` and proposer
`c.id`, and has stored and signed `b'`.

The exact condition on the view is `s.view = v`: in a later view the certificate only refreshes
the high QC (see `late_quorum_no_proposal`). -/
theorem quorum_makes_qc_and_proposal (k : Keys) (c : RCfg) (s : RState) (id i bytes v : Nat) (hash : Hash) (blk : Block)
    (hs : c.scheme ≠ .bls12) (ha : c.agg = false) (hr : c.rules ≠ .fast) (hf : FreshS s) (hq : s.queue = [])
    (hblk : s.chain.blocks.lookup hash = some blk) (hh : blk.hash = hash) (hg : hash ≠ genesisHash)
    (hbv : blk.view = v) (hv : s.view = v) (hhi : s.highQC.view < v)
    (hlead : c.leader (v + 1) = c.id) (hlv : s.lastVoted ≤ v)
    (hi : c.cfg.has i = true) (hbytes : s.truth.lookup bytes = some ⟨i, blkMsg hash⟩)
    (hvalid : ∀ x ∈ (s.votes.lookup hash).getD [],
      c.cfg.has x.1 = true ∧ HonestSig (fun b => s.truth.lookup b) c.cfg x.1 (blkMsg hash) x.2)
    (hnodup : (((s.votes.lookup hash).getD []).map (·.1)).Nodup)
    (hnew : ∀ x ∈ (s.votes.lookup hash).getD [], x.1 ≠ i)
    (hlen : c.cfg.quorum ≤ ((s.votes.lookup hash).getD []).length + 1)
    (h2 : 2 ≤ ((s.votes.lookup hash).getD []).length + 1)
    (hready : RuleReady c s (v + 1) blk)
    (hmark : markWalk (s.chain.fuel + 1) s.chain.blocks s.lastProposed blk = true) :
    ∃ (sgq : Sig) (b' : Block),
      verifyQC (env k c (step k c s (.vote id (some (.multi c.scheme [⟨i, bytes⟩])) hash false)).1) ⟨some sgq, v, hash⟩ = true ∧
      b'.view = v + 1 ∧ b'.qc = ⟨some sgq, v, hash⟩ ∧ b'.parent = hash ∧ b'.proposer = c.id ∧
      Out.sendPropose b' none ∈ (step k c s (.vote id (some (.multi c.scheme [⟨i, bytes⟩])) hash false)).2 ∧
      Out.sign (blkMsg b'.hash) ∈ (step k c s (.vote id (some (.multi c.scheme [⟨i, bytes⟩])) hash false)).2 ∧
      Has b'.hash (step k c s (.vote id (some (.multi c.scheme [⟨i, bytes⟩])) hash false)).1 ∧
      v + 1 ≤ (step k c s (.vote id (some (.multi c.scheme [⟨i, bytes⟩])) hash false)).1.view := by
  subst hv
  have := step_vote_quorum_proposes k c s id i bytes hash blk hs ha hr hf hq hblk hh hg hbv (by omega) hlead hlv hi hbytes
    hvalid hnodup hnew hlen h2 hready
    (fun s' hc hl => markProposed_walk _ blk s' (by rw [hc, hl]; exact hmark))
  rw [hbv] at this
  exact this


/-- **… but only in the view of the block**: the same vote arriving when the replica has already
left the view of `blk` completes the certificate, which becomes the high QC; the view stays and
NOTHING is emitted — no proposal.  (So "in view `≤ v + 1`" is not enough for
`quorum_makes_qc_and_proposal`; the leader of view `v + 1` that got there by a timeout certificate
has proposed on entering the view.) -/
theorem late_quorum_no_proposal (k : Keys) (c : RCfg) (s : RState) (id i bytes v : Nat) (hash : Hash) (blk : Block)
    (hs : c.scheme ≠ .bls12) (ha : c.agg = false) (hq : s.queue = [])
    (hblk : s.chain.blocks.lookup hash = some blk) (hh : blk.hash = hash) (hg : hash ≠ genesisHash)
    (hbv : blk.view = v) (hv : v < s.view) (hhi : s.highQC.view < v)
    (hi : c.cfg.has i = true) (hbytes : s.truth.lookup bytes = some ⟨i, blkMsg hash⟩)
    (hvalid : ∀ x ∈ (s.votes.lookup hash).getD [],
      c.cfg.has x.1 = true ∧ HonestSig (fun b => s.truth.lookup b) c.cfg x.1 (blkMsg hash) x.2)
    (hnodup : (((s.votes.lookup hash).getD []).map (·.1)).Nodup)
    (hnew : ∀ x ∈ (s.votes.lookup hash).getD [], x.1 ≠ i)
    (hlen : c.cfg.quorum ≤ ((s.votes.lookup hash).getD []).length + 1)
    (h2 : 2 ≤ ((s.votes.lookup hash).getD []).length + 1) :
    ∃ sgq : Sig,
      (step k c s (.vote id (some (.multi c.scheme [⟨i, bytes⟩])) hash false)).2 = [] ∧
      (step k c s (.vote id (some (.multi c.scheme [⟨i, bytes⟩])) hash false)).1.view = s.view ∧
      (step k c s (.vote id (some (.multi c.scheme [⟨i, bytes⟩])) hash false)).1.highQC = ⟨some sgq, v, hash⟩ ∧
      verifyQC (env k c s) ⟨some sgq, v, hash⟩ = true := by
  subst hbv
  exact step_vote_quorum_late k c s id i bytes hash blk hs ha hq hblk hh hg hv hhi hi hbytes hvalid hnodup hnew hlen h2

/-! ### Non-vacuity of `quorum_makes_qc_and_proposal` -/
section NonVacuity2
open HsVerif.Props.C01Sys HsVerif.Props.C01SysWF HsVerif.Props.C01Safety

/-- replica 1, the leader of view 4, in the run `sfState` just before the third vote for `P3`
(that of replica 3) reaches it: it is in view 3 and holds its own vote and that of replica 2 -/
def qvState : RState := preOf (sysRun exKeys exCfg (sfActs.take 17)) 1

theorem qvState_votes : (qvState.votes.lookup "P3").getD [] =
    [(1, .multi .ecdsa [⟨1, 8⟩]), (2, .multi .ecdsa [⟨2, 9⟩])] := by decide +kernel

set_option maxRecDepth 100000 in
/-- all hypotheses of `quorum_makes_qc_and_proposal` hold of that state and that vote -/
theorem quorum_makes_qc_and_proposal_nonvacuous :
    ∃ (sgq : Sig) (b' : Block),
      b'.view = 4 ∧ b'.qc = ⟨some sgq, 3, "P3"⟩ ∧ b'.parent = "P3" ∧ b'.proposer = 1 ∧
      Out.sendPropose b' none ∈ (step exKeys (exCfg.rcfg 1) qvState (.vote 3 (some (.multi (exCfg.rcfg 1).scheme [⟨3, 10⟩])) "P3" false)).2 ∧
      4 ≤ (step exKeys (exCfg.rcfg 1) qvState (.vote 3 (some (.multi (exCfg.rcfg 1).scheme [⟨3, 10⟩])) "P3" false)).1.view := by
  have hvotes := qvState_votes
  have hT1 : qvState.truth.lookup 8 = some ⟨1, blkMsg "P3"⟩ := by decide +kernel
  have hT2 : qvState.truth.lookup 9 = some ⟨2, blkMsg "P3"⟩ := by decide +kernel
  obtain ⟨sgq, b', _, h2, h3, h4, h5, h6, _, _, h9⟩ :=
    quorum_makes_qc_and_proposal exKeys (exCfg.rcfg 1) qvState 3 3 10 3 "P3" sfBlock3
      (by decide) (by decide) (by decide) (by unfold FreshS FreshL; constructor <;> decide +kernel)
      (List.eq_nil_of_length_eq_zero (by decide +kernel))
      (by decide +kernel) (by decide) (by decide) (by decide) (by decide +kernel) (by decide +kernel)
      (by decide) (by decide +kernel) (by decide) (by decide +kernel)
      (by rw [hvotes]
          intro x hx
          simp only [List.mem_cons, List.not_mem_nil, or_false] at hx
          rcases hx with rfl | rfl
          · exact ⟨by decide, Or.inl ⟨by decide, 8, rfl, hT1⟩⟩
          · exact ⟨by decide, Or.inl ⟨by decide, 9, rfl, hT2⟩⟩)
      (by rw [hvotes]; decide) (by rw [hvotes]; decide) (by rw [hvotes]; decide) (by rw [hvotes]; decide)
      ⟨Or.inr ⟨wfBlock2, by decide +kernel⟩, Or.inl (by decide +kernel)⟩
      (by decide +kernel)
  exact ⟨sgq, b', h2, h3, h4, h5, h6, h9⟩

end NonVacuity2


/-- **A quorum of timeouts moves the replica on: new view, verifying certificate, report to the
next leader.**  (Plain timeout rule.)  `TmoQuorumPre k c s t q nb hb tc0` (Proofs/ReplicaProgress.lean)
lists the preconditions: replica `c.id` is in view `s.view ≠ 0` with an empty event queue and a
fresh signature table; the timeout message `t` is of that view, accepted (`C08.Accepted`: its view
signature is its sender's own single signature and verifies), from a sender the collector has no
message of for this view; with it the collector holds at least `quorumSize n` (and at least two)
messages of this view, all accepted, and at most one per (view, sender) overall; the sync info of
`t` carries a QC `q` of the stored block `nb` and a TC `tc0` that verify and are older than the
view; the replica's high QC after looking at `q` verifies, is older than the view and names the
stored block `hb`.  If the replica is not the leader of the next view, then after the step it is
in a later view, the timeout certificate assembled from the quorum verifies in the resulting
state, and a new-view message with the high QC and that certificate has gone to the next leader. -/
theorem local_timeouts_make_tc (k : Keys) (c : RCfg) (s : RState) (t : TimeoutMsg) (q : QC) (nb hb : Block) (tc0 : TC)
    (h : TmoQuorumPre k c s t q nb hb tc0) (hl : c.leader (s.view + 1) ≠ c.id) :
    ∃ sg : Sig,
      verifyTC (env k c (step k c s (.timeout t)).1) ⟨some sg, s.view⟩ = true ∧
      s.view + 1 ≤ (step k c s (.timeout t)).1.view ∧
      Out.sendNewView (c.leader (s.view + 1)) { qc := some (absorbS s q nb tc0).highQC, tc := some ⟨some sg, s.view⟩ }
        ∈ (step k c s (.timeout t)).2 :=
  step_timeout_quorum_newview k c s t q nb hb tc0 h hl

/-- **… and the next leader proposes.**  Same preconditions; the replica is the leader of view
`s.view + 1`, has not voted beyond `s.view`, the vote rule is ready for a block on top of `hb`, the
block of its high QC, and the walk that marks ancestors as proposed succeeds on stored blocks.
Then after the step it is in a later view, the timeout certificate verifies, and it has proposed
a block `b'` of view `s.view + 1` that carries its high QC and extends the certified block, and has
stored and signed `b'`. -/
theorem local_timeouts_make_leader_propose (k : Keys) (c : RCfg) (s : RState) (t : TimeoutMsg) (q : QC) (nb hb : Block)
    (tc0 : TC) (h : TmoQuorumPre k c s t q nb hb tc0) (hr : c.rules ≠ .fast)
    (hlead : c.leader (s.view + 1) = c.id) (hlv : s.lastVoted ≤ s.view)
    (hready : RuleReady c s (s.view + 1) hb)
    (hmark : markWalk (s.chain.fuel + 1) s.chain.blocks s.lastProposed hb = true) :
    ∃ (sg : Sig) (b' : Block),
      verifyTC (env k c (step k c s (.timeout t)).1) ⟨some sg, s.view⟩ = true ∧
      s.view + 1 ≤ (step k c s (.timeout t)).1.view ∧
      b'.view = s.view + 1 ∧ b'.qc = (absorbS s q nb tc0).highQC ∧ b'.parent = (absorbS s q nb tc0).highQC.hash ∧
      b'.proposer = c.id ∧
      Out.sendPropose b' none ∈ (step k c s (.timeout t)).2 ∧
      Out.sign (blkMsg b'.hash) ∈ (step k c s (.timeout t)).2 ∧
      Has b'.hash (step k c s (.timeout t)).1 :=
  step_timeout_quorum_proposes k c s t q nb hb tc0 h hr hlead hlv hready
    (fun s' hc hl => markProposed_walk _ hb s' (by rw [hc, hl]; exact hmark))

/-! ### Non-vacuity of `local_timeouts_make_tc` and `local_timeouts_make_leader_propose` -/
section NonVacuity3
open HsVerif.Props.C01Sys HsVerif.Props.C08

/-- all honest replicas start and time out in view 1 -/
def tmActs : List SysAct :=
  [.start 1, .start 2, .start 3, .deliver 1 (.localTimeout 1), .deliver 2 (.localTimeout 1), .deliver 3 (.localTimeout 1)]

/-- the timeout message of replica `i` in that run (its view signature has bytes `bytes`) -/
def tmMsg (i bytes : Nat) : TimeoutMsg :=
  ⟨i, 1, some (.multi .ecdsa [⟨i, bytes⟩]), none, { qc := some genesisQC, tc := some ⟨none, 0⟩ }⟩

/-- replica 1 after its own timeout and the timeout message of replica 2 -/
def tmState1 : RState := preOf (sysRun exKeys exCfg (tmActs ++ [.deliver 1 (.timeout (tmMsg 2 3))])) 1
/-- replica 3, the leader of view 2, after its own timeout and the timeout message of replica 1 -/
def tmState3 : RState := preOf (sysRun exKeys exCfg (tmActs ++ [.deliver 3 (.timeout (tmMsg 1 2))])) 3

theorem tmPre (i : Nat) (s : RState) (t : TimeoutMsg) (c : RCfg) (hc : c = exCfg.rcfg i)
    (h1 : FreshS s) (h2 : s.queue.length = 0) (h3 : t.view = s.view) (h4 : s.view ≠ 0)
    (h5 : acceptedB (fun b => s.truth.lookup b) c.cfg t = true)
    (h6 : t.si = { qc := some genesisQC, tc := some ⟨none, 0⟩ })
    (h7 : verifyQC (env exKeys c s) genesisQC = true)
    (h8 : s.chain.blocks.lookup genesisHash = some genesisBlock)
    (h9 : Keyed s.timeouts) (h10 : ¬ ∃ x ∈ s.timeouts, x.view = t.view ∧ x.id = t.id)
    (h11 : c.cfg.quorum ≤ (ofView (s.timeouts ++ [t]) t.view).length)
    (h12 : s.timeouts.all (acceptedB (fun b => s.truth.lookup b) c.cfg) = true)
    (h13 : s.highQC = genesisQC) :
    TmoQuorumPre exKeys c s t genesisQC genesisBlock genesisBlock ⟨none, 0⟩ := by
  subst hc
  have hq : (absorbS s genesisQC genesisBlock ⟨none, 0⟩).highQC = genesisQC := by
    simp [absorbS, h13]
  refine ⟨rfl, (by show Scheme.ecdsa ≠ Scheme.bls12; decide), h1, List.eq_nil_of_length_eq_zero h2, h3, h4, accepted_of_acceptedB _ _ _ h5, h6, rfl,
    Nat.pos_of_ne_zero h4, h7, Nat.pos_of_ne_zero h4, h8, h9, h10, h11, ?_, ?_, ?_, ?_, ?_⟩
  · have : (exCfg.rcfg i).cfg.quorum = 3 := by show quorumSize 4 = 3; decide
    rw [this] at h11; omega
  · intro x hx _
    exact accepted_of_acceptedB _ _ _ (List.all_eq_true.mp h12 x hx)
  · rw [hq]; exact h7
  · rw [hq]; exact h8
  · rw [hq]; exact Nat.pos_of_ne_zero h4

set_option maxRecDepth 100000 in
/-- the preconditions hold of replica 1 when the timeout message of replica 3 arrives -/
theorem local_timeouts_make_tc_nonvacuous :
    TmoQuorumPre exKeys (exCfg.rcfg 1) tmState1 (tmMsg 3 4) genesisQC genesisBlock genesisBlock ⟨none, 0⟩ ∧
    (exCfg.rcfg 1).leader (tmState1.view + 1) ≠ (exCfg.rcfg 1).id :=
  ⟨tmPre 1 _ _ _ rfl (by unfold FreshS FreshL; constructor <;> decide +kernel) (by decide +kernel) (by decide +kernel)
    (by decide +kernel) (by decide +kernel) rfl (by decide +kernel) (by decide +kernel)
    (by unfold Keyed; decide +kernel) (by decide +kernel) (by decide +kernel) (by decide +kernel) (by decide +kernel),
   by decide +kernel⟩

set_option maxRecDepth 100000 in
/-- the preconditions hold of replica 3, the leader of view 2, when the timeout message of replica
2 arrives (chained HotStuff: the proposal on top of genesis extends the lock, genesis) -/
theorem local_timeouts_make_leader_propose_nonvacuous :
    TmoQuorumPre exKeys (exCfg.rcfg 3) tmState3 (tmMsg 2 3) genesisQC genesisBlock genesisBlock ⟨none, 0⟩ ∧
    (exCfg.rcfg 3).rules ≠ .fast ∧ (exCfg.rcfg 3).leader (tmState3.view + 1) = (exCfg.rcfg 3).id ∧
    tmState3.lastVoted ≤ tmState3.view ∧ RuleReady (exCfg.rcfg 3) tmState3 (tmState3.view + 1) genesisBlock ∧
    markWalk (tmState3.chain.fuel + 1) tmState3.chain.blocks tmState3.lastProposed genesisBlock = true :=
  ⟨tmPre 3 _ _ _ rfl (by unfold FreshS FreshL; constructor <;> decide +kernel) (by decide +kernel) (by decide +kernel)
    (by decide +kernel) (by decide +kernel) rfl (by decide +kernel) (by decide +kernel)
    (by unfold Keyed; decide +kernel) (by decide +kernel) (by decide +kernel) (by decide +kernel) (by decide +kernel),
   by decide, by decide +kernel, by decide +kernel,
   ⟨Or.inl rfl, Or.inr ⟨by decide +kernel, by decide +kernel⟩⟩, by decide +kernel⟩

/-- what the two theorems yield there: replica 1 reports to replica 3, replica 3 proposes `b'` of
view 2 on top of genesis -/
example :
    (∃ sg : Sig, Out.sendNewView 3 { qc := some genesisQC, tc := some ⟨some sg, 1⟩ }
        ∈ (step exKeys (exCfg.rcfg 1) tmState1 (.timeout (tmMsg 3 4))).2) ∧
    (∃ b' : Block, b'.view = 2 ∧ b'.parent = genesisHash ∧
        Out.sendPropose b' none ∈ (step exKeys (exCfg.rcfg 3) tmState3 (.timeout (tmMsg 2 3))).2) := by
  constructor
  · obtain ⟨h, hl⟩ := local_timeouts_make_tc_nonvacuous
    obtain ⟨sg, _, _, h3⟩ := local_timeouts_make_tc _ _ _ _ _ _ _ _ h hl
    have hv : tmState1.view = 1 := by decide +kernel
    have hq : tmState1.highQC = genesisQC := by decide +kernel
    refine ⟨sg, ?_⟩
    have e1 : (exCfg.rcfg 1).leader (tmState1.view + 1) = 3 := by rw [hv]; decide
    have e2 : (absorbS tmState1 genesisQC genesisBlock ⟨none, 0⟩).highQC = genesisQC := by simp [absorbS, hq]
    rw [e1, e2, hv] at h3
    exact h3
  · obtain ⟨h, hr, hlead, hlv, hready, hmark⟩ := local_timeouts_make_leader_propose_nonvacuous
    obtain ⟨sg, b', _, _, h3, h4, h5, _, h7, _⟩ := local_timeouts_make_leader_propose _ _ _ _ _ _ _ _ h hr hlead hlv hready hmark
    have hv : tmState3.view = 1 := by decide +kernel
    have hq : tmState3.highQC = genesisQC := by decide +kernel
    have e2 : (absorbS tmState3 genesisQC genesisBlock ⟨none, 0⟩).highQC = genesisQC := by simp [absorbS, hq]
    refine ⟨b', by rw [h3, hv], by rw [h5, e2]; rfl, h7⟩

end NonVacuity3


/-! ## Stage 2 — the fault-free synchronous run

`syncRun k C r` (Proofs/SysProgress.lean): `Synchronizer.Start` at every replica, then `r` rounds in
each of which every message in flight is delivered.  A view takes TWO rounds (proposal round, vote
round), so after `r` rounds the replicas are in view `(r + 1) / 2` at least. -/

/-- the synchronous run is a run of the system of replica models -/
theorem sync_run_reachable (k : Keys) (C : SysCfg) (r : Nat) : Reach k C (syncRun k C r).1 := syncRun_reach k C r

/-- **The fault-free synchronous run commits, for every number of replicas and every number of
rounds** (fixed leader).  `HappyCfg C L`: all `n ≥ 2` replicas run the model (`C.honest` lists `n`
pairwise different ids in `1 … n`), the leader `L` is fixed, chained or simplified HotStuff, plain
timeout rule, ECDSA / EdDSA.  After `r` rounds every replica `i` is in view `≥ (r+1)/2`, its high
QC has view `≥ (r+1)/2 - 1` and its committed block has view `≥ (r+1)/2 - 3`: a view takes two
rounds (proposal, votes), and a block is committed three views after its own.  In particular
`committed.view ≥ 1` from round `7` on, and it grows by one every two rounds.
(`n = 1` makes no progress at all: `Combine` refuses a single signature.) -/
theorem happy_path_commits (k : Keys) (C : SysCfg) (L : Nat) (hC : HappyCfg C L) (r i : Nat) (hi : i ∈ C.honest) :
    ∃ s, (syncRun k C r).1.reps.lookup i = some s ∧
      (r + 1) / 2 ≤ s.view ∧ (r + 1) / 2 - 1 ≤ s.highQC.view ∧ (r + 1) / 2 - 3 ≤ s.committed.view := by
  by_cases hiL : i = L
  · subst hiL
    obtain ⟨s, h1, h2, h3, _, h5, _⟩ := happy_leader k C i hC r
    exact ⟨s, h1, by omega, by omega, by omega⟩
  · obtain ⟨s, h1, h2, h3, _, h5, _⟩ := happy_nonleader k C L hC r i hi hiL
    exact ⟨s, h1, by omega, by omega, by omega⟩

/-- the exact values: a non-leader after `r` rounds (all of them agree) -/
theorem happy_path_nonleader_exact (k : Keys) (C : SysCfg) (L : Nat) (hC : HappyCfg C L) (r i : Nat)
    (hi : i ∈ C.honest) (hiL : i ≠ L) :
    ∃ s, (syncRun k C r).1.reps.lookup i = some s ∧
      s.view = max ((r + 1) / 2) 1 ∧ s.highQC.view = (r + 1) / 2 - 1 ∧ s.lock.view = (r + 1) / 2 - 2 ∧
      s.committed.view = (r + 1) / 2 - 3 ∧ s.lastVoted = (r + 1) / 2 ∧ s.queue = [] :=
  happy_nonleader k C L hC r i hi hiL

/-- the exact values: the leader after `r` rounds (one proposal ahead of the others after even rounds) -/
theorem happy_path_leader_exact (k : Keys) (C : SysCfg) (L : Nat) (hC : HappyCfg C L) (r : Nat) :
    ∃ s, (syncRun k C r).1.reps.lookup L = some s ∧
      s.view = r / 2 + 1 ∧ s.highQC.view = r / 2 ∧ s.lock.view = r / 2 - 1 ∧
      s.committed.view = r / 2 - 2 ∧ s.lastVoted = r / 2 + 1 ∧ s.queue = [] :=
  happy_leader k C L hC r

/-- **views, high QCs and committed blocks only grow** along the synchronous run -/
theorem happy_path_monotone (k : Keys) (C : SysCfg) (L : Nat) (hC : HappyCfg C L) (r r' i : Nat) (hr : r ≤ r')
    (hi : i ∈ C.honest) :
    ∃ s s', (syncRun k C r).1.reps.lookup i = some s ∧ (syncRun k C r').1.reps.lookup i = some s' ∧
      s.view ≤ s'.view ∧ s.highQC.view ≤ s'.highQC.view ∧ s.committed.view ≤ s'.committed.view := by
  have hdiv : r / 2 ≤ r' / 2 := Nat.div_le_div_right hr
  have hdiv' : (r + 1) / 2 ≤ (r' + 1) / 2 := Nat.div_le_div_right (by omega)
  by_cases hiL : i = L
  · subst hiL
    obtain ⟨s, h1, h2, h3, _, h5, _⟩ := happy_leader k C i hC r
    obtain ⟨s', h1', h2', h3', _, h5', _⟩ := happy_leader k C i hC r'
    exact ⟨s, s', h1, h1', by omega, by omega, by omega⟩
  · obtain ⟨s, h1, h2, h3, _, h5, _⟩ := happy_nonleader k C L hC r i hi hiL
    obtain ⟨s', h1', h2', h3', _, h5', _⟩ := happy_nonleader k C L hC r' i hi hiL
    exact ⟨s, s', h1, h1', by omega, by omega, by omega⟩

/-- the phases behind it: after `2 j` rounds the leader has proposed block `j + 1` (`SyncedB`), after
`2 j + 1` rounds every replica has received it (`SyncedA`) — both describe every replica's view,
high QC, last vote, lock, committed block and stored chain, and the messages in flight -/
theorem happy_path_phases (k : Keys) (C : SysCfg) (L : Nat) (hC : HappyCfg C L) (j : Nat) :
    SyncedB C L j (syncRun k C (2 * j)) ∧ SyncedA C L j (syncRun k C (2 * j + 1)) :=
  sync_phases k C L hC j

/-- **The same with round-robin leaders** (`HappyRR C`: all `n ≥ 4` replicas run the model,
`C.leaders = .roundRobin`, chained or simplified HotStuff, plain timeout rule, ECDSA / EdDSA): after
`r` rounds every replica is in view `≥ (r+1)/2`, with high QC of view `≥ (r+1)/2 - 1` and committed
block of view `≥ (r+1)/2 - 3`.  (For `n = 2, 3` the quorum is 2 and the next leader completes it
with its own vote and the proposer's in the proposal round already — a view then takes ONE round,
see the tests below; `n ≥ 4` makes the quorum `≥ 3`.) -/
theorem happy_path_commits_rr (k : Keys) (C : SysCfg) (hC : HappyRR C) (r i : Nat) (hi : i ∈ C.honest) :
    ∃ s, (syncRun k C r).1.reps.lookup i = some s ∧
      (r + 1) / 2 ≤ s.view ∧ (r + 1) / 2 - 1 ≤ s.highQC.view ∧ (r + 1) / 2 - 3 ≤ s.committed.view := by
  obtain ⟨s, J, h1, hJ, h2, h3, _, h5, _⟩ := rr_state k C hC r i hi
  refine ⟨s, h1, ?_, ?_, ?_⟩ <;> rcases hJ with hJ | ⟨h0, _, hJ⟩ <;> omega

/-- the exact values with round-robin leaders: every replica is at block `J = (r+1)/2` — view
`max J 1`, high QC `J - 1`, lock `J - 2`, committed `J - 3`, last vote `J` —, except the leader of
view `r/2 + 1` after an even number of rounds, which is at block `r/2 + 1` -/
theorem happy_path_rr_exact (k : Keys) (C : SysCfg) (hC : HappyRR C) (r i : Nat) (hi : i ∈ C.honest) :
    ∃ s J, (syncRun k C r).1.reps.lookup i = some s ∧
      (J = (r + 1) / 2 ∨ (r % 2 = 0 ∧ i = rrL C (r / 2 + 1) ∧ J = r / 2 + 1)) ∧
      s.view = max J 1 ∧ s.highQC.view = J - 1 ∧ s.lock.view = J - 2 ∧ s.committed.view = J - 3 ∧
      s.lastVoted = J ∧ s.queue = [] :=
  rr_state k C hC r i hi

/-- the phases with round-robin leaders (`RB`, `RA` of Proofs/SysProgressRR.lean) -/
theorem happy_path_phases_rr (k : Keys) (C : SysCfg) (hC : HappyRR C) (j : Nat) :
    RB C j (syncRun k C (2 * j)) ∧ RA C j (syncRun k C (2 * j + 1)) :=
  rr_phases k C hC j

/-! ### TESTS (kernel-evaluated instances, NOT the unbounded claim): n = 4, all replicas honest,
14 rounds, chained and simplified HotStuff, fixed leader and round-robin -/
section Tests

def testCfg (rules : Rules) (ld : LeaderKind) : SysCfg :=
  { n := 4, rules := rules, scheme := .ecdsa, agg := false, leaders := ld, honest := [1, 2, 3, 4] }

/-- every replica: view, high-QC view and committed view are at least the given ones -/
def allAtLeast (x : SysState × Msgs) (view hq cm : Nat) : Bool :=
  x.1.reps.all fun p => decide (view ≤ p.2.view) && decide (hq ≤ p.2.highQC.view) && decide (cm ≤ p.2.committed.view)

/-- after every round `r ≤ 14`: view `≥ (r+1)/2`, high QC `≥ (r+1)/2 - 1`, committed `≥ (r+1)/2 - 3` -/
def happyUpTo (C : SysCfg) (rounds : Nat) : Bool :=
  (List.range (rounds + 1)).all fun r =>
    allAtLeast (syncRun HsVerif.Props.C01Sys.exKeys C r) ((r + 1) / 2) ((r + 1) / 2 - 1) ((r + 1) / 2 - 3)

/-- TEST chained HotStuff, fixed leader 1: after 13 rounds every replica has committed view 4 -/
example : happyUpTo (testCfg .chained (.fixed 1)) 14 = true ∧
    allAtLeast (syncRun HsVerif.Props.C01Sys.exKeys (testCfg .chained (.fixed 1)) 13) 7 6 4 = true := by
  constructor <;> decide +kernel
/-- TEST chained HotStuff, round-robin leaders -/
example : happyUpTo (testCfg .chained .roundRobin) 14 = true ∧
    allAtLeast (syncRun HsVerif.Props.C01Sys.exKeys (testCfg .chained .roundRobin) 13) 7 6 4 = true := by
  constructor <;> decide +kernel
/-- TEST simplified HotStuff, fixed leader 1 -/
example : happyUpTo (testCfg .simple (.fixed 1)) 14 = true ∧
    allAtLeast (syncRun HsVerif.Props.C01Sys.exKeys (testCfg .simple (.fixed 1)) 13) 7 6 4 = true := by
  constructor <;> decide +kernel
/-- TEST simplified HotStuff, round-robin leaders -/
example : happyUpTo (testCfg .simple .roundRobin) 14 = true ∧
    allAtLeast (syncRun HsVerif.Props.C01Sys.exKeys (testCfg .simple .roundRobin) 13) 7 6 4 = true := by
  constructor <;> decide +kernel

/-- non-vacuity of `happy_path_commits`: the test configurations with a fixed leader satisfy `HappyCfg` -/
theorem happyCfg_test (rules : Rules) (hr : rules = .chained ∨ rules = .simple) : HappyCfg (testCfg rules (.fixed 1)) 1 :=
  ⟨(by show Scheme.ecdsa ≠ Scheme.bls12; decide), rfl, hr, rfl, (by show [1, 2, 3, 4].Nodup; decide),
   (by show ∀ i ∈ [1, 2, 3, 4], 1 ≤ i ∧ i ≤ 4; decide), rfl, (by show 1 ∈ [1, 2, 3, 4]; decide), (by show 2 ≤ 4; decide)⟩

/-- the theorem and the kernel agree on the run: after 13 rounds replica 3 has committed a block of view 4 -/
example : ∃ s, (syncRun HsVerif.Props.C01Sys.exKeys (testCfg .chained (.fixed 1)) 13).1.reps.lookup 3 = some s ∧
    s.committed.view = 4 := by
  obtain ⟨s, h1, _, _, _, h5, _⟩ := happy_path_nonleader_exact HsVerif.Props.C01Sys.exKeys _ 1
    (happyCfg_test .chained (Or.inl rfl)) 13 3 (by decide) (by decide)
  exact ⟨s, h1, h5⟩

/-- non-vacuity of `happy_path_commits_rr` -/
theorem happyRR_test (rules : Rules) (hr : rules = .chained ∨ rules = .simple) : HappyRR (testCfg rules .roundRobin) :=
  ⟨(by show Scheme.ecdsa ≠ Scheme.bls12; decide), rfl, hr, rfl, (by show [1, 2, 3, 4].Nodup; decide),
   (by show ∀ i ∈ [1, 2, 3, 4], 1 ≤ i ∧ i ≤ 4; decide),
   (by show ∀ i, 1 ≤ i → i ≤ 4 → i ∈ [1, 2, 3, 4]; intro i h1 h2; simp; omega), rfl, (by show 4 ≤ 4; decide)⟩

/-- TEST round-robin with `n = 2` and `n = 3` (quorum 2; outside `HappyRR`): the run commits too,
one view per round from the second round on -/
def smallCfg (n : Nat) (rules : Rules) : SysCfg :=
  { n := n, rules := rules, scheme := .ecdsa, agg := false, leaders := .roundRobin, honest := List.range' 1 n }
example : allAtLeast (syncRun HsVerif.Props.C01Sys.exKeys (smallCfg 2 .chained) 10) 9 8 6 = true ∧
    allAtLeast (syncRun HsVerif.Props.C01Sys.exKeys (smallCfg 3 .chained) 10) 9 8 6 = true ∧
    allAtLeast (syncRun HsVerif.Props.C01Sys.exKeys (smallCfg 3 .simple) 10) 9 8 6 = true := by
  refine ⟨?_, ?_, ?_⟩ <;> decide +kernel

/-- TEST `n = 1` makes no progress (`Combine` refuses a single signature, so no certificate is ever
formed): after 10 rounds the only replica is still in view 1 with the genesis certificate -/
example : ((syncRun HsVerif.Props.C01Sys.exKeys (smallCfg 1 .chained) 10).1.reps.map (fun p => (p.2.view, p.2.highQC.view))) = [(1, 0)] := by
  decide +kernel

end Tests


/-! ## Stage 3 — recovery by timeouts

`RecSetup k C D s0 ℓ T0` (Proofs/SysRecovery.lean) states precisely what is assumed: all `n ≥ 2`
replicas run the model (chained or simplified HotStuff, plain timeout rule, ECDSA / EdDSA) and agree
that `ℓ` leads view `v + 1`; replica `j` is in state `s0 j` — ARBITRARY lock, chain, committed block —
in view `v ≠ 0` with nothing queued or waiting for a view change, it has not voted beyond `v`, and it
HAS TIMED OUT: its collector holds its own timeout message `D.tmsg C j` (view signature bytes `D.bt j`,
sync info = its high QC `D.hq j` and high TC `D.htc j`); every replica can check every replica's
certificates and timeout message against the table `T0` (the certified blocks `D.hb i` are stored
everywhere, the certificates are older than `v`); the leader can walk from every certified block
down to what it proposed last; and — THE fact for which the classical argument needs the safety
invariants (every lock is covered by the high QCs of more than `n - quorum` replicas, and a view
has one certified block) — every certificate that is the highest of some quorum (`Top C D i`)
makes every replica's vote rule ready (`RuleReady`: the lock is below the certified block, or a
proposal on it extends the lock over stored blocks). -/

/-- **Recovery**: from such a state, deliver the timeout messages in ANY order `msgs` (every message
— receiver, sender — exactly once).  Then every replica is in a view `≥ v + 1`; the leader `ℓ` has
proposed a block `b'` of view `v + 1` whose certificate `D.hq i` is the highest of a quorum, and the
proposal is in flight to every other replica; and every other replica `j`, in the state it is in
then (view exactly `v + 1`), votes for `b'` when the proposal reaches it: it stores and signs `b'`
and sends the signature to the leader of view `v + 2` (unless it is that leader itself). -/
theorem recovery_after_timeouts (k : Keys) (C : SysCfg) (D : RecData) (s0 : Nat → RState) (ℓ : Nat) (T0 : List (Nat × Atom))
    (hS : RecSetup k C D s0 ℓ T0) (σ0 : SysState) (h0 : RecStart C s0 T0 σ0)
    (msgs : List (Nat × Nat)) (hm : FullOrder C msgs) :
    ∃ (i : Nat) (b' : Block),
      i ∈ C.honest ∧ Top C D i ∧
      b'.view = D.v + 1 ∧ b'.qc = D.hq i ∧ b'.parent = (D.hq i).hash ∧ b'.proposer = ℓ ∧
      (∀ j ∈ C.honest, j ≠ ℓ →
        (j, Ev.propose ℓ b' none) ∈ (deliverAll k C (σ0, []) (msgs.map fun p => (p.1, Ev.timeout (D.tmsg C p.2)))).2) ∧
      (∀ j ∈ C.honest, ∃ s,
        (deliverAll k C (σ0, []) (msgs.map fun p => (p.1, Ev.timeout (D.tmsg C p.2)))).1.reps.lookup j = some s ∧
        D.v + 1 ≤ s.view) ∧
      (∀ j ∈ C.honest, j ≠ ℓ → ∃ s bytes,
        (deliverAll k C (σ0, []) (msgs.map fun p => (p.1, Ev.timeout (D.tmsg C p.2)))).1.reps.lookup j = some s ∧
        s.view = D.v + 1 ∧
        (let σ1 := (deliverAll k C (σ0, []) (msgs.map fun p => (p.1, Ev.timeout (D.tmsg C p.2)))).1
         let r := step k (C.rcfg j) { s with truth := σ1.truth, nextBytes := σ1.nextBytes } (.propose ℓ b' none)
         Has b'.hash r.1 ∧ Out.sign (blkMsg b'.hash) ∈ r.2 ∧
         r.1.truth.lookup bytes = some ⟨j, blkMsg b'.hash⟩ ∧
         ((C.rcfg j).leader (D.v + 1 + 1) ≠ j →
           Out.sendVote ((C.rcfg j).leader (D.v + 1 + 1)) (.multi C.scheme [⟨j, bytes⟩]) b'.hash ∈ r.2))) :=
  recovery_round k C D s0 ℓ T0 hS σ0 h0 msgs hm

/-- the same for the synchronous network of Stage 2: one `syncRound` delivers the timeout messages,
sender by sender (`senderMajor`) -/
theorem recovery_sync_round (k : Keys) (C : SysCfg) (D : RecData) (s0 : Nat → RState) (ℓ : Nat) (T0 : List (Nat × Atom))
    (hS : RecSetup k C D s0 ℓ T0) (x : SysState × Msgs) (h0 : RecStart C s0 T0 x.1)
    (hx : x.2 = (senderMajor C).map fun p => (p.1, Ev.timeout (D.tmsg C p.2))) :
    ∃ (i : Nat) (b' : Block),
      i ∈ C.honest ∧ Top C D i ∧
      b'.view = D.v + 1 ∧ b'.qc = D.hq i ∧ b'.parent = (D.hq i).hash ∧ b'.proposer = ℓ ∧
      (∀ j ∈ C.honest, j ≠ ℓ → (j, Ev.propose ℓ b' none) ∈ (syncRound k C x).2) ∧
      (∀ j ∈ C.honest, ∃ s, (syncRound k C x).1.reps.lookup j = some s ∧ D.v + 1 ≤ s.view) :=
  recovery_syncRound k C D s0 ℓ T0 hS x h0 hx

/-- **the quorum-intersection half of the classical argument**: if the certified blocks of more than
`n - quorum` replicas have view at least `w` (say: the voters that certified the child of a lock of
view `w` — each of them had seen the lock's certificate), then the certificate the leader proposes
on (`Top`) certifies a block of view at least `w`.  What remains to discharge `RecSetup.cover` from
reachability alone is (a) that the high QCs of a lock's child's voters cover the lock, and (b) that
equal views mean the same certified block — both are invariants over `Reach` not proved here. -/
theorem top_certificate_covers (C : SysCfg) (D : RecData) (hall : C.honest.length = C.n) (Cov : List Nat) (w i : Nat)
    (hnd : Cov.Nodup) (hmem : ∀ x ∈ Cov, x ∈ C.honest) (hbig : C.n < Cov.length + (C.rcfg 0).cfg.quorum)
    (hw : ∀ x ∈ Cov, w ≤ D.bv x) (ht : Top C D i) : w ≤ D.bv i :=
  top_covers C D hall Cov w i hnd hmem hbig hw ht

/-! ### Non-vacuity of the recovery theorem -/
section NonVacuity4
open HsVerif.Props.C01Sys

deriving instance DecidableEq for Ev

/-- four honest replicas, fixed leader 1, chained HotStuff -/
def recCfg : SysCfg := { n := 4, rules := .chained, scheme := .ecdsa, agg := false, leaders := .fixed 1, honest := [1, 2, 3, 4] }

/-- all replicas start (replica 1 proposes `P1`; nothing is delivered) and then time out in view 1 -/
def recRun : SysState × Msgs :=
  deliverAll exKeys recCfg ((syncStart exKeys recCfg).1, [])
    [(1, .localTimeout 1), (2, .localTimeout 1), (3, .localTimeout 1), (4, .localTimeout 1)]

def recData : RecData :=
  { v := 1, hq := fun _ => genesisQC, hb := fun _ => genesisBlock, htc := fun _ => ⟨none, 0⟩, bt := fun i => i + 1 }

def recS0 (j : Nat) : RState := (recRun.1.reps.lookup j).getD {}

/-- what has to be checked of one replica (state `s`, table `T`) -/
theorem recInit_of_checks (s : RState) (T : List (Nat × Atom)) (j : Nat)
    (h1 : s.view = 1) (h2 : s.queue.length = 0) (h3 : s.timeouts = [recData.tmsg recCfg j])
    (h4 : s.highQC = genesisQC) (h5 : s.waitingVC.length = 0) (h6 : s.lastVoted ≤ 1)
    (h7 : verifyQC (env exKeys (recCfg.rcfg j) { s with truth := T }) genesisQC = true)
    (h8 : s.chain.blocks.lookup genesisHash = some genesisBlock)
    (h9 : recCfg.honest.all (fun i => acceptedB (fun b => T.lookup b) (recCfg.rcfg j).cfg (recData.tmsg recCfg i)) = true) :
    RColl recCfg recData s j [] s ∧ s.waitingVC = [] ∧ s.lastVoted ≤ recData.v ∧
      KnowsAll exKeys recCfg recData j { s with truth := T } := by
  refine ⟨⟨Frame.refl _, h1, List.eq_nil_of_length_eq_zero h2, h3, h4⟩, List.eq_nil_of_length_eq_zero h5, h6, ?_, ?_, ?_⟩
  · intro i _; exact ⟨h7, h8, rfl, Nat.zero_lt_one⟩
  · intro i _; exact ⟨by simp [verifyTC, recData], Nat.zero_lt_one⟩
  · intro i hi
    exact accepted_of_acceptedB _ _ _ (List.all_eq_true.mp h9 i hi)

set_option maxRecDepth 100000 in
/-- **the hypotheses of `recovery_after_timeouts` hold of a run**: four replicas start, the proposal
of replica 1 is lost, all four time out in view 1; their timeout messages are in flight -/
theorem recovery_nonvacuous :
    RecSetup exKeys recCfg recData recS0 1 recRun.1.truth ∧ RecStart recCfg recS0 recRun.1.truth recRun.1 ∧
    recRun.2 = (senderMajor recCfg).map (fun p => (p.1, Ev.timeout (recData.tmsg recCfg p.2))) := by
  have hready : ∀ j ∈ recCfg.honest, RuleReady (recCfg.rcfg j) (recS0 j) 2 genesisBlock := by
    intro j hj
    simp only [recCfg, List.mem_cons, List.not_mem_nil, or_false] at hj
    rcases hj with rfl | rfl | rfl | rfl <;>
      exact ⟨Or.inl rfl, Or.inr ⟨by decide +kernel, by decide +kernel⟩⟩
  refine ⟨⟨rfl, by decide, by decide, by decide, by decide, by decide, rfl, by decide, ?_, by decide, ?_, ?_, ?_⟩, ⟨?_, by decide +kernel, rfl, ?_⟩,
    by decide +kernel⟩
  · intro j _; rfl
  · intro j hj
    have hj' := hj
    simp only [recCfg, List.mem_cons, List.not_mem_nil, or_false] at hj'
    rcases hj' with rfl | rfl | rfl | rfl <;>
      exact recInit_of_checks (recS0 _) recRun.1.truth _ (by decide +kernel) (by decide +kernel) (by decide +kernel) (by decide +kernel)
        (by decide +kernel) (by decide +kernel) (by decide +kernel) (by decide +kernel) (by decide +kernel)
  · intro i _; show markWalk _ _ _ genesisBlock = true; decide +kernel
  · intro j hj i _ _; exact hready j hj
  · constructor <;> decide +kernel
  · intro j hj
    have key : ∀ x, (recRun.1.reps.lookup x).isSome = true → recRun.1.reps.lookup x = some (recS0 x) := by
      intro x hx
      unfold recS0
      cases h : recRun.1.reps.lookup x with
      | none => rw [h] at hx; cases hx
      | some s => rfl
    simp only [recCfg, List.mem_cons, List.not_mem_nil, or_false] at hj
    rcases hj with rfl | rfl | rfl | rfl <;> exact key _ (by decide +kernel)


/-- what the theorem yields there: after the round everybody is in view `≥ 2`, and replica 1 has
proposed a block of view 2 on top of genesis that is in flight to replicas 2, 3, 4 -/
example : ∃ b' : Block, b'.view = 2 ∧ b'.parent = genesisHash ∧
    (∀ j ∈ [2, 3, 4], (j, Ev.propose 1 b' none) ∈ (syncRound exKeys recCfg recRun).2) ∧
    (∀ j ∈ [1, 2, 3, 4], ∃ s, (syncRound exKeys recCfg recRun).1.reps.lookup j = some s ∧ 2 ≤ s.view) := by
  obtain ⟨hS, h0, hx⟩ := recovery_nonvacuous
  obtain ⟨i, b', _, _, h3, h4, h5, _, h7, h8⟩ := recovery_sync_round exKeys recCfg recData recS0 1 recRun.1.truth hS recRun h0 hx
  refine ⟨b', h3, h5, ?_, h8⟩
  intro j hj
  refine h7 j ?_ ?_
  · simp only [List.mem_cons, List.not_mem_nil, or_false] at hj
    rcases hj with rfl | rfl | rfl <;> decide
  · simp only [List.mem_cons, List.not_mem_nil, or_false] at hj
    rcases hj with rfl | rfl | rfl <;> decide

end NonVacuity4

end HsVerif.Props.C05Live
