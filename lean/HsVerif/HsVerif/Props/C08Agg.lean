import HsVerif.Proofs.AggComplete
/-! C08 / C02, aggregate-QC half — the aggregate QC assembled from a reported quorum of timeout
messages verifies (completeness of `CreateAggregateQC` against `VerifyAggregateQC`), for ECDSA,
EdDSA and BLS12, any n, any quorum of senders.  Property theorems only.

`onRemoteTimeout` (Model/Replica.lean, after `-- RemoteTimeoutRule`, `c.agg = true`) builds
  qcs := list.foldl (fun acc x => match x.si.qc with | some q => setKV x.id q acc | none => acc) []
  sig := combine c.cfg (list.filterMap (·.msgSig))          view := the timed-out view
exactly as `CreateAggregateQC` does; the theorems below are stated over these very expressions.

RESULT.  The batch of *all* message signatures always combines and batch-verifies against the
senders' own messages (`agg_batch_verifies`, full).  The aggregate QC verifies when every message of
the quorum carries a QC (`agg_verifies_partial`).  It is REJECTED — by the replica that has just
built it, and by everybody else — as soon as one accepted message of the quorum carries no QC
(`agg_rejected_of_qcless`, `agg_verifies_counterexample`): `CreateAggregateQC` keeps that sender's
signature but has no entry for it in the QC map, so `BatchVerify` finds no message for a participant.
`OnRemoteTimeout` accepts such a message (its signature over id‖view verifies). -/
set_option linter.unusedVariables false
set_option linter.unusedSimpArgs false
namespace HsVerif.Props.C08Agg
open HsVerif.Model

/-- what `OnRemoteTimeout` requires of the *message* signature of a timeout message, with aggregate
QCs configured, before the message reaches the collector — literally the two tests of the code:
`signedBy(timeout.MsgSignature, timeout.ID)` and `Verify(timeout.MsgSignature, timeout.ToBytes())`
(`tmo id view qc?` names those bytes).  `ms.WF` is the wire-decoding fact that a bit-field's cached
size is its number of members (C19 `len_eq_card`), as in C02 / C08. -/
def AggAccepted (T : Truth) (c : Cfg) (tmo : Nat → Nat → Option QC → Msg) (t : TimeoutMsg) : Prop :=
  signedBy t.msgSig t.id = true ∧
  ∃ ms, t.msgSig = some ms ∧ ms.WF ∧ verify T c ms (tmo t.id t.view t.si.qc) = true

/-- the timeout messages of the list have pairwise different bytes (`BatchVerify` demands it).
True of the real encoding because the sender id is part of the bytes: `distinct_of_key_shape`. -/
def DistinctMsgs (tmo : Nat → Nat → Option QC → Msg) (v : Nat) (l : List TimeoutMsg) : Prop :=
  ∀ x ∈ l, ∀ y ∈ l, tmo x.id v x.si.qc = tmo y.id v y.si.qc → x.id = y.id

/-- Every key function of the shape used by the model (`tmoMsgKey`) and by the driver (`tmoKey` in
Drv/Cert.lean: `s!"tmo:{id}:{v}:" ++ …`) gives different senders different messages — whatever
QCs they carry, duplicates included. -/
theorem distinct_of_key_shape (tmo : Nat → Nat → Option QC → Msg) (rest : Option QC → String)
    (hshape : ∀ i v q, tmo i v q = s!"tmo:{i}:{v}:" ++ rest q) (v : Nat) (l : List TimeoutMsg) :
    DistinctMsgs tmo v l := by
  intro x _ y _ h
  rw [hshape, hshape] at h
  exact tmoShape_inj _ _ _ _ _ h

/-- the model's own key function has that shape -/
theorem distinct_tmoMsgKey (v : Nat) (l : List TimeoutMsg) : DistinctMsgs tmoMsgKey v l :=
  distinct_of_key_shape tmoMsgKey _ (fun _ _ _ => rfl) v l

/-- **The message signatures of an accepted quorum combine and batch-verify** (n ≥ 2, all three
schemes): timeout messages of one view from pairwise different senders, each accepted by the
aggregate rule, at least two.  Their message signatures (all present) combine; the result has one
participant per sender and passes `BatchVerify` against the map sender ↦ that sender's message
bytes — whether or not the senders carry QCs, equal QCs or different ones. -/
theorem agg_batch_verifies (E : CertEnv) (k : Keys) (v : Nat) (l : List TimeoutMsg)
    (hv : ∀ x ∈ l, x.view = v) (hk : (l.map (·.id)).Nodup) (h2 : 2 ≤ l.length)
    (hd : DistinctMsgs k.tmo v l) (ha : ∀ x ∈ l, AggAccepted E.T E.cfg k.tmo x) :
    ∃ sg, combine E.cfg (l.filterMap (·.msgSig)) = .ok sg ∧ sg.len = l.length ∧ sg.WF ∧
      (∀ j, j ∈ sg.participants ↔ j ∈ l.map (·.id)) ∧
      batchVerify E.T E.cfg sg (l.map fun t => (t.id, k.tmo t.id v t.si.qc)) = true := by
  have key : ∀ x ∈ l, ∃ s bits, x.msgSig = some s ∧ SingleSig E.T E.cfg x.id (k.tmo x.id v x.si.qc) s bits ∧
      E.cfg.has x.id = true := by
    intro x hx
    obtain ⟨hsb, s, h1, hw, hver⟩ := ha x hx
    rw [h1] at hsb
    obtain ⟨hl, hp⟩ := signedBy_single s x.id hw hsb
    rw [hv x hx] at hver
    obtain ⟨bits, hb⟩ := single_of_verify E.T E.cfg x.id _ s hw hl hp hver
    have hhas := ((verify_sound _ _ _ _ hver hw).2.2.2 x.id (by rw [hp]; simp)).1
    exact ⟨s, bits, h1, hb, hhas⟩
  -- per-sender signature, message and bit-field, looked up by id
  let d : Sig := .multi .ecdsa []
  let f : Nat → Sig := fun i => ((l.find? (fun x => x.id == i)).bind (·.msgSig)).getD d
  let msg : Nat → Msg := fun i => ((l.find? (fun x => x.id == i)).map (fun x => k.tmo x.id v x.si.qc)).getD ""
  let g : Nat → Bitfield := fun i =>
    @dite _ (∃ bits, SingleSig E.T E.cfg i (msg i) (f i) bits) (Classical.propDecidable _)
      (fun h => Classical.choose h) (fun _ => Bitfield.empty)
  have hf : ∀ x ∈ l, x.msgSig = some (f x.id) := by
    intro x hx
    obtain ⟨s, _, h1, _⟩ := key x hx
    simp only [f, find_tmo_by_id l hk x hx, Option.bind_some, h1, Option.getD_some]
  have hmsg : ∀ x ∈ l, msg x.id = k.tmo x.id v x.si.qc := by
    intro x hx
    simp only [msg, find_tmo_by_id l hk x hx, Option.map_some, Option.getD_some]
  have hsingle : ∀ i ∈ l.map (·.id), SingleSig E.T E.cfg i (msg i) (f i) (g i) := by
    intro i hi
    obtain ⟨x, hx, rfl⟩ := List.mem_map.mp hi
    obtain ⟨s, bits, h1, hb, _⟩ := key x hx
    have hfs : f x.id = s := by have := hf x hx; rw [h1] at this; exact (Option.some.inj this).symm
    have hex : ∃ bits, SingleSig E.T E.cfg x.id (msg x.id) (f x.id) bits := ⟨bits, by rw [hfs, hmsg x hx]; exact hb⟩
    simp only [g, dif_pos hex]
    exact Classical.choose_spec hex
  have hhas : ∀ i ∈ l.map (·.id), E.cfg.has i = true := by
    intro i hi
    obtain ⟨x, hx, rfl⟩ := List.mem_map.mp hi
    exact (key x hx).choose_spec.choose_spec.2.2
  have hinj : ∀ i ∈ l.map (·.id), ∀ j ∈ l.map (·.id), msg i = msg j → i = j := by
    intro i hi j hj h
    obtain ⟨x, hx, rfl⟩ := List.mem_map.mp hi
    obtain ⟨y, hy, rfl⟩ := List.mem_map.mp hj
    rw [hmsg x hx, hmsg y hy] at h
    exact hd x hx y hy h
  obtain ⟨sg, h1, hbv, h3, hw, hpart⟩ := combine_single_batch E.T E.cfg msg (l.map (·.id)) f g hk hhas (by simpa using h2) hinj hsingle
  have hsigs : l.filterMap (·.msgSig) = (l.map (·.id)).map f := by
    rw [List.map_map]
    rw [← List.filterMap_eq_map]
    apply filterMap_congr_mem
    intro x hx
    simp [hf x hx]
  have hbatch : (l.map fun t => (t.id, k.tmo t.id v t.si.qc)) = (l.map (·.id)).map (fun i => (i, msg i)) := by
    rw [List.map_map]
    apply List.map_congr_left
    intro x hx
    simp [hmsg x hx]
  refine ⟨sg, by rw [hsigs]; exact h1, by simpa using h3, hw, hpart, by rw [hbatch]; exact hbv⟩

/- The statement without the hypothesis `hqc` was FALSE of the code as found (see
   `agg_rejected_of_qcless` and `agg_verifies_counterexample`: one accepted timeout message without
   a QC made the replica build an aggregate QC that nobody accepts).  The code was repaired
   (`fix: a timeout message must carry a quorum certificate under the aggregate rule`): acceptance
   now includes `hqc`, and the full statement is `agg_verifies` at the end of this file. -/
/-- **The aggregate QC built from a reported quorum verifies** at every replica with the same
configuration and store (n ≥ 2, all three schemes): `quorum` accepted timeout messages of view `v`
from pairwise different senders, *each carrying a QC* (`hqc`), at least one of these QCs passing
`VerifyQuorumCert`.  The message signatures combine, and the `AggregateQC{qcs, sig, v}` that
`CreateAggregateQC` assembles passes `VerifyAggregateQC`; the high QC reported is one of the carried
QCs, verifies, and no carried QC that verifies has a higher view. -/
theorem agg_verifies_partial (E : CertEnv) (k : Keys) (v : Nat) (l : List TimeoutMsg)
    (hE : ∀ i w q, E.tmoMsg i w q = k.tmo i w (some q))
    (hv : ∀ x ∈ l, x.view = v) (hk : (l.map (·.id)).Nodup) (h2 : 2 ≤ l.length)
    (hq : E.cfg.quorum ≤ l.length)
    (hd : DistinctMsgs k.tmo v l) (ha : ∀ x ∈ l, AggAccepted E.T E.cfg k.tmo x)
    (hqc : ∀ x ∈ l, x.si.qc.isSome = true)
    (hval : ∃ x ∈ l, ∃ q, x.si.qc = some q ∧ verifyQC E q = true) :
    ∃ sg high, combine E.cfg (l.filterMap (·.msgSig)) = .ok sg ∧
      verifyAggQC E ⟨l.foldl (fun acc x => match x.si.qc with | some q => setKV x.id q acc | none => acc) [],
        some sg, v⟩ = .ok high ∧
      verifyQC E high = true ∧ (∃ x ∈ l, x.si.qc = some high) ∧
      ∀ x ∈ l, ∀ q, x.si.qc = some q → verifyQC E q = true → q.view ≤ high.view := by
  obtain ⟨sg, hc, hlen, hw, hpart, hbv⟩ := agg_batch_verifies E k v l hv hk h2 hd ha
  have hqcs : l.foldl (fun acc x => match x.si.qc with | some q => setKV x.id q acc | none => acc) [] =
      l.filterMap (fun x => x.si.qc.map (fun q => (x.id, q))) := foldl_qcs l [] hk (by simp)
  have hbatch := batch_of_qcs E.tmoMsg k.tmo hE v l hqc
  have hmem : ∀ q, q ∈ (l.filterMap (fun x => x.si.qc.map (fun q => (x.id, q)))).map (·.2) ↔ ∃ x ∈ l, x.si.qc = some q := by
    intro q
    simp only [List.mem_map, List.mem_filterMap, Option.map_eq_some_iff]
    constructor
    · rintro ⟨p, ⟨x, hx, q', hq', rfl⟩, rfl⟩; exact ⟨x, hx, hq'⟩
    · rintro ⟨x, hx, hq'⟩; exact ⟨(x.id, q), ⟨x, hx, q, hq', rfl⟩, rfl⟩
  obtain ⟨x0, hx0, q0, hq0, hvq0⟩ := hval
  obtain ⟨high, hhigh⟩ := findHighest_some E _ q0 ((hmem q0).mpr ⟨x0, hx0, hq0⟩) hvq0
  obtain ⟨f1, f2, f3⟩ := find_sorted_max _ _ (sortDesc_sorted _) _ hhigh
  refine ⟨sg, high, hc, ?_, f1, (hmem high).mp ((mem_sortDesc _ _).mp f2), ?_⟩
  · have hlt : ¬ sg.len < E.cfg.quorum := by omega
    unfold verifyAggQC
    simp only [hqcs, hlt, ↓reduceIte, hbatch, hbv, Bool.not_true, Bool.false_eq_true, hhigh]
  · intro x hx q hxq hvq
    exact f3 q ((mem_sortDesc _ _).mpr ((hmem q).mpr ⟨x, hx, hxq⟩)) hvq

/-- **One accepted timeout message without a QC spoils the aggregate QC** (all three schemes): same
quorum as above, but some sender's message carries no QC.  The message signatures still combine,
`CreateAggregateQC` still returns an aggregate QC — and `VerifyAggregateQC` rejects it. -/
theorem agg_rejected_of_qcless (E : CertEnv) (k : Keys) (v : Nat) (l : List TimeoutMsg)
    (hE : ∀ i w q, E.tmoMsg i w q = k.tmo i w (some q))
    (hv : ∀ x ∈ l, x.view = v) (hk : (l.map (·.id)).Nodup) (h2 : 2 ≤ l.length)
    (hd : DistinctMsgs k.tmo v l) (ha : ∀ x ∈ l, AggAccepted E.T E.cfg k.tmo x)
    (hno : ∃ x ∈ l, x.si.qc = none) :
    ∃ sg, combine E.cfg (l.filterMap (·.msgSig)) = .ok sg ∧
      verifyAggQC E ⟨l.foldl (fun acc x => match x.si.qc with | some q => setKV x.id q acc | none => acc) [],
        some sg, v⟩ = .reject := by
  obtain ⟨sg, hc, hlen, hw, hpart, _⟩ := agg_batch_verifies E k v l hv hk h2 hd ha
  have hqcs : l.foldl (fun acc x => match x.si.qc with | some q => setKV x.id q acc | none => acc) [] =
      l.filterMap (fun x => x.si.qc.map (fun q => (x.id, q))) := foldl_qcs l [] hk (by simp)
  obtain ⟨x, hx, hxq⟩ := hno
  refine ⟨sg, hc, ?_⟩
  have hbv : batchVerify E.T E.cfg sg
      ((l.filterMap (fun x => x.si.qc.map (fun q => (x.id, q)))).map (fun p => (p.1, E.tmoMsg p.1 v p.2))) = false := by
    apply batchVerify_missing _ _ _ _ x.id ((hpart x.id).mpr (List.mem_map_of_mem hx))
    · simp only [List.map_map, Function.comp_def, List.mem_map, List.mem_filterMap, Option.map_eq_some_iff]
      rintro ⟨p, ⟨y, hy, q, hyq, rfl⟩, hid⟩
      simp only at hid
      have : y = x := by
        have h1 := find_tmo_by_id l hk x hx
        have h2 := find_tmo_by_id l hk y hy
        rw [hid] at h2
        rw [h1] at h2; exact (Option.some.inj h2).symm
      subst this
      rw [hxq] at hyq; cases hyq
    · have := filterMap_length_lt (fun x : TimeoutMsg => x.si.qc.map (fun q => (x.id, q))) l x hx (by simp [hxq])
      simp only [List.length_map]
      omega
  unfold verifyAggQC
  simp only [hqcs, hbv]
  split <;> simp

/-! ### the model's own replica environment -/

/-- The same for the certificate environment a replica actually uses (`env k c s`, key function
supplied by the driver): no assumption on the environment beyond the shape of the key. -/
theorem agg_verifies_replica_partial (k : Keys) (c : RCfg) (s : RState) (rest : Option QC → String)
    (hshape : ∀ i v q, k.tmo i v q = s!"tmo:{i}:{v}:" ++ rest q)
    (v : Nat) (l : List TimeoutMsg)
    (hv : ∀ x ∈ l, x.view = v) (hk : (l.map (·.id)).Nodup) (h2 : 2 ≤ l.length)
    (hq : c.cfg.quorum ≤ l.length)
    (ha : ∀ x ∈ l, AggAccepted (env k c s).T c.cfg k.tmo x)
    (hqc : ∀ x ∈ l, x.si.qc.isSome = true)
    (hval : ∃ x ∈ l, ∃ q, x.si.qc = some q ∧ verifyQC (env k c s) q = true) :
    ∃ sg high, combine c.cfg (l.filterMap (·.msgSig)) = .ok sg ∧
      verifyAggQC (env k c s) ⟨l.foldl (fun acc x => match x.si.qc with | some q => setKV x.id q acc | none => acc) [],
        some sg, v⟩ = .ok high ∧
      verifyQC (env k c s) high = true ∧ (∃ x ∈ l, x.si.qc = some high) ∧
      ∀ x ∈ l, ∀ q, x.si.qc = some q → verifyQC (env k c s) q = true → q.view ≤ high.view :=
  agg_verifies_partial (env k c s) k v l (fun _ _ _ => rfl) hv hk h2 hq
    (distinct_of_key_shape k.tmo rest hshape v l) ha hqc hval

/-! ### concrete instances: n = 4 (quorum 3), timed-out view 2, senders 1, 2, 3 -/

/-- a small key function with the sender id, the view and the carried QC in the key -/
def exKey : Nat → Nat → Option QC → Msg := fun i v q =>
  (if i = 1 then "1" else if i = 2 then "2" else if i = 3 then "3" else "x") ++ ":" ++
  (if v = 2 then "2" else "y") ++ ":" ++ (match q with | none => "-" | some q => q.hash)

def exB1 : Block := { hash := "B1", parent := genesisHash, view := 1, proposer := 1, qc := genesisQC }
/-- a genuine ECDSA QC for `B1` (signature bytes 1, 2, 3) -/
def exQC : QC := ⟨some (.multi .ecdsa [⟨1, 1⟩, ⟨2, 2⟩, ⟨3, 3⟩]), 1, "B1"⟩

def exT (qc2 : Option QC) : Truth := fun b =>
  if b = 1 then some ⟨1, blkMsg "B1"⟩ else if b = 2 then some ⟨2, blkMsg "B1"⟩
  else if b = 3 then some ⟨3, blkMsg "B1"⟩
  else if b = 11 then some ⟨1, exKey 1 2 (some exQC)⟩
  else if b = 12 then some ⟨2, exKey 2 2 qc2⟩
  else if b = 13 then some ⟨3, exKey 3 2 (some exQC)⟩ else none

def exE (qc2 : Option QC) : CertEnv :=
  { T := exT qc2, cfg := ⟨4, .ecdsa⟩, store := [("B1", exB1)], tmoMsg := fun i v q => exKey i v (some q) }

/-- timeout messages of view 2 from 1, 2, 3: senders 1 and 3 carry the same QC for `B1`, sender 2
carries `qc2` -/
def exL (qc2 : Option QC) : List TimeoutMsg :=
  [⟨1, 2, none, some (.multi .ecdsa [⟨1, 11⟩]), { qc := some exQC }⟩,
   ⟨2, 2, none, some (.multi .ecdsa [⟨2, 12⟩]), { qc := qc2 }⟩,
   ⟨3, 2, none, some (.multi .ecdsa [⟨3, 13⟩]), { qc := some exQC }⟩]

theorem exL_accepted : ∀ x ∈ exL (some genesisQC),
    AggAccepted (exE (some genesisQC)).T (exE (some genesisQC)).cfg exKey x := by
  intro x hx
  simp only [exL, List.mem_cons, List.not_mem_nil, or_false] at hx
  rcases hx with rfl | rfl | rfl <;> exact ⟨by decide, _, rfl, trivial, by decide⟩

theorem exL_accepted_qcless : ∀ x ∈ exL none, AggAccepted (exE none).T (exE none).cfg exKey x := by
  intro x hx
  simp only [exL, List.mem_cons, List.not_mem_nil, or_false] at hx
  rcases hx with rfl | rfl | rfl <;> exact ⟨by decide, _, rfl, trivial, by decide⟩

/-- Non-vacuity of `agg_verifies_partial` (ECDSA): the hypotheses hold of three accepted timeout
messages (two carrying the same QC for `B1`, one the genesis QC), so their aggregate QC verifies. -/
example : ∃ sg high, combine (exE (some genesisQC)).cfg ((exL (some genesisQC)).filterMap (·.msgSig)) = .ok sg ∧
    verifyAggQC (exE (some genesisQC)) ⟨(exL (some genesisQC)).foldl
      (fun acc x => match x.si.qc with | some q => setKV x.id q acc | none => acc) [], some sg, 2⟩ = .ok high ∧
    verifyQC (exE (some genesisQC)) high = true ∧ (∃ x ∈ exL (some genesisQC), x.si.qc = some high) ∧
    ∀ x ∈ exL (some genesisQC), ∀ q, x.si.qc = some q → verifyQC (exE (some genesisQC)) q = true → q.view ≤ high.view :=
  agg_verifies_partial (exE (some genesisQC)) ⟨exKey⟩ 2 (exL (some genesisQC)) (fun _ _ _ => rfl)
    (by decide) (by decide) (by decide) (by decide) (by unfold DistinctMsgs; decide) exL_accepted (by decide)
    ⟨⟨1, 2, none, some (.multi .ecdsa [⟨1, 11⟩]), { qc := some exQC }⟩, by simp [exL], exQC, rfl, by decide⟩

/-- … and the value it reports is the QC for `B1` (view 1), not the genesis QC (view 0). -/
example : (match verifyAggQC (exE (some genesisQC)) ⟨[(1, exQC), (2, genesisQC), (3, exQC)],
    some (.multi .ecdsa [⟨1, 11⟩, ⟨2, 12⟩, ⟨3, 13⟩]), 2⟩ with | .ok q => q == exQC | _ => false) = true := by decide

/-- The hypothesis `hqc` of `agg_verifies_partial` cannot be dropped: sender 2's accepted timeout
message carries no QC (its message signature is over id‖view alone); every other hypothesis holds,
a carried QC verifies, the signatures combine — and the aggregate QC so assembled is rejected. -/
theorem agg_verifies_counterexample :
    ∃ (E : CertEnv) (k : Keys) (v : Nat) (l : List TimeoutMsg) (sg : Sig),
      (∀ i w q, E.tmoMsg i w q = k.tmo i w (some q)) ∧ (∀ x ∈ l, x.view = v) ∧ (l.map (·.id)).Nodup ∧
      2 ≤ l.length ∧ E.cfg.quorum ≤ l.length ∧ DistinctMsgs k.tmo v l ∧
      (∀ x ∈ l, AggAccepted E.T E.cfg k.tmo x) ∧
      (∃ x ∈ l, ∃ q, x.si.qc = some q ∧ verifyQC E q = true) ∧
      combine E.cfg (l.filterMap (·.msgSig)) = .ok sg ∧
      ∀ high, verifyAggQC E ⟨l.foldl (fun acc x => match x.si.qc with | some q => setKV x.id q acc | none => acc) [],
        some sg, v⟩ ≠ .ok high := by
  refine ⟨exE none, ⟨exKey⟩, 2, exL none, .multi .ecdsa [⟨1, 11⟩, ⟨2, 12⟩, ⟨3, 13⟩], fun _ _ _ => rfl,
    by decide, by decide, by decide, by decide, by unfold DistinctMsgs; decide, exL_accepted_qcless,
    ⟨⟨1, 2, none, some (.multi .ecdsa [⟨1, 11⟩]), { qc := some exQC }⟩, by simp [exL], exQC, rfl, by decide⟩,
    rfl, ?_⟩
  intro high h
  have : (match verifyAggQC (exE none) ⟨(exL none).foldl
      (fun acc x => match x.si.qc with | some q => setKV x.id q acc | none => acc) [],
      some (.multi .ecdsa [⟨1, 11⟩, ⟨2, 12⟩, ⟨3, 13⟩]), 2⟩ with | .ok _ => true | _ => false) = false := by decide
  rw [h] at this
  cases this

/-! the same quorum with BLS12 signatures -/

def exQCB : QC :=
  ⟨some (.bls [⟨1, blkMsg "B1"⟩, ⟨2, blkMsg "B1"⟩, ⟨3, blkMsg "B1"⟩] [] (((Bitfield.empty.add 1).add 2).add 3)), 1, "B1"⟩

def exEB : CertEnv :=
  { T := fun _ => none, cfg := ⟨4, .bls12⟩, store := [("B1", exB1)], tmoMsg := fun i v q => exKey i v (some q) }

def exLB : List TimeoutMsg :=
  [⟨1, 2, none, some (blsSign 1 (exKey 1 2 (some exQCB))), { qc := some exQCB }⟩,
   ⟨2, 2, none, some (blsSign 2 (exKey 2 2 (some genesisQC))), { qc := some genesisQC }⟩,
   ⟨3, 2, none, some (blsSign 3 (exKey 3 2 (some exQCB))), { qc := some exQCB }⟩]

theorem exLB_accepted : ∀ x ∈ exLB, AggAccepted exEB.T exEB.cfg exKey x := by
  intro x hx
  simp only [exLB, List.mem_cons, List.not_mem_nil, or_false] at hx
  rcases hx with rfl | rfl | rfl <;> exact ⟨by decide, _, rfl, by simp only [blsSign, Sig.WF]; decide, by decide⟩

/-- Non-vacuity of `agg_verifies_partial` (BLS12). -/
example : ∃ sg high, combine exEB.cfg (exLB.filterMap (·.msgSig)) = .ok sg ∧
    verifyAggQC exEB ⟨exLB.foldl
      (fun acc x => match x.si.qc with | some q => setKV x.id q acc | none => acc) [], some sg, 2⟩ = .ok high ∧
    verifyQC exEB high = true ∧ (∃ x ∈ exLB, x.si.qc = some high) ∧
    ∀ x ∈ exLB, ∀ q, x.si.qc = some q → verifyQC exEB q = true → q.view ≤ high.view :=
  agg_verifies_partial exEB ⟨exKey⟩ 2 exLB (fun _ _ _ => rfl)
    (by decide) (by decide) (by decide) (by decide) (by unfold DistinctMsgs; decide) exLB_accepted (by decide)
    ⟨⟨1, 2, none, some (blsSign 1 (exKey 1 2 (some exQCB))), { qc := some exQCB }⟩, by simp [exLB], exQCB, rfl, by decide⟩


/-- what the repaired `OnRemoteTimeout` requires with aggregate QCs configured: the two signature
tests AND a quorum certificate in the sync info (fix: "a timeout message must carry a quorum
certificate under the aggregate rule") -/
def AggAcceptedQC (T : Truth) (c : Cfg) (tmo : Nat → Nat → Option QC → Msg) (t : TimeoutMsg) : Prop :=
  AggAccepted T c tmo t ∧ t.si.qc.isSome = true

/-- **The aggregate QC built from a reported quorum verifies** (repaired code, all three schemes,
n ≥ 2): any quorum of timeout messages of one view from pairwise different senders, each accepted
by `OnRemoteTimeout` under the aggregate rule, at least one carrying a QC that verifies: the
message signatures combine and the aggregate QC that `CreateAggregateQC` assembles passes
`VerifyAggregateQC`, reporting a verifying carried QC of maximal view. -/
theorem agg_verifies (E : CertEnv) (k : Keys) (v : Nat) (l : List TimeoutMsg)
    (hE : ∀ i w q, E.tmoMsg i w q = k.tmo i w (some q))
    (hv : ∀ x ∈ l, x.view = v) (hk : (l.map (·.id)).Nodup) (h2 : 2 ≤ l.length)
    (hq : E.cfg.quorum ≤ l.length)
    (hd : DistinctMsgs k.tmo v l) (ha : ∀ x ∈ l, AggAcceptedQC E.T E.cfg k.tmo x)
    (hval : ∃ x ∈ l, ∃ q, x.si.qc = some q ∧ verifyQC E q = true) :
    ∃ sg high, combine E.cfg (l.filterMap (·.msgSig)) = .ok sg ∧
      verifyAggQC E ⟨l.foldl (fun acc x => match x.si.qc with | some q => setKV x.id q acc | none => acc) [],
        some sg, v⟩ = .ok high ∧
      verifyQC E high = true ∧ (∃ x ∈ l, x.si.qc = some high) ∧
      ∀ x ∈ l, ∀ q, x.si.qc = some q → verifyQC E q = true → q.view ≤ high.view :=
  agg_verifies_partial E k v l hE hv hk h2 hq hd (fun x hx => (ha x hx).1) (fun x hx => (ha x hx).2) hval

end HsVerif.Props.C08Agg
