import HsVerif.Proofs.Twins
/-! C18 — the Twins tester enumerates what it announces and reports divergence faithfully.
Property theorems only; model in `Model/Twins.lean` (the generator as repaired by
fixes/C18-generator-last.diff), helper lemmas in `Proofs/Twins.lean`. -/
set_option linter.unusedVariables false
namespace HsVerif.Props.C18
open HsVerif.Model.Twins

/-- the scenarios among the results of successive `NextScenario` calls (`none` = `io.EOF`) -/
def delivered (rs : List (Option Scenario)) : List Scenario := rs.filterMap id

/-- offsets as `NewGenerator` (all 0, alphabet non-empty) or `Shuffle` (`Intn(len)`) leave them -/
def OffsetsOK (g : Gen) : Prop := g.offsets.length = g.views ∧ ∀ o ∈ g.offsets, o < g.lp.length

/-! ## The generator delivers what it announces -/

/-- `generator_complete`, call by call: for every alphabet (any size `L`, also 0) and every number
of views `V` (also 0), call number `c` (0-based) of a fresh generator returns the scenario selected
by the base-`L` digits of `c` as long as `c < L^V` and the end marker from then on — forever, with
no other outcome; `Remaining()` counts down from the announced `L^V` to 0 and never below. -/
theorem generator_complete (g : Gen) (h : Fresh g) (k : Nat) :
    (g.run k).2 = (List.range k).map (fun c => if c < g.total then some (scenarioAt g c) else none) ∧
    (g.run k).1.remaining = ((g.total - min k g.total : Nat) : Int) ∧
    ((g.run k).1.done = true ↔ g.total ≤ k) := by
  have hr := run_stateAt g k 0
  rw [fresh_stateAt g h] at hr
  simp only [Nat.zero_add] at hr
  rw [hr]
  refine ⟨rfl, ?_, ?_⟩
  · unfold stateAt
    by_cases hk : k < g.total
    · simp only [hk, ↓reduceIte]
      have : min k g.total = k := by omega
      rw [this]; omega
    · simp only [hk, ↓reduceIte]
      have : min k g.total = g.total := by omega
      rw [this]; simp
  · unfold stateAt
    by_cases hk : k < g.total
    · simp only [hk, ↓reduceIte]; constructor
      · intro h; cases h
      · intro h; omega
    · simp only [hk, ↓reduceIte]; constructor
      · intro _; omega
      · intro _; trivial

/-- what a fresh generator announces is `L^V` -/
theorem announced (g : Gen) (h : Fresh g) : g.remaining = ((g.lp.length ^ g.views : Nat) : Int) := h.rem

theorem delivered_range (f : Nat → Scenario) (N : Nat) : ∀ (k : Nat),
    delivered ((List.range k).map fun c => if c < N then some (f c) else none) = (List.range (min k N)).map f := by
  intro k
  induction k with
  | zero => simp [delivered]
  | succ k ih =>
    unfold delivered at ih ⊢
    rw [List.range_succ, List.map_append, List.filterMap_append, ih]
    by_cases hk : k < N
    · have : min (k + 1) N = min k N + 1 := by omega
      rw [this, List.range_succ, List.map_append]
      have hm : min k N = k := by omega
      simp [hk, hm]
    · have : min (k + 1) N = min k N := by omega
      rw [this]
      simp [hk]

/-- `generator_complete`, the whole stream: however many calls are made (at least `L^V`), the
scenarios delivered are exactly the `L^V` announced ones — `allSeq`, i.e. scenario number `c`
for `c = 0 … L^V-1` in this (odometer) order — no fewer and no more. -/
theorem generator_delivers_announced (g : Gen) (h : Fresh g) (k : Nat) (hk : g.total ≤ k) :
    delivered (g.run k).2 = allSeq g.lp emptyView g.views g.offsets ∧
    ((delivered (g.run k).2).length : Int) = g.remaining := by
  have h1 := (generator_complete g h k).1
  have h2 := delivered_range (scenarioAt g) g.total k
  rw [← h1] at h2
  have hm : min k g.total = g.total := by omega
  rw [hm] at h2
  refine ⟨h2, ?_⟩
  rw [h2, h.rem]
  simp [Gen.total]

/-- the odometer visits every index tuple exactly once: the index tuples of calls `0 … L^V-1`
are pairwise different, and every tuple of `V` indices below `L` is among them. -/
theorem odometer_enumerates (L V : Nat) :
    ((List.range (L ^ V)).map (digits L V)).Nodup ∧
    ∀ t : List Nat, (t.length = V ∧ ∀ d ∈ t, d < L) ↔ t ∈ (List.range (L ^ V)).map (digits L V) := by
  constructor
  · apply nodup_map_on _ List.nodup_range
    intro c hc c' hc' e
    rw [List.mem_range] at hc hc'
    rw [← value_digits _ _ _ hc, ← value_digits _ _ _ hc', e]
  · intro t
    simp only [List.mem_map, List.mem_range]
    constructor
    · rintro ⟨h1, h2⟩
      have hv := value_lt L t h2
      rw [h1] at hv
      refine ⟨value L t, hv, ?_⟩
      have := digits_value L t h2
      rw [h1] at this
      exact this
    · rintro ⟨c, hc, rfl⟩
      exact ⟨digits_length _ _ _, digits_lt' _ _ _ hc⟩

/-- every delivered scenario has `V` views, each taken from the alphabet (so the `getD` default of
the model — where Go would index out of range — is never observed), and conversely every sequence
of `V` views of the alphabet is delivered. -/
theorem delivered_iff (g : Gen) (ho : OffsetsOK g) (s : Scenario) :
    s ∈ allSeq g.lp emptyView g.views g.offsets ↔ s.length = g.views ∧ ∀ v ∈ s, v ∈ g.lp :=
  mem_allSeq g.lp emptyView g.views g.offsets ho.1 ho.2 s

/-- no repetition: if the alphabet has no repeated view, no scenario is delivered twice. -/
theorem generator_no_repetition (g : Gen) (ho : OffsetsOK g) (hn : g.lp.Nodup) :
    (allSeq g.lp emptyView g.views g.offsets).Nodup :=
  allSeq_nodup g.lp emptyView g.views g.offsets hn ho.1 ho.2

/-- determinism: the result sequence is a function of alphabet, view count and offsets alone. -/
theorem generator_deterministic (g g' : Gen) (h : Fresh g) (h' : Fresh g')
    (e1 : g.lp = g'.lp) (e2 : g.views = g'.views) (e3 : g.offsets = g'.offsets) (k : Nat) :
    (g.run k).2 = (g'.run k).2 := by
  rw [(generator_complete g h k).1, (generator_complete g' h' k).1]
  unfold Gen.total scenarioAt
  rw [e1, e2, e3]

/-- `NewGenerator` returns a fresh generator with valid offsets (when the alphabet is not empty). -/
theorem newGenerator_fresh (n t k v : Nat) : Fresh (newGenerator n t k v) := by
  constructor <;> simp [newGenerator, Gen.ofAlphabet]

theorem newGenerator_offsets (n t k v : Nat) (h : (alphabet n t k) ≠ []) : OffsetsOK (newGenerator n t k v) := by
  constructor
  · simp [newGenerator, Gen.ofAlphabet]
  · intro o ho
    simp only [newGenerator, Gen.ofAlphabet, List.mem_replicate] at ho ⊢
    rw [ho.2]
    exact List.length_pos_iff.2 h

/-! ## Shuffle -/

theorem shuffle_lp (g : Gen) (perm offs : List Nat) (hp : perm.Perm (List.range g.lp.length)) (hne : g.lp ≠ []) :
    (g.shuffle perm offs).lp = perm.map (g.lp.getD · emptyView) ∧
    (g.shuffle perm offs).offsets = (List.range g.offsets.length).map (offs.getD · 0) ∧
    (g.shuffle perm offs).views = g.views ∧ (g.shuffle perm offs).indices = g.indices ∧
    (g.shuffle perm offs).remaining = g.remaining ∧ (g.shuffle perm offs).done = g.done := by
  have he : g.lp.isEmpty = false := by cases hl : g.lp with | nil => exact absurd hl hne | cons a l => rfl
  simp only [Gen.shuffle, he, Bool.false_eq_true, ↓reduceIte, and_self, and_true]
  apply filterMap_getElem?_eq_map
  intro j hj
  exact List.mem_range.1 (hp.mem_iff.1 hj)

/-- a shuffled fresh generator is a fresh generator: it announces and delivers `L^V` again. -/
theorem shuffle_fresh (g : Gen) (h : Fresh g) (perm offs : List Nat) (hp : perm.Perm (List.range g.lp.length)) :
    Fresh (g.shuffle perm offs) := by
  by_cases hne : g.lp = []
  · have : g.shuffle perm offs = g := by simp [Gen.shuffle, hne]
    rw [this]; exact h
  · obtain ⟨h1, h2, h3, h4, h5, h6⟩ := shuffle_lp g perm offs hp hne
    have hl : (g.shuffle perm offs).lp.length = g.lp.length := by
      rw [h1, List.length_map, hp.length_eq, List.length_range]
    constructor
    · rw [h4, h3]; exact h.idx
    · rw [h5, hl, h3]; exact h.rem
    · rw [h6, hl, h3]; exact h.fin

theorem shuffle_offsets (g : Gen) (ho : g.offsets.length = g.views) (perm offs : List Nat)
    (hp : perm.Perm (List.range g.lp.length)) (hne : g.lp ≠ []) (hoffs : ∀ o ∈ offs, o < g.lp.length) :
    OffsetsOK (g.shuffle perm offs) := by
  obtain ⟨h1, h2, h3, h4, h5, h6⟩ := shuffle_lp g perm offs hp hne
  have hl : (g.shuffle perm offs).lp.length = g.lp.length := by
    rw [h1, List.length_map, hp.length_eq, List.length_range]
  constructor
  · rw [h2, h3]; simp [ho]
  · intro o hmem
    rw [h2] at hmem
    simp only [List.mem_map, List.mem_range] at hmem
    obtain ⟨i, hi, rfl⟩ := hmem
    rw [hl, List.getD_eq_getElem?_getD]
    by_cases hi' : i < offs.length
    · simp only [List.getElem?_eq_getElem hi', Option.getD_some]
      exact hoffs _ (List.getElem_mem hi')
    · have : offs[i]? = none := by simp; omega
      rw [this]
      exact List.length_pos_iff.2 hne

/-- `shuffle_perm`: whatever permutation of the alphabet `rand.Shuffle` produced and whatever
offsets below `L` `Intn` returned, the stream of the shuffled generator is a permutation of the
stream of the unshuffled one (no hypothesis on the alphabet: repeated views are allowed). -/
theorem shuffle_perm (lp : List View) (V : Nat) (nodes : List NodeID) (perm offs : List Nat)
    (hp : perm.Perm (List.range lp.length)) (hoffs : ∀ o ∈ offs, o < lp.length)
    (g₀ g₁ : Gen) (hg₀ : g₀ = Gen.ofAlphabet lp V nodes) (hg₁ : g₁ = g₀.shuffle perm offs) :
    (allSeq g₁.lp emptyView g₁.views g₁.offsets).Perm (allSeq g₀.lp emptyView g₀.views g₀.offsets) := by
  by_cases hne : lp = []
  · have : g₁ = g₀ := by rw [hg₁, hg₀]; simp [Gen.shuffle, Gen.ofAlphabet, hne]
    rw [this]
  · have hL : 0 < lp.length := List.length_pos_iff.2 hne
    have hg0 : g₀.lp = lp := by rw [hg₀]; rfl
    have hv : g₀.views = V := by rw [hg₀]; rfl
    have ho0 : g₀.offsets = List.replicate V 0 := by rw [hg₀]; rfl
    have hp' : perm.Perm (List.range g₀.lp.length) := by rw [hg0]; exact hp
    obtain ⟨h1, h2, h3, _, _, _⟩ := shuffle_lp g₀ perm offs hp' (by rw [hg0]; exact hne)
    have hok := shuffle_offsets g₀ (by simp [ho0, hv]) perm offs hp' (by rw [hg0]; exact hne)
      (by rw [hg0]; exact hoffs)
    rw [← hg₁] at h1 h2 h3 hok
    unfold OffsetsOK at hok
    have hplen : perm.length = lp.length := by rw [hp.length_eq, List.length_range]
    have hl1 : g₁.lp.length = lp.length := by rw [h1, List.length_map, hplen]
    rw [hl1, h3, hv] at hok
    rw [h1, h3, hv, hg0, ho0]
    -- shuffled stream = image of the stream over alphabet `perm`
    have e1 := allSeq_map (lp.getD · emptyView) perm 0 emptyView V g₁.offsets (by
      intro o ho; rw [hplen]; exact hok.2 o ho)
    -- unshuffled stream = image of the stream over alphabet `range L`
    have e0 := allSeq_map (lp.getD · emptyView) (List.range lp.length) 0 emptyView V (List.replicate V 0) (by
      intro o ho; simp only [List.mem_replicate] at ho; rw [ho.2]; simpa using hL)
    rw [range_map_getD] at e0
    rw [e1, e0]
    apply List.Perm.map
    apply allSeq_perm hp List.nodup_range 0 V (List.replicate V 0) g₁.offsets (by simp) hok.1
    · intro o ho; simp only [List.mem_replicate] at ho; rw [ho.2]; simpa using hL
    · intro o ho; simpa using hok.2 o ho

/-! ## Every scenario is well formed -/

/-- the configured node identities for (NumNodes, NumTwins): replicas `1 … min(n,t)` run as two
twins each, replicas `min(n,t)+1 … n` as one node -/
def configured (n t : Nat) : List NodeID := cfgTwins 1 (min n t) ++ cfgNodes (1 + min n t) (n - min n t)

/-- `assignNodeIDs` hands out exactly the configured identities, for all `n`, `t`. -/
theorem assign_configured (n t : Nat) :
    (assignNodeIDs n t).2 ++ (assignNodeIDs n t).1 = configured n t ∧
    (∀ nd, nd ∈ (assignNodeIDs n t).1 ↔ nd.tid = 0 ∧ min n t < nd.rid ∧ nd.rid ≤ n) ∧
    (∀ nd, nd ∈ (assignNodeIDs n t).2 ↔ (nd.tid = 1 ∨ nd.tid = 2) ∧ 1 ≤ nd.rid ∧ nd.rid ≤ min n t) := by
  rw [assign_spec]
  refine ⟨rfl, fun nd => ?_, fun nd => ?_⟩
  · rw [mem_cfgNodes]; constructor <;> rintro ⟨h1, h2, h3⟩ <;> exact ⟨h1, by omega, by omega⟩
  · rw [mem_cfgTwins]; constructor <;> rintro ⟨h1, h2, h3⟩ <;> exact ⟨h1, by omega, by omega⟩

/-- the leader of every view of the alphabet is a configured replica (one that runs without a
twin), for all settings. -/
theorem leader_configured (n t k : Nat) (v : View) (hv : v ∈ alphabet n t k) :
    min n t < v.leader ∧ v.leader ≤ n := by
  unfold alphabet at hv
  simp only [List.mem_flatMap, List.mem_map] at hv
  obtain ⟨p, _, nd, hnd, rfl⟩ := hv
  have := ((assign_configured n t).2.1 nd).1 hnd
  exact ⟨this.2.1, this.2.2⟩

/-- a view in which every configured node, both twins of a pair included, is in exactly one of the
`k` partitions, the partitions hold nothing else, and the leader is a configured replica -/
def WellFormed (n t k : Nat) (v : View) : Prop :=
  v.partitions.length = k ∧
  (∀ nd ∈ configured n t, (v.partitions.filter fun p => decide (nd ∈ p)).length = 1) ∧
  (∀ p ∈ v.partitions, p.Nodup ∧ ∀ nd ∈ p, nd ∈ configured n t) ∧
  1 ≤ v.leader ∧ v.leader ≤ n

instance (n t k : Nat) (v : View) : Decidable (WellFormed n t k v) := by unfold WellFormed; infer_instance

set_option maxRecDepth 1000000 in
/-- `scenario_wellformed` on the complete table of the property's bound (1–5 nodes, 0–2 twin pairs,
1–3 partitions), by kernel evaluation: every view of the alphabet is well formed and the alphabet
has no repeated view. -/
theorem alphabet_wellformed_table :
    ∀ n ∈ List.range 6, ∀ t ∈ List.range 3, ∀ k ∈ List.range 4, 1 ≤ n → 1 ≤ k →
      (alphabet n t k).Nodup ∧ ∀ v ∈ alphabet n t k, WellFormed n t k v := by
  decide +kernel

theorem alphabet_wellformed (n t k : Nat) (hn : 1 ≤ n ∧ n ≤ 5) (ht : t ≤ 2) (hk : 1 ≤ k ∧ k ≤ 3) :
    (alphabet n t k).Nodup ∧ ∀ v ∈ alphabet n t k, WellFormed n t k v :=
  alphabet_wellformed_table n (List.mem_range.2 (by omega)) t (List.mem_range.2 (by omega)) k
    (List.mem_range.2 (by omega)) hn.1 hk.1

/-- `scenario_wellformed`: for every setting of the bound and any number of views, every scenario
the generator delivers — unshuffled or shuffled with any permutation / offsets — consists of
well-formed views only, and no scenario is delivered twice. -/
theorem scenario_wellformed (n t k V : Nat) (hn : 1 ≤ n ∧ n ≤ 5) (ht : t ≤ 2) (hk : 1 ≤ k ∧ k ≤ 3)
    (g : Gen) (hg : g = newGenerator n t k V ∨
      ∃ perm offs, perm.Perm (List.range (alphabet n t k).length) ∧ (∀ o ∈ offs, o < (alphabet n t k).length) ∧
        g = (newGenerator n t k V).shuffle perm offs) :
    (∀ s ∈ allSeq g.lp emptyView g.views g.offsets, ∀ v ∈ s, WellFormed n t k v) ∧
    (allSeq g.lp emptyView g.views g.offsets).Nodup := by
  obtain ⟨hnd, hwf⟩ := alphabet_wellformed n t k hn ht hk
  have hlp0 : (newGenerator n t k V).lp = alphabet n t k := by simp [newGenerator, Gen.ofAlphabet]
  by_cases hne : alphabet n t k = []
  · -- empty alphabet: the stream is empty or holds the empty scenario only
    have hg' : g = newGenerator n t k V := by
      rcases hg with h | ⟨perm, offs, _, _, h⟩
      · exact h
      · rw [h]; simp [Gen.shuffle, hlp0, hne]
    subst hg'
    rw [hlp0, hne]
    constructor
    · intro s hs v hv
      simp only [allSeq, List.mem_map, List.mem_range] at hs
      obtain ⟨c, hc, rfl⟩ := hs
      have hV : (newGenerator n t k V).views = 0 := by
        rcases Nat.eq_zero_or_pos (newGenerator n t k V).views with h | h
        · exact h
        · exfalso
          have : ([] : List View).length ^ (newGenerator n t k V).views = 0 := by
            simp only [List.length_nil]; exact Nat.zero_pow h
          omega
      rw [hV] at hv
      simp [seqOf, digits] at hv
    · apply nodup_map_on _ List.nodup_range
      intro c hc c' hc' _
      rw [List.mem_range] at hc hc'
      rcases Nat.eq_zero_or_pos (newGenerator n t k V).views with h | h
      · rw [h] at hc hc'; simp at hc hc'; omega
      · have : ([] : List View).length ^ (newGenerator n t k V).views = 0 := by
          simp only [List.length_nil]; exact Nat.zero_pow h
        omega
  · have hok0 := newGenerator_offsets n t k V hne
    have key : OffsetsOK g ∧ g.lp.Nodup ∧ ∀ v ∈ g.lp, v ∈ alphabet n t k := by
      rcases hg with h | ⟨perm, offs, hp, hoffs, h⟩
      · subst h; rw [hlp0]; exact ⟨hok0, hnd, fun v hv => hv⟩
      · subst h
        rw [← hlp0] at hp hoffs hne
        obtain ⟨h1, _⟩ := shuffle_lp (newGenerator n t k V) perm offs hp hne
        refine ⟨shuffle_offsets _ hok0.1 perm offs hp hne hoffs, ?_, ?_⟩
        · rw [h1]
          have hpn : perm.Nodup := hp.nodup_iff.2 List.nodup_range
          apply nodup_map_on _ hpn
          intro i hi j hj e
          have hi' := List.mem_range.1 (hp.mem_iff.1 hi)
          have hj' := List.mem_range.1 (hp.mem_iff.1 hj)
          simp only [List.getD_eq_getElem?_getD, List.getElem?_eq_getElem hi', List.getElem?_eq_getElem hj',
            Option.getD_some] at e
          have hnd0 : (newGenerator n t k V).lp.Nodup := by rw [hlp0]; exact hnd
          exact nodup_getElem_inj hnd0 hi' hj' e
        · intro v hv
          rw [h1] at hv
          simp only [List.mem_map] at hv
          obtain ⟨i, hi, rfl⟩ := hv
          have hi' := List.mem_range.1 (hp.mem_iff.1 hi)
          simp only [List.getD_eq_getElem?_getD, List.getElem?_eq_getElem hi', Option.getD_some]
          rw [← hlp0]
          exact List.getElem_mem hi'
    obtain ⟨hok, hnd', hsub⟩ := key
    refine ⟨?_, generator_no_repetition g hok hnd'⟩
    intro s hs v hv
    exact hwf v (hsub v (((delivered_iff g hok s).1 hs).2 v hv))

/-! ## JSON round trip -/

/-- `json_roundtrip`: a scenario written with `json.Marshal` and read back with `json.Unmarshal`
has the same views in the same order, each with the same leader, the same number of partitions, and
in every partition exactly the same members (read back without repetition). -/
theorem json_roundtrip (s : Scenario) :
    (jsonRoundtrip s).length = s.length ∧
    ∀ (i : Nat) (v : View), s[i]? = some v →
      ∃ v', (jsonRoundtrip s)[i]? = some v' ∧ v'.leader = v.leader ∧
        v'.partitions.length = v.partitions.length ∧
        ∀ (j : Nat) (p : NodeSet), v.partitions[j]? = some p →
          ∃ p', v'.partitions[j]? = some p' ∧ p'.Nodup ∧ ∀ nd, nd ∈ p' ↔ nd ∈ p := by
  refine ⟨by simp [jsonRoundtrip], ?_⟩
  intro i v hv
  refine ⟨⟨v.leader, v.partitions.map fun p => unmarshalSet (marshalSet p)⟩, ?_, rfl, by simp, ?_⟩
  · simp [jsonRoundtrip, hv]
  · intro j p hp
    refine ⟨unmarshalSet (marshalSet p), by simp [hp], nodup_unmarshal _, fun nd => mem_unmarshal_marshal p nd⟩

/-- the JSON member list of a partition has one entry per member, whatever order the map yields -/
theorem json_members (p : NodeSet) : (marshalSet p).length = p.length ∧ ∀ nd, nd ∈ marshalSet p ↔ nd ∈ p :=
  ⟨length_marshalSet p, fun nd => mem_marshalSet nd p⟩

/-! ## The verdict of checkCommits -/

/-- `checkCommits_exact`: for every family of commit logs (any number of nodes, any twin
structure, any lengths). With `logs` = the logs of the replicas that run without a twin:
* the verdict is "unsafe" exactly when two of them hold different blocks at the same position;
* `commits` is the length of the agreed prefix: at every earlier position somebody committed and
  all who did agree; at position `commits` either nobody has committed (verdict safe) or there is
  a disagreement (verdict unsafe). -/
theorem checkCommits_exact (net : CommitLogs) :
    let logs := singles net
    let r := checkCommits net
    (r.1 = false ↔ ∃ l₁ ∈ logs, ∃ l₂ ∈ logs, ∃ (j a b : Nat),
        (l₁ : List Nat)[j]? = some a ∧ (l₂ : List Nat)[j]? = some b ∧ a ≠ b) ∧
    (∀ j < r.2, Occupied logs j ∧ Agree logs j) ∧
    (r.1 = true → ¬ Occupied logs r.2) ∧
    (r.1 = false → Occupied logs r.2 ∧ ¬ Agree logs r.2) := by
  intro logs r
  obtain ⟨h1, h2, h3⟩ := checkLoop_spec logs (maxLen logs + 1) 0 (by intro j hj; omega) (by omega)
  have hr : r = checkLoop logs (maxLen logs + 1) 0 := rfl
  rw [← hr] at h1 h2 h3
  refine ⟨?_, h1, h2, h3⟩
  constructor
  · intro hf
    obtain ⟨_, hna⟩ := h3 hf
    apply Classical.byContradiction
    intro hno
    apply hna
    intro l₁ hl₁ l₂ hl₂ a b ha hb
    apply Classical.byContradiction
    intro hab
    exact hno ⟨l₁, hl₁, l₂, hl₂, r.2, a, b, ha, hb, hab⟩
  · rintro ⟨l₁, hl₁, l₂, hl₂, j, a, b, ha, hb, hab⟩
    cases hs : r.1 with
    | false => rfl
    | true =>
      exfalso
      have hno := h2 hs
      by_cases hj : j < r.2
      · exact hab ((h1 j hj).2 l₁ hl₁ l₂ hl₂ a b ha hb)
      · apply hno
        refine ⟨l₁, hl₁, ?_⟩
        have := (List.getElem?_eq_some_iff.1 ha).1
        omega

/-- which logs are considered: those of nodes whose replica id occurs once in the network -/
theorem singles_iff (net : CommitLogs) (l : List Nat) :
    l ∈ singles net ↔ ∃ e ∈ net, e.2 = l ∧ (net.filter fun e' => e'.1.rid == e.1.rid).length = 1 := by
  simp only [singles, List.mem_map, List.mem_filter, beq_iff_eq]
  constructor
  · rintro ⟨e, ⟨he, hc⟩, rfl⟩; exact ⟨e, he, rfl, hc⟩
  · rintro ⟨e, he, rfl, hc⟩; exact ⟨e, ⟨he, hc⟩, rfl⟩

/-! ## Non-vacuity -/

/-- 3 nodes, 1 twin pair, 2 partitions, 2 views: 12 views, 144 announced, 144 delivered, the 145th
and 146th call give the end marker, the last scenario delivered is number 143. -/
example : (newGenerator 3 1 2 2).lp.length = 12 ∧ (newGenerator 3 1 2 2).remaining = 144 ∧
    (delivered ((newGenerator 3 1 2 2).run 146).2).length = 144 ∧
    (((newGenerator 3 1 2 2).run 146).2.drop 143).map Option.isSome = [true, false, false] ∧
    ((newGenerator 3 1 2 2).run 146).1.remaining = 0 := by decide +kernel

/-- all replicas twinned: nothing is announced, the first call already ends the stream -/
example : (newGenerator 2 2 2 2).remaining = 0 ∧ ((newGenerator 2 2 2 2).run 2).2 = [none, none] := by
  decide +kernel

/-- a shuffled stream differs in order but not in content -/
example : let g := (newGenerator 2 0 2 1).shuffle [2, 0, 3, 1] [1]
    (g.run 5).2.map (·.map (·.map (·.leader))) = [some [1], some [2], some [2], some [1], none] ∧
    ((newGenerator 2 0 2 1).run 5).2.map (·.map (·.map (·.leader))) = [some [1], some [2], some [1], some [2], none] := by
  decide +kernel

/-- verdicts: disagreement at position 1 between single replicas; twins' logs are ignored -/
example : checkCommits [(⟨1, 0⟩, [7, 8]), (⟨2, 0⟩, [7, 9]), (⟨3, 1⟩, [1]), (⟨3, 2⟩, [2])] = (false, 1) ∧
    checkCommits [(⟨1, 0⟩, [7, 8, 9]), (⟨2, 0⟩, [7, 8]), (⟨3, 1⟩, [1]), (⟨3, 2⟩, [2])] = (true, 3) ∧
    checkCommits [(⟨3, 1⟩, [1]), (⟨3, 2⟩, [2])] = (true, 0) := by decide +kernel

/-- JSON: members come back sorted and without repetition, nil and empty sets coincide -/
example : jsonRoundtrip [⟨2, [[⟨3, 0⟩, ⟨1, 2⟩, ⟨1, 1⟩], []]⟩] = [⟨2, [[⟨1, 1⟩, ⟨1, 2⟩, ⟨3, 0⟩], []]⟩] := by
  decide +kernel

end HsVerif.Props.C18
