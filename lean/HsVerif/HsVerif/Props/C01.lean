import HsVerif.Proofs.Safety
import HsVerif.Proofs.QuorumCount
/-! C01 — committed ledgers never diverge.  Property theorems (chained and simplified HotStuff).

Layer A, proved here for every block forest, every number of replicas, every vote history:
if honest replicas keep the voting discipline (one vote per view; parent certified and lower;
the lock rule) and at most `numFaulty n` of the `n` replicas are Byzantine, two blocks that meet
the commit condition are on one branch.  The discipline itself is what C03 proves of the replica
model (`votes_increasing`, `vote_wellformed`) and what the cluster/replica oracles check of the
implementation (lock rule); certificates ⇒ quorum of genuine votes is C02.  Fast-HotStuff is not
covered by these theorems. -/
namespace HsVerif.Props.C01
open HsVerif.Safety HsVerif.QuorumCount HsVerif.Model

/-- `n` replicas `0..n-1`, those marked `byz` Byzantine, quorums = sets of at least
`quorumSize n` replicas (the threshold every certificate check uses, C20/C02). -/
abbrev replicaSys (n : Nat) (byz : Nat → Bool) (Blk : Type) (gen : Blk) (view : Blk → Nat) (par : Blk → Blk)
    (voted : Nat → Blk → Prop) : Sys :=
  { Blk := Blk, Rep := Nat, gen := gen, view := view, par := par,
    honest := fun r => byz r = false,
    voted := voted,
    Quorum := fun Q => ∃ A : Nat → Bool, (∀ i, i < n → A i = true → Q i) ∧ quorumSize n ≤ count A n }

/-- Quorum intersection in an honest replica, from the threshold arithmetic of C20. -/
theorem quorums_intersect_honest (n : Nat) (hn : 1 ≤ n) (byz : Nat → Bool) (hf : count byz n ≤ numFaulty n)
    (Blk : Type) (gen : Blk) (view : Blk → Nat) (par : Blk → Blk) (voted : Nat → Blk → Prop) :
    let S := replicaSys n byz Blk gen view par voted
    ∀ Q1 Q2, S.Quorum Q1 → S.Quorum Q2 → ∃ r, Q1 r ∧ Q2 r ∧ S.honest r := by
  intro S Q1 Q2 ⟨A, hA, hcA⟩ ⟨B, hB, hcB⟩
  obtain ⟨i, hi, ha, hb, hz⟩ := quorums_share_honest n hn A B byz hcA hcB hf
  exact ⟨i, hA i hi ha, hB i hi hb, hz⟩

/-- **Every certified block above a committed block extends it** (chained / simplified HotStuff),
for any system that keeps the discipline. -/
theorem certified_extends_committed (S : Sys) (D : Discipline S) {b b' b'' : S.Blk}
    (T : ThreeChain (S := S) b b' b'') (w : S.Blk) (hw : Certified S w) (hv : S.view b ≤ S.view w) :
    Ext S w b :=
  certified_extends D T _ w rfl hw hv

/-- **Safety**: with `n ≥ 1` replicas of which at most `numFaulty n` are Byzantine, honest
replicas keeping the voting discipline, any two blocks that meet the commit condition
(`b ← b' ← b''` directly linked, consecutive views, `b''` certified by a quorum) are on one
branch — whatever the schedule, the partitions, the Byzantine replicas' messages. -/
theorem committed_blocks_on_one_branch (n : Nat) (hn : 1 ≤ n) (byz : Nat → Bool) (hf : count byz n ≤ numFaulty n)
    (Blk : Type) (gen : Blk) (view : Blk → Nat) (par : Blk → Blk) (voted : Nat → Blk → Prop)
    (S : Sys) (hS : S = replicaSys n byz Blk gen view par voted)
    (gen_view : S.view S.gen = 0) (par_gen : S.par S.gen = S.gen)
    (one_per_view : ∀ r x y, S.honest r → S.voted r x → S.voted r y → S.view x = S.view y → x = y)
    (wf : ∀ r w, S.honest r → S.voted r w → GC S (S.par w) ∧ S.view (S.par w) < S.view w)
    (lock : ∀ r x w, S.honest r → S.voted r x → S.voted r w → S.view x < S.view w →
      ∃ l, GC S l ∧ S.view (S.par (S.par x)) ≤ S.view l ∧ S.view l < S.view w ∧
        (S.view l < S.view (S.par w) ∨ Ext S w l))
    {b b' b'' c c' c'' : S.Blk}
    (Tb : ThreeChain (S := S) b b' b'') (Tc : ThreeChain (S := S) c c' c'') :
    Ext S b c ∨ Ext S c b := by
  have D : Discipline S :=
    { gen_view := gen_view, par_gen := par_gen,
      inter := by subst hS; exact quorums_intersect_honest n hn byz hf Blk gen view par voted,
      one_per_view := one_per_view, wf := wf, lock := lock }
  exact committed_on_one_branch D Tb Tc

/-- **Ledgers are prefix-related.**  Two commit logs, each a hash chain growing from genesis (every
block's parent is the block committed before it, views increasing — what the ledger oracle checks
of every replica's log), whose newest blocks both meet the commit condition, are prefix-related:
one is a prefix of the other.  (Empty logs are prefixes of everything.) -/
theorem ledgers_prefix_related (S : Sys) (D : Discipline S) (l1 l2 : List S.Blk)
    (h1 : ChainLog S S.gen l1) (h2 : ChainLog S S.gen l2)
    {b' b'' c' c'' : S.Blk}
    (Tb : l1 ≠ [] → ThreeChain (S := S) (logHead S.gen l1) b' b'')
    (Tc : l2 ≠ [] → ThreeChain (S := S) (logHead S.gen l2) c' c'') :
    l1 <+: l2 ∨ l2 <+: l1 := by
  by_cases e1 : l1 = []
  · left; rw [e1]; exact List.nil_prefix
  by_cases e2 : l2 = []
  · right; rw [e2]; exact List.nil_prefix
  rcases committed_on_one_branch D (Tb e1) (Tc e2) with h | h
  · exact Or.inr (logs_prefix D.par_gen l1 l2 h1 h2 h)
  · exact Or.inl (logs_prefix D.par_gen l2 l1 h2 h1 h)

/-- The simplified-HotStuff vote condition (`parent.view ≥ locked.view`) is a special case of the
lock rule used above: a parent at the lock's view *is* the lock. -/
theorem simple_rule_is_lock_rule (S : Sys) (gen_view : S.view S.gen = 0)
    (inter : ∀ Q1 Q2, S.Quorum Q1 → S.Quorum Q2 → ∃ r, Q1 r ∧ Q2 r ∧ S.honest r)
    (one_per_view : ∀ r x y, S.honest r → S.voted r x → S.voted r y → S.view x = S.view y → x = y)
    (wf : ∀ r w, S.honest r → S.voted r w → GC S (S.par w) ∧ S.view (S.par w) < S.view w)
    (w l : S.Blk) (hp : GC S (S.par w)) (hl : GC S l) (h : S.view l ≤ S.view (S.par w)) :
    S.view l < S.view (S.par w) ∨ Ext S w l := by
  rcases Nat.lt_or_ge (S.view l) (S.view (S.par w)) with h1 | h1
  · exact Or.inl h1
  · refine Or.inr (Ext.step ?_)
    have heq : S.view (S.par w) = S.view l := by omega
    have pos : ∀ x, Certified S x → 1 ≤ S.view x := by
      intro x ⟨Q, hQ, hv⟩
      obtain ⟨r, hr, _, hh⟩ := inter Q Q hQ hQ
      have := (wf r x hh (hv r hr hh)).2; omega
    have : S.par w = l := by
      rcases hp with hp | hp <;> rcases hl with hl | hl
      · rw [hp, hl]
      · have := pos l hl; rw [hp, gen_view] at heq; omega
      · have := pos _ hp; rw [hl, gen_view] at heq; omega
      · obtain ⟨Qa, hQa, hva⟩ := hp
        obtain ⟨Qb, hQb, hvb⟩ := hl
        obtain ⟨r, hra, hrb, hh⟩ := inter Qa Qb hQa hQb
        exact one_per_view r _ _ hh (hva r hra hh) (hvb r hrb hh) heq
    rw [this]; exact Ext.refl l

/-! Non-vacuity: four honest replicas voting for every block of the chain 0 ← 1 ← 2 ← … keep the
discipline, and `1 ← 2 ← 3` is a three-chain. -/
abbrev chainSys : Sys := replicaSys 4 (fun _ => false) Nat 0 id (fun b => b - 1) (fun r b => r < 4 ∧ 1 ≤ b)

theorem chain_ext (w : Nat) : ∀ k, k ≤ w → Ext chainSys w (w - k) := by
  intro k
  induction k with
  | zero => intro _; exact ⟨0, rfl⟩
  | succ k ih =>
    intro h
    obtain ⟨j, hj⟩ := ih (by omega)
    refine ⟨j + 1, ?_⟩
    have : up chainSys (1 + j) w = up chainSys 1 (up chainSys j w) := up_add chainSys 1 j w
    rw [Nat.add_comm, this, hj]
    show (w - k) - 1 = w - (k + 1)
    omega

theorem chain_certified (b : Nat) (hb : 1 ≤ b) : Certified chainSys b :=
  ⟨fun r => r < 4, ⟨fun _ => true, fun i hi _ => hi, by decide⟩, fun r hr _ => ⟨hr, hb⟩⟩

example : ∃ b b' b'' : chainSys.Blk, ThreeChain (S := chainSys) b b' b'' :=
  ⟨1, 2, 3, { p2 := rfl, p1 := rfl, v1 := rfl, v2 := rfl, cert := chain_certified 3 (by decide) }⟩

theorem chain_lock (x w : Nat) (hx : 1 ≤ x) (hlt : x < w) :
    ∃ l : Nat, GC chainSys l ∧ x - 1 - 1 ≤ l ∧ l < w ∧ (l < w - 1 ∨ Ext chainSys w l) := by
  refine ⟨x - 1 - 1, ?_, Nat.le_refl _, by omega, Or.inr ?_⟩
  · by_cases h : x - 1 - 1 = 0
    · exact Or.inl h
    · exact Or.inr (chain_certified _ (by omega))
  · have := chain_ext w (w - (x - 1 - 1)) (by omega)
    have e : w - (w - (x - 1 - 1)) = x - 1 - 1 := by omega
    rwa [e] at this

example : ∀ r x w, chainSys.honest r → chainSys.voted r x → chainSys.voted r w → chainSys.view x < chainSys.view w →
    ∃ l, GC chainSys l ∧ chainSys.view (chainSys.par (chainSys.par x)) ≤ chainSys.view l ∧
      chainSys.view l < chainSys.view w ∧ (chainSys.view l < chainSys.view (chainSys.par w) ∨ Ext chainSys w l) :=
  fun _ x w _ hx _ hlt => chain_lock x w hx.2 hlt

end HsVerif.Props.C01
