import HsVerif.Proofs.SysChain
import HsVerif.Proofs.SysChainGlue
import HsVerif.Proofs.SysChainAll
import HsVerif.Props.C05Cover
/-! C05, task S12 — FROM A SYNCHRONISED VIEW TO A NEW COMMIT, starting in any state that satisfies the phase
predicate (in particular: reachable states after arbitrary faults).  Property theorems; proofs in Proofs/SysChain.lean.

Scope: chained and simplified HotStuff (`rules ≠ .fast`), plain timeout rule, ECDSA / EdDSA, all `n ≥ 2` replicas run
the model, FIXED leader `L` (`HappyCfg C L`).  Round-robin leaders are NOT covered here (see the report).

1. Predicates for arbitrary states: `SyncR w N B P s` (one replica synchronised at view `w` on block `B`, whose certificate
   names the stored block `P`), `SyncL` (the leader: proposed `B`, holds valid votes), `PhaseA` / `PhaseB` (the system),
   `VotesFly` (the votes are in flight), `WalkZ Z s` (the committer can walk from `Z` down to the committed block over
   stored parents, `Z` not committed yet), `Link B' B` (`B'` is the proposal of the next view on `QC(B)`).
2. Replica steps for ANY such state: `proposal_enters_view_and_votes`, `vote_is_kept`, `quorum_certifies_and_proposes`,
   `late_vote_changes_nothing`, `old_newview_changes_nothing`.
   Rounds, messages delivered in ANY order within the round: `round_votes` (A ⟶ B), `round_proposals` (B ⟶ A), `one_view`.
3. `synced_commits`: THREE further views (derived from `commitRule`: both rule sets commit the block three consecutive
   certified views below the proposal) after phase A at `(w, B)` every replica has `committed = B`.
4. After a recovery round: `first_proposal_after_timeouts_votes` (a replica that entered view `v + 1` on a timeout
   certificate receives the leader's proposal on an older certified block and ends up synchronised, with a walk from the
   new block); `recovery_reaches_synced` (task S12b): under the hypotheses of `recovery_from_reachable` and `SyncPre`
   (Proofs/SysChainGlue.lean) the recovery round followed by the delivery of the proposals ends in phase A at `(v + 1, b')`;
   `commit_after_recovery`: within `1 + 3` views every replica commits the block proposed after the recovery — no
   hypothesis `hsync` any more; `commit_after_recovery_partial` (the earlier conditional form) is kept.
6. `round_votes_all`, `one_view_all`, `synced_commits_all`, `commit_after_recovery_all`: the same with EVERY message of the
   three chain views delivered — votes and new-view messages, any order (Proofs/SysChainAll.lean).
5. Non-vacuity: `synced_commits_nonvacuous` + `recovered_run_commits` + `cv_syncPre` + `commit_after_recovery_nonvacuous` — four replicas, four views of progress (locks
   `P2`, committed `P1`), the votes for `P4` lost, everybody times out, recovery round, proposals: phase A at `(5, P5)`
   with `P5` on top of `P3`; three views later (different delivery orders in every round) everybody has committed `P5`. -/
set_option linter.unusedVariables false
namespace HsVerif.Props.C05Chain
open HsVerif.Model HsVerif.Proofs HsVerif.Props.C01Sys HsVerif.Props.C01SysWF HsVerif.Props.C03
open HsVerif.SysSafety HsVerif.Props.C05Live HsVerif.Props.C05Cover

deriving instance DecidableEq for Ev

/-! ## 1–2. replica steps and rounds -/

/-- **A synchronised replica receives the next proposal of the chain** (any state that satisfies `SyncR`; replica that
is not the fixed leader).  Replica `c.id` is synchronised at view `w` on block `B` (`SyncR w N B P s`: in view `w`, voted
for `B`, `B` and the block `P` certified by `B.qc` stored, high QC and lock older than `w`, nothing queued or deferred,
no block fetch is answered, the names of later proposals unused; `N` bounds store size and view — the model's event loop
has fuel 100000).  The leader's proposal `B'` — named `P<w+1>`, parent `B`, view `w + 1`, certificate `⟨sgq, B.view, B.hash⟩`
whose signature verifies against the replica's table with a quorum of signers — arrives.  Then the replica verifies the
certificate, ENTERS VIEW `w + 1` ON IT (plain timeout rule: a QC ends the view), reports its new view to the leader, stores
`B'`, runs the committer and votes: afterwards it is synchronised at `(w + 1, B')`, its high QC is `QC(B)`, the messages it
sends are exactly the new-view message and its vote (a signature the table attributes to it), both to the leader; a walk
of the committer to an uncommitted block `Z` stays possible while `w ≤ Z.view + 1`; and if `B ← P ← Z` are consecutive
certified views (`Link`), the step COMMITS `Z` and emits `commit Z`, `exec Z`. -/
theorem proposal_enters_view_and_votes (k : Keys) (c : RCfg) (L w N : Nat) (B P B' : Block) (sgq : Sig) (s : RState)
    (hs : c.scheme ≠ .bls12) (ha : c.agg = false) (hr : c.rules = .chained ∨ c.rules = .simple)
    (hlead : ∀ v, c.leader v = L) (hne : c.id ≠ L)
    (hcore : SyncR w N B P s) (hf : FreshS s) (hN : N + 12 ≤ 99999)
    (hb1 : B'.hash = pname (w + 1)) (hb2 : B'.parent = B.hash) (hb3 : B'.view = w + 1)
    (hb4 : B'.qc = ⟨some sgq, B.view, B.hash⟩)
    (hv1 : verify (fun b => s.truth.lookup b) c.cfg sgq (blkMsg B.hash) = true) (hv2 : c.cfg.quorum ≤ sgq.len) :
    SyncR (w + 1) (N + 3) B' B (step k c s (.propose L B' none)).1 ∧
    FreshS (step k c s (.propose L B' none)).1 ∧ Ext s (step k c s (.propose L B' none)).1 ∧
    (step k c s (.propose L B' none)).1.highQC = B'.qc ∧
    (step k c s (.propose L B' none)).1.votes = s.votes ∧
    (step k c s (.propose L B' none)).1.lastProposed = s.lastProposed ∧
    (∃ bytes, (step k c s (.propose L B' none)).1.truth.lookup bytes = some ⟨c.id, blkMsg B'.hash⟩ ∧
      ∀ C : SysCfg, route C c.id (step k c s (.propose L B' none)).2 =
        [(L, Ev.newview c.id { qc := some B'.qc }),
         (L, Ev.vote c.id (some (.multi c.scheme [⟨c.id, bytes⟩])) B'.hash false)]) ∧
    (∀ Z : Block, WalkZ Z s →
      (w ≤ Z.view + 1 → WalkZ Z (step k c s (.propose L B' none)).1) ∧
      (Link B P → Link P Z → s.chain.blocks.lookup Z.hash = some Z →
        (step k c s (.propose L B' none)).1.committed = Z ∧
        Out.commit Z ∈ (step k c s (.propose L B' none)).2 ∧ Out.exec Z ∈ (step k c s (.propose L B' none)).2)) :=
  HsVerif.Model.nl_step k c L w N B P B' sgq s hs ha hr hlead hne hcore hf hN hb1 hb2 hb3 hb4 hv1 hv2

/-- **The leader keeps a vote that does not complete the quorum** (`SyncL`: the fixed leader synchronised at `(w, B)`
holding the valid votes `vs` of pairwise different replicas): only the vote table changes, nothing is emitted. -/
theorem vote_is_kept (k : Keys) (c : RCfg) (w N i id bytes : Nat) (B P : Block) (vs : List (Nat × Sig)) (s : RState)
    (hs : c.scheme ≠ .bls12) (hld : SyncL c w N B P vs s) (hi : c.cfg.has i = true)
    (hbytes : s.truth.lookup bytes = some ⟨i, blkMsg B.hash⟩)
    (hnew : ∀ v ∈ vs, v.1 ≠ i) (hlen : vs.length + 1 < c.cfg.quorum) :
    ∃ V, step k c s (.vote id (some (.multi c.scheme [⟨i, bytes⟩])) B.hash false) = ({ s with votes := V, out := [] }, []) ∧
      SyncL c w N B P (vs ++ [(i, .multi c.scheme [⟨i, bytes⟩])]) { s with votes := V, out := [] } :=
  HsVerif.Model.ld_vote_add k c w N i id bytes B P vs s hs hld hi hbytes hnew hlen

/-- **The vote that completes the quorum**: the leader forms `QC(B)` (which verifies against its table), enters view
`w + 1`, proposes `B'` (named `P<w+1>`, parent `B`, certificate `QC(B)`) to everybody else — these proposals are exactly
the messages of the step —, runs the committer on `B'` and keeps its own vote for it: it is synchronised at
`(w + 1, B')` as leader (`SyncL`) with exactly its own vote.  The committer clauses are those of
`proposal_enters_view_and_votes`: with `B ← P ← Z` consecutive certified views the leader COMMITS `Z` here (a leader
commits when it proposes, not when it receives). -/
theorem quorum_certifies_and_proposes (k : Keys) (c : RCfg) (w N i id bytes : Nat) (B P : Block) (vs : List (Nat × Sig)) (s : RState)
    (hs : c.scheme ≠ .bls12) (ha : c.agg = false) (hr : c.rules = .chained ∨ c.rules = .simple)
    (hid : c.cfg.has c.id = true) (hlead : ∀ v, c.leader v = c.id) (hq2 : 2 ≤ c.cfg.quorum)
    (hld : SyncL c w N B P vs s) (hf : FreshS s) (hN : N + 12 ≤ 99999)
    (hi : c.cfg.has i = true) (hbytes : s.truth.lookup bytes = some ⟨i, blkMsg B.hash⟩)
    (hnew : ∀ v ∈ vs, v.1 ≠ i) (hlen : c.cfg.quorum ≤ vs.length + 1) :
    ∃ (sgq : Sig) (bytes' : Nat) (B' : Block),
      B'.hash = pname (w + 1) ∧ B'.parent = B.hash ∧ B'.view = w + 1 ∧ B'.qc = ⟨some sgq, B.view, B.hash⟩ ∧
      verify (fun b => (step k c s (.vote id (some (.multi c.scheme [⟨i, bytes⟩])) B.hash false)).1.truth.lookup b)
        c.cfg sgq (blkMsg B.hash) = true ∧ c.cfg.quorum ≤ sgq.len ∧
      SyncL c (w + 1) (N + 3) B' B [(c.id, .multi c.scheme [⟨c.id, bytes'⟩])]
        (step k c s (.vote id (some (.multi c.scheme [⟨i, bytes⟩])) B.hash false)).1 ∧
      (step k c s (.vote id (some (.multi c.scheme [⟨i, bytes⟩])) B.hash false)).1.highQC = B'.qc ∧
      FreshS (step k c s (.vote id (some (.multi c.scheme [⟨i, bytes⟩])) B.hash false)).1 ∧
      Ext s (step k c s (.vote id (some (.multi c.scheme [⟨i, bytes⟩])) B.hash false)).1 ∧
      (∀ C : SysCfg, route C c.id (step k c s (.vote id (some (.multi c.scheme [⟨i, bytes⟩])) B.hash false)).2 =
        (C.honest.filter (· != c.id)).map (fun x => (x, Ev.propose c.id B' none))) ∧
      (∀ Z : Block, WalkZ Z s →
        (w ≤ Z.view + 1 → WalkZ Z (step k c s (.vote id (some (.multi c.scheme [⟨i, bytes⟩])) B.hash false)).1) ∧
        (Link B P → Link P Z → s.chain.blocks.lookup Z.hash = some Z →
          (step k c s (.vote id (some (.multi c.scheme [⟨i, bytes⟩])) B.hash false)).1.committed = Z ∧
          Out.commit Z ∈ (step k c s (.vote id (some (.multi c.scheme [⟨i, bytes⟩])) B.hash false)).2 ∧
          Out.exec Z ∈ (step k c s (.vote id (some (.multi c.scheme [⟨i, bytes⟩])) B.hash false)).2)) :=
  HsVerif.Model.ld_vote_quorum k c w N i id bytes B P vs s hs ha hr hid hlead hq2 hld hf hN hi hbytes hnew hlen

/-- **A vote for a block that is certified already changes nothing** (any state with an empty queue). -/
theorem late_vote_changes_nothing (k : Keys) (c : RCfg) (s : RState) (id i bytes : Nat) (hash : Hash) (blk : Block)
    (hq : s.queue = []) (hblk : s.chain.blocks.lookup hash = some blk) (hhi : blk.view ≤ s.highQC.view) :
    step k c s (.vote id (some (.multi c.scheme [⟨i, bytes⟩])) hash false) = ({ s with out := [] }, []) :=
  HsVerif.Model.vote_late_noop k c s id i bytes hash blk hq hblk hhi

/-- **A new-view message with a certificate that is not newer than the high QC, for an earlier view, changes nothing**
(any state with an empty queue in which the certificate verifies).  These are the new-view messages the replicas send
to the leader when a proposal's certificate takes them to the next view; the rounds below do not deliver them. -/
theorem old_newview_changes_nothing (k : Keys) (c : RCfg) (s : RState) (i : Nat) (q : QC) (nb : Block) (ha : c.agg = false)
    (hq : s.queue = []) (hver : verifyQC (env k c s) q = true) (hnb : s.chain.blocks.lookup q.hash = some nb)
    (hv : q.view < s.view) (hhi : nb.view ≤ s.highQC.view) :
    step k c s (.newview i { qc := some q }) = ({ s with out := [] }, []) :=
  HsVerif.Model.newview_old_noop k c s i q nb ha hq hver hnb hv hhi

/-- **Round A ⟶ B**: from phase A at `(w, B)`, deliver the votes of the replicas `ord` — pairwise different
replicas other than the leader, enough of them to complete a quorum with the leader's own vote — in ANY
order.  Then the leader has certified `B`, entered view `w + 1` and proposed `B'` (phase B), the proposals to
all other replicas are exactly the messages in flight, nobody else has changed, and the leader's committer
has made its step (`CommitStep`). -/
theorem round_votes (k : Keys) (C : SysCfg) (L w N : Nat) (hC : HappyCfg C L) (B P : Block) (bt : Nat → Nat)
    (σ : SysState) (hN : N + 12 ≤ 99999) (hA : PhaseA C L w N B P bt σ)
    (ord : List Nat) (hnd : ord.Nodup) (hord : ∀ j ∈ ord, j ∈ C.honest ∧ j ≠ L)
    (hlen : (C.rcfg L).cfg.quorum ≤ ord.length + 1) :
    ∃ B' : Block,
      PhaseB C L w N B' B P (deliverAll k C (σ, []) (ord.map (voteMsg C L B.hash bt))).1 ∧
      (deliverAll k C (σ, []) (ord.map (voteMsg C L B.hash bt))).2 = (othersOf C L).map (propMsg L B') ∧
      (∀ j, j ≠ L → (deliverAll k C (σ, []) (ord.map (voteMsg C L B.hash bt))).1.reps.lookup j = σ.reps.lookup j) ∧
      (∀ b a, σ.truth.lookup b = some a →
        (deliverAll k C (σ, []) (ord.map (voteMsg C L B.hash bt))).1.truth.lookup b = some a) ∧
      ∃ sL0 sL, σ.reps.lookup L = some sL0 ∧
        (deliverAll k C (σ, []) (ord.map (voteMsg C L B.hash bt))).1.reps.lookup L = some sL ∧
        CommitStep w B P sL0 sL :=
  HsVerif.Model.chain_round_AB k C L w N hC B P bt σ hN hA ord hnd hord hlen

/-- **Round B ⟶ A**: from phase B at `(w + 1, B')`, deliver the proposal to every other replica, in ANY order
`ord`.  Then every replica is synchronised at `(w + 1, B')` (phase A), the messages in flight are exactly the
new-view messages and the votes for `B'` (signature bytes `bt'`), the leader has not changed, and every other
replica's committer has made its step. -/
theorem round_proposals (k : Keys) (C : SysCfg) (L w N : Nat) (hC : HappyCfg C L) (B' B P : Block) (σ : SysState)
    (hN : N + 12 ≤ 99999) (hB : PhaseB C L w N B' B P σ)
    (ord : List Nat) (hnd : ord.Nodup) (hord : ∀ j ∈ ord, j ∈ C.honest ∧ j ≠ L)
    (hfull : ∀ j ∈ C.honest, j ≠ L → j ∈ ord) :
    ∃ bt' : Nat → Nat,
      PhaseA C L (w + 1) (N + 3) B' B bt' (deliverAll k C (σ, []) (ord.map (propMsg L B'))).1 ∧
      (deliverAll k C (σ, []) (ord.map (propMsg L B'))).2 = ord.flatMap (ackMsgs C L B' bt') ∧
      (deliverAll k C (σ, []) (ord.map (propMsg L B'))).1.reps.lookup L = σ.reps.lookup L ∧
      (∀ b a, σ.truth.lookup b = some a →
        (deliverAll k C (σ, []) (ord.map (propMsg L B'))).1.truth.lookup b = some a) ∧
      ∀ j ∈ C.honest, j ≠ L → ∃ s0 s, σ.reps.lookup j = some s0 ∧
        (deliverAll k C (σ, []) (ord.map (propMsg L B'))).1.reps.lookup j = some s ∧ CommitStep w B P s0 s :=
  HsVerif.Model.chain_round_BA k C L w N hC B' B P σ hN hB ord hnd hord hfull

/-- **One view of the chain** `A(w, B) ⟶ B(w + 1, B') ⟶ A(w + 1, B')`: in phase A at `(w, B)` with the votes in
flight, the votes are delivered in ANY order `ordV`, then the leader's proposals in ANY order `ordP`.
Afterwards the system is in phase A at `(w + 1, B')` for a block `B'` that links to `B`, the votes for `B'` are in
flight, and every replica's committer has made its step. -/
theorem one_view (k : Keys) (C : SysCfg) (L w N : Nat) (hC : HappyCfg C L) (B P : Block) (bt : Nat → Nat)
    (x : SysState × Msgs) (hN : N + 12 ≤ 99999) (hA : PhaseA C L w N B P bt x.1) (hfly : VotesFly C L B.hash bt x.2)
    (ordV ordP : List Nat) (hV : OthersOrder C L ordV) (hP : OthersOrder C L ordP) :
    ∃ (B' : Block) (bt' : Nat → Nat),
      PhaseA C L (w + 1) (N + 3) B' B bt' (chainView k C ordV ordP x).1 ∧
      VotesFly C L B'.hash bt' (chainView k C ordV ordP x).2 ∧ Link B' B ∧
      ∀ j ∈ C.honest, ∃ s0 s, x.1.reps.lookup j = some s0 ∧ (chainView k C ordV ordP x).1.reps.lookup j = some s ∧
        CommitStep w B P s0 s :=
  HsVerif.Model.chain_view k C L w N hC B P bt x hN hA hfly ordV ordP hV hP

/-- **From a synchronised view to a commit** (fixed leader, chained or simplified HotStuff: THREE further views —
the commit rule of either rule set commits the block three certified consecutive views below the proposal).
In phase A at `(w, B)` with the votes for `B` in flight, and with the ancestors of `B` that the committer walks
over stored at every replica (`WalkZ B`: down to the committed block, which is older than `B`), run three views
of the chain, each with the votes and the proposals delivered in ANY order.  Then the system is in phase A at
`(w + 3, B3)` for blocks `B ← B1 ← B2 ← B3` of consecutive views, and EVERY replica has committed `B`:
`committed = B`, a block newer than what it had committed before. -/
theorem synced_commits (k : Keys) (C : SysCfg) (L w N : Nat) (hC : HappyCfg C L) (B P : Block) (bt : Nat → Nat)
    (x : SysState × Msgs) (hN : N + 18 ≤ 99999) (hA : PhaseA C L w N B P bt x.1) (hfly : VotesFly C L B.hash bt x.2)
    (hwalk : ∀ j ∈ C.honest, ∃ s, x.1.reps.lookup j = some s ∧ WalkZ B s)
    (v1 p1 v2 p2 v3 p3 : List Nat) (hv1 : OthersOrder C L v1) (hp1 : OthersOrder C L p1) (hv2 : OthersOrder C L v2)
    (hp2 : OthersOrder C L p2) (hv3 : OthersOrder C L v3) (hp3 : OthersOrder C L p3) :
    ∃ (B1 B2 B3 : Block) (bt3 : Nat → Nat),
      Link B1 B ∧ Link B2 B1 ∧ Link B3 B2 ∧
      PhaseA C L (w + 3) (N + 9) B3 B2 bt3 (chainView k C v3 p3 (chainView k C v2 p2 (chainView k C v1 p1 x))).1 ∧
      VotesFly C L B3.hash bt3 (chainView k C v3 p3 (chainView k C v2 p2 (chainView k C v1 p1 x))).2 ∧
      ∀ j ∈ C.honest, ∃ s0 s, x.1.reps.lookup j = some s0 ∧
        (chainView k C v3 p3 (chainView k C v2 p2 (chainView k C v1 p1 x))).1.reps.lookup j = some s ∧
        s.committed = B ∧ s0.committed.view < s.committed.view :=
  HsVerif.Model.synced_commits_fixed k C L w N hC B P bt x hN hA hfly hwalk v1 p1 v2 p2 v3 p3 hv1 hp1 hv2 hp2 hv3 hp3

/-! ## 4. after a recovery round -/

/-- **a replica that entered view `w + 1` on a timeout certificate receives the leader's proposal `b'` of that view**,
which carries a certificate `b'.qc` of an older stored block `hb` (the highest high QC of a quorum): with the vote rule
ready (`RuleReady`: what `cover_of_reach` provides) the replica stores `b'`, runs the committer and votes — afterwards
it is synchronised at `(w + 1, b')` (`SyncR`), its vote is the only message it sends, and the committer can walk from
`b'` down to the committed block if it could from `hb`.
(The replica-level half of the link between `recovery_from_reachable` and phase A for the replicas other than the leader;
not yet lifted to the system: see `commit_after_recovery_partial`.) -/
theorem first_proposal_after_timeouts_votes (k : Keys) (c : RCfg) (L w N : Nat) (hb P b' : Block) (s : RState)
    (hs : c.scheme ≠ .bls12) (ha : c.agg = false) (hr : c.rules = .chained ∨ c.rules = .simple)
    (hlead : ∀ v, c.leader v = L) (hne : c.id ≠ L)
    (hview : s.view = w + 1) (hlv : s.lastVoted ≤ w) (hq : s.queue = []) (hwvc : s.waitingVC = [])
    (hwprop : s.waitingProp = []) (hfe : s.chain.fetchable = []) (hf : FreshS s) (hN : N + 12 ≤ 99999)
    (hb1 : b'.hash = pname (w + 1)) (hb2 : b'.parent = b'.qc.hash) (hb3 : b'.view = w + 1) (hqv : b'.qc.view < w + 1)
    (hver : verifyQC (env k c s) b'.qc = true) (hhb : s.chain.blocks.lookup b'.qc.hash = some hb) (hhbv : hb.view ≤ w)
    (hP : s.chain.blocks.lookup hb.qc.hash = some P) (hPv : P.view ≤ w)
    (hready : RuleReady c s (w + 1) hb) (hhq : s.highQC.view ≤ w) (hlock : s.lock.view ≤ w) (hcm : s.committed.view ≤ w)
    (hnames : ∀ u, w < u → s.chain.blocks.lookup (pname u) = none ∧ s.votes.lookup (pname u) = none)
    (hsmall : 2 * s.chain.blocks.length + (w + 1) ≤ N)
    (hwalk : cmWalk (s.chain.blocks.length + 2) s.chain.blocks s.committed.view hb = true) :
    SyncR (w + 1) (N + 2) b' hb (step k c s (.propose L b' none)).1 ∧
    WalkZ b' (step k c s (.propose L b' none)).1 ∧
    FreshS (step k c s (.propose L b' none)).1 ∧ Ext s (step k c s (.propose L b' none)).1 ∧
    (∃ bytes, (step k c s (.propose L b' none)).1.truth.lookup bytes = some ⟨c.id, blkMsg b'.hash⟩ ∧
      ∀ C : SysCfg, route C c.id (step k c s (.propose L b' none)).2 =
        [(L, Ev.vote c.id (some (.multi c.scheme [⟨c.id, bytes⟩])) b'.hash false)]) :=
  HsVerif.Model.nl_step_cur k c L w N hb P b' s hs ha hr hlead hne hview hlv hq hwvc hwprop hfe hf hN hb1 hb2 hb3 hqv hver hhb hhbv hP hPv hready hhq hlock hcm hnames hsmall hwalk


/-- **Commit after recovery** (PARTIAL: hypothesis `hsync`).  All hypotheses of `recovery_from_reachable` are kept
explicit (`σ0` reachable, hashes content addresses, `RecPre` with the fixed leader `L`, `RecStart`, the timeout messages
delivered in ANY order `msgs`: `recoveryRound`); then the proposals in flight are delivered in any order `ordP`
(`proposalRound`) and three views of the chain follow, every round in any order.  `hsync` is the link that is NOT proved
in general: for the block `b'` that the leader proposes in the recovery round — on the highest high QC `D.hq i` of a
quorum — the state after `proposalRound` is phase A at `(v + 1, b')` with the votes in flight, and the committer of every
replica can walk from `b'` down to its committed block.  (What is missing for it: the EXACT state of the leader after the
timeout message that completes its quorum and after the late timeout messages — `rcoll_quorum_leader` gives `Later`-style
facts only —, and the variant of `proposal_enters_view_and_votes` for a view entered by a timeout certificate, with
`RuleReady` in place of `lock.view < B.view`.)  Conclusion: within `1 + 3` views after the timeouts EVERY replica has
committed `b'`, a block of view `v + 1` — proposed after the recovery. -/
theorem commit_after_recovery_partial (k : Keys) (C : SysCfg) (L : Nat) (hC : HappyCfg C L) (D : RecData) (s0 : Nat → RState)
    (σ0 : SysState) (blk : Hash → Block) (hk : KeysOK k) (hr : Reach k C σ0) (hca : CA' σ0 blk)
    (hP : RecPre k C D s0 L σ0.truth) (h0 : RecStart C s0 σ0.truth σ0)
    (msgs : List (Nat × Nat)) (hm : FullOrder C msgs)
    (ordP v1 p1 v2 p2 v3 p3 : List Nat) (hv1 : OthersOrder C L v1) (hp1 : OthersOrder C L p1) (hv2 : OthersOrder C L v2)
    (hp2 : OthersOrder C L p2) (hv3 : OthersOrder C L v3) (hp3 : OthersOrder C L p3)
    (N : Nat) (hN : N + 18 ≤ 99999)
    (hsync : ∀ (i : Nat) (b' : Block), i ∈ C.honest → Top C D i → b'.view = D.v + 1 → b'.qc = D.hq i → b'.proposer = L →
      (∀ j ∈ C.honest, j ≠ L → (j, Ev.propose L b' none) ∈ (recoveryRound k C D σ0 msgs).2) →
      ∃ bt, PhaseA C L (D.v + 1) N b' (D.hb i) bt (proposalRound k C ordP (recoveryRound k C D σ0 msgs)).1 ∧
        VotesFly C L b'.hash bt (proposalRound k C ordP (recoveryRound k C D σ0 msgs)).2 ∧
        ∀ j ∈ C.honest, ∃ s, (proposalRound k C ordP (recoveryRound k C D σ0 msgs)).1.reps.lookup j = some s ∧ WalkZ b' s) :
    ∃ (i : Nat) (b' : Block), i ∈ C.honest ∧ Top C D i ∧ b'.view = D.v + 1 ∧ b'.qc = D.hq i ∧ b'.proposer = L ∧
      ∀ j ∈ C.honest, ∃ s,
        (chainView k C v3 p3 (chainView k C v2 p2 (chainView k C v1 p1
          (proposalRound k C ordP (recoveryRound k C D σ0 msgs))))).1.reps.lookup j = some s ∧
        s.committed = b' ∧ s.committed.view = D.v + 1 := by
  obtain ⟨i, b', r1, r2, r3, r4, r5, r6, r7, _, _⟩ := recovery_from_reachable k C D s0 L σ0 blk hk hr hca hP h0 msgs hm
  obtain ⟨bt, a1, a2, a3⟩ := hsync i b' r1 r2 r3 r4 r6 r7
  obtain ⟨B1, B2, B3, bt3, _, _, _, _, _, c6⟩ := synced_commits k C L (D.v + 1) N hC b' (D.hb i) bt _ hN a1 a2 a3
    v1 p1 v2 p2 v3 p3 hv1 hp1 hv2 hp2 hv3 hp3
  refine ⟨i, b', r1, r2, r3, r4, r6, ?_⟩
  intro j hj
  obtain ⟨_, s, _, d2, d3, _⟩ := c6 j hj
  exact ⟨s, d2, d3, by rw [d3]; exact r3⟩


/-- **Recovery reaches phase A** (item 3; fixed leader `L`).  Hypotheses: those of `recovery_from_reachable` with `ℓ = L`
(`σ0` reachable, `CA'`, `KeysOK`, `RecPre`, `RecStart`, the timeout messages delivered in ANY order `msgs`), `HappyCfg C L`,
and `SyncPre C D s0 N` (Proofs/SysChainGlue.lean; its docstring says which clauses are synchrony-after-GST facts and which
are bookkeeping).  Then the proposals in flight are delivered in ANY order `ordP`.  Conclusion: for the block `b'` of view
`v + 1` that the leader proposed on the highest high QC `D.hq i` of a quorum (`Top`), the system is in phase A at
`(v + 1, b')` (`PhaseA … b' (D.hb i)`), the votes for `b'` are in flight (`VotesFly`), and the committer of every replica can
walk from `b'` down to its committed block (`WalkZ b'`).  Tied to the existing development: the invariant `RecInv` /
`rec_step` of Proofs/SysRecovery.lean is reused and sharpened by `RecX` (the leader's exact state, the exact proposals
in flight); `cover_of_reach` supplies `RuleReady`, `top_block_covers_lock` the bound on the locks. -/
theorem recovery_reaches_synced (k : Keys) (C : SysCfg) (L : Nat) (hC : HappyCfg C L) (D : RecData) (s0 : Nat → RState)
    (σ0 : SysState) (blk : Hash → Block) (hk : KeysOK k) (hr : Reach k C σ0) (hca : CA' σ0 blk)
    (hP : RecPre k C D s0 L σ0.truth) (h0 : RecStart C s0 σ0.truth σ0)
    (msgs : List (Nat × Nat)) (hm : FullOrder C msgs) (N : Nat) (hY : SyncPre C D s0 N)
    (ordP : List Nat) (hordP : OthersOrder C L ordP) :
    ∃ (i : Nat) (b' : Block) (bt : Nat → Nat),
      i ∈ C.honest ∧ Top C D i ∧ b'.view = D.v + 1 ∧ b'.qc = D.hq i ∧ b'.proposer = L ∧
      PhaseA C L (D.v + 1) (N + 2) b' (D.hb i) bt (proposalRound k C ordP (recoveryRound k C D σ0 msgs)).1 ∧
      VotesFly C L b'.hash bt (proposalRound k C ordP (recoveryRound k C D σ0 msgs)).2 ∧
      ∀ j ∈ C.honest, ∃ s, (proposalRound k C ordP (recoveryRound k C D σ0 msgs)).1.reps.lookup j = some s ∧ WalkZ b' s :=
  recovery_reaches_phaseA k C L hC D s0 σ0 blk hk hr hca hP h0 msgs hm N hY ordP hordP

/-- **Commit after recovery** (fixed leader; chained or simplified HotStuff).  From ANY reachable state `σ0` that satisfies
the synchrony hypotheses of `recovery_from_reachable` (all explicit: `RecPre`, `RecStart`, `CA'`, `KeysOK`) and `SyncPre`:
the timeout messages are delivered in any order (`recoveryRound`), then the proposals in flight (`proposalRound`), then
three views of the chain follow (`chainView`, votes and proposals of every view in any order; no timer fires).  Then EVERY
replica has committed `b'` — the block of view `v + 1` that the leader proposed after the recovery, on the highest high QC
of a quorum — i.e. within `1 + 3` views after the view of the timeouts, and `committed.view = v + 1` is above everything
committed before (`SyncPre.committed`: `≤ v`). -/
theorem commit_after_recovery (k : Keys) (C : SysCfg) (L : Nat) (hC : HappyCfg C L) (D : RecData) (s0 : Nat → RState)
    (σ0 : SysState) (blk : Hash → Block) (hk : KeysOK k) (hr : Reach k C σ0) (hca : CA' σ0 blk)
    (hP : RecPre k C D s0 L σ0.truth) (h0 : RecStart C s0 σ0.truth σ0)
    (msgs : List (Nat × Nat)) (hm : FullOrder C msgs) (N : Nat) (hY : SyncPre C D s0 N)
    (ordP v1 p1 v2 p2 v3 p3 : List Nat) (hordP : OthersOrder C L ordP)
    (hv1 : OthersOrder C L v1) (hp1 : OthersOrder C L p1) (hv2 : OthersOrder C L v2)
    (hp2 : OthersOrder C L p2) (hv3 : OthersOrder C L v3) (hp3 : OthersOrder C L p3) :
    ∃ (i : Nat) (b' : Block), i ∈ C.honest ∧ Top C D i ∧ b'.view = D.v + 1 ∧ b'.qc = D.hq i ∧ b'.proposer = L ∧
      ∀ j ∈ C.honest, ∃ s,
        (chainView k C v3 p3 (chainView k C v2 p2 (chainView k C v1 p1
          (proposalRound k C ordP (recoveryRound k C D σ0 msgs))))).1.reps.lookup j = some s ∧
        s.committed = b' ∧ s.committed.view = D.v + 1 ∧ (s0 j).committed.view < s.committed.view := by
  obtain ⟨i, b', bt, r1, r2, r3, r4, r5, a1, a2, a3⟩ :=
    recovery_reaches_synced k C L hC D s0 σ0 blk hk hr hca hP h0 msgs hm N hY ordP hordP
  obtain ⟨B1, B2, B3, bt3, _, _, _, _, _, c6⟩ := synced_commits k C L (D.v + 1) (N + 2) hC b' (D.hb i) bt _
    (by have := hY.bound; omega) a1 a2 a3 v1 p1 v2 p2 v3 p3 hv1 hp1 hv2 hp2 hv3 hp3
  refine ⟨i, b', r1, r2, r3, r4, r5, ?_⟩
  intro j hj
  obtain ⟨_, s, _, d2, d3, _⟩ := c6 j hj
  have hv : s.committed.view = D.v + 1 := by rw [d3]; exact r3
  exact ⟨s, d2, d3, hv, by rw [hv]; have := hY.committed j hj; omega⟩


/-! ## 6. every message of a round delivered: the new-view messages woven into the rounds (Proofs/SysChainAll.lean) -/

/-- **Round A ⟶ B with ALL messages**: the votes and the new-view messages in flight reach the leader in ANY order `items`
(`(true, j)`: the vote of `j`; `(false, i)`: the new-view message of `i`); the votes are those of pairwise different
replicas, enough for a quorum; if a new-view message is among them the leader can check its certificate (`NVok`) -/
theorem round_votes_all (k : Keys) (C : SysCfg) (L w N : Nat) (hC : HappyCfg C L) (B P : Block) (bt : Nat → Nat)
    (σ : SysState) (hN : N + 12 ≤ 99999) (hA : PhaseA C L w N B P bt σ)
    (items : List (Bool × Nat)) (hnd : (voteIds items).Nodup) (hord : ∀ j ∈ voteIds items, j ∈ C.honest ∧ j ≠ L)
    (hlen : (C.rcfg L).cfg.quorum ≤ (voteIds items).length + 1)
    (hnv : (∃ p ∈ items, p.1 = false) → NVok k C L w B σ) :
    ∃ B' : Block,
      PhaseB C L w N B' B P (deliverAll k C (σ, []) (items.map (abMsg C L B bt))).1 ∧
      (deliverAll k C (σ, []) (items.map (abMsg C L B bt))).2 = (othersOf C L).map (propMsg L B') ∧
      (∀ j, j ≠ L → (deliverAll k C (σ, []) (items.map (abMsg C L B bt))).1.reps.lookup j = σ.reps.lookup j) ∧
      (∀ b a, σ.truth.lookup b = some a →
        (deliverAll k C (σ, []) (items.map (abMsg C L B bt))).1.truth.lookup b = some a) ∧
      ∃ sL0 sL, σ.reps.lookup L = some sL0 ∧
        (deliverAll k C (σ, []) (items.map (abMsg C L B bt))).1.reps.lookup L = some sL ∧
        CommitStep w B P sL0 sL :=
  HsVerif.Model.chain_round_AB_all k C L w N hC B P bt σ hN hA items hnd hord hlen hnv

/-- **One view of the chain, every message in flight delivered, in any order.**  Phase A at `(w, B)`; the messages in
flight are exactly the votes for `B` of the other replicas and (`nv = true`; not in the first view after a recovery) their
new-view messages (`x.2 = (roundItems nv ordPrev).map …`); `items` is ANY permutation of them (`msgs = items.map …` is then a
permutation of `x.2`); then the proposals are delivered in any order `ordP`.  Afterwards: phase A at `(w + 1, B')`, the
messages in flight are exactly the new-view messages and votes for `B'`, the leader can check their certificate (`NVok`),
and every replica's committer has made its step. -/
theorem one_view_all (k : Keys) (C : SysCfg) (L w N : Nat) (hC : HappyCfg C L) (B P : Block) (bt : Nat → Nat)
    (x : SysState × Msgs) (hN : N + 12 ≤ 99999) (hA : PhaseA C L w N B P bt x.1)
    (nv : Bool) (ordPrev : List Nat) (hprev : OthersOrder C L ordPrev)
    (hpool : x.2 = (roundItems nv ordPrev).map (abMsg C L B bt)) (hnvok : nv = true → NVok k C L w B x.1)
    (items : List (Bool × Nat)) (hperm : items.Perm (roundItems nv ordPrev)) (ordP : List Nat) (hP : OthersOrder C L ordP) :
    (items.map (abMsg C L B bt)).Perm x.2 ∧
    ∃ (B' : Block) (bt' : Nat → Nat),
      PhaseA C L (w + 1) (N + 3) B' B bt' (chainViewAll k C (items.map (abMsg C L B bt)) ordP x).1 ∧
      (chainViewAll k C (items.map (abMsg C L B bt)) ordP x).2 = (roundItems true ordP).map (abMsg C L B' bt') ∧
      NVok k C L (w + 1) B' (chainViewAll k C (items.map (abMsg C L B bt)) ordP x).1 ∧ Link B' B ∧
      ∀ j ∈ C.honest, ∃ s0 s, x.1.reps.lookup j = some s0 ∧
        (chainViewAll k C (items.map (abMsg C L B bt)) ordP x).1.reps.lookup j = some s ∧ CommitStep w B P s0 s :=
  HsVerif.Model.chain_view_all k C L w N hC B P bt x hN hA nv ordPrev hprev hpool hnvok items hperm ordP hP

/-- **From a synchronised view to a commit, every message delivered** (votes AND new-view messages of every view, in any
order, also chosen view by view): three views after phase A at `(w, B)` every replica has committed `B`. -/
theorem synced_commits_all (k : Keys) (C : SysCfg) (L w N : Nat) (hC : HappyCfg C L) (B P : Block) (bt : Nat → Nat)
    (x : SysState × Msgs) (hN : N + 18 ≤ 99999) (hA : PhaseA C L w N B P bt x.1)
    (nv : Bool) (ordPrev : List Nat) (hprev : OthersOrder C L ordPrev)
    (hpool : x.2 = (roundItems nv ordPrev).map (abMsg C L B bt)) (hnvok : nv = true → NVok k C L w B x.1)
    (hwalk : ∀ j ∈ C.honest, ∃ s, x.1.reps.lookup j = some s ∧ WalkZ B s)
    (i1 : List (Bool × Nat)) (p1 : List Nat) (h1 : i1.Perm (roundItems nv ordPrev)) (hp1 : OthersOrder C L p1) :
    ∃ (B1 : Block) (bt1 : Nat → Nat), Link B1 B ∧
      ∀ (i2 : List (Bool × Nat)) (p2 : List Nat), i2.Perm (roundItems true p1) → OthersOrder C L p2 →
      ∃ (B2 : Block) (bt2 : Nat → Nat), Link B2 B1 ∧
        ∀ (i3 : List (Bool × Nat)) (p3 : List Nat), i3.Perm (roundItems true p2) → OthersOrder C L p3 →
        ∃ (B3 : Block) (bt3 : Nat → Nat), Link B3 B2 ∧
          PhaseA C L (w + 3) (N + 9) B3 B2 bt3
            (chainViewAll k C (i3.map (abMsg C L B2 bt2)) p3 (chainViewAll k C (i2.map (abMsg C L B1 bt1)) p2
              (chainViewAll k C (i1.map (abMsg C L B bt)) p1 x))).1 ∧
          ∀ j ∈ C.honest, ∃ s0 s, x.1.reps.lookup j = some s0 ∧
            (chainViewAll k C (i3.map (abMsg C L B2 bt2)) p3 (chainViewAll k C (i2.map (abMsg C L B1 bt1)) p2
              (chainViewAll k C (i1.map (abMsg C L B bt)) p1 x))).1.reps.lookup j = some s ∧
            s.committed = B ∧ s0.committed.view < s.committed.view :=
  HsVerif.Model.synced_commits_all k C L w N hC B P bt x hN hA nv ordPrev hprev hpool hnvok hwalk i1 p1 h1 hp1

/-- **Commit after recovery, every message of the three chain views delivered** (votes and new-view messages, any order,
also chosen view by view).  Hypotheses as `commit_after_recovery`.  (The new-view messages of the TIMEOUT round — they
carry timeout certificates — are not delivered: `proposalRound` takes the proposals only.) -/
theorem commit_after_recovery_all (k : Keys) (C : SysCfg) (L : Nat) (hC : HappyCfg C L) (D : RecData) (s0 : Nat → RState)
    (σ0 : SysState) (blk : Hash → Block) (hk : KeysOK k) (hr : Reach k C σ0) (hca : CA' σ0 blk)
    (hP : RecPre k C D s0 L σ0.truth) (h0 : RecStart C s0 σ0.truth σ0)
    (msgs : List (Nat × Nat)) (hm : FullOrder C msgs) (N : Nat) (hY : SyncPre C D s0 N)
    (ordP : List Nat) (hordP : OthersOrder C L ordP)
    (i1 : List (Bool × Nat)) (p1 : List Nat) (h1 : i1.Perm (roundItems false ordP)) (hp1 : OthersOrder C L p1) :
    ∃ (i : Nat) (b' : Block) (bt : Nat → Nat), i ∈ C.honest ∧ Top C D i ∧ b'.view = D.v + 1 ∧ b'.qc = D.hq i ∧ b'.proposer = L ∧
      (i1.map (abMsg C L b' bt)).Perm (proposalRound k C ordP (recoveryRound k C D σ0 msgs)).2 ∧
      ∃ (B1 : Block) (bt1 : Nat → Nat),
      ∀ (i2 : List (Bool × Nat)) (p2 : List Nat), i2.Perm (roundItems true p1) → OthersOrder C L p2 →
      ∃ (B2 : Block) (bt2 : Nat → Nat),
        ∀ (i3 : List (Bool × Nat)) (p3 : List Nat), i3.Perm (roundItems true p2) → OthersOrder C L p3 →
        ∀ j ∈ C.honest, ∃ s,
          (chainViewAll k C (i3.map (abMsg C L B2 bt2)) p3 (chainViewAll k C (i2.map (abMsg C L B1 bt1)) p2
            (chainViewAll k C (i1.map (abMsg C L b' bt)) p1
              (proposalRound k C ordP (recoveryRound k C D σ0 msgs))))).1.reps.lookup j = some s ∧
          s.committed = b' ∧ s.committed.view = D.v + 1 ∧ (s0 j).committed.view < s.committed.view :=
  HsVerif.Model.commit_after_recovery_all_core k C L hC D s0 σ0 blk hk hr hca hP h0 msgs hm N hY ordP hordP i1 p1 h1 hp1

/-! ## 5. non-vacuity: a kernel-evaluated run -/
section NonVacuity

theorem lookup_none_of_keys {α β} [BEq α] [LawfulBEq α] (l : List (α × β)) (a : α) (h : ∀ p ∈ l, p.1 ≠ a) : l.lookup a = none := by
  induction l with
  | nil => rfl
  | cons p rest ih =>
    obtain ⟨k', v⟩ := p
    rw [List.lookup_cons]
    have : (a == k') = false := by
      rw [beq_eq_false_iff_ne]; exact fun e => h (k', v) (by simp) e.symm
    rw [this]
    exact ih (fun p hp => h p (by simp [hp]))

/-- every stored block and every entry of the voting machine has the name of genesis or of a proposal of a view `≤ w` -/
def namesOK (w : Nat) (s : RState) : Bool :=
  s.chain.blocks.all (fun p => p.1 == genesisHash || (List.range (w + 1)).any (fun u => p.1 == pname u)) &&
  s.votes.all (fun p => (List.range (w + 1)).any (fun u => p.1 == pname u))

theorem names_of_ok (w : Nat) (s : RState) (h : namesOK w s = true) (u : Nat) (hu : w < u) :
    s.chain.blocks.lookup (pname u) = none ∧ s.votes.lookup (pname u) = none := by
  simp only [namesOK, Bool.and_eq_true, List.all_eq_true, Bool.or_eq_true, List.any_eq_true, beq_iff_eq, List.mem_range] at h
  refine ⟨lookup_none_of_keys _ _ ?_, lookup_none_of_keys _ _ ?_⟩
  · intro p hp e
    rcases h.1 p hp with h1 | ⟨u', hu', h1⟩
    · rw [e] at h1; exact pname_ne_genesis _ h1
    · rw [e] at h1; have := pname_inj h1; omega
  · intro p hp e
    obtain ⟨u', hu', h1⟩ := h.2 p hp
    rw [e] at h1; have := pname_inj h1; omega

/-- `SyncR w N B P s ∧ WalkZ B s`, as a boolean -/
def syncOK (w N : Nat) (B P : Block) (s : RState) : Bool :=
  decide (s.view = w) && decide (s.lastVoted = w) && decide (s.queue.length = 0) && decide (s.waitingVC.length = 0) &&
  decide (s.waitingProp.length = 0) && decide (s.chain.fetchable.length = 0) && decide (B.hash = pname w) &&
  decide (B.view = w) && decide (s.chain.blocks.lookup B.hash = some B) && decide (s.chain.blocks.lookup B.qc.hash = some P) &&
  decide (P.view < w) && decide (s.highQC.view < w) && decide (s.lock.view < w) && namesOK w s &&
  decide (2 * s.chain.blocks.length + w ≤ N) &&
  cmWalk (s.chain.blocks.length + 2) s.chain.blocks s.committed.view B && decide (s.committed.view < B.view)

theorem sync_of_ok (w N : Nat) (B P : Block) (s : RState) (h : syncOK w N B P s = true) : SyncR w N B P s ∧ WalkZ B s := by
  simp only [syncOK, Bool.and_eq_true, decide_eq_true_eq] at h
  obtain ⟨⟨⟨⟨⟨⟨⟨⟨⟨⟨⟨⟨⟨⟨⟨⟨h1, h2⟩, h3⟩, h4⟩, h5⟩, h6⟩, h7⟩, h8⟩, h9⟩, h10⟩, h11⟩, h12⟩, h13⟩, h14⟩, h15⟩, h16⟩, h17⟩ := h
  exact ⟨⟨h1, h2, List.eq_nil_of_length_eq_zero h3, List.eq_nil_of_length_eq_zero h4, List.eq_nil_of_length_eq_zero h5,
    List.eq_nil_of_length_eq_zero h6, h7, h8, h9, h10, h11, h12, h13, names_of_ok w s h14, h15⟩, ⟨h16, h17⟩⟩

/-- the run of `C05Cover` (four views of the happy path, lock `P2`, the votes for `P4` lost, all four replicas time
out in view 4: `cvRun`, of which `recovery_from_reachable_nonvacuous` shows the hypotheses of the recovery theorem), then
the timeout messages are delivered (`syncRound`: the round of `recovery_from_reachable_sync`; replica 1 proposes `P5` on
`QC(P3)`), then the proposals in flight (`proposalRound`: replicas 2, 3, 4 vote for `P5`) -/
def nvA : SysState × Msgs := proposalRound exKeys recCfg [2, 3, 4] (syncRound exKeys recCfg cvRun)

def nvS (j : Nat) : RState := (nvA.1.reps.lookup j).getD {}
/-- `P5`, the block proposed after the recovery, and `P3`, the block it extends (there is no `P4` below it) -/
def nvB : Block := ((nvS 1).chain.blocks.lookup "P5").getD genesisBlock
def nvP : Block := ((nvS 1).chain.blocks.lookup "P3").getD genesisBlock

def nvAllOK : Bool :=
  recCfg.honest.all fun j =>
    match nvA.1.reps.lookup j with
    | some s => syncOK 5 1000 nvB nvP s &&
        (j == 1 || decide (nvA.1.truth.lookup (j + 20) = some ⟨j, blkMsg nvB.hash⟩))
    | none => false

set_option maxRecDepth 100000 in
theorem nvAllOK_true : nvAllOK = true := by decide +kernel

theorem nv_rep (j : Nat) (hj : j ∈ recCfg.honest) :
    nvA.1.reps.lookup j = some (nvS j) ∧ syncOK 5 1000 nvB nvP (nvS j) = true ∧
    (j ≠ 1 → nvA.1.truth.lookup (j + 20) = some ⟨j, blkMsg nvB.hash⟩) := by
  have h := List.all_eq_true.mp nvAllOK_true j hj
  unfold nvS
  cases hl : nvA.1.reps.lookup j with
  | none => rw [hl] at h; cases h
  | some s =>
    rw [hl] at h
    simp only [Bool.and_eq_true, Bool.or_eq_true, beq_iff_eq, decide_eq_true_eq] at h
    refine ⟨rfl, h.1, fun hne => ?_⟩
    rcases h.2 with h2 | h2
    · exact absurd h2 hne
    · exact h2

theorem nvA_reach : Reach exKeys recCfg nvA.1 :=
  deliverAll_reach' exKeys recCfg _ _ (deliverAll_reach' exKeys recCfg _ _ cvRun_reach)

theorem nvHappy : HappyCfg recCfg 1 :=
  ⟨(by show Scheme.ecdsa ≠ Scheme.bls12; decide), rfl, Or.inl rfl, rfl, (by show [1, 2, 3, 4].Nodup; decide),
   (by show ∀ i ∈ [1, 2, 3, 4], 1 ≤ i ∧ i ≤ 4; decide), rfl, (by show 1 ∈ [1, 2, 3, 4]; decide), (by show 2 ≤ 4; decide)⟩

set_option maxRecDepth 100000 in
/-- **the hypotheses of `synced_commits` hold of that run** — phase A at `(5, P5)` with `P5` on top of `P3` (view 3):
every lock is `P2`, every committed block `P1`, the leader's voting machine still holds its vote for the lost `P4` -/
theorem synced_commits_nonvacuous :
    HappyCfg recCfg 1 ∧ Reach exKeys recCfg nvA.1 ∧
    PhaseA recCfg 1 5 1000 nvB nvP (fun j => j + 20) nvA.1 ∧ VotesFly recCfg 1 nvB.hash (fun j => j + 20) nvA.2 ∧
    (∀ j ∈ recCfg.honest, ∃ s, nvA.1.reps.lookup j = some s ∧ WalkZ nvB s) ∧
    nvB.view = 5 ∧ nvP.view = 3 ∧
    (∀ j ∈ recCfg.honest, (nvS j).lock.view = 2 ∧ (nvS j).committed.view = 1) := by
  refine ⟨nvHappy, nvA_reach, ⟨reach_fresh exKeys recCfg nvA.1 nvA_reach, by decide +kernel, ?_, ?_, ?_⟩, ?_, ?_,
    by decide +kernel, by decide +kernel, by decide +kernel⟩
  · intro j hj _
    obtain ⟨h1, h2, _⟩ := nv_rep j hj
    exact ⟨nvS j, h1, (sync_of_ok _ _ _ _ _ h2).1⟩
  · obtain ⟨h1, h2, _⟩ := nv_rep 1 (by decide)
    refine ⟨nvS 1, .multi .ecdsa [⟨1, 21⟩], h1, ⟨syncR_with_table (sync_of_ok _ _ _ _ _ h2).1 _ _, by decide +kernel,
      by decide +kernel, ?_, by decide, by decide +kernel⟩⟩
    intro x hx
    simp only [List.mem_singleton] at hx
    subst hx
    exact ⟨by decide, Or.inl ⟨by decide, 21, rfl, by decide +kernel⟩⟩
  · intro j hj hne
    exact (nv_rep j hj).2.2 hne
  · intro j hj hne
    simp only [recCfg, List.mem_cons, List.not_mem_nil, or_false] at hj
    rcases hj with rfl | rfl | rfl | rfl
    · exact absurd rfl hne
    all_goals decide +kernel
  · intro j hj
    obtain ⟨h1, h2, _⟩ := nv_rep j hj
    exact ⟨nvS j, h1, (sync_of_ok _ _ _ _ _ h2).2⟩


/-- **… and the run commits**: `synced_commits` applied to that state — three views, a different delivery order in
every round — yields `committed = P5` at every replica; the kernel evaluation of the same run agrees: all four
replicas are in view 8 with `P5` (view 5) committed, where `P1` was committed before. -/
theorem recovered_run_commits :
    (∀ j ∈ recCfg.honest, ∃ s,
      (chainView exKeys recCfg [2, 3, 4] [4, 3, 2] (chainView exKeys recCfg [4, 2, 3] [2, 3, 4]
        (chainView exKeys recCfg [3, 2, 4] [3, 4, 2] nvA))).1.reps.lookup j = some s ∧ s.committed = nvB) ∧
    (chainView exKeys recCfg [2, 3, 4] [4, 3, 2] (chainView exKeys recCfg [4, 2, 3] [2, 3, 4]
        (chainView exKeys recCfg [3, 2, 4] [3, 4, 2] nvA))).1.reps.map (fun p => (p.1, p.2.view, p.2.committed.hash, p.2.committed.view)) =
      [(1, 8, "P5", 5), (2, 8, "P5", 5), (3, 8, "P5", 5), (4, 8, "P5", 5)] := by
  obtain ⟨hC, _, hA, hfly, hwalk, _⟩ := synced_commits_nonvacuous
  have ho : ∀ l : List Nat, l.Nodup → (∀ j ∈ l, j ∈ [2, 3, 4]) → (∀ j ∈ [2, 3, 4], j ∈ l) → OthersOrder recCfg 1 l := by
    intro l h1 h2 h3
    refine ⟨h1, ?_, ?_⟩
    · intro j hj
      have := h2 j hj
      simp only [List.mem_cons, List.not_mem_nil, or_false] at this
      rcases this with rfl | rfl | rfl <;> exact ⟨by decide, by decide⟩
    · intro j hj hne
      apply h3
      simp only [recCfg, List.mem_cons, List.not_mem_nil, or_false] at hj
      rcases hj with rfl | rfl | rfl | rfl
      · exact absurd rfl hne
      all_goals decide
  constructor
  · obtain ⟨B1, B2, B3, bt3, _, _, _, _, _, c6⟩ := synced_commits exKeys recCfg 1 5 1000 hC nvB nvP _ nvA (by decide) hA hfly hwalk
      [3, 2, 4] [3, 4, 2] [4, 2, 3] [2, 3, 4] [2, 3, 4] [4, 3, 2]
      (ho _ (by decide) (by decide) (by decide)) (ho _ (by decide) (by decide) (by decide))
      (ho _ (by decide) (by decide) (by decide)) (ho _ (by decide) (by decide) (by decide))
      (ho _ (by decide) (by decide) (by decide)) (ho _ (by decide) (by decide) (by decide))
    intro j hj
    obtain ⟨_, s, _, d2, d3, _⟩ := c6 j hj
    exact ⟨s, d2, d3⟩
  · decide +kernel


/-- `SyncPre` for one replica of `cvRun`, as a boolean (every `Top` block of `cvData` is `P3`, on top of `P2`) -/
def preSyncOK (s : RState) : Bool :=
  decide (s.chain.fetchable.length = 0) && decide (s.waitingProp.length = 0) && namesOK 4 s &&
  decide (s.chain.blocks.lookup cvP3.qc.hash = some cvP2) && decide (cvP2.view ≤ 4) && decide (s.committed.view ≤ 4) &&
  decide (2 * s.chain.blocks.length + 5 ≤ 1000) &&
  cmWalk (s.chain.blocks.length + 2) s.chain.blocks s.committed.view cvP3

def cvSyncOK : Bool := recCfg.honest.all fun j => preSyncOK (cvS0 j)

set_option maxRecDepth 100000 in
theorem cvSyncOK_true : cvSyncOK = true := by decide +kernel

/-- **the run satisfies `SyncPre`** (with `recovery_from_reachable_nonvacuous`: all hypotheses of `commit_after_recovery`) -/
theorem cv_syncPre : SyncPre recCfg cvData cvS0 1000 := by
  have h : ∀ j ∈ recCfg.honest, preSyncOK (cvS0 j) = true := fun j hj => List.all_eq_true.mp cvSyncOK_true j hj
  have hh : ∀ j ∈ recCfg.honest,
      (cvS0 j).chain.fetchable.length = 0 ∧ (cvS0 j).waitingProp.length = 0 ∧ namesOK 4 (cvS0 j) = true ∧
      (cvS0 j).chain.blocks.lookup cvP3.qc.hash = some cvP2 ∧ cvP2.view ≤ 4 ∧ (cvS0 j).committed.view ≤ 4 ∧
      2 * (cvS0 j).chain.blocks.length + 5 ≤ 1000 ∧
      cmWalk ((cvS0 j).chain.blocks.length + 2) (cvS0 j).chain.blocks (cvS0 j).committed.view cvP3 = true := by
    intro j hj
    have := h j hj
    simp only [preSyncOK, Bool.and_eq_true, decide_eq_true_eq] at this
    obtain ⟨⟨⟨⟨⟨⟨⟨h1, h2⟩, h3⟩, h4⟩, h5⟩, h6⟩, h7⟩, h8⟩ := this
    exact ⟨h1, h2, h3, h4, h5, h6, h7, h8⟩
  refine ⟨fun j hj => List.eq_nil_of_length_eq_zero (hh j hj).1, fun j hj => List.eq_nil_of_length_eq_zero (hh j hj).2.1,
    fun j hj u hu => names_of_ok 4 _ (hh j hj).2.2.1 u hu, fun j hj i _ _ => ⟨cvP2, (hh j hj).2.2.2.1, (hh j hj).2.2.2.2.1⟩,
    fun j hj => (hh j hj).2.2.2.2.2.1, fun j hj => (hh j hj).2.2.2.2.2.2.1, fun j hj i _ _ => (hh j hj).2.2.2.2.2.2.2, by decide⟩


/-- **`commit_after_recovery` applies to the run and agrees with the kernel evaluation**: the recovery round in the order
of `syncRound`, the proposals to replicas 2, 3, 4, three views with different delivery orders — every replica has
committed the block proposed after the recovery, and that block is `P5` (`nvB`, what `recovered_run_commits` evaluates) -/
theorem commit_after_recovery_nonvacuous :
    ∃ b' : Block, b'.view = 5 ∧ b' = nvB ∧
      ∀ j ∈ recCfg.honest, ∃ s,
        (chainView exKeys recCfg [2, 3, 4] [4, 3, 2] (chainView exKeys recCfg [4, 2, 3] [2, 3, 4]
          (chainView exKeys recCfg [3, 2, 4] [3, 4, 2] nvA))).1.reps.lookup j = some s ∧
        s.committed = b' ∧ (cvS0 j).committed.view < s.committed.view := by
  unfold nvA
  obtain ⟨hk, hr, hca, hP, h0, hx, _⟩ := recovery_from_reachable_nonvacuous
  have ho : ∀ l : List Nat, l.Nodup → (∀ j ∈ l, j ∈ [2, 3, 4]) → (∀ j ∈ [2, 3, 4], j ∈ l) → OthersOrder recCfg 1 l := by
    intro l h1 h2 h3
    refine ⟨h1, ?_, ?_⟩
    · intro j hj
      have := h2 j hj
      simp only [List.mem_cons, List.not_mem_nil, or_false] at this
      rcases this with rfl | rfl | rfl <;> exact ⟨by decide, by decide⟩
    · intro j hj hne
      apply h3
      simp only [recCfg, List.mem_cons, List.not_mem_nil, or_false] at hj
      rcases hj with rfl | rfl | rfl | rfl
      · exact absurd rfl hne
      all_goals decide
  obtain ⟨i, b', _, _, r3, _, _, r6⟩ := commit_after_recovery exKeys recCfg 1 nvHappy cvData cvS0 cvRun.1 cvBlk hk hr hca hP h0
    (senderMajor recCfg) (senderMajor_full recCfg (by decide)) 1000 cv_syncPre
    [2, 3, 4] [3, 2, 4] [3, 4, 2] [4, 2, 3] [2, 3, 4] [2, 3, 4] [4, 3, 2]
    (ho _ (by decide) (by decide) (by decide))
    (ho _ (by decide) (by decide) (by decide)) (ho _ (by decide) (by decide) (by decide))
    (ho _ (by decide) (by decide) (by decide)) (ho _ (by decide) (by decide) (by decide))
    (ho _ (by decide) (by decide) (by decide)) (ho _ (by decide) (by decide) (by decide))
  have hrr : recoveryRound exKeys recCfg cvData cvRun.1 (senderMajor recCfg) = syncRound exKeys recCfg cvRun := by
    unfold recoveryRound syncRound; rw [hx]
  rw [hrr] at r6
  have hb : b' = nvB := by
    obtain ⟨s, e1, e2, _⟩ := r6 1 (by decide)
    obtain ⟨s', e1', e2'⟩ := recovered_run_commits.1 1 (by decide)
    unfold nvA at e1'
    have hs : s = s' := Option.some.inj (e1.symm.trans e1')
    rw [← e2, hs, e2']
  refine ⟨b', r3, hb, ?_⟩
  intro j hj
  obtain ⟨s, e1, e2, _, e4⟩ := r6 j hj
  exact ⟨s, e1, e2, e4⟩


end NonVacuity

/-! ### the same for SIMPLIFIED HotStuff (the proposals reach replicas 4, 2, 3 in that order) -/
section NonVacuitySimple

def simCfg : SysCfg := { recCfg with rules := .simple }
/-- seven rounds of the fault-free run under simplified HotStuff, the votes for `P4` are lost, all four time out in view 4 -/
def simRun : SysState × Msgs :=
  deliverAll exKeys simCfg ((syncRun exKeys simCfg 7).1, [])
    [(1, .localTimeout 4), (2, .localTimeout 4), (3, .localTimeout 4), (4, .localTimeout 4)]
/-- … the timeout messages are delivered, then the proposals of `P5` -/
def simA : SysState × Msgs := proposalRound exKeys simCfg [4, 2, 3] (syncRound exKeys simCfg simRun)
def simS (j : Nat) : RState := (simA.1.reps.lookup j).getD {}
def simB : Block := ((simS 1).chain.blocks.lookup "P5").getD genesisBlock
def simP : Block := ((simS 1).chain.blocks.lookup "P3").getD genesisBlock
def simBt (j : Nat) : Nat := if j = 4 then 22 else if j = 2 then 23 else 24

def simAllOK : Bool :=
  simCfg.honest.all fun j =>
    match simA.1.reps.lookup j with
    | some s => syncOK 5 1000 simB simP s &&
        (j == 1 || decide (simA.1.truth.lookup (simBt j) = some ⟨j, blkMsg simB.hash⟩))
    | none => false

set_option maxRecDepth 100000 in
theorem simAllOK_true : simAllOK = true := by decide +kernel

theorem sim_rep (j : Nat) (hj : j ∈ simCfg.honest) :
    simA.1.reps.lookup j = some (simS j) ∧ syncOK 5 1000 simB simP (simS j) = true ∧
    (j ≠ 1 → simA.1.truth.lookup (simBt j) = some ⟨j, blkMsg simB.hash⟩) := by
  have h := List.all_eq_true.mp simAllOK_true j hj
  unfold simS
  cases hl : simA.1.reps.lookup j with
  | none => rw [hl] at h; cases h
  | some s =>
    rw [hl] at h
    simp only [Bool.and_eq_true, Bool.or_eq_true, beq_iff_eq, decide_eq_true_eq] at h
    refine ⟨rfl, h.1, fun hne => ?_⟩
    rcases h.2 with h2 | h2
    · exact absurd h2 hne
    · exact h2

theorem simA_reach : Reach exKeys simCfg simA.1 :=
  deliverAll_reach' exKeys simCfg _ _ (deliverAll_reach' exKeys simCfg _ _
    (deliverAll_reach' exKeys simCfg _ _ (syncRun_reach exKeys simCfg 7)))

theorem simHappy : HappyCfg simCfg 1 :=
  ⟨(by show Scheme.ecdsa ≠ Scheme.bls12; decide), rfl, Or.inr rfl, rfl, (by show [1, 2, 3, 4].Nodup; decide),
   (by show ∀ i ∈ [1, 2, 3, 4], 1 ≤ i ∧ i ≤ 4; decide), rfl, (by show 1 ∈ [1, 2, 3, 4]; decide), (by show 2 ≤ 4; decide)⟩

set_option maxRecDepth 100000 in
/-- the hypotheses of `synced_commits` hold of the simplified-HotStuff run, and three views later — evaluated by the
kernel — every replica has committed `P5` -/
theorem synced_commits_nonvacuous_simple :
    HappyCfg simCfg 1 ∧ Reach exKeys simCfg simA.1 ∧
    PhaseA simCfg 1 5 1000 simB simP simBt simA.1 ∧ VotesFly simCfg 1 simB.hash simBt simA.2 ∧
    (∀ j ∈ simCfg.honest, ∃ s, simA.1.reps.lookup j = some s ∧ WalkZ simB s) ∧
    (chainView exKeys simCfg [2, 3, 4] [4, 3, 2] (chainView exKeys simCfg [4, 2, 3] [2, 3, 4]
        (chainView exKeys simCfg [3, 2, 4] [3, 4, 2] simA))).1.reps.map (fun p => (p.1, p.2.view, p.2.committed.hash, p.2.committed.view)) =
      [(1, 8, "P5", 5), (2, 8, "P5", 5), (3, 8, "P5", 5), (4, 8, "P5", 5)] := by
  refine ⟨simHappy, simA_reach, ⟨reach_fresh exKeys simCfg simA.1 simA_reach, by decide +kernel, ?_, ?_, ?_⟩, ?_, ?_,
    by decide +kernel⟩
  · intro j hj _
    obtain ⟨h1, h2, _⟩ := sim_rep j hj
    exact ⟨simS j, h1, (sync_of_ok _ _ _ _ _ h2).1⟩
  · obtain ⟨h1, h2, _⟩ := sim_rep 1 (by decide)
    refine ⟨simS 1, .multi .ecdsa [⟨1, 21⟩], h1, ⟨syncR_with_table (sync_of_ok _ _ _ _ _ h2).1 _ _, by decide +kernel,
      by decide +kernel, ?_, by decide, by decide +kernel⟩⟩
    intro x hx
    simp only [List.mem_singleton] at hx
    subst hx
    exact ⟨by decide, Or.inl ⟨by decide, 21, rfl, by decide +kernel⟩⟩
  · intro j hj hne
    exact (sim_rep j hj).2.2 hne
  · intro j hj hne
    simp only [simCfg, recCfg, List.mem_cons, List.not_mem_nil, or_false] at hj
    rcases hj with rfl | rfl | rfl | rfl
    · exact absurd rfl hne
    all_goals decide +kernel
  · intro j hj
    obtain ⟨h1, h2, _⟩ := sim_rep j hj
    exact ⟨simS j, h1, (sync_of_ok _ _ _ _ _ h2).2⟩

end NonVacuitySimple
end HsVerif.Props.C05Chain
