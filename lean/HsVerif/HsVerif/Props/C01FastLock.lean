import HsVerif.Proofs.ReplicaFastLock
import HsVerif.Proofs.SysSignal
import HsVerif.Props.C03
/-! C01, Fast-HotStuff, replica level (task S12): THE REPLICA MODEL KEEPS `LockJust` — the QC views of the blocks
a replica votes for never go down.  Property theorems only; helpers in Proofs/ReplicaFastLock.lean.

`fast_safe_if_locked` (Props/C01FastExact.lean) proves safety of Fast-HotStuff in the abstract timed model under
the hypothesis `LockJust`: an honest replica never votes for a block whose QC is lower (by view) than the QC of a
block it voted for earlier.  The code enforces this since commit a77ccac (`Voter.lastVotedQCView`), the replica
model mirrors it (`votedQCView`, the check in `voterVerify`).  Here: the statement about the REPLICA MODEL.
A voted block `b` has `b.parent = b.qc.hash` and a verified QC (`C03.vote_wellformed`), so `b.qc.view` is the view
of its parent — `S.view (S.par b)` of `LockJust`.

A. `QCMono c s` (`c.rules = .fast →` the QC views of the vote records of `s.ghost`, in signing order, are
   non-decreasing; `qcMono_iff_views`, `qcMono_iff_voted`: = every vote record's QC view is at least `votedQCView`
   of the records before it).  It is inductive TOGETHER with C03's vote-discipline invariant `Inv3` (every vote `x`
   of the history has `x.qc.view < x.view ≤ s.lastVoted`: the case WITHOUT aggregate QC rests on it):
   `step_qcmono` (one delivered event — any content, any sender, local timeouts, internal events — from ANY state
   with `Inv3` and `QCMono`), `start_qcmono`, `run_qcmono`, `reachable_qcmono`, and the consequences for reachable
   states: `fast_votes_qc_monotone` (positions `i < j` of two vote records), `fast_votes_qc_monotone_split`
   (`pre ++ vote w :: post`, `x ∈ pre`), `fast_qc_views_sorted`, `fast_vote_above_votedQCView`.
   System level: `sys_qcmono` (every replica of every `Reach`able system state — any adversary actions, forged
   signatures, fetchable blocks — satisfies `Inv3 ∧ QCMono`), `sys_fast_votes_qc_monotone`.
   No hypothesis on scheme, `n`, leaders, keys or `c.agg`.
B. The statement is about Fast-HotStuff ONLY: `chained_qc_not_monotone`, `simple_qc_not_monotone` — a chained /
   simplified replica votes for `P1` (QC view 0), `P2` (QC view 1) and then, in view 3, for a block on the genesis
   QC (it extends the lock, which is still genesis): QC views `[0, 1, 0]`.  Kernel-evaluated runs.
C. Non-vacuity (kernel-evaluated, `rules := .fast, agg := true`): `fs_run` — a vote without aggregate QC, then (after
   a TC ends view 1) a vote for a proposal WITH a verified aggregate QC, QC views `[0, 1]`; `fs_low_rejected` — in
   view 3 a proposal whose aggregate QC verifies (highest reported QC: genesis) but whose block QC (view 0) is below
   the QC of the earlier vote (view 1) is NOT voted for, while the same proposal IS voted for in the run without
   the vote for `P2` (`fs_low_accepted_without_p2`): it is the check of a77ccac that rejects it.
Nothing is partial. -/
set_option linter.unusedVariables false
namespace HsVerif.Props.C01FastLock
open HsVerif.Model HsVerif.Props.C03 HsVerif.SysLedger HsVerif.SysSignal

/-! ### A. the invariant -/

/-- `QCMono` says: the list of QC views of the vote records is non-decreasing -/
theorem qcMono_iff_views (c : RCfg) (s : RState) :
    QCMono c s ↔ (c.rules = .fast → (qcViews s.ghost).Pairwise (· ≤ ·)) := by
  unfold QCMono; rw [qcOrd_iff_views]

/-- … equivalently: every vote record's QC view is at least `votedQCView` (`Voter.lastVotedQCView`) of the
records before it -/
theorem qcMono_iff_voted (c : RCfg) (s : RState) :
    QCMono c s ↔ (c.rules = .fast → ∀ pre w id post, s.ghost = pre ++ GRec.vote w id :: post →
      votedQCView pre ≤ w.qc.view) := by
  unfold QCMono; rw [qcOrd_iff_voted]

/-- **One-step preservation**: one delivered event from ANY state satisfying C03's invariant and `QCMono` -/
theorem step_qcmono (k : Keys) (c : RCfg) (s : RState) (e : Ev) (h3 : Inv3 k c s) (hm : QCMono c s) :
    Inv3 k c (step k c s e).1 ∧ QCMono c (step k c s e).1 :=
  step_q k c s e ⟨h3, hm⟩

/-- `Start` (the leader of view 1 proposes and votes for its own block) -/
theorem start_qcmono (k : Keys) (c : RCfg) (s : RState) (h3 : Inv3 k c s) (hm : QCMono c s) :
    Inv3 k c (start k c s).1 ∧ QCMono c (start k c s).1 :=
  start_q k c s ⟨h3, hm⟩

/-- along any list of events from any state satisfying both -/
theorem run_qcmono (k : Keys) (c : RCfg) (es : List Ev) (s : RState) (h3 : Inv3 k c s) (hm : QCMono c s) :
    Inv3 k c (runEvents k c s es) ∧ QCMono c (runEvents k c s es) := by
  induction es generalizing s with
  | nil => exact ⟨h3, hm⟩
  | cons e es ih =>
    obtain ⟨h3', hm'⟩ := step_qcmono k c s e h3 hm
    exact ih _ h3' hm'

/-- **Every reachable state** (initial state, `Start`, then ANY sequence of delivered events) satisfies `QCMono` -/
theorem reachable_qcmono (k : Keys) (c : RCfg) (es : List Ev) :
    QCMono c (runEvents k c (start k c {}).1 es) := by
  obtain ⟨h3, hm⟩ := start_qcmono k c {} (InvV_init k c) (fun _ => qcOrd_nil)
  exact (run_qcmono k c es _ h3 hm).2

/-- **The QC views of voted blocks never go down** (Fast-HotStuff): in every reachable state, if record `i` of
the ghost history is a vote for `x` and record `j > i` a vote for `w`, then `x.qc.view ≤ w.qc.view` -/
theorem fast_votes_qc_monotone (k : Keys) (c : RCfg) (hc : c.rules = .fast) (es : List Ev)
    (i j : Nat) (hij : i < j) (x w : Block) (idx id : Nat)
    (hx : (runEvents k c (start k c {}).1 es).ghost[i]? = some (GRec.vote x idx))
    (hw : (runEvents k c (start k c {}).1 es).ghost[j]? = some (GRec.vote w id)) :
    x.qc.view ≤ w.qc.view :=
  qcOrd_idx _ (reachable_qcmono k c es hc) i j hij x w idx id hx hw

/-- the same with the history split at the later vote -/
theorem fast_votes_qc_monotone_split (k : Keys) (c : RCfg) (hc : c.rules = .fast) (es : List Ev)
    (pre post : List GRec) (x w : Block) (idx id : Nat)
    (he : (runEvents k c (start k c {}).1 es).ghost = pre ++ GRec.vote w id :: post)
    (hx : GRec.vote x idx ∈ pre) : x.qc.view ≤ w.qc.view := by
  have h := reachable_qcmono k c es hc
  unfold QCOrd at h
  rw [he, List.pairwise_append] at h
  exact h.2.2 _ hx (GRec.vote w id) (by simp) x.qc.view w.qc.view rfl rfl

/-- the list of QC views of the voted blocks, in signing order, is sorted -/
theorem fast_qc_views_sorted (k : Keys) (c : RCfg) (hc : c.rules = .fast) (es : List Ev) :
    (qcViews (runEvents k c (start k c {}).1 es).ghost).Pairwise (· ≤ ·) :=
  (qcOrd_iff_views _).mp (reachable_qcmono k c es hc)

/-- every vote is cast on a QC at least as high as `votedQCView` (`Voter.lastVotedQCView`) of the history before
it — with or without aggregate QC -/
theorem fast_vote_above_votedQCView (k : Keys) (c : RCfg) (hc : c.rules = .fast) (es : List Ev)
    (pre post : List GRec) (w : Block) (id : Nat)
    (he : (runEvents k c (start k c {}).1 es).ghost = pre ++ GRec.vote w id :: post) :
    votedQCView pre ≤ w.qc.view :=
  (qcOrd_iff_voted _).mp (reachable_qcmono k c es hc) pre w id post he

/-! ### system level -/

/-- **Every replica of every reachable system state** satisfies C03's invariant and `QCMono` — whatever the
adversary delivers, forges or makes fetchable (both read the ghost history and `lastVoted` only) -/
theorem sys_qcmono (k : Keys) (C : SysCfg) (σ : SysState) (hr : Reach k C σ) :
    ∀ i s, σ.reps.lookup i = some s → Inv3 k (C.rcfg i) s ∧ QCMono (C.rcfg i) s := by
  induction hr with
  | init =>
    intro i s h
    simp only [sysInit, lookup_init] at h
    split at h
    · cases h; exact qcInv_init k _
    · cases h
  | step σ a _ ih =>
    intro i s' hs'
    obtain ⟨s, hs, _⟩ := sysStep_rep_view k C σ a i s' hs'
    exact sysStep_rep_rel k C σ a (fun i s s' => QCInv k (C.rcfg i) s → QCInv k (C.rcfg i) s')
      (fun _ _ h => h)
      (fun i s t nb h => start_q k _ { s with truth := t, nextBytes := nb } h)
      (fun i s t nb e h => step_q k _ { s with truth := t, nextBytes := nb } e h)
      (fun _ _ _ h => h) i s s' hs hs' (ih i s hs)

/-- pairwise form at system level -/
theorem sys_fast_votes_qc_monotone (k : Keys) (C : SysCfg) (hc : C.rules = .fast) (σ : SysState) (hr : Reach k C σ)
    (r : Nat) (s : RState) (hs : σ.reps.lookup r = some s)
    (i j : Nat) (hij : i < j) (x w : Block) (idx id : Nat)
    (hx : s.ghost[i]? = some (GRec.vote x idx)) (hw : s.ghost[j]? = some (GRec.vote w id)) :
    x.qc.view ≤ w.qc.view :=
  qcOrd_idx _ ((sys_qcmono k C σ hr r s hs).2 hc) i j hij x w idx id hx hw

/-! ### B. chained and simplified HotStuff: the statement does NOT hold

Replica 1 of 4, fixed leader 2, BLS (other replicas' signatures verify without truth-table entries).  Proposals
`P1` (view 1, genesis QC) and `P2` (view 2, QC for `P1`) are voted for; the lock stays genesis (two certificate
links below `P2`).  A NewView with a QC for `P2` takes the replica to view 3, where the leader proposes `L3`
(view 3, parent genesis, genesis QC): it extends the lock (chained) / its QC block is not below the lock
(simplified), so it is voted for. -/
section Counterexamples

/-- a BLS quorum certificate by replicas 1, 2, 3 -/
def exQC (h : Hash) (v : Nat) : QC :=
  ⟨some (.bls [⟨1, blkMsg h⟩, ⟨2, blkMsg h⟩, ⟨3, blkMsg h⟩] [] (((Bitfield.empty.add 1).add 2).add 3)), v, h⟩
def exP1 : Block := { hash := "P1", parent := "G", view := 1, proposer := 2, qc := genesisQC }
def exP2 : Block := { hash := "P2", parent := "P1", view := 2, proposer := 2, qc := exQC "P1" 1 }
/-- a view-3 block built on genesis -/
def exL3 : Block := { hash := "L3", parent := "G", view := 3, proposer := 2, qc := genesisQC }

def cxKeys : Keys := ⟨tmoMsgKey⟩
def cxChained : RCfg := { n := 4, id := 1, rules := .chained, agg := false, scheme := .bls12, leaders := .fixed 2 }
def cxSimple : RCfg := { n := 4, id := 1, rules := .simple, agg := false, scheme := .bls12, leaders := .fixed 2 }
def cxEvents : List Ev :=
  [.propose 2 exP1 none, .propose 2 exP2 none, .newview 3 { qc := some (exQC "P2" 2) }, .propose 2 exL3 none]

set_option maxRecDepth 100000 in
theorem cx_chained_ghost : (runEvents cxKeys cxChained (start cxKeys cxChained {}).1 cxEvents).ghost =
    [.vote exP1 2, .adv 1 1 false, .vote exP2 2, .adv 2 2 false, .vote exL3 2] := by decide +kernel

set_option maxRecDepth 100000 in
theorem cx_simple_ghost : (runEvents cxKeys cxSimple (start cxKeys cxSimple {}).1 cxEvents).ghost =
    [.vote exP1 2, .adv 1 1 false, .vote exP2 2, .adv 2 2 false, .vote exL3 2] := by decide +kernel

/-- **Chained HotStuff does not keep the QC views of its votes in order**: a reachable state with a vote on a
QC of view 1 followed by a vote on a QC of view 0 -/
theorem chained_qc_not_monotone :
    ∃ (k : Keys) (c : RCfg) (es : List Ev) (i j : Nat) (x w : Block) (idx id : Nat), c.rules = .chained ∧ i < j ∧
      (runEvents k c (start k c {}).1 es).ghost[i]? = some (GRec.vote x idx) ∧
      (runEvents k c (start k c {}).1 es).ghost[j]? = some (GRec.vote w id) ∧ w.qc.view < x.qc.view ∧
      ¬ QCOrd (runEvents k c (start k c {}).1 es).ghost := by
  refine ⟨cxKeys, cxChained, cxEvents, 2, 4, exP2, exL3, 2, 2, rfl, by decide, ?_, ?_, by decide, ?_⟩
  · rw [cx_chained_ghost]; rfl
  · rw [cx_chained_ghost]; rfl
  · rw [qcOrd_iff_views, cx_chained_ghost]; decide

/-- **Simplified HotStuff neither** -/
theorem simple_qc_not_monotone :
    ∃ (k : Keys) (c : RCfg) (es : List Ev) (i j : Nat) (x w : Block) (idx id : Nat), c.rules = .simple ∧ i < j ∧
      (runEvents k c (start k c {}).1 es).ghost[i]? = some (GRec.vote x idx) ∧
      (runEvents k c (start k c {}).1 es).ghost[j]? = some (GRec.vote w id) ∧ w.qc.view < x.qc.view ∧
      ¬ QCOrd (runEvents k c (start k c {}).1 es).ghost := by
  refine ⟨cxKeys, cxSimple, cxEvents, 2, 4, exP2, exL3, 2, 2, rfl, by decide, ?_, ?_, by decide, ?_⟩
  · rw [cx_simple_ghost]; rfl
  · rw [cx_simple_ghost]; rfl
  · rw [qcOrd_iff_views, cx_simple_ghost]; decide

end Counterexamples

/-! ### C. non-vacuity: Fast-HotStuff with aggregate QCs

Replica 1 of 4, `rules := .fast, agg := true`, fixed leader 2, BLS.  With aggregate QCs a plain QC does not end a
view (`verifySyncInfo`, `fix:` 4f3d40f), so views end by timeout certificates.  The timeout-message key of the run
is a plain string function (the canonical `tmoMsgKey` prints the QC with `reprStr`, which the kernel does not
evaluate); it is injective in signer, view and what the QC certifies, and never a block key. -/
section NonVacuity

def fsKeys : Keys :=
  ⟨fun id v q => "tmo:" ++ toString id ++ ":" ++ toString v ++ ":" ++
    (match q with | none => "-" | some q => q.hash ++ "@" ++ toString q.view)⟩
def fsCfg : RCfg := { n := 4, id := 1, rules := .fast, agg := true, scheme := .bls12, leaders := .fixed 2 }
/-- a BLS timeout certificate by replicas 1, 2, 3 -/
def fsTC (v : Nat) : TC :=
  ⟨some (.bls [⟨1, viewMsg v⟩, ⟨2, viewMsg v⟩, ⟨3, viewMsg v⟩] [] (((Bitfield.empty.add 1).add 2).add 3)), v⟩
/-- an aggregate QC of view `v`: replicas 1, 2, 3 report `q1`, `q2`, `q3`, each signing its timeout message -/
def fsAgg (v : Nat) (q1 q2 q3 : QC) : AggQC :=
  ⟨[(1, q1), (2, q2), (3, q3)],
   some (.bls [⟨1, fsKeys.tmo 1 v (some q1)⟩, ⟨2, fsKeys.tmo 2 v (some q2)⟩, ⟨3, fsKeys.tmo 3 v (some q3)⟩] []
     (((Bitfield.empty.add 1).add 2).add 3)), v⟩
/-- view 1 timed out; replicas 1 and 2 report the QC for `P1`, replica 3 the genesis QC -/
def fsA1 : AggQC := fsAgg 1 (exQC "P1" 1) (exQC "P1" 1) genesisQC
/-- view 2 timed out; all three report the genesis QC -/
def fsA2 : AggQC := fsAgg 2 genesisQC genesisQC genesisQC

/-- `P1` without aggregate QC; TC for view 1; `P2` (QC for `P1`) WITH the aggregate QC `fsA1`; TC for view 2;
`L3` (genesis QC) with the aggregate QC `fsA2` -/
def fsEvents : List Ev :=
  [.propose 2 exP1 none, .newview 3 { tc := some (fsTC 1) }, .propose 2 exP2 (some fsA1),
   .newview 3 { tc := some (fsTC 2) }, .propose 2 exL3 (some fsA2)]
/-- the same run without the proposal `P2` -/
def fsEvents' : List Ev :=
  [.propose 2 exP1 none, .newview 3 { tc := some (fsTC 1) },
   .newview 3 { tc := some (fsTC 2) }, .propose 2 exL3 (some fsA2)]

set_option maxRecDepth 100000 in
/-- two votes, the second for a proposal with a verified aggregate QC; the low proposal `L3` leaves no record -/
theorem fs_ghost : (runEvents fsKeys fsCfg (start fsKeys fsCfg {}).1 fsEvents).ghost =
    [.vote exP1 2, .adv 1 1 true, .vote exP2 2, .adv 2 2 true] := by decide +kernel

set_option maxRecDepth 100000 in
theorem fs_ghost' : (runEvents fsKeys fsCfg (start fsKeys fsCfg {}).1 fsEvents').ghost =
    [.vote exP1 2, .adv 1 1 true, .adv 2 2 true, .vote exL3 2] := by decide +kernel

/-- **the theorem applies to a run with two votes**, the later one on an aggregate-QC proposal: QC views `[0, 1]` -/
theorem fs_run : fsCfg.rules = .fast ∧ fsCfg.agg = true ∧
    qcViews (runEvents fsKeys fsCfg (start fsKeys fsCfg {}).1 fsEvents).ghost = [0, 1] ∧
    exP1.qc.view ≤ exP2.qc.view := by
  refine ⟨rfl, rfl, by rw [fs_ghost]; rfl, ?_⟩
  exact fast_votes_qc_monotone fsKeys fsCfg rfl fsEvents 0 2 (by decide) exP1 exP2 2 2
    (by rw [fs_ghost]; rfl) (by rw [fs_ghost]; rfl)

/-- **the rejected case**: the replica is in view 3 with `lastVoted = 2`, `L3` comes from the leader of view 3 with
an aggregate QC of view 2 that verifies and whose highest QC is `L3`'s own (genesis) QC, `L3` extends the block its
QC certifies — but `L3.qc.view = 0 < 1 = votedQCView`: no vote for `L3` -/
theorem fs_low_rejected :
    ∀ id, GRec.vote exL3 id ∉ (runEvents fsKeys fsCfg (start fsKeys fsCfg {}).1 fsEvents).ghost := by
  intro id hm
  rw [fs_ghost] at hm
  simp only [List.mem_cons, List.not_mem_nil, or_false] at hm
  rcases hm with h | h | h | h
  · exact absurd (GRec.vote.inj h).1 (by decide)
  · cases h
  · exact absurd (GRec.vote.inj h).1 (by decide)
  · cases h

/-- … and it is that check which rejects it: without the earlier vote for `P2` the same proposal, in the same
view, with the same aggregate QC, IS voted for (QC views `[0, 0]`) -/
theorem fs_low_accepted_without_p2 :
    GRec.vote exL3 2 ∈ (runEvents fsKeys fsCfg (start fsKeys fsCfg {}).1 fsEvents').ghost ∧
    qcViews (runEvents fsKeys fsCfg (start fsKeys fsCfg {}).1 fsEvents').ghost = [0, 0] := by
  rw [fs_ghost']; exact ⟨by simp, rfl⟩

end NonVacuity

end HsVerif.Props.C01FastLock
