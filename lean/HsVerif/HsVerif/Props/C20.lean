import HsVerif.Model.Quorum
import HsVerif.Gen.Quorum
/-! C20 — quorum size: intersection and availability for every n.  Property theorems only. -/
set_option linter.unusedVariables false
namespace HsVerif.Props.C20
open HsVerif.Model

/-- f is the largest integer with 3f < n. -/
theorem faulty_is_max (n : Nat) (h : 1 ≤ n) :
    3 * numFaulty n < n ∧ ∀ f, 3 * f < n → f ≤ numFaulty n := by
  unfold numFaulty; constructor <;> intros <;> omega

/-- Two quorums intersect in at least f+1 replicas: 2q - n ≥ f + 1. -/
theorem intersection (n : Nat) (h : 1 ≤ n) :
    n + numFaulty n + 1 ≤ 2 * quorumSize n := by
  unfold quorumSize numFaulty; omega

/-- The honest replicas alone can form a quorum: q ≤ n - f. -/
theorem availability (n : Nat) (h : 1 ≤ n) :
    quorumSize n + numFaulty n ≤ n := by
  unfold quorumSize numFaulty; omega

/-- q is the smallest number with the intersection property. -/
theorem minimal (n q : Nat) (hq : n + numFaulty n + 1 ≤ 2 * q) : quorumSize n ≤ q := by
  unfold quorumSize numFaulty at *; omega

/-- Counting form used by C01/C02: two lists of distinct ids drawn from n ids, each of quorum
length, share more than f members (so at least one honest one when at most f are Byzantine). -/
theorem quorum_gt_faulty (n : Nat) (h : 1 ≤ n) : numFaulty n < quorumSize n := by
  unfold quorumSize numFaulty; omega

/-- Bridging lemmas: the definitions regenerated from /repo/quorum.go by tools/gofacts on every
run (Go `int` arithmetic, truncating division) coincide with the model on every n ≥ 0.  Side
condition of the float idiom (n + f + 1 < 2^53) is recorded by the translator and exercised by
the correspondence at that boundary. -/
theorem gen_numFaulty (n : Nat) : HsVerif.Gen.NumFaulty (n : Int) = (numFaulty n : Int) := by
  unfold HsVerif.Gen.NumFaulty numFaulty
  rcases n with _ | n
  · decide
  · have h : ((n + 1 : Nat) : Int) - 1 = (n : Int) := by omega
    rw [h, Int.tdiv_eq_ediv_of_nonneg (by omega)]; omega

theorem gen_quorumSize (n : Nat) : HsVerif.Gen.QuorumSize (n : Int) = (quorumSize n : Int) := by
  unfold HsVerif.Gen.QuorumSize quorumSize
  simp only [gen_numFaulty]
  omega

/-- Non-vacuity: the classical table. -/
example : (quorumSize 1, quorumSize 4, quorumSize 7, quorumSize 10, quorumSize 13) = (1, 3, 5, 7, 9) := by decide

end HsVerif.Props.C20
