import HsVerif.Proofs.ReplicaCur
import HsVerif.Props.C03
/-! C03 (strengthened) — the certificate of every block a replica ever voted for verifies against
the replica's CURRENT truth table and block store, not merely against those of some past state.
Property theorems only.  Replica, events, `runEvents` as in Props/C03.lean.

The reason is monotonicity: the truth table (who really signed which bytes) and the block store only
gain entries and never change an existing lookup, and `verifyQC` is monotone in both. -/
open Std.Do
set_option mvcgen.warning false
set_option linter.unusedVariables false
namespace HsVerif.Props.C03Cur
open HsVerif.Model HsVerif.Proofs HsVerif.Props.C03

/-! ### 1. the truth table only grows -/

/-- The initial state is fresh (its truth table is empty). -/
theorem fresh_init : Fresh ({} : RState) := by
  intro p hp; cases hp

/-- **Truth-table growth, one delivered event**: from a fresh state (every byte name in the truth
table is below `nextBytes`), the state after the step is fresh again and every lookup of the old
truth table gives the same answer in the new one. -/
theorem truth_grows_step (k : Keys) (c : RCfg) (s : RState) (e : Ev) (hf : Fresh s) :
    Fresh (step k c s e).1 ∧ TGrows s.truth (step k c s e).1 :=
  ⟨(step_ext k c s e hf).fresh, (step_ext k c s e hf).truth⟩

/-- the same for `Start` -/
theorem truth_grows_start (k : Keys) (c : RCfg) (s : RState) (hf : Fresh s) :
    Fresh (start k c s).1 ∧ TGrows s.truth (start k c s).1 :=
  ⟨(start_ext k c s hf).fresh, (start_ext k c s hf).truth⟩

/-- **Truth-table growth along any event sequence.** -/
theorem truth_grows_run (k : Keys) (c : RCfg) (es : List Ev) (s : RState) (hf : Fresh s) :
    Fresh (runEvents k c s es) ∧ TGrows s.truth (runEvents k c s es) := by
  induction es generalizing s with
  | nil => exact ⟨hf, fun _ _ h => h⟩
  | cons e es ih =>
    obtain ⟨h1, h2⟩ := truth_grows_step k c s e hf
    obtain ⟨h3, h4⟩ := ih (step k c s e).1 h1
    exact ⟨h3, fun b a hb => h4 b a (h2 b a hb)⟩

/-- Every reachable state is fresh. -/
theorem reachable_fresh (k : Keys) (c : RCfg) (es : List Ev) :
    Fresh (runEvents k c (start k c {}).1 es) :=
  (truth_grows_run k c es _ (truth_grows_start k c {} fresh_init).1).1

/-! ### 2. `verifyQC` is monotone -/

/-- **Monotonicity of certificate verification**: if every lookup of truth table `T` is preserved in
`T'` and every lookup of store `st` is preserved in `st'`, a certificate that verifies against
`(T, st)` verifies against `(T', st')`. -/
theorem verifyQC_monotone (T T' : Truth) (cfg : Cfg) (st st' : Store) (tmo : Nat → Nat → QC → Msg) (q : QC)
    (hT : ∀ b a, T b = some a → T' b = some a)
    (hS : ∀ h b, st.lookup h = some b → st'.lookup h = some b)
    (h : verifyQC ⟨T, cfg, st, tmo⟩ q = true) : verifyQC ⟨T', cfg, st', tmo⟩ q = true :=
  verifyQC_mono T T' cfg st st' tmo q hT hS h

/-- the same for plain signature verification -/
theorem verify_monotone (T T' : Truth) (cfg : Cfg) (sg : Sig) (m : Msg)
    (hT : ∀ b a, T b = some a → T' b = some a)
    (h : verify T cfg sg m = true) : verify T' cfg sg m = true :=
  verify_mono T T' cfg sg m hT h

/-! ### 3. the strengthened invariant -/

/-- **One-step preservation**: if the truth table is fresh and the certificate of every block voted
for so far verifies in state `s`, then the same holds in the state after delivering ANY event. -/
theorem step_cur (k : Keys) (c : RCfg) (s : RState) (e : Ev) (h : Cur k c s) : Cur k c (step k c s e).1 := by
  unfold step
  have h0 : Cur k c { s with out := [], queue := s.queue ++ [e] } := h
  exact run_of_triple _ _ _ (runLoop_cur k c 100000) _ h0

theorem start_cur (k : Keys) (c : RCfg) (s : RState) (h : Cur k c s) : Cur k c (start k c s).1 := by
  unfold start
  have h0 : Cur k c { s with out := [] } := h
  have spec : ⦃fun s => ⌜Cur k c s⌝⦄ (do
      let s ← get
      if s.view == 1 && c.leader 1 == c.id then
        createAndPropose k c { qc := some s.highQC, tc := some s.highTC }
      runLoop k c 100000 : M Unit) ⦃⇓ _ s => ⌜Cur k c s⌝⦄ := by
    mvcgen [createAndPropose_cur, runLoop_cur]
  exact run_of_triple _ _ _ spec _ h0

theorem cur_init (k : Keys) (c : RCfg) : Cur k c {} :=
  ⟨fresh_init, by intro b id hm; cases hm⟩

/-- from ANY state satisfying the invariant, along any event sequence -/
theorem run_cur (k : Keys) (c : RCfg) (es : List Ev) (s : RState) (h : Cur k c s) :
    Cur k c (runEvents k c s es) := by
  induction es generalizing s with
  | nil => exact h
  | cons e es ih => exact ih _ (step_cur k c s e h)

/-- **Changes from outside** (the harness writes other replicas' signatures into the truth table
and fetchable blocks into the world between events): any change that leaves the ghost history alone,
keeps the truth table fresh and preserves every lookup of block store and truth table preserves the
invariant. -/
theorem external_extension_cur (k : Keys) (c : RCfg) (s s' : RState) (hg : s'.ghost = s.ghost) (hf : Fresh s')
    (hS : ∀ h b, s.chain.blocks.lookup h = some b → s'.chain.blocks.lookup h = some b)
    (hT : ∀ n a, s.truth.lookup n = some a → s'.truth.lookup n = some a)
    (h : Cur k c s) : Cur k c s' :=
  cur_ext k c s s' ⟨hf, hS, hT⟩ hg h

theorem reachable_cur (k : Keys) (c : RCfg) (es : List Ev) :
    Cur k c (runEvents k c (start k c {}).1 es) :=
  run_cur k c es _ (start_cur k c {} (cur_init k c))

/-- **The certificate of every block voted for verifies NOW**: in every reachable state (initial
state, `Start`, then any sequence of delivered events), for every vote `GRec.vote b id` the replica
ever signed, `b.qc` passes `verifyQC` against the truth table and block store of that state. -/
theorem votes_verify_now (k : Keys) (c : RCfg) (es : List Ev) (b : Block) (id : Nat)
    (h : GRec.vote b id ∈ (runEvents k c (start k c {}).1 es).ghost) :
    verifyQC (env k c (runEvents k c (start k c {}).1 es)) b.qc = true :=
  (reachable_cur k c es).2 b id h

/-- **A verified certificate stays verified**: any certificate (voted for or not) that verifies in a
fresh state `s` verifies in the state after delivering any event ... -/
theorem verifyQC_stable_step (k : Keys) (c : RCfg) (s : RState) (e : Ev) (q : QC) (hf : Fresh s)
    (hv : verifyQC (env k c s) q = true) : verifyQC (env k c (step k c s e).1) q = true :=
  verifyQC_ext k c s _ q (step_ext k c s e hf) hv

/-- ... and after any sequence of events. -/
theorem verifyQC_stable_run (k : Keys) (c : RCfg) (es : List Ev) (s : RState) (q : QC) (hf : Fresh s)
    (hv : verifyQC (env k c s) q = true) : verifyQC (env k c (runEvents k c s es)) q = true := by
  induction es generalizing s with
  | nil => exact hv
  | cons e es ih => exact ih _ (step_ext k c s e hf).fresh (verifyQC_stable_step k c s e q hf hv)

/-- ... and in every later state as well: a vote signed by the time of `es` has a certificate that
verifies in the state after `es ++ es'`. -/
theorem votes_verify_later (k : Keys) (c : RCfg) (es es' : List Ev) (b : Block) (id : Nat)
    (h : GRec.vote b id ∈ (runEvents k c (start k c {}).1 es).ghost) :
    verifyQC (env k c (runEvents k c (start k c {}).1 (es ++ es'))) b.qc = true := by
  have h1 := votes_verify_now k c es b id h
  have hf := reachable_fresh k c es
  have := verifyQC_stable_run k c es' _ b.qc hf h1
  unfold runEvents at *
  rw [List.foldl_append]
  exact this

/-- The strengthened form of `C03.vote_wellformed`: leader, parent, view order, and the certificate
verifies in the CURRENT state. -/
theorem vote_wellformed_now (k : Keys) (c : RCfg) (es : List Ev) (b : Block) (id : Nat)
    (h : GRec.vote b id ∈ (runEvents k c (start k c {}).1 es).ghost) :
    id = c.leader b.view ∧ b.parent = b.qc.hash ∧ b.qc.view < b.view ∧
    verifyQC (env k c (runEvents k c (start k c {}).1 es)) b.qc = true := by
  obtain ⟨h1, h2, h3, _⟩ := vote_wellformed k c es b id h
  exact ⟨h1, h2, h3, votes_verify_now k c es b id h⟩

/-! non-vacuity: votes are reachable, also votes for blocks whose certificate is not the genesis
certificate (BLS: a replica can check other replicas' signatures without a truth-table entry) -/
section NonVacuity
def nvCfg : RCfg := { n := 4, id := 1, rules := .chained, agg := false, scheme := .bls12 }
def nvP1 : Block := { hash := "P1", parent := "G", view := 1, proposer := 2, qc := genesisQC }
def nvQC : QC :=
  ⟨some (.bls [⟨1, blkMsg "P1"⟩, ⟨2, blkMsg "P1"⟩, ⟨3, blkMsg "P1"⟩] [] (((Bitfield.empty.add 1).add 2).add 3)), 1, "P1"⟩
def nvP2 : Block := { hash := "P2", parent := "P1", view := 2, proposer := 3, qc := nvQC }

deriving instance DecidableEq for GRec

example : GRec.vote nvP2 3 ∈
    (runEvents ⟨tmoMsgKey⟩ nvCfg (start ⟨tmoMsgKey⟩ nvCfg {}).1 [.propose 2 nvP1 none, .propose 3 nvP2 none]).ghost := by
  decide +kernel
example : nvP2.qc.hash ≠ genesisHash := by decide
end NonVacuity

/-! ### 4. voted blocks are stored -/

/-- **One-step preservation**: if every block voted for so far is in the block store (some block is
stored under its hash), the same holds after delivering ANY event — in particular for the blocks
voted for during the step (`onValidPropose` stores before voting, `createAndPropose` votes and then
stores). -/
theorem step_stored_partial (k : Keys) (c : RCfg) (s : RState) (e : Ev) (h : Stored s) : Stored (step k c s e).1 := by
  unfold step
  have h0 : Stored { s with out := [], queue := s.queue ++ [e] } := h
  exact run_of_triple _ _ _ (runLoop_st k c 100000) _ h0

theorem start_stored (k : Keys) (c : RCfg) (s : RState) (h : Stored s) : Stored (start k c s).1 := by
  unfold start
  have h0 : Stored { s with out := [] } := h
  have spec : ⦃fun s => ⌜Stored s⌝⦄ (do
      let s ← get
      if s.view == 1 && c.leader 1 == c.id then
        createAndPropose k c { qc := some s.highQC, tc := some s.highTC }
      runLoop k c 100000 : M Unit) ⦃⇓ _ s => ⌜Stored s⌝⦄ := by
    mvcgen [createAndPropose_st, runLoop_st]
  exact run_of_triple _ _ _ spec _ h0

theorem run_stored (k : Keys) (c : RCfg) (es : List Ev) (s : RState) (h : Stored s) :
    Stored (runEvents k c s es) := by
  induction es generalizing s with
  | nil => exact h
  | cons e es ih => exact ih _ (step_stored_partial k c s e h)

/-- **Every block voted for is stored**: in every reachable state, for every vote `GRec.vote b id`
the replica ever signed, the block store has an entry under `b.hash`. -/
theorem voted_blocks_stored (k : Keys) (c : RCfg) (es : List Ev) (b : Block) (id : Nat)
    (h : GRec.vote b id ∈ (runEvents k c (start k c {}).1 es).ghost) :
    ((runEvents k c (start k c {}).1 es).chain.blocks.lookup b.hash).isSome = true :=
  run_stored k c es _ (start_stored k c {} (by intro b id hm; cases hm)) b id h

/-- ... and where the store is well formed in the sense of C02 (entries are keyed by their own hash;
fetched blocks are stored under the REQUESTED hash, so this is an assumption on what peers serve, as
in `C03.vote_qc_quorum`), the stored block has the hash of the block voted for. -/
theorem voted_blocks_stored_same_hash (k : Keys) (c : RCfg) (es : List Ev) (b : Block) (id : Nat)
    (h : GRec.vote b id ∈ (runEvents k c (start k c {}).1 es).ghost)
    (hs : C02.StoreOK (env k c (runEvents k c (start k c {}).1 es))) :
    ∃ blk, (runEvents k c (start k c {}).1 es).chain.blocks.lookup b.hash = some blk ∧ blk.hash = b.hash := by
  have := voted_blocks_stored k c es b id h
  cases hb : (runEvents k c (start k c {}).1 es).chain.blocks.lookup b.hash with
  | none => rw [hb] at this; cases this
  | some blk => exact ⟨blk, rfl, hs b.hash blk hb⟩

/- FULL STATEMENT of one-step preservation with "same hash" and no store assumption (false of the
model, see `step_stored_counterexample`: `Store` leaves an existing entry alone, whatever
block it holds):
   (∀ b id, GRec.vote b id ∈ s.ghost → ∃ blk, s.chain.blocks.lookup b.hash = some blk ∧ blk.hash = b.hash) →
   (∀ b id, GRec.vote b id ∈ (step k c s e).1.ghost →
      ∃ blk, (step k c s e).1.chain.blocks.lookup b.hash = some blk ∧ blk.hash = b.hash)
   The true variants are `step_stored_partial` (some block is stored) and `voted_blocks_stored_same_hash`. -/

def cxKeys : Keys := ⟨tmoMsgKey⟩
def cxCfg : RCfg := { n := 4, id := 1, rules := .chained, agg := false, scheme := .ecdsa }
/-- a block sitting in the store under a hash that is not its own -/
def cxForeign : Block := { hash := "Y", parent := "G", view := 0, proposer := 0, qc := genesisQC }
def cxState : RState := { chain := { blocks := [("X", cxForeign), (genesisHash, genesisBlock)] } }
def cxBlock : Block := { hash := "X", parent := genesisHash, view := 1, proposer := 2, qc := genesisQC }

/-- From a state that has voted for nothing (so all invariants above hold of it) but whose store
holds a block under a foreign hash "X", the proposal of the view-1 leader for a block of hash "X" is
voted for, and the entry under "X" is still the foreign block. -/
theorem step_stored_counterexample :
    ∃ (k : Keys) (c : RCfg) (s : RState) (e : Ev) (b : Block) (id : Nat),
      Cur k c s ∧ Stored s ∧ s.ghost = [] ∧ GRec.vote b id ∈ (step k c s e).1.ghost ∧
      ∀ blk, (step k c s e).1.chain.blocks.lookup b.hash = some blk → blk.hash ≠ b.hash := by
  refine ⟨cxKeys, cxCfg, cxState, .propose 2 cxBlock none, cxBlock, 2, ?_, ?_, rfl, ?_, ?_⟩
  · exact ⟨fun p hp => (by cases hp), fun b id hm => (by cases hm)⟩
  · intro b id hm; cases hm
  · decide +kernel
  · intro blk hb
    have : (step cxKeys cxCfg cxState (.propose 2 cxBlock none)).1.chain.blocks.lookup cxBlock.hash = some cxForeign := by
      decide +kernel
    rw [this] at hb
    cases hb
    decide

end HsVerif.Props.C03Cur
