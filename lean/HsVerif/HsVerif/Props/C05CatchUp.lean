import HsVerif.Proofs.ReplicaProgress
import HsVerif.Proofs.ReplicaSignal
import HsVerif.Props.C05
import HsVerif.Props.C01Rule
/-! C05, task S15 — A LAGGING REPLICA CATCHES UP IN ONE STEP.

The defect: `Synchronizer.advanceView` entered `current view + 1` even when the verified certificate was for a
much later view, so a replica that had fallen `k` views behind stayed `k` views behind for ever although every
message was delivered (proposals are for views ahead of it: it never votes or commits again).  The repair
(`EnterViewAfter(view)`; model: `advanceView`, `newView := view + 1` for the certified `view ≥` the current view).

Proved here, for the repaired model:
* `lagging_replica_catches_up`: ANY state between steps (queue and outputs empty), ANY sync info that the replica's
  verifier accepts with a certified view `w ≥` the current view (QC, TC or aggregate QC; either timeout rule)
  delivered in a new-view message from anybody: after the step the replica is in a view `≥ w + 1` (it is in `w + 1`
  right after `advanceView`, and the rest of the step cannot take it back).
* `lagging_replica_catches_up_on_proposal`: the same for a proposal whose certificate the verifier accepts.
* `lagging_replica_catches_up_exact`: plain timeout rule, a QC of a stored block, the replica is not the leader of
  view `w + 1`, nothing deferred: the state and the outputs of the step, exactly — view `w + 1`, one advancement
  record `left v on w`, the new-view message to the leader of `w + 1`, ONE view-change signal `w + 1`.
* kernel-evaluated: `catch_up_ten_views` (replica 1 of 4 in view 1 receives a new-view message with a certificate
  of view 11 = 1 + 10: it is in view 12, has signalled `[12]`, its advancement records are `1 → 12`) and
  `catch_up_on_proposal_ten_views` (a proposal of view 11 with a certificate of view 10: the replica enters view 11
  and votes for the proposal). -/
open Std.Do
set_option mvcgen.warning false
set_option linter.unusedVariables false
namespace HsVerif.Props.C05CatchUp
open HsVerif.Model HsVerif.Proofs

/-- a state between two steps: nothing queued, the outputs of the last step handed over -/
theorem between_steps (s : RState) (hq : s.queue = []) (ho : s.out = []) (e : Ev) :
    ({ ({ s with out := [], queue := s.queue ++ [e] } : RState) with queue := [] } : RState) = s := by
  cases s; simp_all

/-- `onPropose` starts with `advanceView` on the proposal's certificate; nothing after it lowers the view -/
theorem onPropose_progress (k : Keys) (c : RCfg) (id : Nat) (b : Block) (agg : Option AggQC) (v w : Nat) (hw : v ≤ w) :
    ⦃fun s => ⌜s.view = v ∧ Accepts k c { qc := some b.qc } s w⌝⦄ onPropose k c id b agg ⦃⇓ _ s => ⌜w + 1 ≤ s.view⌝⦄ := by
  have h1 := advanceView_progress k c { qc := some b.qc } v w hw
  have h2 := voterVerify_vw k c id b agg (w + 1)
  have h3 := onValidPropose_vw k c id b (w + 1)
  have h4 := fun o => emit_vw o (w + 1)
  mvcgen [onPropose, h1, h2, h3, h4]
  all_goals simp_all +zetaDelta
  all_goals omega

/-- **A lagging replica catches up in one step (new-view message).**  Replica `c.id` is in view `s.view`, between
two steps.  It receives a new-view message (from anybody) whose sync info its verifier accepts with certified view
`w ≥ s.view` — any `w`, however far ahead.  After the step it is in a view `≥ w + 1`. -/
theorem lagging_replica_catches_up (k : Keys) (c : RCfg) (s : RState) (id : Nat) (si : SyncInfo) (w : Nat)
    (hq : s.queue = []) (ho : s.out = []) (ha : Accepts k c si s w) (hw : s.view ≤ w) :
    w + 1 ≤ (step k c s (.newview id si)).1.view := by
  let s0 : RState := { s with out := [], queue := s.queue ++ [.newview id si] }
  have hsA : ({ s0 with queue := [] } : RState) = s := between_steps s hq ho _
  let s7 : RState := ((advanceView k c si).run s).2
  have hadv : (advanceView k c si).run { s0 with queue := [] } = pure ((), s7) := by rw [hsA]; rfl
  have ht1 : (tick k c).run s0 = pure (true, s7) := tick_newview k c s0 s7 id si [] (by simp [s0, hq]) hadv
  have h7 : s7.view = w + 1 := (HsVerif.Props.C05.view_moves_on_accepted_certificate k c si s w ha hw).1
  let s8 : RState := ((runLoop k c 99999).run s7).2
  have hstep : step k c s (.newview id si) = ({ s8 with out := [] }, s8.out) := by
    rw [step_run_eq k c s _ (99999 + 1) rfl, runLoop_succ k c _ s0 s7 ht1]
  have h8 : w + 1 ≤ s8.view :=
    run_res_of_triple (runLoop k c 99999) _ _ (runLoop_vw k c 99999 (w + 1)) s7 (Nat.le_of_eq h7.symm)
  rw [hstep]; exact h8

/-- **… on a proposal**: the proposal's certificate is accepted with certified view `w ≥ s.view`. -/
theorem lagging_replica_catches_up_on_proposal (k : Keys) (c : RCfg) (s : RState) (id : Nat) (b : Block)
    (agg : Option AggQC) (w : Nat)
    (hq : s.queue = []) (ho : s.out = []) (ha : Accepts k c { qc := some b.qc } s w) (hw : s.view ≤ w) :
    w + 1 ≤ (step k c s (.propose id b agg)).1.view := by
  let s0 : RState := { s with out := [], queue := s.queue ++ [.propose id b agg] }
  have hsA : ({ s0 with queue := [] } : RState) = s := between_steps s hq ho _
  let s6 : RState := ((onPropose k c id b agg).run s).2
  have h6 : w + 1 ≤ s6.view :=
    run_res_of_triple (onPropose k c id b agg) _ _ (onPropose_progress k c id b agg s.view w hw) s ⟨rfl, ha⟩
  let s7 : RState := { s6 with waitingProp := [], queue := s6.queue ++ s6.waitingProp }
  have ht1 : (tick k c).run s0 = pure (true, s7) := by
    have hrun : (onPropose k c id b agg).run { s0 with queue := [] } = pure ((), s6) := by rw [hsA]; rfl
    have hq0 : s0.queue = [.propose id b agg] := by simp [s0, hq]
    simp [tick, hq0, hrun, s7]
  let s8 : RState := ((runLoop k c 99999).run s7).2
  have hstep : step k c s (.propose id b agg) = ({ s8 with out := [] }, s8.out) := by
    rw [step_run_eq k c s _ (99999 + 1) rfl, runLoop_succ k c _ s0 s7 ht1]
  have h8 : w + 1 ≤ s8.view :=
    run_res_of_triple (runLoop k c 99999) _ _ (runLoop_vw k c 99999 (w + 1)) s7 h6
  rw [hstep]; exact h8

/-- handling a queued view-change event: signal it, then re-queue the events deferred until a view change -/
theorem tick_viewChange (k : Keys) (c : RCfg) (s : RState) (v : Nat) (t : Bool) (rest : List Ev)
    (hq : s.queue = .viewChange v t :: rest) :
    (tick k c).run s =
      pure (true, { s with queue := rest ++ s.waitingVC, waitingVC := [], out := s.out ++ [.viewChange v t] }) := by
  simp [tick, hq, emit]

theorem runLoop_stop (k : Keys) (c : RCfg) (n : Nat) (s s' : RState) (h : (tick k c).run s = pure (false, s')) :
    (runLoop k c (n + 1)).run s = pure ((), s') := by
  simp [runLoop, h]

/-- **… exactly** (plain timeout rule; the certificate is a QC `q` of the stored block `nb`; the replica is not the
leader of view `q.view + 1`; no event is deferred until a view change): the replica ends in view `q.view + 1`
EXACTLY, whatever `q.view ≥ s.view` is; the step's outputs are the new-view message to the leader of that view and ONE
view-change signal, for `q.view + 1`; the ghost history has grown by the one record "left `s.view` on a certificate
of view `q.view`". -/
theorem lagging_replica_catches_up_exact (k : Keys) (c : RCfg) (s : RState) (id : Nat) (q : QC) (nb : Block)
    (hagg : c.agg = false) (hq : s.queue = []) (ho : s.out = []) (hwv : s.waitingVC = [])
    (hqc : verifyQC (env k c s) q = true) (hnb : s.chain.blocks.lookup q.hash = some nb) (hw : s.view ≤ q.view)
    (hl : c.leader (q.view + 1) ≠ c.id) :
    (step k c s (.newview id { qc := some q })).1 = { jumpedS s q nb with queue := [] } ∧
    (step k c s (.newview id { qc := some q })).1.view = q.view + 1 ∧
    (step k c s (.newview id { qc := some q })).1.ghost = s.ghost ++ [.adv s.view q.view false] ∧
    (step k c s (.newview id { qc := some q })).2 =
      [.sendNewView (c.leader (q.view + 1)) { qc := some (updHighQC s q nb).highQC }, .viewChange (q.view + 1) false] := by
  let s0 : RState := { s with out := [], queue := s.queue ++ [.newview id { qc := some q }] }
  have hsA : ({ s0 with queue := [] } : RState) = s := between_steps s hq ho _
  let o : Out := .sendNewView (c.leader (q.view + 1)) { qc := some (updHighQC s q nb).highQC }
  let s7 : RState := { jumpedS s q nb with out := [o] }
  have hadv : (advanceView k c { qc := some q }).run { s0 with queue := [] } = pure ((), s7) := by
    rw [hsA, advanceView_jump k c s q nb hagg hqc hnb hw, if_neg hl]
    simp [emit, s7, o, jumpedS, updHighQC, ho]
  have ht1 : (tick k c).run s0 = pure (true, s7) :=
    tick_newview k c s0 s7 id _ [] (by simp [s0, hq]) hadv
  let s8 : RState := { s7 with queue := [] ++ s7.waitingVC, waitingVC := [], out := s7.out ++ [.viewChange (q.view + 1) false] }
  have ht2 : (tick k c).run s7 = pure (true, s8) :=
    tick_viewChange k c s7 (q.view + 1) false [] (by simp [s7, jumpedS, updHighQC, hq])
  have hq8 : s8.queue = [] := by simp [s8, s7, jumpedS, updHighQC, hwv]
  have ht3 : (tick k c).run s8 = pure (false, s8) := tick_empty k c s8 hq8
  have hstep : step k c s (.newview id { qc := some q }) = ({ s8 with out := [] }, s8.out) := by
    rw [step_run_eq k c s _ (99997 + 1 + 1 + 1) rfl, runLoop_succ k c _ s0 s7 ht1, runLoop_succ k c _ s7 s8 ht2,
      runLoop_stop k c _ s8 s8 ht3]
    rfl
  rw [hstep]
  refine ⟨?_, rfl, ?_, ?_⟩
  · simp [s8, s7, jumpedS, updHighQC, ho, hwv]
  · simp [s8, s7, jumpedS, updHighQC]
  · simp [s8, s7, o]

/-! ### kernel-evaluated: ten views behind -/
section Evaluated
open HsVerif.Props.C01Rule

/-- a block of view 11 = 1 + 10 and one of view 10 (somebody else's chain; the replica has them in its store) -/
def cuX11 : Block := { hash := "X11", parent := "G", view := 11, proposer := 2, qc := genesisQC }
def cuX10 : Block := { hash := "X10", parent := "G", view := 10, proposer := 2, qc := genesisQC }
/-- replica 1 of 4 (chained HotStuff, fixed leader 2, BLS; `nvCfg` of Props/C01Rule.lean) after `Start`: view 1 -/
def cuS : RState :=
  let s := (start nvKeys nvCfg {}).1
  { s with chain := { s.chain with blocks := ("X11", cuX11) :: ("X10", cuX10) :: s.chain.blocks } }
/-- the proposal of view 11 on the certificate of `X10` -/
def cuP11 : Block := { hash := "P11", parent := "X10", view := 11, proposer := 2, qc := nvQC "X10" 10 }

set_option maxRecDepth 100000 in
/-- **Ten views behind, new-view message.**  The replica is in view 1, between steps; the certificate of `X11`
(view 11 = 1 + 10, signed by replicas 1, 2, 3 of 4) verifies.  One delivered new-view message (from replica 3) with
that certificate: the replica is in view 12 = 11 + 1, its high QC has view 11, the step's outputs are the new-view
message to leader 2 and ONE view-change signal, `[12]`; its advancement records are `1 → 12`.  (The old model:
view 2, and for ever ten views behind.) -/
theorem catch_up_ten_views :
    cuS.view = 1 ∧ cuS.queue = [] ∧ cuS.out = [] ∧ cuS.waitingVC = [] ∧
    verifyQC (env nvKeys nvCfg cuS) (nvQC "X11" 11) = true ∧
    (step nvKeys nvCfg cuS (.newview 3 { qc := some (nvQC "X11" 11) })).1.view = 12 ∧
    (step nvKeys nvCfg cuS (.newview 3 { qc := some (nvQC "X11" 11) })).1.highQC.view = 11 ∧
    vcOuts (step nvKeys nvCfg cuS (.newview 3 { qc := some (nvQC "X11" 11) })).2 = [12] ∧
    ((step nvKeys nvCfg cuS (.newview 3 { qc := some (nvQC "X11" 11) })).1.ghost.filter GRec.isAdv).map
      (fun r => (r.advFrom, r.advTo)) = [(1, 12)] := by
  refine ⟨?_, ?_, ?_, ?_, ?_, ?_, ?_, ?_, ?_⟩ <;> decide +kernel

set_option maxRecDepth 100000 in
/-- the theorems applied to it: `w = 11`, any sender -/
example (id : Nat) : (step nvKeys nvCfg cuS (.newview id { qc := some (nvQC "X11" 11) })).1.view = 11 + 1 :=
  (lagging_replica_catches_up_exact nvKeys nvCfg cuS id (nvQC "X11" 11) cuX11 (by decide +kernel) (by decide +kernel)
    (by decide +kernel) (by decide +kernel) (by decide +kernel) (by decide +kernel) (by decide +kernel)
    (by decide +kernel)).2.1

set_option maxRecDepth 100000 in
/-- **Ten views behind, proposal.**  The leader's proposal `P11` of view 11 carries the certificate of `X10` (view
10 = 1 + 9 … the replica is in view 1): one delivered proposal and the replica is in view 11 = 10 + 1, has
signalled `[11]`, and has VOTED for `P11` (its ghost history: left view 1 on a certificate of view 10, then the vote
for the block of view 11 proposed by 2).  (The old model: view 2; the proposal of view 11 is "more than 10 views
ahead"… and every later one too: the replica never votes again.) -/
theorem catch_up_on_proposal_ten_views :
    (step nvKeys nvCfg cuS (.propose 2 cuP11 none)).1.view = 11 ∧
    (step nvKeys nvCfg cuS (.propose 2 cuP11 none)).1.lastVoted = 11 ∧
    vcOuts (step nvKeys nvCfg cuS (.propose 2 cuP11 none)).2 = [11] ∧
    (step nvKeys nvCfg cuS (.propose 2 cuP11 none)).1.ghost.map
      (fun g => match g with | .vote b s => (b.view, s, 0) | .tmo v => (v, 0, 1) | .adv f cv _ => (f, cv, 2)) =
      [(1, 10, 2), (11, 2, 0)] := by
  refine ⟨?_, ?_, ?_, ?_⟩ <;> decide +kernel

end Evaluated

end HsVerif.Props.C05CatchUp
