import HsVerif.Proofs.SysRotateChain
import HsVerif.Proofs.SysRotateGlue
import HsVerif.Proofs.SysRotateLast
import HsVerif.Props.C05Quorum
/-! C05, task S12d — ROTATING LEADERS (with the silent-minority setting of S12c: `RotCfg C` — the participants `C.honest` are at
least a quorum; nothing is assumed about who leads which view except, per theorem, that the leaders of the views in question are
participants).  `ldr C u` is the leader of view `u`.  Proofs: Proofs/SysRotate.lean (replica level), Proofs/SysRotateChain.lean.

What changes against a fixed leader, and where it is proved:
* the votes for the block `B` of view `w` go to `ldr C (w + 1)`, the COLLECTOR, which need not be the proposer: `PhaseARot`;
* a replica votes to the next leader and reports its new view to the proposer: `replica_votes_to_next_leader`;
* the next collector counts its own vote when the proposal reaches it: `next_collector_counts_own_vote`;
* a collector that is not the next collector SENDS its own vote for its proposal, together with the proposals:
  `collector_proposes_and_sends_own_vote`; that vote stays in flight during the proposal round (`chainViewRot`) and is delivered
  with the other votes — AFTER the proposal has reached the next collector (an order restriction of the rounds; in the model a
  vote that arrives before its proposal is deferred, not dropped: `collectVote`'s `waitingProp`, see `C05Live.lastVoted_counterexample`);
* every participant may lead later: the `markWalk` hypothesis (`SyncM.mark`) is carried by all of them (`mark_step`).
`one_view_rot`, `synced_commits_rot`: same conclusions as the `_live` theorems.  Task S12e (Proofs/SysRotateGlue.lean):
`recovery_reaches_synced_rot` and `commit_after_recovery_rot` — the recovery round with the leader `ldr C (v + 1)` sending its vote for
`b'` to `ldr C (v + 2)`, under `SyncPreRot` (`SyncPre` + `markWalk` from every `Top` block at every participant) and the hypothesis that
the leaders of `v + 1` and `v + 2` DIFFER (the other case is the fixed-leader development); `commit_after_recovery_rot_partial` (the
earlier conditional form) is kept.  The fixed-leader
The fixed-leader
theorems are NOT instances of these: `PhaseARot` asks `markWalk` and the high-QC bound of EVERY participant (any may lead), which the
fixed-leader `PhaseA` asks of the leader only; conversely `HappyLive.toRot` / `HappyLive.ldr` turn a fixed-leader configuration into
a rotating one.  Nothing was found false with rotating leaders.
Non-vacuity: `synced_commits_rot_nonvacuous`, `rotating_run_commits` (n = 4, round-robin, a recovery in view 1; views 2–5 led by 3, 4, 1, 2);
`commit_after_recovery_rot_nonvacuous`, `rotating_recovery_commits` (four views of round-robin progress, recovery in view 4, views 5–8
led by 2, 3, 4, 1: all commit `P5`). -/
set_option linter.unusedVariables false
namespace HsVerif.Props.C05Rotate
open HsVerif.Model HsVerif.Proofs HsVerif.Props.C01Sys HsVerif.Props.C01SysWF HsVerif.Props.C03
open HsVerif.SysSafety HsVerif.Props.C05Live HsVerif.Props.C05Cover HsVerif.Props.C05Chain HsVerif.Props.C05Quorum

/-- **a replica that is not the leader receives the next proposal of the chain**: it verifies the
certificate of `B`, enters view `w + 1` on it, reports to the leader, stores `B'`, runs the committer, votes -/
theorem replica_votes_to_next_leader (k : Keys) (c : RCfg) (L L2 w N : Nat) (B P B' : Block) (sgq : Sig) (s : RState)
    (hs : c.scheme ≠ .bls12) (ha : c.agg = false) (hr : c.rules = .chained ∨ c.rules = .simple)
    (hld1 : c.leader (w + 1) = L) (hne : c.id ≠ L) (hld2 : c.leader (w + 1 + 1) = L2) (hne2 : c.id ≠ L2)
    (hcore : SyncR w N B P s) (hf : FreshS s) (hN : N + 12 ≤ 99999)
    (hb1 : B'.hash = pname (w + 1)) (hb2 : B'.parent = B.hash) (hb3 : B'.view = w + 1)
    (hb4 : B'.qc = ⟨some sgq, B.view, B.hash⟩)
    (hv1 : verify (fun b => s.truth.lookup b) c.cfg sgq (blkMsg B.hash) = true) (hv2 : c.cfg.quorum ≤ sgq.len) :
    SyncR (w + 1) (N + 3) B' B (step k c s (.propose L B' none)).1 ∧
    FreshS (step k c s (.propose L B' none)).1 ∧ Ext s (step k c s (.propose L B' none)).1 ∧
    (step k c s (.propose L B' none)).1.highQC = B'.qc ∧
    (step k c s (.propose L B' none)).1.votes = s.votes ∧
    (step k c s (.propose L B' none)).1.lastProposed = s.lastProposed ∧
    (step k c s (.propose L B' none)).1.chain.blocks = (B'.hash, B') :: s.chain.blocks ∧
    (∃ bytes, (step k c s (.propose L B' none)).1.truth.lookup bytes = some ⟨c.id, blkMsg B'.hash⟩ ∧
      ∀ C : SysCfg, route C c.id (step k c s (.propose L B' none)).2 =
        [(L, Ev.newview c.id { qc := some B'.qc }),
         (L2, Ev.vote c.id (some (.multi c.scheme [⟨c.id, bytes⟩])) B'.hash false)]) ∧
    (∀ Z : Block, WalkZ Z s →
      (w ≤ Z.view + 1 → WalkZ Z (step k c s (.propose L B' none)).1) ∧
      (Link B P → Link P Z → s.chain.blocks.lookup Z.hash = some Z →
        (step k c s (.propose L B' none)).1.committed = Z ∧
        Out.commit Z ∈ (step k c s (.propose L B' none)).2 ∧ Out.exec Z ∈ (step k c s (.propose L B' none)).2)) :=
  HsVerif.Model.nl_step_rot k c L L2 w N B P B' sgq s hs ha hr hld1 hne hld2 hne2 hcore hf hN hb1 hb2 hb3 hb4 hv1 hv2

/-- **the NEXT COLLECTOR (leader of view `w + 2`, not the proposer) receives the proposal `B'` of view `w + 1`**: as `nl_step_rot`, but
it hands its vote to its own voting machine instead of sending it -/
theorem next_collector_counts_own_vote (k : Keys) (c : RCfg) (L w N : Nat) (B P B' : Block) (sgq : Sig) (s : RState)
    (hs : c.scheme ≠ .bls12) (ha : c.agg = false) (hr : c.rules = .chained ∨ c.rules = .simple)
    (hld1 : c.leader (w + 1) = L) (hne : c.id ≠ L) (hld2 : c.leader (w + 1 + 1) = c.id) (hid : c.cfg.has c.id = true) (hq2 : 2 ≤ c.cfg.quorum)
    (hcore : SyncR w N B P s) (hf : FreshS s) (hN : N + 12 ≤ 99999)
    (hb1 : B'.hash = pname (w + 1)) (hb2 : B'.parent = B.hash) (hb3 : B'.view = w + 1)
    (hb4 : B'.qc = ⟨some sgq, B.view, B.hash⟩)
    (hv1 : verify (fun b => s.truth.lookup b) c.cfg sgq (blkMsg B.hash) = true) (hv2 : c.cfg.quorum ≤ sgq.len) :
    SyncR (w + 1) (N + 3) B' B (step k c s (.propose L B' none)).1 ∧
    FreshS (step k c s (.propose L B' none)).1 ∧ Ext s (step k c s (.propose L B' none)).1 ∧
    (step k c s (.propose L B' none)).1.highQC = B'.qc ∧
    (step k c s (.propose L B' none)).1.lastProposed = s.lastProposed ∧
    (step k c s (.propose L B' none)).1.chain.blocks = (B'.hash, B') :: s.chain.blocks ∧
    (∃ bytes, (step k c s (.propose L B' none)).1.truth.lookup bytes = some ⟨c.id, blkMsg B'.hash⟩ ∧
      (step k c s (.propose L B' none)).1.votes.lookup B'.hash = some [(c.id, .multi c.scheme [⟨c.id, bytes⟩])] ∧
      ∀ C : SysCfg, route C c.id (step k c s (.propose L B' none)).2 = [(L, Ev.newview c.id { qc := some B'.qc })]) ∧
    (∀ Z : Block, WalkZ Z s →
      (w ≤ Z.view + 1 → WalkZ Z (step k c s (.propose L B' none)).1) ∧
      (Link B P → Link P Z → s.chain.blocks.lookup Z.hash = some Z →
        (step k c s (.propose L B' none)).1.committed = Z ∧
        Out.commit Z ∈ (step k c s (.propose L B' none)).2 ∧ Out.exec Z ∈ (step k c s (.propose L B' none)).2)) :=
  HsVerif.Model.nl_step_coll k c L w N B P B' sgq s hs ha hr hld1 hne hld2 hid hq2 hcore hf hN hb1 hb2 hb3 hb4 hv1 hv2

/-- **the vote that completes the quorum, the next collector being another replica `L2`**: the collector certifies `B`, enters
view `w + 1`, proposes `B'`, runs the committer on it and SENDS its own vote for `B'` to `L2` (with the proposals) -/
theorem collector_proposes_and_sends_own_vote (k : Keys) (c : RCfg) (L2 w N i id bytes : Nat) (B P : Block) (vs : List (Nat × Sig)) (s : RState)
    (hs : c.scheme ≠ .bls12) (ha : c.agg = false) (hr : c.rules = .chained ∨ c.rules = .simple)
    (hid : c.cfg.has c.id = true) (hld1 : c.leader (s.view + 1) = c.id) (hld2 : c.leader (s.view + 1 + 1) = L2) (hne2 : c.id ≠ L2) (hq2 : 2 ≤ c.cfg.quorum)
    (hld : SyncC c w N B P vs s) (hf : FreshS s) (hN : N + 12 ≤ 99999)
    (hi : c.cfg.has i = true) (hbytes : s.truth.lookup bytes = some ⟨i, blkMsg B.hash⟩)
    (hnew : ∀ v ∈ vs, v.1 ≠ i) (hlen : c.cfg.quorum ≤ vs.length + 1) :
    ∃ (sgq : Sig) (bytes' : Nat) (B' : Block),
      B'.hash = pname (w + 1) ∧ B'.parent = B.hash ∧ B'.view = w + 1 ∧ B'.qc = ⟨some sgq, B.view, B.hash⟩ ∧
      verify (fun b => (step k c s (.vote id (some (.multi c.scheme [⟨i, bytes⟩])) B.hash false)).1.truth.lookup b)
        c.cfg sgq (blkMsg B.hash) = true ∧ c.cfg.quorum ≤ sgq.len ∧
      SyncR (w + 1) (N + 3) B' B (step k c s (.vote id (some (.multi c.scheme [⟨i, bytes⟩])) B.hash false)).1 ∧
      markWalk ((step k c s (.vote id (some (.multi c.scheme [⟨i, bytes⟩])) B.hash false)).1.chain.fuel + 1)
        (step k c s (.vote id (some (.multi c.scheme [⟨i, bytes⟩])) B.hash false)).1.chain.blocks
        (step k c s (.vote id (some (.multi c.scheme [⟨i, bytes⟩])) B.hash false)).1.lastProposed B' = true ∧
      (step k c s (.vote id (some (.multi c.scheme [⟨i, bytes⟩])) B.hash false)).1.truth.lookup bytes' = some ⟨c.id, blkMsg B'.hash⟩ ∧
      (step k c s (.vote id (some (.multi c.scheme [⟨i, bytes⟩])) B.hash false)).1.highQC = B'.qc ∧
      FreshS (step k c s (.vote id (some (.multi c.scheme [⟨i, bytes⟩])) B.hash false)).1 ∧
      Ext s (step k c s (.vote id (some (.multi c.scheme [⟨i, bytes⟩])) B.hash false)).1 ∧
      (∀ C : SysCfg, route C c.id (step k c s (.vote id (some (.multi c.scheme [⟨i, bytes⟩])) B.hash false)).2 =
        (C.honest.filter (· != c.id)).map (fun x => (x, Ev.propose c.id B' none)) ++
          [(L2, Ev.vote c.id (some (.multi c.scheme [⟨c.id, bytes'⟩])) B'.hash false)]) ∧
      (∀ Z : Block, WalkZ Z s →
        (w ≤ Z.view + 1 → WalkZ Z (step k c s (.vote id (some (.multi c.scheme [⟨i, bytes⟩])) B.hash false)).1) ∧
        (Link B P → Link P Z → s.chain.blocks.lookup Z.hash = some Z →
          (step k c s (.vote id (some (.multi c.scheme [⟨i, bytes⟩])) B.hash false)).1.committed = Z ∧
          Out.commit Z ∈ (step k c s (.vote id (some (.multi c.scheme [⟨i, bytes⟩])) B.hash false)).2 ∧
          Out.exec Z ∈ (step k c s (.vote id (some (.multi c.scheme [⟨i, bytes⟩])) B.hash false)).2)) :=
  HsVerif.Model.coll_vote_quorum_send k c L2 w N i id bytes B P vs s hs ha hr hid hld1 hld2 hne2 hq2 hld hf hN hi hbytes hnew hlen

/-- **One view of the chain, rotating leaders** `A(w, B) ⟶ A(w + 1, B')`: phase A at `(w, B)` with the votes in flight to the
collector `leader (w + 1)`; the leaders of views `w + 1` and `w + 2` are participants.  The votes are delivered in ANY order
`ordV`, then the proposals of `B'` in ANY order `ordP` (orders of the participants other than `leader (w + 1)`).  Afterwards: phase
A at `(w + 1, B')` — collector `leader (w + 2)` —, the votes for `B'` are in flight to it (the proposer's own vote included), and
every participant's committer has made its step. -/
theorem one_view_rot (k : Keys) (C : SysCfg) (w N : Nat) (hC : RotCfg C) (B P : Block) (bt : Nat → Nat)
    (x : SysState × Msgs) (hN : N + 12 ≤ 99999) (hA : PhaseARot C w N B P bt x.1)
    (hfly : VotesFly C (ldr C (w + 1)) B.hash bt x.2) (hc2m : ldr C (w + 1 + 1) ∈ C.honest)
    (ordV ordP : List Nat) (hV : OthersOrder C (ldr C (w + 1)) ordV) (hP : OthersOrder C (ldr C (w + 1)) ordP) :
    ∃ (B' : Block) (bt' : Nat → Nat),
      PhaseARot C (w + 1) (N + 3) B' B bt' (chainViewRot k C ordV ordP x).1 ∧
      VotesFly C (ldr C (w + 1 + 1)) B'.hash bt' (chainViewRot k C ordV ordP x).2 ∧ Link B' B ∧
      ∀ j ∈ C.honest, ∃ s0 s, x.1.reps.lookup j = some s0 ∧ (chainViewRot k C ordV ordP x).1.reps.lookup j = some s ∧
        CommitStep w B P s0 s :=
  HsVerif.Model.chain_view_rot k C w N hC B P bt x hN hA hfly hc2m ordV ordP hV hP

/-- **From a synchronised view to a commit with ROTATING leaders** (and a silent minority): the leaders of the views `w + 1 … w + 4`
are participants (`∈ C.honest`) — possibly four different replicas.  In phase A at `(w, B)` (collector: the leader of `w + 1`) with
the votes in flight and the committer's walk from `B` possible at every participant, run three views of the chain (votes, then
proposals, each in any order; the orders range over the participants other than the collector of that view).  Then EVERY
participant has committed `B`. -/
theorem synced_commits_rot (k : Keys) (C : SysCfg) (w N : Nat) (hC : RotCfg C) (B P : Block) (bt : Nat → Nat)
    (x : SysState × Msgs) (hN : N + 18 ≤ 99999) (hA : PhaseARot C w N B P bt x.1)
    (hfly : VotesFly C (ldr C (w + 1)) B.hash bt x.2)
    (hwalk : ∀ j ∈ C.honest, ∃ s, x.1.reps.lookup j = some s ∧ WalkZ B s)
    (hl2 : ldr C (w + 2) ∈ C.honest) (hl3 : ldr C (w + 3) ∈ C.honest) (hl4 : ldr C (w + 4) ∈ C.honest)
    (v1 p1 v2 p2 v3 p3 : List Nat)
    (hv1 : OthersOrder C (ldr C (w + 1)) v1) (hp1 : OthersOrder C (ldr C (w + 1)) p1)
    (hv2 : OthersOrder C (ldr C (w + 2)) v2) (hp2 : OthersOrder C (ldr C (w + 2)) p2)
    (hv3 : OthersOrder C (ldr C (w + 3)) v3) (hp3 : OthersOrder C (ldr C (w + 3)) p3) :
    ∃ (B1 B2 B3 : Block) (bt3 : Nat → Nat),
      Link B1 B ∧ Link B2 B1 ∧ Link B3 B2 ∧
      PhaseARot C (w + 3) (N + 9) B3 B2 bt3
        (chainViewRot k C v3 p3 (chainViewRot k C v2 p2 (chainViewRot k C v1 p1 x))).1 ∧
      VotesFly C (ldr C (w + 4)) B3.hash bt3 (chainViewRot k C v3 p3 (chainViewRot k C v2 p2 (chainViewRot k C v1 p1 x))).2 ∧
      ∀ j ∈ C.honest, ∃ s0 s, x.1.reps.lookup j = some s0 ∧
        (chainViewRot k C v3 p3 (chainViewRot k C v2 p2 (chainViewRot k C v1 p1 x))).1.reps.lookup j = some s ∧
        s.committed = B ∧ s0.committed.view < s.committed.view :=
  HsVerif.Model.synced_commits_rot k C w N hC B P bt x hN hA hfly hwalk hl2 hl3 hl4 v1 p1 v2 p2 v3 p3 hv1 hp1 hv2 hp2 hv3 hp3

/-- the proposals in flight reach the replicas `ord`; the votes already in flight (the proposer's own) stay in flight -/
def proposalRoundRot (k : Keys) (C : SysCfg) (ord : List Nat) (x : SysState × Msgs) : SysState × Msgs :=
  deliverAll k C (x.1, x.2.filter isVoteEv) (propsIn x.2 ord)

/-- **Commit after recovery with rotating leaders** (PARTIAL: hypothesis `hsync`).  `recovery_from_reachable_live` (any leader `ℓ`
of view `v + 1`) composed with `synced_commits_rot`; the leaders of views `v + 2 … v + 5` are participants.  `hsync` — NOT proved
— says that the recovery round followed by the delivery of the proposals ends in phase A at `(v + 1, b')` with the votes in flight to
`ldr C (v + 2)`.  (Missing for it: the variants of `ld_timeout_quorum` / `first_proposal_after_timeouts_votes` in which the vote for
`b'` goes to `ldr C (v + 2)` instead of the proposer, and the `markWalk` clause of `SyncPre` for every participant.) -/
theorem commit_after_recovery_rot_partial (k : Keys) (C : SysCfg) (hC : RotCfg C) (D : RecData) (s0 : Nat → RState) (ℓ : Nat)
    (σ0 : SysState) (blk : Hash → Block) (hk : KeysOK k) (hr : Reach k C σ0) (hca : CA' σ0 blk)
    (hP : RecPreLive k C D s0 ℓ σ0.truth) (h0 : RecStart C s0 σ0.truth σ0)
    (msgs : List (Nat × Nat)) (hm : FullOrder C msgs) (N : Nat) (hN : N + 18 ≤ 99999)
    (hl2 : ldr C (D.v + 1 + 2) ∈ C.honest) (hl3 : ldr C (D.v + 1 + 3) ∈ C.honest) (hl4 : ldr C (D.v + 1 + 4) ∈ C.honest)
    (ordP v1 p1 v2 p2 v3 p3 : List Nat)
    (hv1 : OthersOrder C (ldr C (D.v + 1 + 1)) v1) (hp1 : OthersOrder C (ldr C (D.v + 1 + 1)) p1)
    (hv2 : OthersOrder C (ldr C (D.v + 1 + 2)) v2) (hp2 : OthersOrder C (ldr C (D.v + 1 + 2)) p2)
    (hv3 : OthersOrder C (ldr C (D.v + 1 + 3)) v3) (hp3 : OthersOrder C (ldr C (D.v + 1 + 3)) p3)
    (hsync : ∀ (i : Nat) (b' : Block), i ∈ C.honest → Top C D i → b'.view = D.v + 1 → b'.qc = D.hq i → b'.proposer = ℓ →
      ∃ bt, PhaseARot C (D.v + 1) N b' (D.hb i) bt (proposalRoundRot k C ordP (recoveryRound k C D σ0 msgs)).1 ∧
        VotesFly C (ldr C (D.v + 1 + 1)) b'.hash bt (proposalRoundRot k C ordP (recoveryRound k C D σ0 msgs)).2 ∧
        ∀ j ∈ C.honest, ∃ s, (proposalRoundRot k C ordP (recoveryRound k C D σ0 msgs)).1.reps.lookup j = some s ∧ WalkZ b' s) :
    ∃ (i : Nat) (b' : Block), i ∈ C.honest ∧ Top C D i ∧ b'.view = D.v + 1 ∧ b'.qc = D.hq i ∧ b'.proposer = ℓ ∧
      ∀ j ∈ C.honest, ∃ s,
        (chainViewRot k C v3 p3 (chainViewRot k C v2 p2 (chainViewRot k C v1 p1
          (proposalRoundRot k C ordP (recoveryRound k C D σ0 msgs))))).1.reps.lookup j = some s ∧ s.committed = b' := by
  obtain ⟨i, b', r1, r2, r3, r4, _, r6, _⟩ := recovery_from_reachable_live k C D s0 ℓ σ0 blk hk hr hca hP h0 msgs hm
  obtain ⟨bt, a1, a2, a3⟩ := hsync i b' r1 r2 r3 r4 r6
  obtain ⟨B1, B2, B3, bt3, _, _, _, _, _, c6⟩ := synced_commits_rot k C (D.v + 1) N hC b' (D.hb i) bt _ hN a1 a2 a3 hl2 hl3 hl4
    v1 p1 v2 p2 v3 p3 hv1 hp1 hv2 hp2 hv3 hp3
  refine ⟨i, b', r1, r2, r3, r4, r6, ?_⟩
  intro j hj
  obtain ⟨_, s, _, d2, d3, _⟩ := c6 j hj
  exact ⟨s, d2, d3⟩


/-! ## after a recovery round, rotating leaders (task S12e; Proofs/SysRotateGlue.lean) -/

/-- **Recovery reaches phase A with rotating leaders** (and a silent minority): the leader `L` of view `v + 1` and the leader `c2 ≠ L`
of view `v + 2` are participants.  Hypotheses of `recovery_from_reachable_live` (`RecPreLive` with `ℓ = L`) and `SyncPreRot`; the
timeout messages are delivered in any order, then the proposals in any order `ordP` (the leader's own vote for its proposal stays in
flight).  Then: phase A at `(v + 1, b')` with collector `c2`, the votes for `b'` in flight to `c2` (the leader's included), and the
committer's walk from `b'` possible everywhere. -/
theorem recovery_reaches_synced_rot (k : Keys) (C : SysCfg) (L c2 : Nat) (hC : RotCfg C) (D : RecData) (s0 : Nat → RState)
    (σ0 : SysState) (blk : Hash → Block) (hk : KeysOK k) (hr : Reach k C σ0) (hca : CA' σ0 blk)
    (hl1 : ldr C (D.v + 1) = L) (hl2 : ldr C (D.v + 1 + 1) = c2) (hne12 : L ≠ c2) (hc2m : c2 ∈ C.honest)
    (hP : RecPreLive k C D s0 L σ0.truth) (h0 : RecStart C s0 σ0.truth σ0)
    (msgs : List (Nat × Nat)) (hm : FullOrder C msgs) (N : Nat) (hY : SyncPreRot C D s0 N)
    (ordP : List Nat) (hordP : OthersOrder C L ordP) :
    ∃ (i : Nat) (b' : Block) (bt : Nat → Nat),
      i ∈ C.honest ∧ Top C D i ∧ b'.view = D.v + 1 ∧ b'.qc = D.hq i ∧ b'.proposer = L ∧
      PhaseARot C (D.v + 1) (N + 2) b' (D.hb i) bt (proposalRoundR k C ordP (recoveryRound k C D σ0 msgs)).1 ∧
      VotesFly C (ldr C (D.v + 1 + 1)) b'.hash bt (proposalRoundR k C ordP (recoveryRound k C D σ0 msgs)).2 ∧
      ∀ j ∈ C.honest, ∃ s, (proposalRoundR k C ordP (recoveryRound k C D σ0 msgs)).1.reps.lookup j = some s ∧ WalkZ b' s :=
  HsVerif.Model.recovery_reaches_phaseA_rot k C L c2 hC D s0 σ0 blk hk hr hca hl1 hl2 hne12 hc2m hP h0 msgs hm N hY ordP hordP

/-- **Commit after recovery with rotating leaders** (and a silent minority): the leaders of the views `v + 1 … v + 5` are
participants (`v + 5` only receives votes), the leaders of `v + 1` and `v + 2` differ.  From any reachable state that satisfies
`RecPreLive` (leader `ldr C (v + 1)`), `RecStart`, `CA'`, `KeysOK`, `SyncPreRot`: timeout messages (any order), proposals (any order),
three views of the chain (any orders) — every participant has committed the block `b'` of view `v + 1` proposed after the recovery. -/
theorem commit_after_recovery_rot (k : Keys) (C : SysCfg) (hC : RotCfg C) (D : RecData) (s0 : Nat → RState)
    (σ0 : SysState) (blk : Hash → Block) (hk : KeysOK k) (hr : Reach k C σ0) (hca : CA' σ0 blk)
    (hne12 : ldr C (D.v + 1) ≠ ldr C (D.v + 1 + 1))
    (hl2 : ldr C (D.v + 1 + 1) ∈ C.honest) (hl3 : ldr C (D.v + 1 + 2) ∈ C.honest) (hl4 : ldr C (D.v + 1 + 3) ∈ C.honest)
    (hl5 : ldr C (D.v + 1 + 4) ∈ C.honest)
    (hP : RecPreLive k C D s0 (ldr C (D.v + 1)) σ0.truth) (h0 : RecStart C s0 σ0.truth σ0)
    (msgs : List (Nat × Nat)) (hm : FullOrder C msgs) (N : Nat) (hY : SyncPreRot C D s0 N)
    (ordP v1 p1 v2 p2 v3 p3 : List Nat) (hordP : OthersOrder C (ldr C (D.v + 1)) ordP)
    (hv1 : OthersOrder C (ldr C (D.v + 1 + 1)) v1) (hp1 : OthersOrder C (ldr C (D.v + 1 + 1)) p1)
    (hv2 : OthersOrder C (ldr C (D.v + 1 + 2)) v2) (hp2 : OthersOrder C (ldr C (D.v + 1 + 2)) p2)
    (hv3 : OthersOrder C (ldr C (D.v + 1 + 3)) v3) (hp3 : OthersOrder C (ldr C (D.v + 1 + 3)) p3) :
    ∃ (i : Nat) (b' : Block), i ∈ C.honest ∧ Top C D i ∧ b'.view = D.v + 1 ∧ b'.qc = D.hq i ∧ b'.proposer = ldr C (D.v + 1) ∧
      ∀ j ∈ C.honest, ∃ s,
        (chainViewRot k C v3 p3 (chainViewRot k C v2 p2 (chainViewRot k C v1 p1
          (proposalRoundR k C ordP (recoveryRound k C D σ0 msgs))))).1.reps.lookup j = some s ∧
        s.committed = b' ∧ s.committed.view = D.v + 1 ∧ (s0 j).committed.view < s.committed.view :=
  HsVerif.Model.commit_after_recovery_rot_core k C hC D s0 σ0 blk hk hr hca hne12 hl2 hl3 hl4 hl5 hP h0 msgs hm N hY ordP v1 p1 v2 p2 v3 p3 hordP hv1 hp1 hv2 hp2 hv3 hp3

/-! ## non-vacuity: n = 4, round-robin leaders, all four take part -/
section NonVacuity

def rCfg : SysCfg := { n := 4, rules := .chained, scheme := .ecdsa, agg := false, leaders := .roundRobin, honest := [1, 2, 3, 4] }

/-- all four start (replica 2 leads view 1; its proposal `P1` and its vote are lost) and time out in view 1 -/
def rRun0 : SysState × Msgs :=
  deliverAll exKeys rCfg ((syncRun exKeys rCfg 0).1, [])
    [(1, .localTimeout 1), (2, .localTimeout 1), (3, .localTimeout 1), (4, .localTimeout 1)]
/-- the RECOVERY: the timeout messages are delivered; replica 3, the leader of view 2, proposes `P2` on the genesis certificate
and sends its vote to replica 4, the leader of view 3; then the proposals reach replicas 1, 4, 2 (the vote stays in flight) -/
def rRunA : SysState × Msgs :=
  deliverAll exKeys rCfg ((syncRound exKeys rCfg rRun0).1, (syncRound exKeys rCfg rRun0).2.filter isVoteEv)
    (propsIn (syncRound exKeys rCfg rRun0).2 [1, 4, 2])

def rS (j : Nat) : RState := (rRunA.1.reps.lookup j).getD {}
def rB : Block := ((rS 3).chain.blocks.lookup "P2").getD genesisBlock
def rBt (j : Nat) : Nat := if j = 3 then 6 else if j = 1 then 7 else 9

def rAllOK : Bool :=
  rCfg.honest.all fun j =>
    match rRunA.1.reps.lookup j with
    | some s => syncOK 2 1000 rB genesisBlock s &&
        markWalk (s.chain.fuel + 1) s.chain.blocks s.lastProposed rB && decide (genesisBlock.view ≤ s.highQC.view) &&
        (j == 4 || decide (rRunA.1.truth.lookup (rBt j) = some ⟨j, blkMsg rB.hash⟩))
    | none => false

set_option maxRecDepth 100000 in
theorem rAllOK_true : rAllOK = true := by decide +kernel

theorem r_rep (j : Nat) (hj : j ∈ rCfg.honest) :
    rRunA.1.reps.lookup j = some (rS j) ∧ SyncM 2 1000 rB genesisBlock (rS j) ∧ WalkZ rB (rS j) ∧
    (j ≠ 4 → rRunA.1.truth.lookup (rBt j) = some ⟨j, blkMsg rB.hash⟩) := by
  have h := List.all_eq_true.mp rAllOK_true j hj
  unfold rS
  cases hl : rRunA.1.reps.lookup j with
  | none => rw [hl] at h; cases h
  | some s =>
    rw [hl] at h
    simp only [Bool.and_eq_true, Bool.or_eq_true, beq_iff_eq, decide_eq_true_eq] at h
    obtain ⟨⟨⟨h1, h2⟩, h3⟩, h4⟩ := h
    obtain ⟨a1, a2⟩ := sync_of_ok _ _ _ _ _ h1
    refine ⟨rfl, ⟨a1, h2, h3⟩, a2, fun hne => ?_⟩
    rcases h4 with h4 | h4
    · exact absurd h4 hne
    · exact h4

theorem rRot : RotCfg rCfg :=
  ⟨(by show Scheme.ecdsa ≠ Scheme.bls12; decide), rfl, Or.inl rfl, (by show [1, 2, 3, 4].Nodup; decide),
   (by show ∀ i ∈ [1, 2, 3, 4], 1 ≤ i ∧ i ≤ 4; decide), (by decide), (by show 2 ≤ 4; decide)⟩

theorem deliverAll_reach2 (k : Keys) (C : SysCfg) (ms : Msgs) (σ : SysState) (acc : Msgs) (h : Reach k C σ) :
    Reach k C (deliverAll k C (σ, acc) ms).1 := deliverAll_reach k C ms (σ, acc) h

theorem rRunA_reach : Reach exKeys rCfg rRunA.1 := by
  have h0 : Reach exKeys rCfg (syncRun exKeys rCfg 0).1 := syncRun_reach exKeys rCfg 0
  have h1 : Reach exKeys rCfg rRun0.1 := by
    unfold rRun0; exact deliverAll_reach' exKeys rCfg _ _ h0
  have h2 : Reach exKeys rCfg (syncRound exKeys rCfg rRun0).1 := by
    unfold syncRound; exact deliverAll_reach' exKeys rCfg _ _ h1
  unfold rRunA
  exact deliverAll_reach2 exKeys rCfg _ _ _ h2

set_option maxRecDepth 100000 in
/-- **the hypotheses of `synced_commits_rot` hold after that recovery**: phase A at `(2, P2)`; the leaders of views 2, 3, 4, 5 are
the four different replicas 3, 4, 1, 2; the collector of the votes for `P2` is replica 4, NOT the proposer 3, whose vote is in flight -/
theorem synced_commits_rot_nonvacuous :
    RotCfg rCfg ∧ Reach exKeys rCfg rRunA.1 ∧
    PhaseARot rCfg 2 1000 rB genesisBlock rBt rRunA.1 ∧ VotesFly rCfg (ldr rCfg 3) rB.hash rBt rRunA.2 ∧
    (∀ j ∈ rCfg.honest, ∃ s, rRunA.1.reps.lookup j = some s ∧ WalkZ rB s) ∧
    rB.proposer = 3 ∧ [ldr rCfg 2, ldr rCfg 3, ldr rCfg 4, ldr rCfg 5, ldr rCfg 6] = [3, 4, 1, 2, 3] := by
  refine ⟨rRot, rRunA_reach, ⟨reach_fresh exKeys rCfg rRunA.1 rRunA_reach, by decide +kernel, by decide, ?_, ?_, ?_⟩, ?_, ?_,
    by decide +kernel, by decide⟩
  · intro j hj
    obtain ⟨h1, h2, _, _⟩ := r_rep j hj
    exact ⟨rS j, h1, h2⟩
  · refine ⟨rS 4, .multi .ecdsa [⟨4, 8⟩], (r_rep 4 (by decide)).1, by decide +kernel,
      Or.inl ⟨by decide, 8, rfl, by decide +kernel⟩⟩
  · intro j hj hne
    exact (r_rep j hj).2.2.2 hne
  · intro j hj hne
    simp only [rCfg, List.mem_cons, List.not_mem_nil, or_false] at hj
    rcases hj with rfl | rfl | rfl | rfl
    · decide +kernel
    · decide +kernel
    · decide +kernel
    · exact absurd rfl hne
  · intro j hj
    obtain ⟨h1, _, h3, _⟩ := r_rep j hj
    exact ⟨rS j, h1, h3⟩

/-- three views of the chain from there, every round in a different order -/
def rFinal : SysState × Msgs :=
  chainViewRot exKeys rCfg [4, 3, 1] [1, 3, 4] (chainViewRot exKeys rCfg [2, 3, 4] [3, 4, 2]
    (chainViewRot exKeys rCfg [1, 3, 2] [2, 1, 3] rRunA))

set_option maxRecDepth 100000 in
/-- **`synced_commits_rot` applies, and the kernel evaluation agrees**: every replica has committed `P2`, the block proposed after the
recovery, in view 5; the proposers of `P2 … P5` were 3, 4, 1, 2 -/
theorem rotating_run_commits :
    (∀ j ∈ rCfg.honest, ∃ s, rFinal.1.reps.lookup j = some s ∧ s.committed = rB) ∧
    rFinal.1.reps.map (fun p => (p.1, p.2.view, p.2.committed.hash, p.2.lastProposed)) =
      [(1, 5, "P2", 4), (2, 5, "P2", 5), (3, 5, "P2", 2), (4, 5, "P2", 3)] := by
  refine ⟨?_, by decide +kernel⟩
  unfold rFinal
  obtain ⟨hC, _, hA, hfly, hwalk, _⟩ := synced_commits_rot_nonvacuous
  have ho : ∀ (c : Nat) (l : List Nat), c ∈ [1, 2, 3, 4] → l.Nodup → (∀ j ∈ l, j ∈ [1, 2, 3, 4] ∧ j ≠ c) →
      (∀ j ∈ [1, 2, 3, 4], j ≠ c → j ∈ l) → OthersOrder rCfg c l :=
    fun c l _ h1 h2 h3 => ⟨h1, h2, h3⟩
  obtain ⟨B1, B2, B3, bt3, _, _, _, _, _, c6⟩ := synced_commits_rot exKeys rCfg 2 1000 hC rB genesisBlock rBt rRunA (by decide) hA hfly hwalk
    (by decide) (by decide) (by decide)
    [1, 3, 2] [2, 1, 3] [2, 3, 4] [3, 4, 2] [4, 3, 1] [1, 3, 4]
    (ho 4 _ (by decide) (by decide) (by decide) (by decide)) (ho 4 _ (by decide) (by decide) (by decide) (by decide))
    (ho 1 _ (by decide) (by decide) (by decide) (by decide)) (ho 1 _ (by decide) (by decide) (by decide) (by decide))
    (ho 2 _ (by decide) (by decide) (by decide) (by decide)) (ho 2 _ (by decide) (by decide) (by decide) (by decide))
  intro j hj
  obtain ⟨_, s, _, d2, d3, _⟩ := c6 j hj
  exact ⟨s, d2, d3⟩

end NonVacuity

/-! ## non-vacuity of `commit_after_recovery_rot`: round-robin, four views of progress, then a recovery -/
section NonVacuityRecovery

/-- seven rounds of the fault-free round-robin run (`P1 … P4` proposed by replicas 2, 3, 4, 1; `P1 … P3` certified; everybody in view 4
with lock `P2`, committed `P1`), the votes for `P4` are lost, and all four time out in view 4 -/
def uRun : SysState × Msgs :=
  deliverAll exKeys rCfg ((syncRun exKeys rCfg 7).1, [])
    [(1, .localTimeout 4), (2, .localTimeout 4), (3, .localTimeout 4), (4, .localTimeout 4)]

def uS0 (j : Nat) : RState := (uRun.1.reps.lookup j).getD {}
def uBlk (h : Hash) : Block := ((uS0 1).chain.blocks.lookup h).getD genesisBlock
def uQC3 : QC := ⟨some (.multi .ecdsa [⟨1, 10⟩, ⟨4, 9⟩, ⟨2, 11⟩]), 3, "P3"⟩
def uData : RecData :=
  { v := 4, hq := fun _ => uQC3, hb := fun _ => uBlk "P3", htc := fun _ => ⟨none, 0⟩, bt := fun i => i + 16 }

/-- `RecPreLive.init`, `.parents`, `.mark` (for EVERY replica) and `SyncPreRot` for replica `j`, as one boolean -/
def uOK (D : RecData) (s : RState) (T : List (Nat × Atom)) (j : Nat) : Bool :=
  decide (s.view = D.v) && decide (s.queue.length = 0) && decide (s.timeouts = [D.tmsg rCfg j]) &&
  decide (s.highQC = D.hq j) && decide (s.waitingVC.length = 0) && decide (s.lastVoted ≤ D.v) &&
  rCfg.honest.all (fun i =>
    verifyQC (env exKeys (rCfg.rcfg j) { s with truth := T }) (D.hq i) &&
    decide (s.chain.blocks.lookup (D.hq i).hash = some (D.hb i)) &&
    decide ((D.hq i).view = (D.hb i).view) && decide ((D.hq i).view < D.v) &&
    verifyTC (env exKeys (rCfg.rcfg j) { s with truth := T }) (D.htc i) && decide ((D.htc i).view < D.v) &&
    acceptedB (fun b => T.lookup b) (rCfg.rcfg j).cfg (D.tmsg rCfg i) &&
    (match s.chain.blocks.lookup (D.hb i).qc.hash with | some P => decide (P.view ≤ D.v) | none => false) &&
    cmWalk (s.chain.blocks.length + 2) s.chain.blocks s.committed.view (D.hb i) &&
    markWalk (s.chain.fuel + 1) s.chain.blocks s.lastProposed (D.hb i)) &&
  decide (s.chain.fetchable.length = 0) && decide (s.waitingProp.length = 0) && namesOK D.v s &&
  decide (s.committed.view ≤ D.v) && decide (2 * s.chain.blocks.length + (D.v + 1) ≤ 1000)

def uAllOK : Bool :=
  rCfg.honest.all fun j =>
    match uRun.1.reps.lookup j with
    | some s => uOK uData s uRun.1.truth j
    | none => false

set_option maxRecDepth 100000 in
theorem uAllOK_true : uAllOK = true := by decide +kernel

theorem u_rep (j : Nat) (hj : j ∈ rCfg.honest) :
    uRun.1.reps.lookup j = some (uS0 j) ∧ uOK uData (uS0 j) uRun.1.truth j = true := by
  have h := List.all_eq_true.mp uAllOK_true j hj
  unfold uS0
  cases hl : uRun.1.reps.lookup j with
  | none => rw [hl] at h; cases h
  | some s => rw [hl] at h; exact ⟨rfl, h⟩

theorem u_of_ok (D : RecData) (s : RState) (T : List (Nat × Atom)) (j : Nat) (h : uOK D s T j = true) :
    (RColl rCfg D s j [] s ∧ s.waitingVC = [] ∧ s.lastVoted ≤ D.v ∧ KnowsAll exKeys rCfg D j { s with truth := T }) ∧
    (∀ i ∈ rCfg.honest, (∃ P, s.chain.blocks.lookup (D.hb i).qc.hash = some P ∧ P.view ≤ D.v) ∧
      cmWalk (s.chain.blocks.length + 2) s.chain.blocks s.committed.view (D.hb i) = true ∧
      markWalk (s.chain.fuel + 1) s.chain.blocks s.lastProposed (D.hb i) = true) ∧
    s.chain.fetchable = [] ∧ s.waitingProp = [] ∧
    (∀ u, D.v < u → s.chain.blocks.lookup (pname u) = none ∧ s.votes.lookup (pname u) = none) ∧
    s.committed.view ≤ D.v ∧ 2 * s.chain.blocks.length + (D.v + 1) ≤ 1000 := by
  simp only [uOK, Bool.and_eq_true, decide_eq_true_eq, List.all_eq_true] at h
  obtain ⟨⟨⟨⟨⟨⟨⟨⟨⟨⟨⟨h1, h2⟩, h3⟩, h4⟩, h5⟩, h6⟩, h7⟩, g1⟩, g2⟩, g3⟩, g4⟩, g5⟩ := h
  refine ⟨⟨⟨Frame.refl _, h1, List.eq_nil_of_length_eq_zero h2, h3, h4⟩, List.eq_nil_of_length_eq_zero h5, h6, ?_, ?_, ?_⟩,
    ?_, List.eq_nil_of_length_eq_zero g1, List.eq_nil_of_length_eq_zero g2, names_of_ok D.v s g3, g4, g5⟩
  · intro i hi
    obtain ⟨⟨⟨⟨⟨⟨⟨⟨⟨a1, a2⟩, a3⟩, a4⟩, _⟩, _⟩, _⟩, _⟩, _⟩, _⟩ := h7 i hi
    exact ⟨a1, a2, a3, a4⟩
  · intro i hi
    obtain ⟨⟨⟨⟨⟨⟨⟨⟨⟨_, _⟩, _⟩, _⟩, a5⟩, a6⟩, _⟩, _⟩, _⟩, _⟩ := h7 i hi
    exact ⟨a5, a6⟩
  · intro i hi
    obtain ⟨⟨⟨⟨⟨⟨⟨⟨⟨_, _⟩, _⟩, _⟩, _⟩, _⟩, a7⟩, _⟩, _⟩, _⟩ := h7 i hi
    exact accepted_of_acceptedB _ _ _ a7
  · intro i hi
    obtain ⟨⟨⟨_, a8⟩, a9⟩, a10⟩ := h7 i hi
    refine ⟨?_, a9, a10⟩
    cases hl : s.chain.blocks.lookup (D.hb i).qc.hash with
    | none => rw [hl] at a8; cases a8
    | some P => rw [hl] at a8; exact ⟨P, rfl, by simpa using a8⟩

theorem uRun_reach : Reach exKeys rCfg uRun.1 := by
  unfold uRun; exact deliverAll_reach2 exKeys rCfg _ _ _ (syncRun_reach exKeys rCfg 7)

set_option maxRecDepth 100000 in
/-- **all hypotheses of `commit_after_recovery_rot` hold of that run**: the leaders of views 5 … 9 are replicas 2, 3, 4, 1, 2 -/
theorem commit_after_recovery_rot_nonvacuous :
    RotCfg rCfg ∧ KeysOK exKeys ∧ Reach exKeys rCfg uRun.1 ∧ CA' uRun.1 uBlk ∧
    [ldr rCfg 5, ldr rCfg 6, ldr rCfg 7, ldr rCfg 8, ldr rCfg 9] = [2, 3, 4, 1, 2] ∧
    RecPreLive exKeys rCfg uData uS0 2 uRun.1.truth ∧ RecStart rCfg uS0 uRun.1.truth uRun.1 ∧
    uRun.2 = (senderMajor rCfg).map (fun p => (p.1, Ev.timeout (uData.tmsg rCfg p.2))) ∧
    SyncPreRot rCfg uData uS0 1000 ∧ (∀ j ∈ rCfg.honest, (uS0 j).lock.view = 2 ∧ (uS0 j).committed.view = 1) := by
  have hl5 : ldr rCfg (uData.v + 1) = 2 := by decide
  have hreach := uRun_reach
  have hrep := fun j hj => u_of_ok uData _ _ j (u_rep j hj).2
  refine ⟨rRot, tmoMsgKey_ne_blkMsg, hreach, ca'_of_ca'Check _ _ (by decide +kernel), by decide,
    ⟨rfl, by decide, by decide, by decide, by decide, by decide, by decide, by unfold FewFaulty; decide, by decide, ?_, by decide,
      ?_, ?_, ?_⟩,
    recStart_of_reach exKeys rCfg uS0 uRun.1 hreach (by decide +kernel) (fun j hj => (u_rep j hj).1),
    by decide +kernel,
    ⟨⟨fun j hj => (hrep j hj).2.2.1, fun j hj => (hrep j hj).2.2.2.1, fun j hj => (hrep j hj).2.2.2.2.1,
      fun j hj i hi _ => ((hrep j hj).2.1 i hi).1, fun j hj => (hrep j hj).2.2.2.2.2.1, fun j hj => (hrep j hj).2.2.2.2.2.2,
      fun j hj i hi _ => ((hrep j hj).2.1 i hi).2.1, by decide⟩, fun j hj i hi _ => ((hrep j hj).2.1 i hi).2.2⟩,
    by decide +kernel⟩
  · intro j _; exact hl5
  · intro j hj; exact (hrep j hj).1
  · intro i hi
    exact ((hrep 2 (by decide)).2.1 i hi).2.2
  · intro j hj i hi _
    obtain ⟨P, hP, _⟩ := ((hrep j hj).2.1 i hi).1
    exact Or.inr ⟨P, hP⟩

/-- the run after the recovery: timeout messages (order of `syncRound`), proposals of `P5` (proposer 2) to 1, 3, 4, three views -/
def uFinal : SysState × Msgs :=
  chainViewRot exKeys rCfg [2, 3, 4] [3, 4, 2] (chainViewRot exKeys rCfg [1, 2, 3] [3, 2, 1] (chainViewRot exKeys rCfg [1, 2, 4] [4, 1, 2]
    (proposalRoundR exKeys rCfg [1, 3, 4] (recoveryRound exKeys rCfg uData uRun.1 (senderMajor rCfg)))))

set_option maxRecDepth 100000 in
/-- **`commit_after_recovery_rot` applies to the run and the kernel evaluation agrees**: all four commit `P5`, the block proposed after
the recovery (they had committed `P1`); the blocks `P5 … P8` were proposed by replicas 2, 3, 4, 1 -/
theorem rotating_recovery_commits :
    (∃ b' : Block, b'.view = 5 ∧ ∀ j ∈ rCfg.honest, ∃ s, uFinal.1.reps.lookup j = some s ∧ s.committed = b' ∧
      (uS0 j).committed.view < s.committed.view) ∧
    uFinal.1.reps.map (fun p => (p.1, p.2.view, p.2.committed.hash, p.2.lastProposed)) =
      [(1, 8, "P5", 8), (2, 8, "P5", 5), (3, 8, "P5", 6), (4, 8, "P5", 7)] := by
  refine ⟨?_, by decide +kernel⟩
  unfold uFinal
  obtain ⟨hC, hk, hr, hca, _, hP, h0, _, hY, _⟩ := commit_after_recovery_rot_nonvacuous
  have ho : ∀ (c : Nat) (l : List Nat), l.Nodup → (∀ j ∈ l, j ∈ [1, 2, 3, 4] ∧ j ≠ c) →
      (∀ j ∈ [1, 2, 3, 4], j ≠ c → j ∈ l) → OthersOrder rCfg c l :=
    fun c l h1 h2 h3 => ⟨h1, h2, h3⟩
  obtain ⟨i, b', _, _, r3, _, _, r6⟩ := commit_after_recovery_rot exKeys rCfg hC uData uS0 uRun.1 uBlk hk hr hca
    (by decide) (by decide) (by decide) (by decide) (by decide)
    (by rw [show ldr rCfg (uData.v + 1) = 2 from by decide]; exact hP) h0
    (senderMajor rCfg) (senderMajor_full rCfg (by decide)) 1000 hY
    [1, 3, 4] [1, 2, 4] [4, 1, 2] [1, 2, 3] [3, 2, 1] [2, 3, 4] [3, 4, 2]
    (ho 2 _ (by decide) (by decide) (by decide))
    (ho 3 _ (by decide) (by decide) (by decide)) (ho 3 _ (by decide) (by decide) (by decide))
    (ho 4 _ (by decide) (by decide) (by decide)) (ho 4 _ (by decide) (by decide) (by decide))
    (ho 1 _ (by decide) (by decide) (by decide)) (ho 1 _ (by decide) (by decide) (by decide))
  refine ⟨b', r3, ?_⟩
  intro j hj
  obtain ⟨s, e1, e2, _, e4⟩ := r6 j hj
  exact ⟨s, e1, e2, e4⟩

end NonVacuityRecovery


/-! ## the last leader need not take part (task S12f; Proofs/SysRotateLast.lean) -/

/-- **From a synchronised view to a commit with ROTATING leaders** (and a silent minority): the leaders of the views `w + 1 … w + 4`
are participants (`∈ C.honest`) — possibly four different replicas.  PRIMED VERSION: the leader of view `w + 4`, only the destination of
the last votes, need NOT be a participant.  In phase A at `(w, B)` (collector: the leader of `w + 1`) with
the votes in flight and the committer's walk from `B` possible at every participant, run three views of the chain (votes, then
proposals, each in any order; the orders range over the participants other than the collector of that view).  Then EVERY
participant has committed `B`. -/
theorem synced_commits_rot' (k : Keys) (C : SysCfg) (w N : Nat) (hC : RotCfg C) (B P : Block) (bt : Nat → Nat)
    (x : SysState × Msgs) (hN : N + 18 ≤ 99999) (hA : PhaseARot C w N B P bt x.1)
    (hfly : VotesFly C (ldr C (w + 1)) B.hash bt x.2)
    (hwalk : ∀ j ∈ C.honest, ∃ s, x.1.reps.lookup j = some s ∧ WalkZ B s)
    (hl2 : ldr C (w + 2) ∈ C.honest) (hl3 : ldr C (w + 3) ∈ C.honest)
    (v1 p1 v2 p2 v3 p3 : List Nat)
    (hv1 : OthersOrder C (ldr C (w + 1)) v1) (hp1 : OthersOrder C (ldr C (w + 1)) p1)
    (hv2 : OthersOrder C (ldr C (w + 2)) v2) (hp2 : OthersOrder C (ldr C (w + 2)) p2)
    (hv3 : OthersOrder C (ldr C (w + 3)) v3) (hp3 : OthersOrder C (ldr C (w + 3)) p3) :
    ∃ (B1 B2 B3 : Block),
      Link B1 B ∧ Link B2 B1 ∧ Link B3 B2 ∧
      ∀ j ∈ C.honest, ∃ s0 s, x.1.reps.lookup j = some s0 ∧
        (chainViewRot k C v3 p3 (chainViewRot k C v2 p2 (chainViewRot k C v1 p1 x))).1.reps.lookup j = some s ∧
        s.committed = B ∧ s0.committed.view < s.committed.view :=
  HsVerif.Model.synced_commits_rot' k C w N hC B P bt x hN hA hfly hwalk hl2 hl3 v1 p1 v2 p2 v3 p3 hv1 hp1 hv2 hp2 hv3 hp3

/-- **Commit after recovery with rotating leaders** (and a silent minority), the last leader free: the leaders of the views
`v + 1 … v + 4` are participants (`v + 1` via `RecPreLive.lmem`), the leader of `v + 5` — only the destination of the last votes —
need NOT be one; the leaders of `v + 1` and `v + 2` differ.  From any reachable state that satisfies `RecPreLive` (leader
`ldr C (v + 1)`), `RecStart`, `CA'`, `KeysOK`, `SyncPreRot`: timeout messages (any order), proposals (any order), three views of the
chain (any orders) — every participant has committed the block `b'` of view `v + 1` proposed after the recovery. -/
theorem commit_after_recovery_rot' (k : Keys) (C : SysCfg) (hC : RotCfg C) (D : RecData) (s0 : Nat → RState)
    (σ0 : SysState) (blk : Hash → Block) (hk : KeysOK k) (hr : Reach k C σ0) (hca : CA' σ0 blk)
    (hne12 : ldr C (D.v + 1) ≠ ldr C (D.v + 1 + 1))
    (hl2 : ldr C (D.v + 1 + 1) ∈ C.honest) (hl3 : ldr C (D.v + 1 + 2) ∈ C.honest) (hl4 : ldr C (D.v + 1 + 3) ∈ C.honest)
    (hP : RecPreLive k C D s0 (ldr C (D.v + 1)) σ0.truth) (h0 : RecStart C s0 σ0.truth σ0)
    (msgs : List (Nat × Nat)) (hm : FullOrder C msgs) (N : Nat) (hY : SyncPreRot C D s0 N)
    (ordP v1 p1 v2 p2 v3 p3 : List Nat) (hordP : OthersOrder C (ldr C (D.v + 1)) ordP)
    (hv1 : OthersOrder C (ldr C (D.v + 1 + 1)) v1) (hp1 : OthersOrder C (ldr C (D.v + 1 + 1)) p1)
    (hv2 : OthersOrder C (ldr C (D.v + 1 + 2)) v2) (hp2 : OthersOrder C (ldr C (D.v + 1 + 2)) p2)
    (hv3 : OthersOrder C (ldr C (D.v + 1 + 3)) v3) (hp3 : OthersOrder C (ldr C (D.v + 1 + 3)) p3) :
    ∃ (i : Nat) (b' : Block), i ∈ C.honest ∧ Top C D i ∧ b'.view = D.v + 1 ∧ b'.qc = D.hq i ∧ b'.proposer = ldr C (D.v + 1) ∧
      ∀ j ∈ C.honest, ∃ s,
        (chainViewRot k C v3 p3 (chainViewRot k C v2 p2 (chainViewRot k C v1 p1
          (proposalRoundR k C ordP (recoveryRound k C D σ0 msgs))))).1.reps.lookup j = some s ∧
        s.committed = b' ∧ s.committed.view = D.v + 1 ∧ (s0 j).committed.view < s.committed.view :=
  HsVerif.Model.commit_after_recovery_rot_core' k C hC D s0 σ0 blk hk hr hca hne12 hl2 hl3 hl4 hP h0 msgs hm N hY ordP v1 p1 v2 p2 v3 p3 hordP hv1 hp1 hv2 hp2 hv3 hp3

/-! ## rotation with a SILENT id (task S12f): n = 5, round-robin, id 5 never takes part -/
section NonVacuitySilent

/-- five ids, round-robin leaders; replicas 1 … 4 run the model (quorum 4), id 5 is silent — it would lead views 4, 9, 14 … -/
def sCfg : SysCfg := { n := 5, rules := .chained, scheme := .ecdsa, agg := false, leaders := .roundRobin, honest := [1, 2, 3, 4] }

/-- six rounds of the synchronous run: `P1`, `P2`, `P3` proposed by replicas 2, 3, 4; the votes for `P3` go to id 5, the leader of view 4,
which is silent: nothing happens any more; everybody times out in view 3, the timeout messages take everybody to view 4 (nobody
proposes), and everybody times out in view 4 -/
def sRun : SysState × Msgs :=
  deliverAll exKeys sCfg
    ((syncRound exKeys sCfg (deliverAll exKeys sCfg ((syncRun exKeys sCfg 6).1, [])
      [(1, .localTimeout 3), (2, .localTimeout 3), (3, .localTimeout 3), (4, .localTimeout 3)])).1, [])
    [(1, .localTimeout 4), (2, .localTimeout 4), (3, .localTimeout 4), (4, .localTimeout 4)]

def sS0 (j : Nat) : RState := (sRun.1.reps.lookup j).getD {}
def sBlk (h : Hash) : Block := ((sS0 1).chain.blocks.lookup h).getD genesisBlock
def sQC2 : QC := ⟨some (.multi .ecdsa [⟨4, 8⟩, ⟨3, 5⟩, ⟨1, 6⟩, ⟨2, 7⟩]), 2, "P2"⟩
def sData : RecData :=
  { v := 4, hq := fun _ => sQC2, hb := fun _ => sBlk "P2"
    htc := fun i =>
      if i = 1 then ⟨some (.multi .ecdsa [⟨1, 13⟩, ⟨2, 14⟩, ⟨3, 15⟩, ⟨4, 16⟩]), 3⟩
      else if i = 2 then ⟨some (.multi .ecdsa [⟨2, 14⟩, ⟨1, 13⟩, ⟨3, 15⟩, ⟨4, 16⟩]), 3⟩
      else if i = 3 then ⟨some (.multi .ecdsa [⟨3, 15⟩, ⟨1, 13⟩, ⟨2, 14⟩, ⟨4, 16⟩]), 3⟩
      else ⟨some (.multi .ecdsa [⟨4, 16⟩, ⟨1, 13⟩, ⟨2, 14⟩, ⟨3, 15⟩]), 3⟩
    bt := fun i => i + 16 }

/-- `uOK` for the configuration `sCfg` -/
def sOK (D : RecData) (s : RState) (T : List (Nat × Atom)) (j : Nat) : Bool :=
  decide (s.view = D.v) && decide (s.queue.length = 0) && decide (s.timeouts = [D.tmsg sCfg j]) &&
  decide (s.highQC = D.hq j) && decide (s.waitingVC.length = 0) && decide (s.lastVoted ≤ D.v) &&
  sCfg.honest.all (fun i =>
    verifyQC (env exKeys (sCfg.rcfg j) { s with truth := T }) (D.hq i) &&
    decide (s.chain.blocks.lookup (D.hq i).hash = some (D.hb i)) &&
    decide ((D.hq i).view = (D.hb i).view) && decide ((D.hq i).view < D.v) &&
    verifyTC (env exKeys (sCfg.rcfg j) { s with truth := T }) (D.htc i) && decide ((D.htc i).view < D.v) &&
    acceptedB (fun b => T.lookup b) (sCfg.rcfg j).cfg (D.tmsg sCfg i) &&
    (match s.chain.blocks.lookup (D.hb i).qc.hash with | some P => decide (P.view ≤ D.v) | none => false) &&
    cmWalk (s.chain.blocks.length + 2) s.chain.blocks s.committed.view (D.hb i) &&
    markWalk (s.chain.fuel + 1) s.chain.blocks s.lastProposed (D.hb i)) &&
  decide (s.chain.fetchable.length = 0) && decide (s.waitingProp.length = 0) && namesOK D.v s &&
  decide (s.committed.view ≤ D.v) && decide (2 * s.chain.blocks.length + (D.v + 1) ≤ 1000)

def sAllOK : Bool :=
  sCfg.honest.all fun j =>
    match sRun.1.reps.lookup j with
    | some s => sOK sData s sRun.1.truth j
    | none => false

set_option maxRecDepth 100000 in
theorem sAllOK_true : sAllOK = true := by decide +kernel

theorem s_rep (j : Nat) (hj : j ∈ sCfg.honest) :
    sRun.1.reps.lookup j = some (sS0 j) ∧ sOK sData (sS0 j) sRun.1.truth j = true := by
  have h := List.all_eq_true.mp sAllOK_true j hj
  unfold sS0
  cases hl : sRun.1.reps.lookup j with
  | none => rw [hl] at h; cases h
  | some s => rw [hl] at h; exact ⟨rfl, h⟩

theorem s_of_ok (D : RecData) (s : RState) (T : List (Nat × Atom)) (j : Nat) (h : sOK D s T j = true) :
    (RColl sCfg D s j [] s ∧ s.waitingVC = [] ∧ s.lastVoted ≤ D.v ∧ KnowsAll exKeys sCfg D j { s with truth := T }) ∧
    (∀ i ∈ sCfg.honest, (∃ P, s.chain.blocks.lookup (D.hb i).qc.hash = some P ∧ P.view ≤ D.v) ∧
      cmWalk (s.chain.blocks.length + 2) s.chain.blocks s.committed.view (D.hb i) = true ∧
      markWalk (s.chain.fuel + 1) s.chain.blocks s.lastProposed (D.hb i) = true) ∧
    s.chain.fetchable = [] ∧ s.waitingProp = [] ∧
    (∀ u, D.v < u → s.chain.blocks.lookup (pname u) = none ∧ s.votes.lookup (pname u) = none) ∧
    s.committed.view ≤ D.v ∧ 2 * s.chain.blocks.length + (D.v + 1) ≤ 1000 := by
  simp only [sOK, Bool.and_eq_true, decide_eq_true_eq, List.all_eq_true] at h
  obtain ⟨⟨⟨⟨⟨⟨⟨⟨⟨⟨⟨h1, h2⟩, h3⟩, h4⟩, h5⟩, h6⟩, h7⟩, g1⟩, g2⟩, g3⟩, g4⟩, g5⟩ := h
  refine ⟨⟨⟨Frame.refl _, h1, List.eq_nil_of_length_eq_zero h2, h3, h4⟩, List.eq_nil_of_length_eq_zero h5, h6, ?_, ?_, ?_⟩,
    ?_, List.eq_nil_of_length_eq_zero g1, List.eq_nil_of_length_eq_zero g2, names_of_ok D.v s g3, g4, g5⟩
  · intro i hi
    obtain ⟨⟨⟨⟨⟨⟨⟨⟨⟨a1, a2⟩, a3⟩, a4⟩, _⟩, _⟩, _⟩, _⟩, _⟩, _⟩ := h7 i hi
    exact ⟨a1, a2, a3, a4⟩
  · intro i hi
    obtain ⟨⟨⟨⟨⟨⟨⟨⟨⟨_, _⟩, _⟩, _⟩, a5⟩, a6⟩, _⟩, _⟩, _⟩, _⟩ := h7 i hi
    exact ⟨a5, a6⟩
  · intro i hi
    obtain ⟨⟨⟨⟨⟨⟨⟨⟨⟨_, _⟩, _⟩, _⟩, _⟩, _⟩, a7⟩, _⟩, _⟩, _⟩ := h7 i hi
    exact accepted_of_acceptedB _ _ _ a7
  · intro i hi
    obtain ⟨⟨⟨_, a8⟩, a9⟩, a10⟩ := h7 i hi
    refine ⟨?_, a9, a10⟩
    cases hl : s.chain.blocks.lookup (D.hb i).qc.hash with
    | none => rw [hl] at a8; cases a8
    | some P => rw [hl] at a8; exact ⟨P, rfl, by simpa using a8⟩

theorem sRun_reach : Reach exKeys sCfg sRun.1 := by
  have h1 : Reach exKeys sCfg (deliverAll exKeys sCfg ((syncRun exKeys sCfg 6).1, [])
      [(1, .localTimeout 3), (2, .localTimeout 3), (3, .localTimeout 3), (4, .localTimeout 3)]).1 :=
    deliverAll_reach2 exKeys sCfg _ _ _ (syncRun_reach exKeys sCfg 6)
  have h2 : Reach exKeys sCfg (syncRound exKeys sCfg (deliverAll exKeys sCfg ((syncRun exKeys sCfg 6).1, [])
      [(1, .localTimeout 3), (2, .localTimeout 3), (3, .localTimeout 3), (4, .localTimeout 3)])).1 := by
    unfold syncRound; exact deliverAll_reach2 exKeys sCfg _ _ _ h1
  unfold sRun; exact deliverAll_reach2 exKeys sCfg _ _ _ h2

theorem sRot : RotCfg sCfg :=
  ⟨(by show Scheme.ecdsa ≠ Scheme.bls12; decide), rfl, Or.inl rfl, (by show [1, 2, 3, 4].Nodup; decide),
   (by show ∀ i ∈ [1, 2, 3, 4], 1 ≤ i ∧ i ≤ 5; decide), (by decide), (by show 2 ≤ 5; decide)⟩

set_option maxRecDepth 100000 in
/-- **all hypotheses of `commit_after_recovery_rot'` hold of that run**: id 5 is not a participant (`FewFaulty`: one of five);
the leaders of views 5 … 8 are the participants 1, 2, 3, 4; the leader of view 9 — only a vote destination — is the silent id 5 -/
theorem commit_after_recovery_rot'_nonvacuous :
    RotCfg sCfg ∧ 5 ∉ sCfg.honest ∧ FewFaulty sCfg ∧ KeysOK exKeys ∧ Reach exKeys sCfg sRun.1 ∧ CA' sRun.1 sBlk ∧
    [ldr sCfg 4, ldr sCfg 5, ldr sCfg 6, ldr sCfg 7, ldr sCfg 8, ldr sCfg 9] = [5, 1, 2, 3, 4, 5] ∧
    RecPreLive exKeys sCfg sData sS0 1 sRun.1.truth ∧ RecStart sCfg sS0 sRun.1.truth sRun.1 ∧
    sRun.2 = (senderMajor sCfg).map (fun p => (p.1, Ev.timeout (sData.tmsg sCfg p.2))) ∧
    SyncPreRot sCfg sData sS0 1000 := by
  have hl5 : ldr sCfg (sData.v + 1) = 1 := by decide
  have hreach := sRun_reach
  have hrep := fun j hj => s_of_ok sData _ _ j (s_rep j hj).2
  refine ⟨sRot, by decide, by unfold FewFaulty; decide, tmoMsgKey_ne_blkMsg, hreach, ca'_of_ca'Check _ _ (by decide +kernel), by decide,
    ⟨rfl, by decide, by decide, by decide, by decide, by decide, by decide, by unfold FewFaulty; decide, by decide, ?_, by decide,
      ?_, ?_, ?_⟩,
    recStart_of_reach exKeys sCfg sS0 sRun.1 hreach (by decide +kernel) (fun j hj => (s_rep j hj).1),
    by decide +kernel,
    ⟨⟨fun j hj => (hrep j hj).2.2.1, fun j hj => (hrep j hj).2.2.2.1, fun j hj => (hrep j hj).2.2.2.2.1,
      fun j hj i hi _ => ((hrep j hj).2.1 i hi).1, fun j hj => (hrep j hj).2.2.2.2.2.1, fun j hj => (hrep j hj).2.2.2.2.2.2,
      fun j hj i hi _ => ((hrep j hj).2.1 i hi).2.1, by decide⟩, fun j hj i hi _ => ((hrep j hj).2.1 i hi).2.2⟩⟩
  · intro j _; exact hl5
  · intro j hj; exact (hrep j hj).1
  · intro i hi
    exact ((hrep 1 (by decide)).2.1 i hi).2.2
  · intro j hj i hi _
    obtain ⟨P, hP, _⟩ := ((hrep j hj).2.1 i hi).1
    exact Or.inr ⟨P, hP⟩

/-- the run after the recovery: timeout messages, proposals of `P5` (proposer 1), three views (proposers 2, 3, 4); the last votes go to id 5 -/
def sFinal : SysState × Msgs :=
  chainViewRot exKeys sCfg [1, 2, 3] [3, 2, 1] (chainViewRot exKeys sCfg [4, 1, 2] [1, 2, 4] (chainViewRot exKeys sCfg [3, 1, 4] [4, 3, 1]
    (proposalRoundR exKeys sCfg [2, 3, 4] (recoveryRound exKeys sCfg sData sRun.1 (senderMajor sCfg)))))

set_option maxRecDepth 100000 in
/-- **rotation with a silent id**: `commit_after_recovery_rot'` applies and the kernel evaluation agrees — the four participants
commit `P5`, the block proposed after the recovery (nothing was committed before), although id 5 led view 4 and leads view 9 -/
theorem rotating_silent_commits :
    (∃ b' : Block, b'.view = 5 ∧ ∀ j ∈ sCfg.honest, ∃ s, sFinal.1.reps.lookup j = some s ∧ s.committed = b' ∧
      (sS0 j).committed.view < s.committed.view) ∧
    sFinal.1.reps.map (fun p => (p.1, p.2.view, p.2.committed.hash, p.2.lastProposed)) =
      [(1, 8, "P5", 5), (2, 8, "P5", 6), (3, 8, "P5", 7), (4, 8, "P5", 8)] := by
  refine ⟨?_, by decide +kernel⟩
  unfold sFinal
  obtain ⟨hC, _, _, hk, hr, hca, _, hP, h0, _, hY⟩ := commit_after_recovery_rot'_nonvacuous
  have ho : ∀ (c : Nat) (l : List Nat), l.Nodup → (∀ j ∈ l, j ∈ [1, 2, 3, 4] ∧ j ≠ c) →
      (∀ j ∈ [1, 2, 3, 4], j ≠ c → j ∈ l) → OthersOrder sCfg c l :=
    fun c l h1 h2 h3 => ⟨h1, h2, h3⟩
  obtain ⟨i, b', _, _, r3, _, _, r6⟩ := commit_after_recovery_rot' exKeys sCfg hC sData sS0 sRun.1 sBlk hk hr hca
    (by decide) (by decide) (by decide) (by decide)
    (by rw [show ldr sCfg (sData.v + 1) = 1 from by decide]; exact hP) h0
    (senderMajor sCfg) (senderMajor_full sCfg (by decide)) 1000 hY
    [2, 3, 4] [3, 1, 4] [4, 3, 1] [4, 1, 2] [1, 2, 4] [1, 2, 3] [3, 2, 1]
    (ho 1 _ (by decide) (by decide) (by decide))
    (ho 2 _ (by decide) (by decide) (by decide)) (ho 2 _ (by decide) (by decide) (by decide))
    (ho 3 _ (by decide) (by decide) (by decide)) (ho 3 _ (by decide) (by decide) (by decide))
    (ho 4 _ (by decide) (by decide) (by decide)) (ho 4 _ (by decide) (by decide) (by decide))
  refine ⟨b', r3, ?_⟩
  intro j hj
  obtain ⟨s, e1, e2, _, e4⟩ := r6 j hj
  exact ⟨s, e1, e2, e4⟩

end NonVacuitySilent

end HsVerif.Props.C05Rotate
