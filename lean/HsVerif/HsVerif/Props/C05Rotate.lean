import HsVerif.Proofs.SysRotateChain
import HsVerif.Props.C05Quorum
/-! C05, task S12d — ROTATING LEADERS (with the silent-minority setting of S12c: `RotCfg C` — the participants `C.honest` are at
least a quorum; nothing is assumed about who leads which view except, per theorem, that the leaders of the views in question are
participants).  `ldr C u` is the leader of view `u`.  Proofs: Proofs/SysRotate.lean (replica level), Proofs/SysRotateChain.lean.

What changes against a fixed leader, and where it is proved:
* the votes for the block `B` of view `w` go to `ldr C (w + 1)`, the COLLECTOR, which need not be the proposer: `PhaseARot`;
* a replica votes to the next leader and reports its new view to the proposer: `replica_votes_to_next_leader`;
* the next collector counts its own vote when the proposal reaches it: `next_collector_counts_own_vote`;
* a collector that is not the next collector SENDS its own vote for its proposal, together with the proposals:
  `collector_proposes_and_sends_own_vote`; that vote stays in flight during the proposal round (`chainViewRot`) and is delivered
  with the other votes — AFTER the proposal has reached the next collector (an order restriction of the rounds; in the model a
  vote that arrives before its proposal is deferred, not dropped: `collectVote`'s `waitingProp`, see `C05Live.lastVoted_counterexample`);
* every participant may lead later: the `markWalk` hypothesis (`SyncM.mark`) is carried by all of them (`mark_step`).
`one_view_rot`, `synced_commits_rot`: same conclusions as the `_live` theorems.  NOT done: the link from the recovery round
(`recovery_reaches_synced_rot`, `commit_after_recovery_rot`) — see `commit_after_recovery_rot_partial` and the report.  The fixed-leader
theorems are NOT instances of these: `PhaseARot` asks `markWalk` and the high-QC bound of EVERY participant (any may lead), which the
fixed-leader `PhaseA` asks of the leader only; conversely `HappyLive.toRot` / `HappyLive.ldr` turn a fixed-leader configuration into
a rotating one.  Nothing was found false with rotating leaders.
Non-vacuity: `synced_commits_rot_nonvacuous`, `rotating_run_commits` (n = 4, round-robin, a recovery in view 1; views 2–5 led by 3, 4, 1, 2). -/
set_option linter.unusedVariables false
namespace HsVerif.Props.C05Rotate
open HsVerif.Model HsVerif.Proofs HsVerif.Props.C01Sys HsVerif.Props.C01SysWF HsVerif.Props.C03
open HsVerif.SysSafety HsVerif.Props.C05Live HsVerif.Props.C05Cover HsVerif.Props.C05Chain HsVerif.Props.C05Quorum

/-- **a replica that is not the leader receives the next proposal of the chain**: it verifies the
certificate of `B`, enters view `w + 1` on it, reports to the leader, stores `B'`, runs the committer, votes -/
theorem replica_votes_to_next_leader (k : Keys) (c : RCfg) (L L2 w N : Nat) (B P B' : Block) (sgq : Sig) (s : RState)
    (hs : c.scheme ≠ .bls12) (ha : c.agg = false) (hr : c.rules = .chained ∨ c.rules = .simple)
    (hld1 : c.leader (w + 1) = L) (hne : c.id ≠ L) (hld2 : c.leader (w + 1 + 1) = L2) (hne2 : c.id ≠ L2)
    (hcore : SyncR w N B P s) (hf : FreshS s) (hN : N + 12 ≤ 99999)
    (hb1 : B'.hash = pname (w + 1)) (hb2 : B'.parent = B.hash) (hb3 : B'.view = w + 1)
    (hb4 : B'.qc = ⟨some sgq, B.view, B.hash⟩)
    (hv1 : verify (fun b => s.truth.lookup b) c.cfg sgq (blkMsg B.hash) = true) (hv2 : c.cfg.quorum ≤ sgq.len) :
    SyncR (w + 1) (N + 3) B' B (step k c s (.propose L B' none)).1 ∧
    FreshS (step k c s (.propose L B' none)).1 ∧ Ext s (step k c s (.propose L B' none)).1 ∧
    (step k c s (.propose L B' none)).1.highQC = B'.qc ∧
    (step k c s (.propose L B' none)).1.votes = s.votes ∧
    (step k c s (.propose L B' none)).1.lastProposed = s.lastProposed ∧
    (step k c s (.propose L B' none)).1.chain.blocks = (B'.hash, B') :: s.chain.blocks ∧
    (∃ bytes, (step k c s (.propose L B' none)).1.truth.lookup bytes = some ⟨c.id, blkMsg B'.hash⟩ ∧
      ∀ C : SysCfg, route C c.id (step k c s (.propose L B' none)).2 =
        [(L, Ev.newview c.id { qc := some B'.qc }),
         (L2, Ev.vote c.id (some (.multi c.scheme [⟨c.id, bytes⟩])) B'.hash false)]) ∧
    (∀ Z : Block, WalkZ Z s →
      (w ≤ Z.view + 1 → WalkZ Z (step k c s (.propose L B' none)).1) ∧
      (Link B P → Link P Z → s.chain.blocks.lookup Z.hash = some Z →
        (step k c s (.propose L B' none)).1.committed = Z ∧
        Out.commit Z ∈ (step k c s (.propose L B' none)).2 ∧ Out.exec Z ∈ (step k c s (.propose L B' none)).2)) :=
  HsVerif.Model.nl_step_rot k c L L2 w N B P B' sgq s hs ha hr hld1 hne hld2 hne2 hcore hf hN hb1 hb2 hb3 hb4 hv1 hv2

/-- **the NEXT COLLECTOR (leader of view `w + 2`, not the proposer) receives the proposal `B'` of view `w + 1`**: as `nl_step_rot`, but
it hands its vote to its own voting machine instead of sending it -/
theorem next_collector_counts_own_vote (k : Keys) (c : RCfg) (L w N : Nat) (B P B' : Block) (sgq : Sig) (s : RState)
    (hs : c.scheme ≠ .bls12) (ha : c.agg = false) (hr : c.rules = .chained ∨ c.rules = .simple)
    (hld1 : c.leader (w + 1) = L) (hne : c.id ≠ L) (hld2 : c.leader (w + 1 + 1) = c.id) (hid : c.cfg.has c.id = true) (hq2 : 2 ≤ c.cfg.quorum)
    (hcore : SyncR w N B P s) (hf : FreshS s) (hN : N + 12 ≤ 99999)
    (hb1 : B'.hash = pname (w + 1)) (hb2 : B'.parent = B.hash) (hb3 : B'.view = w + 1)
    (hb4 : B'.qc = ⟨some sgq, B.view, B.hash⟩)
    (hv1 : verify (fun b => s.truth.lookup b) c.cfg sgq (blkMsg B.hash) = true) (hv2 : c.cfg.quorum ≤ sgq.len) :
    SyncR (w + 1) (N + 3) B' B (step k c s (.propose L B' none)).1 ∧
    FreshS (step k c s (.propose L B' none)).1 ∧ Ext s (step k c s (.propose L B' none)).1 ∧
    (step k c s (.propose L B' none)).1.highQC = B'.qc ∧
    (step k c s (.propose L B' none)).1.lastProposed = s.lastProposed ∧
    (step k c s (.propose L B' none)).1.chain.blocks = (B'.hash, B') :: s.chain.blocks ∧
    (∃ bytes, (step k c s (.propose L B' none)).1.truth.lookup bytes = some ⟨c.id, blkMsg B'.hash⟩ ∧
      (step k c s (.propose L B' none)).1.votes.lookup B'.hash = some [(c.id, .multi c.scheme [⟨c.id, bytes⟩])] ∧
      ∀ C : SysCfg, route C c.id (step k c s (.propose L B' none)).2 = [(L, Ev.newview c.id { qc := some B'.qc })]) ∧
    (∀ Z : Block, WalkZ Z s →
      (w ≤ Z.view + 1 → WalkZ Z (step k c s (.propose L B' none)).1) ∧
      (Link B P → Link P Z → s.chain.blocks.lookup Z.hash = some Z →
        (step k c s (.propose L B' none)).1.committed = Z ∧
        Out.commit Z ∈ (step k c s (.propose L B' none)).2 ∧ Out.exec Z ∈ (step k c s (.propose L B' none)).2)) :=
  HsVerif.Model.nl_step_coll k c L w N B P B' sgq s hs ha hr hld1 hne hld2 hid hq2 hcore hf hN hb1 hb2 hb3 hb4 hv1 hv2

/-- **the vote that completes the quorum, the next collector being another replica `L2`**: the collector certifies `B`, enters
view `w + 1`, proposes `B'`, runs the committer on it and SENDS its own vote for `B'` to `L2` (with the proposals) -/
theorem collector_proposes_and_sends_own_vote (k : Keys) (c : RCfg) (L2 w N i id bytes : Nat) (B P : Block) (vs : List (Nat × Sig)) (s : RState)
    (hs : c.scheme ≠ .bls12) (ha : c.agg = false) (hr : c.rules = .chained ∨ c.rules = .simple)
    (hid : c.cfg.has c.id = true) (hld1 : c.leader (s.view + 1) = c.id) (hld2 : c.leader (s.view + 1 + 1) = L2) (hne2 : c.id ≠ L2) (hq2 : 2 ≤ c.cfg.quorum)
    (hld : SyncC c w N B P vs s) (hf : FreshS s) (hN : N + 12 ≤ 99999)
    (hi : c.cfg.has i = true) (hbytes : s.truth.lookup bytes = some ⟨i, blkMsg B.hash⟩)
    (hnew : ∀ v ∈ vs, v.1 ≠ i) (hlen : c.cfg.quorum ≤ vs.length + 1) :
    ∃ (sgq : Sig) (bytes' : Nat) (B' : Block),
      B'.hash = pname (w + 1) ∧ B'.parent = B.hash ∧ B'.view = w + 1 ∧ B'.qc = ⟨some sgq, B.view, B.hash⟩ ∧
      verify (fun b => (step k c s (.vote id (some (.multi c.scheme [⟨i, bytes⟩])) B.hash false)).1.truth.lookup b)
        c.cfg sgq (blkMsg B.hash) = true ∧ c.cfg.quorum ≤ sgq.len ∧
      SyncR (w + 1) (N + 3) B' B (step k c s (.vote id (some (.multi c.scheme [⟨i, bytes⟩])) B.hash false)).1 ∧
      markWalk ((step k c s (.vote id (some (.multi c.scheme [⟨i, bytes⟩])) B.hash false)).1.chain.fuel + 1)
        (step k c s (.vote id (some (.multi c.scheme [⟨i, bytes⟩])) B.hash false)).1.chain.blocks
        (step k c s (.vote id (some (.multi c.scheme [⟨i, bytes⟩])) B.hash false)).1.lastProposed B' = true ∧
      (step k c s (.vote id (some (.multi c.scheme [⟨i, bytes⟩])) B.hash false)).1.truth.lookup bytes' = some ⟨c.id, blkMsg B'.hash⟩ ∧
      (step k c s (.vote id (some (.multi c.scheme [⟨i, bytes⟩])) B.hash false)).1.highQC = B'.qc ∧
      FreshS (step k c s (.vote id (some (.multi c.scheme [⟨i, bytes⟩])) B.hash false)).1 ∧
      Ext s (step k c s (.vote id (some (.multi c.scheme [⟨i, bytes⟩])) B.hash false)).1 ∧
      (∀ C : SysCfg, route C c.id (step k c s (.vote id (some (.multi c.scheme [⟨i, bytes⟩])) B.hash false)).2 =
        (C.honest.filter (· != c.id)).map (fun x => (x, Ev.propose c.id B' none)) ++
          [(L2, Ev.vote c.id (some (.multi c.scheme [⟨c.id, bytes'⟩])) B'.hash false)]) ∧
      (∀ Z : Block, WalkZ Z s →
        (w ≤ Z.view + 1 → WalkZ Z (step k c s (.vote id (some (.multi c.scheme [⟨i, bytes⟩])) B.hash false)).1) ∧
        (Link B P → Link P Z → s.chain.blocks.lookup Z.hash = some Z →
          (step k c s (.vote id (some (.multi c.scheme [⟨i, bytes⟩])) B.hash false)).1.committed = Z ∧
          Out.commit Z ∈ (step k c s (.vote id (some (.multi c.scheme [⟨i, bytes⟩])) B.hash false)).2 ∧
          Out.exec Z ∈ (step k c s (.vote id (some (.multi c.scheme [⟨i, bytes⟩])) B.hash false)).2)) :=
  HsVerif.Model.coll_vote_quorum_send k c L2 w N i id bytes B P vs s hs ha hr hid hld1 hld2 hne2 hq2 hld hf hN hi hbytes hnew hlen

/-- **One view of the chain, rotating leaders** `A(w, B) ⟶ A(w + 1, B')`: phase A at `(w, B)` with the votes in flight to the
collector `leader (w + 1)`; the leaders of views `w + 1` and `w + 2` are participants.  The votes are delivered in ANY order
`ordV`, then the proposals of `B'` in ANY order `ordP` (orders of the participants other than `leader (w + 1)`).  Afterwards: phase
A at `(w + 1, B')` — collector `leader (w + 2)` —, the votes for `B'` are in flight to it (the proposer's own vote included), and
every participant's committer has made its step. -/
theorem one_view_rot (k : Keys) (C : SysCfg) (w N : Nat) (hC : RotCfg C) (B P : Block) (bt : Nat → Nat)
    (x : SysState × Msgs) (hN : N + 12 ≤ 99999) (hA : PhaseARot C w N B P bt x.1)
    (hfly : VotesFly C (ldr C (w + 1)) B.hash bt x.2) (hc2m : ldr C (w + 1 + 1) ∈ C.honest)
    (ordV ordP : List Nat) (hV : OthersOrder C (ldr C (w + 1)) ordV) (hP : OthersOrder C (ldr C (w + 1)) ordP) :
    ∃ (B' : Block) (bt' : Nat → Nat),
      PhaseARot C (w + 1) (N + 3) B' B bt' (chainViewRot k C ordV ordP x).1 ∧
      VotesFly C (ldr C (w + 1 + 1)) B'.hash bt' (chainViewRot k C ordV ordP x).2 ∧ Link B' B ∧
      ∀ j ∈ C.honest, ∃ s0 s, x.1.reps.lookup j = some s0 ∧ (chainViewRot k C ordV ordP x).1.reps.lookup j = some s ∧
        CommitStep w B P s0 s :=
  HsVerif.Model.chain_view_rot k C w N hC B P bt x hN hA hfly hc2m ordV ordP hV hP

/-- **From a synchronised view to a commit with ROTATING leaders** (and a silent minority): the leaders of the views `w + 1 … w + 4`
are participants (`∈ C.honest`) — possibly four different replicas.  In phase A at `(w, B)` (collector: the leader of `w + 1`) with
the votes in flight and the committer's walk from `B` possible at every participant, run three views of the chain (votes, then
proposals, each in any order; the orders range over the participants other than the collector of that view).  Then EVERY
participant has committed `B`. -/
theorem synced_commits_rot (k : Keys) (C : SysCfg) (w N : Nat) (hC : RotCfg C) (B P : Block) (bt : Nat → Nat)
    (x : SysState × Msgs) (hN : N + 18 ≤ 99999) (hA : PhaseARot C w N B P bt x.1)
    (hfly : VotesFly C (ldr C (w + 1)) B.hash bt x.2)
    (hwalk : ∀ j ∈ C.honest, ∃ s, x.1.reps.lookup j = some s ∧ WalkZ B s)
    (hl2 : ldr C (w + 2) ∈ C.honest) (hl3 : ldr C (w + 3) ∈ C.honest) (hl4 : ldr C (w + 4) ∈ C.honest)
    (v1 p1 v2 p2 v3 p3 : List Nat)
    (hv1 : OthersOrder C (ldr C (w + 1)) v1) (hp1 : OthersOrder C (ldr C (w + 1)) p1)
    (hv2 : OthersOrder C (ldr C (w + 2)) v2) (hp2 : OthersOrder C (ldr C (w + 2)) p2)
    (hv3 : OthersOrder C (ldr C (w + 3)) v3) (hp3 : OthersOrder C (ldr C (w + 3)) p3) :
    ∃ (B1 B2 B3 : Block) (bt3 : Nat → Nat),
      Link B1 B ∧ Link B2 B1 ∧ Link B3 B2 ∧
      PhaseARot C (w + 3) (N + 9) B3 B2 bt3
        (chainViewRot k C v3 p3 (chainViewRot k C v2 p2 (chainViewRot k C v1 p1 x))).1 ∧
      VotesFly C (ldr C (w + 4)) B3.hash bt3 (chainViewRot k C v3 p3 (chainViewRot k C v2 p2 (chainViewRot k C v1 p1 x))).2 ∧
      ∀ j ∈ C.honest, ∃ s0 s, x.1.reps.lookup j = some s0 ∧
        (chainViewRot k C v3 p3 (chainViewRot k C v2 p2 (chainViewRot k C v1 p1 x))).1.reps.lookup j = some s ∧
        s.committed = B ∧ s0.committed.view < s.committed.view :=
  HsVerif.Model.synced_commits_rot k C w N hC B P bt x hN hA hfly hwalk hl2 hl3 hl4 v1 p1 v2 p2 v3 p3 hv1 hp1 hv2 hp2 hv3 hp3

/-- the proposals in flight reach the replicas `ord`; the votes already in flight (the proposer's own) stay in flight -/
def proposalRoundRot (k : Keys) (C : SysCfg) (ord : List Nat) (x : SysState × Msgs) : SysState × Msgs :=
  deliverAll k C (x.1, x.2.filter isVoteEv) (propsIn x.2 ord)

/-- **Commit after recovery with rotating leaders** (PARTIAL: hypothesis `hsync`).  `recovery_from_reachable_live` (any leader `ℓ`
of view `v + 1`) composed with `synced_commits_rot`; the leaders of views `v + 2 … v + 5` are participants.  `hsync` — NOT proved
— says that the recovery round followed by the delivery of the proposals ends in phase A at `(v + 1, b')` with the votes in flight to
`ldr C (v + 2)`.  (Missing for it: the variants of `ld_timeout_quorum` / `first_proposal_after_timeouts_votes` in which the vote for
`b'` goes to `ldr C (v + 2)` instead of the proposer, and the `markWalk` clause of `SyncPre` for every participant.) -/
theorem commit_after_recovery_rot_partial (k : Keys) (C : SysCfg) (hC : RotCfg C) (D : RecData) (s0 : Nat → RState) (ℓ : Nat)
    (σ0 : SysState) (blk : Hash → Block) (hk : KeysOK k) (hr : Reach k C σ0) (hca : CA' σ0 blk)
    (hP : RecPreLive k C D s0 ℓ σ0.truth) (h0 : RecStart C s0 σ0.truth σ0)
    (msgs : List (Nat × Nat)) (hm : FullOrder C msgs) (N : Nat) (hN : N + 18 ≤ 99999)
    (hl2 : ldr C (D.v + 1 + 2) ∈ C.honest) (hl3 : ldr C (D.v + 1 + 3) ∈ C.honest) (hl4 : ldr C (D.v + 1 + 4) ∈ C.honest)
    (ordP v1 p1 v2 p2 v3 p3 : List Nat)
    (hv1 : OthersOrder C (ldr C (D.v + 1 + 1)) v1) (hp1 : OthersOrder C (ldr C (D.v + 1 + 1)) p1)
    (hv2 : OthersOrder C (ldr C (D.v + 1 + 2)) v2) (hp2 : OthersOrder C (ldr C (D.v + 1 + 2)) p2)
    (hv3 : OthersOrder C (ldr C (D.v + 1 + 3)) v3) (hp3 : OthersOrder C (ldr C (D.v + 1 + 3)) p3)
    (hsync : ∀ (i : Nat) (b' : Block), i ∈ C.honest → Top C D i → b'.view = D.v + 1 → b'.qc = D.hq i → b'.proposer = ℓ →
      ∃ bt, PhaseARot C (D.v + 1) N b' (D.hb i) bt (proposalRoundRot k C ordP (recoveryRound k C D σ0 msgs)).1 ∧
        VotesFly C (ldr C (D.v + 1 + 1)) b'.hash bt (proposalRoundRot k C ordP (recoveryRound k C D σ0 msgs)).2 ∧
        ∀ j ∈ C.honest, ∃ s, (proposalRoundRot k C ordP (recoveryRound k C D σ0 msgs)).1.reps.lookup j = some s ∧ WalkZ b' s) :
    ∃ (i : Nat) (b' : Block), i ∈ C.honest ∧ Top C D i ∧ b'.view = D.v + 1 ∧ b'.qc = D.hq i ∧ b'.proposer = ℓ ∧
      ∀ j ∈ C.honest, ∃ s,
        (chainViewRot k C v3 p3 (chainViewRot k C v2 p2 (chainViewRot k C v1 p1
          (proposalRoundRot k C ordP (recoveryRound k C D σ0 msgs))))).1.reps.lookup j = some s ∧ s.committed = b' := by
  obtain ⟨i, b', r1, r2, r3, r4, _, r6, _⟩ := recovery_from_reachable_live k C D s0 ℓ σ0 blk hk hr hca hP h0 msgs hm
  obtain ⟨bt, a1, a2, a3⟩ := hsync i b' r1 r2 r3 r4 r6
  obtain ⟨B1, B2, B3, bt3, _, _, _, _, _, c6⟩ := synced_commits_rot k C (D.v + 1) N hC b' (D.hb i) bt _ hN a1 a2 a3 hl2 hl3 hl4
    v1 p1 v2 p2 v3 p3 hv1 hp1 hv2 hp2 hv3 hp3
  refine ⟨i, b', r1, r2, r3, r4, r6, ?_⟩
  intro j hj
  obtain ⟨_, s, _, d2, d3, _⟩ := c6 j hj
  exact ⟨s, d2, d3⟩

/-! ## non-vacuity: n = 4, round-robin leaders, all four take part -/
section NonVacuity

def rCfg : SysCfg := { n := 4, rules := .chained, scheme := .ecdsa, agg := false, leaders := .roundRobin, honest := [1, 2, 3, 4] }

/-- all four start (replica 2 leads view 1; its proposal `P1` and its vote are lost) and time out in view 1 -/
def rRun0 : SysState × Msgs :=
  deliverAll exKeys rCfg ((syncRun exKeys rCfg 0).1, [])
    [(1, .localTimeout 1), (2, .localTimeout 1), (3, .localTimeout 1), (4, .localTimeout 1)]
/-- the RECOVERY: the timeout messages are delivered; replica 3, the leader of view 2, proposes `P2` on the genesis certificate
and sends its vote to replica 4, the leader of view 3; then the proposals reach replicas 1, 4, 2 (the vote stays in flight) -/
def rRunA : SysState × Msgs :=
  deliverAll exKeys rCfg ((syncRound exKeys rCfg rRun0).1, (syncRound exKeys rCfg rRun0).2.filter isVoteEv)
    (propsIn (syncRound exKeys rCfg rRun0).2 [1, 4, 2])

def rS (j : Nat) : RState := (rRunA.1.reps.lookup j).getD {}
def rB : Block := ((rS 3).chain.blocks.lookup "P2").getD genesisBlock
def rBt (j : Nat) : Nat := if j = 3 then 6 else if j = 1 then 7 else 9

def rAllOK : Bool :=
  rCfg.honest.all fun j =>
    match rRunA.1.reps.lookup j with
    | some s => syncOK 2 1000 rB genesisBlock s &&
        markWalk (s.chain.fuel + 1) s.chain.blocks s.lastProposed rB && decide (genesisBlock.view ≤ s.highQC.view) &&
        (j == 4 || decide (rRunA.1.truth.lookup (rBt j) = some ⟨j, blkMsg rB.hash⟩))
    | none => false

set_option maxRecDepth 100000 in
theorem rAllOK_true : rAllOK = true := by decide +kernel

theorem r_rep (j : Nat) (hj : j ∈ rCfg.honest) :
    rRunA.1.reps.lookup j = some (rS j) ∧ SyncM 2 1000 rB genesisBlock (rS j) ∧ WalkZ rB (rS j) ∧
    (j ≠ 4 → rRunA.1.truth.lookup (rBt j) = some ⟨j, blkMsg rB.hash⟩) := by
  have h := List.all_eq_true.mp rAllOK_true j hj
  unfold rS
  cases hl : rRunA.1.reps.lookup j with
  | none => rw [hl] at h; cases h
  | some s =>
    rw [hl] at h
    simp only [Bool.and_eq_true, Bool.or_eq_true, beq_iff_eq, decide_eq_true_eq] at h
    obtain ⟨⟨⟨h1, h2⟩, h3⟩, h4⟩ := h
    obtain ⟨a1, a2⟩ := sync_of_ok _ _ _ _ _ h1
    refine ⟨rfl, ⟨a1, h2, h3⟩, a2, fun hne => ?_⟩
    rcases h4 with h4 | h4
    · exact absurd h4 hne
    · exact h4

theorem rRot : RotCfg rCfg :=
  ⟨(by show Scheme.ecdsa ≠ Scheme.bls12; decide), rfl, Or.inl rfl, (by show [1, 2, 3, 4].Nodup; decide),
   (by show ∀ i ∈ [1, 2, 3, 4], 1 ≤ i ∧ i ≤ 4; decide), (by decide), (by show 2 ≤ 4; decide)⟩

theorem deliverAll_reach2 (k : Keys) (C : SysCfg) (ms : Msgs) (σ : SysState) (acc : Msgs) (h : Reach k C σ) :
    Reach k C (deliverAll k C (σ, acc) ms).1 := deliverAll_reach k C ms (σ, acc) h

theorem rRunA_reach : Reach exKeys rCfg rRunA.1 := by
  have h0 : Reach exKeys rCfg (syncRun exKeys rCfg 0).1 := syncRun_reach exKeys rCfg 0
  have h1 : Reach exKeys rCfg rRun0.1 := by
    unfold rRun0; exact deliverAll_reach' exKeys rCfg _ _ h0
  have h2 : Reach exKeys rCfg (syncRound exKeys rCfg rRun0).1 := by
    unfold syncRound; exact deliverAll_reach' exKeys rCfg _ _ h1
  unfold rRunA
  exact deliverAll_reach2 exKeys rCfg _ _ _ h2

set_option maxRecDepth 100000 in
/-- **the hypotheses of `synced_commits_rot` hold after that recovery**: phase A at `(2, P2)`; the leaders of views 2, 3, 4, 5 are
the four different replicas 3, 4, 1, 2; the collector of the votes for `P2` is replica 4, NOT the proposer 3, whose vote is in flight -/
theorem synced_commits_rot_nonvacuous :
    RotCfg rCfg ∧ Reach exKeys rCfg rRunA.1 ∧
    PhaseARot rCfg 2 1000 rB genesisBlock rBt rRunA.1 ∧ VotesFly rCfg (ldr rCfg 3) rB.hash rBt rRunA.2 ∧
    (∀ j ∈ rCfg.honest, ∃ s, rRunA.1.reps.lookup j = some s ∧ WalkZ rB s) ∧
    rB.proposer = 3 ∧ [ldr rCfg 2, ldr rCfg 3, ldr rCfg 4, ldr rCfg 5, ldr rCfg 6] = [3, 4, 1, 2, 3] := by
  refine ⟨rRot, rRunA_reach, ⟨reach_fresh exKeys rCfg rRunA.1 rRunA_reach, by decide +kernel, by decide, ?_, ?_, ?_⟩, ?_, ?_,
    by decide +kernel, by decide⟩
  · intro j hj
    obtain ⟨h1, h2, _, _⟩ := r_rep j hj
    exact ⟨rS j, h1, h2⟩
  · refine ⟨rS 4, .multi .ecdsa [⟨4, 8⟩], (r_rep 4 (by decide)).1, by decide +kernel,
      Or.inl ⟨by decide, 8, rfl, by decide +kernel⟩⟩
  · intro j hj hne
    exact (r_rep j hj).2.2.2 hne
  · intro j hj hne
    simp only [rCfg, List.mem_cons, List.not_mem_nil, or_false] at hj
    rcases hj with rfl | rfl | rfl | rfl
    · decide +kernel
    · decide +kernel
    · decide +kernel
    · exact absurd rfl hne
  · intro j hj
    obtain ⟨h1, _, h3, _⟩ := r_rep j hj
    exact ⟨rS j, h1, h3⟩

/-- three views of the chain from there, every round in a different order -/
def rFinal : SysState × Msgs :=
  chainViewRot exKeys rCfg [4, 3, 1] [1, 3, 4] (chainViewRot exKeys rCfg [2, 3, 4] [3, 4, 2]
    (chainViewRot exKeys rCfg [1, 3, 2] [2, 1, 3] rRunA))

set_option maxRecDepth 100000 in
/-- **`synced_commits_rot` applies, and the kernel evaluation agrees**: every replica has committed `P2`, the block proposed after the
recovery, in view 5; the proposers of `P2 … P5` were 3, 4, 1, 2 -/
theorem rotating_run_commits :
    (∀ j ∈ rCfg.honest, ∃ s, rFinal.1.reps.lookup j = some s ∧ s.committed = rB) ∧
    rFinal.1.reps.map (fun p => (p.1, p.2.view, p.2.committed.hash, p.2.lastProposed)) =
      [(1, 5, "P2", 4), (2, 5, "P2", 5), (3, 5, "P2", 2), (4, 5, "P2", 3)] := by
  refine ⟨?_, by decide +kernel⟩
  unfold rFinal
  obtain ⟨hC, _, hA, hfly, hwalk, _⟩ := synced_commits_rot_nonvacuous
  have ho : ∀ (c : Nat) (l : List Nat), c ∈ [1, 2, 3, 4] → l.Nodup → (∀ j ∈ l, j ∈ [1, 2, 3, 4] ∧ j ≠ c) →
      (∀ j ∈ [1, 2, 3, 4], j ≠ c → j ∈ l) → OthersOrder rCfg c l :=
    fun c l _ h1 h2 h3 => ⟨h1, h2, h3⟩
  obtain ⟨B1, B2, B3, bt3, _, _, _, _, _, c6⟩ := synced_commits_rot exKeys rCfg 2 1000 hC rB genesisBlock rBt rRunA (by decide) hA hfly hwalk
    (by decide) (by decide) (by decide)
    [1, 3, 2] [2, 1, 3] [2, 3, 4] [3, 4, 2] [4, 3, 1] [1, 3, 4]
    (ho 4 _ (by decide) (by decide) (by decide) (by decide)) (ho 4 _ (by decide) (by decide) (by decide) (by decide))
    (ho 1 _ (by decide) (by decide) (by decide) (by decide)) (ho 1 _ (by decide) (by decide) (by decide) (by decide))
    (ho 2 _ (by decide) (by decide) (by decide) (by decide)) (ho 2 _ (by decide) (by decide) (by decide) (by decide))
  intro j hj
  obtain ⟨_, s, _, d2, d3, _⟩ := c6 j hj
  exact ⟨s, d2, d3⟩

end NonVacuity

end HsVerif.Props.C05Rotate
