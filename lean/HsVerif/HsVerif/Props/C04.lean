import HsVerif.Proofs.Rules
/-! C04 — vote, lock and commit decisions equal the published protocol rules.
Property theorems only.  `Model.Rules` mirrors /repo/protocol/rules/*.go (with
fixes/C04-simple-consecutive.diff) and `Blockchain.Extends`; `Spec.Rules` is written from the papers.

Standing convention (DESIGN.md §2): hashes are names, name 0 is the all-zero hash and names no
block (`s 0 = none`); the rules of chained and Fast-HotStuff never look the zero hash up (`qcRef`),
which is the only place where that hypothesis is used. -/
set_option linter.unusedVariables false
namespace HsVerif.Props.C04
open HsVerif.Model.Rules HsVerif.Spec.Rules HsVerif.Proofs.Rules

/-! ## Chained HotStuff -/

/-- Commit decision = decide step of the paper's `update`, for every store, lock and block. -/
theorem chained_commit_eq_spec (s : Store) (lock b : Block) (hz : s 0 = none) :
    (chainedCommit s lock b).1 = chainedDecide s b := by
  unfold chainedCommit chainedDecide justified DirectNext
  simp only [qcRef_eq s hz]
  cases h1 : s b.qcHash with
  | none => rfl
  | some b1 =>
    simp only [Option.bind_some]
    cases h2 : s b1.qcHash with
    | none => rfl
    | some b2 =>
      simp only [Option.bind_some]
      cases h3 : s b2.qcHash with
      | none => rfl
      | some b3 =>
        simp only [Option.bind_some]
        by_cases hc : b1.parent = b2.hash ∧ b1.view = b2.view + 1 ∧ b2.parent = b3.hash ∧ b2.view = b3.view + 1
        · have hc2 : (b1.parent = b2.hash ∧ b1.view = b2.view + 1) ∧ b2.parent = b3.hash ∧ b2.view = b3.view + 1 :=
            ⟨⟨hc.1, hc.2.1⟩, hc.2.2.1, hc.2.2.2⟩
          simp only [if_pos hc, if_pos hc2]
        · have hc2 : ¬ ((b1.parent = b2.hash ∧ b1.view = b2.view + 1) ∧ b2.parent = b3.hash ∧ b2.view = b3.view + 1) :=
            fun h => hc ⟨h.1.1, h.1.2, h.2.1, h.2.2⟩
          simp only [if_neg hc, if_neg hc2]

/-- The executable decide step is the relational three-chain rule. -/
theorem chained_decide_iff (s : Store) (b c : Block) :
    chainedDecide s b = some c ↔ ChainedCommits s b c := by
  unfold chainedDecide ChainedCommits
  constructor
  · intro h
    cases h2 : justified s b with
    | none => simp [h2] at h
    | some b2 =>
      cases h1 : justified s b2 with
      | none => simp [h2, h1] at h
      | some b1 =>
        cases h0 : justified s b1 with
        | none => simp [h2, h1, h0] at h
        | some b0 =>
          simp only [h2, h1, h0, Option.bind_some] at h
          split at h
          · rename_i hc
            cases h
            exact ⟨b2, b1, ⟨h2, h1, h0, hc.1, hc.2⟩⟩
          · cases h
  · rintro ⟨b2, b1, hc⟩
    simp [hc.cert2, hc.cert1, hc.cert0, hc.link21, hc.link10]

/-- Commit decision, relational form: `c` is returned exactly when `b`'s certificate heads a
three-chain of direct parents with consecutive views ending in `c`. -/
theorem chained_commit_iff (s : Store) (lock b c : Block) (hz : s 0 = none) :
    (chainedCommit s lock b).1 = some c ↔ ChainedCommits s b c := by
  rw [chained_commit_eq_spec s lock b hz, chained_decide_iff]

/-- Lock after the commit rule = the paper's lock step (head of the two-chain, if higher). -/
theorem chained_lock_eq_spec (s : Store) (lock b : Block) (hz : s 0 = none) :
    (chainedCommit s lock b).2 = chainedLock s lock b := by
  unfold chainedCommit chainedLock justified
  simp only [qcRef_eq s hz]
  cases h1 : s b.qcHash with
  | none => rfl
  | some b1 =>
    simp only [Option.bind_some]
    cases h2 : s b1.qcHash with
    | none => rfl
    | some b2 =>
      simp only
      cases h3 : s b2.qcHash with
      | none => rfl
      | some b3 =>
        simp only
        split <;> rfl

/-- The vote rule never votes where `safeNode` forbids it — every store, lock, proposal. -/
theorem chained_vote_sound (s : Store) (lock b : Block) (h : chainedVote s lock b = true) :
    ChainedVotes s lock b := by
  unfold chainedVote bcGet at h
  unfold ChainedVotes justified
  cases hq : s b.qcHash with
  | none => rw [hq] at h; exact Or.inl (extends_sound s b lock h)
  | some q =>
    rw [hq] at h
    simp only at h
    split at h
    · cases h
    · split at h
      · rename_i hv; exact Or.inr ⟨q, rfl, hv⟩
      · exact Or.inl (extends_sound s b lock h)

/-- A vote is only cast when the block to lock on is known (repaired code): the replica that votes
can and does update its lock in `CommitRule`. -/
theorem chained_vote_lock_known (s : Store) (lock b : Block) (h : chainedVote s lock b = true) :
    LockTargetKnown s b := by
  unfold chainedVote bcGet at h
  intro j hj
  unfold justified at hj
  rw [hj] at h
  simp only at h
  split at h
  · cases h
  · rename_i hk
    by_cases h0 : j.qcHash = 0
    · exact Or.inl h0
    · refine Or.inr ?_
      cases hs : s j.qcHash with
      | none => exact absurd ⟨h0, by simp [hs]⟩ hk
      | some _ => rfl

/- FULL STATEMENT (false of the code, see `chained_vote_eq_spec_counterexample`):
     ∀ s lock b, chainedVote s lock b = true ↔ ChainedVotes s lock b
   `Blockchain.Extends` stops walking at the first block whose view is not above the target's, so
   an ancestor behind a parent link that does not increase the view is not found. -/
/-- Vote decision = `safeNode` on every forest whose parent links increase the view (names in
creation order, names identify blocks). -/
theorem chained_vote_eq_spec_partial (s : Store) (lock b : Block)
    (hac : Acyclic s) (hg : ViewsGrow s b) (hn : Names s b lock) (hk : LockTargetKnown s b) :
    chainedVote s lock b = true ↔ ChainedVotes s lock b := by
  constructor
  · exact chained_vote_sound s lock b
  · intro h
    unfold chainedVote bcGet
    unfold ChainedVotes justified at h
    cases hq : s b.qcHash with
    | none =>
      simp only
      cases h with
      | inl h => exact extends_complete s b lock hac hg hn h
      | inr h => obtain ⟨j, hj, _⟩ := h; rw [hq] at hj; cases hj
    | some q =>
      simp only
      have hkq := hk q (by unfold justified; exact hq)
      have hno : ¬(q.qcHash ≠ 0 ∧ (s q.qcHash).isNone = true) := by
        rintro ⟨h0, hnone⟩
        rcases hkq with h | h
        · exact h0 h
        · cases hs : s q.qcHash with
          | none => simp [hs] at h
          | some _ => simp [hs] at hnone
      simp only [hno, ↓reduceIte]
      split
      · rfl
      · rename_i hv
        cases h with
        | inl h => exact extends_complete s b lock hac hg hn h
        | inr h => obtain ⟨j, hj, hjv⟩ := h; rw [hq] at hj; cases hj; exact absurd hjv hv

/-- Witness that the hypothesis `ViewsGrow` cannot be dropped: lock `T` (view 3), `X` (view 1) a
child of `T`, proposal `Y` (view 5) a child of `X` justified by genesis.  `Y` extends the lock, the
code answers no. -/
theorem chained_vote_eq_spec_counterexample :
    ∃ (s : Store) (lock b : Block), Acyclic s ∧ Names s b lock ∧
      ChainedVotes s lock b ∧ chainedVote s lock b = false := by
  let T : Block := ⟨2, 3, 1, 1, 0⟩
  let X : Block := ⟨3, 1, 2, 1, 0⟩
  let Y : Block := ⟨4, 5, 3, 1, 0⟩
  refine ⟨ofList [genesis, T, X], T, Y, acyclic_ofList _ (by decide), names_ofList _ _ _ (by decide), ?_, by decide⟩
  exact Or.inl (OnBranch.up (p := X) (by decide) (OnBranch.up (p := T) (by decide) (OnBranch.self T)))

/-! ## Fast-HotStuff -/

theorem fast_commit_eq_spec (s : Store) (b : Block) (hz : s 0 = none) :
    fastCommit s b = fastDecide s b := by
  unfold fastCommit fastDecide justified DirectNext
  simp only [qcRef_eq s hz]
  cases h1 : s b.qcHash with
  | none => rfl
  | some p =>
    simp only [Option.bind_some]
    cases h2 : s p.qcHash with
    | none => rfl
    | some g =>
      simp only [Option.bind_some]
      by_cases hc : b.parent = p.hash ∧ b.view = p.view + 1 ∧ p.parent = g.hash ∧ p.view = g.view + 1
      · have hc2 : (b.parent = p.hash ∧ b.view = p.view + 1) ∧ p.parent = g.hash ∧ p.view = g.view + 1 :=
          ⟨⟨hc.1, hc.2.1⟩, hc.2.2.1, hc.2.2.2⟩
        simp only [if_pos hc, if_pos hc2]
      · have hc2 : ¬ ((b.parent = p.hash ∧ b.view = p.view + 1) ∧ p.parent = g.hash ∧ p.view = g.view + 1) :=
          fun h => hc ⟨h.1.1, h.1.2, h.2.1, h.2.2⟩
        simp only [if_neg hc, if_neg hc2]

theorem fast_decide_iff (s : Store) (b c : Block) : fastDecide s b = some c ↔ FastCommits s b c := by
  unfold fastDecide FastCommits
  constructor
  · intro h
    cases h1 : justified s b with
    | none => simp [h1] at h
    | some b1 =>
      cases h0 : justified s b1 with
      | none => simp [h1, h0] at h
      | some b0 =>
        simp only [h1, h0, Option.bind_some] at h
        split at h
        · rename_i hc
          cases h
          exact ⟨b1, ⟨h1, h0, hc.1, hc.2⟩⟩
        · cases h
  · rintro ⟨b1, hc⟩
    simp [hc.cert1, hc.cert0, hc.link1, hc.link0]

/-- Commit decision = two-chain rule, for every store and block. -/
theorem fast_commit_iff (s : Store) (b c : Block) (hz : s 0 = none) :
    fastCommit s b = some c ↔ FastCommits s b c := by
  rw [fast_commit_eq_spec s b hz, fast_decide_iff]

/-- Happy-path vote decision, for every store, view and proposal. -/
theorem fast_vote_plain_eq_spec (s : Store) (cur : Nat) (b : Block) :
    fastVote s cur b false = true ↔ FastVotesPlain cur b := by
  unfold fastVote FastVotesPlain
  simp only [Bool.false_eq_true, ↓reduceIte, Bool.and_eq_true, decide_eq_true_eq]
  constructor <;> (intro h; exact ⟨h.2, h.1⟩)

/-- Aggregated-QC path: never votes unless the block extends the block of its certificate. -/
theorem fast_vote_agg_sound (s : Store) (cur : Nat) (b : Block) (h : fastVote s cur b true = true) :
    FastVotesAgg s b := by
  unfold fastVote bcGet at h
  unfold FastVotesAgg justified
  simp only [↓reduceIte] at h
  cases hq : s b.qcHash with
  | none => rw [hq] at h; cases h
  | some q => rw [hq] at h; exact ⟨q, rfl, extends_sound s b q h⟩

/- FULL STATEMENT (false of the code for the same reason as for chained HotStuff):
     ∀ s cur b, fastVote s cur b true = true ↔ FastVotesAgg s b -/
theorem fast_vote_agg_eq_spec_partial (s : Store) (cur : Nat) (b : Block)
    (hac : Acyclic s) (hg : ViewsGrow s b) (hn : ∀ hb, s b.qcHash = some hb → Names s b hb) :
    fastVote s cur b true = true ↔ FastVotesAgg s b := by
  constructor
  · exact fast_vote_agg_sound s cur b
  · rintro ⟨hb, hj, he⟩
    unfold justified at hj
    unfold fastVote bcGet
    simp only [↓reduceIte, hj]
    exact extends_complete s b hb hac hg (hn hb hj) he

theorem fast_vote_agg_eq_spec_counterexample :
    ∃ (s : Store) (b : Block), Acyclic s ∧ (∀ hb, s b.qcHash = some hb → Names s b hb) ∧
      FastVotesAgg s b ∧ fastVote s 0 b true = false := by
  let T : Block := ⟨2, 3, 1, 1, 0⟩
  let X : Block := ⟨3, 1, 2, 1, 0⟩
  let Y : Block := ⟨4, 5, 3, 2, 3⟩
  refine ⟨ofList [genesis, T, X], Y, acyclic_ofList _ (by decide), ?_, ?_, by decide⟩
  · intro hb hs
    have : hb = T := by
      have h : ofList [genesis, T, X] Y.qcHash = some T := by decide
      rw [h] at hs; cases hs; rfl
    subst this
    exact names_ofList _ _ _ (by decide)
  · exact ⟨T, by decide, OnBranch.up (p := X) (by decide) (OnBranch.up (p := T) (by decide) (OnBranch.self T))⟩

/-! ## Simplified HotStuff (repaired commit rule) -/

theorem simple_commit_eq_spec (s : Store) (locked b : Block) :
    (simpleCommit s locked b).1 = simpleDecide s b := by
  unfold simpleCommit simpleDecide justified bcGet
  cases h1 : s b.qcHash with
  | none => rfl
  | some p =>
    simp only [Option.bind_some]
    cases h2 : s p.qcHash with
    | none => rfl
    | some gp =>
      simp only [Option.bind_some]
      cases h3 : s gp.qcHash with
      | none => rfl
      | some ggp =>
        simp only [Option.bind_some]
        by_cases hc : ggp.view + 1 = gp.view ∧ ggp.view + 2 = p.view
        · have hc2 : p.view = gp.view + 1 ∧ gp.view = ggp.view + 1 := by omega
          simp only [if_pos hc, if_pos hc2]
        · have hc2 : ¬ (p.view = gp.view + 1 ∧ gp.view = ggp.view + 1) := by omega
          simp only [if_neg hc, if_neg hc2]

theorem simple_decide_iff (s : Store) (b c : Block) : simpleDecide s b = some c ↔ SimpleCommits s b c := by
  unfold simpleDecide SimpleCommits
  constructor
  · intro h
    cases h2 : justified s b with
    | none => simp [h2] at h
    | some p =>
      cases h1 : justified s p with
      | none => simp [h2, h1] at h
      | some gp =>
        cases h0 : justified s gp with
        | none => simp [h2, h1, h0] at h
        | some ggp =>
          simp only [h2, h1, h0, Option.bind_some] at h
          split at h
          · rename_i hc
            cases h
            exact ⟨p, gp, ⟨h2, ⟨h1, hc.1⟩, ⟨h0, hc.2⟩⟩⟩
          · cases h
  · rintro ⟨p, gp, hc⟩
    have h1 := hc.nextGP
    have h0 := hc.nextGGP
    unfold CertNext at h1 h0
    simp [hc.certP, h1.1, h0.1, h1.2, h0.2]

/-- Commit decision = Jehl's rule: great-grandparent, grandparent, parent in consecutive rounds. -/
theorem simple_commit_iff (s : Store) (locked b c : Block) :
    (simpleCommit s locked b).1 = some c ↔ SimpleCommits s b c := by
  rw [simple_commit_eq_spec, simple_decide_iff]

theorem simple_lock_eq_spec (s : Store) (locked b : Block) :
    (simpleCommit s locked b).2 = simpleLock s locked b := by
  unfold simpleCommit simpleLock justified bcGet
  cases h1 : s b.qcHash with
  | none => rfl
  | some p =>
    simp only [Option.bind_some]
    cases h2 : s p.qcHash with
    | none => rfl
    | some gp =>
      simp only
      cases h3 : s gp.qcHash with
      | none => rfl
      | some ggp =>
        simp only
        split <;> rfl

theorem simple_vote_eq_spec (s : Store) (locked : Block) (cur : Nat) (b : Block) :
    simpleVote s locked cur b = true ↔ SimpleVotes s locked cur b ∧ LockTargetKnown s b := by
  unfold simpleVote SimpleVotes LockTargetKnown justified bcGet
  by_cases hv : b.view < cur
  · simp only [hv, ↓reduceIte, Bool.false_eq_true, false_iff]
    intro h; omega
  · simp only [hv, ↓reduceIte]
    cases hq : s b.qcHash with
    | none => simp
    | some p =>
      simp only
      by_cases hk : p.qcHash ≠ 0 ∧ (s p.qcHash).isNone = true
      · rw [if_pos hk]
        simp only [Bool.false_eq_true, false_iff]
        rintro ⟨_, hl⟩
        rcases hl p rfl with h | h
        · exact hk.1 h
        · cases hs : s p.qcHash with
          | none => simp [hs] at h
          | some _ => simp [hs] at hk
      · have hl : ∀ j, some p = some j → j.qcHash = 0 ∨ (s j.qcHash).isSome = true := by
          intro j hj; cases hj
          by_cases h0 : p.qcHash = 0
          · exact Or.inl h0
          · refine Or.inr ?_
            cases hs : s p.qcHash with
            | none => exact absurd ⟨h0, by simp [hs]⟩ hk
            | some _ => rfl
        rw [if_neg hk]
        by_cases hp : p.view < locked.view
        · simp only [hp, ↓reduceIte, Bool.false_eq_true, false_iff]
          rintro ⟨⟨_, q, hq', hge⟩, _⟩; cases hq'; omega
        · simp only [hp, ↓reduceIte, true_iff]
          exact ⟨⟨by omega, p, rfl, by omega⟩, hl⟩

/-- The condition as it stood before fixes/C04-simple-consecutive.diff
(`ok && ggp.View()+2 == p.View()`). -/
def simpleCommitUnrepaired (s : Store) (b : Block) : Option Block :=
  match s b.qcHash with
  | none => none
  | some p =>
    match s p.qcHash with
    | none => none
    | some gp =>
      match s gp.qcHash with
      | some ggp => if ggp.view + 2 = p.view then some ggp else none
      | none => none

/-- The defect the repair removes: certificates through views 1 ← 5 ← 3 made the unrepaired rule
commit the view-1 block, which heads no chain of consecutive rounds; the repaired rule refuses. -/
theorem simple_unrepaired_counterexample :
    ∃ (s : Store) (b c : Block), simpleCommitUnrepaired s b = some c ∧ ¬ SimpleCommits s b c ∧
      (simpleCommit s genesis b).1 = none := by
  let A : Block := ⟨2, 1, 1, 1, 0⟩
  let B : Block := ⟨3, 5, 2, 2, 1⟩
  let C : Block := ⟨4, 3, 3, 3, 5⟩
  let D : Block := ⟨5, 6, 4, 4, 3⟩
  refine ⟨ofList [genesis, A, B, C], D, A, by decide, ?_, by decide⟩
  rw [← simple_decide_iff]
  decide

/-! ## A committed block is the tail of the required chain -/

/-- Whatever any of the three commit rules returns is the tail of a chain of blocks, each
certified by its successor's certificate and proposed in consecutive views — linked by direct
parent pointers for chained and Fast-HotStuff, by the certificate (= parent in Jehl's model) for
simplified HotStuff.  The chain is headed by the block certified in `b` (three-chain rules) or by
`b` itself (Fast-HotStuff's two-chain). -/
theorem commit_is_chain_tail (st : RState) (b c : Block) (hz : st.store 0 = none)
    (h : (commitRule st b).1 = some c) :
    ∃ x y, Chain st.store (st.kind != .simple) [x, y, c] ∧
      (if st.kind = .fast then x = b else justified st.store b = some x) := by
  unfold commitRule at h
  cases hk : st.kind with
  | chained =>
    rw [hk] at h
    obtain ⟨b2, b1, hc⟩ := (chained_commit_iff _ _ _ _ hz).1 h
    exact ⟨b2, b1, ⟨hc.cert1, hc.link21.2, fun _ => hc.link21.1, hc.cert0, hc.link10.2, fun _ => hc.link10.1, trivial⟩, hc.cert2⟩
  | fast =>
    rw [hk] at h
    obtain ⟨b1, hc⟩ := (fast_commit_iff _ _ _ hz).1 h
    exact ⟨b, b1, ⟨hc.cert1, hc.link1.2, fun _ => hc.link1.1, hc.cert0, hc.link0.2, fun _ => hc.link0.1, trivial⟩, rfl⟩
  | simple =>
    rw [hk] at h
    obtain ⟨p, gp, hc⟩ := (simple_commit_iff _ _ _ _).1 h
    exact ⟨p, gp, ⟨hc.nextGP.1, hc.nextGP.2, fun h => absurd h (by decide), hc.nextGGP.1, hc.nextGGP.2,
      fun h => absurd h (by decide), trivial⟩, hc.certP⟩

/-- The chain has as many certificates as `ChainLength()` announces. -/
theorem chain_length_certificates : Kind.chainLength .chained = 3 ∧ Kind.chainLength .fast = 2 ∧
    Kind.chainLength .simple = 3 := ⟨rfl, rfl, rfl⟩

/-! ## Every presentation order, every reachable lock state -/

/-- Vote exactness holds without further conditions for simplified HotStuff and Fast-HotStuff's
happy path; where `Blockchain.Extends` is consulted it needs parent links that increase the view;
chained and simplified HotStuff abstain unless the block a vote obliges them to lock on is known. -/
def Regular (k : Kind) (s : Store) (lock b : Block) (agg : Bool) : Prop :=
  match k, agg with
  | .simple, _ => LockTargetKnown s b
  | .fast, false => True
  | .chained, _ => (Acyclic s ∧ ViewsGrow s b ∧ Names s b lock) ∧ LockTargetKnown s b
  | .fast, true => Acyclic s ∧ ViewsGrow s b ∧ ∀ hb, s b.qcHash = some hb → Names s b hb

/-- the model's answer to one operation is the one the published rules prescribe in state `st` -/
def AnsOK (k : Kind) (st : SState) : Op → Ans → Prop
  | .store _, .stored => True
  | .vote cur b agg, .vote r =>
    (r = true → Votes k st.store st.lock cur b agg) ∧
    (Regular k st.store st.lock b agg → Votes k st.store st.lock cur b agg → r = true)
  | .commit b, .commit c => c = decideRule k st.store b
  | _, _ => False

/-- answers conform along the whole presentation, the specification's own state being threaded -/
def Conforms (k : Kind) : SState → List Op → List Ans → Prop
  | _, [], [] => True
  | st, op :: ops, a :: as => AnsOK k st op a ∧ Conforms k (next k st op) ops as
  | _, _, _ => False

def toS (st : RState) : SState := { store := st.store, lock := st.lock }

theorem vote_rule_sound (st : RState) (cur : Nat) (b : Block) (agg : Bool)
    (h : voteRule st cur b agg = true) : Votes st.kind st.store st.lock cur b agg := by
  unfold voteRule at h
  cases hk : st.kind with
  | chained => rw [hk] at h; exact chained_vote_sound _ _ _ h
  | fast =>
    rw [hk] at h
    cases agg with
    | true => simpa [Votes] using fast_vote_agg_sound _ _ _ h
    | false => simpa [Votes] using (fast_vote_plain_eq_spec _ _ _).1 h
  | simple => rw [hk] at h; exact ((simple_vote_eq_spec _ _ _ _).1 h).1

theorem vote_rule_complete_partial (st : RState) (cur : Nat) (b : Block) (agg : Bool)
    (hr : Regular st.kind st.store st.lock b agg)
    (h : Votes st.kind st.store st.lock cur b agg) : voteRule st cur b agg = true := by
  unfold voteRule
  cases hk : st.kind with
  | chained =>
    rw [hk] at h hr
    obtain ⟨⟨h1, h2, h3⟩, h4⟩ : (Acyclic st.store ∧ ViewsGrow st.store b ∧ Names st.store b st.lock) ∧ LockTargetKnown st.store b := by
      cases agg <;> exact hr
    exact (chained_vote_eq_spec_partial _ _ _ h1 h2 h3 h4).2 h
  | fast =>
    rw [hk] at h hr
    cases agg with
    | true =>
      obtain ⟨h1, h2, h3⟩ := hr
      exact (fast_vote_agg_eq_spec_partial _ _ _ h1 h2 h3).2 (by simpa [Votes] using h)
    | false => exact (fast_vote_plain_eq_spec _ _ _).2 (by simpa [Votes] using h)
  | simple =>
    rw [hk] at h hr
    have hl : LockTargetKnown st.store b := by cases agg <;> exact hr
    exact (simple_vote_eq_spec _ _ _ _).2 ⟨h, hl⟩

/-- commit decision and new lock of the dispatching rule equal the specification's -/
theorem commit_rule_eq_spec (st : RState) (b : Block) (hz : st.store 0 = none) :
    (commitRule st b).1 = decideRule st.kind st.store b ∧
    (commitRule st b).2 = lockRule st.kind st.store st.lock b := by
  unfold commitRule
  cases hk : st.kind with
  | chained => exact ⟨chained_commit_eq_spec _ _ _ hz, chained_lock_eq_spec _ _ _ hz⟩
  | fast => exact ⟨fast_commit_eq_spec _ _ hz, rfl⟩
  | simple => exact ⟨simple_commit_eq_spec _ _ _, simple_lock_eq_spec _ _ _⟩

/- FULL STATEMENT: as below with `r = true ↔ Votes …` for every vote, without `Regular`
   (false of the code: `chained_vote_eq_spec_counterexample`). -/
/-- Present any list of store / vote / commit operations on any blocks in any order to the model
of a ruleset, starting from any state whose store has nothing under the zero hash: the stores
and locks it goes through are those of the specification's replica, every commit answer is the
specification's decision, every positive vote is allowed by the published vote condition, and
(on regular forests) every allowed vote is given. -/
theorem presentation_conforms_partial (ops : List Op) :
    ∀ (st : RState), st.store 0 = none → (∀ b, Op.store b ∈ ops → b.hash ≠ 0) →
      Conforms st.kind (toS st) ops (run st ops).2 ∧
      toS (run st ops).1 = ops.foldl (next st.kind) (toS st) ∧ (run st ops).1.kind = st.kind := by
  induction ops with
  | nil => intro st _ _; exact ⟨trivial, rfl, rfl⟩
  | cons op ops ih =>
    intro st hz hops
    have hops' : ∀ b, Op.store b ∈ ops → b.hash ≠ 0 := fun b hb => hops b (List.mem_cons_of_mem _ hb)
    cases op with
    | store b =>
      have hb : b.hash ≠ 0 := hops b (by simp)
      obtain ⟨h1, h2, h3⟩ := ih { st with store := st.store.store b } (store_zero _ _ hz hb) hops'
      exact ⟨⟨trivial, h1⟩, h2, h3⟩
    | vote cur b agg =>
      obtain ⟨h1, h2, h3⟩ := ih st hz hops'
      exact ⟨⟨⟨vote_rule_sound st cur b agg, vote_rule_complete_partial st cur b agg⟩, h1⟩, h2, h3⟩
    | commit b =>
      obtain ⟨hc, hl⟩ := commit_rule_eq_spec st b hz
      obtain ⟨h1, h2, h3⟩ := ih { st with lock := (commitRule st b).2 } hz hops'
      refine ⟨⟨hc, ?_⟩, ?_, h3⟩
      · show Conforms st.kind ⟨st.store, lockRule st.kind st.store st.lock b⟩ ops _
        rw [← hl]; exact h1
      · show _ = ops.foldl (next st.kind) ⟨st.store, lockRule st.kind st.store st.lock b⟩
        rw [← hl]; exact h2

/-- … in particular from the initial state of a replica (genesis stored, locked on genesis). -/
theorem presentation_from_genesis_partial (k : Kind) (ops : List Op)
    (hops : ∀ b, Op.store b ∈ ops → b.hash ≠ 0) :
    Conforms k SState.init ops (run (RState.init k) ops).2 ∧
    toS (run (RState.init k) ops).1 = ops.foldl (next k) SState.init :=
  let h := presentation_conforms_partial ops (RState.init k) rfl hops
  ⟨h.1, h.2.1⟩

/-! ## The oracle's executable vote conditions decide the published ones -/

theorem votesB_iff (k : Kind) (s : Store) (lock : Block) (cur : Nat) (b : Block) (agg : Bool)
    (hac : Acyclic s) : votesB k s lock cur b agg = true ↔ Votes k s lock cur b agg := by
  cases k with
  | chained =>
    simp only [votesB, Votes, chainedVotesB, ChainedVotes, Bool.or_eq_true, extendsB_iff s hac]
    cases hj : justified s b with
    | none => simp
    | some j => simp
  | fast =>
    cases agg with
    | true =>
      simp only [votesB, Votes, ↓reduceIte, fastVotesAggB, FastVotesAgg]
      cases hj : justified s b with
      | none => simp
      | some j => simp [extendsB_iff s hac]
    | false =>
      simp [votesB, Votes, fastVotesPlainB, FastVotesPlain]
  | simple =>
    simp only [votesB, Votes, simpleVotesB, SimpleVotes, Bool.and_eq_true, decide_eq_true_eq]
    cases hj : justified s b with
    | none => simp
    | some j => simp

/-! ## Non-vacuity -/

section Examples
def b1 : Block := ⟨2, 1, 1, 1, 0⟩
def b2 : Block := ⟨3, 2, 2, 2, 1⟩
def b3 : Block := ⟨4, 3, 3, 3, 2⟩
def b4 : Block := ⟨5, 4, 4, 4, 3⟩
def chainStore : Store := ofList [genesis, b1, b2, b3]

/-- a straight chain in views 1,2,3: the proposal of view 4 commits the view-1 block and locks
the view-2 block under chained HotStuff … -/
example : chainedCommit chainStore genesis b4 = (some b1, b2) := by decide
/-- … Fast-HotStuff commits the view-2 block … -/
example : fastCommit chainStore b4 = some b2 := by decide
/-- … and simplified HotStuff commits the view-1 block and locks the view-2 block. -/
example : simpleCommit chainStore genesis b4 = (some b1, b2) := by decide

/-- a view gap (1,2,4) next to the chain: nothing is committed, the lock still moves -/
example : chainedCommit (ofList [genesis, b1, b2, ⟨4, 4, 3, 3, 2⟩]) genesis ⟨5, 5, 4, 4, 4⟩ = (none, b2) := by decide
/-- certificate not on the parent (fork): nothing is committed -/
example : chainedCommit (ofList [genesis, b1, b2, ⟨4, 3, 2, 3, 2⟩]) genesis ⟨5, 4, 4, 4, 3⟩ = (none, b2) := by decide
/-- a missing block in the chain: nothing is committed, lock unchanged -/
example : chainedCommit (ofList [genesis, b1, b3]) genesis b4 = (none, genesis) := by decide

/-- votes: locked on b2; a fork from b1 justified by b1 is refused, justified by b3 it is accepted
(liveness rule), a child of b3 is accepted (safety rule) -/
example : chainedVote chainStore b2 ⟨9, 7, 2, 2, 1⟩ = false := by decide
example : chainedVote chainStore b2 ⟨9, 7, 2, 4, 3⟩ = true := by decide
example : chainedVote chainStore b2 ⟨9, 7, 4, 2, 1⟩ = true := by decide
example : simpleVote chainStore b2 5 ⟨9, 7, 2, 2, 1⟩ = false := by decide
example : simpleVote chainStore b2 5 ⟨9, 7, 3, 3, 2⟩ = true := by decide
example : simpleVote chainStore b2 8 ⟨9, 7, 3, 3, 2⟩ = false := by decide
example : fastVote chainStore 4 b4 false = true ∧ fastVote chainStore 5 b4 false = false ∧
    fastVote chainStore 4 ⟨5, 5, 4, 4, 3⟩ false = false := by decide
example : fastVote chainStore 4 b4 true = true ∧ fastVote chainStore 4 ⟨5, 4, 3, 4, 3⟩ true = false := by decide

/-- a whole presentation: blocks stored out of order, commit asked before and after the chain is complete -/
example : (run (RState.init .chained)
      [.store b3, .commit b4, .store b1, .commit b4, .store b2, .vote 4 b4 false, .commit b4]).2 =
    [.stored, .commit none, .stored, .commit none, .stored, .vote true, .commit (some b1)] := by decide
end Examples

end HsVerif.Props.C04
