import HsVerif.Gen.Authority
/-! C02 — the acceptance conditions of the certificate checks ON THE REGENERATED CODE of `security/cert/auth.go`.
`Gen/Authority.lean` is regenerated from the Go source on every run (tools/gofacts/methods.go): `VerifyPartialCert`,
`VerifyQuorumCert`, `VerifyTimeoutCert` of `cert.Authority` as pure functions (the methods write no field: the state
tuple is empty).  Certificates, hashes and byte strings are opaque values; blocks, signatures and participant sets
are pointer-like opaque values with a `nil`; the accessors, the quorum size `config.QuorumSize()`, the block store
`blockchain.Get`, the genesis block `hotstuff.GetGenesis()` and the signature check `c.Verify` (promoted from the
embedded `crypto.Base`; `true` = an error) are ARBITRARY parameters, collected in `Env`.  An `error` is its presence
(`true` = an error).  The theorems are about the code as regenerated, not about a hand-written model: EXACTLY which
certificates are accepted, and that no nil pointer is dereferenced. -/
set_option linter.unusedVariables false
namespace HsVerif.Props.C02Gen
open HsVerif.Gen.Methods

section generic
variable {QC TC PC Blk Hash Sig IDs Bytes Msg AggQC : Type} [DecidableEq Blk] [DecidableEq Hash] [DecidableEq Sig] [DecidableEq IDs]
  [DecidableEq Msg] [DecidableEq AggQC]

/-- The environment of an `Authority`: nil values, the genesis block, accessors of the opaque values, the other
components. -/
structure Env (QC TC PC Blk Hash Sig IDs Bytes Msg AggQC : Type) where
  blkNil : Blk
  sigNil : Sig
  idsNil : IDs
  genesis : Blk
  qcHash : QC → Hash
  qcView : QC → Int
  qcSig : QC → Sig
  tcView : TC → Int
  tcSig : TC → Sig
  pcHash : PC → Hash
  pcSig : PC → Sig
  participants : Sig → IDs
  len : IDs → Int
  blkHash : Blk → Hash
  blkView : Blk → Int
  blkBytes : Blk → Bytes
  viewBytes : Int → Bytes
  quorumSize : Int
  get : Hash → Blk × Bool
  verify : Sig → Bytes → Bool
  -- (S22) what `VerifyAnyQC` needs: a proposal is a pointer-like opaque value, so is its aggregate QC
  msgNil : Msg
  aggNil : AggQC
  msgBlock : Msg → Blk
  msgAgg : Msg → AggQC
  blkQC : Blk → QC
  aggSig : AggQC → Sig
  aggView : AggQC → Int
  hasAgg : Bool
  vQC : QC → Bool
  vAgg : AggQC → QC × Bool

/-- `VerifyPartialCert` as regenerated, on an environment. -/
def verifyPC (E : Env QC TC PC Blk Hash Sig IDs Bytes Msg AggQC) (c : PC) : Unit × Bool × Bool :=
  Authority_VerifyPartialCert E.blkNil E.sigNil E.idsNil E.genesis E.qcHash E.qcView E.qcSig E.tcView E.tcSig E.pcHash
    E.pcSig E.participants E.len E.blkHash E.blkView E.blkBytes E.viewBytes E.quorumSize E.get E.verify E.msgNil E.aggNil E.msgBlock E.msgAgg E.blkQC
    E.aggSig E.aggView E.hasAgg E.vQC E.vAgg c

/-- `VerifyQuorumCert` as regenerated. -/
def verifyQC (E : Env QC TC PC Blk Hash Sig IDs Bytes Msg AggQC) (qc : QC) : Unit × Bool × Bool :=
  Authority_VerifyQuorumCert E.blkNil E.sigNil E.idsNil E.genesis E.qcHash E.qcView E.qcSig E.tcView E.tcSig E.pcHash
    E.pcSig E.participants E.len E.blkHash E.blkView E.blkBytes E.viewBytes E.quorumSize E.get E.verify E.msgNil E.aggNil E.msgBlock E.msgAgg E.blkQC
    E.aggSig E.aggView E.hasAgg E.vQC E.vAgg qc

/-- `VerifyTimeoutCert` as regenerated. -/
def verifyTC (E : Env QC TC PC Blk Hash Sig IDs Bytes Msg AggQC) (tc : TC) : Unit × Bool × Bool :=
  Authority_VerifyTimeoutCert E.blkNil E.sigNil E.idsNil E.genesis E.qcHash E.qcView E.qcSig E.tcView E.tcSig E.pcHash
    E.pcSig E.participants E.len E.blkHash E.blkView E.blkBytes E.viewBytes E.quorumSize E.get E.verify E.msgNil E.aggNil E.msgBlock E.msgAgg E.blkQC
    E.aggSig E.aggView E.hasAgg E.vQC E.vAgg tc

/-- What Go guarantees about the values the checks dereference: the genesis block is a block, a block the store
reports as found is a block, and the participant set of a (non-nil) signature is a set. -/
structure WellFormed (E : Env QC TC PC Blk Hash Sig IDs Bytes Msg AggQC) : Prop where
  genesis_ne : E.genesis ≠ E.blkNil
  get_ne : ∀ h, (E.get h).2 = true → (E.get h).1 ≠ E.blkNil
  participants_ne : ∀ s, s ≠ E.sigNil → E.participants s ≠ E.idsNil

/-- `VerifyQuorumCert` returns no error EXACTLY WHEN either the QC certifies the genesis block's hash in the genesis
block's own view, or it certifies another hash, carries a signature, the signature has at least
`config.QuorumSize()` participants, the certified block is in the store, the view claimed by the QC is that block's
view, and the signature verifies over that block's bytes. -/
theorem verifyQC_accepts_iff (E : Env QC TC PC Blk Hash Sig IDs Bytes Msg AggQC) (qc : QC) :
    (verifyQC E qc).2.1 = false ↔
      (E.qcHash qc = E.blkHash E.genesis ∧ E.qcView qc = E.blkView E.genesis) ∨
      (E.qcHash qc ≠ E.blkHash E.genesis ∧
        E.qcSig qc ≠ E.sigNil ∧
        E.quorumSize ≤ E.len (E.participants (E.qcSig qc)) ∧
        (E.get (E.qcHash qc)).2 = true ∧
        E.qcView qc = E.blkView (E.get (E.qcHash qc)).1 ∧
        E.verify (E.qcSig qc) (E.blkBytes (E.get (E.qcHash qc)).1) = false) := by
  unfold verifyQC Authority_VerifyQuorumCert
  simp only []
  repeat' split
  all_goals simp_all
  all_goals omega

/-- A QC for a block other than genesis that is accepted has at least `config.QuorumSize()` participants — the one
threshold every component must use (C20) — and its signature verified over the bytes of the stored block with the
certified hash, whose view is the view the QC claims. -/
theorem verifyQC_needs_quorum (E : Env QC TC PC Blk Hash Sig IDs Bytes Msg AggQC) (qc : QC)
    (hg : E.qcHash qc ≠ E.blkHash E.genesis) (h : (verifyQC E qc).2.1 = false) :
    E.quorumSize ≤ E.len (E.participants (E.qcSig qc)) ∧
    (E.get (E.qcHash qc)).2 = true ∧
    E.blkView (E.get (E.qcHash qc)).1 = E.qcView qc ∧
    E.verify (E.qcSig qc) (E.blkBytes (E.get (E.qcHash qc)).1) = false := by
  rcases (verifyQC_accepts_iff E qc).1 h with h1 | h2
  · exact absurd h1.1 hg
  · exact ⟨h2.2.2.1, h2.2.2.2.1, h2.2.2.2.2.1.symm, h2.2.2.2.2.2⟩

/-- `VerifyTimeoutCert` returns no error EXACTLY WHEN the view is 0, or the TC carries a signature with at least
`config.QuorumSize()` participants that verifies over the bytes of the TC's view. -/
theorem verifyTC_accepts_iff (E : Env QC TC PC Blk Hash Sig IDs Bytes Msg AggQC) (tc : TC) :
    (verifyTC E tc).2.1 = false ↔
      E.tcView tc = 0 ∨
      (E.tcSig tc ≠ E.sigNil ∧
        E.quorumSize ≤ E.len (E.participants (E.tcSig tc)) ∧
        E.verify (E.tcSig tc) (E.viewBytes (E.tcView tc)) = false) := by
  unfold verifyTC Authority_VerifyTimeoutCert
  simp only []
  repeat' split
  all_goals simp_all
  all_goals omega

/-- A TC for a view other than 0 that is accepted has at least `config.QuorumSize()` participants. -/
theorem verifyTC_needs_quorum (E : Env QC TC PC Blk Hash Sig IDs Bytes Msg AggQC) (tc : TC)
    (hv : E.tcView tc ≠ 0) (h : (verifyTC E tc).2.1 = false) :
    E.quorumSize ≤ E.len (E.participants (E.tcSig tc)) ∧
    E.verify (E.tcSig tc) (E.viewBytes (E.tcView tc)) = false := by
  rcases (verifyTC_accepts_iff E tc).1 h with h1 | h2
  · exact absurd h1 hv
  · exact ⟨h2.2.1, h2.2.2⟩

/-- `VerifyPartialCert` returns no error EXACTLY WHEN the certified block is in the store and the certificate's
signature verifies over that block's bytes.  (It checks neither that the signature is non-nil nor how many
participants it has: both are left to `Verify`.) -/
theorem verifyPC_accepts_iff (E : Env QC TC PC Blk Hash Sig IDs Bytes Msg AggQC) (c : PC) :
    (verifyPC E c).2.1 = false ↔
      (E.get (E.pcHash c)).2 = true ∧
      E.verify (E.pcSig c) (E.blkBytes (E.get (E.pcHash c)).1) = false := by
  unfold verifyPC Authority_VerifyPartialCert
  simp only []
  repeat' split
  all_goals simp_all

/-- No nil dereference in `VerifyQuorumCert`, on EVERY path (accepting or rejecting), for well-formed values; the
nil check of the signature is what makes `qcSignature.Participants()` safe. -/
theorem verifyQC_no_nil_deref (E : Env QC TC PC Blk Hash Sig IDs Bytes Msg AggQC) (wf : WellFormed E) (qc : QC) :
    (verifyQC E qc).2.2 = true := by
  have hg := wf.genesis_ne
  have hb := wf.get_ne (E.qcHash qc)
  have hp := wf.participants_ne (E.qcSig qc)
  unfold verifyQC Authority_VerifyQuorumCert
  simp only []
  repeat' split
  all_goals simp_all

/-- No nil dereference in `VerifyTimeoutCert`, on every path. -/
theorem verifyTC_no_nil_deref (E : Env QC TC PC Blk Hash Sig IDs Bytes Msg AggQC) (wf : WellFormed E) (tc : TC) :
    (verifyTC E tc).2.2 = true := by
  have hp := wf.participants_ne (E.tcSig tc)
  unfold verifyTC Authority_VerifyTimeoutCert
  simp only []
  repeat' split
  all_goals simp_all

/-- No nil dereference in `VerifyPartialCert`, on every path. -/
theorem verifyPC_no_nil_deref (E : Env QC TC PC Blk Hash Sig IDs Bytes Msg AggQC) (wf : WellFormed E) (c : PC) :
    (verifyPC E c).2.2 = true := by
  have hb := wf.get_ne (E.pcHash c)
  unfold verifyPC Authority_VerifyPartialCert
  simp only []
  repeat' split
  all_goals simp_all

/-- The flag is exact, not merely sufficient: the only dereferences `VerifyQuorumCert` makes on an ACCEPTING path are
of the genesis block, the participant set and the stored block — the flag is true there iff those are not nil. -/
theorem verifyQC_flag_on_accept (E : Env QC TC PC Blk Hash Sig IDs Bytes Msg AggQC) (qc : QC)
    (hg : E.qcHash qc ≠ E.blkHash E.genesis) (h : (verifyQC E qc).2.1 = false) :
    (verifyQC E qc).2.2 = true ↔
      (E.genesis ≠ E.blkNil ∧ E.participants (E.qcSig qc) ≠ E.idsNil ∧ (E.get (E.qcHash qc)).1 ≠ E.blkNil) := by
  revert h
  unfold verifyQC Authority_VerifyQuorumCert
  simp only []
  repeat' split
  all_goals simp_all [and_assoc]

end generic

/-! ## Non-vacuity: a small concrete environment

A QC is (certified hash, claimed view, signature), a TC (view, signature), a partial certificate (hash, signature);
a signature is (number of participants, the bytes signed) with `(-1, -1)` for nil; a participant set is its size
(`-1` for nil); a block is (hash, view) with genesis (0, 0) and nil (-1, -1); the store holds the blocks of hash
1..9, the block of hash h having view h; the bytes of a block are 100 + its hash, those of a view 200 + the view;
the quorum size is 3; `Verify` reports an error unless the signature is over exactly those bytes. -/
def E0 : Env (Int × Int × Int × Int) (Int × Int × Int) (Int × Int × Int) (Int × Int) Int (Int × Int) Int Int
    (Int × Int) Int where
  blkNil := (-1, -1)
  sigNil := (-1, -1)
  idsNil := -1
  genesis := (0, 0)
  qcHash := fun q => q.1
  qcView := fun q => q.2.1
  qcSig := fun q => q.2.2
  tcView := fun t => t.1
  tcSig := fun t => t.2
  pcHash := fun c => c.1
  pcSig := fun c => c.2
  participants := fun s => s.1
  len := fun n => n
  blkHash := fun b => b.1
  blkView := fun b => b.2
  blkBytes := fun b => 100 + b.1
  viewBytes := fun v => 200 + v
  quorumSize := 3
  get := fun h => if 1 ≤ h ∧ h ≤ 9 then ((h, h), true) else ((-1, -1), false)
  verify := fun s m => decide (s.2 ≠ m)
  msgNil := (-1, -1)
  aggNil := -1
  msgBlock := fun m => (m.1, m.1)
  msgAgg := fun m => m.2
  blkQC := fun b => (b.1 - 1, b.2 - 1, 3, 100 + (b.1 - 1))
  aggSig := fun a => if a = 0 then (-1, -1) else (3, a)
  aggView := fun a => a
  hasAgg := true
  vQC := fun q => decide (q.2.2.1 < 3)
  vAgg := fun a => ((a, a, 3, 100 + a), decide (a > 9))

/-- A QC for block 5 in view 5 with a quorum of 3 signatures over block 5 is accepted (no error, no nil
dereference), and so is the genesis QC with a nil signature … -/
example : verifyQC E0 (5, 5, 3, 105) = ((), false, true) ∧ verifyQC E0 (0, 0, -1, -1) = ((), false, true) := by decide
/-- … one participant below the quorum is rejected … -/
example : (verifyQC E0 (5, 5, 2, 105)).2.1 = true := by decide
/-- … the same signature relabelled with another view is rejected, also for genesis, and so is a nil signature. -/
example : (verifyQC E0 (5, 6, 3, 105)).2.1 = true ∧ (verifyQC E0 (0, 4, -1, -1)).2.1 = true ∧
    verifyQC E0 (5, 5, -1, -1) = ((), true, true) := by decide
/-- Timeout certificates: a quorum over the view's bytes is accepted; below the quorum, or signed for another view,
or nil: rejected; view 0 is accepted as is. -/
example : verifyTC E0 (4, 3, 204) = ((), false, true) ∧ (verifyTC E0 (4, 2, 204)).2.1 = true ∧
    (verifyTC E0 (5, 3, 204)).2.1 = true ∧ (verifyTC E0 (4, -1, -1)).2.1 = true ∧
    verifyTC E0 (0, -1, -1) = ((), false, true) := by decide
/-- Partial certificates: accepted for a stored block, rejected for an unknown block or other bytes. -/
example : verifyPC E0 (5, 1, 105) = ((), false, true) ∧ (verifyPC E0 (12, 1, 112)).2.1 = true ∧
    (verifyPC E0 (5, 1, 106)).2.1 = true := by decide

/-! ## `VerifyAnyQC` (S22)

`VerifyAnyQC` as regenerated.  Its two calls of sibling methods are parameters of the environment: `vQC` stands for
`c.VerifyQuorumCert` and `vAgg` for `c.VerifyAggregateQC` (not translated), `true` = an error. -/
section anyqc
variable {QC TC PC Blk Hash Sig IDs Bytes Msg AggQC : Type} [DecidableEq Blk] [DecidableEq Hash] [DecidableEq Sig] [DecidableEq IDs]
  [DecidableEq Msg] [DecidableEq AggQC]

/-- `VerifyAnyQC` as regenerated, on an environment. -/
def verifyAnyQC (E : Env QC TC PC Blk Hash Sig IDs Bytes Msg AggQC) (m : Msg) : Unit × Bool × Bool :=
  Authority_VerifyAnyQC E.blkNil E.sigNil E.idsNil E.genesis E.qcHash E.qcView E.qcSig E.tcView E.tcSig E.pcHash
    E.pcSig E.participants E.len E.blkHash E.blkView E.blkBytes E.viewBytes E.quorumSize E.get E.verify E.msgNil E.aggNil
    E.msgBlock E.msgAgg E.blkQC E.aggSig E.aggView E.hasAgg E.vQC E.vAgg m

/-- `VerifyAnyQC` returns no error EXACTLY WHEN `VerifyQuorumCert` accepts the block's own QC and, if aggregate QCs are
enabled and the proposal carries one, that aggregate QC has a signature, `VerifyAggregateQC` accepts it, and the
block's QC has the view and the block hash of the high QC `VerifyAggregateQC` returned. -/
theorem verifyAnyQC_accepts_iff (E : Env QC TC PC Blk Hash Sig IDs Bytes Msg AggQC) (m : Msg) :
    (verifyAnyQC E m).2.1 = false ↔
      E.vQC (E.blkQC (E.msgBlock m)) = false ∧
      (E.hasAgg = true ∧ E.msgAgg m ≠ E.aggNil →
        E.aggSig (E.msgAgg m) ≠ E.sigNil ∧
        (E.vAgg (E.msgAgg m)).2 = false ∧
        E.qcView (E.blkQC (E.msgBlock m)) = E.qcView (E.vAgg (E.msgAgg m)).1 ∧
        E.qcHash (E.blkQC (E.msgBlock m)) = E.qcHash (E.vAgg (E.msgAgg m)).1) := by
  unfold verifyAnyQC Authority_VerifyAnyQC
  simp only []
  repeat' split
  all_goals simp_all
  rename_i hne
  intro _ hv hh
  rcases hne with hne | hne
  · exact hne hv
  · exact hne hh

/-- Whatever the aggregate QC, an accepted proposal's own block QC passed `VerifyQuorumCert`. -/
theorem verifyAnyQC_always_verifies_block_qc (E : Env QC TC PC Blk Hash Sig IDs Bytes Msg AggQC) (m : Msg)
    (h : (verifyAnyQC E m).2.1 = false) : E.vQC (E.blkQC (E.msgBlock m)) = false :=
  ((verifyAnyQC_accepts_iff E m).1 h).1

end anyqc

/-- In `E0` a proposal is (hash = view of its block, aggregate QC), nil = (-1, -1); the block's QC certifies the
previous hash in the previous view; an aggregate QC is a number (nil = -1, 0 has a nil signature) whose high QC is for
that hash and view; `vQC` only checks the number of participants.  A proposal for block 6 with aggregate QC 5, or
none, is accepted; with aggregate QC 4 (another high QC), a nil signature, or one `VerifyAggregateQC` rejects: not. -/
example : verifyAnyQC E0 (6, 5) = ((), false, true) ∧ verifyAnyQC E0 (6, -1) = ((), false, true) ∧
    (verifyAnyQC E0 (6, 4)).2.1 = true ∧ (verifyAnyQC E0 (6, 0)).2.1 = true ∧ (verifyAnyQC E0 (12, 11)).2.1 = true := by
  decide

end HsVerif.Props.C02Gen
