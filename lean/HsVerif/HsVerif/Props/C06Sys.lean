import HsVerif.Props.C06
import HsVerif.Props.C01Ledger
import HsVerif.Props.C01FastSys
/-! C06, the cross-replica clause: "for any two honest replicas the executed command sequences are
prefix-related" — composed from C01's ledger theorem for the system of replica models
(Props/C01Ledger.lean: the commit logs of two honest replicas are prefix-related) and C06's
`executed_prefix` (the application's filter turns prefix-related command streams into
prefix-related executions).  `cmdsOf` is how a block's payload is read as client commands; it is a
parameter: all that matters is that it is a function of the block.  Hypotheses as in
`ledgers_prefix_related` (chained / simplified HotStuff, ECDSA / EdDSA, at most f Byzantine,
content addressing `CA'`, no internal commit events injected from outside). -/
namespace HsVerif.Props.C06Sys
open HsVerif.Model HsVerif.Props.C06 HsVerif.Props.C01Sys HsVerif.Props.C01SysWF HsVerif.Props.C01Ledger HsVerif.SysLedger HsVerif.SysSafety

/-- the command stream a ledger hands to the application, block by block -/
def stream (cmdsOf : Block → List Cmd) (l : List Block) : List Cmd := l.flatMap cmdsOf

theorem stream_prefix (cmdsOf : Block → List Cmd) (a b : List Block) (h : a <+: b) :
    stream cmdsOf a <+: stream cmdsOf b := by
  obtain ⟨t, rfl⟩ := h
  simp only [stream, List.flatMap_append]
  exact List.prefix_append _ _

/-- **The executed command sequences of any two honest replicas are prefix-related** (system of
replica models, any adversary of the model). -/
theorem executed_prefix_related (k : Keys) (C : SysCfg) (hk : KeysOK k) (hn : 1 ≤ C.n) (hf : FewFaulty C)
    (hsch : C.scheme ≠ .bls12) (hrl : C.rules ≠ .fast) (blk : Hash → Block) (acts : List SysAct)
    (hacts : ∀ a ∈ acts, a.noCommit = true) (hca : CA' (sysRunL k C acts).1 blk)
    (cmdsOf : Block → List Cmd) (i j : Nat) (hi : i ∈ C.honest) (hj : j ∈ C.honest) :
    execFilter [] (stream cmdsOf ((sysRunL k C acts).2 i)) <+: execFilter [] (stream cmdsOf ((sysRunL k C acts).2 j)) ∨
    execFilter [] (stream cmdsOf ((sysRunL k C acts).2 j)) <+: execFilter [] (stream cmdsOf ((sysRunL k C acts).2 i)) := by
  rcases ledgers_prefix_related k C hk hn hf hsch hrl blk acts hacts hca i j hi hj with h | h
  · exact Or.inl (executed_prefix _ _ (stream_prefix cmdsOf _ _ h))
  · exact Or.inr (executed_prefix _ _ (stream_prefix cmdsOf _ _ h))

/-- the same for Fast-HotStuff (through `C01FastSys.ledgers_prefix_related_fast`; content addressing `CA`) -/
theorem executed_prefix_related_fast (k : Keys) (C : SysCfg) (hk : KeysOK k) (hn : 1 ≤ C.n) (hf : FewFaulty C)
    (hsch : C.scheme ≠ .bls12) (hrl : C.rules = .fast) (blk : Hash → Block) (acts : List SysAct)
    (hacts : ∀ a ∈ acts, a.noCommit = true) (hca : CA (sysRunL k C acts).1 blk)
    (cmdsOf : Block → List Cmd) (i j : Nat) (hi : i ∈ C.honest) (hj : j ∈ C.honest) :
    execFilter [] (stream cmdsOf ((sysRunL k C acts).2 i)) <+: execFilter [] (stream cmdsOf ((sysRunL k C acts).2 j)) ∨
    execFilter [] (stream cmdsOf ((sysRunL k C acts).2 j)) <+: execFilter [] (stream cmdsOf ((sysRunL k C acts).2 i)) := by
  rcases HsVerif.Props.C01FastSys.ledgers_prefix_related_fast k C hk hn hf hsch hrl blk acts hacts hca i j hi hj with h | h
  · exact Or.inl (executed_prefix _ _ (stream_prefix cmdsOf _ _ h))
  · exact Or.inr (executed_prefix _ _ (stream_prefix cmdsOf _ _ h))

/-- … and no command (client id, sequence number) is executed twice along a ledger, whatever the
blocks contain -/
theorem executed_once (cmdsOf : Block → List Cmd) (l : List Block) :
    ((execFilter [] (stream cmdsOf l)).map (fun c => (c.client, c.seq))).Nodup :=
  executed_nodup_ids _

end HsVerif.Props.C06Sys
