import HsVerif.Props.C01Safety
import HsVerif.Proofs.SysLedger
/-! C01, ledger layer (task S5) — THE COMMIT LOGS OF HONEST REPLICAS ARE HASH CHAINS FROM GENESIS AND
PREFIX-RELATED.  Property theorems only; helpers in Proofs/ReplicaLog.lean (replica level) and
Proofs/SysLedger.lean (system level).

Setting: the system of replica models (Model/Sys.lean) and the standing hypotheses H of
`C01Safety.sys_safety`: `KeysOK k`, `1 ≤ C.n`, `FewFaulty C`, ECDSA / EdDSA, chained or simplified
HotStuff, `blk : Hash → Block` with content addressing `CA'` — assumed of the FINAL state of a run only
(`ca'_downward`: `CA'` of the state after an action gives `CA'` of the state before it, because block maps
and ghost histories only grow; `pruneToHeight` prunes the height index, not the block map).

The run with ledgers: `sysStepL k C (σ, L) a` is `sysStep k C σ a` (`sysStepL_is_sysStep`) and appends
the blocks of the `Out.commit` outputs of the step that replica `i` takes in `a` to `L i`;
`sysRunL k C acts` folds it from `(sysInit k C, fun _ => [])` (`sysRunL_is_sysRun`).

ONE CORRECTION to the statements as asked: `SysAct.deliver i e` delivers ANY event, including the
replica-internal event `Ev.commit b`, which `tick` turns into the output `Out.commit b` for an arbitrary
block `b`.  With such a delivery the ledger is arbitrary (`ledger_counterexample`, evaluated by the
kernel), so `ledger_is_chain`, `ledgers_prefix_related` and `ledger_nodup` carry the hypothesis
`∀ a ∈ acts, a.noCommit = true`: no action of the run delivers an `Ev.commit` event (the committer's
events are internal to the replica: committer → event loop → executor; no message handler produces
them).  All other events, including `.exec`, `.abort`, `.viewChange`, remain arbitrary.
`committed_view_monotone_sys` needs neither this nor H.

  1. replica level: `step_log`, `start_log` (one step from any state with no commit event in the deferred
     lists), `committed_view_monotone_step`;
  2. system level: `anchor_is_previous_commit`, `segments_continue_log`, `ca'_downward`, `ledger_inv`;
  3. `ledger_is_chain`, `ledgers_prefix_related`, `ledger_nodup`, `committed_view_monotone_sys`;
  4. non-vacuity (`sf_ledgers`, `sf_ledger_theorems_apply`) and the counterexample.
Nothing is partial. -/
namespace HsVerif.Props.C01Ledger
open HsVerif.Model HsVerif.Props.C01Sys HsVerif.Props.C01SysWF HsVerif.Props.C01Safety HsVerif.SysSafety HsVerif.SysLedger HsVerif.Safety

/-- a hash-linked chain with strictly increasing views, starting after a block of hash `h` and view `v`:
every block's parent hash is the hash of the block before it -/
inductive HashChain : Hash → Nat → List Block → Prop
  | nil (h : Hash) (v : Nat) : HashChain h v []
  | cons (h : Hash) (v : Nat) (b : Block) (rest : List Block) :
      b.parent = h → v < b.view → HashChain b.hash b.view rest → HashChain h v (b :: rest)

theorem hashChain_of_lchain (blk : Hash → Block) (prev : Block) (l : List Block) (h : LChain blk prev l) :
    HashChain prev.hash prev.view l := by
  induction l generalizing prev with
  | nil => exact .nil _ _
  | cons b rest ih => exact .cons _ _ b rest h.1 h.2.1 (ih b h.2.2.2)

theorem chainLog_of_lchain (C : SysCfg) (σ : SysState) (blk : Hash → Block) (prev : Block) (l : List Block)
    (hp : prev = blk prev.hash) (h : LChain blk prev l) : ChainLog (SysAbs C σ blk) prev l := by
  induction l generalizing prev with
  | nil => trivial
  | cons b rest ih =>
    obtain ⟨h1, h2, h3, h4⟩ := h
    refine ⟨?_, h2, ih b h3 h4⟩
    have hne : b ≠ genesisBlock := by
      intro e; rw [e] at h2; exact Nat.not_lt_zero _ h2
    rw [sysAbs_par, if_neg hne, h1]; exact hp.symm

theorem logHead_eq_lastOr (C : SysCfg) (σ : SysState) (blk : Hash → Block) (prev : Block) (l : List Block) :
    logHead (S := SysAbs C σ blk) prev l = lastOr prev l := by
  induction l generalizing prev with
  | nil => rfl
  | cons b rest ih => exact ih b

theorem hashChain_views (h : Hash) (v : Nat) (l : List Block) (hc : HashChain h v l) :
    (∀ b ∈ l, v < b.view) ∧ l.Pairwise (fun x y => x.view < y.view) := by
  induction hc with
  | nil h v => exact ⟨(fun _ hb => by cases hb), List.Pairwise.nil⟩
  | cons h v b rest _ h2 _ ih =>
    obtain ⟨i1, i2⟩ := ih
    refine ⟨?_, List.Pairwise.cons (fun y hy => i1 y hy) i2⟩
    intro x hx
    rcases List.mem_cons.mp hx with rfl | hx
    · exact h2
    · exact Nat.lt_trans h2 (i1 x hx)


/-! ### 1. replica level -/

/-- **The log invariant of one delivered event** (ANY state `s` in whose deferred lists no commit event
waits, ANY event `e`).  With `s'` the state after the step and `outs` its outputs: the ghost history grew
by `new`, still no commit event is deferred, and the commit outputs of the step followed by the commit
events still queued are the commit events queued before, then `e` if it is a commit event, then a list `l`
of SEGMENTS (`Segs`): each segment is a non-empty path of stored parent links up from an anchor whose
view is at most that of the block committed before the segment, all its blocks have higher views than
that block, and its last block — the committed block after the segment — was returned by the commit
rule (`CommitChain`) for a block voted for in this step; the last segment ends at `s'.committed`. -/
theorem step_log (k : Keys) (c : RCfg) (s : RState) (e : Ev) (hw : waitCommits s = []) :
    ∃ new l, (step k c s e).1.ghost = s.ghost ++ new ∧ waitCommits (step k c s e).1 = [] ∧
      commitsOf (step k c s e).2 ++ queuedCommits (step k c s e).1 = (queuedCommits s ++ evCommits [e]) ++ l ∧
      Segs c (step k c s e).1 new s.committed l (step k c s e).1.committed :=
  HsVerif.Model.step_log k c s e hw

/-- the same for `Start` -/
theorem start_log (k : Keys) (c : RCfg) (s : RState) (hw : waitCommits s = []) :
    ∃ new l, (start k c s).1.ghost = s.ghost ++ new ∧ waitCommits (start k c s).1 = [] ∧
      commitsOf (start k c s).2 ++ queuedCommits (start k c s).1 = queuedCommits s ++ l ∧
      Segs c (start k c s).1 new s.committed l (start k c s).1.committed :=
  HsVerif.Model.start_log k c s hw

/-- `Segs`, unfolded one segment -/
example (c : RCfg) (s : RState) (vs : List GRec) (c0 c1 a t : Block) (l seg : List Block)
    (h : Segs c s vs c0 l c1) (hne : seg ≠ []) (hp : Path s a seg t) (hav : a.view ≤ c1.view)
    (hsv : ∀ x ∈ seg, c1.view < x.view) (hcc : ∃ x id, GRec.vote x id ∈ vs ∧ CommitChain c s x t) :
    Segs c s vs c0 (l ++ seg) t := .snoc l c1 a seg t h hne hp hav hsv hcc

/-- **The committed view never decreases in a step** (replica level; closes the gap of C07 — no system
fact is needed: the committer only ever moves to a block whose view is above that of the block committed
before the call), and the hypothesis is kept, so the statement chains along any sequence of events -/
theorem committed_view_monotone_step (k : Keys) (c : RCfg) (s : RState) (e : Ev) (hw : waitCommits s = []) :
    s.committed.view ≤ (step k c s e).1.committed.view ∧ waitCommits (step k c s e).1 = [] :=
  ⟨(HsVerif.Model.step_log k c s e hw).view_le, (HsVerif.Model.step_log k c s e hw).wait⟩

/-! ### 2. system level -/

/-- **Every anchor is the previously committed block.**  In a reachable state under H: a path of stored
parent links of an honest replica, down from a block `t` that is the tail of a three-chain (or genesis)
through blocks whose views are all above that of `c1` — also the tail of a three-chain, or genesis — to
an anchor `a` of view at most `c1`'s, ends exactly at `c1`; and the path is a hash-linked chain with
strictly increasing views whose blocks are the blocks of their hashes. -/
theorem anchor_is_previous_commit (k : Keys) (C : SysCfg) (hk : KeysOK k) (σ : SysState) (hr : Reach k C σ)
    (hn : 1 ≤ C.n) (hf : FewFaulty C) (hsch : C.scheme ≠ .bls12) (hrl : C.rules ≠ .fast)
    (blk : Hash → Block) (hca : CA' σ blk) (i : Nat) (s : RState) (hs : σ.reps.lookup i = some s)
    (a t c1 : Block) (seg : List Block) (hp : Path s a seg t) (hne : seg ≠ [])
    (ht : Tip C σ blk t) (hc1 : Tip C σ blk c1) (hsv : ∀ x ∈ seg, c1.view < x.view) (hav : a.view ≤ c1.view) :
    a = c1 ∧ LChain blk c1 seg ∧ lastOr c1 seg = t := by
  have X : Ctx k C σ blk := ⟨hk, hr, hn, hf, hsch, hrl, hca⟩
  have hext := X.tip_ext ht hc1 (hsv t (hp.top_mem hne))
  have ha := X.path_anchor hs (X.tip_gc hc1) hp (X.tip_gc ht) hext hsv hav
  subst ha
  exact ⟨rfl, X.path_chain hs hp (X.tip_gc ht) (fun x hx => by have := hsv x hx; omega)⟩

/-- **The segments of a step continue the log**: under H for the state `σ` AFTER the step, the blocks `l`
appended by the successive commits of a step of honest replica `i` (`Segs`, over votes that are in its
ghost history) after a committed block `c0` (genesis or the tail of a three-chain) form a hash-linked
chain after `c0` with strictly increasing views, ending in the new committed block, again the tail of a
three-chain (or genesis). -/
theorem segments_continue_log (k : Keys) (C : SysCfg) (hk : KeysOK k) (σ : SysState) (hr : Reach k C σ)
    (hn : 1 ≤ C.n) (hf : FewFaulty C) (hsch : C.scheme ≠ .bls12) (hrl : C.rules ≠ .fast)
    (blk : Hash → Block) (hca : CA' σ blk) (i : Nat) (s : RState) (hs : σ.reps.lookup i = some s)
    (vs : List GRec) (hsub : ∀ r, r ∈ vs → r ∈ s.ghost) (c0 t : Block) (l : List Block) (hc0 : Tip C σ blk c0)
    (h : Segs (C.rcfg i) s vs c0 l t) : LChain blk c0 l ∧ lastOr c0 l = t ∧ Tip C σ blk t :=
  Ctx.segs_chain ⟨hk, hr, hn, hf, hsch, hrl, hca⟩ hs hsub hc0 h

/-- **`CA'` is downward closed along a run** -/
theorem ca'_downward (k : Keys) (C : SysCfg) (σ : SysState) (a : SysAct) (blk : Hash → Block)
    (h : CA' (sysStep k C σ a) blk) : CA' σ blk := ca'_back k C σ a blk h

theorem ca'_downward_run (k : Keys) (C : SysCfg) (blk : Hash → Block) (acts more : List SysAct)
    (h : CA' (sysRun k C (acts ++ more)) blk) : CA' (sysRun k C acts) blk := ca'_back_run k C blk acts more h

/-- the run with ledgers is the run -/
theorem sysStepL_is_sysStep (k : Keys) (C : SysCfg) (σ : SysState) (L : Nat → List Block) (a : SysAct) :
    (sysStepL k C (σ, L) a).1 = sysStep k C σ a := rfl

theorem sysRunL_is_sysRun (k : Keys) (C : SysCfg) (acts : List SysAct) : (sysRunL k C acts).1 = sysRun k C acts :=
  sysRunL_fst k C acts

/-- **The ledger invariant**: for an honest replica `i` in state `s` at the end of a run, nothing is in
`s.out`, no commit event is deferred, and the ledger followed by the pending log (`pending s`: the commit
events still queued) is a hash-linked chain from genesis (`LChain`) whose last block is `s.committed`
(`s.committed = genesisBlock` when it is empty). -/
theorem ledger_inv (k : Keys) (C : SysCfg) (hk : KeysOK k) (hn : 1 ≤ C.n) (hf : FewFaulty C)
    (hsch : C.scheme ≠ .bls12) (hrl : C.rules ≠ .fast) (blk : Hash → Block) (acts : List SysAct)
    (hacts : ∀ a ∈ acts, a.noCommit = true) (hca : CA' (sysRunL k C acts).1 blk) (i : Nat) (hi : i ∈ C.honest) :
    ∃ s, (sysRunL k C acts).1.reps.lookup i = some s ∧ RepLedger blk ((sysRunL k C acts).2 i) s := by
  rw [sysRunL_fst] at hca ⊢
  obtain ⟨s, hs⟩ := (reach_inv k C hk _ (reach_run k C acts)).dom i hi
  exact ⟨s, hs, sysRunL_inv k C hk hn hf hsch hrl blk acts hacts hca i s hs⟩

/-! ### 3. the ledgers -/

/-- **Each honest replica's committed sequence is a single hash-linked chain growing from genesis**: the
first block's parent hash is the genesis hash, every block's parent hash is the hash of the block
committed immediately before it, views strictly increase (`HashChain genesisHash 0`); and it is a commit
log of the abstract system (`Safety.ChainLog`). -/
theorem ledger_is_chain (k : Keys) (C : SysCfg) (hk : KeysOK k) (hn : 1 ≤ C.n) (hf : FewFaulty C)
    (hsch : C.scheme ≠ .bls12) (hrl : C.rules ≠ .fast) (blk : Hash → Block) (acts : List SysAct)
    (hacts : ∀ a ∈ acts, a.noCommit = true) (hca : CA' (sysRunL k C acts).1 blk) (i : Nat) (hi : i ∈ C.honest) :
    HashChain genesisHash 0 ((sysRunL k C acts).2 i) ∧
    ChainLog (SysAbs C (sysRunL k C acts).1 blk) genesisBlock ((sysRunL k C acts).2 i) := by
  obtain ⟨s, hs, hl⟩ := ledger_inv k C hk hn hf hsch hrl blk acts hacts hca i hi
  have h1 := ((lchain_append blk _ _ _).mp hl.chain).1
  exact ⟨hashChain_of_lchain blk genesisBlock _ h1,
    chainLog_of_lchain C _ blk genesisBlock _ hca.1.1.symm h1⟩

/-- **The committed sequences of any two honest replicas are prefix-related.** -/
theorem ledgers_prefix_related (k : Keys) (C : SysCfg) (hk : KeysOK k) (hn : 1 ≤ C.n) (hf : FewFaulty C)
    (hsch : C.scheme ≠ .bls12) (hrl : C.rules ≠ .fast) (blk : Hash → Block) (acts : List SysAct)
    (hacts : ∀ a ∈ acts, a.noCommit = true) (hca : CA' (sysRunL k C acts).1 blk)
    (i j : Nat) (hi : i ∈ C.honest) (hj : j ∈ C.honest) :
    (sysRunL k C acts).2 i <+: (sysRunL k C acts).2 j ∨ (sysRunL k C acts).2 j <+: (sysRunL k C acts).2 i := by
  obtain ⟨si, hsi, hli⟩ := ledger_inv k C hk hn hf hsch hrl blk acts hacts hca i hi
  obtain ⟨sj, hsj, hlj⟩ := ledger_inv k C hk hn hf hsch hrl blk acts hacts hca j hj
  have hr : Reach k C (sysRunL k C acts).1 := by rw [sysRunL_fst]; exact reach_run k C acts
  have ci := chainLog_of_lchain C (sysRunL k C acts).1 blk genesisBlock _ hca.1.1.symm hli.chain
  have cj := chainLog_of_lchain C (sysRunL k C acts).1 blk genesisBlock _ hca.1.1.symm hlj.chain
  have hg := (sys_gen C (sysRunL k C acts).1 blk).2
  have key : ∀ (l1 l2 F1 F2 : List Block), l1 <+: F1 → l2 <+: F2 → F2 <+: F1 → l1 <+: l2 ∨ l2 <+: l1 :=
    fun l1 l2 F1 F2 h1 h2 h3 => List.prefix_or_prefix_of_prefix h1 (List.IsPrefix.trans h2 h3)
  rcases sys_commits_agree k C hk _ hr hn hf hsch hrl blk hca i j si sj hsi hsj with h | h
  · have := logs_prefix (S := SysAbs C (sysRunL k C acts).1 blk) hg _ _ ci cj
      (by rw [logHead_eq_lastOr, logHead_eq_lastOr, hli.last, hlj.last]; exact h)
    exact key _ _ _ _ (List.prefix_append _ _) (List.prefix_append _ _) this
  · have := logs_prefix (S := SysAbs C (sysRunL k C acts).1 blk) hg _ _ cj ci
      (by rw [logHead_eq_lastOr, logHead_eq_lastOr, hli.last, hlj.last]; exact h)
    exact (key _ _ _ _ (List.prefix_append _ _) (List.prefix_append _ _) this).symm

/-- **The view of a replica's committed block never decreases**, across ANY action from any reachable
state (closes the gap of C07; no hypothesis beyond reachability is needed). -/
theorem committed_view_monotone_sys (k : Keys) (C : SysCfg) (σ : SysState) (hr : Reach k C σ) (a : SysAct)
    (i : Nat) (s s' : RState) (hs : σ.reps.lookup i = some s) (hs' : (sysStep k C σ a).reps.lookup i = some s') :
    s.committed.view ≤ s'.committed.view := by
  obtain ⟨s1, h1, h2⟩ := sysStep_rep_view k C σ a i s' hs'
  have : s1 = s := by
    have : some s1 = some s := by rw [← h1, ← hs]
    cases this; rfl
  subst this
  exact (h2 (reach_wait k C σ hr i s1 hs)).2

/-- **No block is committed twice**: views strictly increase along a ledger. -/
theorem ledger_nodup (k : Keys) (C : SysCfg) (hk : KeysOK k) (hn : 1 ≤ C.n) (hf : FewFaulty C)
    (hsch : C.scheme ≠ .bls12) (hrl : C.rules ≠ .fast) (blk : Hash → Block) (acts : List SysAct)
    (hacts : ∀ a ∈ acts, a.noCommit = true) (hca : CA' (sysRunL k C acts).1 blk) (i : Nat) (hi : i ∈ C.honest) :
    ((sysRunL k C acts).2 i).Pairwise (fun x y => x.view < y.view) ∧ ((sysRunL k C acts).2 i).Nodup := by
  have h := (hashChain_views _ _ _ (ledger_is_chain k C hk hn hf hsch hrl blk acts hacts hca i hi).1).2
  refine ⟨h, h.imp ?_⟩
  intro x y hxy e
  rw [e] at hxy; exact Nat.lt_irrefl _ hxy

/-! ### 4. non-vacuity, and the counterexample

The run `sfActs` of Props/C01Safety.lean (replicas 1 and 2 commit `P1`, replica 3 nothing): the ledgers
are `[P1]`, `[P1]`, `[]`; no action delivers a commit event; H holds of the final state
(`sys_safety_nonvacuous`), so the theorems apply.  Runs evaluated by the kernel (`decide +kernel`). -/
section NonVacuity

set_option maxRecDepth 100000 in
/-- the ledgers of the run, and no action of it delivers a commit event -/
theorem sf_ledgers : (sysRunL exKeys exCfg sfActs).2 1 = [exBlock] ∧ (sysRunL exKeys exCfg sfActs).2 2 = [exBlock] ∧
    (sysRunL exKeys exCfg sfActs).2 3 = [] ∧ (∀ a ∈ sfActs, a.noCommit = true) := by
  refine ⟨?_, ?_, ?_, ?_⟩ <;> decide +kernel

/-- H holds of the final state of the run with ledgers -/
theorem sf_ca' : CA' (sysRunL exKeys exCfg sfActs).1 sfBlk := by
  have hca : CA' sfState sfBlk := sys_safety_nonvacuous.2.2.2.2.2.2.1
  have e : (sysRunL exKeys exCfg sfActs).1 = sfState := sysRunL_fst exKeys exCfg sfActs
  rw [e]; exact hca

/-- the property theorems applied to the run: the ledger of replica 1 (`[P1]`) is a hash chain from
genesis without repetition, and the ledgers of replicas 3 (`[]`) and 1 are prefix-related -/
theorem sf_ledger_theorems_apply :
    HashChain genesisHash 0 ((sysRunL exKeys exCfg sfActs).2 1) ∧
    ((sysRunL exKeys exCfg sfActs).2 3 <+: (sysRunL exKeys exCfg sfActs).2 1 ∨
      (sysRunL exKeys exCfg sfActs).2 1 <+: (sysRunL exKeys exCfg sfActs).2 3) ∧
    ((sysRunL exKeys exCfg sfActs).2 1).Nodup := by
  obtain ⟨hk, _, hn, hf, hs, hrl, _, _⟩ := sys_safety_nonvacuous
  have ha := sf_ledgers.2.2.2
  have h1 : 1 ∈ exCfg.honest := by decide
  have h3 : 3 ∈ exCfg.honest := by decide
  exact ⟨(ledger_is_chain exKeys exCfg hk hn hf hs hrl sfBlk sfActs ha sf_ca' 1 h1).1,
    ledgers_prefix_related exKeys exCfg hk hn hf hs hrl sfBlk sfActs ha sf_ca' 3 1 h3 h1,
    (ledger_nodup exKeys exCfg hk hn hf hs hrl sfBlk sfActs ha sf_ca' 1 h1).2⟩

set_option maxRecDepth 100000 in
/-- the same run under simplified HotStuff -/
theorem sf_ledgers_simple : (sysRunL exKeys sfCfgS sfActs).2 1 = [exBlock] ∧ (sysRunL exKeys sfCfgS sfActs).2 2 = [exBlock] ∧
    (sysRunL exKeys sfCfgS sfActs).2 3 = [] := by
  refine ⟨?_, ?_, ?_⟩ <;> decide +kernel

/-- **Counterexample to the statements without `noCommit`**: the adversary delivers `Ev.commit badBlock`
to replica 1 in the initial state.  All of H holds of the final state (with `blk := fun _ => genesisBlock`:
only genesis is stored, nothing voted), replica 1 is honest, its ledger is `[badBlock]`, and that is not a
hash chain from genesis (the parent hash of `badBlock` is `"Y"`). -/
def badBlock : Block := { hash := "X", parent := "Y", view := 7, proposer := 4, qc := genesisQC, cmds := [] }

set_option maxRecDepth 100000 in
theorem ledger_counterexample : KeysOK exKeys ∧ 1 ≤ exCfg.n ∧ FewFaulty exCfg ∧ exCfg.scheme ≠ .bls12 ∧ exCfg.rules ≠ .fast ∧
    CA' (sysRunL exKeys exCfg [.deliver 1 (.commit badBlock)]).1 (fun _ => genesisBlock) ∧ 1 ∈ exCfg.honest ∧
    (sysRunL exKeys exCfg [.deliver 1 (.commit badBlock)]).2 1 = [badBlock] ∧
    ¬ HashChain genesisHash 0 ((sysRunL exKeys exCfg [.deliver 1 (.commit badBlock)]).2 1) := by
  have h : (sysRunL exKeys exCfg [.deliver 1 (.commit badBlock)]).2 1 = [badBlock] := by decide +kernel
  refine ⟨tmoMsgKey_ne_blkMsg, by decide, by unfold FewFaulty; decide, by decide, by decide,
    ca'_of_ca'Check _ _ (by decide +kernel), by decide, h, ?_⟩
  rw [h]
  intro hc
  cases hc with
  | cons _ _ _ _ h1 _ _ => exact absurd h1 (by decide)

end NonVacuity
end HsVerif.Props.C01Ledger
