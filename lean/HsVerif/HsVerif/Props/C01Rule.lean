import HsVerif.Proofs.ReplicaRule
import HsVerif.Props.C03
/-! C01, layer B — the lock rule of chained and simplified HotStuff in the replica model
(`Model/Replica.lean`, all handlers), in the vocabulary of `Proofs/StoreWalk.lean`
(`sget`, `StoreExt`, `RuleHolds`, `LockFrom`) and `Proofs/ReplicaRule.lean` (`Via`, `CommitChain`).
Property theorems only.

1. `Blockchain.Extends` answers `true` only for a walk along stored parent links, and such walks (like
   every stored-block lookup) survive every step.
2. A vote is cast only if the vote rule held against the lock of that moment: ONE-STEP theorems
   `vote_respects_lock` (`step`) and `vote_respects_lock_start` (`start`), for an arbitrary state.
   The lock moves only to a block two certificate links below a block voted for in the same step.
3. A positive answer of the commit rule is a three-chain (chained: direct parents, consecutive views;
   simplified: certificate links, consecutive views).
4. The committed block changes only to a block the commit rule returned in the same step.

Nothing here needs `c.rules ≠ .fast`: for Fast-HotStuff `RuleHolds` is `True` and the lock never
moves, so the statements hold trivially; they have content for `.chained` and `.simple`. -/
open Std.Do
set_option mvcgen.warning false
set_option linter.unusedVariables false
namespace HsVerif.Props.C01Rule
open HsVerif.Model HsVerif.Proofs HsVerif.Props.C03

/-! ### 1. `Extends` -/

/-- **`Extends` is sound**: if `extendsM b t` answers `true` in state `s`, then in the state it leaves
`b` reaches `t` along stored parent links, descending while the view is above `t`'s and ending on
`t`'s hash. -/
theorem extends_sound (b t : Block) (s : RState) (h : ((extendsM b t).run s).1 = true) :
    StoreExt ((extendsM b t).run s).2 b t :=
  HsVerif.Model.extends_sound b t s h

/-- **Stored walks are stable**: if every stored-block lookup of `s` gives the same answer in `s'`,
a walk of `s` is a walk of `s'`. -/
theorem storeExt_grows (s s' : RState) (b t : Block)
    (hg : ∀ h x, sget s h = some x → sget s' h = some x) (h : StoreExt s b t) : StoreExt s' b t :=
  HsVerif.Model.storeExt_grows s s' b t hg h

/-- Stored-block lookups survive the delivery of any event ... -/
theorem sget_stable_step (k : Keys) (c : RCfg) (s : RState) (e : Ev) (h : Hash) (x : Block)
    (hl : sget s h = some x) : sget (step k c s e).1 h = some x :=
  step_grows k c s e h x hl

/-- ... and `Start`. -/
theorem sget_stable_start (k : Keys) (c : RCfg) (s : RState) (h : Hash) (x : Block)
    (hl : sget s h = some x) : sget (start k c s).1 h = some x :=
  start_grows k c s h x hl

/-- A stored walk survives the delivery of any event ... -/
theorem storeExt_stable_step (k : Keys) (c : RCfg) (s : RState) (e : Ev) (b t : Block) (h : StoreExt s b t) :
    StoreExt (step k c s e).1 b t :=
  HsVerif.Model.storeExt_grows s _ b t (step_grows k c s e) h

/-- ... and any sequence of events. -/
theorem storeExt_stable_run (k : Keys) (c : RCfg) (es : List Ev) (s : RState) (b t : Block) (h : StoreExt s b t) :
    StoreExt (runEvents k c s es) b t := by
  induction es generalizing s with
  | nil => exact h
  | cons e es ih => exact ih _ (storeExt_stable_step k c s e b t h)

/-- `RuleHolds` (for a fixed lock value `L`) survives the delivery of any event. -/
theorem ruleHolds_stable_step (k : Keys) (c : RCfg) (s : RState) (e : Ev) (w L : Block) (h : RuleHolds c s w L) :
    RuleHolds c (step k c s e).1 w L :=
  ruleHolds_grows c s _ w L (step_grows k c s e) h

/-! ### 2. the vote rule -/

/-- **A positive answer of the vote rule is `RuleHolds` against the lock** (which the rule leaves
alone), in the state the rule leaves behind (it may have fetched blocks). -/
theorem voteRule_sound (c : RCfg) (v : Nat) (b : Block) (agg : Option AggQC) (s : RState)
    (h : ((voteRule c v b agg).run s).1 = true) :
    ((voteRule c v b agg).run s).2.lock = s.lock ∧ RuleHolds c ((voteRule c v b agg).run s).2 b s.lock := by
  have := run_res_of_triple _ _ _ (voteRule_rule c v b agg s.lock) s rfl
  exact ⟨this.1, this.2 h⟩

/-- **The voter's checks pass only if the vote rule held against the lock** (which they leave alone). -/
theorem voterVerify_sound (k : Keys) (c : RCfg) (id : Nat) (b : Block) (agg : Option AggQC) (s : RState)
    (h : ((voterVerify k c id b agg).run s).1 = .ok ()) :
    ((voterVerify k c id b agg).run s).2.lock = s.lock ∧ RuleHolds c ((voterVerify k c id b agg).run s).2 b s.lock := by
  have h1 := run_res_of_triple _ (fun _ => True) _ (voterVerify_rh k c id b agg) s trivial h
  have h2 := (lc_run _ (voterVerify_lc k c id b agg) s).1
  unfold RH at h1
  rw [h2] at h1
  exact ⟨h2, h1⟩

/-! the ghost history only grows by appending, handler by handler -/

theorem ghost_appends_voteFor (c : RCfg) (b : Block) (id : Nat) (s : RState) :
    ((voteFor c b id).run s).2.ghost = s.ghost ++ [.vote b id] := by
  have hv := run_res_of_triple _ (fun s' => VS s' = (s.ghost, s.lastVoted)) _ (voteFor_vs c b id s.ghost s.lastVoted) s rfl
  have := congrArg (fun x => x.1) hv
  simpa [VS] using this

theorem ghost_appends_onValidPropose (k : Keys) (c : RCfg) (id : Nat) (b : Block) (s : RState) :
    ((onValidPropose k c id b).run s).2.ghost = s.ghost ++ [.vote b id] := by
  have spec : ∀ g lv, ⦃fun s => ⌜VS s = (g, lv)⌝⦄ onValidPropose k c id b ⦃⇓ _ s => ⌜VS s = (g ++ [.vote b id], b.view)⌝⦄ := by
    intro g lv
    mvcgen [onValidPropose, tryCommit_frame, voteFor_vs, aggregateVote_frame]
    all_goals (simp only [VS, Prod.mk.injEq] at *)
    all_goals simp_all
  have hv := run_res_of_triple _ (fun s' => VS s' = (s.ghost, s.lastVoted)) _ (spec s.ghost s.lastVoted) s rfl
  have := congrArg (fun x => x.1) hv
  simpa [VS] using this

theorem ghost_appends_createAndPropose (k : Keys) (c : RCfg) (si : SyncInfo) (s : RState) :
    ∃ new, ((createAndPropose k c si).run s).2.ghost = s.ghost ++ new :=
  appends_of_vr c _ (fun s0 => createAndPropose_vr k c s0 si) s

theorem ghost_appends_collectVote (k : Keys) (c : RCfg) (id : Nat) (sig : Option Sig) (h : Hash) (d : Bool) (s : RState) :
    ((collectVote k c id sig h d).run s).2.ghost = s.ghost :=
  ghost_of_vs _ (collectVote_frame k c id sig h d) s

theorem ghost_appends_advanceView (k : Keys) (c : RCfg) (si : SyncInfo) (s : RState) :
    ∃ new, ((advanceView k c si).run s).2.ghost = s.ghost ++ new :=
  appends_of_vr c _ (fun s0 => advanceView_vr k c s0 si) s

theorem ghost_appends_onRemoteTimeout (k : Keys) (c : RCfg) (t : TimeoutMsg) (s : RState) :
    ∃ new, ((onRemoteTimeout k c t).run s).2.ghost = s.ghost ++ new :=
  appends_of_vr c _ (fun s0 => onRemoteTimeout_vr k c s0 t) s

theorem ghost_appends_onLocalTimeout (k : Keys) (c : RCfg) (s : RState) :
    ∃ new, ((onLocalTimeout k c).run s).2.ghost = s.ghost ++ new :=
  appends_of_vr c _ (fun s0 => onLocalTimeout_vr k c s0) s

theorem ghost_appends_onPropose (k : Keys) (c : RCfg) (id : Nat) (b : Block) (agg : Option AggQC) (s : RState) :
    ∃ new, ((onPropose k c id b agg).run s).2.ghost = s.ghost ++ new :=
  appends_of_vr c _ (fun s0 => onPropose_vr k c s0 id b agg) s

theorem ghost_appends_tick (k : Keys) (c : RCfg) (s : RState) :
    ∃ new, ((tick k c).run s).2.ghost = s.ghost ++ new :=
  appends_of_vr c _ (fun s0 => tick_vr k c s0) s

theorem ghost_appends_runLoop (k : Keys) (c : RCfg) (fuel : Nat) (s : RState) :
    ∃ new, ((runLoop k c fuel).run s).2.ghost = s.ghost ++ new :=
  appends_of_vr c _ (fun s0 => runLoop_vr k c s0 fuel) s

/-- **Delivering an event only appends to the ghost history.** -/
theorem ghost_appends_step (k : Keys) (c : RCfg) (s : RState) (e : Ev) :
    ∃ new, (step k c s e).1.ghost = s.ghost ++ new := by
  obtain ⟨new, hg, _⟩ := step_vr k c s e
  exact ⟨new, hg⟩

theorem ghost_appends_start (k : Keys) (c : RCfg) (s : RState) :
    ∃ new, (start k c s).1.ghost = s.ghost ++ new := by
  obtain ⟨new, hg, _⟩ := start_vr k c s
  exact ⟨new, hg⟩

/-- **A vote is cast only if the vote rule holds against the lock** (one delivered event, ANY state
`s`, ANY event).  Let `s'` be the state after the step and `new` what the step appended to the
ghost history.  For every vote record `GRec.vote w id` in `new` there is a block `L` — the lock at
the moment the vote rule was evaluated for `w` — such that
* `s.lock.view ≤ L.view ≤ s'.lock.view`,
* `RuleHolds c s' w L`: chained — the block certified by `w`'s QC is stored and has a view above
  `L`'s, or `w` reaches `L` along stored parent links; simplified — the block certified by `w`'s QC is
  stored and its view is not below `L`'s,
* `L` is the lock `s.lock` the step started with, or `L` lies two certificate links (stored blocks)
  below a block voted for in this very step. -/
theorem vote_respects_lock (k : Keys) (c : RCfg) (s : RState) (e : Ev) (new : List GRec)
    (hnew : (step k c s e).1.ghost = s.ghost ++ new) (w : Block) (id : Nat) (hm : GRec.vote w id ∈ new) :
    ∃ L, s.lock.view ≤ L.view ∧ L.view ≤ (step k c s e).1.lock.view ∧ RuleHolds c (step k c s e).1 w L ∧
      (L = s.lock ∨ ∃ x id', GRec.vote x id' ∈ new ∧ Via c (step k c s e).1 x L) := by
  obtain ⟨new', hg, hc⟩ := step_vr k c s e
  have : new = new' := List.append_cancel_left (hnew.symm.trans hg)
  subst this
  exact hc.rule w id hm

/-- the same for `Start` -/
theorem vote_respects_lock_start (k : Keys) (c : RCfg) (s : RState) (new : List GRec)
    (hnew : (start k c s).1.ghost = s.ghost ++ new) (w : Block) (id : Nat) (hm : GRec.vote w id ∈ new) :
    ∃ L, s.lock.view ≤ L.view ∧ L.view ≤ (start k c s).1.lock.view ∧ RuleHolds c (start k c s).1 w L ∧
      (L = s.lock ∨ ∃ x id', GRec.vote x id' ∈ new ∧ Via c (start k c s).1 x L) := by
  obtain ⟨new', hg, hc⟩ := start_vr k c s
  have : new = new' := List.append_cancel_left (hnew.symm.trans hg)
  subst this
  exact hc.rule w id hm

/-- **The lock moves only to the grandparent (by certificate links) of a block voted for in the same
step**, and never to a lower view. -/
theorem lock_moves_to_voted_grandparent (k : Keys) (c : RCfg) (s : RState) (e : Ev) (new : List GRec)
    (hnew : (step k c s e).1.ghost = s.ghost ++ new) :
    s.lock.view ≤ (step k c s e).1.lock.view ∧
    ((step k c s e).1.lock = s.lock ∨ ∃ x id, GRec.vote x id ∈ new ∧ Via c (step k c s e).1 x (step k c s e).1.lock) := by
  obtain ⟨new', hg, hc⟩ := step_vr k c s e
  have : new = new' := List.append_cancel_left (hnew.symm.trans hg)
  subst this
  exact ⟨hc.lockv, hc.lock⟩

theorem lock_moves_to_voted_grandparent_start (k : Keys) (c : RCfg) (s : RState) (new : List GRec)
    (hnew : (start k c s).1.ghost = s.ghost ++ new) :
    s.lock.view ≤ (start k c s).1.lock.view ∧
    ((start k c s).1.lock = s.lock ∨ ∃ x id, GRec.vote x id ∈ new ∧ Via c (start k c s).1 x (start k c s).1.lock) := by
  obtain ⟨new', hg, hc⟩ := start_vr k c s
  have : new = new' := List.append_cancel_left (hnew.symm.trans hg)
  subst this
  exact ⟨hc.lockv, hc.lock⟩

/-- **`LockFrom` is preserved by every step** (chained HotStuff): the lock is genesis or the stored
grandparent, by certificate links of which the second is not the empty hash, of a block voted for. -/
theorem lockFrom_step (k : Keys) (c : RCfg) (hr : c.rules = .chained) (s : RState) (e : Ev) (h : LockFrom s) :
    LockFrom (step k c s e).1 :=
  lockFrom_of_lockFromC c _ hr (lockFromC_of_vr c s _ (step_grows k c s e) (step_vr k c s e) (lockFromC_of_lockFrom c s h))

theorem lockFrom_start (k : Keys) (c : RCfg) (hr : c.rules = .chained) (s : RState) (h : LockFrom s) :
    LockFrom (start k c s).1 :=
  lockFrom_of_lockFromC c _ hr (lockFromC_of_vr c s _ (start_grows k c s) (start_vr k c s) (lockFromC_of_lockFrom c s h))

/-- ... hence it holds in every reachable state. -/
theorem lockFrom_reachable (k : Keys) (c : RCfg) (hr : c.rules = .chained) (es : List Ev) :
    LockFrom (runEvents k c (start k c {}).1 es) := by
  have gen : ∀ (es : List Ev) (s : RState), LockFrom s → LockFrom (runEvents k c s es) := by
    intro es
    induction es with
    | nil => intro s h; exact h
    | cons e es ih => intro s h; exact ih _ (lockFrom_step k c hr s e h)
  exact gen es _ (lockFrom_start k c hr {} (Or.inl rfl))

/-- The same for simplified HotStuff (and any ruleset), without the "not the empty hash" clause, which
simplified HotStuff does not check: the lock is genesis or two stored certificate links below a
block voted for. -/
theorem lockFromC_reachable (k : Keys) (c : RCfg) (es : List Ev) :
    LockFromC c (runEvents k c (start k c {}).1 es) := by
  have gen : ∀ (es : List Ev) (s : RState), LockFromC c s → LockFromC c (runEvents k c s es) := by
    intro es
    induction es with
    | nil => intro s h; exact h
    | cons e es ih =>
      intro s h
      exact ih _ (lockFromC_of_vr c s _ (step_grows k c s e) (step_vr k c s e) h)
  exact gen es _ (lockFromC_of_vr c {} _ (start_grows k c {}) (start_vr k c {}) (Or.inl rfl))

/-- **Where the lock a vote was checked against comes from**, in the vocabulary of `LockFrom`
(chained HotStuff): if `LockFrom s` holds before the step, the block `L` of `vote_respects_lock` is
genesis or the stored grandparent of a block voted for by the end of the step. -/
theorem vote_respects_lock_from (k : Keys) (c : RCfg) (hr : c.rules = .chained) (s : RState) (e : Ev)
    (hL : LockFrom s) (new : List GRec)
    (hnew : (step k c s e).1.ghost = s.ghost ++ new) (w : Block) (id : Nat) (hm : GRec.vote w id ∈ new) :
    ∃ L, s.lock.view ≤ L.view ∧ L.view ≤ (step k c s e).1.lock.view ∧ RuleHolds c (step k c s e).1 w L ∧
      (L = genesisBlock ∨ ∃ x id' p, GRec.vote x id' ∈ (step k c s e).1.ghost ∧
        sget (step k c s e).1 x.qc.hash = some p ∧ p.qc.hash ≠ "" ∧ sget (step k c s e).1 p.qc.hash = some L) := by
  obtain ⟨L, h1, h2, h3, h4⟩ := vote_respects_lock k c s e new hnew w id hm
  refine ⟨L, h1, h2, h3, ?_⟩
  have hg := step_grows k c s e
  rcases h4 with h4 | ⟨x, id', hx, p, l1, l2, hp⟩
  · subst h4
    rcases hL with hL | ⟨x, id', p, hx, l1, hp, l2⟩
    · exact Or.inl hL
    · exact Or.inr ⟨x, id', p, by rw [hnew]; exact List.mem_append_left _ hx, hg _ _ l1, hp, hg _ _ l2⟩
  · exact Or.inr ⟨x, id', p, by rw [hnew]; exact List.mem_append_right _ hx, l1, hp hr, l2⟩

/-! ### 3. the commit rule -/

/-- **A commit is a three-chain** (chained HotStuff): whenever `commitRule c b` answers `some b3` in
state `s`, then in the state `s'` it leaves there are stored blocks `b1`, `b2` with
`b —qc→ b1 —qc→ b2 —qc→ b3` (none of the three certificate hashes is empty), `b1`'s parent is `b2`,
`b2`'s parent is `b3`, and the views of `b3`, `b2`, `b1` are consecutive. -/
theorem commit_is_three_chain (c : RCfg) (hr : c.rules = .chained) (b b3 : Block) (s : RState)
    (h : ((commitRule c b).run s).1 = some b3) :
    ∃ b1 b2, b.qc.hash ≠ "" ∧ sget ((commitRule c b).run s).2 b.qc.hash = some b1 ∧
      b1.qc.hash ≠ "" ∧ sget ((commitRule c b).run s).2 b1.qc.hash = some b2 ∧
      b2.qc.hash ≠ "" ∧ sget ((commitRule c b).run s).2 b2.qc.hash = some b3 ∧
      b1.parent = b2.hash ∧ b1.view = b2.view + 1 ∧ b2.parent = b3.hash ∧ b2.view = b3.view + 1 := by
  have := (run_res_of_triple _ _ _ (commitRule_rule c b s.lock) s rfl).2 b3 h
  simpa only [CommitChain, hr] using this

/-- **Simplified HotStuff**: `some ggp` means `b —qc→ p —qc→ gp —qc→ ggp` through stored blocks, with
`ggp.view + 2 = p.view` and `gp.view = ggp.view + 1` (consecutive views; no parent links are checked). -/
theorem commit_is_three_chain_simple (c : RCfg) (hr : c.rules = .simple) (b ggp : Block) (s : RState)
    (h : ((commitRule c b).run s).1 = some ggp) :
    ∃ p gp, sget ((commitRule c b).run s).2 b.qc.hash = some p ∧ sget ((commitRule c b).run s).2 p.qc.hash = some gp ∧
      sget ((commitRule c b).run s).2 gp.qc.hash = some ggp ∧ ggp.view + 2 = p.view ∧ gp.view = ggp.view + 1 := by
  have := (run_res_of_triple _ _ _ (commitRule_rule c b s.lock) s rfl).2 ggp h
  simpa only [CommitChain, hr] using this

/-- Fast-HotStuff, for completeness: a two-chain of direct parents with consecutive views, starting
at `b` itself. -/
theorem commit_is_two_chain_fast (c : RCfg) (hr : c.rules = .fast) (b gp : Block) (s : RState)
    (h : ((commitRule c b).run s).1 = some gp) :
    ∃ p, b.qc.hash ≠ "" ∧ sget ((commitRule c b).run s).2 b.qc.hash = some p ∧
      p.qc.hash ≠ "" ∧ sget ((commitRule c b).run s).2 p.qc.hash = some gp ∧
      b.parent = p.hash ∧ b.view = p.view + 1 ∧ p.parent = gp.hash ∧ p.view = gp.view + 1 := by
  have := (run_res_of_triple _ _ _ (commitRule_rule c b s.lock) s rfl).2 gp h
  simpa only [CommitChain, hr] using this

/-- **What the commit rule does to the lock**: it leaves it alone, or moves it to a block of a
strictly higher view that lies two certificate links below `b` in the store. -/
theorem commitRule_locks_grandparent (c : RCfg) (b : Block) (s : RState) :
    ((commitRule c b).run s).2.lock = s.lock ∨
    (s.lock.view < ((commitRule c b).run s).2.lock.view ∧
      ∃ p, sget ((commitRule c b).run s).2 b.qc.hash = some p ∧
        sget ((commitRule c b).run s).2 p.qc.hash = some ((commitRule c b).run s).2.lock ∧
        (c.rules = .chained → p.qc.hash ≠ "")) :=
  (run_res_of_triple _ _ _ (commitRule_rule c b s.lock) s rfl).1

/-- A three-chain found once stays one: `CommitChain` survives the delivery of any event. -/
theorem commitChain_stable_step (k : Keys) (c : RCfg) (s : RState) (e : Ev) (b b3 : Block) (h : CommitChain c s b b3) :
    CommitChain c (step k c s e).1 b b3 :=
  commitChain_grows c s _ b b3 (step_grows k c s e) h

/-! ### 4. the committed block -/

/-- **The committer commits the block it is given or nothing**: `commitInner fuel b` leaves
`committed` alone, or sets it (after walking down stored parent links to the previously committed
view and committing the ancestors on the way back up) to `b` itself; if it answers `false` it has
changed nothing. -/
theorem commitInner_all_or_nothing (fuel : Nat) (b : Block) (s : RState) :
    (((commitInner fuel b).run s).1 = false → ((commitInner fuel b).run s).2.committed = s.committed) ∧
    (((commitInner fuel b).run s).2.committed = s.committed ∨ ((commitInner fuel b).run s).2.committed = b) :=
  run_res_of_triple _ _ _ (commitInner_cm fuel b s.committed) s rfl

/-- **`tryCommit c b` changes `committed` only to a block the commit rule returned for `b`**, i.e. to
the tail of a three-chain below `b` (`CommitChain`: the statement of `commit_is_three_chain` /
`commit_is_three_chain_simple`, in the state after). -/
theorem tryCommit_commits_rule_block (c : RCfg) (b : Block) (s : RState) :
    ((tryCommit c b).run s).2.committed = s.committed ∨
    CommitChain c ((tryCommit c b).run s).2 b ((tryCommit c b).run s).2.committed :=
  (tryCommit_tc c b s).comm

/-- **The committed block changes only by the commit rule** (one delivered event, any state): after
the step, `committed` is what it was, or it is the tail of a three-chain (`CommitChain`) below a
block voted for in this very step — the block the last successful `commitRule` call of the step
returned.  (Stronger than "returned block or a stored ancestor of it": `commitInner` either gets all
the way up to the returned block or changes nothing.) -/
theorem committed_only_by_rule (k : Keys) (c : RCfg) (s : RState) (e : Ev) (new : List GRec)
    (hnew : (step k c s e).1.ghost = s.ghost ++ new) :
    (step k c s e).1.committed = s.committed ∨
    ∃ x id, GRec.vote x id ∈ new ∧ CommitChain c (step k c s e).1 x (step k c s e).1.committed := by
  obtain ⟨new', hg, hc⟩ := step_vr k c s e
  have : new = new' := List.append_cancel_left (hnew.symm.trans hg)
  subst this
  exact hc.comm

theorem committed_only_by_rule_start (k : Keys) (c : RCfg) (s : RState) (new : List GRec)
    (hnew : (start k c s).1.ghost = s.ghost ++ new) :
    (start k c s).1.committed = s.committed ∨
    ∃ x id, GRec.vote x id ∈ new ∧ CommitChain c (start k c s).1 x (start k c s).1.committed := by
  obtain ⟨new', hg, hc⟩ := start_vr k c s
  have : new = new' := List.append_cancel_left (hnew.symm.trans hg)
  subst this
  exact hc.comm

/-! ### non-vacuity

A concrete run of a chained-HotStuff replica (id 1 of 4, fixed leader 2, BLS so that other replicas'
signatures verify without truth-table entries): proposals `P1 ← P2 ← P3 ← P4` of views 1..4, each
carrying a quorum certificate for its parent.  After `P1, P2, P3` the lock is `P1` and nothing but
genesis is committed; delivering `P4` appends a vote for `P4` (checked against the lock `P1`:
`L = s.lock` in `vote_respects_lock`), moves the lock to `P2` — two certificate links below `P4` —
and commits `P1`, the tail of the three-chain `P3, P2, P1` below `P4`.  Evaluated by the kernel. -/
section NonVacuity
def nvKeys : Keys := ⟨tmoMsgKey⟩
def nvCfg : RCfg := { n := 4, id := 1, rules := .chained, agg := false, scheme := .bls12, leaders := .fixed 2 }
def nvQC (h : Hash) (v : Nat) : QC :=
  ⟨some (.bls [⟨1, blkMsg h⟩, ⟨2, blkMsg h⟩, ⟨3, blkMsg h⟩] [] (((Bitfield.empty.add 1).add 2).add 3)), v, h⟩
def nvP1 : Block := { hash := "P1", parent := "G", view := 1, proposer := 2, qc := genesisQC }
def nvP2 : Block := { hash := "P2", parent := "P1", view := 2, proposer := 2, qc := nvQC "P1" 1 }
def nvP3 : Block := { hash := "P3", parent := "P2", view := 3, proposer := 2, qc := nvQC "P2" 2 }
def nvP4 : Block := { hash := "P4", parent := "P3", view := 4, proposer := 2, qc := nvQC "P3" 3 }
def nvS3 : RState :=
  runEvents nvKeys nvCfg (start nvKeys nvCfg {}).1 [.propose 2 nvP1 none, .propose 2 nvP2 none, .propose 2 nvP3 none]
def nvS4 : RState := (step nvKeys nvCfg nvS3 (.propose 2 nvP4 none)).1

deriving instance DecidableEq for GRec

set_option maxRecDepth 100000 in
example : nvS3.lock = nvP1 ∧ nvS3.committed = genesisBlock ∧
    nvS4.ghost = nvS3.ghost ++ [.adv 3 3 false, .vote nvP4 2] ∧ nvS4.lock = nvP2 ∧ nvS4.committed = nvP1 := by
  decide +kernel
end NonVacuity

end HsVerif.Props.C01Rule
