import HsVerif.Proofs.Queue
import HsVerif.Gen.Queue
/-! C14 — the tie by translation for `core/eventloop/queue.go`.
`Gen/Queue.lean` is regenerated from the Go source on every run (tools/gofacts/methods.go).  The
theorems here say that the regenerated `push` / `pop` / `len` ARE the hand-written model the C14
theorems are about, for every queue value (no invariant needed), and that on every queue reachable from
`newQueue(c)`, `c ≥ 1`, no slice index of the Go code is out of range (Go would panic there). -/
set_option linter.unusedVariables false
set_option linter.unusedSimpArgs false
namespace HsVerif.Props.C14Gen
open HsVerif.Model HsVerif.Model.Queue
open HsVerif.Gen.Methods (queue_push queue_pop queue_len)

theorem getI_eq {α : Type} (l : List (Option α)) (i : Int) : HsVerif.Gen.Methods.getI l i = Queue.getI l i := rfl
theorem setI_eq {α : Type} (l : List (Option α)) (i : Int) (x : Option α) :
    HsVerif.Gen.Methods.setI l i x = Queue.setI l i x := rfl

/-- The regenerated `push` equals the model's `push` (new fields and reported drop), for every queue. -/
theorem gen_push_eq_model {α : Type} (q : Queue α) (x : α) :
    (queue_push q.entries q.head q.tail (some x)).1 = ((q.push x).1.entries, (q.push x).1.head, (q.push x).1.tail) ∧
    (queue_push q.entries q.head q.tail (some x)).2.1 = (q.push x).2 := by
  unfold queue_push Queue.push Queue.cap
  simp only [getI_eq, setI_eq]
  constructor <;> (repeat' split) <;> simp_all

/-- The regenerated `pop` equals the model's `pop`; Go's `ok` is `head ≠ -1`. -/
theorem gen_pop_eq_model {α : Type} (q : Queue α) :
    (queue_pop q.entries q.head q.tail).1 = ((q.pop).1.entries, (q.pop).1.head, (q.pop).1.tail) ∧
    (queue_pop q.entries q.head q.tail).2.1.1 = (q.pop).2 ∧
    (queue_pop q.entries q.head q.tail).2.1.2 = decide (q.head ≠ -1) := by
  unfold queue_pop Queue.pop Queue.cap
  simp only [getI_eq]
  refine ⟨?_, ?_, ?_⟩ <;> (repeat' split) <;> simp_all

/-- The regenerated `len` equals the model's `len` and changes nothing. -/
theorem gen_len_eq_model {α : Type} (q : Queue α) :
    (queue_len q.entries q.head q.tail).1 = (q.entries, q.head, q.tail) ∧
    (queue_len q.entries q.head q.tail).2.1 = q.len := by
  unfold queue_len Queue.len Queue.cap
  constructor <;> (repeat' split) <;> simp_all <;> omega

/-! ## No index out of range on any reachable queue -/

theorem w_range (c : Nat) (i : Int) (h0 : 0 ≤ i) (h1 : i < 2 * (c : Int)) : 0 ≤ Queue.w c i ∧ Queue.w c i < c := by
  unfold Queue.w; split <;> omega

/-- Arithmetic core: with `len(entries) = c ≥ 1` and `head`, `tail` either both -1 or both inside the
buffer, every index `push` evaluates is in range. -/
theorem push_in_range_arith {α : Type} (es : List (Option α)) (h t : Int) (x : Option α) (c : Nat) (hc : 1 ≤ c)
    (hlen : es.length = c) (hinv : (h = -1 ∧ t = -1) ∨ (0 ≤ h ∧ h < c ∧ 0 ≤ t ∧ t < c)) :
    (queue_push es h t x).2.2 = true := by
  unfold queue_push
  simp only [hlen]
  rcases hinv with ⟨rfl, rfl⟩ | ⟨h0, h1, t0, t1⟩
  all_goals ((repeat' split) <;> simp only [Bool.true_and, Bool.and_eq_true, decide_eq_true_eq, Bool.and_self] <;> omega)

theorem pop_in_range_arith {α : Type} (es : List (Option α)) (h t : Int) (c : Nat)
    (hlen : es.length = c) (hinv : (h = -1 ∧ t = -1) ∨ (0 ≤ h ∧ h < c ∧ 0 ≤ t ∧ t < c)) :
    (queue_pop es h t).2.2 = true := by
  unfold queue_pop
  simp only [hlen]
  rcases hinv with ⟨rfl, rfl⟩ | ⟨h0, h1, t0, t1⟩
  all_goals ((repeat' split) <;> simp only [Bool.true_and, Bool.and_eq_true, decide_eq_true_eq, Bool.and_self] <;> omega)

theorem rel_range {α : Type} {c : Nat} {q : Queue α} {l : List α} (r : Rel c q l) :
    (q.head = -1 ∧ q.tail = -1) ∨ (0 ≤ q.head ∧ q.head < c ∧ 0 ≤ q.tail ∧ q.tail < c) := by
  by_cases hl : l = []
  · exact Or.inl (r.hempty hl)
  · obtain ⟨h0, h1, ht, _⟩ := r.hne hl
    have hpos : 0 < l.length := List.length_pos_iff.mpr hl
    have hle := r.hle
    have htr := w_range c (q.head + l.length - 1) (by omega) (by omega)
    rw [← ht] at htr
    exact Or.inr ⟨h0, h1, htr.1, htr.2⟩

/-- In a state related to a deque content (the invariant of every reachable queue), `push` indexes
`entries` only in range. -/
theorem gen_push_in_range {α : Type} {c : Nat} (hc : 1 ≤ c) {q : Queue α} {l : List α} (r : Rel c q l) (x : Option α) :
    (queue_push q.entries q.head q.tail x).2.2 = true :=
  push_in_range_arith q.entries q.head q.tail x c hc r.hlen (rel_range r)

theorem gen_pop_in_range {α : Type} {c : Nat} {q : Queue α} {l : List α} (r : Rel c q l) :
    (queue_pop q.entries q.head q.tail).2.2 = true :=
  pop_in_range_arith q.entries q.head q.tail c r.hlen (rel_range r)

theorem gen_len_in_range {α : Type} (q : Queue α) : (queue_len q.entries q.head q.tail).2.2 = true := by
  unfold queue_len; (repeat' split) <;> rfl

/-- After ANY word of push / pop / len from `newQueue(c)`, `c ≥ 1`, the next push, pop or len of the
Go code (as regenerated) indexes `entries` in range: no index-out-of-range panic in queue.go. -/
theorem queue_never_indexes_out_of_range {α : Type} (c : Nat) (hc : 1 ≤ c) (w : List (QOp α)) (x : Option α) :
    let q := ((Queue.new c : Queue α).run w).1
    (queue_push q.entries q.head q.tail x).2.2 = true ∧
    (queue_pop q.entries q.head q.tail).2.2 = true ∧
    (queue_len q.entries q.head q.tail).2.2 = true := by
  intro q
  have r := (run_refines hc w (rel_new (α := α) c)).2
  exact ⟨gen_push_in_range hc r x, gen_pop_in_range r, gen_len_in_range q⟩

/-- The in-range flag is not vacuous: with `head` outside the buffer (a state no history reaches) the
translated `pop` reports the out-of-range index. -/
theorem in_range_flag_nonvacuous :
    (queue_pop ([none, none] : List (Option Nat)) 5 0).2.2 = false := by decide

/-- Non-vacuity of the bridge: a concrete overflowing push through the regenerated code. -/
example : queue_push [some 1, some 2] 0 1 (some (3 : Nat)) = (([some 3, some 2], 1, 0), some 1, true) := by decide

end HsVerif.Props.C14Gen
