import HsVerif.Props.C19
import HsVerif.Gen.BitfieldMethods
/-! C19 — the tie by translation for the methods of `Bitfield` (security/crypto/bitfield.go).
`Gen/BitfieldMethods.lean` is regenerated from the Go source on every run (tools/gofacts/methods.go, "byte forms"):
`extend`, `isSet`, `set`, `Add`, `Contains`, `Len`, `Bytes` as pure functions of the fields `data` (`[]byte` as a
`List Nat`, a byte being a `Nat` below 256) and `len` (`Int`) and the parameters, to the new fields, the result and
the "no panic" flag (index in range, shift count ≥ 0, `make` size ≥ 0); `Add`/`Contains` call the regenerated
`index` of `Gen/Bitfield.lean` and the regenerated sibling methods.  The theorems here say that the regenerated
functions ARE `Bitfield.add` / `contains` / `len` / `bytes` / `isSet` of `Model/IDSet.lean` (bytes are `Nat` there
too; the model's `len : Nat` is read through the cast to `Int`), for every byte list, every `len` and every id ≥ 1,
and that the flag is true.  The bound "< 256" is not needed for the equalities; `add_bytes_bound` shows it is kept.
`ForEach` / `RangeWhile` / `BitfieldFromBytes` / `String` are outside the translated subset (closures, nested range
loops) and stay tied to the model by the differential tests only. -/
set_option linter.unusedVariables false
set_option linter.unusedSimpArgs false
namespace HsVerif.Props.C19Gen
open HsVerif.Model HsVerif.Model.Bitfield
open HsVerif.Gen.Methods

/-- Go truncates `byte(1) << n` to 8 bits; for a bit index below 8 nothing is lost. -/
theorem shl_mod (n : Nat) (hn : n < 8) : ((1 : Nat) <<< n) % 256 = 1 <<< n := by
  have : n = 0 ∨ n = 1 ∨ n = 2 ∨ n = 3 ∨ n = 4 ∨ n = 5 ∨ n = 6 ∨ n = 7 := by omega
  rcases this with h | h | h | h | h | h | h | h <;> subst h <;> decide

/-- `x & (1 << n) != 0` is the model's `testBit`. -/
theorem and_bit (x n : Nat) : decide (x &&& (1 <<< n) ≠ 0) = x.testBit n := by
  rw [Nat.one_shiftLeft]
  cases h : x.testBit n
  · apply decide_eq_false
    intro hne
    obtain ⟨i, hi⟩ := Nat.exists_testBit_of_ne_zero hne
    rw [Nat.testBit_and, Nat.testBit_two_pow] at hi
    simp only [Bool.and_eq_true, decide_eq_true_eq] at hi
    obtain ⟨h1, h2⟩ := hi
    subst h2
    rw [h] at h1
    exact Bool.noConfusion h1
  · apply decide_eq_true
    intro h0
    have : (x &&& 2 ^ n).testBit n = true := by
      rw [Nat.testBit_and, Nat.testBit_two_pow, h]; simp
    rw [h0, Nat.zero_testBit] at this
    exact Bool.noConfusion this

/-- the same with the operands of `&` and of `!=` written the other way round (so that the bridge does not depend on
how the Go expression is written) -/
theorem and_bit_comm (x n : Nat) : decide ((1 <<< n) &&& x ≠ 0) = x.testBit n := by
  rw [Nat.and_comm]; exact and_bit x n

theorem zero_ne_comm (y : Nat) : decide (0 ≠ y) = decide (y ≠ 0) := by
  apply decide_eq_decide.mpr; exact ne_comm

/-- The regenerated `isSet` is the model's `isSet`; its flag says exactly that the byte index is inside the data. -/
theorem gen_isSet (data : List Nat) (len : Int) (b i : Nat) (hi : i < 8) :
    Bitfield_isSet data len (b : Int) (i : Int) = ((data, len), Bitfield.isSet data b i, decide (b < data.length)) := by
  unfold Bitfield_isSet Bitfield.isSet getB
  simp only [Int.toNat_natCast, shl_mod i hi, zero_ne_comm, and_bit, and_bit_comm]
  simp

/-- The regenerated `extend` appends `n` zero bytes. -/
theorem gen_extend (data : List Nat) (len : Int) (n : Nat) :
    Bitfield_extend data len (n : Int) = ((data ++ List.replicate n 0, len), (), true) := by
  unfold Bitfield_extend
  simp

/-- The regenerated `set` (inside the data): the bit is or-ed in, `len` grows iff the bit was clear. -/
theorem gen_set (data : List Nat) (len : Int) (b i : Nat) (hi : i < 8) (hb : b < data.length) :
    Bitfield_set data len (b : Int) (i : Int) =
      ((data.set b (data.getD b 0 ||| (1 <<< i)), if Bitfield.isSet data b i then len else len + 1), (), true) := by
  unfold Bitfield_set
  simp only [gen_isSet data len b i hi, getB, setB, Int.toNat_natCast, shl_mod i hi]
  cases h : Bitfield.isSet data b i <;> simp [hb] 

theorem index_bit_lt (id : Nat) : (Bitfield.index id).2 < 8 := by
  unfold Bitfield.index; simp only; omega

/-- The regenerated `Add`, for every byte list, every `len : Int` and every id ≥ 1: the new data is the model's, `len` grows by what the model adds to a zero count (0 or 1), nothing panics. -/
theorem gen_Add_int (data : List Nat) (len : Int) (id : Nat) (hid : 1 ≤ id) :
    Bitfield_Add data len (id : Int) =
      (((Bitfield.add ⟨data, 0⟩ id).data, len + ((Bitfield.add ⟨data, 0⟩ id).len : Int)), (), true) := by
  unfold Bitfield_Add
  simp only [HsVerif.Props.C19.gen_index id hid]
  have hi := index_bit_lt id
  unfold Bitfield.add
  generalize (Bitfield.index id).1 = b at *
  generalize (Bitfield.index id).2 = i at *
  simp only
  by_cases hle : data.length ≤ b
  · have e : ((b : Int) + 1 - (data.length : Int)) = ((b + 1 - data.length : Nat) : Int) := by omega
    simp only [Int.ofNat_le, hle, ↓reduceIte, e, gen_extend]
    rw [gen_set _ _ _ _ hi (by simp; omega)]
    cases h : Bitfield.isSet (data ++ List.replicate (b + 1 - data.length) 0) b i <;> simp
  · simp only [Int.ofNat_le, hle, ↓reduceIte]
    rw [gen_set _ _ _ _ hi (by omega)]
    cases h : Bitfield.isSet data b i <;> simp

/-- the model's `add` does not look at `len` except to increment it -/
theorem add_len_shift (data : List Nat) (l : Nat) (id : Nat) :
    (Bitfield.add ⟨data, l⟩ id).data = (Bitfield.add ⟨data, 0⟩ id).data ∧
    (Bitfield.add ⟨data, l⟩ id).len = l + (Bitfield.add ⟨data, 0⟩ id).len := by
  unfold Bitfield.add
  refine ⟨rfl, ?_⟩
  simp only
  split <;> split <;> simp

/-- The regenerated `Add` IS the model's `add` (new data, new len), and never panics, for every bit-field value and id ≥ 1. -/
theorem gen_Add_eq_model (bf : Bitfield) (id : Nat) (hid : 1 ≤ id) :
    Bitfield_Add bf.data (bf.len : Int) (id : Int) = (((bf.add id).data, ((bf.add id).len : Int)), (), true) := by
  obtain ⟨data, l⟩ := bf
  rw [gen_Add_int data l id hid, (add_len_shift data l id).1, (add_len_shift data l id).2]
  simp

/-- The regenerated `Contains` IS the model's `contains` (whatever the model's `len`), changes no field and never panics, for every byte list, `len` and id ≥ 1. -/
theorem gen_Contains_eq_model (data : List Nat) (len : Int) (id : Nat) (hid : 1 ≤ id) (l : Nat) :
    Bitfield_Contains data len (id : Int) = ((data, len), Bitfield.contains ⟨data, l⟩ id, true) := by
  unfold Bitfield_Contains Bitfield.contains
  simp only [HsVerif.Props.C19.gen_index id hid]
  have hi := index_bit_lt id
  generalize (Bitfield.index id).1 = b at *
  generalize (Bitfield.index id).2 = i at *
  by_cases hle : data.length ≤ b
  · have h2 : ¬ b < data.length := by omega
    simp [hle, h2, gen_isSet data len b i hi]
  · have h2 : b < data.length := by omega
    simp [hle, h2, gen_isSet data len b i hi]

/-- `Contains` on a bit-field value of the model. -/
theorem gen_Contains_eq_model' (bf : Bitfield) (id : Nat) (hid : 1 ≤ id) :
    Bitfield_Contains bf.data (bf.len : Int) (id : Int) = ((bf.data, (bf.len : Int)), bf.contains id, true) :=
  gen_Contains_eq_model bf.data bf.len id hid bf.len

/-- The regenerated `Len` returns the field `len`. -/
theorem gen_Len_eq_model (data : List Nat) (len : Int) :
    Bitfield_Len data len = ((data, len), len, true) := rfl

/-- The regenerated `Bytes` returns the data (the model's `bytes`). -/
theorem gen_Bytes_eq_model (data : List Nat) (len : Int) :
    Bitfield_Bytes data len = ((data, len), Bitfield.bytes ⟨data, len.toNat⟩, true) := rfl

/-- bytes stay bytes -/
theorem add_bytes_bound (data : List Nat) (len : Int) (id : Nat) (hid : 1 ≤ id) (hb : ∀ x ∈ data, x < 256) :
    ∀ x ∈ (Bitfield_Add data len (id : Int)).1.1, x < 256 := by
  rw [gen_Add_int data len id hid]
  simp only
  have hi := index_bit_lt id
  unfold Bitfield.add
  generalize (Bitfield.index id).1 = b at *
  generalize (Bitfield.index id).2 = i at *
  simp only
  intro x hx
  have hd : ∀ y ∈ (if data.length ≤ b then data ++ List.replicate (b + 1 - data.length) 0 else data), y < 256 := by
    intro y hy
    split at hy
    · rcases List.mem_append.mp hy with h | h
      · exact hb y h
      · rw [List.mem_replicate] at h; omega
    · exact hb y hy
  generalize (if data.length ≤ b then data ++ List.replicate (b + 1 - data.length) 0 else data) = d at *
  rcases List.mem_or_eq_of_mem_set hx with h | h
  · exact hd x h
  · subst h
    have h1 : d.getD b 0 < 2 ^ 8 := by
      rw [List.getD_eq_getElem?_getD]
      cases hg : d[b]? with
      | none => simp
      | some v => simp; exact hd v (List.mem_of_getElem? hg)
    have h2 : (1 <<< i) < 2 ^ 8 := by
      rw [Nat.one_shiftLeft]; exact Nat.pow_lt_pow_right (by omega) hi
    exact Nat.or_lt_two_pow h1 h2

/-! ## Examples on the regenerated code -/

/-- id 9 is bit 0 of byte 1: the data is extended by two bytes -/
example : Bitfield_Add [] 0 9 = (([0, 1], 1), (), true) := by decide
/-- adding a member again changes nothing -/
example : Bitfield_Add [0, 1] 1 9 = (([0, 1], 1), (), true) := by decide
/-- id 3 is bit 2 of byte 0 -/
example : Bitfield_Add [128] 1 3 = (([132], 2), (), true) := by decide
example : Bitfield_Contains [132] 2 8 = (([132], 2), true, true) ∧ Bitfield_Contains [132] 2 9 = (([132], 2), false, true) := by decide
/-- the flag is not vacuous: `isSet` one byte beyond the data is an index out of range -/
theorem isSet_beyond_data_panics : (Bitfield_isSet [132] 2 1 0).2.2 = false := by decide
/-- id 0 (outside the property): bit index -1, Go panics on the negative shift count -/
theorem id_zero_panics : (Bitfield_Add [132] 2 0).2.2 = false ∧ (Bitfield_Contains [132] 2 0).2.2 = false := by decide
/-- `make([]byte, n)` with a negative n panics -/
theorem extend_negative_panics : (Bitfield_extend [132] 2 (-1)).2.2 = false := by decide
end HsVerif.Props.C19Gen
