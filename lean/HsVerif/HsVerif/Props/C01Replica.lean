import HsVerif.Proofs.ReplicaLock
import HsVerif.Props.C03
/-! C01, layer B — what the replica model is proved to do, towards the voting discipline that the
abstract safety theorem (Props/C01.lean) assumes.  One vote per view and well-formed parents are
C03's `votes_increasing` / `vote_wellformed`; here: the lock only moves up.  The remaining part of
the lock rule (a vote obliges the replica to lock on the grandparent; a vote is cast only if the
vote rule holds against the current lock) needs facts about blocks other replicas made (views
fall along certificate links of fetched blocks) and is checked on the implementation's signing
log by the cluster oracle instead. -/
namespace HsVerif.Props.C01Replica
open HsVerif.Model

/-- **The lock never moves to a lower view**, whatever is delivered. -/
theorem lock_never_lowers (k : Keys) (c : RCfg) (s : RState) (e : Ev) :
    s.lock.view ≤ (step k c s e).1.lock.view :=
  lock_view_monotone k c s e

/-- … along every sequence of events. -/
theorem lock_never_lowers_run (k : Keys) (c : RCfg) (es : List Ev) (s : RState) :
    s.lock.view ≤ (es.foldl (fun s e => (step k c s e).1) s).lock.view := by
  induction es generalizing s with
  | nil => exact Nat.le_refl _
  | cons e rest ih => exact Nat.le_trans (lock_view_monotone k c s e) (ih _)

end HsVerif.Props.C01Replica
