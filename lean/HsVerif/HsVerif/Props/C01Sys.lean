import HsVerif.Proofs.SysInv
import HsVerif.Proofs.QuorumCount
/-! C01, system layer — unforgeability of honest votes and "one certified block per view" in a
SYSTEM of replica models (Model/Sys.lean): the honest ids run the replica model against one global
signature table, the adversary delivers arbitrary events and signs with the Byzantine keys.
Property theorems only; the invariants are in Proofs/SysInv.lean, the per-handler Hoare triples in
Proofs/ReplicaSig.lean. -/
namespace HsVerif.Props.C01Sys
open HsVerif.Model HsVerif.QuorumCount

/-- the key hypothesis: timeout-message keys are not block-message keys (true of the driver's
`"tmo:…"` keys, see `tmoMsgKey_ne_blkMsg`) -/
def KeysOK (k : Keys) : Prop := ∀ i v q h, k.tmo i v q ≠ blkMsg h

theorem tmoMsgKey_ne_blkMsg : KeysOK ⟨tmoMsgKey⟩ := by
  intro i v q h
  unfold tmoMsgKey blkMsg
  intro e
  have := congrArg (fun s => s.toList.head?) e
  simp [toString] at this

/-- **Honest votes are unforgeable**: in every reachable state of the system, an entry of the
global signature table under an honest id over the block message of hash `h` was made by that
replica's `voteFor`: its ghost history has the vote record for a block with that hash.  (Whatever
events the adversary delivers, and whatever it signs with the Byzantine keys.) -/
theorem honest_votes_unforgeable (k : Keys) (C : SysCfg) (hk : KeysOK k) (σ : SysState) (hr : Reach k C σ) :
    ∀ p ∈ σ.truth, p.2.signer ∈ C.honest → ∀ h, p.2.msg = blkMsg h →
      ∃ s, σ.reps.lookup p.2.signer = some s ∧ ∃ b id, b.hash = h ∧ GRec.vote b id ∈ s.ghost :=
  (reach_inv k C hk σ hr).unf

/-- every honest replica of a reachable state keeps the vote discipline of C03 -/
theorem honest_vote_discipline (k : Keys) (C : SysCfg) (hk : KeysOK k) (σ : SysState) (hr : Reach k C σ)
    (i : Nat) (s : RState) (hl : σ.reps.lookup i = some s) : Inv3 k (C.rcfg i) s :=
  (reach_inv k C hk σ hr).inv3 i s hl

/-- the replicas of a reachable state are exactly the honest ids -/
theorem honest_ids (k : Keys) (C : SysCfg) (hk : KeysOK k) (σ : SysState) (hr : Reach k C σ) (i : Nat) :
    i ∈ C.honest ↔ ∃ s, σ.reps.lookup i = some s :=
  ⟨(reach_inv k C hk σ hr).dom i, fun ⟨s, h⟩ => (reach_inv k C hk σ hr).dom' i s h⟩

/-- byte ids are fresh: in a reachable state a lookup in the global table finds exactly the entries
of the table (no entry is shadowed by a later signature), and all ids are below `nextBytes` -/
theorem table_lookup_iff (k : Keys) (C : SysCfg) (σ : SysState) (hr : Reach k C σ) (bytes : Nat) (a : Atom) :
    σ.truth.lookup bytes = some a ↔ (bytes, a) ∈ σ.truth :=
  (reach_fresh k C σ hr).lookup_iff bytes a

theorem table_ids_fresh (k : Keys) (C : SysCfg) (σ : SysState) (hr : Reach k C σ) :
    ∀ p ∈ σ.truth, p.1 < σ.nextBytes :=
  (reach_fresh k C σ hr).2

/-- the signature table certifies hash `h`: a quorum of distinct replica ids `1..n` each have a
genuine signature over the block message of `h` in the table -/
def CertifiedT (C : SysCfg) (σ : SysState) (h : Hash) : Prop :=
  ∃ S : List Nat, S.Nodup ∧ quorumSize C.n ≤ S.length ∧
    ∀ i ∈ S, 1 ≤ i ∧ i ≤ C.n ∧ ∃ bytes, σ.truth.lookup bytes = some ⟨i, blkMsg h⟩

/-- collision freedom among honest votes: a real hash determines the block -/
def CF (σ : SysState) : Prop :=
  ∀ i j si sj, σ.reps.lookup i = some si → σ.reps.lookup j = some sj → ∀ b b' x y,
    GRec.vote b x ∈ si.ghost → GRec.vote b' y ∈ sj.ghost → b.hash = b'.hash → b = b'

/-- some honest replica signed a vote for `b` -/
def HonestVoted (σ : SysState) (b : Block) : Prop :=
  ∃ i s id, σ.reps.lookup i = some s ∧ GRec.vote b id ∈ s.ghost

/-- at most `numFaulty n` of the ids `1..n` are not honest -/
def FewFaulty (C : SysCfg) : Prop :=
  count (fun i => !(C.honest.contains (i + 1))) C.n ≤ numFaulty C.n

/-! counting: the shifted form (ids `1..n`) of quorum intersection -/

theorem length_le_count (n : Nat) : ∀ (S : List Nat), S.Nodup → (∀ i ∈ S, 1 ≤ i ∧ i ≤ n) →
    S.length ≤ count (fun i => S.contains (i + 1)) n := by
  induction n with
  | zero =>
    intro S _ hr
    cases S with
    | nil => simp
    | cons a S => have := hr a (by simp); omega
  | succ n ih =>
    intro S hnd hr
    have hnd' : (S.erase (n + 1)).Nodup := hnd.erase _
    have hr' : ∀ i ∈ S.erase (n + 1), 1 ≤ i ∧ i ≤ n := by
      intro i hi
      have := (hnd.mem_erase_iff).mp hi
      have := hr i this.2
      omega
    have h1 := ih _ hnd' hr'
    have h2 : count (fun i => (S.erase (n + 1)).contains (i + 1)) n ≤ count (fun i => S.contains (i + 1)) n := by
      apply count_mono
      intro i _ hi
      simp only [List.contains_iff_mem] at hi ⊢
      exact List.mem_of_mem_erase hi
    simp only [count]
    by_cases hm : n + 1 ∈ S
    · have := List.length_erase_of_mem hm
      have : 1 ≤ S.length := List.length_pos_of_mem hm
      rw [if_pos (List.contains_iff_mem.mpr hm)]; omega
    · rw [List.erase_of_not_mem hm] at h1
      omega

/-- two quorums of ids `1..n` share an honest id -/
theorem quorums_share_honest_id (n : Nat) (hn : 1 ≤ n) (honest S1 S2 : List Nat)
    (hf : count (fun i => !(honest.contains (i + 1))) n ≤ numFaulty n)
    (hd1 : S1.Nodup) (hq1 : quorumSize n ≤ S1.length) (hr1 : ∀ i ∈ S1, 1 ≤ i ∧ i ≤ n)
    (hd2 : S2.Nodup) (hq2 : quorumSize n ≤ S2.length) (hr2 : ∀ i ∈ S2, 1 ≤ i ∧ i ≤ n) :
    ∃ j, j ∈ S1 ∧ j ∈ S2 ∧ j ∈ honest := by
  obtain ⟨i, _, ha, hb, hz⟩ := quorums_share_honest n hn (fun i => S1.contains (i + 1)) (fun i => S2.contains (i + 1))
    (fun i => !(honest.contains (i + 1)))
    (Nat.le_trans hq1 (length_le_count n S1 hd1 hr1)) (Nat.le_trans hq2 (length_le_count n S2 hd2 hr2)) hf
  refine ⟨i + 1, ?_, ?_, ?_⟩
  · simpa using ha
  · simpa using hb
  · simpa using hz

theorem mem_of_lookup {α} (l : List (Nat × α)) (i : Nat) (v : α) (h : l.lookup i = some v) : (i, v) ∈ l := by
  induction l with
  | nil => simp at h
  | cons a l ih =>
    obtain ⟨j, w⟩ := a
    simp only [List.lookup] at h
    split at h
    · rename_i heq
      have : i = j := by simpa using heq
      cases h; subst this; simp
    · exact List.mem_cons_of_mem _ (ih h)

theorem pairwise_mem_cases {α} (R : α → α → Prop) (l : List α) (hp : l.Pairwise R) (a b : α)
    (ha : a ∈ l) (hb : b ∈ l) : a = b ∨ R a b ∨ R b a := by
  induction l with
  | nil => simp at ha
  | cons x l ih =>
    rw [List.pairwise_cons] at hp
    rcases List.mem_cons.mp ha with rfl | ha' <;> rcases List.mem_cons.mp hb with rfl | hb'
    · exact Or.inl rfl
    · exact Or.inr (Or.inl (hp.1 _ hb'))
    · exact Or.inr (Or.inr (hp.1 _ ha'))
    · exact ih hp.2 ha' hb'

/-- a replica that keeps the vote discipline has at most one vote record per view -/
theorem one_vote_per_view (k : Keys) (c : RCfg) (s : RState) (hi : Inv3 k c s) (b1 b2 : Block) (x y : Nat)
    (h1 : GRec.vote b1 x ∈ s.ghost) (h2 : GRec.vote b2 y ∈ s.ghost) (hv : b1.view = b2.view) : b1 = b2 := by
  obtain ⟨_, hp, _⟩ := hi
  rcases pairwise_mem_cases _ _ hp _ _ h1 h2 with h | h | h
  · cases h; rfl
  · have := h b1.view b2.view rfl rfl; omega
  · have := h b2.view b1.view rfl rfl; omega

/-- **Two certified hashes have a common honest voter** (no collision hypothesis): if the table
certifies `h1` and `h2`, some honest replica signed votes for blocks `b1`, `b2` with these hashes —
and, voting at most once per view, `b1 = b2` whenever their views agree. -/
theorem certified_share_honest_voter (k : Keys) (C : SysCfg) (hk : KeysOK k) (σ : SysState) (hr : Reach k C σ)
    (hn : 1 ≤ C.n) (hf : FewFaulty C) (h1 h2 : Hash) (hc1 : CertifiedT C σ h1) (hc2 : CertifiedT C σ h2) :
    ∃ j s b1 x b2 y, j ∈ C.honest ∧ σ.reps.lookup j = some s ∧
      GRec.vote b1 x ∈ s.ghost ∧ GRec.vote b2 y ∈ s.ghost ∧ b1.hash = h1 ∧ b2.hash = h2 ∧
      (b1.view = b2.view → b1 = b2) := by
  obtain ⟨S1, hd1, hq1, hm1⟩ := hc1
  obtain ⟨S2, hd2, hq2, hm2⟩ := hc2
  obtain ⟨j, hj1, hj2, hjh⟩ := quorums_share_honest_id C.n hn C.honest S1 S2 hf
    hd1 hq1 (fun i hi => ⟨(hm1 i hi).1, (hm1 i hi).2.1⟩) hd2 hq2 (fun i hi => ⟨(hm2 i hi).1, (hm2 i hi).2.1⟩)
  obtain ⟨_, _, by1, hb1⟩ := hm1 j hj1
  obtain ⟨_, _, by2, hb2⟩ := hm2 j hj2
  have hinv := reach_inv k C hk σ hr
  obtain ⟨s, hs, b1, x, hh1, hv1⟩ := hinv.unf _ (mem_of_lookup _ _ _ hb1) hjh h1 rfl
  obtain ⟨s', hs', b2, y, hh2, hv2⟩ := hinv.unf _ (mem_of_lookup _ _ _ hb2) hjh h2 rfl
  have : s' = s := by
    have : some s' = some s := by rw [← hs, ← hs']
    cases this; rfl
  subst this
  exact ⟨j, s', b1, x, b2, y, hjh, hs, hv1, hv2, hh1, hh2,
    one_vote_per_view k _ s' (hinv.inv3 _ _ hs) b1 b2 x y hv1 hv2⟩

/-- **One certified block per view.**  In a reachable state of the system with at most
`numFaulty n` Byzantine ids: if the signature table certifies the hashes `h1` and `h2` (a quorum of
genuine signatures over each), and `h1`, `h2` are the hashes of blocks `b1`, `b2` of the same view
that honest replicas voted for, then `h1 = h2` — provided hashes of honestly voted blocks do not
collide (`CF`).  The hypothesis `scheme ≠ bls12` is not used by the proof: it marks the range in
which the statement says something (BLS values carry their atoms instead of referring to the
table, so under BLS only forged entries are ever in the table). -/
theorem one_certified_block_per_view (k : Keys) (C : SysCfg) (hk : KeysOK k) (σ : SysState) (hr : Reach k C σ)
    (hn : 1 ≤ C.n) (hf : FewFaulty C) (_hs : C.scheme ≠ .bls12) (hcf : CF σ)
    (h1 h2 : Hash) (hc1 : CertifiedT C σ h1) (hc2 : CertifiedT C σ h2)
    (b1 b2 : Block) (hv1 : HonestVoted σ b1) (hv2 : HonestVoted σ b2)
    (hh1 : b1.hash = h1) (hh2 : b2.hash = h2) (hview : b1.view = b2.view) : h1 = h2 := by
  obtain ⟨j, s, c1, x, c2, y, _, hs, hg1, hg2, hc1h, hc2h, hone⟩ :=
    certified_share_honest_voter k C hk σ hr hn hf h1 h2 hc1 hc2
  obtain ⟨i1, s1, x1, hl1, hm1⟩ := hv1
  obtain ⟨i2, s2, x2, hl2, hm2⟩ := hv2
  have e1 : c1 = b1 := hcf j i1 s s1 hs hl1 c1 b1 x x1 hg1 hm1 (by rw [hc1h, hh1])
  have e2 : c2 = b2 := hcf j i2 s s2 hs hl2 c2 b2 y x2 hg2 hm2 (by rw [hc2h, hh2])
  subst e1; subst e2
  have := hone hview
  rw [← hh1, ← hh2, this]

/-! the link to the certificate verifier (C02) -/

/-- **What the verifier accepts is certified by the table** (ECDSA / EdDSA): a non-genesis QC that
`verifyQC` accepts against a content-addressed store and a signature table `E.T` carries a quorum
of distinct ids `1..n`, each with a genuine signature over the block message in `E.T`.  This is
where `scheme ≠ bls12` matters: BLS values carry their atoms and do not refer to the table. -/
theorem verifyQC_certifies (E : CertEnv) (q : QC) (hsch : E.cfg.scheme ≠ .bls12) (hs : C02.StoreOK E)
    (hg : q.hash ≠ genesisHash) (hv : verifyQC E q = true) :
    ∃ S : List Nat, S.Nodup ∧ quorumSize E.cfg.n ≤ S.length ∧
      ∀ i ∈ S, 1 ≤ i ∧ i ≤ E.cfg.n ∧ ∃ bytes, E.T bytes = some ⟨i, blkMsg q.hash⟩ := by
  have hw : C02.QC.WF q := by
    intro sg hsg
    cases sg with
    | multi _ _ => trivial
    | bls a j b =>
      exfalso
      unfold verifyQC at hv
      simp only [beq_iff_eq, hg, ↓reduceIte, hsg] at hv
      split at hv
      · cases hv
      · split at hv
        · cases hv
        · split at hv
          · cases hv
          · simp only [verify, Bool.and_eq_true, beq_iff_eq] at hv
            exact hsch hv.1.1
  rcases C02.verifyQC_sound E q hs hw hv with ⟨h, _⟩ | ⟨b, sg, _, _, _, hsg, S, hnd, hlen, hall⟩
  · exact absurd h hg
  · refine ⟨S, hnd, hlen, ?_⟩
    intro i hi
    obtain ⟨hhas, hsig⟩ := hall i hi
    simp only [Cfg.has, Bool.and_eq_true, decide_eq_true_eq] at hhas
    refine ⟨hhas.1, hhas.2, ?_⟩
    cases sg with
    | multi _ es =>
      obtain ⟨e, _, _, he⟩ := hsig
      exact ⟨e.bytes, he⟩
    | bls a j b =>
      exfalso
      unfold verifyQC at hv
      simp only [beq_iff_eq, hg, ↓reduceIte, hsg] at hv
      split at hv
      · cases hv
      · split at hv
        · cases hv
        · split at hv
          · cases hv
          · simp only [verify, Bool.and_eq_true, beq_iff_eq] at hv
            exact hsch hv.1.1

/-- in the system: a QC that honest replica `i` accepts when it looks at the global table -/
theorem accepted_qc_certified (k : Keys) (C : SysCfg) (σ : SysState) (i : Nat) (s : RState) (q : QC)
    (hsch : C.scheme ≠ .bls12) (ht : s.truth = σ.truth) (hs : C02.StoreOK (env k (C.rcfg i) s))
    (hg : q.hash ≠ genesisHash) (hv : verifyQC (env k (C.rcfg i) s) q = true) : CertifiedT C σ q.hash := by
  obtain ⟨S, h1, h2, h3⟩ := verifyQC_certifies (env k (C.rcfg i) s) q hsch hs hg hv
  refine ⟨S, h1, h2, ?_⟩
  intro j hj
  obtain ⟨a, b, bytes, hb⟩ := h3 j hj
  exact ⟨a, b, bytes, by rw [← ht]; exact hb⟩

/-! Non-vacuity: a concrete run of a 4-replica system (ids 1, 2, 3 honest, id 4 Byzantine, quorum
3) in which all hypotheses of `one_certified_block_per_view` hold together: all three honest
replicas start (replica 2, the leader of view 1, proposes `P1` and votes), the Byzantine replica
signs a vote for some `X`, an attempt to forge a vote of replica 1 is a no-op, and the proposal is
delivered to replicas 1 and 3, which vote.  The table then certifies `P1`.  The run is evaluated by
the kernel (`decide +kernel`: kernel reduction, no compiled evaluation). -/
section NonVacuity

def exKeys : Keys := ⟨tmoMsgKey⟩
def exCfg : SysCfg :=
  { n := 4, rules := .chained, scheme := .ecdsa, agg := false, leaders := .roundRobin, honest := [1, 2, 3] }
def exBlock : Block :=
  { hash := "P1", parent := "G", view := 1, proposer := 2, qc := genesisQC, cmds := ["102/1/c1"] }
def exActs : List SysAct :=
  [.start 1, .start 2, .start 3, .forge ⟨4, blkMsg "X"⟩, .forge ⟨1, blkMsg "X"⟩,
   .deliver 1 (.propose 2 exBlock none), .deliver 3 (.propose 2 exBlock none)]
def exState : SysState := sysRun exKeys exCfg exActs

/-- every vote record of every replica is for `B` -/
def allVotesFor (B : Block) (σ : SysState) : Bool :=
  σ.reps.all (fun p => p.2.ghost.all (fun r => match r with | .vote b _ => b == B | _ => true))

theorem cf_of_allVotesFor (B : Block) (σ : SysState) (h : allVotesFor B σ = true) : CF σ := by
  have key : ∀ i si b x, σ.reps.lookup i = some si → GRec.vote b x ∈ si.ghost → b = B := by
    intro i si b x hl hm
    have h1 := List.all_eq_true.mp h _ (mem_of_lookup _ _ _ hl)
    have h2 := List.all_eq_true.mp h1 _ hm
    simpa using h2
  intro i j si sj hi hj b b' x y hb hb' _
  rw [key i si b x hi hb, key j sj b' y hj hb']

example : Reach exKeys exCfg exState := reach_run _ _ _

set_option maxRecDepth 100000 in
example : KeysOK exKeys ∧ Reach exKeys exCfg exState ∧ 1 ≤ exCfg.n ∧ FewFaulty exCfg ∧ exCfg.scheme ≠ .bls12 ∧
    CF exState ∧ CertifiedT exCfg exState "P1" ∧ HonestVoted exState exBlock ∧ exBlock.hash = "P1" := by
  refine ⟨tmoMsgKey_ne_blkMsg, reach_run _ _ _, by decide, by unfold FewFaulty; decide, by decide, ?_, ?_, ?_, rfl⟩
  · exact cf_of_allVotesFor exBlock _ (by decide +kernel)
  · refine ⟨[1, 2, 3], by decide, by decide, ?_⟩
    have h1 : exState.truth.lookup 3 = some ⟨1, blkMsg "P1"⟩ := by decide +kernel
    have h2 : exState.truth.lookup 1 = some ⟨2, blkMsg "P1"⟩ := by decide +kernel
    have h3 : exState.truth.lookup 4 = some ⟨3, blkMsg "P1"⟩ := by decide +kernel
    intro i hi
    simp only [List.mem_cons, List.not_mem_nil, or_false] at hi
    rcases hi with rfl | rfl | rfl
    · exact ⟨by decide, by decide, 3, h1⟩
    · exact ⟨by decide, by decide, 1, h2⟩
    · exact ⟨by decide, by decide, 4, h3⟩
  · have h : (exState.reps.lookup 1).map (fun s => s.ghost.any (fun r => match r with | .vote b id => b == exBlock && id == 2 | _ => false)) = some true := by
      decide +kernel
    cases hl : exState.reps.lookup 1 with
    | none => rw [hl] at h; cases h
    | some s =>
      rw [hl] at h
      refine ⟨1, s, 2, hl, ?_⟩
      simp only [Option.map_some, Option.some.injEq, List.any_eq_true] at h
      obtain ⟨r, hr, hm⟩ := h
      cases r with
      | vote b id =>
        simp only [Bool.and_eq_true, beq_iff_eq] at hm
        rw [← hm.1, ← hm.2]; exact hr
      | tmo v => cases hm
      | adv a b c => cases hm

/-- the adversary's signature is in the table, the forged honest one is not -/
example : exState.truth.lookup 2 = some ⟨4, blkMsg "X"⟩ ∧
    exState.truth.all (fun p => p.2 != ⟨1, blkMsg "X"⟩) = true := by
  constructor <;> decide +kernel

end NonVacuity

end HsVerif.Props.C01Sys
