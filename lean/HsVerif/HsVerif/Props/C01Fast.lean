import HsVerif.Proofs.FastSafety
import HsVerif.Proofs.FastCex
/-! C01 for Fast-HotStuff, abstract layer: IS FAST-HOTSTUFF, AS THIS CODE BASE IMPLEMENTS IT AFTER THE
REPAIRS 4f3d40f / 7d9bd97 / 02b12f6, SAFE?  **No** -- not as a consequence of what the honest replicas
check.  Property theorems and counterexample theorems only; definitions and helpers in
Proofs/FastSafety.lean (the timed abstract system `TSys`, `Discipline`, `AggJ`, `TwoChain`) and
Proofs/FastCex.lean (schedules as finite tables, the checker, the instances).

  1. `fast_unsafe_as_implemented`, `cex_*` -- a seven replica instance (f = 2, quorum 5, the
     implementation's `numFaulty` / `quorumSize`) of the WHOLE discipline with two committed blocks
     that are not on one branch.  The schedule is the header comment of Proofs/FastCex.lean.  The
     cause: `findHighestValidQC` SKIPS a reported QC whose block the voter neither stores nor can
     fetch, different voters of one block may be shown different aggregate QCs, and an aggregate QC
     of a LATER view is accepted (`aggQC.View() + 1 ≥ block.View()`).
  2. `fast_safe_if_strict` -- the classical two-chain argument goes through if a voter abstains
     whenever the QC reported by an honest signer of the aggregate QC cannot be validated.
  3. `fast_safe_if_uniform` -- ... or if all honest voters of a block check the same aggregate QC
     (the counting argument: the honest voters of the reported block and the honest voters of the new
     block intersect, and the common voter has the reported block at that time).
  4. `cex_not_strict`, `cex_not_uniform`, `good_*` -- the counterexample violates both extra
     hypotheses; the honest branch of the same schedule satisfies the discipline and both extra
     hypotheses (the theorems are not vacuous), with an aggregate-justified block between two commits.
  5. `quorum_inter_of_count` -- the quorum hypothesis `Discipline.inter` from `Proofs/QuorumCount.lean`.
Nothing here connects `TSys` to the system of replica models (Model/Sys.lean); that is Part 2 of the
task and is moot for the unrepaired rule (there is no theorem to instantiate). -/
namespace HsVerif.Props.C01Fast
open HsVerif.Safety HsVerif.FastSafety HsVerif.FastCex HsVerif.Model HsVerif.QuorumCount

/-! ### 1. the counterexample -/

/-- **Fast-HotStuff as implemented is not safe by its discipline**: there is a system that satisfies every
clause of `Discipline` and has two two-chain commits on different branches. -/
theorem fast_unsafe_as_implemented :
    ∃ (S : TSys) (b0 b1 c0 c1 : S.Blk), Discipline S ∧ TwoChain S b0 b1 ∧ TwoChain S c0 c1 ∧
      ¬ (TExt S b0 c0 ∨ TExt S c0 b0) :=
  ⟨cex, (1 : B), (2 : B), (7 : B), (8 : B), cex_discipline, chain_b, chain_w, cex_conflict⟩

/-- the instance keeps the discipline ... -/
theorem cex_keeps_discipline : Discipline cex := cex_discipline

/-- ... `b0` (block 1, view 1) is committed by the two-chain `b0 ← b1` ... -/
theorem cex_commit_b : TwoChain cex (1 : B) (2 : B) := chain_b

/-- ... `w1` (block 7, view 7) is committed by the two-chain `w1 ← w2` ... -/
theorem cex_commit_w : TwoChain cex (7 : B) (8 : B) := chain_w

/-- ... and neither extends the other. -/
theorem cex_commits_conflict : ¬ (TExt cex (1 : B) (7 : B) ∨ TExt cex (7 : B) (1 : B)) := cex_conflict

/-- every clause of the discipline is a decidable statement about the finite tables of the schedule -/
theorem cex_checked : full.OK := full_ok

/-- n = 7 replicas, `numFaulty 7 = 2` of them Byzantine, `quorumSize 7 = 5` -/
theorem cex_quorum_system : numFaulty 7 = 2 ∧ quorumSize 7 = 5 ∧ count byz 7 = 2 := cex_sizes

/-- the step of the classical argument that fails: s1 accepts `w` (view 3, parent genesis) against the aggregate
QC A5 although A5 contains the timeout of h1 -- an honest voter of b1 -- reporting the QC of X (view 4 ≥ view b0):
s1 does not have X at that time, so the report is skipped -/
theorem cex_skipped_report :
    (2, 6, 31) ∈ full.votes ∧ full.aggOf 2 6 = some A5 ∧ (0, 2, 7) ∈ full.votes ∧ (0, 5, 28, 4) ∈ full.tmos ∧
    view (1 : B) ≤ view (4 : B) ∧ full.hasB 2 4 31 = false ∧ par (6 : B) = 0 := s1_skips_report

/-- the three honest voters of `w` checked two different aggregate QCs, one of them of view 5 for a view 3 block -/
theorem cex_two_aggregates :
    full.aggOf 3 6 = some A2 ∧ full.aggOf 4 6 = some A2 ∧ full.aggOf 2 6 = some A5 ∧ view (6 : B) = 3 ∧ A5.2.1 = 5 :=
  ⟨w_two_aggregates.1, w_two_aggregates.2.1, w_two_aggregates.2.2, s1_late_aggregate.1, s1_late_aggregate.2⟩

/-- realism beyond the discipline: distinct event times; every reported high QC is of a view below the view
that timed out; every vote in a view above 1 follows a quorum of timeouts of the preceding view -/
theorem cex_realism :
    ((full.votes.map (fun e => e.2.2)) ++ (full.tmos.map (fun e => e.2.2.1))).Nodup ∧
    (∀ e ∈ full.tmos, view e.2.2.2 < e.2.1) ∧
    (∀ e ∈ full.votes, view e.2.1 = 1 ∨
      quorumSize 7 ≤ count (fun i => byz i || full.tmos.any (fun x => x.1.val == i && x.2.1 + 1 == view e.2.1 &&
        decide (x.2.2.1 < e.2.2))) 7) :=
  ⟨full_times_distinct, full_report_below, full_entered_by_tc⟩

/-! ### 2., 3. safety under either extra hypothesis -/

/-- **Safety, if unverifiable reports make the voter abstain**: under the discipline and `StrictJust`, two blocks
that satisfy the two-chain commit condition are on one branch. -/
theorem fast_safe_if_strict (S : TSys) (D : Discipline S) (hs : StrictJust S) {b0 b1 c0 c1 : S.Blk}
    (Cb : TwoChain S b0 b1) (Cc : TwoChain S c0 c1) : TExt S b0 c0 ∨ TExt S c0 b0 :=
  fast_committed_on_one_branch_strict D hs Cb Cc

/-- **Safety, if all voters of a block check the same aggregate QC.** -/
theorem fast_safe_if_uniform (S : TSys) (D : Discipline S) (hu : UniformJust S) {b0 b1 c0 c1 : S.Blk}
    (Cb : TwoChain S b0 b1) (Cc : TwoChain S c0 c1) : TExt S b0 c0 ∨ TExt S c0 b0 :=
  fast_committed_on_one_branch_uniform D hu Cb Cc

/-- the invariant behind both: every certified block at or above a committed block's view extends it -/
theorem fast_certified_extends (S : TSys) (D : Discipline S) (h : StrictJust S ∨ UniformJust S) {b0 b1 : S.Blk}
    (C : TwoChain S b0 b1) (w : S.Blk) (hw : Certified S w) (hge : S.view b0 ≤ S.view w) : TExt S w b0 := by
  rcases h with hs | hu
  · exact certified_extends_strict D hs C w hw hge
  · exact certified_extends_uniform D hu C w hw hge

/-- what any accepted aggregate QC does guarantee (no extra hypothesis): it contains the timeout of an honest
voter of `b1`, signed after that vote, reporting a QC at least as high as `b0` -/
theorem fast_agg_contains_report (S : TSys) (D : Discipline S) {b0 b1 : S.Blk} (C : TwoChain S b0 b1)
    {r : S.Rep} {w : S.Blk} {t : Nat} {T : S.Rep → Prop} {u : Nat} {rep : S.Rep → S.Blk}
    (A : AggJ S r w t T u rep) (hw : S.view b0 + 2 ≤ S.view w) :
    ∃ m t', T m ∧ S.honest m ∧ t' < t ∧ S.timedOutAt m u t' (rep m) ∧ S.view b0 ≤ S.view (rep m) :=
  agg_report D C A hw

/-! ### 4. the extra hypotheses separate the two schedules -/

theorem cex_violates_strict : ¬ StrictJust cex := cex_not_strict
theorem cex_violates_uniform : ¬ UniformJust cex := cex_not_uniform

/-- non-vacuity: the honest branch of the schedule keeps the discipline and both extra hypotheses and commits
`b0` (view 1) and `X` (view 4, voted for under the aggregate rule) -/
theorem good_instance :
    Discipline good.sys ∧ StrictJust good.sys ∧ UniformJust good.sys ∧
    TwoChain good.sys (1 : B) (2 : B) ∧ TwoChain good.sys (4 : B) (5 : B) :=
  ⟨good_discipline, good_strict, good_uniform, good_chain_b, good_chain_x⟩

/-- ... which, by the theorem, are on one branch -/
theorem good_one_branch : TExt good.sys (1 : B) (4 : B) ∨ TExt good.sys (4 : B) (1 : B) :=
  fast_committed_on_one_branch_strict good_discipline good_strict good_chain_b good_chain_x

/-! ### 5. the quorum hypothesis -/

/-- `Discipline.inter` for replicas `0..n-1` with at most `numFaulty n` Byzantine ones and quorums of
`quorumSize n` ids, from `QuorumCount.quorums_share_honest` -/
theorem quorum_inter_of_count (n : Nat) (hn : 1 ≤ n) (byz : Nat → Bool) (hf : count byz n ≤ numFaulty n)
    (Q1 Q2 : Fin n → Prop)
    (h1 : ∃ A : Nat → Bool, quorumSize n ≤ count A n ∧ ∀ r : Fin n, A r.val = true → Q1 r)
    (h2 : ∃ A : Nat → Bool, quorumSize n ≤ count A n ∧ ∀ r : Fin n, A r.val = true → Q2 r) :
    ∃ r : Fin n, Q1 r ∧ Q2 r ∧ byz r.val = false :=
  countQuorum_inter n hn byz hf Q1 Q2 h1 h2

end HsVerif.Props.C01Fast
