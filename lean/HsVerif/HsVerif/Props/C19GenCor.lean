import HsVerif.Props.C19
import HsVerif.Props.C19Gen
/-! C19 — set semantics carried over to the regenerated bit-field methods (`Gen/BitfieldMethods.lean`, translated from
`bitfield.go` on every run): `Props/C19.add_is_insert` through the bridges of `Props/C19Gen`. -/
set_option linter.unusedVariables false
namespace HsVerif.Props.C19GenCor
open HsVerif.Model HsVerif.Props.C19 HsVerif.Props.C19Gen HsVerif.Gen.Methods

/-- ON THE REGENERATED CODE: after `Add(id)` (as translated from the Go source of this run), `Contains(j)` answers
`j = id ∨ Contains(j) before` — insertion into a set, for every bit-field value, every id ≥ 1 and every j ≥ 1 —
and neither call indexes out of range. -/
theorem gen_add_is_insert (bf : Bitfield) (id j : Nat) (hid : 1 ≤ id) (hj : 1 ≤ j) :
    let a := Bitfield_Add bf.data (bf.len : Int) (id : Int)
    ((Bitfield_Contains a.1.1 a.1.2 (j : Int)).2.1 = true ↔
      (j = id ∨ (Bitfield_Contains bf.data (bf.len : Int) (j : Int)).2.1 = true)) ∧
    a.2.2 = true ∧ (Bitfield_Contains a.1.1 a.1.2 (j : Int)).2.2 = true := by
  intro a
  have ha : a = (((bf.add id).data, ((bf.add id).len : Int)), (), true) := gen_Add_eq_model bf id hid
  rw [ha]
  simp only
  rw [gen_Contains_eq_model' (bf.add id) j hj, gen_Contains_eq_model' bf j hj]
  simp only [and_self, and_true]
  rw [contains_iff_mem bf j hj, contains_iff_mem (bf.add id) j hj]
  exact add_is_insert bf id j hid

end HsVerif.Props.C19GenCor
