import HsVerif.Model.Rules
import HsVerif.Props.C04
import HsVerif.Gen.RulesChained
import HsVerif.Gen.RulesFast
import HsVerif.Gen.RulesSimple
/-! C04 — the tie by translation for the three consensus rulesets of `/repo/protocol/rules`.

`Gen/RulesChained.lean`, `Gen/RulesFast.lean`, `Gen/RulesSimple.lean` are regenerated from the Go source of
`chainedhotstuff.go`, `fasthotstuff.go`, `simplehotstuff.go` on every run (tools/gofacts/methods.go): the methods
`qcRef`, `CommitRule`, `VoteRule` as pure functions

    f (accessors and block store …) (lock field) (parameters) : (new lock field) × results × Bool

Blocks (`*hotstuff.Block`) and aggregate QCs are POINTER values of opaque types `Blk`, `AggQC` whose `nil` is the
parameter `Blk_nil` / `AggQC_nil`; hashes and certificates are opaque; views are `Int`; `block.View()`, `.Parent()`,
`.Hash()`, `.QuorumCert()`, `qc.BlockHash()`, `qc.View()`, `aggQC.View()`, `hotstuff.Hash{}`, `blockchain.Get`,
`blockchain.Extends` are parameters (the same list for every function).  The last component is `false` on exactly
the paths on which Go would call a method through a nil pointer (a panic); logger calls are skipped (listed as
notes in the generated files), their arguments are still evaluated for that flag.

This file instantiates the regenerated functions with the types of the hand-written model `Model/Rules.lean`
(pointer = `Option Block`, nil = `none`, hash = `Nat`, zero hash = `0`, certificate = (hash, view) of the block's
`qcHash`, `qcView`; `Get h = (bcGet s h, found)`; `Extends = extends_ s`) and proves, for EVERY store, lock, block
and view, that they return what the model functions return, leave the lock field as the model says, and do not
dereference nil as long as the lock and the block handed in are not nil:

* `gen_chainedQcRef_eq_model`, `gen_chainedCommit_eq_model`, `gen_chainedVote_eq_model`   (`qcRef`, `chainedCommit`, `chainedVote`)
* `gen_fastQcRef_eq_model`, `gen_fastCommit_eq_model`, `gen_fastVote_plain_eq_model`, `gen_fastVote_agg_eq_model`,
  `gen_fastVote_agg_stale`                                                                 (`qcRef`, `fastCommit`, `fastVote`)
* `gen_simpleCommit_eq_model`, `gen_simpleVote_eq_model`                                    (`simpleCommit`, `simpleVote`)

So the property theorems of `Props/C04.lean`, stated for the model functions, are theorems about the code as
regenerated.  One difference between code and model is made explicit: the Go `FastHotStuff.VoteRule` (after
fixes/C01-fast-aggqc-must-be-fresh.diff) refuses a proposal whose aggregate QC is older than the view before the
block's (`AggregateQC.View()+1 < Block.View()`); the model's `fastVote … agg` has no view of the aggregate QC.  The
code equals the model where that guard passes (`gen_fastVote_agg_eq_model`) and returns `false` where it does not
(`gen_fastVote_agg_stale`): the code votes in a subset of the cases in which the model votes.

A bridge theorem stops proving when the Go rule changes its meaning (checked by mutating the rules, REPORT-S16.md)
and keeps proving under renamed locals / swapped operands: the proofs split on the MODEL's conditions and let
`omega` decide the regenerated ones. -/
set_option linter.unusedVariables false
namespace HsVerif.Props.C04Gen
open HsVerif.Gen.Methods HsVerif.Model.Rules HsVerif.Model HsVerif.Spec.Rules HsVerif.Props.C04

/-! ## The model's types as the parameters of the regenerated functions -/

abbrev Ptr := Option Block
abbrev QCv := Nat × Nat
def bView (b : Ptr) : Int := ((b.getD default).view : Int)
def bParent (b : Ptr) : Nat := (b.getD default).parent
def bHash (b : Ptr) : Nat := (b.getD default).hash
def bQC (b : Ptr) : QCv := ((b.getD default).qcHash, (b.getD default).qcView)
def qcHash (q : QCv) : Nat := q.1
def qcView (q : QCv) : Int := (q.2 : Int)
def aggView (a : Option Nat) : Int := ((a.getD 0 : Nat) : Int)
def get (s : Store) (h : Nat) : Ptr × Bool := (bcGet s h, (bcGet s h).isSome)
def ext (s : Store) (b t : Ptr) : Bool := extends_ s (b.getD default) (t.getD default)

def genChainedQcRef (s : Store) (lock : Ptr) (q : QCv) :=
  ChainedHotStuff_qcRef (none : Ptr) (none : Option Nat) (0 : Nat) bView bParent bHash bQC qcHash qcView aggView (get s) (ext s) lock q
def genChainedCommit (s : Store) (lock block : Ptr) :=
  ChainedHotStuff_CommitRule (none : Ptr) (none : Option Nat) (0 : Nat) bView bParent bHash bQC qcHash qcView aggView (get s) (ext s) lock block
def genChainedVote (s : Store) (lock : Ptr) (v : Int) (block : Ptr) (agg : Option Nat) :=
  ChainedHotStuff_VoteRule (none : Ptr) (none : Option Nat) (0 : Nat) bView bParent bHash bQC qcHash qcView aggView (get s) (ext s) lock v block agg

theorem gen_chainedQcRef_eq_model (s : Store) (lock : Ptr) (q : QCv) :
    ChainedHotStuff_qcRef (none : Ptr) (none : Option Nat) (0 : Nat) bView bParent bHash bQC qcHash qcView aggView (get s) (ext s) lock q
      = (lock, (qcRef s q.1, (qcRef s q.1).isSome), true) := by
  unfold ChainedHotStuff_qcRef qcRef qcHash get
  by_cases h : q.1 = 0
  · simp [h]
  · have h' : ¬ (0 = q.1) := fun e => h e.symm
    simp [h, h']

theorem optCases {α : Type} (o : Option α) : o = none ∨ ∃ b, o = some b := by cases o <;> simp

theorem gen_chainedCommit_eq_model (s : Store) (bLock block : Block) :
    genChainedCommit s (some bLock) (some block) =
      (some (chainedCommit s bLock block).2, (chainedCommit s bLock block).1, true) := by
  unfold genChainedCommit ChainedHotStuff_CommitRule chainedCommit
  simp only [gen_chainedQcRef_eq_model, bQC, Option.getD_some]
  obtain h1 | ⟨b1, h1⟩ := optCases (qcRef s block.qcHash)
  · simp [h1]
  simp only [h1, Option.getD_some, Option.isSome_some]
  obtain h2 | ⟨b2, h2⟩ := optCases (qcRef s b1.qcHash)
  · simp [h2]
  simp only [h2, Option.getD_some, Option.isSome_some]
  obtain h3 | ⟨b3, h3⟩ := optCases (qcRef s b2.qcHash)
  · simp [h3, bView]; split <;> simp_all
  simp only [h3, Option.getD_some, Option.isSome_some, bView, bParent, bHash, Bool.true_eq_false, ↓reduceIte,
    apply_ite Prod.fst, apply_ite Prod.snd]
  by_cases hl : b2.view > bLock.view <;>
  by_cases hc : (b1.parent = b2.hash ∧ b1.view = b2.view + 1 ∧ b2.parent = b3.hash ∧ b2.view = b3.view + 1) <;>
  simp (disch := omega) only [if_pos, if_neg] <;> (try simp) <;> (try (intros; exfalso; omega))

theorem gen_chainedVote_eq_model (s : Store) (bLock block : Block) (v : Int) (agg : Option Nat) :
    genChainedVote s (some bLock) v (some block) agg = (some bLock, chainedVote s bLock block, true) := by
  unfold genChainedVote ChainedHotStuff_VoteRule chainedVote
  simp only [get, ext, bQC, qcHash, Option.getD_some]
  obtain h1 | ⟨qb, h1⟩ := optCases (bcGet s block.qcHash)
  · simp [h1] <;> (by_cases he : extends_ s block bLock = true <;> simp_all)
  simp only [h1, Option.getD_some, Option.isSome_some, bView]
  obtain h2 | ⟨lb, h2⟩ := optCases (bcGet s qb.qcHash) <;>
  by_cases hz : qb.qcHash = 0 <;> by_cases hv : qb.view > bLock.view <;>
  simp (disch := omega) only [if_pos, if_neg] <;> (try simp [*]) <;> (try (by_cases he : extends_ s block bLock = true <;> simp_all)) <;> (try (intros; exfalso; omega))

def genFastQcRef (s : Store) (q : QCv) :=
  FastHotStuff_qcRef (none : Ptr) (none : Option Nat) (0 : Nat) bView bParent bHash bQC qcHash qcView aggView (get s) (ext s) q
def genFastCommit (s : Store) (block : Ptr) :=
  FastHotStuff_CommitRule (none : Ptr) (none : Option Nat) (0 : Nat) bView bParent bHash bQC qcHash qcView aggView (get s) (ext s) block
def genFastVote (s : Store) (v : Int) (block : Ptr) (agg : Option Nat) :=
  FastHotStuff_VoteRule (none : Ptr) (none : Option Nat) (0 : Nat) bView bParent bHash bQC qcHash qcView aggView (get s) (ext s) v block agg

theorem gen_fastQcRef_eq_model (s : Store) (q : QCv) :
    FastHotStuff_qcRef (none : Ptr) (none : Option Nat) (0 : Nat) bView bParent bHash bQC qcHash qcView aggView (get s) (ext s) q
      = ((), (qcRef s q.1, (qcRef s q.1).isSome), true) := by
  unfold FastHotStuff_qcRef qcRef qcHash get
  by_cases h : q.1 = 0
  · simp [h]
  · have h' : ¬ (0 = q.1) := fun e => h e.symm
    simp [h, h']

theorem gen_fastCommit_eq_model (s : Store) (block : Block) :
    genFastCommit s (some block) = ((), fastCommit s block, true) := by
  unfold genFastCommit FastHotStuff_CommitRule fastCommit
  simp only [gen_fastQcRef_eq_model, bQC, Option.getD_some]
  obtain h1 | ⟨b1, h1⟩ := optCases (qcRef s block.qcHash)
  · simp [h1]
  simp only [h1, Option.getD_some, Option.isSome_some]
  obtain h2 | ⟨b2, h2⟩ := optCases (qcRef s b1.qcHash)
  · simp [h2]
  simp only [h2, Option.getD_some, Option.isSome_some, bView, bParent, bHash, Bool.true_eq_false, ↓reduceIte]
  by_cases hc : (block.parent = b1.hash ∧ block.view = b1.view + 1 ∧ b1.parent = b2.hash ∧ b1.view = b2.view + 1) <;>
  simp (disch := omega) only [if_pos, if_neg] <;> (try simp) <;> (try (intros; exfalso; omega))

theorem gen_fastVote_plain_eq_model (s : Store) (view : Nat) (block : Block) :
    genFastVote s (view : Int) (some block) none = ((), fastVote s view block false, true) := by
  unfold genFastVote FastHotStuff_VoteRule fastVote
  simp only [bView, bQC, qcView, Option.getD_some]
  by_cases h1 : block.view ≥ view <;> by_cases h2 : block.view = block.qcView + 1 <;>
  simp (disch := omega) [*] <;> (try (intros; exfalso; omega)) <;> omega

theorem gen_fastVote_agg_eq_model (s : Store) (view : Nat) (block : Block) (a : Nat) (fresh : ¬ (a + 1 < block.view)) :
    genFastVote s (view : Int) (some block) (some a) = ((), fastVote s view block true, true) := by
  unfold genFastVote FastHotStuff_VoteRule fastVote
  simp only [bView, bQC, qcHash, aggView, get, ext, Option.getD_some]
  have hf : ¬ ((a : Int) + 1 < (block.view : Int)) := by omega
  obtain h1 | ⟨qb, h1⟩ := optCases (bcGet s block.qcHash) <;> simp [h1, hf]

theorem gen_fastVote_agg_stale (s : Store) (view : Nat) (block : Block) (a : Nat) (stale : a + 1 < block.view) :
    genFastVote s (view : Int) (some block) (some a) = ((), false, true) := by
  unfold genFastVote FastHotStuff_VoteRule
  simp only [bView, aggView, Option.getD_some]
  have hf : ((a : Int) + 1 < (block.view : Int)) := by omega
  simp [hf]

def genSimpleCommit (s : Store) (lock block : Ptr) :=
  SimpleHotStuff_CommitRule (none : Ptr) (none : Option Nat) (0 : Nat) bView bParent bHash bQC qcHash qcView aggView (get s) (ext s) lock block
def genSimpleVote (s : Store) (lock : Ptr) (v : Int) (block : Ptr) (agg : Option Nat) :=
  SimpleHotStuff_VoteRule (none : Ptr) (none : Option Nat) (0 : Nat) bView bParent bHash bQC qcHash qcView aggView (get s) (ext s) lock v block agg

theorem gen_simpleCommit_eq_model (s : Store) (locked block : Block) :
    genSimpleCommit s (some locked) (some block) =
      (some (simpleCommit s locked block).2, (simpleCommit s locked block).1, true) := by
  unfold genSimpleCommit SimpleHotStuff_CommitRule simpleCommit
  simp only [get, bQC, qcHash, Option.getD_some]
  obtain h1 | ⟨p, h1⟩ := optCases (bcGet s block.qcHash)
  · simp [h1]
  simp only [h1, Option.getD_some, Option.isSome_some]
  obtain h2 | ⟨gp, h2⟩ := optCases (bcGet s p.qcHash)
  · simp [h2]
  simp only [h2, Option.getD_some, Option.isSome_some, bView]
  by_cases hl : gp.view > locked.view <;>
  obtain h3 | ⟨ggp, h3⟩ := optCases (bcGet s gp.qcHash) <;>
  simp only [h3, Option.getD_some, Option.isSome_some, Option.isSome_none] <;>
  (try by_cases hc : (ggp.view + 1 = gp.view ∧ ggp.view + 2 = p.view)) <;>
  simp (disch := omega) only [if_pos, if_neg] <;> (try simp [*]) <;> (try omega) <;> (try (intros; exfalso; omega))

theorem gen_simpleVote_eq_model (s : Store) (locked block : Block) (view : Nat) (agg : Option Nat) :
    genSimpleVote s (some locked) (view : Int) (some block) agg = (some locked, simpleVote s locked view block, true) := by
  unfold genSimpleVote SimpleHotStuff_VoteRule simpleVote
  simp only [get, bQC, qcHash, bView, Option.getD_some]
  by_cases hv : block.view < view
  · simp (disch := omega) [hv]
  obtain h1 | ⟨p, h1⟩ := optCases (bcGet s block.qcHash)
  · simp (disch := omega) [h1, hv] <;> omega
  simp only [h1, Option.getD_some, Option.isSome_some]
  obtain h2 | ⟨lb, h2⟩ := optCases (bcGet s p.qcHash) <;>
  by_cases hz : p.qcHash = 0 <;> by_cases hp : p.view < locked.view <;>
  simp (disch := omega) only [if_pos, if_neg] <;> (try simp [*]) <;> (try (intros; exfalso; omega))

/-! ## Non-vacuity: the instantiated functions compute on a concrete chain, and the nil flag is live -/

/-- genesis (1) ← 2 ← 3 ← 4 ← 5, views 0,1,2,3,4, each certifying its parent -/
def chain : Store := fun h =>
  if h = 1 then some genesis
  else if 2 ≤ h ∧ h ≤ 5 then some { hash := h, view := h - 1, parent := h - 1, qcHash := h - 1, qcView := h - 2 }
  else none

def blk (h : Nat) : Block := { hash := h, view := h - 1, parent := h - 1, qcHash := h - 1, qcView := h - 2 }

/-- chained: block 5 commits block 2 and moves the lock to block 3 -/
example : genChainedCommit chain (some genesis) (some (blk 5)) = (some (blk 3), some (blk 2), true) := by decide
/-- fast: block 5 commits block 3 -/
example : genFastCommit chain (some (blk 5)) = ((), some (blk 3), true) := by decide
/-- simple: block 5 commits block 2 -/
example : genSimpleCommit chain (some genesis) (some (blk 5)) = (some (blk 3), some (blk 2), true) := by decide
/-- nothing to commit from block 3 (its chain reaches genesis, whose certificate names the zero hash) -/
example : genChainedCommit chain (some genesis) (some (blk 3)) = (some genesis, none, true) := by decide
/-- votes: yes for block 5 when locked on 2; no when the certified block is below the lock and off its branch -/
example : (genChainedVote chain (some (blk 2)) 0 (some (blk 5)) none).2.1 = true := by decide
example : (genSimpleVote chain (some (blk 5)) 0 (some (blk 3)) none).2.1 = false := by decide
example : (genFastVote chain 4 (some (blk 5)) none).2.1 = true := by decide
/-- the flag: a nil lock is dereferenced by `block2.View() > hs.bLock.View()` … -/
example : (genChainedCommit chain none (some (blk 5))).2.2 = false := by decide
/-- … but not on a path that returns before reaching it -/
example : (genChainedCommit chain none (some (blk 2))).2.2 = true := by decide
/-- a nil proposal block is dereferenced at once -/
example : (genSimpleVote chain (some genesis) 0 none none).2.2 = false := by decide

/-! ## Property statements carried over to the regenerated code -/

/-- ON THE REGENERATED CODE: whatever chained HotStuff's `CommitRule` (as translated from the Go source of this run)
returns is the tail of a chain of three blocks, each certified by its successor's certificate, directly linked by
parent pointers and proposed in consecutive views, headed by the block certified in `b`. -/
theorem gen_chained_commit_is_chain_tail (s : Store) (bLock b c : Block) (hz : s 0 = none)
    (h : (genChainedCommit s (some bLock) (some b)).2.1 = some c) :
    ∃ x y, Chain s true [x, y, c] ∧ justified s b = some x := by
  rw [gen_chainedCommit_eq_model] at h
  have := commit_is_chain_tail ⟨.chained, s, bLock⟩ b c hz (by simpa [commitRule] using h)
  have hk : (Kind.chained != Kind.simple) = true := by decide
  simpa [hk] using this

theorem gen_fast_commit_is_chain_tail (s : Store) (b c : Block) (hz : s 0 = none)
    (h : (genFastCommit s (some b)).2.1 = some c) :
    ∃ y, Chain s true [b, y, c] := by
  rw [gen_fastCommit_eq_model] at h
  obtain ⟨x, y, hc, hx⟩ := commit_is_chain_tail ⟨.fast, s, b⟩ b c hz (by simpa [commitRule] using h)
  have hk : (Kind.fast != Kind.simple) = true := by decide
  simp only [hk, ↓reduceIte] at hx hc
  exact ⟨y, hx ▸ hc⟩

theorem gen_simple_commit_is_chain_tail (s : Store) (locked b c : Block) (hz : s 0 = none)
    (h : (genSimpleCommit s (some locked) (some b)).2.1 = some c) :
    ∃ x y, Chain s false [x, y, c] ∧ justified s b = some x := by
  rw [gen_simpleCommit_eq_model] at h
  have := commit_is_chain_tail ⟨.simple, s, locked⟩ b c hz (by simpa [commitRule] using h)
  have hk : (Kind.simple != Kind.simple) = false := by decide
  simpa [hk] using this

end HsVerif.Props.C04Gen
