import HsVerif.Proofs.ReplicaHighQC
import HsVerif.Props.C03
/-! C07 — views and certified state only move forward, and only on evidence.  Property theorems only.

Proved here for the replica model and EVERY sequence of delivered events: the view starts at 1,
changes only upwards, from `v` to `cert + 1` for a certificate of view `cert ≥ v` that passed the
replica's verifier (`EnterViewAfter(cert)`: the replica enters the view AFTER THE CERTIFICATE, which may
be many views ahead of `v + 1` when the replica had fallen behind); each change is recorded
(`GRec.adv v cert timeout`, appended in the same `modify` that sets the view, immediately followed by
`AddEvent(ViewChangeEvent{cert+1})`); by C02 such a
certificate carries a quorum of distinct genuine signatures (over a block of that view, or over
timeouts for that view).

Also proved (end of file): the view of the high QC never decreases.  NOT proved in Lean (checked by the
oracle on every implementation trace instead): that the view of the committed block never decreases —
`commitInner` walks parent links of arbitrary ancestors, whose views are ordered only by a system-level argument.
-/
open Std.Do
set_option linter.unusedVariables false
namespace HsVerif.Props.C07
open HsVerif.Model HsVerif.Props.C03

theorem step_ia (k : Keys) (c : RCfg) (s : RState) (e : Ev) (h : InvA k c (AP s)) : InvA k c (AP (step k c s e).1) := by
  unfold step
  have h0 : InvA k c (AP { s with out := [], queue := s.queue ++ [e] }) := h
  exact run_of_triple _ (fun s => InvA k c (AP s)) (fun s => InvA k c (AP s)) (runLoop_ia k c 100000) _ h0

theorem start_ia (k : Keys) (c : RCfg) (s : RState) (h : InvA k c (AP s)) : InvA k c (AP (start k c s).1) := by
  unfold start
  have h0 : InvA k c (AP { s with out := [] }) := h
  have spec : ⦃fun s => ⌜InvA k c (AP s)⌝⦄ (do
      let s ← get
      if s.view == 1 && c.leader 1 == c.id then
        createAndPropose k c { qc := some s.highQC, tc := some s.highTC }
      runLoop k c 100000 : M Unit) ⦃⇓ _ s => ⌜InvA k c (AP s)⌝⦄ := by
    mvcgen [createAndPropose_ia, runLoop_ia]
  exact run_of_triple _ (fun s => InvA k c (AP s)) (fun s => InvA k c (AP s)) spec _ h0

theorem reachable_ia (k : Keys) (c : RCfg) (es : List Ev) :
    InvA k c (AP (runEvents k c (start k c {}).1 es)) := by
  have gen : ∀ (es : List Ev) (s : RState), InvA k c (AP s) → InvA k c (AP (runEvents k c s es)) := by
    intro es
    induction es with
    | nil => intro s h; exact h
    | cons e es ih => intro s h; exact ih _ (step_ia k c s e h)
  exact gen es _ (start_ia k c {} (InvA_init k c))

/-- the advancement records of a history -/
def advances (g : List GRec) : List GRec := g.filter GRec.isAdv

/-- **The view changes only from `v` to `cert + 1` with `cert ≥ v`, and every change is recorded**
(RESTATED for `EnterViewAfter`; the name is historical: the old model moved by exactly one view, the
records being "left view 1", "left view 2", …).  After any event sequence the advancement records form a
chain from view 1 to the current view: the views that were left, followed by the current view, are
exactly view 1 followed by the views that were entered (certified view + 1); every record left a view at
most its certified view, so each step of the chain goes strictly up. -/
theorem view_advances_by_one (k : Keys) (c : RCfg) (es : List Ev) :
    let s := runEvents k c (start k c {}).1 es
    1 ≤ s.view ∧
    (advances s.ghost).map GRec.advFrom ++ [s.view] = 1 :: (advances s.ghost).map GRec.advTo ∧
    ∀ r ∈ advances s.ghost, r.advFrom < r.advTo := by
  obtain ⟨h1, h2, h3⟩ := reachable_ia k c es
  refine ⟨h1, h2, ?_⟩
  intro r hr
  have hadv : r.isAdv = true := (List.mem_filter.mp hr).2
  cases r with
  | adv f cv t =>
    have := (h3 f cv t hr).1
    simp only [GRec.advFrom, GRec.advTo]; omega
  | _ => simp [GRec.isAdv] at hadv

/-- **The view never decreases and leaves `v` only for the view after a certificate of a view `≥ v`**,
read off the chain: the last advancement record, if any, entered the current view. -/
theorem current_view_is_last_entered (k : Keys) (c : RCfg) (es : List Ev) :
    let s := runEvents k c (start k c {}).1 es
    s.view = ((advances s.ghost).map GRec.advTo).getLast?.getD 1 := by
  intro s
  have h2 := (view_advances_by_one k c es).2.1
  have := congrArg List.getLast? h2
  rw [List.getLast?_append] at this
  simp only [List.getLast?_singleton, Option.some_or] at this
  rw [List.getLast?_cons] at this
  simp only [Option.some.injEq] at this
  exact this

/-- **Only on evidence**: every time the replica left a view `v` it held a certificate (QC, TC or
aggregate QC) for a view `cert ≥ v` that its verifier accepted. -/
theorem advance_on_evidence (k : Keys) (c : RCfg) (es : List Ev) (v cert : Nat) (t : Bool)
    (h : GRec.adv v cert t ∈ (runEvents k c (start k c {}).1 es).ghost) :
    v ≤ cert ∧ Evidence k c cert := by
  obtain ⟨_, _, h3⟩ := reachable_ia k c es
  exact h3 v cert t (by simp only [AP]; exact List.mem_filter.mpr ⟨h, rfl⟩)

/-- The evidence is real (C02): a verified QC of view `cert` means a quorum of distinct configured
replicas signed a block stored with view `cert`; a verified TC means a quorum signed timeouts for
view `cert`; a verified aggregate QC means a quorum each signed its own timeout message for view
`cert`. -/
theorem evidence_is_quorum (k : Keys) (c : RCfg) (cert : Nat) (h : Evidence k c cert)
    (hs : ∀ s0, C02.StoreOK (env k c s0)) (hw : ∀ sg : Sig, sg.WF) (hk : ∀ a : AggQC, (a.qcs.map (·.1)).Nodup) :
    ∃ s0 : RState,
      (∃ q : QC, q.view = cert ∧ ((q.hash = genesisHash ∧ q.view = 0) ∨
          ∃ b sg, (env k c s0).get q.hash = some b ∧ b.view = q.view ∧ C02.QuorumSigned (env k c s0) sg (blkMsg q.hash))) ∨
      (∃ t : TC, t.view = cert ∧ (t.view = 0 ∨ ∃ sg, C02.QuorumSigned (env k c s0) sg (viewMsg t.view))) ∨
      (∃ (a : AggQC) (sg : Sig) (S : List Nat), a.view = cert ∧ S.Nodup ∧ c.cfg.quorum ≤ S.length ∧
          ∀ i ∈ S, c.cfg.has i = true ∧ ∃ m, (i, m) ∈ aggMessages k a ∧ SigHas (env k c s0).T sg ⟨i, m⟩) := by
  obtain ⟨s0, h⟩ := h
  refine ⟨s0, ?_⟩
  rcases h with ⟨q, hv, rfl⟩ | ⟨t, hv, rfl⟩ | ⟨a, sg, hsig, hq, hb, rfl⟩
  · left
    refine ⟨q, rfl, ?_⟩
    rcases C02.verifyQC_sound (env k c s0) q (hs s0) (fun s _ => hw s) hv with h | ⟨b, sg, h1, _, h3, _, h5⟩
    · exact Or.inl h
    · exact Or.inr ⟨b, sg, h1, h3, h5⟩
  · right; left
    refine ⟨t, rfl, ?_⟩
    rcases C02.verifyTC_sound (env k c s0) t (fun s _ => hw s) hv with h | ⟨sg, _, h2⟩
    · exact Or.inl h
    · exact Or.inr ⟨sg, h2⟩
  · right; right
    have hk' : ((aggMessages k a).map (·.1)).Nodup := by
      simpa [aggMessages, List.map_map, Function.comp_def] using hk a
    obtain ⟨S, hn, hl, hall⟩ := batchVerify_sound (env k c s0).T c.cfg sg (aggMessages k a) hk' hb (hw sg)
    exact ⟨a, sg, S, rfl, hn, by rw [hl]; exact hq, hall⟩

/-! Signalling ("never skips signalling a view change to its own components"): in `advanceView`
the view assignment, its ghost record and `AddEvent(ViewChangeEvent{cert+1})` are three adjacent lines
with no exit between them, and the record exists for every change of the view (`view_advances_by_one`).
That the queued event is dispatched exactly once is C14.  On the implementation the oracle
compares, for every delivered message, the list of ViewChangeEvents handled with the views entered
(strictly increasing, above the old view, ending at the new view). -/

end HsVerif.Props.C07

namespace HsVerif.Props.C07
open HsVerif.Model HsVerif.Proofs

/-- **The view of the high QC never decreases.**  From any state in which the genesis block is
stored (every reachable state: block maps only grow), delivering any event — a message of any
content from any sender, or a local timeout — leaves the high QC's view at least where it was,
and genesis stored. -/
theorem highqc_view_monotone (k : Keys) (c : RCfg) (s : RState) (e : Ev) (hg : Grows G0 s) :
    s.highQC.view ≤ (step k c s e).1.highQC.view ∧ Grows G0 (step k c s e).1 := by
  unfold step
  have h0 : ({ s with out := [], queue := s.queue ++ [e] } : RState).highQC.view = s.highQC.view ∧
      Grows G0 { s with out := [], queue := s.queue ++ [e] } := ⟨rfl, hg⟩
  have := run_res_of_triple (runLoop k c 100000) _ _ (runLoop_hv k c 100000 s.highQC.view) _ h0
  simp only [StateT.run, Id.run] at this ⊢
  exact this

/-- … and hence along every sequence of events from the initial state. -/
theorem highqc_view_monotone_run (k : Keys) (c : RCfg) (es : List Ev) (s : RState) (hg : Grows G0 s) :
    s.highQC.view ≤ (es.foldl (fun s e => (step k c s e).1) s).highQC.view := by
  induction es generalizing s with
  | nil => exact Nat.le_refl _
  | cons e rest ih =>
    have h1 := highqc_view_monotone k c s e hg
    exact Nat.le_trans h1.1 (ih _ h1.2)

/-- the initial state stores genesis -/
theorem initial_stores_genesis : Grows G0 ({} : RState) := by
  intro h b hx
  unfold G0 at hx
  rw [List.lookup_cons] at hx
  split at hx
  · rename_i he
    have : h = genesisHash := by simpa using he
    subst this
    cases hx
    rfl
  · simp at hx

end HsVerif.Props.C07
