import HsVerif.Proofs.FastSafety
import HsVerif.Proofs.FastCex
import HsVerif.Proofs.FastExact
/-! C01 for Fast-HotStuff, abstract layer, continued: DOES THE PAPER'S EXACT FRESHNESS RULE
(`aggQC.View() + 1 == block.View()` instead of the repaired code's `≥`) MAKE FAST-HOTSTUFF, OTHERWISE AS
IMPLEMENTED, SAFE?  **No.**  Property theorems and counterexample theorems only; definitions, the table
checker and the instance are in Proofs/FastExact.lean (whose header comment is the message schedule).

  1. `fast_not_safe_with_exact_freshness`, `ecex_*` -- a seven replica instance (f = 2, quorum 5) of the whole
     `Discipline`, of `ExactFresh` and of the pacemaker facts `Discipline'` with two committed blocks that are
     not on one branch.  The cause: above a committed pair `b0 ← b1` two certified blocks `P`, `Q` may fork
     (non-consecutive views); c holds only `Q`, d holds only `P`; a quorum misses two replicas, so c is shown
     an aggregate QC of the preceding view whose non-genesis reports are all `P`, d one whose non-genesis
     reports are all `Q`; `findHighestValidQC` skips them; neither voter looks at its OWN high QC.
  2. `fast_safe_if_locked` -- what is missing is NOT freshness: if a voter also respects its own high QC (never
     votes for a block whose QC is lower than the QC of a block it voted for before), the two-chain argument is
     two lines and needs no condition on the aggregate QC at all.  `LockJust` is NOT a fact of the code
     (`FastHotStuff.VoteRule` never reads the replica's high QC).  F1's `StrictJust` / `UniformJust` remain
     sufficient as well (`C01Fast.fast_safe_if_strict`, `fast_safe_if_uniform`); the instance violates all three.
  3. `good_locked_exact_instance` -- non-vacuity: the honest branch of F1's schedule satisfies the discipline,
     `ExactFresh` and `LockJust`, with an aggregate-justified block between its two commits.
Hand analysis only (not checked here): for n = 4 (f = 1) `Discipline` + `ExactFresh` + "a reported QC is of a view
`≤` the view timed out" does imply safety -- a quorum misses one replica, so a voter of `b1` that votes for the
conflicting block can avoid only its own report. -/
namespace HsVerif.Props.C01FastExact
open HsVerif.Safety HsVerif.FastSafety HsVerif.FastExact HsVerif.Model HsVerif.QuorumCount

/-! ### 1. the counterexample under exact freshness -/

/-- **Fast-HotStuff with exact freshness of the aggregate QC is not safe by its discipline**: there is a system
that satisfies every clause of `Discipline` (and the pacemaker facts of `Discipline'`), in which every honest vote
is plain or justified by an aggregate QC of EXACTLY the preceding view, and that has two two-chain commits on
different branches. -/
theorem fast_not_safe_with_exact_freshness :
    ∃ (S : TSys) (b0 b1 c0 c1 : S.Blk), Discipline' S ∧ ExactFresh S ∧ TwoChain S b0 b1 ∧ TwoChain S c0 c1 ∧
      ¬ (TExt S b0 c0 ∨ TExt S c0 b0) :=
  ⟨ecex, (1 : B), (2 : B), (5 : B), (6 : B), ecex_discipline', ecex_exact, echain_b, echain_w, ecex_conflict⟩

/-- the instance keeps the discipline (and the pacemaker facts) ... -/
theorem ecex_keeps_discipline : Discipline ecex ∧ Discipline' ecex := ⟨ecex_discipline, ecex_discipline'⟩

/-- ... every aggregate justification is of the view right before the block's ... -/
theorem ecex_exact_fresh : ExactFresh ecex := ecex_exact

/-- ... `b0` (block 1, view 1) is committed by the two-chain `b0 ← b1` ... -/
theorem ecex_commit_b : TwoChain ecex (1 : B) (2 : B) := echain_b

/-- ... `w` (block 5, view 6, parent genesis) is committed by the two-chain `w ← w1` ... -/
theorem ecex_commit_w : TwoChain ecex (5 : B) (6 : B) := echain_w

/-- ... and neither extends the other. -/
theorem ecex_commits_conflict : ¬ (TExt ecex (1 : B) (5 : B) ∨ TExt ecex (5 : B) (1 : B)) := ecex_conflict

/-- every clause is a decidable statement about the finite tables of the schedule -/
theorem ecex_checked : efull.OK ∧ efull.RealOK := ⟨efull_ok, efull_real⟩

/-- n = 7 replicas, `numFaulty 7 = 2` of them Byzantine, `quorumSize 7 = 5`; all event times distinct -/
theorem ecex_quorum_system_and_times : (numFaulty 7 = 2 ∧ quorumSize 7 = 5 ∧ count byz 7 = 2) ∧
    ((efull.votes.map (fun e => e.2.2)) ++ (efull.tmos.map (fun e => e.2.2.1))).Nodup :=
  ⟨ecex_sizes, efull_times_distinct⟩

/-- the fork above the committed pair that EF does not exclude: `P` (block 3) and `Q` (block 4) are both children of
`b1`, both certified before the view 5 timeouts; c (replica 2) never has `P`, d (replica 3) never has `Q` -/
theorem ecex_fork_above_b1 :
    efull.par (3 : B) = 2 ∧ efull.par (4 : B) = 2 ∧ efull.certB 3 25 = true ∧ efull.certB 4 25 = true ∧
    efull.hasB 2 3 42 = false ∧ efull.hasB 3 4 42 = false := fork_above_b1

/-- the step of the classical argument that fails, at c: c voted for `b1`, reports `Q` itself, and votes for `w`
(parent genesis) against an aggregate QC of view 5 = view w - 1 that contains the timeout of a -- an honest voter
of `b1` -- reporting `P` (view ≥ view b0): c does not have `P`, the report is skipped -/
theorem ecex_skipped_report_c :
    (2, 5, 30) ∈ efull.votes ∧ efull.aggOf 2 5 = some A5c ∧ A5c.2.1 + 1 = efull.view 5 ∧
    (2, 2, 9) ∈ efull.votes ∧ (2, 5, 27, 4) ∈ efull.tmos ∧
    (0, 2, 7) ∈ efull.votes ∧ (0, 5, 25, 3) ∈ efull.tmos ∧ efull.view 1 ≤ efull.view 3 ∧
    efull.hasB 2 3 30 = false ∧ efull.par 5 = 0 := c_skips_report

/-- ... and at d: d reports `P` itself and votes for `w` against ANOTHER aggregate QC of view 5 in which the honest
voters b and c of `b1` report `Q`, which d does not have -/
theorem ecex_skipped_report_d :
    (3, 5, 31) ∈ efull.votes ∧ efull.aggOf 3 5 = some A5d ∧ A5d.2.1 + 1 = efull.view 5 ∧
    (3, 5, 28, 3) ∈ efull.tmos ∧
    (1, 2, 8) ∈ efull.votes ∧ (1, 5, 26, 4) ∈ efull.tmos ∧ (2, 5, 27, 4) ∈ efull.tmos ∧
    efull.view 1 ≤ efull.view 4 ∧ efull.hasB 3 4 31 = false := d_skips_report

/-! ### 2. what is missing is not freshness: a voter that respects its own high QC -/

/-- **Safety, if a voter never votes for a block whose QC is lower than the QC of a block it voted for before**
(its own high QC counts as a report / as a lock).  No freshness hypothesis, no hypothesis on skipped reports. -/
theorem fast_safe_if_locked (S : TSys) (D : Discipline S) (hl : LockJust S) {b0 b1 c0 c1 : S.Blk}
    (Cb : TwoChain S b0 b1) (Cc : TwoChain S c0 c1) : TExt S b0 c0 ∨ TExt S c0 b0 :=
  fast_committed_on_one_branch_locked D hl Cb Cc

/-- the invariant behind it: every certified block at or above a committed block's view extends it -/
theorem fast_certified_extends_locked (S : TSys) (D : Discipline S) (hl : LockJust S) {b0 b1 : S.Blk}
    (C : TwoChain S b0 b1) (w : S.Blk) (hw : Certified S w) (hge : S.view b0 ≤ S.view w) : TExt S w b0 :=
  certified_extends_locked D hl C w hw hge

/-- exact freshness is a strengthening of the implemented rule: it implies `Discipline.just` -/
theorem exact_implies_just (S : TSys) (h : ExactFresh S) : ∀ r w t, S.honest r → S.votedAt r w t →
    Plain S w ∨ ∃ T u rep, AggJ S r w t T u rep := h.just

/-- the instance violates each of the three sufficient hypotheses -/
theorem ecex_violates_strict : ¬ StrictJust ecex := ecex_not_strict
theorem ecex_violates_uniform : ¬ UniformJust ecex := ecex_not_uniform
theorem ecex_violates_locked : ¬ LockJust ecex := ecex_not_locked

/-- the direct witness: c voted for `b1` (whose QC is for `b0`, view 1) at time 9 and for `w` (QC for genesis) at 30 -/
theorem ecex_c_lowers_qc :
    (2, 2, 9) ∈ efull.votes ∧ (2, 5, 30) ∈ efull.votes ∧ efull.view (efull.par 5) < efull.view (efull.par 2) :=
  c_lowers_qc

/-! ### 3. non-vacuity -/

/-- the honest branch of F1's schedule keeps the discipline, exact freshness and `LockJust`, and commits `b0`
(view 1) and `X` (view 4, voted for under the aggregate rule) -/
theorem good_locked_exact_instance :
    Discipline FastCex.good.sys ∧ ExactFresh FastCex.good.sys ∧ LockJust FastCex.good.sys ∧
    TwoChain FastCex.good.sys (1 : FastCex.B) (2 : FastCex.B) ∧ TwoChain FastCex.good.sys (4 : FastCex.B) (5 : FastCex.B) :=
  ⟨FastCex.good_discipline, good_exact, good_locked, FastCex.good_chain_b, FastCex.good_chain_x⟩

end HsVerif.Props.C01FastExact
