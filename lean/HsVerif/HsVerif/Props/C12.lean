import HsVerif.Model.Wire
import HsVerif.Proofs.Cert
/-! C12 — wire encoding preserves the meaning of every protocol message.  Property theorems only.

Each theorem says that decoding the encoding of a well-formed object yields the *same object*
(up to the fields the receiver fills in from the connection: the sender id); equality of hash,
bytes-to-sign, participants and verification verdict are then immediate, since they are functions
of the object (stated once in `derived_equal`). -/
set_option linter.unusedVariables false
namespace HsVerif.Props.C12
open HsVerif.Model

def twoPow32 : Nat := 4294967296
def twoPow64 : Nat := 18446744073709551616

/-- what honest code produces: a Go type exists for the scheme, signer ids fit `uint32`, bit-field
size consistent (C19) -/
def SigOK : Option Sig → Prop
  | none => True
  | some (.multi k es) => k ≠ .bls12 ∧ ∀ e ∈ es, e.claimed < twoPow32
  | some (.bls _ _ bits) => bits.len = bits.ids.length

def QCOK (q : QC) : Prop := SigOK q.sig ∧ q.view < twoPow64
def TCOK (t : TC) : Prop := SigOK t.sig ∧ t.view < twoPow64
def AggOK (a : AggQC) : Prop := SigOK a.sig ∧ a.view < twoPow64 ∧ ∀ p ∈ a.qcs, p.1 < twoPow32 ∧ QCOK p.2
def SyncOK (s : SyncInfo) : Prop := (∀ q, s.qc = some q → QCOK q) ∧ (∀ t, s.tc = some t → TCOK t) ∧ (∀ a, s.agg = some a → AggOK a)

theorem entries_rt (es : List Entry) (h : ∀ e ∈ es, e.claimed < twoPow32) :
    (es.map fun e => (u32 e.claimed, e.bytes)).map (fun p => (⟨p.1, p.2⟩ : Entry)) = es := by
  induction es with
  | nil => rfl
  | cons e es ih =>
    have h1 : u32 e.claimed = e.claimed := by
      unfold u32; exact Nat.mod_eq_of_lt (h e (by simp))
    simp only [List.map_cons, h1]
    rw [ih (fun x hx => h x (by simp [hx]))]

theorem sig_rt (s : Option Sig) (h : SigOK s) : sigFromProto (sigToProto s) = s := by
  match s with
  | none => rfl
  | some (.multi .ecdsa es) => simp only [sigToProto, sigFromProto, entries_rt es h.2]
  | some (.multi .eddsa es) => simp only [sigToProto, sigFromProto, entries_rt es h.2]
  | some (.multi .bls12 es) => exact absurd rfl h.1
  | some (.bls a j bits) =>
    simp only [sigToProto, sigFromProto, Bitfield.bytes, Bitfield.fromBytes]
    simp only [SigOK, Bitfield.ids] at h
    cases bits; simp_all

theorem qc_rt (q : QC) (h : QCOK q) : qcFromProto (qcToProto q) = q := by
  cases q
  simp only [qcToProto, qcFromProto, sig_rt _ h.1, u64]
  simp only [QCOK, twoPow64] at h
  simp [Nat.mod_eq_of_lt h.2]

theorem tc_rt (t : TC) (h : TCOK t) : tcFromProto (tcToProto t) = t := by
  cases t
  simp only [tcToProto, tcFromProto, sig_rt _ h.1, u64]
  simp only [TCOK, twoPow64] at h
  simp [Nat.mod_eq_of_lt h.2]

theorem aggqcs_rt (l : List (Nat × QC)) (h : ∀ p ∈ l, p.1 < twoPow32 ∧ QCOK p.2) :
    (l.map fun p => (u32 p.1, qcToProto p.2)).map (fun x => (x.1, qcFromProto x.2)) = l := by
  induction l with
  | nil => rfl
  | cons p ps ih =>
    obtain ⟨h1, h2⟩ := h p (by simp)
    have : u32 p.1 = p.1 := by unfold u32; exact Nat.mod_eq_of_lt h1
    simp only [List.map_cons, this, qc_rt _ h2]
    rw [ih (fun x hx => h x (by simp [hx]))]

theorem agg_rt (a : AggQC) (h : AggOK a) : aggFromProto (aggToProto a) = a := by
  cases a
  simp only [aggToProto, aggFromProto, sig_rt _ h.1, aggqcs_rt _ h.2.2, u64]
  simp only [AggOK, twoPow64] at h
  simp [Nat.mod_eq_of_lt h.2.1]

theorem sync_rt (s : SyncInfo) (h : SyncOK s) : syncFromProto (syncToProto s) = s := by
  obtain ⟨hq, ht, ha⟩ := h
  cases s with
  | mk q t a =>
    simp only [syncToProto, syncFromProto, Option.map_map]
    congr 1
    · cases q with
      | none => rfl
      | some q => simp [qc_rt q (hq q rfl)]
    · cases t with
      | none => rfl
      | some t => simp [tc_rt t (ht t rfl)]
    · cases a with
      | none => rfl
      | some a => simp [agg_rt a (ha a rfl)]

/-- A timeout message arrives unchanged except that its sender id is the id of the connection it
came on; in particular from an honest sender (peer = its own id) it is the same message. -/
theorem tmo_rt (t : TimeoutMsg) (peer : Nat) (hv : t.view < twoPow64) (h1 : SigOK t.viewSig) (h2 : SigOK t.msgSig)
    (h3 : SyncOK t.si) : tmoFromProto (tmoToProto t) peer = { t with id := peer } := by
  cases t with
  | mk id view vs ms si =>
    simp only [tmoToProto, tmoFromProto, sync_rt _ h3, sig_rt _ h1, u64]
    simp only [twoPow64] at hv
    have : (ms.map fun s => sigToProto (some s)).bind sigFromProto = ms := by
      cases ms with
      | none => rfl
      | some s => simp [sig_rt (some s) h2]
    simp [this, Nat.mod_eq_of_lt hv]

theorem block_rt (b : BlockContent) (hv : b.view < twoPow64) (hp : b.proposer < twoPow32) (hq : QCOK b.qc) :
    blockFromProto (blockToProto b) = b := by
  cases b
  simp only [blockToProto, blockFromProto, qc_rt _ hq, u64, u32]
  simp only [twoPow64, twoPow32] at hv hp
  simp [Nat.mod_eq_of_lt hv, Nat.mod_eq_of_lt hp]

/-- A proposal arrives with the block the sender created iff the sender is the block's proposer
(the handler overwrites the proposer with the peer id, so nobody can propose in another's name). -/
theorem proposal_rt (b : BlockContent) (agg : Option AggQC) (peer : Nat) (hv : b.view < twoPow64)
    (hp : peer < twoPow32) (hq : QCOK b.qc) (ha : ∀ a, agg = some a → AggOK a) :
    proposalRT b agg peer = (peer, { b with proposer := peer }, agg) := by
  cases b
  simp only [proposalRT, blockToProto, blockFromProto, qc_rt _ hq, u64, u32]
  simp only [twoPow64, twoPow32] at hv hp
  have : (agg.map aggToProto).map aggFromProto = agg := by
    cases agg with
    | none => rfl
    | some a => simp [agg_rt a (ha a rfl)]
  simp [this, Nat.mod_eq_of_lt hv, Nat.mod_eq_of_lt hp]

/-- A vote arrives with the same signature and block hash; the signer shortcut is recomputed as
the first participant, which is what `NewPartialCert` computed at the sender. -/
theorem pc_rt (sig : Option Sig) (h : Hash) (hs : SigOK sig) :
    pcFromProto (pcToProto sig h) = ((sig.map Sig.first).getD 0, sig, h) := by
  simp only [pcFromProto, pcToProto, sig_rt _ hs]

/-- Hash, bytes-to-sign, participants and verdicts are functions of the object: equal objects give
equal results, for any such function `F` (in particular `Block.Hash`, `ToBytes`, `Participants`,
`verifyQC E`, `verifyTC E`, `verifyAggQC E`). -/
theorem derived_equal {α β} (F : α → β) (x y : α) (h : x = y) : F x = F y := by rw [h]

/-- Block fetch: the reply filter of `RequestBlockQF` only lets through a block whose recomputed
hash is the requested one (`hashOf` = SHA-256 of `ToBytes`, any function). -/
def requestBlockQF (hashOf : BlockContent → Hash) (h : Hash) (replies : List PBlock) : Option PBlock :=
  replies.find? fun p => hashOf (blockFromProto p) == h

theorem fetched_block_has_hash (hashOf : BlockContent → Hash) (h : Hash) (replies : List PBlock) (r : PBlock)
    (hr : requestBlockQF hashOf h replies = some r) : hashOf (blockFromProto r) = h := by
  have := List.find?_some hr
  simpa using this

/-- what honest constructors produce satisfies the well-formedness used above -/
theorem blsSign_ok (r : Nat) (m : Msg) (hr : 1 ≤ r) : SigOK (some (blsSign r m)) := by
  simp only [SigOK, blsSign]
  exact Bitfield.inv_add _ _ hr Bitfield.inv_empty

/-- Non-vacuity -/
example : sigFromProto (sigToProto (some (blsSign 3 "m"))) = some (blsSign 3 "m") := by decide
example : qcFromProto (qcToProto ⟨some (.multi .ecdsa [⟨1, 11⟩, ⟨2, 12⟩]), 5, "B"⟩) = ⟨some (.multi .ecdsa [⟨1, 11⟩, ⟨2, 12⟩]), 5, "B"⟩ := by decide

end HsVerif.Props.C12
