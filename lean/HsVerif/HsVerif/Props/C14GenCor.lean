import HsVerif.Props.C14
import HsVerif.Props.C14Gen
/-! C14 — the refinement statement carried over to the regenerated ring buffer (`Gen/Queue.lean`, translated from
`queue.go` on every run): running ANY word of push / pop / len through the regenerated `push`, `pop`, `len`, starting
from `newQueue(c)`'s fields, gives the outputs of the ideal bounded deque. -/
set_option linter.unusedVariables false
namespace HsVerif.Props.C14GenCor
open HsVerif.Model HsVerif.Model.Queue HsVerif.Props.C14 HsVerif.Props.C14Gen
open HsVerif.Gen.Methods (queue_push queue_pop queue_len)

abbrev GQ (α : Type) := List (Option α) × Int × Int

/-- one operation through the regenerated code -/
def gstep {α : Type} (q : GQ α) : QOp α → GQ α × QOut α
  | .push x => let r := queue_push q.1 q.2.1 q.2.2 (some x); (r.1, .pushed r.2.1)
  | .pop => let r := queue_pop q.1 q.2.1 q.2.2; (r.1, .popped r.2.1.1)
  | .len => let r := queue_len q.1 q.2.1 q.2.2; (r.1, .len r.2.1)

def grun {α : Type} (q : GQ α) : List (QOp α) → GQ α × List (QOut α)
  | [] => (q, [])
  | o :: os => let r := gstep q o; let r' := grun r.1 os; (r'.1, r.2 :: r'.2)

def fields {α : Type} (q : Queue α) : GQ α := (q.entries, q.head, q.tail)

theorem gstep_eq_model {α : Type} (q : Queue α) (o : QOp α) :
    gstep (fields q) o = (fields (q.step o).1, (q.step o).2) := by
  cases o with
  | push x =>
    obtain ⟨h1, h2⟩ := gen_push_eq_model q x
    simp only [gstep, fields, Queue.step, h1, h2]
  | pop =>
    obtain ⟨h1, h2, _⟩ := gen_pop_eq_model q
    simp only [gstep, fields, Queue.step, h1, h2]
  | len =>
    obtain ⟨h1, h2⟩ := gen_len_eq_model q
    simp only [gstep, fields, Queue.step, h1, h2]

theorem grun_eq_model {α : Type} (w : List (QOp α)) (q : Queue α) :
    grun (fields q) w = (fields (q.run w).1, (q.run w).2) := by
  induction w generalizing q with
  | nil => rfl
  | cons o os ih =>
    simp only [grun, Queue.run, gstep_eq_model, ih]

/-- **The regenerated ring buffer refines the bounded deque**: every capacity ≥ 1, every word. -/
theorem gen_queue_refines_deque {α : Type} (c : Nat) (hc : 1 ≤ c) (w : List (QOp α)) :
    (grun (fields (Queue.new c : Queue α)) w).2 = (Deque.run c [] w).2 := by
  rw [grun_eq_model]; exact queue_refines_deque c hc w

example : (grun (fields (Queue.new 2 : Queue Nat)) [.push 1, .push 2, .push 3, .pop, .len]).2 =
    [.pushed none, .pushed none, .pushed (some 1), .popped (some 2), .len 1] := by decide

end HsVerif.Props.C14GenCor
