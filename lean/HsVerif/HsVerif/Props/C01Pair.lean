import HsVerif.Proofs.ReplicaPair
import HsVerif.Props.C01Rule
/-! C01, layer B (replica level) — the lock rule as an invariant over the WHOLE vote history of one
replica, for chained and simplified HotStuff (`c.rules ≠ .fast`).  Property theorems only.
Replica, events, `runEvents` as in Props/C03.lean; vocabulary `sget`, `RuleHolds`
(Proofs/StoreWalk.lean), `LInv` (Proofs/ReplicaLockInv.lean), and from Proofs/ReplicaPair.lean:

* `GPof c s x L`   — `L` is the stored certificate-grandparent of `x`, over the links `commitRule`
                     follows (`GP c s x` with the lock replaced by `L`; `GP c s x ↔ GPof c s x s.lock`);
* `CoveredBy c s x lv` — chained with `x.qc.hash = ""`, or the block `p` certified by `x.qc` is stored
                     and `p.qc.hash = ""` or the block `g` certified by `p.qc` is stored with `g.view ≤ lv`
                     (the second half of `LockCoversW`, with the lock's view as a parameter);
* `ProvIn c s votes L` — `L = genesisBlock`, or `GPof c s x L` for a vote `GRec.vote x _ ∈ votes`;
* `PairInv c s`    — for every split `s.ghost = pre ++ GRec.vote w id :: post` there is `L` with
                     `ProvIn c s pre L`, every vote in `pre` `CoveredBy … L.view`, and `RuleHolds c s w L`.

`L` is the lock the replica held when it evaluated the vote rule for `w`.  One `step` runs the event
loop to quiescence and can append several votes (the replica's own proposal after a view change, then
proposals that were deferred until that view change and are re-queued by it), so this is NOT a
consequence of the one-step theorem `C01Rule.vote_respects_lock`, which does not order the locks of
one step against the votes of the same step; it is carried through every handler together with `LInv`
(`voterVerify` needs `LInv` of that very moment to know that the lock covers all earlier votes).
None of the three facts mentions the current lock, so `tryCommit` between `voterVerify` and `voteFor`
(`onValidPropose`) does not disturb them.

Everything is proved as stated in the task; no clause is partial. -/
open Std.Do
set_option mvcgen.warning false
set_option linter.unusedVariables false
namespace HsVerif.Props.C01Pair
open HsVerif.Model HsVerif.Proofs HsVerif.Props.C03

/-! ### 1. the invariant and its preservation -/

/-- The initial state satisfies the history invariant (there is no vote yet). -/
theorem pair_init (c : RCfg) : PairInv c {} := HsVerif.Model.pair_init c

/-- **One-step preservation**: from ANY state satisfying the lock invariant `LInv` and the history
invariant `PairInv`, the state after delivering ANY event satisfies `PairInv` again: every vote in
the (extended) ghost history — old or cast in this step, however many — has a block `L` that is
genesis or the stored certificate-grandparent of an EARLIER vote, covers every earlier vote, and
against which the vote rule held. -/
theorem step_pair (k : Keys) (c : RCfg) (hc : c.rules ≠ .fast) (s : RState) (e : Ev) (hl : LInv c s)
    (hp : PairInv c s) : PairInv c (step k c s e).1 :=
  (step_lp k c hc s e ⟨hl, hp⟩).2

/-- the same for `Start` -/
theorem start_pair (k : Keys) (c : RCfg) (hc : c.rules ≠ .fast) (s : RState) (hl : LInv c s)
    (hp : PairInv c s) : PairInv c (start k c s).1 :=
  (start_lp k c hc s ⟨hl, hp⟩).2

/-- the two invariants together, one step (the form that iterates) -/
theorem step_linv_pair (k : Keys) (c : RCfg) (hc : c.rules ≠ .fast) (s : RState) (e : Ev)
    (h : LInv c s ∧ PairInv c s) : LInv c (step k c s e).1 ∧ PairInv c (step k c s e).1 :=
  step_lp k c hc s e h

/-- from ANY state satisfying both invariants, along any event sequence -/
theorem run_pair (k : Keys) (c : RCfg) (hc : c.rules ≠ .fast) (es : List Ev) (s : RState)
    (h : LInv c s ∧ PairInv c s) : LInv c (runEvents k c s es) ∧ PairInv c (runEvents k c s es) := by
  induction es generalizing s with
  | nil => exact h
  | cons e es ih => exact ih _ (step_lp k c hc s e h)

/-- **Every reachable state** (initial state, `Start`, then any sequence of delivered events)
satisfies the history invariant, together with the lock invariant. -/
theorem reachable_pair (k : Keys) (c : RCfg) (hc : c.rules ≠ .fast) (es : List Ev) :
    LInv c (runEvents k c (start k c {}).1 es) ∧ PairInv c (runEvents k c (start k c {}).1 es) :=
  run_pair k c hc es _ (start_lp k c hc {} ⟨⟨fun _ _ h => h, fun _ _ hm => (by cases hm), Or.inl rfl⟩, HsVerif.Model.pair_init c⟩)

/-- The moment the witness is fixed: from a state satisfying the lock invariant, a positive answer
of the voter's checks for `b` leaves a state in which `b` is READY — with `L :=` the lock (which the
checks leave alone), `L` is genesis or the stored certificate-grandparent of a vote in the current
ghost history, every vote in the current ghost history is covered by `L.view`, and the vote rule
holds for `b` against `L`. -/
theorem voterVerify_ready (k : Keys) (c : RCfg) (id : Nat) (b : Block) (agg : Option AggQC)
    (s : RState) (hl : LInv c s) (h : ((voterVerify k c id b agg).run s).1 = .ok ()) :
    ∃ L, L = s.lock ∧ ProvIn c ((voterVerify k c id b agg).run s).2 ((voterVerify k c id b agg).run s).2.ghost L ∧
      (∀ x idx, GRec.vote x idx ∈ ((voterVerify k c id b agg).run s).2.ghost →
        CoveredBy c ((voterVerify k c id b agg).run s).2 x L.view) ∧
      RuleHolds c ((voterVerify k c id b agg).run s).2 b L := by
  have hsame := same_run _ (voterVerify_vs k c id b agg) (voterVerify_gr k c id b agg) (voterVerify_le k c id b agg) s
  have hi := linv_same hsame c hl
  have hr := run_res_of_triple _ (fun _ => True) _ (voterVerify_rh k c id b agg) s trivial h
  have := ready_of_linv_lock c b _ hi hr
  rw [hsame.lock] at this
  exact ⟨s.lock, rfl, this⟩

/-- `tryCommit` — the only thing that moves the lock — leaves the history invariant alone: it neither
reads nor writes the ghost history, and stored lookups survive it. -/
theorem tryCommit_keeps_pair (c : RCfg) (b : Block) (s : RState) (hp : PairInv c s) :
    PairInv c ((tryCommit c b).run s).2 :=
  tryCommit_pair c b s hp

/-! ### 2. changes from outside -/

/-- **Changes from outside** (the harness writes fetchable blocks and other replicas' signatures into
the state between events): any change that leaves the ghost history alone and preserves every lookup
of the block store preserves the history invariant (which does not read the lock). -/
theorem external_extension_pair (c : RCfg) (s s' : RState) (hg : s'.ghost = s.ghost)
    (hS : ∀ h b, sget s h = some b → sget s' h = some b) (h : PairInv c s) : PairInv c s' :=
  pair_grows hS hg c h

/-! ### 3. the pairwise consequence -/

/-- the pairwise form, from any state satisfying the history invariant -/
theorem pair_lock_rule (c : RCfg) (s : RState) (h : PairInv c s) (pre post : List GRec) (w x : Block) (id idx : Nat)
    (he : s.ghost = pre ++ GRec.vote w id :: post) (hx : GRec.vote x idx ∈ pre) :
    ∃ L, ProvIn c s pre L ∧ CoveredBy c s x L.view ∧ RuleHolds c s w L :=
  pair_history c s h pre post w x id idx he hx

/-- **The lock rule over the vote history**: in every reachable state, if `GRec.vote x idx` occurs
before `GRec.vote w id` in the ghost history (`pre` = the records before the vote for `w`), there is a
block `L` such that
* `L` is genesis or the stored certificate-grandparent of a block voted for before `w` (`ProvIn … pre`),
* `x` is covered by `L`: chained with `x.qc.hash = ""`, or the block `p` certified by `x.qc` is stored
  and `p.qc.hash = ""` or the block `g` certified by `p.qc` is stored with `g.view ≤ L.view`,
* the vote rule holds for `w` against `L` (`RuleHolds`: chained — the block certified by `w.qc` is
  stored with a view above `L`'s, or `w` reaches `L` along stored parent links; simplified — the block
  certified by `w.qc` is stored and its view is not below `L`'s). -/
theorem lock_rule_history (k : Keys) (c : RCfg) (hc : c.rules ≠ .fast) (es : List Ev)
    (pre post : List GRec) (w x : Block) (id idx : Nat)
    (he : (runEvents k c (start k c {}).1 es).ghost = pre ++ GRec.vote w id :: post)
    (hx : GRec.vote x idx ∈ pre) :
    ∃ L, ProvIn c (runEvents k c (start k c {}).1 es) pre L ∧
      CoveredBy c (runEvents k c (start k c {}).1 es) x L.view ∧
      RuleHolds c (runEvents k c (start k c {}).1 es) w L :=
  pair_history c _ (reachable_pair k c hc es).2 pre post w x id idx he hx

/-- the same with positions in the ghost history: record `i` is a vote for `x`, record `j > i` a vote
for `w`; the votes `L` may stem from are those among the first `j` records -/
theorem lock_rule_history_idx (k : Keys) (c : RCfg) (hc : c.rules ≠ .fast) (es : List Ev)
    (i j : Nat) (hij : i < j) (w x : Block) (id idx : Nat)
    (hx : (runEvents k c (start k c {}).1 es).ghost[i]? = some (GRec.vote x idx))
    (hw : (runEvents k c (start k c {}).1 es).ghost[j]? = some (GRec.vote w id)) :
    ∃ L, ProvIn c (runEvents k c (start k c {}).1 es) ((runEvents k c (start k c {}).1 es).ghost.take j) L ∧
      CoveredBy c (runEvents k c (start k c {}).1 es) x L.view ∧
      RuleHolds c (runEvents k c (start k c {}).1 es) w L :=
  lock_rule_history k c hc es _ _ w x id idx (split_at_index _ j _ hw) (mem_take_of_index _ i j _ hij hx)

/-- one step from ANY state satisfying both invariants, pairwise form: covers two votes cast in the
same step as well as an old vote and a new one -/
theorem step_lock_rule_history (k : Keys) (c : RCfg) (hc : c.rules ≠ .fast) (s : RState) (e : Ev)
    (hl : LInv c s) (hp : PairInv c s) (pre post : List GRec) (w x : Block) (id idx : Nat)
    (he : (step k c s e).1.ghost = pre ++ GRec.vote w id :: post) (hx : GRec.vote x idx ∈ pre) :
    ∃ L, ProvIn c (step k c s e).1 pre L ∧ CoveredBy c (step k c s e).1 x L.view ∧ RuleHolds c (step k c s e).1 w L :=
  pair_history c _ (step_pair k c hc s e hl hp) pre post w x id idx he hx

/-! ### non-vacuity

The run of `Props/C01Rule.lean` (chained HotStuff, replica 1 of 4, fixed leader 2, proposals
`P1 ← P2 ← P3 ← P4` of views 1..4).  The vote for `P3` precedes the vote for `P4`; the block `L` of
`lock_rule_history` for this pair is not genesis: covering `P3` forces `L.view ≥ 1` (`P3`'s
certificate-grandparent is `P1`). -/
section NonVacuity
open HsVerif.Props.C01Rule

def nvEvents : List Ev := [.propose 2 nvP1 none, .propose 2 nvP2 none, .propose 2 nvP3 none, .propose 2 nvP4 none]
def nvS : RState := runEvents nvKeys nvCfg (start nvKeys nvCfg {}).1 nvEvents
def nvPre : List GRec := [.vote nvP1 2, .adv 1 1 false, .vote nvP2 2, .adv 2 2 false, .vote nvP3 2, .adv 3 3 false]

set_option maxRecDepth 100000 in
theorem nv_ghost : nvS.ghost = nvPre ++ GRec.vote nvP4 2 :: [] := by decide +kernel
set_option maxRecDepth 100000 in
theorem nv_p2 : sget nvS "P2" = some nvP2 := by decide +kernel
set_option maxRecDepth 100000 in
theorem nv_p1 : sget nvS "P1" = some nvP1 := by decide +kernel

example : ∃ L, ProvIn nvCfg nvS nvPre L ∧ 1 ≤ L.view ∧ RuleHolds nvCfg nvS nvP4 L := by
  obtain ⟨L, h1, h2, h3⟩ := lock_rule_history nvKeys nvCfg (by decide) nvEvents nvPre [] nvP4 nvP3 2 2 nv_ghost
    (by decide)
  refine ⟨L, h1, ?_, h3⟩
  rcases h2 with ⟨_, h⟩ | ⟨p, hp, h⟩
  · exact absurd h (by decide)
  · have hp' : sget nvS "P2" = some p := hp
    rw [nv_p2] at hp'; cases hp'
    rcases h with h | ⟨g, hg, hv⟩
    · exact absurd h (by decide)
    · have hg' : sget nvS "P1" = some g := hg
      rw [nv_p1] at hg'; cases hg'
      exact hv
end NonVacuity

end HsVerif.Props.C01Pair
