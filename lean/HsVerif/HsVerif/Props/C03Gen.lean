import HsVerif.Gen.Voter
/-! C03 — the voter's statements ON THE REGENERATED CODE of `protocol/consensus/voter.go`.
`Gen/Voter.lean` is regenerated from the Go source on every run (tools/gofacts/methods.go): `Verify`, `Vote`,
`StopVoting` of `Voter` as pure functions of the fields `lastVotedView`, `lastVotedQCView`.  Proposals
(`*hotstuff.ProposeMsg`), blocks and aggregate QCs are opaque pointer values, certificates and hashes opaque values;
the accessors and the calls into the other components (`ruler.VoteRule`, `auth.VerifyAnyQC`,
`leaderRotation.GetLeader`, `auth.CreatePartialCert`) are ARBITRARY functions, collected in `Env`.  An `error` is
its presence (`true` = an error).  The theorems are about the code as regenerated, not about a hand-written model:
what `Verify` accepts, what `Vote` and `StopVoting` record, and — over every sequence of calls in the order the
proposal handler and the timeout path make them — one vote per view, never in or before a view for which voting
was stopped. -/
set_option linter.unusedVariables false
namespace HsVerif.Props.C03Gen
open HsVerif.Gen.Methods

section generic
variable {Msg Blk QC AggQC Hash PC : Type} [DecidableEq Msg] [DecidableEq Blk] [DecidableEq AggQC] [DecidableEq Hash]

/-- The environment of a `Voter`: nil / zero values, accessors of the opaque values, the other components. -/
structure Env (Msg Blk QC AggQC Hash PC : Type) where
  msgNil : Msg
  blkNil : Blk
  aggNil : AggQC
  pcZero : PC
  msgBlock : Msg → Blk
  msgAgg : Msg → AggQC
  msgID : Msg → Int
  blkView : Blk → Int
  blkParent : Blk → Hash
  blkQC : Blk → QC
  qcHash : QC → Hash
  qcView : QC → Int
  voteRule : Int → Msg → Bool
  verifyAnyQC : Msg → Bool
  getLeader : Int → Int
  createPC : Blk → PC × Bool

/-- `Verify` as regenerated, on an environment. -/
def verify (E : Env Msg Blk QC AggQC Hash PC) (lv lq : Int) (p : Msg) : (Int × Int) × Bool × Bool :=
  Voter_Verify E.msgNil E.blkNil E.aggNil E.pcZero E.msgBlock E.msgAgg E.msgID E.blkView E.blkParent E.blkQC E.qcHash
    E.qcView E.voteRule E.verifyAnyQC E.getLeader E.createPC lv lq p

/-- `Vote` as regenerated. -/
def vote (E : Env Msg Blk QC AggQC Hash PC) (lv lq : Int) (b : Blk) : (Int × Int) × (PC × Bool) × Bool :=
  Voter_Vote E.msgNil E.blkNil E.aggNil E.pcZero E.msgBlock E.msgAgg E.msgID E.blkView E.blkParent E.blkQC E.qcHash
    E.qcView E.voteRule E.verifyAnyQC E.getLeader E.createPC lv lq b

/-- `StopVoting` as regenerated. -/
def stopVoting (E : Env Msg Blk QC AggQC Hash PC) (lv lq : Int) (view : Int) : (Int × Int) × Bool × Bool :=
  Voter_StopVoting E.msgNil E.blkNil E.aggNil E.pcZero E.msgBlock E.msgAgg E.msgID E.blkView E.blkParent E.blkQC
    E.qcHash E.qcView E.voteRule E.verifyAnyQC E.getLeader E.createPC lv lq view

/-- The view of the block of a proposal, and the view of that block's QC. -/
def pView (E : Env Msg Blk QC AggQC Hash PC) (p : Msg) : Int := E.blkView (E.msgBlock p)
def pQCView (E : Env Msg Blk QC AggQC Hash PC) (p : Msg) : Int := E.qcView (E.blkQC (E.msgBlock p))

/-- `Verify` changes no field, and returns no error ONLY IF the block is newer than the last vote, the vote rule
said yes, the certificates verified, the block's parent is the block its QC certifies, the QC is older than the
block, the sender is the leader of the block's view, and (with an aggregate QC) the QC is not below the QC of a
block already voted for. -/
theorem verify_accepts_only_wellformed (E : Env Msg Blk QC AggQC Hash PC) (lv lq : Int) (p : Msg) :
    (verify E lv lq p).1 = (lv, lq) ∧
    ((verify E lv lq p).2.1 = false →
      lv < pView E p ∧
      E.voteRule (pView E p) p = true ∧
      E.verifyAnyQC p = false ∧
      E.blkParent (E.msgBlock p) = E.qcHash (E.blkQC (E.msgBlock p)) ∧
      pQCView E p < pView E p ∧
      E.msgID p = E.getLeader (pView E p) ∧
      (E.msgAgg p ≠ E.aggNil → lq ≤ pQCView E p)) := by
  unfold verify Voter_Verify pView pQCView
  simp only []
  repeat' split
  all_goals simp_all
  all_goals omega

/-- `Vote`: if signing succeeds, `lastVotedView` becomes the block's view, `lastVotedQCView` the maximum of its old
value and the view of the block's QC, and the certificate is returned without error; if signing fails nothing
changes and the error is returned. -/
theorem vote_records_view (E : Env Msg Blk QC AggQC Hash PC) (lv lq : Int) (b : Blk) :
    ((E.createPC b).2 = false →
      (vote E lv lq b).1 = (E.blkView b, max lq (E.qcView (E.blkQC b))) ∧
      (vote E lv lq b).2.1 = ((E.createPC b).1, false)) ∧
    ((E.createPC b).2 = true →
      (vote E lv lq b).1 = (lv, lq) ∧ (vote E lv lq b).2.1 = ((E.createPC b).1, true)) := by
  unfold vote Voter_Vote
  simp only []
  constructor
  · intro h
    simp only [h]
    refine ⟨?_, rfl⟩
    simp only [Bool.false_eq_true, if_false]
    apply Prod.ext
    · rfl
    · simp only []; split <;> omega
  · intro h
    simp only [h, if_true]
    refine ⟨?_, ?_⟩ <;> first | trivial | rfl

/-- `StopVoting(view)`: `lastVotedView` becomes the maximum of its old value and `view`; the result says whether
it was raised. -/
theorem stopVoting_monotone (E : Env Msg Blk QC AggQC Hash PC) (lv lq view : Int) :
    stopVoting E lv lq view = ((max lv view, lq), decide (lv < view), true) := by
  unfold stopVoting Voter_StopVoting
  simp only []
  split
  · next h => simp only [h, decide_true]; rw [show max lv view = view by omega]
  · next h => simp only [h, decide_false]; rw [show max lv view = lv by omega]

/-! ## Every sequence of calls -/

/-- What the replica does with its voter: the timeout path calls `StopVoting(view)`; the proposal handler calls
`Verify(p)` and, only if it accepted, `Vote(p.Block)` (`OnValidPropose`). -/
inductive Step (Msg : Type) where
  | stop (view : Int)
  | propose (p : Msg)

/-- One step through the regenerated functions: the new fields and the views signed in this step (the block's view
if `Vote` returned no error, i.e. `CreatePartialCert` succeeded). -/
def step (E : Env Msg Blk QC AggQC Hash PC) (s : Int × Int) : Step Msg → (Int × Int) × List Int
  | .stop view => ((stopVoting E s.1 s.2 view).1, [])
  | .propose p =>
    let r := verify E s.1 s.2 p
    if r.2.1 = false then
      let w := vote E r.1.1 r.1.2 (E.msgBlock p)
      (w.1, if w.2.1.2 = false then [pView E p] else [])
    else (r.1, [])

/-- A sequence of steps: the final fields and the views signed, in order. -/
def run (E : Env Msg Blk QC AggQC Hash PC) (s : Int × Int) : List (Step Msg) → (Int × Int) × List Int
  | [] => (s, [])
  | op :: ops => ((run E (step E s op).1 ops).1, (step E s op).2 ++ (run E (step E s op).1 ops).2)

/-- A step signs nothing and does not lower `lastVotedView`, or signs exactly one view, above the old
`lastVotedView`, which becomes the new one. -/
theorem step_spec (E : Env Msg Blk QC AggQC Hash PC) (s : Int × Int) (op : Step Msg) :
    ((step E s op).2 = [] ∧ s.1 ≤ (step E s op).1.1) ∨
    (∃ v, (step E s op).2 = [v] ∧ s.1 < v ∧ (step E s op).1.1 = v) := by
  cases op with
  | stop view =>
    left
    simp only [step, stopVoting_monotone]
    refine ⟨?_, ?_⟩ <;> first | trivial | rfl | omega
  | propose p =>
    have hv := verify_accepts_only_wellformed E s.1 s.2 p
    have hw := vote_records_view E s.1 s.2 (E.msgBlock p)
    simp only [step]
    rw [hv.1]
    by_cases hacc : (verify E s.1 s.2 p).2.1 = false
    · simp only [hacc, if_true]
      have hlt := (hv.2 hacc).1
      cases hc : (E.createPC (E.msgBlock p)).2 with
      | false =>
        right
        have h1 := (hw.1 hc)
        refine ⟨pView E p, ?_, hlt, ?_⟩
        · rw [h1.2]; rfl
        · rw [h1.1]; rfl
      | true =>
        left
        have h1 := (hw.2 hc)
        rw [h1.2, h1.1]
        exact ⟨rfl, Int.le_refl _⟩
    · simp only [hacc]
      left
      exact ⟨rfl, Int.le_refl _⟩

/-- Over ANY sequence of `StopVoting` / `Verify`-then-`Vote` steps from any fields: the signed views are strictly
increasing (one vote per view), each is above the `lastVotedView` at the start (never in or before a view for which
voting was stopped, i.e. a timeout was signed), and `lastVotedView` never decreases. -/
theorem votes_strictly_increasing (E : Env Msg Blk QC AggQC Hash PC) (ops : List (Step Msg)) (s : Int × Int) :
    List.Pairwise (· < ·) (run E s ops).2 ∧
    (∀ v ∈ (run E s ops).2, s.1 < v) ∧
    s.1 ≤ (run E s ops).1.1 := by
  induction ops generalizing s with
  | nil =>
    simp only [run]
    refine ⟨List.Pairwise.nil, ?_, Int.le_refl _⟩
    intro v hv; cases hv
  | cons op ops ih =>
    have ⟨ih1, ih2, ih3⟩ := ih (step E s op).1
    simp only [run]
    rcases step_spec E s op with ⟨h1, h2⟩ | ⟨v, h1, h2, h3⟩
    · rw [h1, List.nil_append]
      exact ⟨ih1, fun v hv => by have := ih2 v hv; omega, by omega⟩
    · rw [h1]
      refine ⟨?_, ?_, by omega⟩
      · simp only [List.singleton_append, List.pairwise_cons]
        exact ⟨fun w hw => by have := ih2 w hw; omega, ih1⟩
      · intro w hw
        simp only [List.singleton_append, List.mem_cons] at hw
        rcases hw with rfl | hw
        · exact h2
        · have := ih2 w hw; omega

/-- In particular no view is signed twice. -/
theorem no_view_signed_twice (E : Env Msg Blk QC AggQC Hash PC) (ops : List (Step Msg)) (s : Int × Int) :
    (run E s ops).2.Nodup :=
  (votes_strictly_increasing E ops s).1.imp (fun h => by omega)

end generic

/-! ## Non-vacuity: a small concrete environment

A proposal is (block view, QC view, sender), a block (view, QC view), a QC and a hash are the view of the certified
block, an aggregate QC is present or not; the leader of view v is v % 4; signing fails for the block of view 7. -/
def E0 : Env (Int × Int × Int) (Int × Int) Int Bool Int Int where
  msgNil := (-1, -1, -1)
  blkNil := (-1, -1)
  aggNil := false
  pcZero := 0
  msgBlock := fun m => (m.1, m.2.1)
  msgAgg := fun _ => false
  msgID := fun m => m.2.2
  blkView := fun b => b.1
  blkParent := fun b => b.2
  blkQC := fun b => b.2
  qcHash := fun q => q
  qcView := fun q => q
  voteRule := fun _ _ => true
  verifyAnyQC := fun _ => false
  getLeader := fun v => v % 4
  createPC := fun b => (b.1, decide (b.1 = 7))

/-- `Verify` does accept a well-formed proposal (no error, no nil dereference) … -/
example : verify E0 0 0 (1, 0, 1) = ((0, 0), false, true) := by decide
/-- … rejects one from the wrong sender, and one for the view already voted in … -/
example : (verify E0 0 0 (1, 0, 2)).2.1 = true ∧ (verify E0 1 0 (1, 0, 1)).2.1 = true := by decide
/-- … and a nil proposal clears the no-nil-dereference flag (Go panics). -/
example : (verify E0 0 0 (-1, -1, -1)).2.2 = false := by decide
/-- `Vote` signs and records; a failed signature records nothing. -/
example : vote E0 0 0 (5, 4) = ((5, 4), (5, false), true) ∧ vote E0 5 4 (7, 6) = ((5, 4), (7, true), true) := by decide
/-- A run: vote in 1, the same proposal again (rejected), stop voting for 3, a proposal for 3 (rejected), vote in
5, a proposal for 7 whose signature fails, vote in 6: the views signed are 1, 5, 6 and the fields end at (6, 5). -/
example : run E0 (0, 0) [.propose (1, 0, 1), .propose (1, 0, 1), .stop 3, .propose (3, 1, 3), .propose (5, 4, 1),
    .propose (7, 6, 3), .propose (6, 5, 2)] = ((6, 5), [1, 5, 6]) := by decide

end HsVerif.Props.C03Gen
