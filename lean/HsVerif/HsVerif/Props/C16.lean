import HsVerif.Proofs.Leader
import HsVerif.Gen.Leader
/-! C16 — all replicas agree on a valid leader for every view.  Property theorems only.

Agreement ("the same leader on every replica") is, on the model side, the fact that every scheme below
is a *function* of (configuration, shared seed, committed chain, query history) and of nothing else —
no replica id, clock, map order or global state enters.  The theorems `*_same_on_every_replica`,
`carousel_reads_committed_chain_only` and `reputation_same_history_same_answers` state exactly which
arguments the answer depends on; that the Go code has no further input is what the two/three-instance
correspondence checks on every run. -/
set_option linter.unusedVariables false
namespace HsVerif.Props.C16
open HsVerif.Model HsVerif.Model.Leader

/-! ## Stateless schemes -/

/-- Round-robin names a configured replica, for every view and every cluster size n ≥ 1. -/
theorem rr_valid (v n : Nat) (hn : 1 ≤ n) : 1 ≤ roundRobin v n ∧ roundRobin v n ≤ n := by
  unfold roundRobin
  have := Nat.mod_lt v (by omega : 0 < n)
  omega

/-- In any n consecutive views s, s+1, …, s+n-1 every replica 1..n is the leader exactly once. -/
theorem rr_one_turn_each (s n id : Nat) (h1 : 1 ≤ id) (hn : id ≤ n) :
    ∃ i, i < n ∧ roundRobin (s + i) n = id ∧ ∀ j, j < n → roundRobin (s + j) n = id → j = i := by
  have hpos : 0 < n := by omega
  refine ⟨(id - 1 + n - s % n) % n, Nat.mod_lt _ hpos, ?_, ?_⟩
  · unfold roundRobin
    rw [rr_window_hit s n (id - 1) hpos (by omega)]; omega
  · intro j hj hjr
    unfold roundRobin at hjr
    have e := rr_window_hit s n (id - 1) hpos (by omega)
    exact rr_window_inj s n j _ hj (Nat.mod_lt _ hpos) (by rw [e]; omega)

/-- … equivalently: the n answers of a window are pairwise different. -/
theorem rr_window_nodup (s n : Nat) :
    ((List.range n).map fun i => roundRobin (s + i) n).Nodup := by
  rw [List.nodup_iff_pairwise_ne, List.pairwise_map]
  refine List.Pairwise.imp_of_mem ?_ (List.nodup_iff_pairwise_ne.mp (List.nodup_range (n := n)))
  intro a b ha hb hab heq
  unfold roundRobin at heq
  exact hab (rr_window_inj s n a b (List.mem_range.mp ha) (List.mem_range.mp hb) (by omega))

/-- The round-robin answer depends on the view and the cluster size only (two replicas of one
configuration compute the same leader). -/
theorem rr_same_on_every_replica (v n : Nat) (cfgA cfgB : Cfg) (hA : cfgA.n = n) (hB : cfgB.n = n) :
    roundRobin v cfgA.n = roundRobin v cfgB.n := by rw [hA, hB]

/-- Bridging lemma to the definition regenerated from protocol/leaderrotation/common.go. -/
theorem gen_chooseRoundRobin (v n : Nat) :
    HsVerif.Gen.ChooseRoundRobin (v : Int) (n : Int) = (roundRobin v n : Int) := by
  unfold HsVerif.Gen.ChooseRoundRobin roundRobin
  rw [Int.tmod_eq_emod_of_nonneg (by omega)]
  simp [Int.natCast_add, Int.natCast_emod]

/-- Fixed leader: constant over views, and a configured replica when the configured id is one. -/
theorem fixed_constant (l v w : Nat) : fixed l v = fixed l w := rfl

theorem fixed_valid (l v n : Nat) (h1 : 1 ≤ l) (hn : l ≤ n) : 1 ≤ fixed l v ∧ fixed l v ≤ n := ⟨h1, hn⟩

/-- Tree leader: constant over views … -/
theorem tree_constant (t : Option Tree) (v w : Nat) : treeLeader t v = treeLeader t w := rfl

/-- … the same on every replica (replicas differ in their own id only, the positions are shared) … -/
theorem tree_same_on_every_replica (a b : Tree) (v : Nat) (h : a.positions = b.positions) :
    treeLeader (some a) v = treeLeader (some b) v := by
  simp [treeLeader, h]

/-- … and a configured replica: with a tree whose positions are configured replicas (non-empty, as
`tree.NewSimple` demands), or without a tree in a cluster of n ≥ 1. -/
theorem tree_valid (t : Option Tree) (v n : Nat) (hn : 1 ≤ n)
    (hpos : ∀ tr, t = some tr → tr.positions ≠ [] ∧ ∀ x ∈ tr.positions, 1 ≤ x ∧ x ≤ n) :
    1 ≤ treeLeader t v ∧ treeLeader t v ≤ n := by
  cases t with
  | none => simp [treeLeader]; omega
  | some tr =>
    obtain ⟨hne, hall⟩ := hpos tr rfl
    cases hp : tr.positions with
    | nil => exact absurd hp hne
    | cons x xs =>
      simp only [treeLeader, hp, List.headD_cons]
      exact hall x (by rw [hp]; simp)

/-- The tree root is one of the tree positions. -/
theorem tree_root_mem (tr : Tree) (v : Nat) (hne : tr.positions ≠ []) :
    treeLeader (some tr) v ∈ tr.positions := by
  cases hp : tr.positions with
  | nil => exact absurd hp hne
  | cons x xs => simp [treeLeader, hp]

/-! ## Carousel -/

/-- "active": the committed head carries a certificate and is exactly `chainLength` views behind. -/
def Active (cfg : Cfg) (head : Block) (round : Nat) (signers : List Nat) : Prop :=
  head.signers = some signers ∧ head.view = wrapSub64 round cfg.chainLength

/-- Start-up: no certificate in the committed head ⇒ round-robin. -/
theorem carousel_startup (cfg : Cfg) (rnd get hh) (head : Block) (round : Nat)
    (h : head.signers = none) :
    carousel cfg rnd get hh head round = .leader (roundRobin round cfg.n) := by
  simp [carousel, h]

/-- Fall-back: committed head not exactly `chainLength` views behind ⇒ round-robin. -/
theorem carousel_fallback (cfg : Cfg) (rnd get hh) (head : Block) (round : Nat)
    (h : head.view ≠ wrapSub64 round cfg.chainLength) :
    carousel cfg rnd get hh head round = .leader (roundRobin round cfg.n) := by
  unfold carousel
  split
  · rfl
  · simp [h]

/-- An active carousel picks a signer of the certificate embedded in the latest committed block
that proposed none of the last f committed blocks (`Recent … f`: the committed head and its ancestors
over fewer than f parent links, genesis excluded). -/
theorem carousel_pick (cfg : Cfg) (rnd get hh) (head : Block) (round : Nat) (signers : List Nat)
    (id : Nat) (hact : Active cfg head round signers)
    (hres : carousel cfg rnd get hh head round = .leader id) :
    id ∈ signers ∧ ∀ c, Recent get (numFaulty cfg.n) hh head c → c.proposer ≠ id := by
  obtain ⟨hs, hv⟩ := hact
  unfold carousel at hres
  simp only [hs, hv, ne_eq, not_true_eq_false, ↓reduceIte] at hres
  split at hres
  · simp at hres
  · rename_i hlen
    simp only [Answer.leader.injEq] at hres
    have hm := getD_mem_of_lt (candidates signers (lastAuthors get (numFaulty cfg.n) hh head))
      ((rnd (seedFor cfg.seed round)).headD 0 % (candidates signers (lastAuthors get (numFaulty cfg.n) hh head)).length) 0
      (Nat.mod_lt _ (by omega))
    rw [hres, mem_candidates] at hm
    refine ⟨hm.1, fun c hc he => hm.2 ?_⟩
    rw [← he]
    exact recent_proposer_mem get _ hh head c hc

/-- Given a certificate that passed C02's verifier — at least a quorum of pairwise distinct signers
(`d`) — an active carousel never divides by zero: it answers with a replica id.  (`quorum n > f`.) -/
theorem carousel_total (cfg : Cfg) (rnd get hh) (head : Block) (round : Nat) (signers d : List Nat)
    (hn : 1 ≤ cfg.n) (hact : Active cfg head round signers)
    (hd : d.Nodup) (hsub : ∀ x ∈ d, x ∈ signers) (hq : quorumSize cfg.n ≤ d.length) :
    ∃ id, carousel cfg rnd get hh head round = .leader id := by
  obtain ⟨hs, hv⟩ := hact
  have hf : numFaulty cfg.n < quorumSize cfg.n := by unfold quorumSize numFaulty; omega
  have hla := lastAuthors_length_le get (numFaulty cfg.n) hh head
  have hpos := candidates_nonempty signers (lastAuthors get (numFaulty cfg.n) hh head) d hd hsub (by omega)
  unfold carousel
  simp only [hs, hv, ne_eq, not_true_eq_false, ↓reduceIte]
  split
  · omega
  · exact ⟨_, rfl⟩

/-- The unconditional statement "an active carousel always answers with a replica id"
(`∀ …, Active cfg head round signers → ∃ id, carousel … = .leader id`) is false of the code as written.
Without the distinct-quorum hypothesis the code does panic: one signer repeated, who also
proposed the committed head (reachable today through defect 1 of DESIGN §6, repeated signers). -/
theorem carousel_total_unconditional_counterexample :
    carousel ⟨4, 0, 3⟩ (fun _ => [0]) (fun _ => none) 1 ⟨0, 1, 2, some [2, 2, 2]⟩ 4 = .panic := by
  decide

/-- The carousel never names an unknown replica: in every mode, with n ≥ 1 and (when active) a
certificate whose signers are configured replicas and contain a quorum of distinct ids. -/
theorem carousel_valid (cfg : Cfg) (rnd get hh) (head : Block) (round : Nat) (hn : 1 ≤ cfg.n)
    (hq : ∀ signers, Active cfg head round signers →
      (∀ x ∈ signers, 1 ≤ x ∧ x ≤ cfg.n) ∧
      ∃ d : List Nat, d.Nodup ∧ (∀ x ∈ d, x ∈ signers) ∧ quorumSize cfg.n ≤ d.length) :
    ∃ id, carousel cfg rnd get hh head round = .leader id ∧ 1 ≤ id ∧ id ≤ cfg.n := by
  cases hs : head.signers with
  | none => exact ⟨_, carousel_startup cfg rnd get hh head round hs, rr_valid round cfg.n hn⟩
  | some signers =>
    by_cases hv : head.view = wrapSub64 round cfg.chainLength
    · obtain ⟨hrange, d, hd, hsub, hlen⟩ := hq signers ⟨hs, hv⟩
      obtain ⟨id, hid⟩ := carousel_total cfg rnd get hh head round signers d hn ⟨hs, hv⟩ hd hsub hlen
      exact ⟨id, hid, hrange id (carousel_pick cfg rnd get hh head round signers id ⟨hs, hv⟩ hid).1⟩
    · exact ⟨_, carousel_fallback cfg rnd get hh head round hv, rr_valid round cfg.n hn⟩

/-- Agreement: the carousel's answer is a function of (n, seed, chainLength), the `math/rand` stream
of the seed, the round, the committed head and the part of the block store that lies on the
committed chain — two block stores that agree along the walked chain give the same leader. -/
theorem carousel_reads_committed_chain_only (cfg : Cfg) (rnd) (g₁ g₂ : Nat → Option Block) (hh : Nat)
    (head : Block) (round : Nat)
    (hagree : ∀ c, Recent g₁ (numFaulty cfg.n) hh head c → g₁ c.parent = g₂ c.parent) :
    carousel cfg rnd g₁ hh head round = carousel cfg rnd g₂ hh head round := by
  simp only [carousel, lastAuthors_congr g₁ g₂ _ hh head hagree]

/-- The candidate list is sorted, so the seeded index selects the same replica whatever the order in
which the certificate lists its signers … -/
theorem carousel_candidates_sorted (signers authors : List Nat) :
    (candidates signers authors).Pairwise (· ≤ ·) := candidates_sorted signers authors

/-- … and consists exactly of the signers outside the recent proposers. -/
theorem carousel_candidates_mem (signers authors : List Nat) (x : Nat) :
    x ∈ candidates signers authors ↔ x ∈ signers ∧ x ∉ authors := mem_candidates signers authors x

/-- The walk visits at most f blocks, and exactly the proposers of the last f committed blocks. -/
theorem carousel_walk (get : Nat → Option Block) (f hh : Nat) (head : Block) (a : Nat) :
    (lastAuthors get f hh head).length ≤ f ∧
    (a ∈ lastAuthors get f hh head ↔ ∃ c, Recent get f hh head c ∧ c.proposer = a) :=
  ⟨lastAuthors_length_le get f hh head,
   ⟨mem_lastAuthors_recent get f hh head a, fun ⟨c, hc, he⟩ => he ▸ recent_proposer_mem get f hh head c hc⟩⟩

/-! ## Reputation (partial by design: determinism, totality, membership; the float arithmetic and
`weightedrand` are not reasoned about) -/

/-- Old views are refused with 0 and leave the state alone. -/
theorem reputation_old (perm cfg rnd) (st : RepState) (head : Block) (view : Nat)
    (h : head.view > wrapSub64 view cfg.chainLength) :
    repQueryWith perm cfg rnd st head view = (st, .leader 0) := by
  simp [repQueryWith, h]

/-- Start-up: round-robin until the committed head carries a certificate; state untouched. -/
theorem reputation_startup (perm cfg rnd) (st : RepState) (head : Block) (view : Nat)
    (h : ¬ head.view > wrapSub64 view cfg.chainLength) (hs : head.signers = none) :
    repQueryWith perm cfg rnd st head view = (st, .leader (roundRobin view cfg.n)) := by
  simp [repQueryWith, h, hs]

/-- Otherwise the answer is 0 (chooser error) or a voter of the committed head's certificate —
whatever the two library sorts do with the order (`perm` only has to return entries it was given). -/
theorem reputation_member (perm : List Choice → List Choice) (hperm : ∀ l, ∀ c ∈ perm l, c ∈ l)
    (cfg rnd) (st : RepState) (head : Block) (view id : Nat) (voters : List Nat)
    (hs : head.signers = some voters)
    (hres : (repQueryWith perm cfg rnd st head view).2 = .leader id) :
    id = 0 ∨ id ∈ voters := by
  unfold repQueryWith at hres
  split at hres
  · simp at hres; exact Or.inl hres.symm
  · simp only [hs] at hres
    split at hres
    · simp at hres; exact Or.inl hres.symm
    · rename_i ch hch
      split at hres
      · simp at hres
      · rename_i x hx
        simp only [RepAnswer.leader.injEq] at hres
        subst hres
        cases pickSource_mem ch _ x hx with
        | inl h0 => exact Or.inl h0
        | inr hm =>
          obtain ⟨c, hc, hci⟩ := hm
          rw [newChooser_data _ ch hch] at hc
          have hc2 := hperm _ c hc
          right
          rw [← hci, ← visit_items (decide (st.prevView < head.view))
            (reputationOf voters.length cfg.n) st.reps voters]
          exact List.mem_map.mpr ⟨c, hc2, rfl⟩

/-- … in particular for the modelled (≤ 12 voters, stable insertion order) instance. -/
theorem reputation_member_model (cfg rnd) (st : RepState) (head : Block) (view id : Nat)
    (voters : List Nat) (hs : head.signers = some voters)
    (hres : (repQuery cfg rnd st head view).2 = .leader id) : id = 0 ∨ id ∈ voters :=
  reputation_member sortByWeight (fun l c h => (mem_sortByWeight c l).1 h) cfg rnd st head view id voters hs hres

/-- Reputations are updated once per committed head: after a query that reached the update for this
head, any further query on the same head (any view) leaves reputations and `prevCommitHead` unchanged. -/
theorem reputation_update_once (perm cfg rnd) (st : RepState) (head : Block) (v w : Nat)
    (voters : List Nat) (hv : ¬ head.view > wrapSub64 v cfg.chainLength)
    (hs : head.signers = some voters) :
    (repQueryWith perm cfg rnd (repQueryWith perm cfg rnd st head v).1 head w).1 =
      (repQueryWith perm cfg rnd st head v).1 :=
  repQueryWith_noupd perm cfg rnd _ head w (repQueryWith_prevView perm cfg rnd st head v voters hv hs)

/-- Determinism over query histories: the list of answers of an instance is a function of the
configuration, the seed's random streams and the sequence of (committed head, view) queries; two
instances started in the same state and asked the same questions give the same answers. -/
theorem reputation_same_history_same_answers (cfg : Cfg) (rnd) (stA stB : RepState)
    (qs : List (Block × Nat)) (h : stA = stB) : repRun cfg rnd stA qs = repRun cfg rnd stB qs := by
  rw [h]

/-! ## Non-vacuity -/

example : (List.range 4).map (fun i => roundRobin (7 + i) 4) = [4, 1, 2, 3] := by decide

example : roundRobin (2 ^ 64 - 1) 7 = 2 := by decide

/-- the uint64 subtraction wraps: round 2, chainLength 3 names view 2^64 - 1 -/
example : wrapSub64 2 3 = 2 ^ 64 - 1 := by decide

/-- int64 seed arithmetic wraps -/
example : seedFor (2 ^ 63 - 1) 1 = -(2 ^ 63) := by decide

/-- an active carousel: n = 4 (f = 1), head b2 (hash 2, view 2, proposer 3) certified by {4,1,3,2}
listed out of order, chainLength 3, round 5, rnd = 6: candidates [1,2,4], index 0. -/
example : carousel ⟨4, 0, 3⟩ (fun _ => [6]) (fun h => if h = 1 then some ⟨0, 1, 2, none⟩ else none)
    2 ⟨1, 2, 3, some [4, 1, 3, 2]⟩ 5 = .leader 1 := by decide

example : Active ⟨4, 0, 3⟩ ⟨1, 2, 3, some [4, 1, 3, 2]⟩ 5 [4, 1, 3, 2] := by
  constructor <;> decide

example : Recent (fun h => if h = 1 then some ⟨0, 1, 2, none⟩ else none) 2 2 ⟨1, 2, 3, some [4, 1, 3, 2]⟩
    ⟨0, 1, 2, none⟩ :=
  Recent.up 1 2 _ ⟨0, 1, 2, none⟩ _ (by decide) rfl (Recent.here 0 1 _ (by decide))

end HsVerif.Props.C16
