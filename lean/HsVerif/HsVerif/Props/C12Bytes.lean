import HsVerif.Model.Bytes
import HsVerif.Proofs.BytesInj
/-! C12 / C02 / C13, the bytes that are hashed and signed (Model/Bytes.lean) determine the object.
Property theorems only. -/
namespace HsVerif.Props.C12Bytes
open HsVerif.Model.Bytes

/-! ### what the layouts before the repairs allowed (witnesses kept as theorems) -/

def exHash : Bytes := (List.range 32).map (0xa0 + ·)
def exSig : QSig := .multi [⟨1, [0x38, 0x62, 0x79, 0x74, 0x65, 0x73, 0x21, 0x21]⟩]
/-- the view `0a 16 1a 14 00 00 00 00` reads as: field 1, 22 bytes; field 3, 20 bytes -/
def exView : Nat := 0x141a160a
def exQC1 : QCv := ⟨exView, exHash, some exSig⟩
def exBlk1 : Blk := ⟨7 :: List.replicate 31 0, 2, exView + 1, [], exQC1, 1700000000000000000⟩
/-- the same bytes read with the boundary 24 bytes later: one more command, a certificate without signature -/
def exBlk2 : Blk :=
  { exBlk1 with
    cmds := [⟨0, 0, ((qcBytes exQC1).take 24).drop 4⟩]
    qc := ⟨0xb7b6b5b4b3b2b1b0, ((qcBytes exQC1).drop 32), none⟩ }

/-- **Before 6e1f39b a block's bytes (hence its hash) did not determine the block**: no commands and a
signed certificate, or one command and an unsigned certificate — the same bytes.  Replayed with the
real `NewBlock`: fixes/C12-block-bytes-demo_test.go.txt. -/
theorem old_block_bytes_ambiguous : exBlk1 ≠ exBlk2 ∧ blockBytesOld exBlk1 = blockBytesOld exBlk2 := by
  decide +kernel

/-- with the length of the batch written first the two differ -/
theorem block_bytes_tell_them_apart : blockBytes exBlk1 ≠ blockBytes exBlk2 := by decide +kernel

/-- **Before 2c93c32**: the parts of a multi-signature cut at another place, or attributed to other
signers, had the same bytes -/
theorem old_multi_bytes_ambiguous :
    multiBytesOld [⟨1, [0xaa, 0xbb]⟩, ⟨2, [0xcc]⟩] = multiBytesOld [⟨1, [0xaa]⟩, ⟨2, [0xbb, 0xcc]⟩] ∧
    multiBytesOld [⟨1, [0xaa]⟩] = multiBytesOld [⟨2, [0xaa]⟩] ∧
    multiBytes [⟨1, [0xaa, 0xbb]⟩, ⟨2, [0xcc]⟩] ≠ multiBytes [⟨1, [0xaa]⟩, ⟨2, [0xbb, 0xcc]⟩] ∧
    multiBytes [⟨1, [0xaa]⟩] ≠ multiBytes [⟨2, [0xaa]⟩] := by decide +kernel

/-- **Before 9a59775**: an aggregate attributed to another participant set, and no signature vs an
empty one, had the same certificate bytes -/
theorem old_qc_bytes_ambiguous :
    qcBytesOld ⟨3, exHash, some (.agg [1, 2, 3] [9, 9])⟩ = qcBytesOld ⟨3, exHash, some (.agg [1, 2, 4] [9, 9])⟩ ∧
    qcBytesOld ⟨3, exHash, none⟩ = qcBytesOld ⟨3, exHash, some (.multi [])⟩ ∧
    qcBytes ⟨3, exHash, some (.agg [1, 2, 3] [9, 9])⟩ ≠ qcBytes ⟨3, exHash, some (.agg [1, 2, 4] [9, 9])⟩ ∧
    qcBytes ⟨3, exHash, none⟩ ≠ qcBytes ⟨3, exHash, some (.multi [])⟩ := by decide +kernel

/-! ### the current layouts are injective

Well-formedness (Proofs/BytesInj.lean) is what Go's types give: `Part.WF` (id `< 2^32`, signature shorter
than `2^32`), `QSig.WF` (fewer than `2^32` participants, ids `< 2^32`, parts well formed), `QCv.WF` (view
`< 2^64`, hash of 32 bytes, signature well formed), `Cmd.WF` (client `< 2^32`, sequence number `< 2^64`,
data shorter than `2^32`), `Blk.WF` (parent of 32 bytes, proposer `< 2^32`, view and timestamp `< 2^64`,
batch shorter than `2^64`, commands and certificate well formed).  `QCv.OfScheme sch`: the certificate is
unsigned or signed in scheme `sch` (multi-signature / aggregate).  Signature bytes and command data are
arbitrary naturals (nothing that is parsed depends on them being `< 256`). -/

/-- 1. fixed-width little-endian fields -/
theorem le_length (n x : Nat) : (le n x).length = n := Model.Bytes.le_length n x

theorem le_injective {n x y : Nat} (hx : x < 256 ^ n) (hy : y < 256 ^ n) (h : le n x = le n y) : x = y :=
  Model.Bytes.le_injective hx hy h

/-- 2. **a multi-signature's bytes determine its parts** (signers, cuts, order) -/
theorem multiBytes_injective {ps ps' : List Part} (hw : ∀ p ∈ ps, p.WF) (hw' : ∀ p ∈ ps', p.WF)
    (h : multiBytes ps = multiBytes ps') : ps = ps' := Model.Bytes.multiBytes_injective hw hw' h

/-- in front of other bytes a multi-signature is delimited by the NUMBER of its parts (written first by
`qcBytes`): the same number of parts — the parts and the rest are determined -/
theorem multiBytes_append_injective {ps ps' : List Part} {r r' : Bytes}
    (hw : ∀ p ∈ ps, p.WF) (hw' : ∀ p ∈ ps', p.WF) (hl : ps.length = ps'.length)
    (h : multiBytes ps ++ r = multiBytes ps' ++ r') : ps = ps' ∧ r = r' :=
  Model.Bytes.multiBytes_append_inj hw hw' hl h

/-- … and not without the count: one part followed by the bytes of another reads as two parts -/
theorem multi_needs_the_count :
    multiBytes [⟨1, [0xaa]⟩] ++ multiBytes [⟨2, [0xbb]⟩] = multiBytes [⟨1, [0xaa]⟩, ⟨2, [0xbb]⟩] ++ [] ∧
    [(⟨1, [0xaa]⟩ : Part)] ≠ [⟨1, [0xaa]⟩, ⟨2, [0xbb]⟩] := by decide +kernel

/-- 3. **a certificate's bytes determine it**: view, hash, whether it is signed, who signed, the
signature — among well-formed certificates of one scheme -/
theorem qcBytes_injective {q q' : QCv} {sch : Scheme} (hw : q.WF) (hw' : q'.WF)
    (hs : q.OfScheme sch) (hs' : q'.OfScheme sch) (h : qcBytes q = qcBytes q') : q = q' :=
  Model.Bytes.qcBytes_injective hw hw' hs hs' h

/-- the scheme is a hypothesis for a reason: an aggregate attributed to replica 1 whose bytes look like
one part of replica 1 IS a multi-signature of replica 1, byte for byte (both well formed) -/
theorem qc_multi_vs_agg_same_bytes :
    let qm : QCv := ⟨3, exHash, some (.multi [⟨1, [0xaa, 0xbb]⟩])⟩
    let qa : QCv := ⟨3, exHash, some (.agg [1] [1, 0, 0, 0, 2, 0, 0, 0, 0xaa, 0xbb])⟩
    qm ≠ qa ∧ qm.WF ∧ qa.WF ∧ qcBytes qm = qcBytes qa := by decide +kernel

/-- inside a block (the rest is the 8-byte timestamp): rests of equal length -/
theorem qcBytes_append_injective {q q' : QCv} {sch : Scheme} {r r' : Bytes} (hw : q.WF) (hw' : q'.WF)
    (hs : q.OfScheme sch) (hs' : q'.OfScheme sch) (hr : r.length = r'.length)
    (h : qcBytes q ++ r = qcBytes q' ++ r') : q = q' ∧ r = r' :=
  Model.Bytes.qcBytes_append_inj hw hw' hs hs' hr h

/-- for certificates that are signed with multi-signatures no hypothesis on the rests is needed -/
theorem qcBytes_multi_append_injective {v v' : Nat} {h h' : Bytes} {ps ps' : List Part} {r r' : Bytes}
    (hw : (QCv.mk v h (some (.multi ps))).WF) (hw' : (QCv.mk v' h' (some (.multi ps'))).WF)
    (e : qcBytes ⟨v, h, some (.multi ps)⟩ ++ r = qcBytes ⟨v', h', some (.multi ps')⟩ ++ r') :
    v = v' ∧ h = h' ∧ ps = ps' ∧ r = r' := by
  rw [Model.Bytes.qcBytes_eq, Model.Bytes.qcBytes_eq] at e
  simp only [List.append_assoc] at e
  obtain ⟨e1, e⟩ := Model.Bytes.u64_append_inj hw.1 hw'.1 e
  obtain ⟨e2, e⟩ := List.append_inj e (by rw [hw.2.1, hw'.2.1])
  obtain ⟨e3, e⟩ := Model.Bytes.sigTail_multi_append_inj hw.2.2 hw'.2.2 e
  exact ⟨e1, e2, e3, e⟩

/-- … but in general a certificate is NOT self-delimiting: an aggregate runs to the end of the bytes,
and an unsigned certificate followed by four zero bytes reads as one with an empty multi-signature -/
theorem qc_is_not_self_delimiting :
    qcBytes ⟨3, exHash, some (.agg [1] [9])⟩ ++ [7] = qcBytes ⟨3, exHash, some (.agg [1] [9, 7])⟩ ++ [] ∧
    qcBytes ⟨3, exHash, none⟩ ++ u32 0 = qcBytes ⟨3, exHash, some (.multi [])⟩ ++ [] := by decide +kernel

/-- 4. a partial certificate's bytes determine the hash and the signature BYTES … -/
theorem pcBytes_injective_bytes {h h' : Bytes} {s s' : QSig} (hh : h.length = 32) (hh' : h'.length = 32)
    (e : pcBytes h s = pcBytes h' s') : h = h' ∧ s.bytes = s'.bytes := Model.Bytes.pcBytes_inj_bytes hh hh' e

/-- … so with multi-signatures (whose bytes name the signers) the partial certificate … -/
theorem pcBytes_injective {h h' : Bytes} {ps ps' : List Part} (hh : h.length = 32) (hh' : h'.length = 32)
    (hw : ∀ p ∈ ps, p.WF) (hw' : ∀ p ∈ ps', p.WF)
    (e : pcBytes h (.multi ps) = pcBytes h' (.multi ps')) : h = h' ∧ QSig.multi ps = QSig.multi ps' :=
  Model.Bytes.pcBytes_injective hh hh' hw hw' e

/-- … and with aggregates NOT the signer: `PartialCert.ToBytes` of a BLS signature is hash and point, the
same whoever it is attributed to (`QuorumCert.ToBytes` was like this before 9a59775).  Harmless as long
as these bytes are neither hashed nor signed. -/
theorem pc_agg_bytes_do_not_name_the_signer :
    pcBytes exHash (.agg [1] [9, 9]) = pcBytes exHash (.agg [2] [9, 9]) ∧
    QSig.agg [1] [9, 9] ≠ QSig.agg [2] [9, 9] ∧ (QSig.agg [1] [9, 9]).WF ∧ (QSig.agg [2] [9, 9]).WF := by
  decide +kernel

theorem pcBytes_injective_agg {h h' : Bytes} {ids ids' : List Nat} {b b' : Bytes}
    (hh : h.length = 32) (hh' : h'.length = 32)
    (e : pcBytes h (.agg ids b) = pcBytes h' (.agg ids' b')) : h = h' ∧ b = b' :=
  Model.Bytes.pcBytes_injective_agg hh hh' e

/-- **a timeout message's bytes (what its sender signs under the aggregate rule) determine sender, view
and the certificate it reports** — present or not, and which -/
theorem tmoBytes_injective {id id' view view' : Nat} {qc qc' : Option QCv} {sch : Scheme}
    (hid : id < 2 ^ 32) (hid' : id' < 2 ^ 32) (hv : view < 2 ^ 64) (hv' : view' < 2 ^ 64)
    (hw : ∀ q, qc = some q → q.WF) (hw' : ∀ q, qc' = some q → q.WF)
    (hs : ∀ q, qc = some q → q.OfScheme sch) (hs' : ∀ q, qc' = some q → q.OfScheme sch)
    (h : tmoBytes id view qc = tmoBytes id' view' qc') : id = id' ∧ view = view' ∧ qc = qc' :=
  Model.Bytes.tmoBytes_injective hid hid' hv hv' hw hw' hs hs' h

/-- 5. protobuf varints: with ten groups the model's `varint` is exact below `128^10 = 2^70` (every
`uint64`, every length), injective and prefix-free there … -/
theorem varint_append_injective {a b : Nat} {r r' : Bytes} (ha : a < 2 ^ 70) (hb : b < 2 ^ 70)
    (h : varint a ++ r = varint b ++ r') : a = b ∧ r = r' := Model.Bytes.varint_append_inj ha hb h

theorem varint_injective {a b : Nat} (ha : a < 2 ^ 70) (hb : b < 2 ^ 70) (h : varint a = varint b) : a = b :=
  Model.Bytes.varint_injective ha hb h

/-- … and not beyond (the tenth group is cut to 7 bits) -/
theorem varint_not_injective_beyond : varint (2 ^ 63) = varint (2 ^ 63 + 2 ^ 70) := by decide +kernel

/-- **a command's proto3 bytes determine it** -/
theorem cmdBytes_injective {c c' : Cmd} (hw : c.WF) (hw' : c'.WF) (h : cmdBytes c = cmdBytes c') : c = c' :=
  Model.Bytes.cmdBytes_injective hw hw' h

/-- **a batch's bytes determine the commands** -/
theorem batchBytes_injective {cs cs' : List Cmd} (hw : ∀ c ∈ cs, c.WF) (hw' : ∀ c ∈ cs', c.WF)
    (h : batchBytes cs = batchBytes cs') : cs = cs' := Model.Bytes.batchBytes_injective hw hw' h

/-- 6. **The bytes of a block — what its hash is the SHA-256 of — determine the block**: parent,
proposer, view, commands, certificate, timestamp; among well-formed blocks whose certificates are of
one scheme.  `old_block_bytes_ambiguous`: false of the layout without the length of the batch. -/
theorem blockBytes_injective {b b' : Blk} {sch : Scheme} (hw : b.WF) (hw' : b'.WF)
    (hs : b.qc.OfScheme sch) (hs' : b'.qc.OfScheme sch) (h : blockBytes b = blockBytes b') : b = b' :=
  Model.Bytes.blockBytes_injective hw hw' hs hs' h

/-- content addressing from collision freedom: a hash function without a collision on the bytes of the
two blocks — equal hashes, equal blocks -/
theorem block_hash_determines_block {H : Bytes → Bytes} {b b' : Blk} {sch : Scheme} (hw : b.WF) (hw' : b'.WF)
    (hs : b.qc.OfScheme sch) (hs' : b'.qc.OfScheme sch)
    (nocoll : H (blockBytes b) = H (blockBytes b') → blockBytes b = blockBytes b')
    (h : H (blockBytes b) = H (blockBytes b')) : b = b' :=
  blockBytes_injective hw hw' hs hs' (nocoll h)

/-- 7. the hypotheses are not vacuous: the example objects above are well formed (so
`block_bytes_tell_them_apart` is an instance of `blockBytes_injective`) -/
theorem examples_well_formed :
    exQC1.WF ∧ exQC1.OfScheme .multi ∧ exBlk1.WF ∧ exBlk2.WF ∧
    exBlk1.qc.OfScheme .multi ∧ exBlk2.qc.OfScheme .multi ∧
    (QCv.mk 3 exHash (some (.agg [1, 2, 3] [9, 9]))).WF ∧
    (QCv.mk 3 exHash (some (.agg [1, 2, 3] [9, 9]))).OfScheme .agg ∧
    (∀ c ∈ exBlk2.cmds, c.WF) ∧ (Cmd.mk 7 300 [1, 2, 3]).WF := by decide +kernel

/-! ### across kinds: what is signed is a view (8 bytes), a timeout message or a block -/

theorem signed_bytes_lengths (v id view : Nat) (qc : Option QCv) {b : Blk} (hw : b.WF) :
    (u64 v).length = 8 ∧ 12 ≤ (tmoBytes id view qc).length ∧ 100 ≤ (blockBytes b).length :=
  ⟨Model.Bytes.u64_length v, Model.Bytes.tmoBytes_length_ge id view qc, Model.Bytes.blockBytes_length_ge hw⟩

def exBlk3 : Blk :=
  ⟨[1, 0, 0, 0] ++ u64 9 ++ u64 4 ++ (List.range 12).map (0xc0 + ·), 2, 5, [], ⟨0, exHash, none⟩,
    1700000000000000000⟩
def exTmoQC : QCv :=
  ⟨4, (List.range 12).map (0xc0 + ·) ++ u32 2 ++ u64 5 ++ u64 0,
    some (.agg [] (u32 0 ++ exHash ++ u64 1700000000000000000))⟩

/-- The layouts carry no tag saying WHAT is encoded: the bytes of a block without commands whose
certificate has view 0 (a child of genesis) are also the bytes of a timeout message — sender: the first
4 bytes of the parent hash, view: the next 8, reporting a certificate with an aggregate of no
participants.  Both objects well formed. -/
theorem block_vs_timeout_same_bytes :
    exBlk3.WF ∧ exTmoQC.WF ∧ blockBytes exBlk3 = tmoBytes 1 9 (some exTmoQC) := by decide +kernel

def exHash4 : Bytes := [0, 0, 0, 0, 32, 0, 0, 0] ++ (List.range 24).map (0xd0 + ·)
def exBlk4 : Blk := { exBlk3 with qc := ⟨1, exHash4, none⟩ }
def exTmoQC4 : QCv :=
  { exTmoQC with sig := some (.multi [⟨0, (List.range 24).map (0xd0 + ·) ++ u64 1700000000000000000⟩]) }

/-- the same with a multi-signature: the certificate of the block has view 1 (read as: one participant)
and a hash that reads as signer 0 and the length of what is left -/
theorem block_vs_timeout_same_bytes_multi :
    exBlk4.WF ∧ exTmoQC4.WF ∧ blockBytes exBlk4 = tmoBytes 1 9 (some exTmoQC4) := by decide +kernel

end HsVerif.Props.C12Bytes
