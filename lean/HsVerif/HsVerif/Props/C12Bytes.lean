import HsVerif.Model.Bytes
/-! C12 / C02 / C13, the bytes that are hashed and signed (Model/Bytes.lean) determine the object.
Property theorems only. -/
namespace HsVerif.Props.C12Bytes
open HsVerif.Model.Bytes

/-! ### what the layouts before the repairs allowed (witnesses kept as theorems) -/

def exHash : Bytes := (List.range 32).map (0xa0 + ·)
def exSig : QSig := .multi [⟨1, [0x38, 0x62, 0x79, 0x74, 0x65, 0x73, 0x21, 0x21]⟩]
/-- the view `0a 16 1a 14 00 00 00 00` reads as: field 1, 22 bytes; field 3, 20 bytes -/
def exView : Nat := 0x141a160a
def exQC1 : QCv := ⟨exView, exHash, some exSig⟩
def exBlk1 : Blk := ⟨7 :: List.replicate 31 0, 2, exView + 1, [], exQC1, 1700000000000000000⟩
/-- the same bytes read with the boundary 24 bytes later: one more command, a certificate without signature -/
def exBlk2 : Blk :=
  { exBlk1 with
    cmds := [⟨0, 0, ((qcBytes exQC1).take 24).drop 4⟩]
    qc := ⟨0xb7b6b5b4b3b2b1b0, ((qcBytes exQC1).drop 32), none⟩ }

/-- **Before 6e1f39b a block's bytes (hence its hash) did not determine the block**: no commands and a
signed certificate, or one command and an unsigned certificate — the same bytes.  Replayed with the
real `NewBlock`: fixes/C12-block-bytes-demo_test.go.txt. -/
theorem old_block_bytes_ambiguous : exBlk1 ≠ exBlk2 ∧ blockBytesOld exBlk1 = blockBytesOld exBlk2 := by
  decide +kernel

/-- with the length of the batch written first the two differ -/
theorem block_bytes_tell_them_apart : blockBytes exBlk1 ≠ blockBytes exBlk2 := by decide +kernel

/-- **Before 2c93c32**: the parts of a multi-signature cut at another place, or attributed to other
signers, had the same bytes -/
theorem old_multi_bytes_ambiguous :
    multiBytesOld [⟨1, [0xaa, 0xbb]⟩, ⟨2, [0xcc]⟩] = multiBytesOld [⟨1, [0xaa]⟩, ⟨2, [0xbb, 0xcc]⟩] ∧
    multiBytesOld [⟨1, [0xaa]⟩] = multiBytesOld [⟨2, [0xaa]⟩] ∧
    multiBytes [⟨1, [0xaa, 0xbb]⟩, ⟨2, [0xcc]⟩] ≠ multiBytes [⟨1, [0xaa]⟩, ⟨2, [0xbb, 0xcc]⟩] ∧
    multiBytes [⟨1, [0xaa]⟩] ≠ multiBytes [⟨2, [0xaa]⟩] := by decide +kernel

/-- **Before 9a59775**: an aggregate attributed to another participant set, and no signature vs an
empty one, had the same certificate bytes -/
theorem old_qc_bytes_ambiguous :
    qcBytesOld ⟨3, exHash, some (.agg [1, 2, 3] [9, 9])⟩ = qcBytesOld ⟨3, exHash, some (.agg [1, 2, 4] [9, 9])⟩ ∧
    qcBytesOld ⟨3, exHash, none⟩ = qcBytesOld ⟨3, exHash, some (.multi [])⟩ ∧
    qcBytes ⟨3, exHash, some (.agg [1, 2, 3] [9, 9])⟩ ≠ qcBytes ⟨3, exHash, some (.agg [1, 2, 4] [9, 9])⟩ ∧
    qcBytes ⟨3, exHash, none⟩ ≠ qcBytes ⟨3, exHash, some (.multi [])⟩ := by decide +kernel

end HsVerif.Props.C12Bytes
