import HsVerif.Proofs.ReplicaVM
import HsVerif.Props.C03
/-! C09 — votes form a QC exactly when a quorum voted for that block.  Property theorems only.

`collectVote` is `VotingMachine.CollectVote` followed by `verifyCert` (synchronous verification;
with asynchronous verification the same atomic `verifyCert` bodies run under the mutex in an order
the adversary chooses, which is one of the event orders quantified over here), with
`fix: the voting machine ignores votes not signed by exactly one replica`.
The Kauri aggregation node and the whole tree are modelled and proved in Props/C09Kauri.lean and
Props/C09Tree.lean; this file is the all-to-one collector. -/
open Std.Do
set_option linter.unusedVariables false
namespace HsVerif.Props.C09
open HsVerif.Model

/-- **Invariant of the vote store** (kept by `collectVote`, n ≥ 2): per block, stored votes come
from pairwise different signers, each is a single-signer signature accepted by
`VerifyPartialCert`, and fewer than a quorum are ever left waiting. -/
theorem vote_store_invariant (k : Keys) (c : RCfg) (id : Nat) (sig : Option Sig) (hash : Hash) (d : Bool)
    (hq : 2 ≤ c.cfg.quorum) (hw : ∀ sg, sig = some sg → sg.WF) (s : RState) (h : VMI k c s) :
    VMI k c ((collectVote k c id sig hash d).run s).2 :=
  C03.run_of_triple _ (VMI k c) (VMI k c) (collectVote_vm k c id sig hash d hq hw) s h

/-- **Only at a quorum**: processing a vote queues at most one event, and if it does, that event is
a NewView with a certificate assembled from at least a quorum of votes for that block, from
pairwise different signers, each a verified single-signer vote (invalid, duplicate, multi-signer,
wrong-block and non-member votes are never among them). -/
theorem qc_only_from_quorum (k : Keys) (c : RCfg) (id : Nat) (sig : Option Sig) (hash : Hash) (d : Bool)
    (hq : 2 ≤ c.cfg.quorum) (hw : ∀ sg, sig = some sg → sg.WF) (s : RState) (h : VMI k c s) :
    let s' := ((collectVote k c id sig hash d).run s).2
    s'.queue = s.queue ∨ ∃ qc, s'.queue = s.queue ++ [.newview c.id { qc := some qc }] ∧ QCFromVotes k c hash qc :=
  C03.run_of_triple _ (fun s0 => VMI k c s0 ∧ s0.queue = s.queue)
    (fun s' => s'.queue = s.queue ∨ ∃ qc, s'.queue = s.queue ++ [.newview c.id { qc := some qc }] ∧ QCFromVotes k c hash qc)
    (collectVote_queue k c id sig hash d s.queue hq hw) s ⟨h, rfl⟩

/-- **Hostile votes cannot prevent the certificate**: with the invariant, once a fresh valid vote
brings the number of stored votes for a block to the quorum, `Combine` over them cannot fail
(n ≥ 2) — so the certificate is formed at the step that completes the quorum. -/
theorem hostile_votes_cannot_block (k : Keys) (c : RCfg) (s : RState) (hash : Hash) (v : Nat × Sig)
    (h : VMI k c s) (hv : VoteOK k c hash v) (hq2 : 2 ≤ c.cfg.quorum)
    (hfresh : ∀ x : Sig, (v.1, x) ∉ (s.votes.lookup hash).getD [])
    (hq : c.cfg.quorum ≤ ((s.votes.lookup hash).getD []).length + 1) :
    ∃ sg, combine c.cfg (((s.votes.lookup hash).getD [] ++ [v]).map (·.2)) = .ok sg :=
  combine_votes_ok k c s hash v h hv hq2 hfresh hq

/-- The invariant holds initially. -/
theorem vmi_init (k : Keys) (c : RCfg) : VMI k c {} := by
  intro p hp; simp at hp

end HsVerif.Props.C09
