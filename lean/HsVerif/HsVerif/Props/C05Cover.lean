import HsVerif.Proofs.SysCover
import HsVerif.Props.C05Live
/-! C05, Stage 3 completed (task S11) — the hypothesis `cover` of the recovery theorem is discharged
from reachability.  Property theorems; the proofs are in Proofs/SysCover.lean.

1. THE HIGH QC COVERS THE VOTES (replica model, every handler, hence every reachable state):
   for every block `b` the replica ever voted for, `b.qc.view ≤ highQC.view` — on the VIEW FIELDS of the
   two certificates (`HCov`).  `UpdateHighQC` (`advanceView`) compares the view of the STORED block of the
   new certificate with the view field of the current high QC; for a verified certificate the two are
   the same number (`voted_certificate_block_covered` states the invariant on the stored block).  The
   subtle point of the model (and of the code: synchronizer `OnPropose` → `advanceView`, then
   `Voter.Verify`): the certificate of a proposal is verified TWICE, first by `advanceView` — which
   silently returns when the certificate is rejected — and then by `voterVerify`; the invariant needs
   that a certificate rejected the first time is rejected the second time (`Dead`,
   `rejected_certificate_stays_rejected`): between the two only block fetches happen.
2. `cover_of_reach`: `RecSetup.cover` holds of every reachable state — assumptions `RecPre` (= the other
   fields of `RecSetup`, and `parents`: the certified block of a `Top` block is known to every replica
   or has the empty hash), content addressing `CA'`, `KeysOK`.
3. `recovery_from_reachable`: `recovery_after_timeouts` with `cover` discharged.
4. Non-vacuity: four replicas run four views of the fault-free synchronous run (every lock is `P2`, a
   block of view 2; every high QC certifies `P3`), the votes for `P4` are lost, all four time out in
   view 4 (`recovery_from_reachable_nonvacuous`, kernel-evaluated); and a run in which the high QCs
   differ and the block of the highest high QC of a quorum IS the lock of a replica — the equal-views
   branch of the argument (`recovery_from_reachable_nonvacuous_eq`). -/
set_option linter.unusedVariables false
namespace HsVerif.Props.C05Cover
open HsVerif.Model HsVerif.Proofs HsVerif.Props.C01Sys HsVerif.Props.C01SysWF HsVerif.Props.C03
open HsVerif.SysSafety HsVerif.Props.C05Live

/-! ## 1. the high QC covers the votes -/

/-- the invariant holds initially and is kept by `Start` and by every delivered event -/
theorem highqc_covers_votes_init : HC {} := hc_init
theorem highqc_covers_votes_start (k : Keys) (c : RCfg) (s : RState) (h : HC s) : HC (start k c s).1 := start_hc k c s h
theorem highqc_covers_votes_step (k : Keys) (c : RCfg) (s : RState) (e : Ev) (h : HC s) : HC (step k c s e).1 :=
  step_hc k c s e h

theorem highqc_covers_votes_run (k : Keys) (c : RCfg) (es : List Ev) (s : RState) (h : HC s) :
    HC (runEvents k c s es) := by
  induction es generalizing s with
  | nil => exact h
  | cons e es ih => exact ih _ (step_hc k c s e h)

/-- **The high QC covers the votes** (one replica, any rule set, any timeout rule, any scheme): in
every reachable state — initial state, `Start`, then any sequence of delivered events — the
certificate of every block the replica ever voted for is not newer than its high QC. -/
theorem highqc_covers_votes (k : Keys) (c : RCfg) (es : List Ev) (b : Block) (id : Nat)
    (h : GRec.vote b id ∈ (runEvents k c (start k c {}).1 es).ghost) :
    b.qc.view ≤ (runEvents k c (start k c {}).1 es).highQC.view :=
  (highqc_covers_votes_run k c es _ (start_hc k c {} hc_init)).1 b id h

/-- … stated on the STORED block of the certificate: it is stored (or the certificate is the genesis
certificate) with the certificate's view, which is at most the view of the high QC -/
theorem voted_certificate_block_covered (k : Keys) (c : RCfg) (es : List Ev) (b : Block) (id : Nat)
    (h : GRec.vote b id ∈ (runEvents k c (start k c {}).1 es).ghost) :
    QCBlockView b.qc (runEvents k c (start k c {}).1 es) ∧
    b.qc.view ≤ (runEvents k c (start k c {}).1 es).highQC.view :=
  ⟨verifyQC_blockView k c _ b.qc (C03Cur.votes_verify_now k c es b id h), highqc_covers_votes k c es b id h⟩

/-- **A certificate rejected by `verifyQCM` stays rejected for the rest of the handler**: what
`verifyQCM` leaves behind when it answers `false` is a state in which the certificate is `Dead`
(rejected now and after any further block fetches), and `voterVerify` does not accept a proposal
whose certificate is `Dead`. -/
theorem rejected_certificate_stays_rejected (k : Keys) (c : RCfg) (q : QC) (s : RState)
    (h : ((verifyQCM k c q).run s).1 = false) :
    Dead k c q ((verifyQCM k c q).run s).2 ∧
    ∀ (id : Nat) (b : Block) (agg : Option AggQC), b.qc = q →
      ((voterVerify k c id b agg).run ((verifyQCM k c q).run s).2).1 ≠ .ok () := by
  have hd := run_res_of_triple _ (fun _ => True) _ (verifyQCM_dead_new k c q) s trivial h
  refine ⟨hd, ?_⟩
  intro id b agg hb
  subst hb
  exact run_res_of_triple _ _ _ (voterVerify_dead k c id b agg) _ hd

/-- **In every reachable state of the system, every replica's high QC covers its votes** -/
theorem sys_highqc_covers_votes (k : Keys) (C : SysCfg) (σ : SysState) (hr : Reach k C σ) (i : Nat) (s : RState)
    (hl : σ.reps.lookup i = some s) (b : Block) (id : Nat) (h : GRec.vote b id ∈ s.ghost) :
    b.qc.view ≤ s.highQC.view :=
  (reach_hc k C σ hr i s hl).1 b id h

/-! ## 2. `cover` from reachability -/

/-- **the assumptions of the recovery theorem without `cover`**: the fields of `RecSetup`
(Proofs/SysRecovery.lean) except `cover`, and `parents`: the block certified by the certificate of a
`Top` block is stored at every replica (or the `Top` block carries the empty certificate hash, as
genesis does) — the first clause of `RuleReady`, which the vote rule needs to find the block to lock on. -/
structure RecPre (k : Keys) (C : SysCfg) (D : RecData) (s0 : Nat → RState) (ℓ : Nat) (T0 : List (Nat × Atom)) : Prop where
  agg : C.agg = false
  scheme : C.scheme ≠ .bls12
  rules : C.rules ≠ .fast
  v0 : D.v ≠ 0
  nodup : C.honest.Nodup
  range : ∀ i ∈ C.honest, 1 ≤ i ∧ i ≤ C.n
  all : C.honest.length = C.n
  two : 2 ≤ C.n
  leader : ∀ j ∈ C.honest, (C.rcfg j).leader (D.v + 1) = ℓ
  lmem : ℓ ∈ C.honest
  init : ∀ j ∈ C.honest, RColl C D (s0 j) j [] (s0 j) ∧ (s0 j).waitingVC = [] ∧ (s0 j).lastVoted ≤ D.v ∧
    KnowsAll k C D j { s0 j with truth := T0 }
  mark : ∀ i ∈ C.honest, markWalk ((s0 ℓ).chain.fuel + 1) (s0 ℓ).chain.blocks (s0 ℓ).lastProposed (D.hb i) = true
  parents : ∀ j ∈ C.honest, ∀ i ∈ C.honest, Top C D i →
    ((D.hb i).qc.hash = "" ∨ ∃ gb, (s0 j).chain.blocks.lookup (D.hb i).qc.hash = some gb)

/-- with all `n` ids honest, `FewFaulty` holds -/
theorem RecPre.fewFaulty {k : Keys} {C : SysCfg} {D : RecData} {s0 : Nat → RState} {ℓ : Nat} {T0 : List (Nat × Atom)}
    (h : RecPre k C D s0 ℓ T0) : FewFaulty C :=
  fewFaulty_of_all C (all_ids C.honest C.n h.nodup h.range h.all)

/-- the standing hypotheses of the safety argument, from `RecPre` and reachability -/
theorem RecPre.ctx {k : Keys} {C : SysCfg} {D : RecData} {s0 : Nat → RState} {ℓ : Nat} {σ : SysState}
    {blk : Hash → Block} (h : RecPre k C D s0 ℓ σ.truth) (hk : KeysOK k) (hr : Reach k C σ) (hca : CA' σ blk) :
    Ctx k C σ blk :=
  ⟨hk, hr, Nat.le_trans (by decide) h.two, h.fewFaulty, h.scheme, h.rules, hca⟩

/-- **`cover` holds of every reachable state.**  `σ` is reachable in the system of replica models, all
`n ≥ 2` replicas run the model (chained or simplified HotStuff, ECDSA / EdDSA), hashes are content
addresses (`CA'`); replica `j` is in state `s0 j` in `σ`, with high QC `D.hq j` naming the stored block
`D.hb j`, and every replica can check every replica's high QC against the global table (`RecPre.init`,
`KnowsAll`).  Then for every replica `j` and every certificate `D.hq i` that is the highest of some
quorum (`Top`): its block `D.hb i` has a view above `j`'s lock — or equal, and then it IS the lock, so a
proposal on it extends the lock —, i.e. `j`'s vote rule is ready (`RuleReady`).
The argument: the lock `L` is genesis or the certificate-grandparent of a block `j` voted for
(`LInv`); its child `p` is certified, every voter `r` of `p` — a quorum, all honest — had accepted
`p.qc = QC(L)`, so `L.view = p.qc.view ≤ highQC_r.view` (`HC`, `Cur`, `CA'`); any quorum meets the voters
(`top_covers`), so the `Top` block has view `≥ L.view`; it is genesis or certified (its certificate
verifies: `accepted_qc_certified`, `sys_certified_of_table`), as is `L`, and a view has one such block
(`Ctx.gc_unique`). -/
theorem cover_of_reach (k : Keys) (C : SysCfg) (D : RecData) (s0 : Nat → RState) (ℓ : Nat) (σ : SysState)
    (blk : Hash → Block) (hk : KeysOK k) (hr : Reach k C σ) (hca : CA' σ blk)
    (hP : RecPre k C D s0 ℓ σ.truth) (hreps : ∀ j ∈ C.honest, σ.reps.lookup j = some (s0 j)) :
    ∀ j ∈ C.honest, ∀ i ∈ C.honest, Top C D i → RuleReady (C.rcfg j) (s0 j) (D.v + 1) (D.hb i) :=
  Ctx.cover (hP.ctx hk hr hca) D s0 hP.nodup hP.range hP.all hreps
    (fun j hj => (hP.init j hj).1.hqc) (fun j hj => (hP.init j hj).2.2.2) hP.parents

/-- **the block the leader will propose on covers every lock** (the heart of `cover_of_reach`; no
`parents` needed): the lock of every replica is at most as new as the block of the highest high QC of
any quorum, and equal views mean the same block -/
theorem top_block_covers_lock (k : Keys) (C : SysCfg) (D : RecData) (s0 : Nat → RState) (ℓ : Nat) (σ : SysState)
    (blk : Hash → Block) (hk : KeysOK k) (hr : Reach k C σ) (hca : CA' σ blk)
    (hP : RecPre k C D s0 ℓ σ.truth) (hreps : ∀ j ∈ C.honest, σ.reps.lookup j = some (s0 j))
    (j i : Nat) (hj : j ∈ C.honest) (hi : i ∈ C.honest) (ht : Top C D i) :
    (s0 j).lock.view ≤ (D.hb i).view ∧ ((s0 j).lock.view = (D.hb i).view → D.hb i = (s0 j).lock) :=
  Ctx.top_ge_lock (hP.ctx hk hr hca) D s0 hP.nodup hP.range hP.all hreps
    (fun j hj => (hP.init j hj).1.hqc) (fun j hj => (hP.init j hj).2.2.2) j hj i hi ht

/-- `RecSetup` from `RecPre` and reachability -/
theorem recSetup_of_reach (k : Keys) (C : SysCfg) (D : RecData) (s0 : Nat → RState) (ℓ : Nat) (σ : SysState)
    (blk : Hash → Block) (hk : KeysOK k) (hr : Reach k C σ) (hca : CA' σ blk)
    (hP : RecPre k C D s0 ℓ σ.truth) (hreps : ∀ j ∈ C.honest, σ.reps.lookup j = some (s0 j)) :
    RecSetup k C D s0 ℓ σ.truth :=
  ⟨hP.agg, hP.scheme, hP.rules, hP.v0, hP.nodup, hP.range, hP.all, hP.two, hP.leader, hP.lmem, hP.init, hP.mark,
    cover_of_reach k C D s0 ℓ σ blk hk hr hca hP hreps⟩

/-! ## 3. recovery from any reachable state -/

/-- **Recovery from any reachable state.**  `σ0` is a reachable state of the system of replica models
(`Reach`), hashes are content addresses (`CA'`), `RecPre` holds (see below), and `σ0` is the state the
scenario starts in (`RecStart`: replica `j` is in state `s0 j`, the table is `σ0.truth`).  Deliver the
timeout messages in ANY order `msgs`.  Then — the conclusion of `recovery_after_timeouts` — every replica
is in a view `≥ v + 1`; the leader `ℓ` has proposed a block `b'` of view `v + 1` on a certificate that is
the highest of a quorum, the proposal is in flight to every other replica; and every other replica
votes for `b'` when the proposal reaches it.

What is assumed, by kind.
* Facts of the configuration: all `n ≥ 2` replicas run the model, chained or simplified HotStuff, plain
  timeout rule, ECDSA / EdDSA (`agg`, `scheme`, `rules`, `nodup`, `range`, `all`, `two`), `KeysOK`.
* SYNCHRONY AFTER GST: everybody is in the same view `v ≠ 0` with nothing queued or deferred, has not voted
  beyond `v`, HAS TIMED OUT (its collector holds its own timeout message `D.tmsg C j`, which carries its
  high QC `D.hq j`) — `init`, `RColl`; everybody agrees on the leader `ℓ` of view `v + 1` (`leader`,
  `lmem`); the timeout messages are delivered, each exactly once (`FullOrder`); the blocks of the reported
  high QCs are known everywhere and the certificates and timeout messages check out against the global
  table (`KnowsAll`); the block under a `Top` block is known everywhere (`parents`); the leader can walk
  from every reported block down to what it proposed last (`mark`).
* Facts I could NOT derive from reachability in this model: `parents` and the storage part of `KnowsAll`
  (a replica stores a block it FETCHED without its ancestors, and learns a high QC from a timeout message
  without fetching anything but the certified block), `mark` (same reason), `CA'` (hashes are a field of
  the modelled block: collision freedom is a hypothesis, as in C01).  That everybody's certificates are
  older than `v` (`KnowsAll.qc`, `.tc`) IS derivable in principle (a replica leaves a view on a certificate
  of that view) but is not derived here.
* NOT assumed any more: `cover`. -/
theorem recovery_from_reachable (k : Keys) (C : SysCfg) (D : RecData) (s0 : Nat → RState) (ℓ : Nat)
    (σ0 : SysState) (blk : Hash → Block) (hk : KeysOK k) (hr : Reach k C σ0) (hca : CA' σ0 blk)
    (hP : RecPre k C D s0 ℓ σ0.truth) (h0 : RecStart C s0 σ0.truth σ0)
    (msgs : List (Nat × Nat)) (hm : FullOrder C msgs) :
    ∃ (i : Nat) (b' : Block),
      i ∈ C.honest ∧ Top C D i ∧
      b'.view = D.v + 1 ∧ b'.qc = D.hq i ∧ b'.parent = (D.hq i).hash ∧ b'.proposer = ℓ ∧
      (∀ j ∈ C.honest, j ≠ ℓ →
        (j, Ev.propose ℓ b' none) ∈ (deliverAll k C (σ0, []) (msgs.map fun p => (p.1, Ev.timeout (D.tmsg C p.2)))).2) ∧
      (∀ j ∈ C.honest, ∃ s,
        (deliverAll k C (σ0, []) (msgs.map fun p => (p.1, Ev.timeout (D.tmsg C p.2)))).1.reps.lookup j = some s ∧
        D.v + 1 ≤ s.view) ∧
      (∀ j ∈ C.honest, j ≠ ℓ → ∃ s bytes,
        (deliverAll k C (σ0, []) (msgs.map fun p => (p.1, Ev.timeout (D.tmsg C p.2)))).1.reps.lookup j = some s ∧
        s.view = D.v + 1 ∧
        (let σ1 := (deliverAll k C (σ0, []) (msgs.map fun p => (p.1, Ev.timeout (D.tmsg C p.2)))).1
         let r := step k (C.rcfg j) { s with truth := σ1.truth, nextBytes := σ1.nextBytes } (.propose ℓ b' none)
         Has b'.hash r.1 ∧ Out.sign (blkMsg b'.hash) ∈ r.2 ∧
         r.1.truth.lookup bytes = some ⟨j, blkMsg b'.hash⟩ ∧
         ((C.rcfg j).leader (D.v + 1 + 1) ≠ j →
           Out.sendVote ((C.rcfg j).leader (D.v + 1 + 1)) (.multi C.scheme [⟨j, bytes⟩]) b'.hash ∈ r.2))) :=
  recovery_after_timeouts k C D s0 ℓ σ0.truth (recSetup_of_reach k C D s0 ℓ σ0 blk hk hr hca hP h0.reps) σ0 h0 msgs hm

/-- the same for the synchronous network of Stage 2: one `syncRound` delivers the timeout messages -/
theorem recovery_from_reachable_sync (k : Keys) (C : SysCfg) (D : RecData) (s0 : Nat → RState) (ℓ : Nat)
    (x : SysState × Msgs) (blk : Hash → Block) (hk : KeysOK k) (hr : Reach k C x.1) (hca : CA' x.1 blk)
    (hP : RecPre k C D s0 ℓ x.1.truth) (h0 : RecStart C s0 x.1.truth x.1)
    (hx : x.2 = (senderMajor C).map fun p => (p.1, Ev.timeout (D.tmsg C p.2))) :
    ∃ (i : Nat) (b' : Block),
      i ∈ C.honest ∧ Top C D i ∧
      b'.view = D.v + 1 ∧ b'.qc = D.hq i ∧ b'.parent = (D.hq i).hash ∧ b'.proposer = ℓ ∧
      (∀ j ∈ C.honest, j ≠ ℓ → (j, Ev.propose ℓ b' none) ∈ (syncRound k C x).2) ∧
      (∀ j ∈ C.honest, ∃ s, (syncRound k C x).1.reps.lookup j = some s ∧ D.v + 1 ≤ s.view) :=
  recovery_sync_round k C D s0 ℓ x.1.truth (recSetup_of_reach k C D s0 ℓ x.1 blk hk hr hca hP h0.reps) x h0 hx

/-- the start conditions of the scenario that follow from reachability: the table is fresh and the
replicas are exactly the honest ids -/
theorem recStart_of_reach (k : Keys) (C : SysCfg) (s0 : Nat → RState) (σ : SysState) (hr : Reach k C σ)
    (hkeys : σ.reps.map (·.1) = C.honest) (hreps : ∀ j ∈ C.honest, σ.reps.lookup j = some (s0 j)) :
    RecStart C s0 σ.truth σ :=
  ⟨reach_fresh k C σ hr, hkeys, rfl, hreps⟩

/-! ## 4. non-vacuity: a run with NON-genesis locks -/
section NonVacuity

/-- four honest replicas (fixed leader 1, chained HotStuff: `recCfg`) run seven rounds of the
fault-free synchronous run — `P1 … P4` proposed, `P1 … P3` certified, everybody has voted for `P4` and is
in view 4 with lock `P2` and high QC `QC(P3)` —, the votes for `P4` are lost, and all four time out -/
def cvRun : SysState × Msgs :=
  deliverAll exKeys recCfg ((syncRun exKeys recCfg 7).1, [])
    [(1, .localTimeout 4), (2, .localTimeout 4), (3, .localTimeout 4), (4, .localTimeout 4)]

def cvQC : QC := ⟨some (.multi .ecdsa [⟨1, 9⟩, ⟨2, 10⟩, ⟨3, 11⟩]), 3, "P3"⟩
def cvP2 : Block :=
  { hash := "P2", parent := "P1", view := 2, proposer := 1,
    qc := ⟨some (.multi .ecdsa [⟨1, 1⟩, ⟨2, 2⟩, ⟨3, 3⟩]), 1, "P1"⟩, cmds := ["101/2/c2"] }
def cvP3 : Block :=
  { hash := "P3", parent := "P2", view := 3, proposer := 1,
    qc := ⟨some (.multi .ecdsa [⟨1, 5⟩, ⟨2, 6⟩, ⟨3, 7⟩]), 2, "P2"⟩, cmds := ["101/3/c3"] }

def cvData : RecData :=
  { v := 4, hq := fun _ => cvQC, hb := fun _ => cvP3, htc := fun _ => ⟨none, 0⟩, bt := fun i => i + 16 }

def cvS0 (j : Nat) : RState := (cvRun.1.reps.lookup j).getD {}

/-- "the block with that hash": what replica 1, the leader, stores under it -/
def cvBlk (h : Hash) : Block := ((cvS0 1).chain.blocks.lookup h).getD genesisBlock

/-- everything that has to be checked of replica `j` in state `s` against the table `T`, as ONE
boolean (the kernel evaluates the run once) -/
def cvOK (s : RState) (T : List (Nat × Atom)) (j : Nat) : Bool :=
  decide (s.view = 4) && decide (s.queue.length = 0) && decide (s.timeouts = [cvData.tmsg recCfg j]) &&
  decide (s.highQC = cvQC) && decide (s.waitingVC.length = 0) && decide (s.lastVoted ≤ 4) &&
  verifyQC (env exKeys (recCfg.rcfg j) { s with truth := T }) cvQC &&
  decide (s.chain.blocks.lookup "P3" = some cvP3) &&
  recCfg.honest.all (fun i => acceptedB (fun b => T.lookup b) (recCfg.rcfg j).cfg (cvData.tmsg recCfg i)) &&
  decide (s.chain.blocks.lookup "P2" = some cvP2) && decide (s.lock = cvP2)

def cvAllOK : Bool :=
  recCfg.honest.all fun j =>
    match cvRun.1.reps.lookup j with
    | some s => cvOK s cvRun.1.truth j
    | none => false

theorem cvAllOK_true : cvAllOK = true := by decide +kernel

theorem cv_rep (j : Nat) (hj : j ∈ recCfg.honest) :
    cvRun.1.reps.lookup j = some (cvS0 j) ∧ cvOK (cvS0 j) cvRun.1.truth j = true := by
  have h := List.all_eq_true.mp cvAllOK_true j hj
  unfold cvS0
  cases hl : cvRun.1.reps.lookup j with
  | none => rw [hl] at h; cases h
  | some s => rw [hl] at h; exact ⟨rfl, h⟩

/-- what the boolean says of one replica -/
theorem cvInit_of_ok (s : RState) (T : List (Nat × Atom)) (j : Nat) (h : cvOK s T j = true) :
    (RColl recCfg cvData s j [] s ∧ s.waitingVC = [] ∧ s.lastVoted ≤ cvData.v ∧
      KnowsAll exKeys recCfg cvData j { s with truth := T }) ∧
    s.chain.blocks.lookup "P2" = some cvP2 ∧ s.lock = cvP2 := by
  simp only [cvOK, Bool.and_eq_true, decide_eq_true_eq] at h
  obtain ⟨⟨⟨⟨⟨⟨⟨⟨⟨⟨h1, h2⟩, h3⟩, h4⟩, h5⟩, h6⟩, h7⟩, h8⟩, h9⟩, h10⟩, h11⟩ := h
  refine ⟨⟨⟨Frame.refl _, h1, List.eq_nil_of_length_eq_zero h2, h3, h4⟩, List.eq_nil_of_length_eq_zero h5, h6, ?_, ?_, ?_⟩,
    h10, h11⟩
  · intro i _; exact ⟨h7, h8, rfl, (by show (3 : Nat) < 4; decide)⟩
  · intro i _; exact ⟨by simp [verifyTC, cvData], (by show (0 : Nat) < 4; decide)⟩
  · intro i hi
    exact accepted_of_acceptedB _ _ _ (List.all_eq_true.mp h9 i hi)

theorem deliverAll_reach' (k : Keys) (C : SysCfg) (σ : SysState) (ms : Msgs) (h : Reach k C σ) :
    Reach k C (deliverAll k C (σ, []) ms).1 := deliverAll_reach k C ms (σ, []) h

/-- the run is a run of the system -/
theorem cvRun_reach : Reach exKeys recCfg cvRun.1 :=
  deliverAll_reach' exKeys recCfg (syncRun exKeys recCfg 7).1 _ (syncRun_reach exKeys recCfg 7)

set_option maxRecDepth 100000 in
/-- **the hypotheses of `recovery_from_reachable` hold of that run**, and every lock in it is `P2`, a
block of view 2 — not genesis; the block of every high QC is `P3` -/
theorem recovery_from_reachable_nonvacuous :
    KeysOK exKeys ∧ Reach exKeys recCfg cvRun.1 ∧ CA' cvRun.1 cvBlk ∧
    RecPre exKeys recCfg cvData cvS0 1 cvRun.1.truth ∧ RecStart recCfg cvS0 cvRun.1.truth cvRun.1 ∧
    cvRun.2 = (senderMajor recCfg).map (fun p => (p.1, Ev.timeout (cvData.tmsg recCfg p.2))) ∧
    (∀ j ∈ recCfg.honest, (cvS0 j).lock = cvP2) := by
  have hreach := cvRun_reach
  refine ⟨tmoMsgKey_ne_blkMsg, hreach, ca'_of_ca'Check _ _ (by decide +kernel),
    ⟨rfl, by decide, by decide, by decide, by decide, by decide, rfl, by decide, ?_, by decide, ?_, ?_, ?_⟩,
    recStart_of_reach exKeys recCfg cvS0 cvRun.1 hreach (by decide +kernel) (fun j hj => (cv_rep j hj).1),
    by decide +kernel, ?_⟩
  · intro j _; rfl
  · intro j hj; exact (cvInit_of_ok _ _ j (cv_rep j hj).2).1
  · intro i _; show markWalk _ _ _ cvP3 = true; decide +kernel
  · intro j hj i _ _
    exact Or.inr ⟨cvP2, (cvInit_of_ok _ _ j (cv_rep j hj).2).2.1⟩
  · intro j hj; exact (cvInit_of_ok _ _ j (cv_rep j hj).2).2.2

/-- what `recovery_from_reachable_sync` yields there: after the round everybody is in view `≥ 5`, and
replica 1 has proposed a block of view 5 on top of `P3` that is in flight to replicas 2, 3, 4 — and
`top_block_covers_lock`: the block proposed on, `P3`, is above every lock (`P2`) -/
example : (∃ b' : Block, b'.view = 5 ∧ b'.parent = "P3" ∧
      (∀ j ∈ [2, 3, 4], (j, Ev.propose 1 b' none) ∈ (syncRound exKeys recCfg cvRun).2) ∧
      (∀ j ∈ [1, 2, 3, 4], ∃ s, (syncRound exKeys recCfg cvRun).1.reps.lookup j = some s ∧ 5 ≤ s.view)) ∧
    (∀ j ∈ [1, 2, 3, 4], (cvS0 j).lock.view = 2 ∧ (cvS0 j).lock.view < cvP3.view) := by
  obtain ⟨hk, hr, hca, hP, h0, hx, hl⟩ := recovery_from_reachable_nonvacuous
  constructor
  · obtain ⟨i, b', _, _, h3, h4, h5, _, h7, h8⟩ :=
      recovery_from_reachable_sync exKeys recCfg cvData cvS0 1 cvRun cvBlk hk hr hca hP h0 hx
    refine ⟨b', h3, h5, ?_, h8⟩
    intro j hj
    refine h7 j ?_ ?_
    · simp only [List.mem_cons, List.not_mem_nil, or_false] at hj
      rcases hj with rfl | rfl | rfl <;> decide
    · simp only [List.mem_cons, List.not_mem_nil, or_false] at hj
      rcases hj with rfl | rfl | rfl <;> decide
  · intro j hj
    rw [hl j hj]
    exact ⟨rfl, by decide⟩

end NonVacuity
/-! ### non-vacuity of the EQUAL-views branch: the `Top` block of a quorum IS a replica's lock -/
section NonVacuityEq

/-- six rounds of the synchronous run: the leader (replica 1) has certified `P3`, proposed `P4` and
voted for it — lock `P2`, high QC `QC(P3)`, view 4; `P4` is lost, replicas 2, 3, 4 (view 3, lock `P1`, high
QC `QC(P2)`) time out in view 3 and exchange their timeout messages -/
def eqRun1 : SysState × Msgs :=
  deliverAll exKeys recCfg ((syncRun exKeys recCfg 6).1, []) [(2, .localTimeout 3), (3, .localTimeout 3), (4, .localTimeout 3)]
/-- … which takes them to view 4 on a timeout certificate (nothing reaches the leader) -/
def eqRun2 : SysState × Msgs :=
  deliverAll exKeys recCfg (eqRun1.1, []) (eqRun1.2.filter (fun m => m.1 != 1))
/-- … and then all four time out in view 4 -/
def eqRun : SysState × Msgs :=
  deliverAll exKeys recCfg (eqRun2.1, []) [(1, .localTimeout 4), (2, .localTimeout 4), (3, .localTimeout 4), (4, .localTimeout 4)]

def eqQC2 : QC := ⟨some (.multi .ecdsa [⟨1, 5⟩, ⟨2, 6⟩, ⟨3, 7⟩]), 2, "P2"⟩

def eqData : RecData :=
  { v := 4
    hq := fun i => if i = 1 then cvQC else eqQC2
    hb := fun i => if i = 1 then cvP3 else cvP2
    htc := fun i =>
      if i = 2 then ⟨some (.multi .ecdsa [⟨2, 14⟩, ⟨3, 15⟩, ⟨4, 16⟩]), 3⟩
      else if i = 3 then ⟨some (.multi .ecdsa [⟨3, 15⟩, ⟨2, 14⟩, ⟨4, 16⟩]), 3⟩
      else if i = 4 then ⟨some (.multi .ecdsa [⟨4, 16⟩, ⟨2, 14⟩, ⟨3, 15⟩]), 3⟩
      else ⟨none, 0⟩
    bt := fun i => i + 16 }

def eqS0 (j : Nat) : RState := (eqRun.1.reps.lookup j).getD {}
def eqBlk (h : Hash) : Block := ((eqS0 1).chain.blocks.lookup h).getD genesisBlock

/-- `RecPre.init` and `RecPre.parents` for replica `j` in state `s` against the table `T`, as one boolean -/
def preOK (D : RecData) (s : RState) (T : List (Nat × Atom)) (j : Nat) : Bool :=
  decide (s.view = D.v) && decide (s.queue.length = 0) && decide (s.timeouts = [D.tmsg recCfg j]) &&
  decide (s.highQC = D.hq j) && decide (s.waitingVC.length = 0) && decide (s.lastVoted ≤ D.v) &&
  recCfg.honest.all (fun i =>
    verifyQC (env exKeys (recCfg.rcfg j) { s with truth := T }) (D.hq i) &&
    decide (s.chain.blocks.lookup (D.hq i).hash = some (D.hb i)) &&
    decide ((D.hq i).view = (D.hb i).view) && decide ((D.hq i).view < D.v) &&
    verifyTC (env exKeys (recCfg.rcfg j) { s with truth := T }) (D.htc i) && decide ((D.htc i).view < D.v) &&
    acceptedB (fun b => T.lookup b) (recCfg.rcfg j).cfg (D.tmsg recCfg i) &&
    (decide ((D.hb i).qc.hash = "") || (s.chain.blocks.lookup (D.hb i).qc.hash).isSome))

theorem preInit_of_ok (D : RecData) (s : RState) (T : List (Nat × Atom)) (j : Nat) (h : preOK D s T j = true) :
    (RColl recCfg D s j [] s ∧ s.waitingVC = [] ∧ s.lastVoted ≤ D.v ∧
      KnowsAll exKeys recCfg D j { s with truth := T }) ∧
    ∀ i ∈ recCfg.honest, ((D.hb i).qc.hash = "" ∨ ∃ gb, s.chain.blocks.lookup (D.hb i).qc.hash = some gb) := by
  simp only [preOK, Bool.and_eq_true, decide_eq_true_eq, List.all_eq_true, Bool.or_eq_true] at h
  obtain ⟨⟨⟨⟨⟨⟨h1, h2⟩, h3⟩, h4⟩, h5⟩, h6⟩, h7⟩ := h
  refine ⟨⟨⟨Frame.refl _, h1, List.eq_nil_of_length_eq_zero h2, h3, h4⟩, List.eq_nil_of_length_eq_zero h5, h6, ?_, ?_, ?_⟩, ?_⟩
  · intro i hi
    obtain ⟨⟨⟨⟨⟨⟨⟨a1, a2⟩, a3⟩, a4⟩, _⟩, _⟩, _⟩, _⟩ := h7 i hi
    exact ⟨a1, a2, a3, a4⟩
  · intro i hi
    obtain ⟨⟨⟨⟨⟨⟨⟨_, _⟩, _⟩, _⟩, a5⟩, a6⟩, _⟩, _⟩ := h7 i hi
    exact ⟨a5, a6⟩
  · intro i hi
    obtain ⟨⟨⟨⟨⟨⟨⟨_, _⟩, _⟩, _⟩, _⟩, _⟩, a7⟩, _⟩ := h7 i hi
    exact accepted_of_acceptedB _ _ _ a7
  · intro i hi
    obtain ⟨_, a8⟩ := h7 i hi
    rcases a8 with a8 | a8
    · exact Or.inl a8
    · right
      cases hl : s.chain.blocks.lookup (D.hb i).qc.hash with
      | none => rw [hl] at a8; cases a8
      | some gb => exact ⟨gb, rfl⟩

def eqAllOK : Bool :=
  recCfg.honest.all fun j =>
    match eqRun.1.reps.lookup j with
    | some s => preOK eqData s eqRun.1.truth j
    | none => false

set_option maxRecDepth 100000 in
theorem eqAllOK_true : eqAllOK = true := by decide +kernel

theorem eq_rep (j : Nat) (hj : j ∈ recCfg.honest) :
    eqRun.1.reps.lookup j = some (eqS0 j) ∧ preOK eqData (eqS0 j) eqRun.1.truth j = true := by
  have h := List.all_eq_true.mp eqAllOK_true j hj
  unfold eqS0
  cases hl : eqRun.1.reps.lookup j with
  | none => rw [hl] at h; cases h
  | some s => rw [hl] at h; exact ⟨rfl, h⟩

theorem eqRun_reach : Reach exKeys recCfg eqRun.1 :=
  deliverAll_reach' exKeys recCfg _ _ (deliverAll_reach' exKeys recCfg _ _
    (deliverAll_reach' exKeys recCfg (syncRun exKeys recCfg 6).1 _ (syncRun_reach exKeys recCfg 6)))

/-- the certificate of replicas 2, 3, 4 is the highest of the quorum `{2, 3, 4}` -/
theorem eq_top : Top recCfg eqData 2 := by
  refine ⟨[2, 3, 4], by decide, by decide, by decide, by decide, ?_⟩
  intro x hx
  simp only [List.mem_cons, List.not_mem_nil, or_false] at hx
  rcases hx with rfl | rfl | rfl <;> decide

set_option maxRecDepth 100000 in
/-- **the hypotheses of `recovery_from_reachable` hold of that run too**, the high QCs differ (`QC(P3)`
at the leader, `QC(P2)` elsewhere), and the block of a `Top` certificate — `P2`, for the quorum
`{2, 3, 4}` — IS the lock of replica 1 -/
theorem recovery_from_reachable_nonvacuous_eq :
    KeysOK exKeys ∧ Reach exKeys recCfg eqRun.1 ∧ CA' eqRun.1 eqBlk ∧
    RecPre exKeys recCfg eqData eqS0 1 eqRun.1.truth ∧ RecStart recCfg eqS0 eqRun.1.truth eqRun.1 ∧
    eqRun.2 = (senderMajor recCfg).map (fun p => (p.1, Ev.timeout (eqData.tmsg recCfg p.2))) ∧
    Top recCfg eqData 2 ∧ eqData.hb 2 = (eqS0 1).lock ∧ (eqS0 1).lock.view = 2 := by
  have hreach := eqRun_reach
  refine ⟨tmoMsgKey_ne_blkMsg, hreach, ca'_of_ca'Check _ _ (by decide +kernel),
    ⟨rfl, by decide, by decide, by decide, by decide, by decide, rfl, by decide, ?_, by decide, ?_, ?_, ?_⟩,
    recStart_of_reach exKeys recCfg eqS0 eqRun.1 hreach (by decide +kernel) (fun j hj => (eq_rep j hj).1),
    by decide +kernel, eq_top, by decide +kernel, by decide +kernel⟩
  · intro j _; rfl
  · intro j hj; exact (preInit_of_ok _ _ _ j (eq_rep j hj).2).1
  · intro i hi
    simp only [recCfg, List.mem_cons, List.not_mem_nil, or_false] at hi
    rcases hi with rfl | rfl | rfl | rfl <;> decide +kernel
  · intro j hj i hi _
    exact (preInit_of_ok _ _ _ j (eq_rep j hj).2).2 i hi

/-- what `top_block_covers_lock` says there: for replica 1 and the `Top` certificate of `{2, 3, 4}` the
views are equal, and the blocks are the same -/
example : (eqS0 1).lock.view = (eqData.hb 2).view ∧ eqData.hb 2 = (eqS0 1).lock := by
  obtain ⟨hk, hr, hca, hP, h0, _, ht, _, _⟩ := recovery_from_reachable_nonvacuous_eq
  have h := top_block_covers_lock exKeys recCfg eqData eqS0 1 eqRun.1 eqBlk hk hr hca hP h0.reps 1 2 (by decide) (by decide) ht
  have hv : (eqS0 1).lock.view = (eqData.hb 2).view := by
    have : (eqS0 1).lock.view = 2 := by decide +kernel
    rw [this]; rfl
  exact ⟨hv, h.2 hv⟩

end NonVacuityEq
end HsVerif.Props.C05Cover
