import HsVerif.Proofs.SysDiscipline
/-! C01, system layer — the SYSTEM of replica models (Model/Sys.lean) keeps the voting discipline of
the abstract safety argument (Proofs/Safety.lean `Discipline`), all fields but the lock rule.
Property theorems only; the extended invariant, the abstraction `SysAbs` and the content addressing
hypothesis `CA` are in Proofs/SysDiscipline.lean.

Setting: any reachable state `σ` of the system (honest ids run the replica model against one global
signature table; the adversary schedules, delivers arbitrary events, decides what fetches return
and signs with the Byzantine keys), `blk : Hash → Block` naming the block of each hash, `CA σ blk`.
`SysAbs C σ blk` is then a `Safety.Sys`, and

  * `sys_gen`, `sys_inter`, `sys_one_per_view`, `sys_wf` are the fields `gen_view`/`par_gen`,
    `inter`, `one_per_view`, `wf` of `Discipline (SysAbs C σ blk)`;
  * `sys_discipline_of_lock` / `sys_safety_of_lock`: whoever supplies the remaining field `lock`
    gets `Discipline` and with it "two committed blocks are on one branch".

Adjustments to the formulation of `CA` (relative to the first draft of the task):
  * stored blocks: `b = blk h ∧ b.hash = h` instead of `b = blk h` — fetched blocks are stored under
    the REQUESTED hash, and the verifier checks the signatures over the hash FIELD of the stored
    block (`blkMsg b.hash`), so `verifyQC_certifies` needs the store to be keyed by the blocks' own
    hashes (`C02.StoreOK`);
  * voted blocks: the clause `b ≠ genesisBlock` is dropped, it is a theorem (`voted_ne_genesis`:
    a voted block has a positive view). -/
namespace HsVerif.Props.C01SysWF
open HsVerif.Model HsVerif.Props.C01Sys

/-- **The extended system invariant**: in every reachable state, every (honest) replica `i` with
state `s` satisfies `Cur` (fresh table; the certificate of every block voted for verifies against
the replica's CURRENT table and store) and `Stored` (every block voted for is stored under its
hash), and the replica's signature table is contained in the global one. -/
theorem sys_extended_invariant (k : Keys) (C : SysCfg) (σ : SysState) (hr : Reach k C σ)
    (i : Nat) (s : RState) (hl : σ.reps.lookup i = some s) :
    Cur k (C.rcfg i) s ∧ Stored s ∧ ∀ b a, s.truth.lookup b = some a → σ.truth.lookup b = some a :=
  ⟨(reach_cur k C σ hr i s hl).cur, (reach_cur k C σ hr i s hl).stored, (reach_cur k C σ hr i s hl).sub⟩

/-- genesis has view 0 and is its own parent -/
theorem sys_gen (C : SysCfg) (σ : SysState) (blk : Hash → Block) :
    (SysAbs C σ blk).view (SysAbs C σ blk).gen = 0 ∧
    (SysAbs C σ blk).par (SysAbs C σ blk).gen = (SysAbs C σ blk).gen :=
  ⟨rfl, by rw [sysAbs_par]; exact if_pos rfl⟩

/-- **Quorum intersection**: with at most `numFaulty n` of the ids `1..n` Byzantine, two quorums of
`SysAbs` share an honest replica. -/
theorem sys_inter (C : SysCfg) (σ : SysState) (blk : Hash → Block) (hn : 1 ≤ C.n) (hf : FewFaulty C) :
    ∀ Q1 Q2, (SysAbs C σ blk).Quorum Q1 → (SysAbs C σ blk).Quorum Q2 →
      ∃ r, Q1 r ∧ Q2 r ∧ (SysAbs C σ blk).honest r := by
  intro Q1 Q2 ⟨S1, hd1, hq1, hm1⟩ ⟨S2, hd2, hq2, hm2⟩
  obtain ⟨j, hj1, hj2, hjh⟩ := quorums_share_honest_id C.n hn C.honest S1 S2 hf
    hd1 hq1 (fun i hi => ⟨(hm1 i hi).1, (hm1 i hi).2.1⟩) hd2 hq2 (fun i hi => ⟨(hm2 i hi).1, (hm2 i hi).2.1⟩)
  exact ⟨j, (hm1 j hj1).2.2, (hm2 j hj2).2.2, hjh⟩

/-- **One vote per view**: two blocks of equal view an honest replica voted for are equal. -/
theorem sys_one_per_view (k : Keys) (C : SysCfg) (hk : KeysOK k) (σ : SysState) (hr : Reach k C σ)
    (blk : Hash → Block) :
    ∀ r x y, (SysAbs C σ blk).honest r → (SysAbs C σ blk).voted r x → (SysAbs C σ blk).voted r y →
      (SysAbs C σ blk).view x = (SysAbs C σ blk).view y → x = y := by
  intro r x y _ ⟨s, ix, hs, hx⟩ ⟨s', iy, hs', hy⟩ hv
  have : s' = s := by
    have : some s' = some s := by rw [← hs, ← hs']
    cases this; rfl
  subst this
  exact one_vote_per_view k _ s' (honest_vote_discipline k C hk σ hr r s' hs) x y ix iy hx hy hv

/-- a block an honest replica voted for is not the genesis block (its view is positive) -/
theorem voted_ne_genesis (k : Keys) (C : SysCfg) (hk : KeysOK k) (σ : SysState) (hr : Reach k C σ)
    (blk : Hash → Block) (r : Nat) (w : Block) (hv : (SysAbs C σ blk).voted r w) : w ≠ genesisBlock := by
  obtain ⟨s, id, hs, hm⟩ := hv
  obtain ⟨_, _, h3⟩ := honest_vote_discipline k C hk σ hr r s hs
  obtain ⟨_, _, hlt, _⟩ := h3 w id hm
  intro e
  rw [e] at hlt
  exact Nat.not_lt_zero _ hlt

/-- **A hash certified by the table is a certified block**: if a quorum of distinct ids `1..n` have
genuine signatures over the block message of `h` in the global table, the block `blk h` is
`Certified` in `SysAbs` — the honest members of the quorum really voted for it (unforgeability of
honest votes, and `CA`: the block they voted for, of hash `h`, is `blk h`). -/
theorem sys_certified_of_table (k : Keys) (C : SysCfg) (hk : KeysOK k) (σ : SysState) (hr : Reach k C σ)
    (blk : Hash → Block) (hca : CA σ blk) (h : Hash) (hc : CertifiedT C σ h) :
    HsVerif.Safety.Certified (SysAbs C σ blk) (blk h) := by
  obtain ⟨S, hd, hq, hm⟩ := hc
  refine ⟨fun i => ∃ bytes, σ.truth.lookup bytes = some ⟨i, blkMsg h⟩, ⟨S, hd, hq, hm⟩, ?_⟩
  intro r ⟨bytes, hb⟩ hh
  obtain ⟨s, hs, b, id, hbh, hv⟩ := honest_votes_unforgeable k C hk σ hr _ (mem_of_lookup _ _ _ hb) hh h rfl
  refine ⟨s, id, hs, ?_⟩
  have := (hca.2 r s hs).2 b id hv
  rw [hbh] at this
  rw [← this]; exact hv

/-- **Votes are well formed**: the parent of a block an honest replica voted for is genesis or
certified, and has a lower view.  (`Cur`: the block's certificate verifies against the replica's
table, which is part of the global one; a genesis certificate makes the parent genesis; any other
accepted certificate carries a quorum of genuine signatures over the parent's hash
(`verifyQC_certifies`), hence `sys_certified_of_table`; and the block stored under the certified
hash — which is the parent, by `CA` — has the certificate's view, below the block's.) -/
theorem sys_wf (k : Keys) (C : SysCfg) (hk : KeysOK k) (σ : SysState) (hr : Reach k C σ)
    (hsch : C.scheme ≠ .bls12) (blk : Hash → Block) (hca : CA σ blk) :
    ∀ r w, (SysAbs C σ blk).honest r → (SysAbs C σ blk).voted r w →
      HsVerif.Safety.GC (SysAbs C σ blk) ((SysAbs C σ blk).par w) ∧
      (SysAbs C σ blk).view ((SysAbs C σ blk).par w) < (SysAbs C σ blk).view w := by
  intro r w _ hvw
  have hne := voted_ne_genesis k C hk σ hr blk r w hvw
  obtain ⟨s, id, hs, hm⟩ := hvw
  obtain ⟨_, _, h3⟩ := honest_vote_discipline k C hk σ hr r s hs
  obtain ⟨_, hpar, hlt, _⟩ := h3 w id hm
  obtain ⟨hcur, _, hsub⟩ := sys_extended_invariant k C σ hr r s hs
  have hv : verifyQC (env k (C.rcfg r) s) w.qc = true := hcur.2 w id hm
  have hp : (SysAbs C σ blk).par w = blk w.qc.hash := by
    rw [sysAbs_par, if_neg hne, hpar]
  rw [hp]
  constructor
  · by_cases hg : w.qc.hash = genesisHash
    · left; rw [hg]; exact hca.1
    · right
      apply sys_certified_of_table k C hk σ hr blk hca
      have hso : C02.StoreOK (env k (C.rcfg r) s) := fun h b hb => ((hca.2 r s hs).1 h b hb).2
      obtain ⟨S, h1, h2, h3⟩ := verifyQC_certifies (env k (C.rcfg r) s) w.qc hsch hso hg hv
      refine ⟨S, h1, h2, ?_⟩
      intro j hj
      obtain ⟨a, b, bytes, hb⟩ := h3 j hj
      exact ⟨a, b, bytes, hsub _ _ hb⟩
  · show (blk w.qc.hash).view < w.view
    rcases verifyQC_blockView k _ s w.qc hv with ⟨hg, _⟩ | ⟨b, hb, hbv⟩
    · rw [hg, hca.1]; exact Nat.lt_of_le_of_lt (Nat.zero_le _) hlt
    · rw [← ((hca.2 r s hs).1 _ b hb).1, hbv]; exact hlt

/-- **The voting discipline, given the lock rule**: if the `lock` field holds of `SysAbs C σ blk`,
all of `Discipline (SysAbs C σ blk)` holds. -/
theorem sys_discipline_of_lock (k : Keys) (C : SysCfg) (hk : KeysOK k) (σ : SysState) (hr : Reach k C σ)
    (hn : 1 ≤ C.n) (hf : FewFaulty C) (hsch : C.scheme ≠ .bls12) (blk : Hash → Block) (hca : CA σ blk)
    (lock : ∀ r x w, (SysAbs C σ blk).honest r → (SysAbs C σ blk).voted r x → (SysAbs C σ blk).voted r w →
      (SysAbs C σ blk).view x < (SysAbs C σ blk).view w →
      ∃ l, HsVerif.Safety.GC (SysAbs C σ blk) l ∧
        (SysAbs C σ blk).view ((SysAbs C σ blk).par ((SysAbs C σ blk).par x)) ≤ (SysAbs C σ blk).view l ∧
        (SysAbs C σ blk).view l < (SysAbs C σ blk).view w ∧
        ((SysAbs C σ blk).view l < (SysAbs C σ blk).view ((SysAbs C σ blk).par w) ∨
          HsVerif.Safety.Ext (SysAbs C σ blk) w l)) :
    HsVerif.Safety.Discipline (SysAbs C σ blk) :=
  { gen_view := (sys_gen C σ blk).1, par_gen := (sys_gen C σ blk).2,
    inter := sys_inter C σ blk hn hf,
    one_per_view := sys_one_per_view k C hk σ hr blk,
    wf := sys_wf k C hk σ hr hsch blk hca,
    lock := lock }

/-- **Safety of the system, given the lock rule**: any two three-chains (commit conditions) of
`SysAbs C σ blk` are on one branch. -/
theorem sys_safety_of_lock (k : Keys) (C : SysCfg) (hk : KeysOK k) (σ : SysState) (hr : Reach k C σ)
    (hn : 1 ≤ C.n) (hf : FewFaulty C) (hsch : C.scheme ≠ .bls12) (blk : Hash → Block) (hca : CA σ blk)
    (lock : ∀ r x w, (SysAbs C σ blk).honest r → (SysAbs C σ blk).voted r x → (SysAbs C σ blk).voted r w →
      (SysAbs C σ blk).view x < (SysAbs C σ blk).view w →
      ∃ l, HsVerif.Safety.GC (SysAbs C σ blk) l ∧
        (SysAbs C σ blk).view ((SysAbs C σ blk).par ((SysAbs C σ blk).par x)) ≤ (SysAbs C σ blk).view l ∧
        (SysAbs C σ blk).view l < (SysAbs C σ blk).view w ∧
        ((SysAbs C σ blk).view l < (SysAbs C σ blk).view ((SysAbs C σ blk).par w) ∨
          HsVerif.Safety.Ext (SysAbs C σ blk) w l))
    {b b' b'' c c' c'' : (SysAbs C σ blk).Blk}
    (Tb : HsVerif.Safety.ThreeChain (S := SysAbs C σ blk) b b' b'')
    (Tc : HsVerif.Safety.ThreeChain (S := SysAbs C σ blk) c c' c'') :
    HsVerif.Safety.Ext (SysAbs C σ blk) b c ∨ HsVerif.Safety.Ext (SysAbs C σ blk) c b :=
  HsVerif.Safety.committed_on_one_branch (sys_discipline_of_lock k C hk σ hr hn hf hsch blk hca lock) Tb Tc

/-! Non-vacuity.  (a) The run `exState` of Props/C01Sys.lean (ids 1, 2, 3 honest, id 4 Byzantine;
the leader of view 1 proposes `P1` on the genesis certificate, everybody votes): the hypotheses of
`sys_wf` hold together, for replica 1 and its vote for `P1`.  (b) The run continued: the three
votes for `P1` are delivered to replica 3, the leader of view 2, which assembles the certificate,
advances and proposes and votes for `P2` — a vote whose certificate is NOT the genesis certificate,
so `sys_wf` goes through `verifyQC_certifies` and `sys_certified_of_table`; its conclusion makes
`P1` a certified block of the abstract system.  Runs evaluated by the kernel (`decide +kernel`). -/
section NonVacuity

def wfBlock2 : Block :=
  { hash := "P2", parent := "P1", view := 2, proposer := 3,
    qc := ⟨some (.multi .ecdsa [⟨3, 4⟩, ⟨1, 3⟩, ⟨2, 1⟩]), 1, "P1"⟩, cmds := ["103/1/c1"] }

/-- "the block with that hash" in both runs -/
def wfBlk (h : Hash) : Block := if h = "P1" then exBlock else if h = "P2" then wfBlock2 else genesisBlock

def wfActs : List SysAct :=
  exActs ++
  [.deliver 3 (.vote 1 (some (.multi .ecdsa [⟨1, 3⟩])) "P1" false),
   .deliver 3 (.vote 2 (some (.multi .ecdsa [⟨2, 1⟩])) "P1" false),
   .deliver 3 (.vote 3 (some (.multi .ecdsa [⟨3, 4⟩])) "P1" false)]
def wfState : SysState := sysRun exKeys exCfg wfActs

set_option maxRecDepth 100000 in
example : KeysOK exKeys ∧ Reach exKeys exCfg exState ∧ 1 ≤ exCfg.n ∧ FewFaulty exCfg ∧ exCfg.scheme ≠ .bls12 ∧
    CA exState wfBlk ∧ (SysAbs exCfg exState wfBlk).honest 1 ∧ (SysAbs exCfg exState wfBlk).voted 1 exBlock :=
  ⟨tmoMsgKey_ne_blkMsg, reach_run _ _ _, by decide, by unfold FewFaulty; decide, by decide,
    ca_of_caCheck _ _ (by decide +kernel), by decide,
    voted_of_votedCheck _ _ _ 1 exBlock 2 (by decide +kernel)⟩

set_option maxRecDepth 100000 in
/-- run (b): the hypotheses of `sys_wf` (and of `sys_discipline_of_lock`, bar the lock rule) hold
together, for replica 3 and its vote for `P2`, whose certificate is not the genesis certificate -/
theorem sys_wf_nonvacuous : KeysOK exKeys ∧ Reach exKeys exCfg wfState ∧ 1 ≤ exCfg.n ∧ FewFaulty exCfg ∧ exCfg.scheme ≠ .bls12 ∧
    CA wfState wfBlk ∧ (SysAbs exCfg wfState wfBlk).honest 3 ∧ (SysAbs exCfg wfState wfBlk).voted 3 wfBlock2 ∧
    wfBlock2.qc.hash ≠ genesisHash :=
  ⟨tmoMsgKey_ne_blkMsg, reach_run _ _ _, by decide, by unfold FewFaulty; decide, by decide,
    ca_of_caCheck _ _ (by decide +kernel), by decide,
    voted_of_votedCheck _ _ _ 3 wfBlock2 3 (by decide +kernel), by decide⟩

/-- what `sys_wf` yields in run (b): `P1`, the parent of `P2`, is a certified block -/
example : HsVerif.Safety.Certified (SysAbs exCfg wfState wfBlk) exBlock := by
  obtain ⟨hk, hr, _, _, hs, hca, hh, hv, _⟩ := sys_wf_nonvacuous
  have hp : (SysAbs exCfg wfState wfBlk).par wfBlock2 = exBlock := by decide
  rcases (sys_wf exKeys exCfg hk wfState hr hs wfBlk hca 3 wfBlock2 hh hv).1 with h | h
  · rw [hp] at h; exact absurd h (by decide)
  · rw [hp] at h; exact h

end NonVacuity

end HsVerif.Props.C01SysWF
