import HsVerif.Props.C01Ledger
import HsVerif.Props.C03
/-! C07, the clause "the view of the last committed block never decreases".

The committer moves `committed` only to a block whose view is above that of the block committed
before the call (`commitInner` walks down stored parent links only while the view is above the
committed view and sets `committed` on the way back up), so no system-level fact is needed; the
Hoare-logic chain through all handlers is in Proofs/ReplicaLog.lean (task S5).  The side condition
`waitCommits s = []` (no internal commit event sits in the lists of deferred events) holds in the
initial state and is preserved; it is discharged below for every run from the initial state and, in
`committed_view_never_decreases_sys`, for every reachable state of the system of replica models. -/
namespace HsVerif.Props.C07Commit
open HsVerif.Model HsVerif.Props.C03 HsVerif.Props.C01Ledger

/-- one delivered event, any state without deferred internal commit events -/
theorem committed_view_never_decreases_step (k : Keys) (c : RCfg) (s : RState) (e : Ev) (hw : waitCommits s = []) :
    s.committed.view ≤ (step k c s e).1.committed.view ∧ waitCommits (step k c s e).1 = [] :=
  committed_view_monotone_step k c s e hw

/-- along any list of events from any such state -/
theorem committed_view_never_decreases_run (k : Keys) (c : RCfg) (es : List Ev) (s : RState) (hw : waitCommits s = []) :
    s.committed.view ≤ (runEvents k c s es).committed.view ∧ waitCommits (runEvents k c s es) = [] := by
  induction es generalizing s with
  | nil => exact ⟨Nat.le_refl _, hw⟩
  | cons e es ih =>
    obtain ⟨h1, h2⟩ := committed_view_monotone_step k c s e hw
    obtain ⟨h3, h4⟩ := ih (step k c s e).1 h2
    exact ⟨Nat.le_trans h1 h3, h4⟩

/-- **between any two points of any run from the initial state** (any events, in any order) -/
theorem committed_view_never_decreases (k : Keys) (c : RCfg) (es more : List Ev) :
    (runEvents k c (start k c {}).1 es).committed.view ≤ (runEvents k c (start k c {}).1 (es ++ more)).committed.view := by
  obtain ⟨_, _, _, hw0, _, _⟩ := HsVerif.Props.C01Ledger.start_log k c {} rfl
  have h1 := (committed_view_never_decreases_run k c es _ hw0).2
  have : runEvents k c (start k c {}).1 (es ++ more) = runEvents k c (runEvents k c (start k c {}).1 es) more := by
    simp [runEvents, List.foldl_append]
  rw [this]
  exact (committed_view_never_decreases_run k c more _ h1).1

/-- **in the system of replica models**: across any action of the adversary from any reachable state -/
theorem committed_view_never_decreases_sys (k : Keys) (C : SysCfg) (σ : SysState) (hr : Reach k C σ) (a : SysAct)
    (i : Nat) (s s' : RState) (hs : σ.reps.lookup i = some s) (hs' : (sysStep k C σ a).reps.lookup i = some s') :
    s.committed.view ≤ s'.committed.view :=
  committed_view_monotone_sys k C σ hr a i s s' hs hs'

end HsVerif.Props.C07Commit
